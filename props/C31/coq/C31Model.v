(* C31 -- executable Gallina model of tfel::utilities::CxxTokenizer (src/Utilities/CxxTokenizer.cxx), DEFINITIONS ONLY.
   Options modelled: the defaults of CxxTokenizerOptions, plus `charAsString` (parameter [cas], set by mtest).
   NOT modelled: raw strings R"d(...)d" (result [Unsup], such inputs are excluded from every comparison),
   additional separators, mergeStrings, keepCommentBoundaries, the hash/backslash/number/string switches,
   addCurlyBraces, the `comments` map filled by stripComments.
   The model mirrors the control flow of splitLine / parseStandardLine / parseNumber / parseString / parseChar /
   parseCComment / parseCxxComment / parsePreprocessorDirective / stripComments, oddities included
   (NUL is a separator because the separator array has one slot too many; "->*" is never produced; is_hex stops at '7';
   binary / hexadecimal literals are only accepted at the end of a line; 1e+5 is not "float"; ...). *)
From Coq Require Import Ascii List Bool Arith NArith.
Import ListNotations.
Local Open Scope char_scope.
Local Open Scope bool_scope.

Definition str := list ascii.

Inductive flag := Standard | Comment | Number | DoxygenComment | DoxygenBackwardComment | String | Char | Preprocessor.

Record token := mkTok { tvalue : str; tline : nat; toffset : nat; tcomment : str; tflag : flag }.

Inductive result (A : Type) := Ok (a : A) | Err | Unsup | OutOfFuel.
Arguments Ok {A} a.
Arguments Err {A}.
Arguments Unsup {A}.
Arguments OutOfFuel {A}.

Notation "a == b" := (Ascii.eqb a b) (at level 70, no associativity).

(* what varies: the option charAsString, and which of the repairs of props/C31/fix_*.diff the code contains
   (o_hex: fix_hex_binary_literals.diff, o_exp: fix_exponent_is_float.diff, o_arrow: fix_arrow_star.diff);
   all false = the pinned parseNumber / parseStandardLine *)
Record opts := mkOpts { o_cas : bool; o_hex : bool; o_exp : bool; o_arrow : bool }.
Definition pinned (cas : bool) : opts := mkOpts cas false false false.
Definition repaired (cas : bool) : opts := mkOpts cas true true true.

(* ---------------------------------------------------------------- character classes ("C" locale) *)
Definition code (c : ascii) : N := N_of_ascii c.
Definition in_range (lo hi : N) (c : ascii) : bool := N.leb lo (code c) && N.leb (code c) hi.
Definition isdigit (c : ascii) : bool := in_range 48 57 c.
Definition isalpha (c : ascii) : bool := in_range 65 90 c || in_range 97 122 c.
Definition isspace (c : ascii) : bool := (code c =? 32)%N || in_range 9 13 c.
(* struct is_separator with dot/plus/minus/grave accent as separators; the 24th slot of the array is NUL *)
Definition sep_chars : str :=
  ["?"; ";"; "/"; "!"; "&"; "*"; "|"; "{"; "}"; "["; "]"; "("; ")"; "%"; "="; "^"; ","; ":"; "<"; ">"; "'"; """"; "\";
   "000"; "."; "+"; "-"; "`"].
Definition is_separator (c : ascii) : bool := existsb (fun d => c == d) sep_chars.
Definition sep_or_space (c : ascii) : bool := isspace c || is_separator c.
Definition is_binary (c : ascii) : bool := (c == "0") || (c == "1").
Definition is_hex (o : opts) (c : ascii) : bool :=
  in_range 48 (if o_hex o then 57 else 55) c || in_range 97 102 c || in_range 65 70 c.
Definition is_word_char (c : ascii) : bool := isalpha c || isdigit c || (c == "_").

Definition hd_is (p : ascii -> bool) (s : str) : bool := match s with c :: _ => p c | [] => false end.

Fixpoint take_while (p : ascii -> bool) (s : str) : str :=
  match s with c :: tl => if p c then c :: take_while p tl else [] | [] => [] end.
Fixpoint drop_while (p : ascii -> bool) (s : str) : str :=
  match s with c :: tl => if p c then drop_while p tl else s | [] => [] end.
Definition count_space (s : str) : nat := length (take_while isspace s).

(* ---------------------------------------------------------------- parseNumber *)
(* the loop over digits and C++14 digit separators: a quote must be followed by a digit *)
Fixpoint digits_q (s : str) : option str :=
  match s with
  | [] => Some []
  | c :: tl =>
    if isdigit c then digits_q tl
    else if c == "'" then
      match tl with
      | d :: tl' => if isdigit d then digits_q tl' else None
      | [] => None
      end
    else Some s
  end.

(* the loop over the digits of a binary / hexadecimal literal: every digit must satisfy ok *)
Fixpoint digits_chk (ok : ascii -> bool) (s : str) : option str :=
  match s with
  | [] => Some []
  | c :: tl => if isdigit c then (if ok c then digits_chk ok tl else None) else Some s
  end.

(* the repaired loops: hexadecimal digits, resp. binary digits, with C++14 digit separators *)
Fixpoint digits_hq (ok : ascii -> bool) (s : str) : option str :=
  match s with
  | [] => Some []
  | c :: tl =>
    if ok c then digits_hq ok tl
    else if c == "'" then
      match tl with
      | d :: tl' => if ok d then digits_hq ok tl' else None
      | [] => None
      end
    else Some s
  end.
Fixpoint digits_bq (s : str) : option str :=
  match s with
  | [] => Some []
  | c :: tl =>
    if isdigit c then (if is_binary c then digits_bq tl else None)
    else if c == "'" then
      match tl with
      | d :: tl' => if is_binary d then digits_bq tl' else None
      | [] => None
      end
    else Some s
  end.

Definition isl (c : ascii) := (c == "l") || (c == "L").
Definition isu (c : ascii) := (c == "u") || (c == "U").
Definition isf (c : ascii) := (c == "f") || (c == "F").

Definition num_suffix (fl signed : bool) (s : str) : option str :=
  match s with
  | [] => Some []
  | c :: t =>
    if (fl && (isl c || isf c)) || (negb fl && (isu c || isl c)) then
      if isu c && signed then None
      else if isf c then Some t
      else if isl c then
        match t with
        | d :: t' =>
          if isl d then
            (if fl then None
             else match t' with
                  | u :: t'' => if isu u then (if signed then None else Some t'') else Some t'
                  | [] => Some t'
                  end)
          else if isu d then (if fl || signed then None else Some t')
          else Some t
        | [] => Some t
        end
      else if isu c then
        match t with
        | d :: t' =>
          if isl d then match t' with d2 :: t'' => if isl d2 then Some t'' else Some t' | [] => Some t' end
          else Some t
        | [] => Some t
        end
      else Some t
    else Some s
  end.

(* C++11 user defined literal *)
Definition num_udl (s : str) : option str :=
  match s with
  | c :: t => if c == "_" then (match t with [] => None | _ => Some (drop_while is_word_char t) end) else Some s
  | [] => Some []
  end.

Definition num_exponent (o : opts) (fl : bool) (s4 : str) : option (bool * str) :=
  match s4 with
  | [] => Some (fl, s4)
  | c :: t4 =>
    if (c == "e") || (c == "E") then
      match t4 with
      | [] => None
      | d :: t5 =>
        let r := if (d == "+") || (d == "-") then (o_exp o || fl || (d == "-"), t5) else (o_exp o || fl, t4) in
        match snd r with
        | [] => None
        | g :: t6 => if isdigit g then (match digits_q t6 with Some s5 => Some (fst r, s5) | None => None end) else None
        end
      end
    else Some (fl, s4)
  end.

Definition no_dot (s : str) : bool := negb (hd_is (fun c => c == ".") s).

(* after the optional sign and the prefix: [fl] is_float, [hx] hexadecimal, [bn] binary *)
Definition is_e (c : ascii) : bool := (c == "e") || (c == "E").
Definition num_rest (o : opts) (signed fl hx bn : bool) (s2 : str) : option str :=
  match digits_q s2 with
  | None => None
  | Some s3 =>
    match (if hd_is (fun c => c == ".") s3
           then (if hx || bn || fl then None
                 else match digits_q (List.tl s3) with Some r => Some (true, r) | None => None end)
           else Some (fl, s3)) with
    | None => None
    | Some (fl1, s4) =>
      if negb (no_dot s4) then None
      else if (match s4 with [] => false | c4 :: _ => if o_hex o then bn && is_e c4 else hx || bn end) then None
      else match num_exponent o fl1 s4 with
           | None => None
           | Some (fl2, s5) =>
             if negb (no_dot s5) then None
             else match num_suffix fl2 signed s5 with
                  | None => None
                  | Some s6 =>
                    if negb (no_dot s6) then None
                    else match num_udl s6 with
                         | None => None
                         | Some s7 => if no_dot s7 then Some s7 else None
                         end
                  end
           end
    end
  end.

Definition num_after_sign (o : opts) (signed : bool) (s1 : str) : option str :=
  match s1 with
  | [] => None
  | c :: t1 =>
    if negb (isdigit c || (c == ".")) then None
    else if c == "." then
      (if hd_is isdigit t1 then num_rest o signed true false false t1 else None)
    else if c == "0" then
      match t1 with
      | [] => num_rest o signed false false false []
      | x :: t2 =>
        if (x == "b") || (o_hex o && (x == "B")) then
          (if hd_is is_binary t2
           then match (if o_hex o then digits_bq t2 else digits_chk is_binary t2) with
                | Some r => num_rest o signed false false true r | None => None end
           else None)
        else if (x == "x") || (o_hex o && (x == "X")) then
          (if hd_is (is_hex o) t2
           then match (if o_hex o then digits_hq (is_hex o) t2 else digits_chk (is_hex o) t2) with
                | Some r => num_rest o signed false true false r | None => None end
           else None)
        else num_rest o signed false false false s1
      end
    else num_rest o signed false false false s1
  end.

(* returns the remaining text after the literal *)
Definition parse_number (o : opts) (s : str) : option str :=
  match s with
  | [] => None
  | c :: tl => if (c == "-") || (c == "+") then num_after_sign o (c == "-") tl else num_after_sign o false s
  end.

(* ---------------------------------------------------------------- parseString / parseChar *)
(* index (in s) of the closing quote: the first e preceded by an even number of consecutive backslashes
   (the backward loop of the code, on the reversed text already seen) *)
Fixpoint find_close (e : ascii) (seen_rev : str) (s : str) : option nat :=
  match s with
  | [] => None
  | c :: tl =>
    if (c == e) && Nat.even (length (take_while (fun x => x == "\") seen_rev)) then Some 0
    else match find_close e (c :: seen_rev) tl with Some i => Some (S i) | None => None end
  end.

(* ---------------------------------------------------------------- comments *)
Fixpoint find_star_slash (s : str) : option nat :=
  match s with
  | [] => None
  | c :: tl =>
    if (c == "*") && hd_is (fun d => d == "/") tl then Some 0
    else match find_star_slash tl with Some i => Some (S i) | None => None end
  end.

(* length of l without its trailing white space *)
Fixpoint rstrip_len (l : str) : nat :=
  match l with
  | [] => 0
  | c :: tl => let r := rstrip_len tl in if Nat.eqb r 0 && isspace c then 0 else S r
  end.

(* after the two-character opener: number of '!' / '<' characters and the flag *)
Definition comment_kind (first : bool) (t2 : str) : nat * flag :=
  match t2 with
  | c :: t3 =>
    if c == "!" then
      (if hd_is (fun d => d == "<") t3
       then (2, if first then Comment else DoxygenBackwardComment)
       else (1, if first then Comment else DoxygenComment))
    else (0, Comment)
  | [] => (0, Comment)
  end.

(* result of the scan of one token at the head c :: tl of the remaining text *)
Inductive scan :=
| SPlain (k : nat) (f : flag)                      (* token = c :: firstn k tl *)
| SComment (extra len post : nat) (f : flag) (opened : bool)
     (* 2 + extra characters of opener and white space, then the value (len), then post characters *)
| SErr
| SUnsup.

Definition scan_cxx_comment (first : bool) (t2 : str) : scan :=
  let '(x, f) := comment_kind first t2 in
  let body := skipn x t2 in
  let sp := count_space body in
  SComment (x + sp) (length body - sp) 0 f false.

Definition scan_c_comment (first : bool) (t2 : str) : scan :=
  let '(x, f) := comment_kind first t2 in
  let body := skipn x t2 in
  let sp := count_space body in
  let cs := skipn sp body in
  match find_star_slash cs with
  | Some i => let len := rstrip_len (firstn i cs) in SComment (x + sp) len (i - len + 2) f false
  | None => let len := rstrip_len cs in SComment (x + sp) len (length cs - len) f true
  end.

Definition scan_number (o : opts) (s : str) : scan :=
  match parse_number o s with
  | Some r => SPlain (pred (length s - length r)) Number
  | None => SErr
  end.

Definition scan_string (e : ascii) (tl : str) : scan :=
  match find_close e [] tl with Some i => SPlain (S i) String | None => SErr end.

Definition scan_char (tl : str) : scan :=
  match tl with
  | [] => SErr
  | c :: t2 =>
    if c == "\" then
      match t2 with
      | _ :: y :: _ => if y == "'" then SPlain 3 Char else SErr
      | _ => SErr
      end
    else match t2 with
         | d :: _ => if d == "'" then SPlain 2 Char else SErr
         | [] => SErr   (* the code reads the terminating NUL of the line here *)
         end
  end.

Definition join1 (x : ascii) (tl : str) : scan := SPlain (if hd_is (fun d => d == x) tl then 1 else 0) Standard.
Definition join2 (x y : ascii) (tl : str) : scan :=
  SPlain (if hd_is (fun d => (d == x) || (d == y)) tl then 1 else 0) Standard.

(* (p == b) || is_separator_or_space( *prev(p)) *)
Definition psep (prevc : option ascii) : bool := match prevc with None => true | Some c => sep_or_space c end.

(* one iteration of the loop of parseStandardLine, at the non-space character c followed by tl *)
Definition scan_token (cas : opts) (first : bool) (prevc : option ascii) (c : ascii) (tl : str) : scan :=
  if c == "#" then
    match tl with [] => SErr | d :: _ => if isalpha d then SPlain 0 Standard else SErr end
  else if c == "\" then
    match tl with [] => SPlain 0 Standard | _ => SErr end
  else if isdigit c then scan_number cas (c :: tl)
  else if (c == "R") && hd_is (fun d => d == """") tl then SUnsup
  else if c == """" then scan_string """" tl
  else if c == "'" then (if o_cas cas then scan_string "'" tl else scan_char tl)
  else if c == "<" then join2 "<" "=" tl
  else if c == ">" then join2 ">" "=" tl
  else if c == ":" then join1 ":" tl
  else if (c == "+") || (c == "-") then
    if hd_is (fun d => d == c) tl then SPlain 1 Standard
    else if (c == "-") && hd_is (fun d => d == ">") tl then
      (if o_arrow cas && hd_is (fun d => d == "*") (List.tl tl) then SPlain 2 Standard else SPlain 1 Standard)
    else if psep prevc && hd_is (fun d => (d == ".") || isdigit d) tl then scan_number cas (c :: tl)
    else join1 "=" tl
  else if c == "/" then
    if hd_is (fun d => d == "/") tl then scan_cxx_comment first (List.tl tl)
    else if hd_is (fun d => d == "*") tl then scan_c_comment first (List.tl tl)
    else join1 "=" tl
  else if (c == "*") || (c == "%") || (c == "!") || (c == "=") then join1 "=" tl
  else if c == "&" then join1 "&" tl
  else if c == "." then (if hd_is isdigit tl then scan_number cas (c :: tl) else join2 "." "*" tl)
  else if c == "|" then join2 "|" "=" tl
  else if sep_or_space c then SPlain 0 Standard
  else SPlain (length (take_while (fun d => negb (sep_or_space d)) tl)) Standard.

(* ---------------------------------------------------------------- the loop of parseStandardLine *)
Definition filter_quote (s : str) : str := filter (fun c => negb (c == "'")) s.
Definition last_char (s : str) (d : option ascii) : option ascii :=
  match s with [] => d | c :: tl => Some (last tl c) end.

(* [o] offset of [rest] in the line, [prevc] the character before [rest] (None at the position b of the code),
   [first] = tokens.empty().  Returns the tokens of the line and whether a C comment is left open. *)
Fixpoint std_loop (fuel : nat) (cas : opts) (ln : nat) (first : bool) (prevc : option ascii) (o : nat) (rest : str)
  : result (list token * bool) :=
  match fuel with
  | 0 => OutOfFuel
  | S fuel' =>
    let ws := count_space rest in
    match skipn ws rest with
    | [] => Ok ([], false)
    | c :: tl =>
      let prevc1 := last_char (firstn ws rest) prevc in
      match scan_token cas first prevc1 c tl with
      | SErr => Err
      | SUnsup => Unsup
      | SPlain k f =>
        let raw := c :: firstn k tl in
        let t := mkTok (match f with Number => filter_quote raw | _ => raw end) ln (o + ws) [] f in
        match std_loop fuel' cas ln false (last_char raw None) (o + ws + S k) (skipn k tl) with
        | Ok (ts, op) => Ok (t :: ts, op)
        | e => e
        end
      | SComment extra len post f opened =>
        let pre := 2 + extra in
        let t := mkTok (firstn len (skipn pre (c :: tl))) ln (o + ws + pre) [] f in
        if opened then Ok ([t], true)
        else
          let n := pre + len + post in
          match std_loop fuel' cas ln false (last_char (firstn n (c :: tl)) None) (o + ws + n) (skipn n (c :: tl)) with
          | Ok (ts, op) => Ok (t :: ts, op)
          | e => e
          end
      end
    end
  end.

Definition pp_keywords : list str :=
  [["d"; "e"; "f"; "i"; "n"; "e"];
   ["u"; "n"; "d"; "e"; "f"];
   ["i"; "n"; "c"; "l"; "u"; "d"; "e"];
   ["l"; "i"; "n"; "e"];
   ["e"; "r"; "r"; "o"; "r"];
   ["i"; "f"];
   ["i"; "f"; "d"; "e"; "f"];
   ["i"; "f"; "n"; "d"; "e"; "f"];
   ["e"; "l"; "i"; "f"];
   ["e"; "l"; "s"; "e"];
   ["e"; "n"; "d"; "i"; "f"];
   ["p"; "r"; "a"; "g"; "m"; "a"];
   ["w"; "a"; "r"; "n"; "i"; "n"; "g"]].
Definition str_eqb (a b : str) : bool := if list_eq_dec ascii_dec a b then true else false.

(* splitLine after the treatment of an open comment: [rest] is the remaining text of the line at offset [o] *)
Definition line_body (cas : opts) (ln : nat) (first : bool) (prevc : option ascii) (o : nat) (rest : str)
  : result (list token * bool) :=
  let ws := count_space rest in
  match skipn ws rest with
  | c :: tl =>
    if c == "#" then
      (* parsePreprocessorDirective *)
      let ws2 := count_space tl in
      let r2 := skipn ws2 tl in
      match r2 with
      | [] => Err
      | _ =>
        let key := take_while (fun d => negb (sep_or_space d)) r2 in
        match key with
        | [] => Err
        | _ =>
          if existsb (str_eqb key) pp_keywords then
            let t1 := mkTok ["#"] ln (o + ws) [] Preprocessor in
            let o2 := o + ws + 1 + ws2 in
            let t2 := mkTok key ln o2 [] Preprocessor in
            let r3 := skipn (length key) r2 in
            match std_loop (S (length r3)) cas ln false None (o2 + length key) r3 with
            | Ok (ts, op) => Ok (t1 :: t2 :: ts, op)
            | e => e
            end
          else Err
        end
      end
    else std_loop (S (length rest)) cas ln first prevc o rest
  | [] => std_loop (S (length rest)) cas ln first prevc o rest
  end.

(* ---------------------------------------------------------------- splitLine / parseStream *)
Definition is_comment_flag (f : flag) : bool :=
  match f with Comment | DoxygenComment | DoxygenBackwardComment => true | _ => false end.

Definition append_value (t : token) (s : str) : token :=
  mkTok (match tvalue t with [] => s | v => v ++ "010" :: s end) (tline t) (toffset t) (tcomment t) (tflag t).

(* state: the tokens so far in REVERSE order, and cStyleCommentOpened *)
Definition split_line (cas : opts) (ln : nat) (st : list token * bool) (line : str) : result (list token * bool) :=
  let '(acc, opened) := st in
  let continue (acc : list token) (prevc : option ascii) (o : nat) (rest : str) :=
    match line_body cas ln (match acc with [] => true | _ => false end) prevc o rest with
    | Ok (ts, op) => Ok (rev_append ts acc, op)
    | Err => Err
    | Unsup => Unsup
    | OutOfFuel => OutOfFuel
    end in
  if opened then
    match acc with
    | [] => Err  (* unreachable from parseString: the flag is set right after a comment token is pushed *)
    | t0 :: acc0 =>
      if negb (is_comment_flag (tflag t0)) then Err
      else match find_star_slash line with
           | None => Ok (append_value t0 line :: acc0, true)
           | Some i => continue (append_value t0 (firstn i line) :: acc0) (Some "/") (i + 2) (skipn (i + 2) line)
           end
    end
  else continue acc None 0 line.

Fixpoint split_nl (cur_rev : str) (s : str) : list str :=
  match s with
  | [] => [rev cur_rev]
  | c :: tl => if c == "010" then rev cur_rev :: split_nl [] tl else split_nl (c :: cur_rev) tl
  end.

Fixpoint lex_lines (cas : opts) (ln : nat) (st : list token * bool) (lines : list str) : result (list token) :=
  match lines with
  | [] => Ok (rev (fst st))
  | l :: ls =>
    match split_line cas ln st l with
    | Ok st' => lex_lines cas (S ln) st' ls
    | Err => Err
    | Unsup => Unsup
    | OutOfFuel => OutOfFuel
    end
  end.

(* CxxTokenizer::parseString(s) *)
Definition lex (cas : opts) (s : str) : result (list token) := lex_lines cas 1 ([], false) (split_nl [] s).

(* ---------------------------------------------------------------- stripComments *)
Definition add_comment (nl : bool) (t : token) (s : str) : token :=
  mkTok (tvalue t) (tline t) (toffset t)
        (match tcomment t with [] => s | v => if nl then v ++ "010" :: s else v ++ s end) (tflag t).
Definition is_standard (f : flag) : bool := match f with Standard => true | _ => false end.

(* [fx] = false: the pinned code (`--p2; if (p2 != begin)`: nothing is attached when the previous token is the first one,
   and a backward comment with no previous token makes the code read before the vector: result None);
   [fx] = true: the code with props/C31/fix_strip_backward.diff *)
Fixpoint strip_go (fx : bool) (done_rev : list token) (cur : token) (rest : list token) : option (list token) :=
  let next (d : list token) (m : token -> token) :=
    match rest with [] => Some (rev d) | t2 :: r2 => strip_go fx d (m t2) r2 end in
  match tflag cur with
  | Comment => next done_rev (fun t => t)
  | DoxygenComment =>
    next done_rev (fun t2 =>
      match tflag t2 with
      | Standard => add_comment true t2 (tvalue cur)
      | DoxygenComment => mkTok (tvalue cur ++ "010" :: tvalue t2) (tline t2) (toffset t2) (tcomment t2) (tflag t2)
      | _ => t2
      end)
  | DoxygenBackwardComment =>
    match done_rev with
    | [] => if fx then next done_rev (fun t => t) else None
    | t1 :: d1 =>
      let attach := if is_standard (tflag t1) then add_comment false t1 (tvalue cur) :: d1 else done_rev in
      match d1 with
      | [] => next (if fx then attach else done_rev) (fun t => t)
      | _ => next attach (fun t => t)
      end
    end
  | _ => next (cur :: done_rev) (fun t => t)
  end.

Definition strip_comments (fx : bool) (l : list token) : option (list token) :=
  match l with [] => Some [] | t :: r => strip_go fx [] t r end.

// C31 driver: runs the REAL tfel::utilities::CxxTokenizer (src/Utilities/CxxTokenizer.cxx, Token.cxx,
// CxxTokenizerOptions.cxx compiled from REPO) on the cases of a case file and prints one result line per case.
//   case:   <mode> <hex of the input, "-" = empty>
//   mode:   L0 | L1   parseString with charAsString = 0 | 1, token records printed
//           S0 | S1   the same followed by stripComments(), records printed with the attached comment
//   result: "ERR" (the tokenizer threw) or "T <n>" followed by n records  hex(value)/flag/line/offset/hex(comment)
#include <cstdio>
#include <exception>
#include <fstream>
#include <iostream>
#include <string>
#include "TFEL/Utilities/CxxTokenizer.hxx"

static std::string unhex(const std::string& h) {
  std::string r;
  if (h == "-") return r;
  auto v = [](const char c) { return (c <= '9') ? c - '0' : c - 'a' + 10; };
  for (std::size_t i = 0; i + 1 < h.size(); i += 2) {
    r.push_back(static_cast<char>(v(h[i]) * 16 + v(h[i + 1])));
  }
  return r;
}
static void hex(std::string& r, const std::string& s) {
  static const char* d = "0123456789abcdef";
  if (s.empty()) {
    r.push_back('-');
    return;
  }
  for (unsigned char c : s) {
    r.push_back(d[c >> 4]);
    r.push_back(d[c & 15]);
  }
}

int main(const int argc, const char* const* argv) {
  if (argc < 2) return 2;
  std::ifstream in(argv[1]);
  std::string mode, h, out;
  while (in >> mode >> h) {
    const auto s = unhex(h);
    out.clear();
    try {
      tfel::utilities::CxxTokenizer t;
      t.treatCharAsString(mode[1] == '1');
      t.parseString(s);
      if (mode[0] == 'S') {
        t.stripComments();
      }
      out = "T " + std::to_string(t.size());
      for (const auto& k : t) {
        out.push_back(' ');
        hex(out, k.value);
        out += "/" + std::to_string(static_cast<int>(k.flag)) + "/" + std::to_string(k.line) + "/" +
               std::to_string(k.offset) + "/";
        hex(out, k.comment);
      }
    } catch (std::exception&) {
      out = "ERR";
    }
    std::puts(out.c_str());
  }
  return 0;
}

(* C31: runs the extracted Gallina model (C31Model.lex / strip_comments) on the same case file as driver.cxx,
   same output format.  usage: c31_ml <cases> <fx_strip>  (0 = pinned stripComments, 1 = with fix_strip_backward.diff)
   extra outputs: UNSUP (raw string: not modelled), FUEL (never), UB (stripComments reads before the vector) *)
open C31_model

let ascii_of_int n =
  let b i = (n lsr i) land 1 = 1 in
  Ascii (b 0, b 1, b 2, b 3, b 4, b 5, b 6, b 7)

let int_of_ascii = function
  | Ascii (a, b, c, d, e, f, g, h) ->
    let v x i = if x then 1 lsl i else 0 in
    v a 0 + v b 1 + v c 2 + v d 3 + v e 4 + v f 5 + v g 6 + v h 7

let table = Array.init 256 ascii_of_int

let rec int_of_nat acc = function O -> acc | S n -> int_of_nat (acc + 1) n

let hv c = if c <= '9' then Char.code c - 48 else Char.code c - 87

let unhex s =
  if s = "-" then []
  else List.init (String.length s / 2) (fun i -> table.(hv s.[2 * i] * 16 + hv s.[2 * i + 1]))

let hex buf l =
  if l = [] then Buffer.add_char buf '-'
  else List.iter (fun a -> Buffer.add_string buf (Printf.sprintf "%02x" (int_of_ascii a))) l

let flag_id = function
  | Standard -> 0 | Comment -> 1 | Number -> 2 | DoxygenComment -> 3 | DoxygenBackwardComment -> 4
  | String -> 5 | Char -> 6 | Preprocessor -> 7

let print_tokens buf ts =
  Buffer.add_string buf ("T " ^ string_of_int (List.length ts));
  List.iter
    (fun t ->
      Buffer.add_char buf ' ';
      hex buf t.tvalue;
      Buffer.add_string buf
        (Printf.sprintf "/%d/%d/%d/" (flag_id t.tflag) (int_of_nat 0 t.tline) (int_of_nat 0 t.toffset));
      hex buf t.tcomment)
    ts

let () =
  let ic = open_in Sys.argv.(1) in
  let fx = Sys.argv.(2) = "1" in
  let flag i = Array.length Sys.argv > i && Sys.argv.(i) = "1" in
  let fhex = flag 3 and fexp = flag 4 and farrow = flag 5 in
  let buf = Buffer.create (1 lsl 20) in
  (try
     while true do
       let line = input_line ic in
       (match String.split_on_char ' ' line with
        | [ mode; h ] -> (
          let cas = mode.[1] = '1' in
          match lex { o_cas = cas; o_hex = fhex; o_exp = fexp; o_arrow = farrow } (unhex h) with
          | Err -> Buffer.add_string buf "ERR"
          | Unsup -> Buffer.add_string buf "UNSUP"
          | OutOfFuel -> Buffer.add_string buf "FUEL"
          | Ok ts ->
            if mode.[0] = 'S' then (
              match strip_comments fx ts with None -> Buffer.add_string buf "UB" | Some r -> print_tokens buf r)
            else print_tokens buf ts)
        | _ -> Buffer.add_string buf "BADCASE");
       Buffer.add_char buf '\n';
       if Buffer.length buf > 1 lsl 20 then (
         print_string (Buffer.contents buf);
         Buffer.clear buf)
     done
   with End_of_file -> ());
  print_string (Buffer.contents buf)

"""C31 -- the C++ tokenizer reproduces the lexical structure of its input (src/Utilities/CxxTokenizer.cxx).
Engine H: executable Gallina model of the line splitter (coq/C31Model.v, extracted to OCaml; flags say which of the repairs
props/C31/fix_*.diff the code contains) + Coq theorems about the model (termination, the layout property `covers` per line and
`in_cov` for whole multi-line inputs, stripComments, the round trip for all lexical elements of coq/C31Lang.v)
+ correspondence: the REAL CxxTokenizer (CxxTokenizer.cxx, Token.cxx, CxxTokenizerOptions.cxx compiled from REPO) and the
model give exactly the same token records (value, flag, line, offset, attached comment) or both fail, on
(a) all strings of length <= 5 over a 14 character alphabet (thorough: also length 6 over 9 characters), length <= 4 over 24 characters
    and over the 17 characters of numeric prefixes / exponents / suffixes / "->*",
(b) grammar-generated token streams with random layouts (whose expected records are known by construction: an
    independent statement of the property), (c) the .mfront/.mtest files of the repository (whole files and single
    lines) and byte-mutated versions.  Inputs on which the model answers UNSUP (raw strings) are skipped and counted.
Five probes are run first through the real code: they select the model variant, the generator's domain and the Coq property
files, and report the pinned defects with stable keys.  Every real result is also checked against an independent Python
statement of the layout property."""
import itertools, os, subprocess
from vlib import guarded_main, REPO

SRC = ["src/Utilities/CxxTokenizer.cxx", "src/Utilities/Token.cxx", "src/Utilities/CxxTokenizerOptions.cxx",
       "src/Utilities/StringAlgorithms.cxx", "src/Utilities/CxxKeywords.cxx"]
MODEL = ["C31Model.v"]
EXTRACT = """Require Import ExtrOcamlBasic.
From C31 Require Import C31Model.
Extraction "c31_model.ml" lex strip_comments.
"""
WS = " \t\n\v\f\r"
FLAGS = ["Standard", "Comment", "Number", "DoxygenComment", "DoxygenBackwardComment", "String", "Char", "Preprocessor"]
STD, COM, NUM, DOX, BACK, STR, CHR, PRE = range(8)
K_STRIP = 'stripComments("/*a*/ /*!<b*/")'
K_STRIP_FIRST = 'stripComments("x /*!<b*/")'
# probes: the first cases of every run; they tell which of the repairs props/C31/fix_*.diff the code contains
PROBES = [("S0", "x /*!<b*/"), ("S0", "y x /*!<b*/"), ("L0", "0xff;"), ("L0", "1e+5f"), ("L0", "a->*b")]
K_HEX = 'parseNumber("0xff;")'
K_EXP = 'parseNumber("1e+5f")'
K_ARROW = 'parseStandardLine("a->*b")'


def hx(s):
    return s.encode("latin-1").hex() if s else "-"


def unhx(h):
    return "" if h == "-" else bytes.fromhex(h).decode("latin-1")


def show(s):
    return '"' + s.encode("unicode_escape").decode().replace('"', '\\"') + '"'


def parse_out(line):
    """'ERR' | list of (value, flag, line, offset, comment)"""
    if not line.startswith("T "):
        return line
    r = []
    for w in line.split()[2:]:
        v, f, l, o, cm = w.split("/")
        r.append((unhx(v), int(f), int(l), int(o), unhx(cm)))
    return r


# ---------------------------------------------------------------- independent statement of the layout property
def layout_ok(s, toks):
    """None if the token records describe the input: in order, every value at its (line, offset), only white space
    between non-comment tokens, a comment opener (// /* with optional ! or !<) and white space before a comment token,
    the closing */ after it, nothing but white space elsewhere.  Otherwise a short reason."""
    lines = s.split("\n")
    cur, pos = 0, 0
    blank = lambda t: all(ch in WS for ch in t)
    for k, (v, f, l, o, _) in enumerate(toks):
        if l - 1 < cur or l - 1 >= len(lines):
            return "token %d: line %d out of order/range" % (k, l)
        if l - 1 > cur:
            if not blank(lines[cur][pos:]) or not all(blank(x) for x in lines[cur + 1:l - 1]):
                return "token %d: characters lost before line %d" % (k, l)
            cur, pos = l - 1, 0
        ln = lines[cur]
        if o < pos or o > len(ln):
            return "token %d: offset %d overlaps the previous token or exceeds the line" % (k, o)
        gap = ln[pos:o]
        if f in (COM, DOX, BACK):
            g = gap.strip(WS)
            if g not in ("//", "//!", "//!<", "/*", "/*!", "/*!<"):
                return "token %d: comment not preceded by an opener (gap %r)" % (k, gap)
            want = COM if (k == 0 or len(g) == 2) else (BACK if g.endswith("<") else DOX)
            if f != want:
                return "token %d: comment flag %s, expected %s" % (k, FLAGS[f], FLAGS[want])
            text = ln[o:]
            if g.startswith("//"):
                if v != text:
                    return "token %d: // comment value is not the rest of the line" % k
                pos = len(ln)
                continue
            parts = []
            while True:
                i = text.find("*/")
                if i >= 0:
                    parts.append(text[:i].rstrip(WS) if not parts else text[:i])
                    pos = (o if not parts[1:] else 0) + i + 2
                    break
                parts.append(text.rstrip(WS) if not parts else text)
                if cur + 1 >= len(lines):
                    pos = len(lines[cur])
                    break
                cur += 1
                text = lines[cur]
            if v != "\n".join(parts).lstrip("\n"):
                return "token %d: /* comment value differs from the commented text" % k
            continue
        if not blank(gap):
            return "token %d: non-blank characters %r before the token are lost" % (k, gap)
        i = o
        for ch in v:  # a number is stored without its digit separators
            while f == NUM and i < len(ln) and ln[i] == "'" and ch != "'":
                i += 1
            if i >= len(ln) or ln[i] != ch:
                return "token %d: value %r is not at line %d offset %d" % (k, v, l, o)
            i += 1
        if not v:
            return "token %d: empty value" % k
        if f in (STD, NUM, PRE) and any(ch in WS for ch in v):
            return "token %d: white space inside a %s token" % (k, FLAGS[f])
        pos = i
    if not blank(lines[cur][pos:]) or not all(blank(x) for x in lines[cur + 1:]):
        return "characters after the last token are lost"
    return None


# ---------------------------------------------------------------- case generation
ALPHA_A = "ae01'\"\\/* \n+-."
ALPHA_B = "aR_x0179'\"\\/*!<# \n+-.=:e&"
ALPHA_C = "a1'\"\\/* \n"
ALPHA_D = "01x9fbXe'+-.>*uL;"


def all_strings(alpha, n):
    for k in range(n + 1):
        for t in itertools.product(alpha, repeat=k):
            yield "".join(t)


class Gen:
    """token streams whose records are known by construction"""

    def __init__(self, rng, fhex=False, fexp=False, farrow=False):
        self.r = rng
        self.fhex, self.fexp, self.farrow = fhex, fexp, farrow
        self.ops = list(self.OPS) + (["->*"] if farrow else [])

    def ident(self):
        r = self.r
        s = r.choice("abcxyzSQ_@$~") + "".join(r.choice("abcdeXYZ_0189") for _ in range(r.randint(0, 6)))
        return s

    def number(self):
        r = self.r
        dg = lambda k: "".join(r.choice("0123456789") for _ in range(k))
        dq = lambda k: "'".join(dg(r.randint(1, 3)) for _ in range(k))
        kind = r.randrange(8 if self.fhex else 6)
        if kind >= 6:  # hexadecimal / binary literals (with fix_hex_binary_literals.diff)
            if kind == 6:
                hd = lambda k: "".join(r.choice("0123456789abcdefABCDEF") for _ in range(k))
                raw = "0" + r.choice("xxX") + "'".join(hd(r.randint(1, 4)) for _ in range(r.randint(1, 2)))
            else:
                bd = lambda k: "".join(r.choice("01") for _ in range(k))
                raw = "0" + r.choice("bbB") + "'".join(bd(r.randint(1, 4)) for _ in range(r.randint(1, 2)))
            raw += r.choice(["", "", "u", "U", "l", "ul", "LL", "ull", "lu", "uLL"])
            if r.random() < 0.1:
                raw += "_" + r.choice(["kg", "m_2"])
            return raw
        if kind == 0:
            raw, fl = dq(r.randint(1, 3)), False
        elif kind == 1:
            raw, fl = dq(1) + "." + r.choice(["", dq(1), dq(2)]), True
        elif kind == 2:
            raw, fl = "." + dq(r.randint(1, 2)), True
        elif kind == 3:
            sg = r.choice(["", "+", "-"])
            raw, fl = dq(1) + r.choice(["", "." + dg(2)]) + r.choice("eE") + sg + dq(1), None
            fl = ("." in raw) or sg == "-" or self.fexp   # pinned parseNumber: an exponent alone does not make a float
        elif kind == 4:
            raw, fl = dg(r.randint(1, 4)), False
        else:
            raw, fl = dg(r.randint(1, 2)) + "." + dg(r.randint(1, 3)), True
        raw += r.choice(["", "", "", "f", "F", "l", "L"] if fl else ["", "", "", "u", "U", "l", "ul", "LL", "ull", "lu", "llu", "uLL"])
        if r.random() < 0.15:
            raw += "_" + r.choice(["kg", "m_2", "a1"])
        return raw

    def string(self, q='"'):
        r = self.r
        items = ["a", "b", " ", "x y", "\\\\", "\\" + q, "\\n", "/*", "//", "*/", "'" if q == '"' else '"', "\\\\\\" + q, "%d", "#", "\\\\\\\\"]
        return q + "".join(r.choice(items) for _ in range(r.randint(0, 6))) + q

    def char(self):
        r = self.r
        return "'" + r.choice(["a", "0", " ", '"', "\\n", "\\'", "\\\\", "/", "*"]) + "'"

    OPS = ["<<", "<=", "<", ">>", ">=", ">", "::", ":", "++", "--", "->", "+=", "-=", "+", "-", "/=", "/", "*=", "*", "%=", "%",
           "!=", "!", "==", "=", "&&", "&", "..", ".*", ".", "||", "|=", "|", "?", ";", "{", "}", "[", "]", "(", ")", "^", ",", "`"]

    def stream(self, cas):
        """returns (text, expected records)"""
        r = self.r
        lines, exp = [], []
        nl = r.randint(1, 4)
        ln = 0
        while ln < nl:
            ln += 1
            line = ""
            sp = lambda lo=1: "".join(r.choice(" \t" if r.random() < 0.9 else "\v\f\r") for _ in range(r.randint(lo, 3)))
            line += sp(0)
            if r.random() < 0.12:
                kw = r.choice(["define", "include", "if", "ifdef", "endif", "pragma", "else", "undef", "line", "error", "elif", "ifndef", "warning"])
                exp.append(("#", PRE, ln, len(line), ""))
                line += "#" + sp(0)
                exp.append((kw, PRE, ln, len(line), ""))
                line += kw + sp()
            ntok = r.randint(0, 7)
            for j in range(ntok):
                k = r.randrange(10)
                if k <= 2:
                    v, f = self.ident(), STD
                elif k <= 4:
                    v, f = self.number(), NUM
                elif k == 5:
                    v, f = self.string(), STR
                elif k == 6:
                    v, f = (self.string("'"), STR) if cas else (self.char(), CHR)
                elif k <= 8:
                    v, f = r.choice(self.ops), STD
                else:  # /* */ comment on one line
                    op = r.choice(["/*", "/*", "/*!", "/*!<"])
                    body = r.choice(["", "c", "a b", "x*y", "u / v", "'", '"', "// z"])
                    line += op + sp(0)
                    fl = COM if (not exp or op == "/*") else (BACK if op.endswith("<") else DOX)
                    exp.append((body, fl, ln, len(line), ""))
                    line += body + (sp(0) if body else "") + "*/" + sp(0)
                    continue
                exp.append((v.replace("'", "") if f == NUM else v, f, ln, len(line), ""))
                line += v + sp()
            tail = r.random()
            if tail < 0.15:  # // comment to the end of the line
                op = r.choice(["//", "//", "//!", "//!<"])
                pre = sp(0)
                body = r.choice(["", "note", "a /* b", 'say "hi"', "x  "])
                fl = COM if (not exp or op == "//") else (BACK if op.endswith("<") else DOX)
                exp.append((body, fl, ln, len(line) + len(op + pre), ""))
                line += op + pre + body
                lines.append(line)
            elif tail < 0.27 and ln < nl:  # /* comment over several lines
                op = r.choice(["/*", "/*!", "/*!<"])
                pre = sp(0)
                first = r.choice(["", "begin", "a b"])
                fl = COM if (not exp or op == "/*") else (BACK if op.endswith("<") else DOX)
                off = len(line) + len(op + pre)
                l0 = ln
                lines.append(line + op + pre + first + (sp(0) if first else ""))
                parts = [first]
                for _ in range(r.randint(0, 2)):
                    if ln + 1 < nl:
                        ln += 1
                        mid = r.choice(["", " * mid", "x", "  "])
                        lines.append(mid)
                        parts.append(mid)
                ln += 1
                last = r.choice(["", "end ", " z"])
                parts.append(last)
                v = parts[0]
                for p_ in parts[1:]:  # the code adds the line break only when the value is not empty
                    v = (v + "\n" if v else "") + p_
                exp.append((v, fl, l0, off, ""))
                rest = sp(0)
                line2 = last + "*/" + rest
                if r.random() < 0.5:
                    w = self.ident()
                    exp.append((w, STD, ln, len(line2), ""))
                    line2 += w
                lines.append(line2)
            else:
                lines.append(line)
        return "\n".join(lines), exp


def repo_files():
    out = subprocess.run(["git", "-C", REPO, "ls-files", "*.mfront", "*.mtest"], capture_output=True, text=True).stdout.split()
    return sorted(out)


def mutate(rng, s):
    if not s:
        return rng.choice("\"'\\/*")
    b = list(s)
    for _ in range(rng.randint(1, 3)):
        i = rng.randrange(len(b) + 1)
        ch = rng.choice("\"'\\/*!<#.+-eEx0b19_ \t\nR(){};:=&|\x00\xe9\x80") if rng.random() < 0.8 else chr(rng.randrange(256))
        k = rng.randrange(3)
        if k == 0 and i < len(b):
            b[i] = ch
        elif k == 1:
            b.insert(i, ch)
        elif i < len(b):
            del b[i]
    return "".join(b)


def gen_cases(c, fl):
    """list of (mode, text, expected-or-None, family); fl = which repairs the code contains (generator domain)"""
    rng = c.rng
    cases = [(m, t, None, "probe") for (m, t) in PROBES]
    if not c.quick():  # length 6 over a smaller alphabet (contains "\\\"" = quote, three backslashes, two quotes)
        for t in itertools.product(ALPHA_C, repeat=6):
            cases.append(("L0", "".join(t), None, "exh6"))
    for s in all_strings(ALPHA_A, 5):
        cases.append(("L0", s, None, "exh"))
        if "'" in s and len(s) <= c.pick(4, 5):
            cases.append(("L1", s, None, "exh"))
        if s.count("/") + s.count("*") >= 2 and "/" in s and len(s) <= 5:
            cases.append(("S0", s, None, "exh"))
    for s in all_strings(ALPHA_B, 4):
        if len(s) == 4 and all(ch in ALPHA_A for ch in s):
            continue
        cases.append(("L0", s, None, "exh"))
        if s.count("/") >= 2:
            cases.append(("S0", s, None, "exh"))
    for s in all_strings(ALPHA_D, 4):  # hexadecimal / binary prefixes, exponents, suffixes, -> and ->*
        cases.append(("L0", s, None, "exh"))
    g = Gen(rng, fl["hex"], fl["exp"], fl["arrow"])
    for i in range(c.pick(12000, 120000)):
        cas = i % 3 == 0
        text, exp = g.stream(cas)
        cases.append(("L1" if cas else "L0", text, exp, "gen"))
        if i % 4 == 0:
            cases.append(("S1" if cas else "S0", text, None, "gen"))
    # hand-picked
    for s in ["0x17;", "0xff", "0xFF'ffu", "0XAB", "0b1'0", "0B11;", "0b12", "0x", "0xg", "0x1.8", "0b1e5", "1e5f", "1e+5f", "1E5L", "1e5u", "1e5ll", "a->*", "->*b", "a->* b", "a-> *b",
              '"\\\\\\""', '"a\\\\\\"b" c', '"\\\\" x', "0x17", "0xff", "0b101", "0b1 ", "1'000'000", "1.5e-3f", "a->*b", "a ->b", "x=-1", "x= -1", "x=a-1",
              "/*a*/ x", "/**/", "/*/", "//", "#define A(x) x+1", "# include <a.hxx>", "#foo", "#", "a # b", "a #b", "a\\", "a\\ b", "'a'", "'\\n'", "'ab'", "'",
              "R\"(x)\"", "aR\"x", "1e5f", "1e-5f", "1.f", "1.e", "1..2", ".5.", "12_km", "12_", "1u", "-1u", "1lu", "1.5l", "1.5ll", "a\x00b", "\x00", "é=1", "~a",
              "/*!<x*/", "a /*!<x*/ b //!y", "/*! d */ a", "/* a\n b \n*/ c", "/*\n\nabc*/", "a /* \n */ #define X", "a /*\n*/-1", "a /*\n*/ -1"]:
        cases.append(("L0", s, None, "hand"))
        cases.append(("L1", s, None, "hand"))
        cases.append(("S0", s, None, "hand"))
    # repository files
    files = repo_files()
    rng.shuffle(files)
    nf = c.pick(120, len(files))
    lines = set()
    whole = []
    for f in files[:c.pick(400, len(files))]:
        try:
            txt = open(os.path.join(REPO, f), "rb").read().decode("latin-1")
        except OSError:
            continue
        cas = f.endswith(".mtest")
        if len(whole) < nf and len(txt) < 60000:
            whole.append((cas, txt, f))
        for l in txt.split("\n"):
            lines.add((cas, l))
    for cas, txt, f in whole:
        cases.append(("L1" if cas else "L0", txt, None, "file"))
        cases.append(("S1" if cas else "S0", txt, None, "file"))
        for _ in range(c.pick(2, 6)):
            cases.append(("L1" if cas else "L0", mutate(rng, txt), None, "filemut"))
    lines = sorted(lines)
    rng.shuffle(lines)
    for cas, l in lines[:c.pick(15000, 200000)]:
        cases.append(("L1" if cas else "L0", l, None, "line"))
    for cas, l in lines[:c.pick(15000, 100000)]:
        cases.append(("L1" if cas else "L0", mutate(rng, l), None, "linemut"))
    c.notes.append("repository corpus: %d .mfront/.mtest files tracked, %d read, %d tokenized whole, %d distinct lines seen" % (len(files), min(len(files), c.pick(400, len(files))), len(whole), len(lines)))
    return cases


def main(c):
    exe = c.cxx("driver", ["driver.cxx"], SRC)
    c.log("driver built")
    # which code is this?  run the probes alone first: the generator only produces the literal forms / operators that the
    # code at hand is meant to support, the defects themselves are reported through the probes (stable keys)
    pf = os.path.join(c.work, "probes.txt")
    with open(pf, "w") as f:
        f.write("".join("%s %s\n" % (m, hx(t)) for (m, t) in PROBES))
    rc, out, err = c.run([exe, pf], timeout=120)
    probe = [parse_out(l) for l in out.splitlines()]
    if rc != 0 or len(probe) != len(PROBES):
        c.report("crash:probes", "the real CxxTokenizer crashed on the probes (rc=%d): %s" % (rc, err[-300:]), {"stderr": err[-2000:]}, False)
        return
    vals = lambda r: [t[0] for t in r] if isinstance(r, list) else r
    fl = {"strip": isinstance(probe[0], list) and len(probe[0]) == 1 and probe[0][0][4] == "b",
          "hex": vals(probe[2]) == ["0xff", ";"] and probe[2][0][1] == NUM,
          "exp": vals(probe[3]) == ["1e+5f"],
          "arrow": vals(probe[4]) == ["a", "->*", "b"]}
    c.notes.append("code variant selected by probing the real code: %s (True = contains the repair)" % fl)
    cases = gen_cases(c, fl)
    if c.replay and c.replay.get("replay", {}).get("input_hex") is not None:
        rp = c.replay["replay"]
        cases = cases[:len(PROBES)] + [(rp.get("mode", "L0"), unhx(rp["input_hex"]), None, "replay")]
    cf = os.path.join(c.work, "cases.txt")
    with open(cf, "w") as f:
        f.write("".join("%s %s\n" % (m, hx(s)) for (m, s, _, _) in cases))
    c.log("cases written: %d" % len(cases))
    rc, out, err = c.run([exe, cf], timeout=1500)
    real = out.splitlines()
    c.log("real code run")
    if rc != 0 or len(real) != len(cases):
        i = min(len(real), len(cases) - 1)
        c.report("crash:" + cases[i][0] + ":" + hx(cases[i][1])[:200],
                 "the real CxxTokenizer crashed or the driver failed (rc=%d, %d/%d results) on input %s: %s" % (rc, len(real), len(cases), show(cases[i][1])[:300], err[-300:]),
                 {"mode": cases[i][0], "input_hex": hx(cases[i][1]), "stderr": err[-3000:]}, True)
        return
    fx = fl["strip"]
    ml = c.ocaml_extract("c31", MODEL, EXTRACT, "driver.ml")
    b = lambda k: "1" if fl[k] else "0"
    rc, out, err = c.run([ml, cf, b("strip"), b("hex"), b("exp"), b("arrow")], timeout=1500)
    model = out.splitlines()
    c.log("model run")
    if rc != 0 or len(model) != len(cases):
        raise RuntimeError("extracted model failed: rc=%d %s" % (rc, err[-500:]))
    c.trusted("props/C31/driver.cxx (parseString / stripComments of the real class, hex printing of the token records)",
              "props/C31/driver.ml (hex <-> list ascii, printing of nat), the Python differ, its generator of token streams with known records and its independent statement of the layout property",
              "the C library character classification (isspace/isdigit/isalpha) in the \"C\" locale")
    fam, unsup, ub, nontrivial, errs = {}, 0, [], 0, 0
    spec_fail, exp_fail, corr_fail = [], [], []
    for i, (mode, s, exp, family) in enumerate(cases):
        r, m = real[i], model[i]
        fam[family] = fam.get(family, 0) + 1
        if m == "UNSUP":
            unsup += 1
            continue
        if m == "UB":
            ub.append(i)
            continue
        if r != m:
            corr_fail.append(i)
        pr = parse_out(r)
        if pr == "ERR":
            errs += 1
            if exp is not None:
                exp_fail.append((i, "the tokenizer throws"))
            continue
        nontrivial += len(pr) > 1
        if i % 50021 == 3:
            c.sample({"mode": mode, "input": show(s)[:200], "real": r[:300], "model": m[:300]})
        if mode[0] == "L":
            why = layout_ok(s, pr)
            if why:
                spec_fail.append((i, why))
            if exp is not None and pr != exp:
                k = next((j for j in range(min(len(pr), len(exp))) if pr[j] != exp[j]), min(len(pr), len(exp)))
                exp_fail.append((i, "record %d is %s, expected %s" % (k, pr[k] if k < len(pr) else "missing", exp[k] if k < len(exp) else "nothing")))
        else:  # stripComments: exactly the non-comment tokens of the unstripped result remain
            pass
    # stripComments, independent statement: compare with the L-mode result of the same input when available
    lres = {(m[1], s): parse_out(real[i]) for i, (m, s, _, _) in enumerate(cases) if m[0] == "L"}
    for i, (mode, s, exp, family) in enumerate(cases):
        if mode[0] != "S" or model[i] in ("UNSUP", "UB"):
            continue
        full, got = lres.get((mode[1], s)), parse_out(real[i])
        if full is None or full == "ERR" or got == "ERR":
            continue
        if [t[:4] for t in got] != [t[:4] for t in full if t[1] not in (COM, DOX, BACK)]:
            spec_fail.append((i, "stripComments does not leave exactly the non-comment tokens"))
    c.log("compared")
    na = 5
    c.count(len(cases))
    c.coverage["distinct_nontrivial"] = nontrivial
    c.coverage["traces_validated_against_impl"] = len(cases) - unsup - len(ub)
    c.coverage["exhaustive"] = True
    c.coverage["rule"] = ("exhaustive: all strings of length <= %d over %r (thorough tier: also length 6 over %r) (L0; L1 when a quote occurs (length <= %d), stripComments when a slash and another slash/star occur (length <= 5)) and of length <= 4 over %r; "
                          "%d grammar-generated multi-line token streams with random layout compared with the records known by construction; hand-picked literals; "
                          "%d whole .mfront/.mtest files (+ byte mutations), single lines and mutated lines; per family: %s; skipped: %d raw-string inputs (model UNSUP), "
                          "%d inputs on which stripComments would read before the token vector; %d inputs rejected by both; non-trivial = more than one token"
                          % (na, ALPHA_A, ALPHA_C, c.pick(4, 5), ALPHA_B, fam.get("gen", 0), fam.get("file", 0) // 2, fam, unsup, len(ub), errs))
    c.coverage["spec_failures"] = len(spec_fail) + len(exp_fail)
    c.coverage["model_vs_code_differences"] = len(corr_fail)

    def rep(i, what, found, prefix=""):
        mode, s = cases[i][0], cases[i][1]
        c.report(prefix + mode + ":" + (show(s) if len(s) <= 80 else "hex:" + hx(s)[:160]), what,
                 {"mode": mode, "input_hex": hx(s), "input": show(s)[:2000], "real": real[i][:3000], "model": model[i][:3000]}, found)
    bad = set()
    for lst, txt in ((exp_fail, "the tokens of a generated stream are not those it was made of"), (spec_fail, "the token records do not describe the input")):
        for i, why in sorted(lst, key=lambda x: (len(cases[x[0]][1]), x[0]))[:3]:
            bad.add(i)
            rep(i, "%s: input %s (charAsString=%s): %s [%d such inputs in this run]" % (txt, show(cases[i][1])[:300], cases[i][0][1], why, len(lst)), True)
    bad |= {i for i, _ in exp_fail} | {i for i, _ in spec_fail}
    only = sorted((i for i in corr_fail if i not in bad), key=lambda j: (len(cases[j][1]), j))
    for i in only[:3]:
        rep(i, "the Gallina model no longer describes the code: on %s (mode %s) the real tokenizer gives %s, the model %s [%d such inputs]" % (
            show(cases[i][1])[:300], cases[i][0], real[i][:300], model[i][:300], len(only)), False, "model:")
    # the out-of-bounds read of stripComments (pinned code): observed under AddressSanitizer
    if ub:
        asan = c.cxx("driver_asan", ["driver.cxx"], SRC, flags=["-fsanitize=address", "-fno-omit-frame-pointer"], libs=["-fsanitize=address"])
        af = os.path.join(c.work, "cases_asan.txt")
        witness = [("S0", "/*a*/ /*!<b*/")] + [(cases[i][0], cases[i][1]) for i in sorted(ub, key=lambda j: len(cases[j][1]))[:20]]
        with open(af, "w") as f:
            f.write("%s %s\n" % (witness[0][0], hx(witness[0][1])))
        rc, out, err = c.run([asan, af], timeout=300, env={"ASAN_OPTIONS": "detect_leaks=0"})
        if rc != 0 and "AddressSanitizer" in err:
            c.report(K_STRIP, "CxxTokenizer::stripComments reads before the beginning of the token vector (`--p2` on begin()) when a backward doxygen comment "
                     "/*!< ... */ or //!< has no token before it once the preceding comments are erased, e.g. \"/*a*/ /*!<b*/\": AddressSanitizer reports %s "
                     "[%d inputs of this run reach that statement]" % (([l for l in err.splitlines() if "ERROR" in l] or ["an error"])[0][:200], len(ub)),
                     {"mode": "S0", "input_hex": hx(witness[0][1]), "input": show(witness[0][1]), "asan": err[:3000], "others": [show(w[1])[:100] for w in witness[1:6]]}, True)
        else:
            c.notes.append("the model predicts an out-of-bounds read of stripComments on %d inputs but AddressSanitizer did not report it (rc=%d)" % (len(ub), rc))
    if not fl["hex"]:
        c.report(K_HEX, "CxxTokenizer::parseNumber rejects hexadecimal and binary integer literals unless they end the line, and hexadecimal digits 8 9 a-f A-F "
                 "altogether: \"0xff;\" gives %s (expected the Number 0xff then ;); \"0x17;\" throws, \"0xff\" throws, \"0x19\" throws "
                 "(is_hex stops at '7', the digit loop only takes decimal digits, and any character after the literal raises 'invalid hexadecimal integer')"
                 % (show(real[2]) if real[2] == "ERR" else real[2]), {"mode": "L0", "input_hex": hx(PROBES[2][1]), "input": show(PROBES[2][1]), "real": real[2]}, True)
    if not fl["exp"]:
        c.report(K_EXP, "CxxTokenizer::parseNumber does not treat a literal with an exponent as a floating-point literal unless it has a dot or a negative "
                 "exponent: \"1e+5f\" gives the tokens %s (expected the single Number 1e+5f; \"1e-5f\" is one token)" % (vals(probe[3]),),
                 {"mode": "L0", "input_hex": hx(PROBES[3][1]), "input": show(PROBES[3][1]), "real": real[3]}, True)
    if not fl["arrow"]:
        c.report(K_ARROW, "CxxTokenizer::parseStandardLine never produces the operator ->* (the test looks at the character after '-' instead of the one "
                 "after '->'): \"a->*b\" gives the tokens %s (expected a, ->*, b)" % (vals(probe[4]),),
                 {"mode": "L0", "input_hex": hx(PROBES[4][1]), "input": show(PROBES[4][1]), "real": real[4]}, True)
    if not fx:
        c.notes.append("pinned stripComments also drops a backward doxygen comment whose documented token is the first token "
                       "(\"x /*!<b*/\": comment of x empty; \"y x /*!<b*/\": attached) -- same statement, mirrored by the model, fixed by the same patch")
    sel = lambda k: "fixed" if fl[k] else "today"
    files = MODEL + ["C31Spec.v", "C31Proofs.v", "C31Whole.v", "C31Lang.v", "C31Round.v", "C31Classes.v", "C31Variants.v", "Properties_C31.v",
                     "Properties_C31_strip_%s.v" % sel("strip"), "Properties_C31_hex_%s.v" % sel("hex"),
                     "Properties_C31_exp_%s.v" % sel("exp"), "Properties_C31_arrow_%s.v" % sel("arrow")]
    res = c.coq(files, timeout=900)
    c.log("coq done")
    if not res.ok:
        c.coq_failures(res)


guarded_main("C31", main)

// C05 driver: runs the REAL isotropic-function code of /repo on tensors read from stdin.
// input : <id> <N> <s0> .. (hex floats);  output per (tensor, function, solver):
//   F <id> <N> <fn> <solver> iso[k].. | dD (k*k derivative, row major) | fd (k*k central finite differences of the real
//   computeIsotropicFunction<FSESJACOBI>) | pn (positive_part+negative_part) | ap (absolute value) | h
#include <cmath>
#include <cstdio>
#include <iostream>
#include <sstream>
#include <string>
#include "TFEL/Math/stensor.hxx"
#include "TFEL/Math/st2tost2.hxx"
using namespace tfel::math;
using SC = stensor_common;

struct Fn {
  const char* name;
  double (*f)(double);
  double (*df)(double);
};
static const Fn fns[] = {{"exp", [](double x) { return std::exp(x); }, [](double x) { return std::exp(x); }},
                         {"cube", [](double x) { return x * x * x; }, [](double x) { return 3 * x * x; }},
                         {"sin", [](double x) { return std::sin(x); }, [](double x) { return std::cos(x); }}};

template <unsigned short N, SC::EigenSolver es>
static void one(const char* solver, const std::string& id, const stensor<N, double>& s, const Fn& fn, double eps) {
  constexpr unsigned short k = StensorDimeToSize<N>::value;
  std::printf("F %s %d %s %s", id.c_str(), int(N), fn.name, solver);
  try {
    const auto r = s.template computeIsotropicFunctionAndDerivative<es>(fn.f, fn.df, eps);
    const auto r1 = s.template computeIsotropicFunction<es>(fn.f);
    const auto d1 = s.template computeIsotropicFunctionDerivative<es>(fn.f, fn.df, eps);
    for (unsigned short i = 0; i < k; ++i) std::printf(" %a", r.first[i]);
    std::printf(" |");
    for (unsigned short i = 0; i < k; ++i)
      for (unsigned short j = 0; j < k; ++j) std::printf(" %a", r.second(i, j));
    double dmax = 0;
    for (unsigned short i = 0; i < k; ++i) {
      dmax = std::max(dmax, std::fabs(r1[i] - r.first[i]));
      for (unsigned short j = 0; j < k; ++j) dmax = std::max(dmax, std::fabs(d1(i, j) - r.second(i, j)));
    }
    std::printf(" | %a", dmax);  // the three entry points agree
  } catch (std::exception& e) {
    std::printf(" THROW");
  }
  std::printf("\n");
}

template <unsigned short N>
static void all(const std::string& id, const double* v) {
  constexpr unsigned short k = StensorDimeToSize<N>::value;
  stensor<N, double> s(0.);
  double nrm = 0;
  for (unsigned short i = 0; i < k; ++i) {
    s[i] = v[i];
    nrm = std::max(nrm, std::fabs(v[i]));
  }
  const double eps = 1e-9 * std::max(nrm, 1.0);
  for (const auto& fn : fns) {
    one<N, SC::TFELEIGENSOLVER>("TFEL", id, s, fn, eps);
    one<N, SC::FSESJACOBIEIGENSOLVER>("FSESJACOBI", id, s, fn, eps);
    one<N, SC::GTESYMMETRICQREIGENSOLVER>("GTE", id, s, fn, eps);
    // central finite differences of the real function (accurate solver)
    const double h = 1e-5 * std::max(nrm, 1.0);
    std::printf("D %s %d %s FD", id.c_str(), int(N), fn.name);
    for (unsigned short i = 0; i < k; ++i) {
      for (unsigned short j = 0; j < k; ++j) {
        stensor<N, double> sp(s), sm(s);
        sp[j] += h;
        sm[j] -= h;
        const auto fp = sp.template computeIsotropicFunction<SC::FSESJACOBIEIGENSOLVER>(fn.f);
        const auto fm = sm.template computeIsotropicFunction<SC::FSESJACOBIEIGENSOLVER>(fn.f);
        std::printf(" %a", (fp[i] - fm[i]) / (2 * h));
      }
    }
    std::printf("\n");
  }
  // positive/negative parts, absolute value (default solver, as the free functions do)
  const auto p = positive_part(s), n = negative_part(s), a = absolute_value(s);
  std::printf("P %s %d", id.c_str(), int(N));
  for (unsigned short i = 0; i < k; ++i) std::printf(" %a", p[i]);
  std::printf(" |");
  for (unsigned short i = 0; i < k; ++i) std::printf(" %a", n[i]);
  std::printf(" |");
  for (unsigned short i = 0; i < k; ++i) std::printf(" %a", a[i]);
  std::printf("\n");
}

// static overloads called DIRECTLY with given eigenvalues / eigenvectors (no eigen solver in between):
//   STATIC <N> <id> vp0 vp1 vp2 m00 m01 .. m22 eps   ->   T <id> <N> <fn> d(k*k, row major) | max difference with the overload taking values
template <unsigned short N>
static void static_overload(const std::string& id, const double* x) {
  constexpr unsigned short k = StensorDimeToSize<N>::value;
  const tvector<3u, double> vp{x[0], x[1], x[2]};
  tmatrix<3u, 3u, double> m;
  for (unsigned short i = 0; i < 3; ++i)
    for (unsigned short j = 0; j < 3; ++j) m(i, j) = x[3 + 3 * i + j];
  const double eps = x[12];
  for (const auto& fn : fns) {
    std::printf("T %s %d %s", id.c_str(), int(N), fn.name);
    const st2tost2<N, double> d = stensor<N, double>::computeIsotropicFunctionDerivative(fn.f, fn.df, vp, m, eps);
    const tvector<3u, double> fv{fn.f(vp[0]), fn.f(vp[1]), fn.f(vp[2])}, dfv{fn.df(vp[0]), fn.df(vp[1]), fn.df(vp[2])};
    const st2tost2<N, double> d2 = stensor<N, double>::computeIsotropicFunctionDerivative(fv, dfv, vp, m, eps);
    double dmax = 0;
    for (unsigned short i = 0; i < k; ++i)
      for (unsigned short j = 0; j < k; ++j) {
        std::printf(" %a", d(i, j));
        dmax = std::max(dmax, std::fabs(d(i, j) - d2(i, j)));
      }
    std::printf(" | %a\n", dmax);
  }
}

int main() {
  std::string line;
  while (std::getline(std::cin, line)) {
    if (line.empty()) continue;
    std::istringstream is(line);
    std::string id;
    int n = 0;
    is >> id >> n;
    if (id == "STATIC") {
      std::string name;
      is >> name;
      double x[13];
      for (int i = 0; i < 13; ++i) {
        std::string t;
        is >> t;
        x[i] = std::strtod(t.c_str(), nullptr);
      }
      if (n == 2) static_overload<2u>(name, x);
      else static_overload<3u>(name, x);
      continue;
    }
    double v[6] = {0, 0, 0, 0, 0, 0};
    for (int i = 0; i < (n == 2 ? 4 : 6); ++i) {
      std::string t;
      is >> t;
      v[i] = std::strtod(t.c_str(), nullptr);
    }
    if (n == 2) all<2u>(id, v);
    else all<3u>(id, v);
  }
  return 0;
}

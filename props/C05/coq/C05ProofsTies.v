(* C05 -- 3D derivative, branches with two or three eigenvalues closer than eps: each traced leaf is the Daleckii-Krein
   tensor of the merged eigen-data (C05Statements.v); shape independent tactics over the regenerated definition *)
From Coq Require Import Reals List Lra Nsatz.
From VLib Require Import RealExtra.
From C05 Require Import C05Spec C05_gen C05Statements C05Proofs.
Import ListNotations.
Local Open Scope R_scope.

(* ---- facts about the specification only *)
Lemma ortho_rows_of_cols m0 m1 m2 m3 m4 m5 m6 m7 m8 : ortho_cols m0 m1 m2 m3 m4 m5 m6 m7 m8 ->
  m0 * m0 + m1 * m1 + m2 * m2 = 1 /\ m3 * m3 + m4 * m4 + m5 * m5 = 1 /\ m6 * m6 + m7 * m7 + m8 * m8 = 1 /\
  m0 * m3 + m1 * m4 + m2 * m5 = 0 /\ m0 * m6 + m1 * m7 + m2 * m8 = 0 /\ m3 * m6 + m4 * m7 + m5 * m8 = 0.
Proof. unfold ortho_cols. intros (H1 & H2 & H3 & H4 & H5 & H6). repeat split; nsatz. Qed.

(* resolution of the identity: sum_i n_i (x) n_i + sum_{i<j} n_ij (x) n_ij = Id on symmetric tensors *)
Lemma DK3_all_equal m0 m1 m2 m3 m4 m5 m6 m7 m8 d : ortho_cols m0 m1 m2 m3 m4 m5 m6 m7 m8 ->
  DK3 m0 m1 m2 m3 m4 m5 m6 m7 m8 d d d d d d = scall d Id6.
Proof.
  intro H. destruct (ortho_rows_of_cols _ _ _ _ _ _ _ _ _ H) as (H1 & H2 & H3 & H4 & H5 & H6). clear H.
  cbv beta iota zeta delta [Id6 n0 n1 n2 n01 n02 n12 ntens nsym map flat_map app outer addl scall DK3].
  generalize sqrt2_sq; generalize (sqrt 2); intros q Hq.
  repeat (apply f_equal2; [ nsatz | ]). reflexivity.
Qed.

(* ---- walking the regenerated decision tree: the tests are comparisons of |vp_i - vp_j| with eps *)
Lemma if_same (A B : Prop) (T : Type) (c : {A} + {B}) (x : T) : (if c then x else x) = x.
Proof. destruct c; reflexivity. Qed.
Ltac kill2 := first [ contradiction | lra | (unfold Rabs in *; repeat destruct Rcase_abs; lra) ].
Ltac walk2 :=
  try rewrite !if_same;
  repeat match goal with
         | |- context [if ?c then _ else _] => destruct c; [ try (exfalso; kill2) | try (exfalso; kill2) ]
         end.
(* side conditions of field: sqrt 2, numerals, differences of eigenvalues bounded away from 0 by the hypotheses on Rabs *)
Ltac nz2 :=
  repeat split;
  match goal with
  | |- ?e <> 0 => first [ assumption | apply sqrt2_neq0 | lra | (intro; unfold Rabs in *; repeat destruct Rcase_abs; lra) ]
  end.
Ltac fld2 := first [ reflexivity | ring | (field [sqrt2_sq]; nz2) | (field_simplify_eq; [ ring [sqrt2_sq] | nz2 ]) ].
Ltac unfold_spec2 := cbv beta iota zeta delta [Id6 n0 n1 n2 n01 n02 n12 ntens nsym map flat_map app outer addl scall DK3].

Section Ties.
  Variables f0 f1 f2 m0 m1 m2 m3 m4 m5 m6 m7 m8 df0 df1 df2 vp0 vp1 vp2 eps : R.
  Local Notation call := (deriv3_call f0 f1 f2 m0 m1 m2 m3 m4 m5 m6 m7 m8 df0 df1 df2 vp0 vp1 vp2 eps).
  (* the tests |vp_j - vp_i| < eps are first written like the hypotheses (|vp_i - vp_j|, i < j): tests that only differ by
     the order of the operands become one test *)
  Ltac leaf := unfold deriv3_call, deriv3; cbv zeta;
               rewrite ?(Rabs_minus_sym vp1 vp0), ?(Rabs_minus_sym vp2 vp0), ?(Rabs_minus_sym vp2 vp1);
               walk2; unfold_spec2; lists_eq fld2.

  Lemma deriv3_triple : deriv3_triple_ok f0 f1 f2 m0 m1 m2 m3 m4 m5 m6 m7 m8 df0 df1 df2 vp0 vp1 vp2 eps.
  Proof.
    unfold deriv3_triple_ok. intros H01 H02.
    assert (E : call = Some (scall ((df0 + df1 + df2) / 3) Id6)) by leaf.
    split; [exact E|]. intros Ho. cbv zeta. rewrite E. f_equal. symmetry. now apply DK3_all_equal.
  Qed.
  Lemma deriv3_pair01 : deriv3_pair01_ok f0 f1 f2 m0 m1 m2 m3 m4 m5 m6 m7 m8 df0 df1 df2 vp0 vp1 vp2 eps.
  Proof. unfold deriv3_pair01_ok. intros H01 H02. cbv zeta. leaf. Qed.
  Lemma deriv3_pair02 : deriv3_pair02_ok f0 f1 f2 m0 m1 m2 m3 m4 m5 m6 m7 m8 df0 df1 df2 vp0 vp1 vp2 eps.
  Proof. unfold deriv3_pair02_ok. intros H01 H02. cbv zeta. leaf. Qed.
  Lemma deriv3_pair12 : deriv3_pair12_ok f0 f1 f2 m0 m1 m2 m3 m4 m5 m6 m7 m8 df0 df1 df2 vp0 vp1 vp2 eps.
  Proof. unfold deriv3_pair12_ok. intros H01 H02 H12. cbv zeta. leaf. Qed.
End Ties.

(* ---- exactly equal eigenvalues with consistent function values: the Daleckii-Krein tensor with the limit f' *)
Lemma Rabs_self_lt x e : 0 < e -> Rabs (x - x) < e.
Proof. intro. replace (x - x) with 0 by ring. now rewrite Rabs_R0. Qed.
Lemma half_sum x : (x + x) / 2 = x.
Proof. field. Qed.

Section Exact.
  Variables f0 f1 f2 m0 m1 m2 m3 m4 m5 m6 m7 m8 df0 df1 df2 vp0 vp1 vp2 eps : R.

  Lemma deriv3_triple_exact : deriv3_triple_exact_ok f0 f1 f2 m0 m1 m2 m3 m4 m5 m6 m7 m8 df0 df1 df2 vp0 vp1 vp2 eps.
  Proof.
    unfold deriv3_triple_exact_ok. intros Ho He E1 E2 D1 D2. subst vp1 vp2 df1 df2.
    destruct (deriv3_triple f0 f1 f2 m0 m1 m2 m3 m4 m5 m6 m7 m8 df0 df0 df0 vp0 vp0 vp0 eps) as [_ H];
      try now apply Rabs_self_lt.
    specialize (H Ho). cbv zeta in H. replace ((df0 + df0 + df0) / 3) with df0 in H by field. exact H.
  Qed.
  Lemma deriv3_pair01_exact : deriv3_pair01_exact_ok f0 f1 f2 m0 m1 m2 m3 m4 m5 m6 m7 m8 df0 df1 df2 vp0 vp1 vp2 eps.
  Proof.
    unfold deriv3_pair01_exact_ok. intros He E F D H. subst vp1 f1 df1.
    pose proof (deriv3_pair01 f0 f0 f2 m0 m1 m2 m3 m4 m5 m6 m7 m8 df0 df0 df2 vp0 vp0 vp2 eps) as P.
    unfold deriv3_pair01_ok in P. cbv zeta in P. rewrite !half_sum in P. apply P; [ now apply Rabs_self_lt | lra ].
  Qed.
  Lemma deriv3_pair02_exact : deriv3_pair02_exact_ok f0 f1 f2 m0 m1 m2 m3 m4 m5 m6 m7 m8 df0 df1 df2 vp0 vp1 vp2 eps.
  Proof.
    unfold deriv3_pair02_exact_ok. intros He E F D H. subst vp2 f2 df2.
    pose proof (deriv3_pair02 f0 f1 f0 m0 m1 m2 m3 m4 m5 m6 m7 m8 df0 df1 df0 vp0 vp1 vp0 eps) as P.
    unfold deriv3_pair02_ok in P. cbv zeta in P. rewrite !half_sum in P.
    assert (N : vp0 - vp1 <> 0) by (intro Z; rewrite Z, Rabs_R0 in H; lra).
    replace ((f1 - f0) / (vp1 - vp0)) with ((f0 - f1) / (vp0 - vp1)) by (field; split; [ intro; apply N; lra | exact N ]).
    apply P; [ lra | now apply Rabs_self_lt ].
  Qed.
  Lemma deriv3_pair12_exact : deriv3_pair12_exact_ok f0 f1 f2 m0 m1 m2 m3 m4 m5 m6 m7 m8 df0 df1 df2 vp0 vp1 vp2 eps.
  Proof.
    unfold deriv3_pair12_exact_ok. intros He E F D H. subst vp2 f2 df2.
    pose proof (deriv3_pair12 f0 f1 f1 m0 m1 m2 m3 m4 m5 m6 m7 m8 df0 df1 df1 vp0 vp1 vp1 eps) as P.
    unfold deriv3_pair12_ok in P. cbv zeta in P. rewrite !half_sum in P. apply P; [ lra | lra | now apply Rabs_self_lt ].
  Qed.
End Exact.

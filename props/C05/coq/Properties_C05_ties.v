(* C05 -- 3D derivative at (nearly) coinciding eigenvalues.  Statements: C05Statements.v; proofs: C05ProofsTies.v *)
From Coq Require Import Reals List.
From C05 Require Import C05Spec C05_gen C05Statements C05Proofs C05ProofsTies.
Local Open Scope R_scope.

(* StensorComputeIsotropicFunctionDerivative<3>::exe, branch |vp0-vp1| < eps and |vp0-vp2| < eps: mean(df) * Id, which is the
   Daleckii-Krein tensor with all coefficients equal to mean(df) when the eigenvectors are orthonormal *)
Theorem C05_derivative_3D_triple : forall f0 f1 f2 m0 m1 m2 m3 m4 m5 m6 m7 m8 df0 df1 df2 vp0 vp1 vp2 eps,
  deriv3_triple_ok f0 f1 f2 m0 m1 m2 m3 m4 m5 m6 m7 m8 df0 df1 df2 vp0 vp1 vp2 eps.
Proof. exact deriv3_triple. Qed.
Print Assumptions C05_derivative_3D_triple.
Theorem C05_derivative_3D_triple_exact : forall f0 f1 f2 m0 m1 m2 m3 m4 m5 m6 m7 m8 df0 df1 df2 vp0 vp1 vp2 eps,
  deriv3_triple_exact_ok f0 f1 f2 m0 m1 m2 m3 m4 m5 m6 m7 m8 df0 df1 df2 vp0 vp1 vp2 eps.
Proof. exact deriv3_triple_exact. Qed.
Print Assumptions C05_derivative_3D_triple_exact.

(* the three branches with exactly one pair closer than eps (in the order the code tests them): Daleckii-Krein tensor of the
   merged eigen-data (mean eigenvalue, mean f, mean f'), for any input values *)
Theorem C05_derivative_3D_pair01 : forall f0 f1 f2 m0 m1 m2 m3 m4 m5 m6 m7 m8 df0 df1 df2 vp0 vp1 vp2 eps,
  deriv3_pair01_ok f0 f1 f2 m0 m1 m2 m3 m4 m5 m6 m7 m8 df0 df1 df2 vp0 vp1 vp2 eps.
Proof. exact deriv3_pair01. Qed.
Print Assumptions C05_derivative_3D_pair01.
Theorem C05_derivative_3D_pair02 : forall f0 f1 f2 m0 m1 m2 m3 m4 m5 m6 m7 m8 df0 df1 df2 vp0 vp1 vp2 eps,
  deriv3_pair02_ok f0 f1 f2 m0 m1 m2 m3 m4 m5 m6 m7 m8 df0 df1 df2 vp0 vp1 vp2 eps.
Proof. exact deriv3_pair02. Qed.
Print Assumptions C05_derivative_3D_pair02.
Theorem C05_derivative_3D_pair12 : forall f0 f1 f2 m0 m1 m2 m3 m4 m5 m6 m7 m8 df0 df1 df2 vp0 vp1 vp2 eps,
  deriv3_pair12_ok f0 f1 f2 m0 m1 m2 m3 m4 m5 m6 m7 m8 df0 df1 df2 vp0 vp1 vp2 eps.
Proof. exact deriv3_pair12. Qed.
Print Assumptions C05_derivative_3D_pair12.
(* exactly equal pair, f_i = f_j, df_i = df_j: the Daleckii-Krein tensor of the original data, limit f' on the equal pair *)
Theorem C05_derivative_3D_pair01_exact : forall f0 f1 f2 m0 m1 m2 m3 m4 m5 m6 m7 m8 df0 df1 df2 vp0 vp1 vp2 eps,
  deriv3_pair01_exact_ok f0 f1 f2 m0 m1 m2 m3 m4 m5 m6 m7 m8 df0 df1 df2 vp0 vp1 vp2 eps.
Proof. exact deriv3_pair01_exact. Qed.
Print Assumptions C05_derivative_3D_pair01_exact.
Theorem C05_derivative_3D_pair02_exact : forall f0 f1 f2 m0 m1 m2 m3 m4 m5 m6 m7 m8 df0 df1 df2 vp0 vp1 vp2 eps,
  deriv3_pair02_exact_ok f0 f1 f2 m0 m1 m2 m3 m4 m5 m6 m7 m8 df0 df1 df2 vp0 vp1 vp2 eps.
Proof. exact deriv3_pair02_exact. Qed.
Print Assumptions C05_derivative_3D_pair02_exact.
Theorem C05_derivative_3D_pair12_exact : forall f0 f1 f2 m0 m1 m2 m3 m4 m5 m6 m7 m8 df0 df1 df2 vp0 vp1 vp2 eps,
  deriv3_pair12_exact_ok f0 f1 f2 m0 m1 m2 m3 m4 m5 m6 m7 m8 df0 df1 df2 vp0 vp1 vp2 eps.
Proof. exact deriv3_pair12_exact. Qed.
Print Assumptions C05_derivative_3D_pair12_exact.


(* C05 -- statements about the regenerated definitions (C05_gen.v) in terms of the independent specification *)
From Coq Require Import Reals List.
From C05 Require Import C05Spec C05_gen.
Import ListNotations.
Local Open Scope R_scope.

Section S.
  Variables f0 f1 f2 m0 m1 m2 m3 m4 m5 m6 m7 m8 : R.
  (* buildFromEigenValuesAndVectors / computeIsotropicFunction(values, vectors) = sum_i f_i n_i  (3D; 2D with e_z third) *)
  Definition build_ok : Prop :=
    build3 f0 f1 f2 m0 m1 m2 m3 m4 m5 m6 m7 m8 = Some (iso_spec m0 m1 m2 m3 m4 m5 m6 m7 m8 f0 f1 f2) /\
    iso3 f0 f1 f2 m0 m1 m2 m3 m4 m5 m6 m7 m8 = Some (iso_spec m0 m1 m2 m3 m4 m5 m6 m7 m8 f0 f1 f2) /\
    build2 f0 f1 f2 m0 m1 m2 m3 m4 m5 m6 m7 m8 = Some (first4 (iso_spec m0 m1 0 m3 m4 0 0 0 1 f0 f1 f2)) /\
    iso2 f0 f1 f2 m0 m1 m2 m3 m4 m5 m6 m7 m8 = Some (first4 (iso_spec m0 m1 0 m3 m4 0 0 0 1 f0 f1 f2)).
  (* logarithm from eigen-data *)
  Definition log_ok : Prop :=
    logb3 f0 f1 f2 m0 m1 m2 m3 m4 m5 m6 m7 m8 = Some (iso_spec m0 m1 m2 m3 m4 m5 m6 m7 m8 (ln f0) (ln f1) (ln f2)) /\
    logb2 f0 f1 f2 m0 m1 m2 m3 m4 m5 m6 m7 m8 = Some (first4 (iso_spec m0 m1 0 m3 m4 0 0 0 1 (ln f0) (ln f1) (ln f2))).
  (* positive and negative parts are the isotropic functions of max(.,0), min(.,0) and add up to the tensor itself *)
  Definition posneg_ok : Prop :=
    pos3 f0 f1 f2 m0 m1 m2 m3 m4 m5 m6 m7 m8 = Some (iso_spec m0 m1 m2 m3 m4 m5 m6 m7 m8 (Rmax 0 f0) (Rmax 0 f1) (Rmax 0 f2)) /\
    neg3 f0 f1 f2 m0 m1 m2 m3 m4 m5 m6 m7 m8 = Some (iso_spec m0 m1 m2 m3 m4 m5 m6 m7 m8 (Rmin 0 f0) (Rmin 0 f1) (Rmin 0 f2)) /\
    pos2 f0 f1 f2 m0 m1 m2 m3 m4 m5 m6 m7 m8 = Some (first4 (iso_spec m0 m1 0 m3 m4 0 0 0 1 (Rmax 0 f0) (Rmax 0 f1) (Rmax 0 f2))) /\
    neg2 f0 f1 f2 m0 m1 m2 m3 m4 m5 m6 m7 m8 = Some (first4 (iso_spec m0 m1 0 m3 m4 0 0 0 1 (Rmin 0 f0) (Rmin 0 f1) (Rmin 0 f2))) /\
    add6 (iso_spec m0 m1 m2 m3 m4 m5 m6 m7 m8 (Rmax 0 f0) (Rmax 0 f1) (Rmax 0 f2))
         (iso_spec m0 m1 m2 m3 m4 m5 m6 m7 m8 (Rmin 0 f0) (Rmin 0 f1) (Rmin 0 f2)) = iso_spec m0 m1 m2 m3 m4 m5 m6 m7 m8 f0 f1 f2.

  Variables df0 df1 df2 vp0 vp1 vp2 eps : R.
  (* 2D derivative *)
  Definition deriv2_distinct_ok : Prop :=
    0 <= eps -> eps < Rabs (vp0 - vp1) ->
    deriv2 f0 f1 f2 df0 df1 df2 vp0 vp1 vp2 m0 m1 m2 m3 m4 m5 m6 m7 m8 eps =
    Some (DK2 m0 m1 m3 m4 df0 df1 df2 ((f0 - f1) / (vp0 - vp1))).
  Definition deriv2_equal_ok : Prop :=
    ~ eps < Rabs (vp0 - vp1) -> df0 = df1 ->
    deriv2 f0 f1 f2 df0 df1 df2 vp0 vp1 vp2 m0 m1 m2 m3 m4 m5 m6 m7 m8 eps = Some (DK2 m0 m1 m3 m4 df0 df1 df2 df0).
  (* 3D derivative, eigenvalues pairwise at least eps apart (eps not below the denormal guard of the code) *)
  Definition tiny := 22250738585072014 / 10 ^ 322.
  Definition deriv3_distinct_ok : Prop :=
    0 < eps -> tiny <= eps ->
    eps <= Rabs (vp0 - vp1) -> eps <= Rabs (vp0 - vp2) -> eps <= Rabs (vp1 - vp2) ->
    eps <= Rabs (vp1 - vp0) -> eps <= Rabs (vp2 - vp0) -> eps <= Rabs (vp2 - vp1) ->
    deriv3 f0 f1 f2 df0 df1 df2 vp0 vp1 vp2 m0 m1 m2 m3 m4 m5 m6 m7 m8 eps =
    Some (DK3 m0 m1 m2 m3 m4 m5 m6 m7 m8 df0 df1 df2 ((f0 - f1) / (vp0 - vp1)) ((f0 - f2) / (vp0 - vp2)) ((f1 - f2) / (vp1 - vp2))).
End S.

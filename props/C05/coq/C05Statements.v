(* C05 -- statements about the regenerated definitions (C05_gen.v) in terms of the independent specification *)
From Coq Require Import Reals List.
From C05 Require Import C05Spec C05_gen.
Import ListNotations.
Local Open Scope R_scope.

Section S.
  Variables f0 f1 f2 m0 m1 m2 m3 m4 m5 m6 m7 m8 : R.
  (* buildFromEigenValuesAndVectors / computeIsotropicFunction(values, vectors) = sum_i f_i n_i  (3D; 2D with e_z third) *)
  Definition build_ok : Prop :=
    build3 f0 f1 f2 m0 m1 m2 m3 m4 m5 m6 m7 m8 = Some (iso_spec m0 m1 m2 m3 m4 m5 m6 m7 m8 f0 f1 f2) /\
    iso3 f0 f1 f2 m0 m1 m2 m3 m4 m5 m6 m7 m8 = Some (iso_spec m0 m1 m2 m3 m4 m5 m6 m7 m8 f0 f1 f2) /\
    build2 f0 f1 f2 m0 m1 m2 m3 m4 m5 m6 m7 m8 = Some (first4 (iso_spec m0 m1 0 m3 m4 0 0 0 1 f0 f1 f2)) /\
    iso2 f0 f1 f2 m0 m1 m2 m3 m4 m5 m6 m7 m8 = Some (first4 (iso_spec m0 m1 0 m3 m4 0 0 0 1 f0 f1 f2)).
  (* logarithm from eigen-data *)
  Definition log_ok : Prop :=
    logb3 f0 f1 f2 m0 m1 m2 m3 m4 m5 m6 m7 m8 = Some (iso_spec m0 m1 m2 m3 m4 m5 m6 m7 m8 (ln f0) (ln f1) (ln f2)) /\
    logb2 f0 f1 f2 m0 m1 m2 m3 m4 m5 m6 m7 m8 = Some (first4 (iso_spec m0 m1 0 m3 m4 0 0 0 1 (ln f0) (ln f1) (ln f2))).
  (* positive and negative parts are the isotropic functions of max(.,0), min(.,0) and add up to the tensor itself *)
  Definition posneg_ok : Prop :=
    pos3 f0 f1 f2 m0 m1 m2 m3 m4 m5 m6 m7 m8 = Some (iso_spec m0 m1 m2 m3 m4 m5 m6 m7 m8 (Rmax 0 f0) (Rmax 0 f1) (Rmax 0 f2)) /\
    neg3 f0 f1 f2 m0 m1 m2 m3 m4 m5 m6 m7 m8 = Some (iso_spec m0 m1 m2 m3 m4 m5 m6 m7 m8 (Rmin 0 f0) (Rmin 0 f1) (Rmin 0 f2)) /\
    pos2 f0 f1 f2 m0 m1 m2 m3 m4 m5 m6 m7 m8 = Some (first4 (iso_spec m0 m1 0 m3 m4 0 0 0 1 (Rmax 0 f0) (Rmax 0 f1) (Rmax 0 f2))) /\
    neg2 f0 f1 f2 m0 m1 m2 m3 m4 m5 m6 m7 m8 = Some (first4 (iso_spec m0 m1 0 m3 m4 0 0 0 1 (Rmin 0 f0) (Rmin 0 f1) (Rmin 0 f2))) /\
    add6 (iso_spec m0 m1 m2 m3 m4 m5 m6 m7 m8 (Rmax 0 f0) (Rmax 0 f1) (Rmax 0 f2))
         (iso_spec m0 m1 m2 m3 m4 m5 m6 m7 m8 (Rmin 0 f0) (Rmin 0 f1) (Rmin 0 f2)) = iso_spec m0 m1 m2 m3 m4 m5 m6 m7 m8 f0 f1 f2.

  Variables df0 df1 df2 vp0 vp1 vp2 eps : R.
  (* 2D derivative *)
  Definition deriv2_distinct_ok : Prop :=
    0 <= eps -> eps < Rabs (vp0 - vp1) ->
    deriv2 f0 f1 f2 df0 df1 df2 vp0 vp1 vp2 m0 m1 m2 m3 m4 m5 m6 m7 m8 eps =
    Some (DK2 m0 m1 m3 m4 df0 df1 df2 ((f0 - f1) / (vp0 - vp1))).
  Definition deriv2_equal_ok : Prop :=
    ~ eps < Rabs (vp0 - vp1) -> df0 = df1 ->
    deriv2 f0 f1 f2 df0 df1 df2 vp0 vp1 vp2 m0 m1 m2 m3 m4 m5 m6 m7 m8 eps = Some (DK2 m0 m1 m3 m4 df0 df1 df2 df0).
  (* 3D derivative, eigenvalues pairwise at least eps apart (eps not below the denormal guard of the code) *)
  Definition tiny := 22250738585072014 / 10 ^ 322.
  Definition deriv3_distinct_ok : Prop :=
    0 < eps -> tiny <= eps ->
    eps <= Rabs (vp0 - vp1) -> eps <= Rabs (vp0 - vp2) -> eps <= Rabs (vp1 - vp2) ->
    eps <= Rabs (vp1 - vp0) -> eps <= Rabs (vp2 - vp0) -> eps <= Rabs (vp2 - vp1) ->
    deriv3 f0 f1 f2 df0 df1 df2 vp0 vp1 vp2 m0 m1 m2 m3 m4 m5 m6 m7 m8 eps =
    Some (DK3 m0 m1 m2 m3 m4 m5 m6 m7 m8 df0 df1 df2 ((f0 - f1) / (vp0 - vp1)) ((f0 - f2) / (vp0 - vp2)) ((f1 - f2) / (vp1 - vp2))).
  (* ---- 3D derivative, branches taken when eigenvalues are closer than eps (order of the tests as in the code:
     triple, then pairs (0,1), (0,2), (1,2)).  Each leaf is stated as the Daleckii-Krein tensor DK3 of MERGED eigen-data:
     the close eigenvalues are replaced by their mean vpm, with the mean of the function values as f(vpm) and the mean of
     the derivative values as f'(vpm) (this is what the code computes, for any f0..df2, also when the close
     eigenvalues are not exactly equal); the coefficient of the pair of coinciding eigenvalues is the limit f'(vpm) of the
     divided difference.  The `_exact` corollaries: eigenvalues exactly equal and f, f' values consistent (f_i = f_j,
     df_i = df_j, as for f_i = f(vp_i)) => the leaf is the Daleckii-Krein tensor of the original data with the
     divided difference replaced by its limit f' on the coinciding pair(s). *)
  Definition deriv3_call := deriv3 f0 f1 f2 df0 df1 df2 vp0 vp1 vp2 m0 m1 m2 m3 m4 m5 m6 m7 m8 eps.
  Definition deriv3_triple_ok : Prop :=
    Rabs (vp0 - vp1) < eps -> Rabs (vp0 - vp2) < eps ->
    deriv3_call = Some (scall ((df0 + df1 + df2) / 3) Id6) /\
    (ortho_cols m0 m1 m2 m3 m4 m5 m6 m7 m8 ->
     let dfm := (df0 + df1 + df2) / 3 in
     deriv3_call = Some (DK3 m0 m1 m2 m3 m4 m5 m6 m7 m8 dfm dfm dfm dfm dfm dfm)).
  Definition deriv3_triple_exact_ok : Prop :=
    ortho_cols m0 m1 m2 m3 m4 m5 m6 m7 m8 -> 0 < eps -> vp0 = vp1 -> vp0 = vp2 -> df0 = df1 -> df0 = df2 ->
    deriv3_call = Some (DK3 m0 m1 m2 m3 m4 m5 m6 m7 m8 df0 df1 df2 df0 df0 df1).
  Definition deriv3_pair01_ok : Prop :=
    Rabs (vp0 - vp1) < eps -> ~ Rabs (vp0 - vp2) < eps ->
    let vpm := (vp0 + vp1) / 2 in let fm := (f0 + f1) / 2 in let dfm := (df0 + df1) / 2 in
    deriv3_call = Some (DK3 m0 m1 m2 m3 m4 m5 m6 m7 m8 dfm dfm df2 dfm ((fm - f2) / (vpm - vp2)) ((fm - f2) / (vpm - vp2))).
  Definition deriv3_pair02_ok : Prop :=
    ~ Rabs (vp0 - vp1) < eps -> Rabs (vp0 - vp2) < eps ->
    let vpm := (vp0 + vp2) / 2 in let fm := (f0 + f2) / 2 in let dfm := (df0 + df2) / 2 in
    deriv3_call = Some (DK3 m0 m1 m2 m3 m4 m5 m6 m7 m8 dfm df1 dfm ((fm - f1) / (vpm - vp1)) dfm ((fm - f1) / (vpm - vp1))).
  Definition deriv3_pair12_ok : Prop :=
    ~ Rabs (vp0 - vp1) < eps -> ~ Rabs (vp0 - vp2) < eps -> Rabs (vp1 - vp2) < eps ->
    let vpm := (vp1 + vp2) / 2 in let fm := (f1 + f2) / 2 in let dfm := (df1 + df2) / 2 in
    deriv3_call = Some (DK3 m0 m1 m2 m3 m4 m5 m6 m7 m8 df0 dfm dfm ((f0 - fm) / (vp0 - vpm)) ((f0 - fm) / (vp0 - vpm)) dfm).
  (* exactly equal pairs *)
  Definition deriv3_pair01_exact_ok : Prop :=
    0 < eps -> vp0 = vp1 -> f0 = f1 -> df0 = df1 -> eps <= Rabs (vp0 - vp2) ->
    deriv3_call = Some (DK3 m0 m1 m2 m3 m4 m5 m6 m7 m8 df0 df1 df2 df0 ((f0 - f2) / (vp0 - vp2)) ((f1 - f2) / (vp1 - vp2))).
  Definition deriv3_pair02_exact_ok : Prop :=
    0 < eps -> vp0 = vp2 -> f0 = f2 -> df0 = df2 -> eps <= Rabs (vp0 - vp1) ->
    deriv3_call = Some (DK3 m0 m1 m2 m3 m4 m5 m6 m7 m8 df0 df1 df2 ((f0 - f1) / (vp0 - vp1)) df0 ((f1 - f2) / (vp1 - vp2))).
  Definition deriv3_pair12_exact_ok : Prop :=
    0 < eps -> vp1 = vp2 -> f1 = f2 -> df1 = df2 -> eps <= Rabs (vp0 - vp1) ->
    deriv3_call = Some (DK3 m0 m1 m2 m3 m4 m5 m6 m7 m8 df0 df1 df2 ((f0 - f1) / (vp0 - vp1)) ((f0 - f2) / (vp0 - vp2)) df1).
End S.

(* C05 -- property theorems (statements in C05Statements.v, proofs in C05Proofs.v) over definitions regenerated from /repo *)
From Coq Require Import Reals List.
From C05 Require Import C05Spec C05_gen C05Statements C05Proofs.
Local Open Scope R_scope.

(* buildFromEigenValuesAndVectors and computeIsotropicFunction(values, vectors) are sum_i f_i n_i, for every f and every matrix m *)
Theorem C05_build_from_eigen_data : forall f0 f1 f2 m0 m1 m2 m3 m4 m5 m6 m7 m8, build_ok f0 f1 f2 m0 m1 m2 m3 m4 m5 m6 m7 m8.
Proof. exact build_correct. Qed.
Print Assumptions C05_build_from_eigen_data.

Theorem C05_logarithm_from_eigen_data : forall f0 f1 f2 m0 m1 m2 m3 m4 m5 m6 m7 m8, log_ok f0 f1 f2 m0 m1 m2 m3 m4 m5 m6 m7 m8.
Proof. exact log_correct. Qed.
Print Assumptions C05_logarithm_from_eigen_data.

(* positive/negative parts = isotropic functions of max(0,.), min(0,.) (every sign pattern, zero included); their sum is the tensor *)
Theorem C05_positive_negative_parts : forall f0 f1 f2 m0 m1 m2 m3 m4 m5 m6 m7 m8, posneg_ok f0 f1 f2 m0 m1 m2 m3 m4 m5 m6 m7 m8.
Proof. exact posneg_correct. Qed.
Print Assumptions C05_positive_negative_parts.

(* 2D derivative, both branches = Daleckii-Krein tensor (divided difference, resp. its limit f' at equal eigenvalues) *)
Theorem C05_derivative_2D_distinct : forall f0 f1 f2 m0 m1 m2 m3 m4 m5 m6 m7 m8 df0 df1 df2 vp0 vp1 vp2 eps,
  deriv2_distinct_ok f0 f1 f2 m0 m1 m2 m3 m4 m5 m6 m7 m8 df0 df1 df2 vp0 vp1 vp2 eps.
Proof. exact deriv2_distinct. Qed.
Print Assumptions C05_derivative_2D_distinct.

Theorem C05_derivative_2D_equal : forall f0 f1 f2 m0 m1 m2 m3 m4 m5 m6 m7 m8 df0 df1 df2 vp0 vp1 vp2 eps,
  deriv2_equal_ok f0 f1 f2 m0 m1 m2 m3 m4 m5 m6 m7 m8 df0 df1 df2 vp0 vp1 vp2 eps.
Proof. exact deriv2_equal. Qed.
Print Assumptions C05_derivative_2D_equal.

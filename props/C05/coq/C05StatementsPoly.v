(* C05 -- the assumed mathematics, proved in one case: for a polynomial p of degree <= 3 and plane symmetric tensors the
   Daleckii-Krein tensor IS the derivative of s -> p(s).  p(s) is computed as a matrix polynomial (C05Spec.poly3_stensor2:
   no eigen-decomposition); the derivative is component-wise (Coquelicot is_derive) in the four stored components. *)
From Coq Require Import Reals List.
From Coquelicot Require Import Coquelicot.
From C05 Require Import C05Spec C05_gen.
Import ListNotations.
Local Open Scope R_scope.

Section Poly.
  Variables c0 c1 c2 c3 l0 l1 l2 m0 m1 m3 m4 : R.
  (* the point: s = l0 n0 + l1 n1 + l2 ez(x)ez *)
  Definition spt : list R := stensor2_of_eigen l0 l1 l2 m0 m1 m3 m4.
  (* Daleckii-Krein tensor of p at that point; dd3 is the divided difference of p (its limit p' when l0 = l1) *)
  Definition DKpoly : list R :=
    DK2 m0 m1 m3 m4 (dp3 c1 c2 c3 l0) (dp3 c1 c2 c3 l1) (dp3 c1 c2 c3 l2) (dd3 c1 c2 c3 l0 l1).
  Definition poly_DK_is_derivative : Prop :=
    ortho2 m0 m1 m3 m4 ->
    forall i j, (i < 4)%nat -> (j < 4)%nat ->
      is_derive (fun x => nthr (poly3_l c0 c1 c2 c3 (upd j x spt)) i) (nthr spt j) (nthr DKpoly (4 * i + j)).
  (* p(s) has the eigenvalues p(l_i) on the same eigenvectors: the matrix polynomial is the isotropic function *)
  Definition poly_is_isotropic : Prop :=
    ortho2 m0 m1 m3 m4 ->
    poly3_l c0 c1 c2 c3 spt = stensor2_of_eigen (p3 c0 c1 c2 c3 l0) (p3 c0 c1 c2 c3 l1) (p3 c0 c1 c2 c3 l2) m0 m1 m3 m4.
  Definition dd3_is_divided_difference : Prop :=
    (l0 <> l1 -> dd3 c1 c2 c3 l0 l1 = (p3 c0 c1 c2 c3 l0 - p3 c0 c1 c2 c3 l1) / (l0 - l1)) /\
    (l0 = l1 -> dd3 c1 c2 c3 l0 l1 = dp3 c1 c2 c3 l0) /\
    is_derive (p3 c0 c1 c2 c3) l0 (dp3 c1 c2 c3 l0).
End Poly.

(* ---- composition with the code regenerated from /repo (C05_gen.deriv2 = StensorComputeIsotropicFunctionDerivative<2>::exe
   through stensor<2>::computeIsotropicFunctionDerivative(d, f, df, vp, m, eps)) called with f_i = p(l_i), df_i = p'(l_i):
   the returned st2tost2 is, component by component, the derivative of s -> p(s) at s = sum l_i n_i. *)
Section PolyCode.
  Variables c0 c1 c2 c3 l0 l1 l2 m0 m1 m2 m3 m4 m5 m6 m7 m8 eps : R.
  Definition deriv2_poly_call (l0 l1 : R) : option (list R) :=
    deriv2 (p3 c0 c1 c2 c3 l0) (p3 c0 c1 c2 c3 l1) (p3 c0 c1 c2 c3 l2) (dp3 c1 c2 c3 l0) (dp3 c1 c2 c3 l1) (dp3 c1 c2 c3 l2)
           l0 l1 l2 m0 m1 m2 m3 m4 m5 m6 m7 m8 eps.
  Definition is_jacobian_at (l0 l1 : R) (D : list R) : Prop :=
    forall i j, (i < 4)%nat -> (j < 4)%nat ->
      is_derive (fun x => nthr (poly3_l c0 c1 c2 c3 (upd j x (spt l0 l1 l2 m0 m1 m3 m4))) i) (nthr (spt l0 l1 l2 m0 m1 m3 m4) j) (nthr D (4 * i + j)).
  Definition deriv2_poly_distinct : Prop :=
    ortho2 m0 m1 m3 m4 -> 0 <= eps -> eps < Rabs (l0 - l1) ->
    exists D, deriv2_poly_call l0 l1 = Some D /\ is_jacobian_at l0 l1 D.
End PolyCode.
Definition deriv2_poly_equal (c0 c1 c2 c3 l0 l2 m0 m1 m2 m3 m4 m5 m6 m7 m8 eps : R) : Prop :=
  ortho2 m0 m1 m3 m4 -> 0 <= eps ->
  exists D, deriv2_poly_call c0 c1 c2 c3 l2 m0 m1 m2 m3 m4 m5 m6 m7 m8 eps l0 l0 = Some D /\
            is_jacobian_at c0 c1 c2 c3 l2 m0 m1 m3 m4 l0 l0 D.

(* C05 -- proofs of C05StatementsPoly.v (specification level only: nothing here depends on the regenerated code) *)
From Coq Require Import Reals List Lra Lia Nsatz.
From Coquelicot Require Import Coquelicot.
From VLib Require Import RealExtra.
From C05 Require Import C05Spec C05_gen C05Statements C05Proofs C05StatementsPoly.
Import ListNotations.
Local Open Scope R_scope.

Ltac unfold_poly :=
  cbv beta iota zeta delta [spt DKpoly stensor2_of_eigen poly3_l poly3_stensor2 stensor2_of_mat mpoly3 mmul mid3 mat_of_stensor2 upd nthr
                            List.firstn List.skipn List.nth List.app Nat.mul Nat.add
                            iso_spec add6 scal6 n0 n1 n2 n01 n02 n12 ntens nsym first4 List.map List.flat_map outer addl scall DK2 p3 dp3 dd3].
(* a rational identity in the variables and sqrt 2 that holds modulo the orthonormality relations *)
Ltac modulo_ortho :=
  field_simplify_eq; [ | try exact sqrt2_neq0 .. ];
  generalize sqrt2_sq; generalize (sqrt 2);
  let q := fresh "q" in let Hq := fresh "Hq" in intros q Hq; cbv [Rpow_def.pow] in *; nsatz.

Lemma poly_DK_is_derivative_proof c0 c1 c2 c3 l0 l1 l2 m0 m1 m3 m4 : poly_DK_is_derivative c0 c1 c2 c3 l0 l1 l2 m0 m1 m3 m4.
Proof.
  unfold poly_DK_is_derivative, ortho2. intros (H1 & H2 & H3) i j Hi Hj.
  destruct i as [|[|[|[|i]]]]; try (exfalso; lia); destruct j as [|[|[|[|j]]]]; try (exfalso; lia); clear Hi Hj;
    unfold_poly; (auto_derive; [ exact I | modulo_ortho ]).
Qed.

Lemma poly_is_isotropic_proof c0 c1 c2 c3 l0 l1 l2 m0 m1 m3 m4 : poly_is_isotropic c0 c1 c2 c3 l0 l1 l2 m0 m1 m3 m4.
Proof.
  unfold poly_is_isotropic, ortho2. intros (H1 & H2 & H3). unfold_poly.
  repeat (apply f_equal2; [ first [ reflexivity | ring | modulo_ortho ] | ]). reflexivity.
Qed.

Lemma dd3_is_divided_difference_proof c0 c1 c2 c3 l0 l1 : dd3_is_divided_difference c0 c1 c2 c3 l0 l1.
Proof.
  unfold dd3_is_divided_difference, dd3, dp3, p3. split; [ | split ].
  - intro H. field. intro E. apply H. lra.
  - intros ->. ring.
  - auto_derive; [ exact I | ring ].
Qed.

(* ---- composition with the regenerated code: for p of degree <= 3 the output of the 2D derivative code IS the derivative *)
Lemma deriv2_poly_distinct_proof c0 c1 c2 c3 l0 l1 l2 m0 m1 m2 m3 m4 m5 m6 m7 m8 eps :
  deriv2_poly_distinct c0 c1 c2 c3 l0 l1 l2 m0 m1 m2 m3 m4 m5 m6 m7 m8 eps.
Proof.
  unfold deriv2_poly_distinct. intros Ho He Hd.
  assert (N : l0 <> l1) by (intro E; subst l1; replace (l0 - l0) with 0 in Hd by ring; rewrite Rabs_R0 in Hd; lra).
  exists (DKpoly c1 c2 c3 l0 l1 l2 m0 m1 m3 m4). split.
  - unfold deriv2_poly_call. rewrite C05Proofs.deriv2_distinct by assumption. unfold DKpoly.
    destruct (dd3_is_divided_difference_proof c0 c1 c2 c3 l0 l1) as (E & _ & _). now rewrite (E N).
  - exact (poly_DK_is_derivative_proof c0 c1 c2 c3 l0 l1 l2 m0 m1 m3 m4 Ho).
Qed.

Lemma deriv2_poly_equal_proof c0 c1 c2 c3 l0 l2 m0 m1 m2 m3 m4 m5 m6 m7 m8 eps :
  deriv2_poly_equal c0 c1 c2 c3 l0 l2 m0 m1 m2 m3 m4 m5 m6 m7 m8 eps.
Proof.
  unfold deriv2_poly_equal. intros Ho He.
  exists (DKpoly c1 c2 c3 l0 l0 l2 m0 m1 m3 m4). split.
  - unfold deriv2_poly_call. rewrite C05Proofs.deriv2_equal; [ | replace (l0 - l0) with 0 by ring; rewrite Rabs_R0; lra | reflexivity ].
    unfold DKpoly. destruct (dd3_is_divided_difference_proof c0 c1 c2 c3 l0 l0) as (_ & E & _). now rewrite E.
  - exact (poly_DK_is_derivative_proof c0 c1 c2 c3 l0 l0 l2 m0 m1 m3 m4 Ho).
Qed.

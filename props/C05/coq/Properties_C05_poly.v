(* C05 -- the Daleckii-Krein tensor as a true derivative (polynomials of degree <= 3, plane tensors), alone and composed with
   the regenerated 2D code.  Statements: C05StatementsPoly.v; proofs: C05ProofsPoly.v *)
From Coq Require Import Reals List.
From Coquelicot Require Import Coquelicot.
From C05 Require Import C05Spec C05_gen C05Statements C05StatementsPoly C05Proofs C05ProofsPoly.
Local Open Scope R_scope.

(* ---- the Daleckii-Krein tensor is the derivative: polynomials of degree <= 3, plane tensors *)
Theorem C05_DK_is_derivative_poly3_2D : forall c0 c1 c2 c3 l0 l1 l2 m0 m1 m3 m4, poly_DK_is_derivative c0 c1 c2 c3 l0 l1 l2 m0 m1 m3 m4.
Proof. exact poly_DK_is_derivative_proof. Qed.
Print Assumptions C05_DK_is_derivative_poly3_2D.
Theorem C05_matrix_polynomial_is_isotropic_2D : forall c0 c1 c2 c3 l0 l1 l2 m0 m1 m3 m4, poly_is_isotropic c0 c1 c2 c3 l0 l1 l2 m0 m1 m3 m4.
Proof. exact poly_is_isotropic_proof. Qed.
Print Assumptions C05_matrix_polynomial_is_isotropic_2D.
Theorem C05_divided_difference_poly3 : forall c0 c1 c2 c3 l0 l1, dd3_is_divided_difference c0 c1 c2 c3 l0 l1.
Proof. exact dd3_is_divided_difference_proof. Qed.
Print Assumptions C05_divided_difference_poly3.
(* composed with the regenerated code *)
Theorem C05_derivative_2D_code_is_derivative_poly3_distinct : forall c0 c1 c2 c3 l0 l1 l2 m0 m1 m2 m3 m4 m5 m6 m7 m8 eps,
  deriv2_poly_distinct c0 c1 c2 c3 l0 l1 l2 m0 m1 m2 m3 m4 m5 m6 m7 m8 eps.
Proof. exact deriv2_poly_distinct_proof. Qed.
Print Assumptions C05_derivative_2D_code_is_derivative_poly3_distinct.
Theorem C05_derivative_2D_code_is_derivative_poly3_equal : forall c0 c1 c2 c3 l0 l2 m0 m1 m2 m3 m4 m5 m6 m7 m8 eps,
  deriv2_poly_equal c0 c1 c2 c3 l0 l2 m0 m1 m2 m3 m4 m5 m6 m7 m8 eps.
Proof. exact deriv2_poly_equal_proof. Qed.
Print Assumptions C05_derivative_2D_code_is_derivative_poly3_equal.

(* C05 -- 3D derivative, eigenvalues pairwise at least eps apart: the traced branch equals the Daleckii-Krein tensor *)
From Coq Require Import Reals List.
From C05 Require Import C05Spec C05_gen C05Statements C05Proofs C05Proofs3D.
Local Open Scope R_scope.

Theorem C05_derivative_3D_distinct : forall f0 f1 f2 m0 m1 m2 m3 m4 m5 m6 m7 m8 df0 df1 df2 vp0 vp1 vp2 eps,
  deriv3_distinct_ok f0 f1 f2 m0 m1 m2 m3 m4 m5 m6 m7 m8 df0 df1 df2 vp0 vp1 vp2 eps.
Proof. exact deriv3_distinct. Qed.
Print Assumptions C05_derivative_3D_distinct.

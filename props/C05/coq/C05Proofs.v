(* C05 -- proofs over the definitions regenerated from /repo (C05_gen.v); shape independent tactics *)
From Coq Require Import Reals List Lra.
From VLib Require Import RealExtra.
From C05 Require Import C05Spec C05_gen C05Statements.
Import ListNotations.
Local Open Scope R_scope.

Ltac unfold_spec :=
  cbv beta iota zeta delta [iso_spec add6 scal6 n0 n1 n2 n01 n02 n12 ntens nsym first4 map flat_map app outer addl scall DK3 DK2].
Ltac alg := first [ reflexivity | ring | (field_simplify_eq; [ ring [sqrt2_sq] | .. ]) ].
(* Some [..] = Some [..] componentwise *)
Ltac lists_eq tac :=
  match goal with |- Some _ = Some _ => apply f_equal | _ => idtac end;
  repeat (apply f_equal2; [ tac | ]); try reflexivity.
Ltac split_tests :=
  repeat match goal with
         | |- context [if ?c then _ else _] => destruct c
         end.

Lemma build_correct f0 f1 f2 m0 m1 m2 m3 m4 m5 m6 m7 m8 : build_ok f0 f1 f2 m0 m1 m2 m3 m4 m5 m6 m7 m8.
Proof.
  unfold build_ok, build3, iso3, build2, iso2. cbv zeta. unfold_spec. repeat split; lists_eq ltac:(ring).
Qed.

Lemma log_correct f0 f1 f2 m0 m1 m2 m3 m4 m5 m6 m7 m8 : log_ok f0 f1 f2 m0 m1 m2 m3 m4 m5 m6 m7 m8.
Proof.
  unfold log_ok, logb3, logb2. cbv zeta. unfold_spec. repeat split; lists_eq ltac:(ring).
Qed.

Lemma posneg_correct f0 f1 f2 m0 m1 m2 m3 m4 m5 m6 m7 m8 : posneg_ok f0 f1 f2 m0 m1 m2 m3 m4 m5 m6 m7 m8.
Proof.
  unfold posneg_ok, pos3, neg3, pos2, neg2. cbv zeta. unfold_spec. unfold Rmax, Rmin.
  repeat split; split_tests; repeat (match goal with |- context [Rle_dec ?a ?b] => destruct (Rle_dec a b) end); try lra;
    repeat match goal with
           | H : ~ 0 < ?f, H2 : 0 <= ?f |- _ => assert (f = 0) by lra; subst f
           | H : ~ ?f < 0, H2 : ~ 0 <= ?f |- _ => exfalso; lra
           | H : ~ ?f < 0, H2 : ?f <= 0 |- _ => assert (f = 0) by lra; subst f
           end;
    lists_eq ltac:(ring).
Qed.

(* ---- derivatives *)
Lemma abs_gt_nz x e : 0 <= e -> e < Rabs x -> x <> 0.
Proof. intros He H Hx. subst x. rewrite Rabs_R0 in H. lra. Qed.
Lemma abs_ge_nz x e : 0 < e -> e <= Rabs x -> x <> 0.
Proof. intros He H Hx. subst x. rewrite Rabs_R0 in H. lra. Qed.
Lemma big_ratio x d : 0 < d -> d < Rabs x -> 1 < Rabs (x / d).
Proof.
  intros Hd H. unfold Rdiv. rewrite Rabs_mult, (Rabs_right (/ d)).
  - apply (Rmult_lt_reg_r d); [exact Hd|]. rewrite Rmult_assoc, Rinv_l; lra.
  - apply Rle_ge, Rlt_le, Rinv_0_lt_compat, Hd.
Qed.

(* discharge the side conditions of field: every denominator is a difference of eigenvalues known to be non-zero *)
Ltac nz_side :=
  repeat split;
  match goal with
  | |- ?e <> 0 =>
      first [ assumption | apply sqrt2_neq0
            | (let Hc := fresh in intro Hc;
               match goal with H : ?x <> 0 |- _ => apply H; lra end) ]
  end.
Ltac fld := first [ reflexivity | ring | (field_simplify_eq; [ ring [sqrt2_sq] | nz_side ]) ].

Lemma deriv2_distinct f0 f1 f2 m0 m1 m2 m3 m4 m5 m6 m7 m8 df0 df1 df2 vp0 vp1 vp2 eps :
  deriv2_distinct_ok f0 f1 f2 m0 m1 m2 m3 m4 m5 m6 m7 m8 df0 df1 df2 vp0 vp1 vp2 eps.
Proof.
  unfold deriv2_distinct_ok. intros He H.
  pose proof (abs_gt_nz _ _ He H) as Hnz.
  unfold deriv2. cbv zeta. split_tests; [|contradiction].
  unfold_spec. lists_eq fld.
Qed.

Lemma deriv2_equal f0 f1 f2 m0 m1 m2 m3 m4 m5 m6 m7 m8 df0 df1 df2 vp0 vp1 vp2 eps :
  deriv2_equal_ok f0 f1 f2 m0 m1 m2 m3 m4 m5 m6 m7 m8 df0 df1 df2 vp0 vp1 vp2 eps.
Proof.
  unfold deriv2_equal_ok. intros H Hd. subst df1.
  unfold deriv2. cbv zeta. split_tests; [contradiction|].
  unfold_spec. lists_eq fld.
Qed.

(* C05 -- 3D derivative, branch "all eigenvalues distinct" (thorough tier: 36 field identities over large terms) *)
From Coq Require Import Reals List Lra.
From VLib Require Import RealExtra.
From C05 Require Import C05Spec C05_gen C05Statements C05Proofs.
Import ListNotations.
Local Open Scope R_scope.

(* walk down the decision tree, discarding the branch contradicted by the hypotheses *)
Ltac kill :=
  first [ lra
        | (exfalso; match goal with H : ~ 1 < Rabs (?x / ?d) |- _ => apply H; apply big_ratio; lra end)
        | (exfalso; match goal with H : 1 < Rabs (?x / ?d) -> False |- _ => apply H; apply big_ratio; lra end) ].
Ltac walk :=
  repeat match goal with
         | |- context [if ?c then _ else _] => destruct c; [ try (exfalso; kill) | try (exfalso; kill) ]
         end.

Lemma deriv3_distinct f0 f1 f2 m0 m1 m2 m3 m4 m5 m6 m7 m8 df0 df1 df2 vp0 vp1 vp2 eps :
  deriv3_distinct_ok f0 f1 f2 m0 m1 m2 m3 m4 m5 m6 m7 m8 df0 df1 df2 vp0 vp1 vp2 eps.
Proof.
  unfold deriv3_distinct_ok, tiny. intros He Ht H01 H02 H12 H10 H20 H21.
  pose proof (abs_ge_nz _ _ He H01) as N01. pose proof (abs_ge_nz _ _ He H02) as N02.
  pose proof (abs_ge_nz _ _ He H12) as N12.
  unfold deriv3. cbv zeta. walk.
  unfold_spec. lists_eq fld.
Qed.

(* C05 -- specification of isotropic tensor functions, independent of the code.
   A symmetric tensor is stored as (a00 a11 a22 sqrt2*a01 sqrt2*a02 sqrt2*a12); m is the 3x3 matrix of eigenvectors
   stored row-major (column k = k-th eigenvector). *)
From Coq Require Import Reals List.
Import ListNotations.
Local Open Scope R_scope.

Definition add6 (a b : list R) : list R :=
  match a, b with
  | [a0; a1; a2; a3; a4; a5], [b0; b1; b2; b3; b4; b5] => [a0 + b0; a1 + b1; a2 + b2; a3 + b3; a4 + b4; a5 + b5]
  | _, _ => []
  end.
Definition scal6 (k : R) (a : list R) : list R := map (fun x => k * x) a.

(* eigen tensor v (x) v *)
Definition ntens (a0 a1 a2 : R) : list R :=
  [a0 * a0; a1 * a1; a2 * a2; sqrt 2 * (a0 * a1); sqrt 2 * (a0 * a2); sqrt 2 * (a1 * a2)].
(* (a (x) b + b (x) a) / sqrt 2 *)
Definition nsym (a0 a1 a2 b0 b1 b2 : R) : list R :=
  [sqrt 2 * (a0 * b0); sqrt 2 * (a1 * b1); sqrt 2 * (a2 * b2); a0 * b1 + a1 * b0; a0 * b2 + a2 * b0; a1 * b2 + a2 * b1].

Section Eigen.
  Variables m0 m1 m2 m3 m4 m5 m6 m7 m8 : R.
  Definition n0 := ntens m0 m3 m6.
  Definition n1 := ntens m1 m4 m7.
  Definition n2 := ntens m2 m5 m8.
  Definition n01 := nsym m0 m3 m6 m1 m4 m7.
  Definition n02 := nsym m0 m3 m6 m2 m5 m8.
  Definition n12 := nsym m1 m4 m7 m2 m5 m8.
  (* f(s) = sum_i f_i n_i  *)
  Definition iso_spec (f0 f1 f2 : R) : list R := add6 (add6 (scal6 f0 n0) (scal6 f1 n1)) (scal6 f2 n2).
End Eigen.

(* 6x6 (or 4x4) matrices row-major; u (x) w *)
Definition outer (u w : list R) : list R := flat_map (fun x => map (fun y => x * y) w) u.
Fixpoint addl (a b : list R) : list R :=
  match a, b with x :: a', y :: b' => (x + y) :: addl a' b' | _, _ => [] end.
Definition scall (k : R) (a : list R) : list R := map (fun x => k * x) a.

(* Daleckii-Krein form of the derivative of an isotropic function:
   sum_i df_i n_i(x)n_i + sum_{i<j} theta_ij n_ij(x)n_ij,
   theta_ij = (f_i - f_j)/(l_i - l_j) for distinct eigenvalues, f'(l) for equal ones (the limit). *)
Definition DK3 (m0 m1 m2 m3 m4 m5 m6 m7 m8 df0 df1 df2 t01 t02 t12 : R) : list R :=
  let N0 := n0 m0 m3 m6 in let N1 := n1 m1 m4 m7 in let N2 := n2 m2 m5 m8 in
  let N01 := n01 m0 m1 m3 m4 m6 m7 in let N02 := n02 m0 m2 m3 m5 m6 m8 in let N12 := n12 m1 m2 m4 m5 m7 m8 in
  addl (addl (addl (scall df0 (outer N0 N0)) (scall df1 (outer N1 N1))) (scall df2 (outer N2 N2)))
       (addl (addl (scall t01 (outer N01 N01)) (scall t02 (outer N02 N02))) (scall t12 (outer N12 N12))).

(* plane tensors (N=2): 4 components (a00 a11 a22 sqrt2*a01), third eigenvector e_z *)
Definition first4 (l : list R) : list R := match l with [a; b; c; d; _; _] => [a; b; c; d] | _ => [] end.
Definition DK2 (m0 m1 m3 m4 df0 df1 df2 t01 : R) : list R :=
  let N0 := first4 (n0 m0 m3 0) in let N1 := first4 (n1 m1 m4 0) in let N2 := first4 (n2 0 0 1) in
  let N01 := first4 (n01 m0 m1 m3 m4 0 0) in
  addl (addl (addl (scall df0 (outer N0 N0)) (scall df1 (outer N1 N1))) (scall df2 (outer N2 N2))) (scall t01 (outer N01 N01)).

(* C05 -- specification of isotropic tensor functions, independent of the code.
   A symmetric tensor is stored as (a00 a11 a22 sqrt2*a01 sqrt2*a02 sqrt2*a12); m is the 3x3 matrix of eigenvectors
   stored row-major (column k = k-th eigenvector). *)
From Coq Require Import Reals List.
Import ListNotations.
Local Open Scope R_scope.

Definition add6 (a b : list R) : list R :=
  match a, b with
  | [a0; a1; a2; a3; a4; a5], [b0; b1; b2; b3; b4; b5] => [a0 + b0; a1 + b1; a2 + b2; a3 + b3; a4 + b4; a5 + b5]
  | _, _ => []
  end.
Definition scal6 (k : R) (a : list R) : list R := map (fun x => k * x) a.

(* eigen tensor v (x) v *)
Definition ntens (a0 a1 a2 : R) : list R :=
  [a0 * a0; a1 * a1; a2 * a2; sqrt 2 * (a0 * a1); sqrt 2 * (a0 * a2); sqrt 2 * (a1 * a2)].
(* (a (x) b + b (x) a) / sqrt 2 *)
Definition nsym (a0 a1 a2 b0 b1 b2 : R) : list R :=
  [sqrt 2 * (a0 * b0); sqrt 2 * (a1 * b1); sqrt 2 * (a2 * b2); a0 * b1 + a1 * b0; a0 * b2 + a2 * b0; a1 * b2 + a2 * b1].

Section Eigen.
  Variables m0 m1 m2 m3 m4 m5 m6 m7 m8 : R.
  Definition n0 := ntens m0 m3 m6.
  Definition n1 := ntens m1 m4 m7.
  Definition n2 := ntens m2 m5 m8.
  Definition n01 := nsym m0 m3 m6 m1 m4 m7.
  Definition n02 := nsym m0 m3 m6 m2 m5 m8.
  Definition n12 := nsym m1 m4 m7 m2 m5 m8.
  (* f(s) = sum_i f_i n_i  *)
  Definition iso_spec (f0 f1 f2 : R) : list R := add6 (add6 (scal6 f0 n0) (scal6 f1 n1)) (scal6 f2 n2).
End Eigen.

(* 6x6 (or 4x4) matrices row-major; u (x) w *)
Definition outer (u w : list R) : list R := flat_map (fun x => map (fun y => x * y) w) u.
Fixpoint addl (a b : list R) : list R :=
  match a, b with x :: a', y :: b' => (x + y) :: addl a' b' | _, _ => [] end.
Definition scall (k : R) (a : list R) : list R := map (fun x => k * x) a.

(* Daleckii-Krein form of the derivative of an isotropic function:
   sum_i df_i n_i(x)n_i + sum_{i<j} theta_ij n_ij(x)n_ij,
   theta_ij = (f_i - f_j)/(l_i - l_j) for distinct eigenvalues, f'(l) for equal ones (the limit). *)
Definition DK3 (m0 m1 m2 m3 m4 m5 m6 m7 m8 df0 df1 df2 t01 t02 t12 : R) : list R :=
  let N0 := n0 m0 m3 m6 in let N1 := n1 m1 m4 m7 in let N2 := n2 m2 m5 m8 in
  let N01 := n01 m0 m1 m3 m4 m6 m7 in let N02 := n02 m0 m2 m3 m5 m6 m8 in let N12 := n12 m1 m2 m4 m5 m7 m8 in
  addl (addl (addl (scall df0 (outer N0 N0)) (scall df1 (outer N1 N1))) (scall df2 (outer N2 N2)))
       (addl (addl (scall t01 (outer N01 N01)) (scall t02 (outer N02 N02))) (scall t12 (outer N12 N12))).

(* plane tensors (N=2): 4 components (a00 a11 a22 sqrt2*a01), third eigenvector e_z *)
Definition first4 (l : list R) : list R := match l with [a; b; c; d; _; _] => [a; b; c; d] | _ => [] end.
Definition DK2 (m0 m1 m3 m4 df0 df1 df2 t01 : R) : list R :=
  let N0 := first4 (n0 m0 m3 0) in let N1 := first4 (n1 m1 m4 0) in let N2 := first4 (n2 0 0 1) in
  let N01 := first4 (n01 m0 m1 m3 m4 0 0) in
  addl (addl (addl (scall df0 (outer N0 N0)) (scall df1 (outer N1 N1))) (scall df2 (outer N2 N2))) (scall t01 (outer N01 N01)).

(* ---- identity of symmetric 4th order tensors and orthogonality of the eigenvector matrix (columns = eigenvectors) *)
Definition Id6 : list R :=
  [1; 0; 0; 0; 0; 0;  0; 1; 0; 0; 0; 0;  0; 0; 1; 0; 0; 0;  0; 0; 0; 1; 0; 0;  0; 0; 0; 0; 1; 0;  0; 0; 0; 0; 0; 1].
(* the three eigenvectors (columns of m) are orthonormal *)
Definition ortho_cols (m0 m1 m2 m3 m4 m5 m6 m7 m8 : R) : Prop :=
  m0 * m0 + m3 * m3 + m6 * m6 = 1 /\ m1 * m1 + m4 * m4 + m7 * m7 = 1 /\ m2 * m2 + m5 * m5 + m8 * m8 = 1 /\
  m0 * m1 + m3 * m4 + m6 * m7 = 0 /\ m0 * m2 + m3 * m5 + m6 * m8 = 0 /\ m1 * m2 + m4 * m5 + m7 * m8 = 0.

(* ---- matrix polynomials of a plane symmetric tensor, computed WITHOUT any eigen-decomposition.
   s = (s0 s1 s2 s3) stands for the matrix [[s0, s3/sqrt2, 0], [s3/sqrt2, s1, 0], [0, 0, s2]]. *)
Definition mat3 := list R.  (* 9 entries, row major *)
Definition mat_of_stensor2 (s0 s1 s2 s3 : R) : mat3 := [s0; s3 / sqrt 2; 0;  s3 / sqrt 2; s1; 0;  0; 0; s2].
Definition mmul (a b : mat3) : mat3 :=
  match a, b with
  | [a0; a1; a2; a3; a4; a5; a6; a7; a8], [b0; b1; b2; b3; b4; b5; b6; b7; b8] =>
      [a0 * b0 + a1 * b3 + a2 * b6; a0 * b1 + a1 * b4 + a2 * b7; a0 * b2 + a1 * b5 + a2 * b8;
       a3 * b0 + a4 * b3 + a5 * b6; a3 * b1 + a4 * b4 + a5 * b7; a3 * b2 + a4 * b5 + a5 * b8;
       a6 * b0 + a7 * b3 + a8 * b6; a6 * b1 + a7 * b4 + a8 * b7; a6 * b2 + a7 * b5 + a8 * b8]
  | _, _ => []
  end.
Definition mid3 : mat3 := [1; 0; 0; 0; 1; 0; 0; 0; 1].
Definition stensor2_of_mat (a : mat3) : list R :=
  match a with [a0; a1; _; _; a4; _; _; _; a8] => [a0; a4; a8; sqrt 2 * a1] | _ => [] end.
(* p(A) = c0 I + c1 A + c2 A^2 + c3 A^3 *)
Definition mpoly3 (c0 c1 c2 c3 : R) (a : mat3) : mat3 :=
  addl (addl (addl (scall c0 mid3) (scall c1 a)) (scall c2 (mmul a a))) (scall c3 (mmul a (mmul a a))).
Definition poly3_stensor2 (c0 c1 c2 c3 s0 s1 s2 s3 : R) : list R :=
  stensor2_of_mat (mpoly3 c0 c1 c2 c3 (mat_of_stensor2 s0 s1 s2 s3)).
(* the scalar polynomial, its derivative and its divided difference (a polynomial: no division) *)
Definition p3 (c0 c1 c2 c3 x : R) : R := c0 + c1 * x + c2 * (x * x) + c3 * (x * x * x).
Definition dp3 (c1 c2 c3 x : R) : R := c1 + 2 * c2 * x + 3 * c3 * (x * x).
Definition dd3 (c1 c2 c3 x y : R) : R := c1 + c2 * (x + y) + c3 * (x * x + x * y + y * y).
(* the plane tensor with eigenvalues l0 l1 (in plane, eigenvectors (m0,m3), (m1,m4)) and l2 (out of plane) *)
Definition stensor2_of_eigen (l0 l1 l2 m0 m1 m3 m4 : R) : list R := first4 (iso_spec m0 m1 0 m3 m4 0 0 0 1 l0 l1 l2).
Definition upd (j : nat) (x : R) (s : list R) : list R := firstn j s ++ x :: skipn (S j) s.
Definition nthr (l : list R) (i : nat) : R := nth i l 0.
Definition poly3_l (c0 c1 c2 c3 : R) (s : list R) : list R := poly3_stensor2 c0 c1 c2 c3 (nthr s 0) (nthr s 1) (nthr s 2) (nthr s 3).
(* the two in-plane eigenvectors (m0,m3), (m1,m4) are orthonormal *)
Definition ortho2 (m0 m1 m3 m4 : R) : Prop := m0 * m0 + m3 * m3 = 1 /\ m1 * m1 + m4 * m4 = 1 /\ m0 * m1 + m3 * m4 = 0.

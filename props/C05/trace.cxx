// C05 tracer (engine S): isotropic functions of symmetric tensors with the eigen-data (values, vectors) as symbolic inputs.
//   trace gen <out.v> [seed] [nagree]
#include "symtfel.hxx"
#include <cstring>
#include <iostream>
#include "TFEL/Math/stensor.hxx"
#include "TFEL/Math/st2tost2.hxx"
#include "TFEL/Math/tmatrix.hxx"

using namespace symv;
using tfel::math::st2tost2;
using tfel::math::stensor;
using tfel::math::tmatrix;
using tfel::math::tvector;

template <typename T>
static tmatrix<3u, 3u, T> mat(const std::vector<T>& m, unsigned short N) {
  tmatrix<3u, 3u, T> r;
  for (unsigned short i = 0; i < 3; ++i)
    for (unsigned short j = 0; j < 3; ++j) r(i, j) = m[3 * i + j];
  if (N == 2) {  // plane tensors: third eigenvector is e_z
    r(0, 2) = r(1, 2) = r(2, 0) = r(2, 1) = T(0);
    r(2, 2) = T(1);
  }
  return r;
}
// x = f0 f1 f2 m0..m8
template <unsigned short N, typename T>
std::vector<T> f_build(const std::vector<T>& x, int which) {
  const auto m = mat<T>(std::vector<T>(x.begin() + 3, x.begin() + 12), N);
  stensor<N, T> s;
  tvector<3u, T> vp{x[0], x[1], x[2]};
  switch (which) {
    case 0: s = stensor<N, T>::buildFromEigenValuesAndVectors(x[0], x[1], x[2], m); break;
    case 1: s = stensor<N, T>::buildPositivePartFromEigenValuesAndVectors(vp, m); break;
    case 2: s = stensor<N, T>::buildNegativePartFromEigenValuesAndVectors(vp, m); break;
    case 3: s = stensor<N, T>::buildLogarithmFromEigenValuesAndVectors(vp, m); break;
    case 4: s = stensor<N, T>::computeIsotropicFunction(vp, m); break;
  }
  return std::vector<T>(s.begin(), s.end());
}
// x = f0 f1 f2 df0 df1 df2 vp0 vp1 vp2 m0..m8 eps
template <unsigned short N, typename T>
std::vector<T> f_deriv(const std::vector<T>& x) {
  const auto m = mat<T>(std::vector<T>(x.begin() + 9, x.begin() + 18), N);
  tvector<3u, T> f{x[0], x[1], x[2]}, df{x[3], x[4], x[5]}, vp{x[6], x[7], x[8]};
  st2tost2<N, T> d;
  stensor<N, T>::computeIsotropicFunctionDerivative(d, f, df, vp, m, x[18]);
  std::vector<T> r;
  constexpr unsigned short sz = tfel::math::StensorDimeToSize<N>::value;
  for (unsigned short i = 0; i < sz; ++i)
    for (unsigned short j = 0; j < sz; ++j) r.push_back(d(i, j));
  return r;
}

template <typename FD>
static void agree(const char* name, const std::vector<Leaf>& leaves, const std::vector<Sym>& ps, Rng& rng, int n, FD fd,
                  const std::function<std::vector<double>(Rng&)>& gen) {
  int ok = 0, fail = 0, skip = 0;
  std::string firstbad;
  for (int it = 0; it < n; ++it) {
    auto x = gen(rng);
    Env env;
    for (size_t k = 0; k < ps.size(); ++k) env[Store::get().nodes[node_of(ps[k])].name] = x[k];
    std::vector<long double> r;
    std::string err;
    if (!eval_leaves(leaves, env, r, &err) || !err.empty()) {
      ++skip;
      continue;
    }
    auto d = fd(x);
    long double sc = 1e-30L;
    for (auto v : r) sc = std::max(sc, std::fabs(v));
    bool good = d.size() == r.size();
    for (size_t k = 0; good && k < d.size(); ++k) good = std::fabs(d[k] - r[k]) <= 1e-10L * sc;
    if (good) ++ok;
    else {
      ++fail;
      if (firstbad.empty()) {
        std::ostringstream o;
        o.precision(17);
        for (double v : x) o << v << ",";
        firstbad = o.str();
      }
    }
  }
  std::printf("AGREE %s ok=%d fail=%d skip=%d %s\n", name, ok, fail, skip, firstbad.c_str());
}

int main(int argc, char** argv) {
  if (argc < 3 || std::strcmp(argv[1], "gen")) return 2;
  const uint64_t seed = argc > 3 ? std::strtoull(argv[3], nullptr, 10) : 1;
  const int nag = argc > 4 ? std::atoi(argv[4]) : 200;
  Rng rng(seed);
  Trace tr("C05_gen");
  auto f = vars("f", 3);
  auto m = vars("m", 9);
  std::vector<Sym> bp = f;
  bp.insert(bp.end(), m.begin(), m.end());
  auto gen12 = [](Rng& r) {
    std::vector<double> x;
    for (int i = 0; i < 12; ++i) x.push_back(r.range(-2, 2));
    return x;
  };
  auto gen12pos = [](Rng& r) {
    std::vector<double> x;
    for (int i = 0; i < 3; ++i) x.push_back(r.range(0.1, 3));
    for (int i = 0; i < 9; ++i) x.push_back(r.range(-2, 2));
    return x;
  };
  const char* bn[5] = {"build", "pos", "neg", "logb", "iso"};
  for (int w = 0; w < 5; ++w) {
    auto l3 = tr.def_paths(std::string(bn[w]) + "3", bp, [&] { return f_build<3u, Sym>(bp, w); });
    agree((std::string(bn[w]) + "3").c_str(), l3, bp, rng, nag, [w](const std::vector<double>& x) { return f_build<3u, double>(x, w); },
          w == 3 ? std::function<std::vector<double>(Rng&)>(gen12pos) : std::function<std::vector<double>(Rng&)>(gen12));
    auto l2 = tr.def_paths(std::string(bn[w]) + "2", bp, [&] { return f_build<2u, Sym>(bp, w); });
    agree((std::string(bn[w]) + "2").c_str(), l2, bp, rng, nag, [w](const std::vector<double>& x) { return f_build<2u, double>(x, w); },
          w == 3 ? std::function<std::vector<double>(Rng&)>(gen12pos) : std::function<std::vector<double>(Rng&)>(gen12));
  }
  // derivatives
  auto df = vars("df", 3);
  auto vp = vars("vp", 3);
  std::vector<Sym> dp = f;
  dp.insert(dp.end(), df.begin(), df.end());
  dp.insert(dp.end(), vp.begin(), vp.end());
  dp.insert(dp.end(), m.begin(), m.end());
  dp.push_back(var("eps"));
  auto gend = [](Rng& r) {
    std::vector<double> x;
    for (int i = 0; i < 6; ++i) x.push_back(r.range(-2, 2));
    double a = r.range(-2, 2), b = r.range(-2, 2), c = r.range(-2, 2);
    const int k = r.below(6);  // coalescing patterns
    if (k == 1) b = a;
    if (k == 2) c = a;
    if (k == 3) c = b;
    if (k == 4) b = c = a;
    x.push_back(a);
    x.push_back(b);
    x.push_back(c);
    for (int i = 0; i < 9; ++i) x.push_back(r.range(-1, 1));
    x.push_back(1e-3);
    return x;
  };
  {
    auto l2 = tr.def_paths("deriv2", dp, [&] { return f_deriv<2u, Sym>(dp); });
    std::printf("LEAVES deriv2 %zu\n", l2.size());
    agree("deriv2", l2, dp, rng, nag, [](const std::vector<double>& x) { return f_deriv<2u, double>(x); }, gend);
  }
  {
    // The branch "all eigenvalues distinct" calls regularized_inverse six times; it is traced on the domain where the
    // eigenvalues differ by at least eps >= 100*min (there regularisation is inactive).  Outside, the leaf is None.
    const Sym eps = dp[18];
    auto l3 = tr.def_paths("deriv3", dp, [&] {
      const Sym tiny = 100 * std::numeric_limits<Sym>::min();
      const Sym e4 = eps / 4;
      bool distinct = true;
      for (int i = 0; i < 3; ++i)
        for (int j = i + 1; j < 3; ++j) {
          // both ways of writing the same test are decided here, consistently: |a-b| < eps and |b-a| < eps cannot differ over
          // the reals, so that a rewrite of the code that swaps the operands does not open impossible paths
          const bool c1 = tfel::math::abs(vp[i] - vp[j]) < eps;
          const bool c2 = tfel::math::abs(vp[j] - vp[i]) < eps;
          if (c1 != c2) throw std::runtime_error("impossible: |a-b| < eps and |b-a| < eps differ");
          if (c1) distinct = false;
        }
      if (distinct) {
        for (int i = 0; i < 3; ++i)
          for (int j = 0; j < 3; ++j) {
            if (i == j) continue;
            const Sym x = vp[i] - vp[j];
            if (tfel::math::abs(x) < tiny) throw std::runtime_error("outside the traced domain");
            if (!(tfel::math::abs(x / e4) > 1)) throw std::runtime_error("outside the traced domain");
          }
      }
      return f_deriv<3u, Sym>(dp);
    });
    std::printf("LEAVES deriv3 %zu\n", l3.size());
    agree("deriv3", l3, dp, rng, nag, [](const std::vector<double>& x) { return f_deriv<3u, double>(x); }, gend);
  }
  tr.write(argv[2]);
  return 0;
}

"""C05 -- isotropic tensor functions and their derivatives are consistent.
Engine S: buildFromEigenValuesAndVectors / computeIsotropicFunction / logarithm / positive and negative parts and the
branches of StensorComputeIsotropicFunctionDerivative<2,3>::exe are regenerated from /repo with the eigen-data as symbolic
inputs; Coq re-checks that they equal sum_i f_i n_i resp. the Daleckii-Krein tensor.  Execution (tie + failing-input
search): the public entry points (with the eigen solvers) are run on a structured generator; values are compared with
matrix power series computed in Python, derivatives with central finite differences of the real function and, for
x^3, with the exact derivative of s^3."""
import os, sys, math
from concurrent.futures import ThreadPoolExecutor
sys.path.insert(0, os.path.dirname(os.path.abspath(__file__)))
from vlib import guarded_main
import gen

SUPPORT = ["src/Exception/ContractViolation.cxx"]
SQ2 = math.sqrt(2.0)
ILL = {"repeated", "near"}


def mm(a, b):
    return [[sum(a[i][k] * b[k][j] for k in range(3)) for j in range(3)] for i in range(3)]


def series(a, fn):
    """matrix function by its power series (|a| <= 3.5): independent of any eigen decomposition"""
    if fn == "cube":
        return mm(a, mm(a, a))
    out = [[0.0] * 3 for _ in range(3)]
    term = [[1.0 if i == j else 0.0 for j in range(3)] for i in range(3)]
    for k in range(0, 80):
        if k > 0:
            term = [[x / k for x in r] for r in mm(term, a)]
        c = 1.0 if fn == "exp" else (0.0 if k % 2 == 0 else (1.0 if k % 4 == 1 else -1.0))
        if c:
            out = [[out[i][j] + c * term[i][j] for j in range(3)] for i in range(3)]
    return out


def cube_derivative(s, n):
    """exact derivative of s -> s^3 in the storage basis: column j = d(s^3)/ds_j = E_j s^2 + s E_j s + s^2 E_j"""
    k = 4 if n == 2 else 6
    a = gen.from_mandel(s)
    a2 = mm(a, a)
    cols = []
    for j in range(k):
        e = [0.0] * k
        e[j] = 1.0
        ej = gen.from_mandel(e)
        d = [[x + y + z for x, y, z in zip(r1, r2, r3)] for r1, r2, r3 in zip(mm(ej, a2), mm(a, mm(ej, a)), mm(a2, ej))]
        cols.append(gen.to_mandel(d, n))
    return [[cols[j][i] for j in range(k)] for i in range(k)]


def main(c):
    with ThreadPoolExecutor(max_workers=2) as ex:
        f1 = ex.submit(c.cxx, "trace", ["trace.cxx"], SUPPORT, ["-DNDEBUG"])
        f2 = ex.submit(c.cxx, "driver", ["driver.cxx"], SUPPORT, ["-DNDEBUG"])
        tracer, driver = f1.result(), f2.result()
    gen_v = os.path.join(c.work, "coq", "C05_gen.v")
    os.makedirs(os.path.dirname(gen_v), exist_ok=True)
    rc, out, err = c.run([tracer, "gen", gen_v, str(c.seed % 1000003), str(c.pick(300, 5000))])
    if rc != 0:
        c.report("trace", "tracer failed on /repo's stensor headers: " + err[-500:], {"stderr": err[-3000:]}, False)
        return
    nag = 0
    for l in out.splitlines():
        if l.startswith("AGREE"):
            t = l.split()
            ok, fail = int(t[2].split("=")[1]), int(t[3].split("=")[1])
            nag += ok + fail
            c.count(ok + fail)
            if fail:
                c.report("agree:" + t[1], "traced definition %s and the double instantiation disagree: %s" % (t[1], l), {"line": l}, True)
    c.coverage["traces_validated_against_impl"] = nag
    c.trusted("engine S tracer (cxx/sym/sym.hxx) and g++ template instantiation with Sym",
              "restriction of the traced domain of the 3D distinct branch by pre-decided comparisons in props/C05/trace.cxx (leaves outside are None)",
              "Python evaluation of the predicate (power series of exp/sin, exact derivative of s^3) in binary64",
              "assumed mathematics, not proved here: the Daleckii-Krein tensor is the Frechet derivative of the isotropic function")

    # ---- real code
    cases = []
    for cs in gen.cases(c.rng, c.pick(150, 4000)):
        if cs[1] in ("scaled", "extreme", "spread"):
            continue
        nrm = max(abs(x) for x in cs[3])
        sc = (c.rng.uniform(0.3, 3.0) / nrm) if nrm > 0 else 1.0
        cases.append((cs[0], cs[1], cs[2], [x * sc for x in cs[3]]))
    inp = "\n".join("%s %d %s" % (cs[0], cs[2], " ".join(float.hex(x) for x in cs[3])) for cs in cases) + "\n"
    files = [gen_v, "C05Spec.v", "C05Statements.v", "C05Proofs.v", "Properties_C05.v"]
    if not c.quick():
        files += ["C05Proofs3D.v", "Properties_C05_3D.v"]
    else:
        c.notes.append("quick tier: theorem C05_derivative_3D_distinct (5 min of field identities) is only re-checked in the thorough tier; "
                       "the 3D derivative branches are tied by tree-vs-double agreement and by finite differences here")
    with ThreadPoolExecutor(max_workers=2) as ex:
        frun = ex.submit(c.run, [driver], 1200, inp)
        res = c.coq(files, timeout=1500)
        rc, out, err = frun.result()
    if rc != 0:
        c.report("run", "driver failed (rc=%d): %s" % (rc, err[-500:]), {"stderr": err[-3000:]}, False)
        return
    byid = {cs[0]: cs for cs in cases}
    fd = {}
    worst = {}
    found = []

    def fail(kind, solver, cs, fn, txt, extra):
        key = "%s:%d:%s:%s:%s" % (solver, cs[2], cs[1], fn, kind)
        found.append(key)
        c.report(key, "stensor<%d,double> %s<%s>(%s) on the %s tensor %s: %s" % (cs[2], kind, solver, fn, cs[1], cs[3], txt),
                 dict({"solver": solver, "N": cs[2], "class": cs[1], "function": fn, "tensor_mandel": cs[3],
                       "tensor_hex": [float.hex(x) for x in cs[3]]}, **extra), True)

    lines = out.splitlines()
    for l in lines:
        t = l.split()
        if t and t[0] == "D":
            fd[(t[1], t[3])] = [float.fromhex(x) for x in t[5:]]
    nres = 0
    for l in lines:
        t = l.split()
        if not t:
            continue
        if t[0] == "F":
            cid, n, fn, solver = t[1], int(t[2]), t[3], t[4]
            cs = byid[cid]
            k = 4 if n == 2 else 6
            nres += 1
            c.count(1, (cid, fn, solver), cs[1] != "random")
            if t[5] == "THROW":
                fail("computeIsotropicFunctionAndDerivative", solver, cs, fn, "threw", {})
                continue
            vals = [float.fromhex(x) for x in t[5:5 + k]]
            dd = [float.fromhex(x) for x in t[6 + k:6 + k + k * k]]
            dmax = float.fromhex(t[7 + k + k * k])
            tolv = 1e-3 if (cs[1] in ILL and solver == "TFEL") else 1e-6
            told = 1e-3 if (cs[1] in ILL and solver == "TFEL") else 5e-5
            ref = gen.to_mandel(series(gen.from_mandel(cs[3]), fn), n)
            scv = max(1.0, max(abs(x) for x in ref))
            ev = max(abs(x - y) for x, y in zip(vals, ref)) / scv
            scd = max(1.0, max(abs(x) for x in dd))
            ed = max(abs(x - y) for x, y in zip(dd, fd[(cid, fn)])) / scd
            w = worst.setdefault((solver, n, cs[1]), [0.0, 0.0])
            w[0], w[1] = max(w[0], ev), max(w[1], ed)
            if not all(math.isfinite(x) for x in vals + dd):
                fail("computeIsotropicFunctionAndDerivative", solver, cs, fn, "non-finite output", {"values": vals})
                continue
            if ev > tolv:
                fail("computeIsotropicFunction", solver, cs, fn, "value %s differs from the power series %s (relative %.3g > %.1g)" % (vals, ref, ev, tolv),
                     {"observed": vals, "expected": ref})
            if ed > told:
                fail("computeIsotropicFunctionDerivative", solver, cs, fn, "derivative differs from central finite differences of the function (relative %.3g > %.1g)" % (ed, told),
                     {"observed_row_major": dd, "finite_differences": fd[(cid, fn)]})
            if fn == "cube":
                ex_ = [x for r in cube_derivative(cs[3], n) for x in r]
                e2 = max(abs(x - y) for x, y in zip(dd, ex_)) / scd
                if e2 > told:
                    fail("computeIsotropicFunctionDerivative", solver, cs, fn, "derivative differs from the exact derivative of s^3 (relative %.3g > %.1g)" % (e2, told),
                         {"observed_row_major": dd, "expected_row_major": ex_})
            if dmax > 1e-9 * max(scv, scd):
                fail("entry-points", solver, cs, fn, "computeIsotropicFunction / ...Derivative / ...AndDerivative disagree by %.3g" % dmax, {})
            if nres % 997 == 1:
                c.sample({"solver": solver, "N": n, "class": cs[1], "function": fn, "tensor": cs[3], "value_err": ev, "derivative_err_vs_fd": ed})
        elif t[0] == "P":
            cid, n = t[1], int(t[2])
            cs = byid[cid]
            k = 4 if n == 2 else 6
            p = [float.fromhex(x) for x in t[3:3 + k]]
            ng = [float.fromhex(x) for x in t[4 + k:4 + 2 * k]]
            ab = [float.fromhex(x) for x in t[5 + 2 * k:5 + 3 * k]]
            tol = 1e-3 if cs[1] in ILL else 1e-6
            sc = max(1e-100, max(abs(x) for x in cs[3]))
            c.count(1, (cid, "parts"), True)
            e1 = max(abs(a + b - s) for a, b, s in zip(p, ng, cs[3])) / sc
            e2 = max(abs(a - b - s) for a, b, s in zip(p, ng, ab)) / sc
            a2 = gen.to_mandel(mm(gen.from_mandel(ab), gen.from_mandel(ab)), n)
            s2 = gen.to_mandel(mm(gen.from_mandel(cs[3]), gen.from_mandel(cs[3])), n)
            e3 = max(abs(x - y) for x, y in zip(a2, s2)) / (sc * sc)
            if not (e1 <= tol and e2 <= tol and e3 <= tol):
                fail("positive_part/negative_part/absolute_value", "TFEL", cs, "parts",
                     "pos+neg-s: %.3g, pos-neg-abs: %.3g, abs^2-s^2: %.3g (relative, tolerance %.1g)" % (e1, e2, e3, tol), {"pos": p, "neg": ng, "abs": ab})
    c.coverage["rule"] = ("seeded structured generator (props/C05/gen.py: diagonal, repeated, nearly repeated 1e-1..1e-15, nearly diagonal, random rotations; norm in [0.3,3]); "
                          "N=2,3; f in {exp, x^3, sin}; solvers TFEL, FSESJACOBI, GTE; eps = 1e-9 max(|s|,1)")
    c.coverage["worst_observed_value_err_deriv_err"] = {"%s:%d:%s" % k: [float("%.3g" % x) for x in v] for k, v in sorted(worst.items())}
    c.notes.append("NOT proved: that the Daleckii-Krein tensor is the Frechet derivative (assumed mathematics); the 3D branches with two or three equal eigenvalues "
                   "(traced and tied by agreement/finite differences only); composition with the eigen solvers (C03); rounding")
    if not res.ok:
        if not res.theorems:
            c.coverage["obligations"] += 5 if c.quick() else 6   # Properties files were not reached
        if found:
            c.notes.append("proof obligations %s no longer check; concrete failing inputs reported: %s" % ([f[2] for f in res.failed], sorted(set(found))[:6]))
        else:
            c.coq_failures(res, None)


guarded_main("C05", main)

"""C05 -- isotropic tensor functions and their derivatives are consistent.
Engine S: buildFromEigenValuesAndVectors / computeIsotropicFunction / logarithm / positive and negative parts and the
branches of StensorComputeIsotropicFunctionDerivative<2,3>::exe are regenerated from /repo with the eigen-data as symbolic
inputs; Coq re-checks that they equal sum_i f_i n_i resp. the Daleckii-Krein tensor.  Execution (tie + failing-input
search): the public entry points (with the eigen solvers) are run on a structured generator; values are compared with
matrix power series computed in Python, derivatives with central finite differences of the real function and, for
x^3, with the exact derivative of s^3.  The static overloads computeIsotropicFunctionDerivative(f, df, vp, m, eps) are also
called DIRECTLY with every tie pattern of the eigenvalues at every position ((a,a,b), (a,b,a), (b,a,a), (a,a,a), exact and
within eps) and random orthogonal m, against the exact derivative of s^3 / finite differences of the power series.
Theorems added in round 2: the four 3D branches with (nearly) coinciding eigenvalues (each traced leaf = Daleckii-Krein
tensor of the merged eigen-data; exact ties = the Daleckii-Krein tensor with the limit f'), and "the Daleckii-Krein tensor
IS the derivative" for polynomials of degree <= 3 of plane tensors (component-wise is_derive of the matrix polynomial),
also composed with the regenerated 2D code."""
import os, sys, math
from concurrent.futures import ThreadPoolExecutor
sys.path.insert(0, os.path.dirname(os.path.abspath(__file__)))
from vlib import guarded_main
import gen

SUPPORT = ["src/Exception/ContractViolation.cxx"]
SQ2 = math.sqrt(2.0)
ILL = {"repeated", "near"}


def mm(a, b):
    return [[sum(a[i][k] * b[k][j] for k in range(3)) for j in range(3)] for i in range(3)]


def series(a, fn):
    """matrix function by its power series (|a| <= 3.5): independent of any eigen decomposition"""
    if fn == "cube":
        return mm(a, mm(a, a))
    out = [[0.0] * 3 for _ in range(3)]
    term = [[1.0 if i == j else 0.0 for j in range(3)] for i in range(3)]
    for k in range(0, 80):
        if k > 0:
            term = [[x / k for x in r] for r in mm(term, a)]
        c = 1.0 if fn == "exp" else (0.0 if k % 2 == 0 else (1.0 if k % 4 == 1 else -1.0))
        if c:
            out = [[out[i][j] + c * term[i][j] for j in range(3)] for i in range(3)]
    return out


def cube_derivative(s, n):
    """exact derivative of s -> s^3 in the storage basis: column j = d(s^3)/ds_j = E_j s^2 + s E_j s + s^2 E_j"""
    k = 4 if n == 2 else 6
    a = gen.from_mandel(s)
    a2 = mm(a, a)
    cols = []
    for j in range(k):
        e = [0.0] * k
        e[j] = 1.0
        ej = gen.from_mandel(e)
        d = [[x + y + z for x, y, z in zip(r1, r2, r3)] for r1, r2, r3 in zip(mm(ej, a2), mm(a, mm(ej, a)), mm(a2, ej))]
        cols.append(gen.to_mandel(d, n))
    return [[cols[j][i] for j in range(k)] for i in range(k)]


def fd_derivative(s, n, fn, h=1e-5):
    """central finite differences of the power series (independent of any eigen decomposition), row major k*k"""
    k = 4 if n == 2 else 6
    cols = []
    for j in range(k):
        sp, sm = list(s), list(s)
        sp[j] += h
        sm[j] -= h
        fp = gen.to_mandel(series(gen.from_mandel(sp), fn), n)
        fm = gen.to_mandel(series(gen.from_mandel(sm), fn), n)
        cols.append([(a - b) / (2 * h) for a, b in zip(fp, fm)])
    return [cols[j][i] for i in range(k) for j in range(k)]


def static_cases(rng, nrep):
    """eigen-data handed directly to the static overloads: every tie pattern at every position, exact and within eps,
    random orthogonal eigenvector matrices (rotations and reflections)"""
    out = []
    eps = 1e-6
    for rep in range(nrep):
        for pat in ("aab", "aba", "baa", "aaa", "abc"):
            for kind in ("exact", "near"):
                if pat == "abc" and kind == "near":
                    continue
                for n in (3, 2):
                    if n == 2 and pat in ("aba", "baa"):
                        continue    # in 2D only the in-plane pair (positions 0,1) is ever tested by the code
                    a = rng.uniform(0.3, 1.5) * rng.choice([-1, 1])
                    b = a + rng.uniform(0.4, 1.2) * rng.choice([-1, 1])
                    cval = b + rng.uniform(0.4, 1.2) * (1 if b > a else -1)
                    vals = {"a": a, "b": b, "c": cval}
                    vp = [vals[ch] for ch in pat]
                    if kind == "near":      # the tied values differ by less than eps
                        seen = 0
                        for i, ch in enumerate(pat):
                            if ch == "a":
                                vp[i] = a + seen * rng.uniform(0.05, 0.3) * eps
                                seen += 1
                    q = gen.rot_from_quat(rng) if n == 3 else gen.rot_z(rng.uniform(-math.pi, math.pi))
                    if rng.random() < 0.3:
                        col = rng.randrange(2 if n == 2 else 3)
                        q = [[-x if j == col else x for j, x in enumerate(r)] for r in q]
                    if rng.random() < 0.15:
                        q = [[1.0 if i == j else 0.0 for j in range(3)] for i in range(3)]
                    out.append({"id": "st%d_%s_%s_%d" % (n, pat, kind, rep), "N": n, "pattern": pat, "kind": kind, "vp": vp, "m": q, "eps": eps})
    return out


def main(c):
    with ThreadPoolExecutor(max_workers=2) as ex:
        f1 = ex.submit(c.cxx, "trace", ["trace.cxx"], SUPPORT, ["-DNDEBUG"])
        f2 = ex.submit(c.cxx, "driver", ["driver.cxx"], SUPPORT, ["-DNDEBUG"])
        tracer, driver = f1.result(), f2.result()
    gen_v = os.path.join(c.work, "coq", "C05_gen.v")
    os.makedirs(os.path.dirname(gen_v), exist_ok=True)
    rc, out, err = c.run([tracer, "gen", gen_v, str(c.seed % 1000003), str(c.pick(300, 5000))])
    if rc != 0:
        c.report("trace", "tracer failed on /repo's stensor headers: " + err[-500:], {"stderr": err[-3000:]}, False)
        return
    nag = 0
    for l in out.splitlines():
        if l.startswith("AGREE"):
            t = l.split()
            ok, fail = int(t[2].split("=")[1]), int(t[3].split("=")[1])
            nag += ok + fail
            c.count(ok + fail)
            if fail:
                c.report("agree:" + t[1], "traced definition %s and the double instantiation disagree: %s" % (t[1], l), {"line": l}, True)
    c.coverage["traces_validated_against_impl"] = nag
    c.trusted("engine S tracer (cxx/sym/sym.hxx) and g++ template instantiation with Sym",
              "restriction of the traced domain of the 3D distinct branch by pre-decided comparisons in props/C05/trace.cxx (leaves outside are None)",
              "Python evaluation of the predicate (power series of exp/sin, exact derivative of s^3) in binary64",
              "assumed mathematics, proved here only for polynomials of degree <= 3 of plane (2D) tensors: the Daleckii-Krein tensor is the Frechet derivative of the isotropic function",
              "the symmetric pre-decision |a-b| < eps <-> |b-a| < eps in props/C05/trace.cxx (paths where they differ are None leaves; impossible over the reals)")

    # ---- real code
    cases = []
    for cs in gen.cases(c.rng, c.pick(150, 4000)):
        if cs[1] in ("scaled", "extreme", "spread"):
            continue
        nrm = max(abs(x) for x in cs[3])
        sc = (c.rng.uniform(0.3, 3.0) / nrm) if nrm > 0 else 1.0
        cases.append((cs[0], cs[1], cs[2], [x * sc for x in cs[3]]))
    inp = "\n".join("%s %d %s" % (cs[0], cs[2], " ".join(float.hex(x) for x in cs[3])) for cs in cases) + "\n"
    statics = static_cases(c.rng, c.pick(3, 40))
    for st in statics:
        inp += "STATIC %d %s %s %s %s\n" % (st["N"], st["id"], " ".join(float.hex(x) for x in st["vp"]),
                                           " ".join(float.hex(x) for r in st["m"] for x in r), float.hex(st["eps"]))
    base = [gen_v, "C05Spec.v", "C05Statements.v", "C05Proofs.v", "Properties_C05.v"]
    chains = [["C05ProofsTies.v", "Properties_C05_ties.v"], ["C05StatementsPoly.v", "C05ProofsPoly.v", "Properties_C05_poly.v"]]
    nobl = {"Properties_C05.v": 5, "Properties_C05_ties.v": 8, "Properties_C05_poly.v": 5}
    if not c.quick():
        chains.append(["C05Proofs3D.v", "Properties_C05_3D.v"])
        nobl["Properties_C05_3D.v"] = 1
    else:
        c.notes.append("quick tier: theorem C05_derivative_3D_distinct (5 min of field identities) is only re-checked in the thorough tier; "
                       "the 3D distinct branch is tied by tree-vs-double agreement and by finite differences here")
    with ThreadPoolExecutor(max_workers=4) as ex:
        frun = ex.submit(c.run, [driver], 1200, inp)
        results = [c.coq(base, timeout=1500)]
        if results[0].ok:   # the independent chains of proofs over the same base, in parallel (at most 3 coqc + the driver)
            results += [f.result() for f in [ex.submit(c.coq, ch, 1500) for ch in chains]]
        rc, out, err = frun.result()

    class Res:
        pass
    res = Res()
    res.ok = all(r.ok for r in results)
    res.files = [f for r in results for f in r.files]
    res.failed = [f for r in results for f in r.failed]
    res.theorems = [t for r in results for t in r.theorems]
    # the chains ran concurrently: set the counters from the results themselves
    c.coverage["obligations"] = len(res.theorems)
    c.coverage["discharged"] = sum(len(r.discharged) for r in results)
    c.coverage["checker_cmd"] = "coqc -Q coq/lib VLib -R <scratch> C05 <files: %s> (Coq 8.16.1, full .vo compilation)" % " ".join(f[0] for f in res.files)
    if rc != 0:
        c.report("run", "driver failed (rc=%d): %s" % (rc, err[-500:]), {"stderr": err[-3000:]}, False)
        return
    byid = {cs[0]: cs for cs in cases}
    stat = {st["id"]: st for st in statics}
    fd = {}
    worst = {}
    found = []

    def fail(kind, solver, cs, fn, txt, extra):
        key = "%s:%d:%s:%s:%s" % (solver, cs[2], cs[1], fn, kind)
        found.append(key)
        c.report(key, "stensor<%d,double> %s<%s>(%s) on the %s tensor %s: %s" % (cs[2], kind, solver, fn, cs[1], cs[3], txt),
                 dict({"solver": solver, "N": cs[2], "class": cs[1], "function": fn, "tensor_mandel": cs[3],
                       "tensor_hex": [float.hex(x) for x in cs[3]]}, **extra), True)

    lines = out.splitlines()
    for l in lines:
        t = l.split()
        if t and t[0] == "D":
            fd[(t[1], t[3])] = [float.fromhex(x) for x in t[5:]]
    nres = 0
    for l in lines:
        t = l.split()
        if not t:
            continue
        if t[0] == "F":
            cid, n, fn, solver = t[1], int(t[2]), t[3], t[4]
            cs = byid[cid]
            k = 4 if n == 2 else 6
            nres += 1
            c.count(1, (cid, fn, solver), cs[1] != "random")
            if t[5] == "THROW":
                fail("computeIsotropicFunctionAndDerivative", solver, cs, fn, "threw", {})
                continue
            vals = [float.fromhex(x) for x in t[5:5 + k]]
            dd = [float.fromhex(x) for x in t[6 + k:6 + k + k * k]]
            dmax = float.fromhex(t[7 + k + k * k])
            tolv = 1e-3 if (cs[1] in ILL and solver == "TFEL") else 1e-6
            told = 1e-3 if (cs[1] in ILL and solver == "TFEL") else 5e-5
            ref = gen.to_mandel(series(gen.from_mandel(cs[3]), fn), n)
            scv = max(1.0, max(abs(x) for x in ref))
            ev = max(abs(x - y) for x, y in zip(vals, ref)) / scv
            scd = max(1.0, max(abs(x) for x in dd))
            ed = max(abs(x - y) for x, y in zip(dd, fd[(cid, fn)])) / scd
            w = worst.setdefault((solver, n, cs[1]), [0.0, 0.0])
            w[0], w[1] = max(w[0], ev), max(w[1], ed)
            if not all(math.isfinite(x) for x in vals + dd):
                fail("computeIsotropicFunctionAndDerivative", solver, cs, fn, "non-finite output", {"values": vals})
                continue
            if ev > tolv:
                fail("computeIsotropicFunction", solver, cs, fn, "value %s differs from the power series %s (relative %.3g > %.1g)" % (vals, ref, ev, tolv),
                     {"observed": vals, "expected": ref})
            if ed > told:
                fail("computeIsotropicFunctionDerivative", solver, cs, fn, "derivative differs from central finite differences of the function (relative %.3g > %.1g)" % (ed, told),
                     {"observed_row_major": dd, "finite_differences": fd[(cid, fn)]})
            if fn == "cube":
                ex_ = [x for r in cube_derivative(cs[3], n) for x in r]
                e2 = max(abs(x - y) for x, y in zip(dd, ex_)) / scd
                if e2 > told:
                    fail("computeIsotropicFunctionDerivative", solver, cs, fn, "derivative differs from the exact derivative of s^3 (relative %.3g > %.1g)" % (e2, told),
                         {"observed_row_major": dd, "expected_row_major": ex_})
            if dmax > 1e-9 * max(scv, scd):
                fail("entry-points", solver, cs, fn, "computeIsotropicFunction / ...Derivative / ...AndDerivative disagree by %.3g" % dmax, {})
            if nres % 997 == 1:
                c.sample({"solver": solver, "N": n, "class": cs[1], "function": fn, "tensor": cs[3], "value_err": ev, "derivative_err_vs_fd": ed})
        elif t[0] == "T":
            st = stat[t[1]]
            n, fn = int(t[2]), t[3]
            k = 4 if n == 2 else 6
            dd = [float.fromhex(x) for x in t[4:4 + k * k]]
            dmax = float.fromhex(t[5 + k * k])
            key = "static:%d:%s:%s:%s" % (n, st["pattern"], st["kind"], fn)
            c.count(1, (t[1], fn), st["pattern"] != "abc")
            a = gen.sym_from(st["vp"], st["m"])
            sm = gen.to_mandel(a, n)
            ref = [x for r in cube_derivative(sm, n) for x in r] if fn == "cube" else fd_derivative(sm, n, fn)
            scd = max(1.0, max(abs(x) for x in ref))
            e = max(abs(x - y) for x, y in zip(dd, ref)) / scd if all(math.isfinite(x) for x in dd) else float("inf")
            ws = worst.setdefault(("static", n, st["pattern"] + ":" + st["kind"]), [0.0, 0.0])
            ws[1] = max(ws[1], e)
            rep = {"N": n, "function": fn, "tie_pattern": st["pattern"], "kind": st["kind"], "vp": st["vp"], "m_row_major": [x for r in st["m"] for x in r],
                   "eps": st["eps"], "tensor_mandel": sm, "observed_row_major": dd, "expected_row_major": ref}
            if e > 2e-5:
                found.append(key)
                i = max(range(k * k), key=lambda q: abs(dd[q] - ref[q]))
                c.report(key, "stensor<%d,double>::computeIsotropicFunctionDerivative(f, df, vp, m, eps) called directly with eigenvalues vp=%s (tie pattern %s, %s), "
                         "eps=%g, f=%s and an orthogonal m: the result differs from the %s of s = m diag(vp) m^T (relative %.3g; entry (%d,%d): %.9g, expected %.9g)"
                         % (n, st["vp"], st["pattern"], st["kind"], st["eps"], fn,
                            "exact derivative of s^3" if fn == "cube" else "central finite differences of the power series", e, i // k, i % k, dd[i], ref[i]), rep, True)
            if dmax > 1e-12 * scd:
                found.append(key + ":overloads")
                c.report(key + ":overloads", "the overloads of computeIsotropicFunctionDerivative taking functions and taking values disagree by %.3g on vp=%s" % (dmax, st["vp"]), rep, True)
            if nres % 97 == 1 and fn == "exp":
                c.sample({"static_overload": True, "N": n, "tie_pattern": st["pattern"], "kind": st["kind"], "vp": st["vp"], "function": fn, "derivative_err": e})
        elif t[0] == "P":
            cid, n = t[1], int(t[2])
            cs = byid[cid]
            k = 4 if n == 2 else 6
            p = [float.fromhex(x) for x in t[3:3 + k]]
            ng = [float.fromhex(x) for x in t[4 + k:4 + 2 * k]]
            ab = [float.fromhex(x) for x in t[5 + 2 * k:5 + 3 * k]]
            tol = 1e-3 if cs[1] in ILL else 1e-6
            sc = max(1e-100, max(abs(x) for x in cs[3]))
            c.count(1, (cid, "parts"), True)
            e1 = max(abs(a + b - s) for a, b, s in zip(p, ng, cs[3])) / sc
            e2 = max(abs(a - b - s) for a, b, s in zip(p, ng, ab)) / sc
            a2 = gen.to_mandel(mm(gen.from_mandel(ab), gen.from_mandel(ab)), n)
            s2 = gen.to_mandel(mm(gen.from_mandel(cs[3]), gen.from_mandel(cs[3])), n)
            e3 = max(abs(x - y) for x, y in zip(a2, s2)) / (sc * sc)
            if not (e1 <= tol and e2 <= tol and e3 <= tol):
                fail("positive_part/negative_part/absolute_value", "TFEL", cs, "parts",
                     "pos+neg-s: %.3g, pos-neg-abs: %.3g, abs^2-s^2: %.3g (relative, tolerance %.1g)" % (e1, e2, e3, tol), {"pos": p, "neg": ng, "abs": ab})
    c.coverage["rule"] = ("seeded structured generator (props/C05/gen.py: diagonal, repeated, nearly repeated 1e-1..1e-15, nearly diagonal, random rotations; norm in [0.3,3]); "
                          "N=2,3; f in {exp, x^3, sin}; solvers TFEL, FSESJACOBI, GTE; eps = 1e-9 max(|s|,1); "
                          "static overloads called directly: %d eigen-data sets (tie patterns aab, aba, baa, aaa exact and within eps = 1e-6, abc; N=3 and N=2; random rotations, reflections, identity)" % len(statics))
    c.coverage["worst_observed_value_err_deriv_err"] = {"%s:%d:%s" % k: [float("%.3g" % x) for x in v] for k, v in sorted(worst.items())}
    c.notes.append("NOT proved: that the Daleckii-Krein tensor is the Frechet derivative beyond polynomials of degree <= 3 in 2D (assumed mathematics elsewhere); "
                   "how far the merged-data tensor of the eps branches is from the true derivative when the close eigenvalues are not equal (O(gap), only measured: see "
                   "worst_observed static:*:near); composition with the eigen solvers (C03); rounding")
    if not res.ok:
        reached = {f[0] for f in res.files}
        c.coverage["obligations"] += sum(v for k, v in nobl.items() if k not in reached)   # Properties files that were not reached
        if found:
            c.notes.append("proof obligations %s no longer check; concrete failing inputs reported: %s" % ([f[2] for f in res.failed], sorted(set(found))[:6]))
        else:
            for r in results:
                if not r.ok:
                    c.coq_failures(r, None)


guarded_main("C05", main)

// C10: tracer (engine S, path enumeration) and driver for tfel::math::CubicRoots of /repo.
//   trace gen <out.v> <seed>  : complete decision tree of find_roots, depth-bounded tree of improve, Sym-vs-double agreement
//   trace run                 : reads "a3 a2 a1 a0" per line on stdin, prints the results of the real code (double)
//   trace improve             : reads "vp a3 a2 a1 a0" per line on stdin, prints the value left in vp by improve<double>
#include "symtfel.hxx"
#include "TFEL/Math/General/CubicRoots.hxx"
#include <cstring>
#include <iostream>

// For double/float/long double the code calls the C library's ::cbrt (non-template overloads of CubicRoots::cbrt).
// The same meaning is given to the Sym instantiation: real cube root (printed as Rcbrt).
namespace tfel::math {
  template <>
  symv::Sym CubicRoots::cbrt<symv::Sym>(const symv::Sym x) noexcept {
    return symv::cbrt(x);
  }
}  // namespace tfel::math

using namespace symv;

// `improve` is a protected static member
struct Pub : tfel::math::CubicRoots {
  using tfel::math::CubicRoots::improve;
};

template <typename T>
std::vector<T> run_find(const T a3, const T a2, const T a1, const T a0, const bool b = false) {
  T x1(0), x2(0), x3(0);
  const auto nb = b ? tfel::math::CubicRoots::exe(x1, x2, x3, a3, a2, a1, a0, true)
                    : tfel::math::CubicRoots::find_roots(x1, x2, x3, a3, a2, a1, a0);
  return {T(static_cast<int>(nb)), x1, x2, x3};
}
// The function whose decision tree is regenerated.  If the tree has the rescaling wrapper (find_roots = exact power-of-two change
// of unknown around find_roots_unscaled, see props/C10/fix_rescale.diff) the core is traced: frexp/ldexp have no symbolic meaning;
// the wrapper is covered by the lemma C10Scale.v (roots of the rescaled cubic times s are the roots) and by the exact judge.
template <typename T, typename C = tfel::math::CubicRoots>   // C: dependent name, so that the lookup may fail softly
constexpr bool has_unscaled = requires(T& x, const T a) { C::find_roots_unscaled(x, x, x, a, a, a, a); };
template <typename T, typename C = tfel::math::CubicRoots>
std::vector<T> run_core(const T a3, const T a2, const T a1, const T a0) {
  T x1(0), x2(0), x3(0);
  unsigned short nb;
  if constexpr (has_unscaled<T>) {
    nb = C::find_roots_unscaled(x1, x2, x3, a3, a2, a1, a0);
  } else {
    nb = C::find_roots(x1, x2, x3, a3, a2, a1, a0);
  }
  return {T(static_cast<int>(nb)), x1, x2, x3};
}
template <typename T>
std::vector<T> run_improve(const T vp0, const T a3, const T a2, const T a1, const T a0) {
  T vp = vp0;
  Pub::improve(vp, a3, a2, a1, a0);
  return {vp};
}

int main(int argc, char** argv) {
  if (argc >= 4 && !std::strcmp(argv[1], "gen")) {
    Trace tr("C10_gen");
    Rng rng(std::strtoull(argv[3], nullptr, 10));
    auto a = vars("a", 4);  // a0 a1 a2 a3
    std::vector<Sym> ps{a[3], a[2], a[1], a[0]};
    auto leaves = tr.def_paths("find_roots_gen", ps, [&] { return run_core<Sym>(a[3], a[2], a[1], a[0]); });
    std::printf("LEAVES find_roots %zu\n", leaves.size());
    std::printf("WRAPPER %d\n", int(has_unscaled<double>));
    // improve: the Newton loop (up to 50 iterations) is unrolled up to a bounded number of decisions; deeper paths are `None`
    Sym vp = var("vp");
    std::vector<Sym> ips{vp, a[3], a[2], a[1], a[0]};
    Paths::get().max_decisions = 9;
    auto ileaves = tr.def_paths("improve_gen", ips, [&]() -> std::vector<Sym> {
      try {
        return run_improve<Sym>(vp, a[3], a[2], a[1], a[0]);
      } catch (PathLimit&) {
        throw std::runtime_error("unrolling bound reached");
      }
    });
    Paths::get().max_decisions = 64;
    size_t nlim = 0;
    for (auto& L : ileaves) nlim += !L.error.empty();
    std::printf("LEAVES improve %zu (beyond the unrolling bound: %zu)\n", ileaves.size(), nlim);
    tr.write(argv[2]);
    // ---- small integer inputs reaching every leaf of the tree of find_roots (path conditions evaluated on the candidates);
    //      they are added to the corpus of the failing-input search by check.py
    {
      const int order2[] = {-3, 3, -6, 6, 0, -1, 1, -2, 2, -4, 4, -5, 5};
      std::vector<int> found(leaves.size(), 0);
      for (int c3 : {1, 2})
        for (int c2 : order2)
          for (int c1 = -12; c1 <= 12; ++c1)
            for (int c0 = -16; c0 <= 16; ++c0) {
              Env env{{"a3", c3}, {"a2", c2}, {"a1", c1}, {"a0", c0}};
              for (size_t li = 0; li < leaves.size(); ++li) {
                if (found[li] >= 3) continue;
                bool ok = true;
                std::map<int, long double> memo;
                for (auto& cd : leaves[li].conds) {
                  long double x = eval_node(cd.a, env, memo), y = eval_node(cd.b, env, memo);
                  bool v = cd.rel == LT ? x < y : (cd.rel == LE ? x <= y : x == y);
                  if (v != cd.value) { ok = false; break; }
                }
                if (ok) {
                  ++found[li];
                  std::printf("LEAFCASE %zu %d %d %d %d\n", li, c3, c2, c1, c0);
                  break;
                }
              }
            }
      for (size_t li = 0; li < leaves.size(); ++li)
        if (!found[li]) std::printf("LEAFUNREACHED %zu\n", li);
    }
    // ---- agreement of the trees with the double instantiation
    auto agree = [&](const char* what, const std::vector<Leaf>& ls, const Env& env, const std::vector<double>& d, double scale,
                     bool skip_limit) {
      std::vector<long double> r;
      std::string err;
      if (!eval_leaves(ls, env, r, &err)) {
        std::printf("AGREE-FAIL %s no leaf\n", what);
        return;
      }
      if (!err.empty()) {
        std::printf(skip_limit ? "AGREE-SKIP %s\n" : "AGREE-FAIL %s tree throws\n", what);
        return;
      }
      bool ok = r.size() == d.size();
      for (size_t k = 0; ok && k < d.size(); ++k) ok = close(r[k], d[k], scale, 1e-7L);
      std::printf("%s %s", ok ? "AGREE" : "AGREE-FAIL", what);
      for (auto& e : env) std::printf(" %s=%.17g", e.first.c_str(), double(e.second));
      std::printf(" tree");
      for (auto x : r) std::printf(" %.12Lg", x);
      std::printf(" double");
      for (auto x : d) std::printf(" %.12g", x);
      std::printf("\n");
    };
    auto one = [&](double c3, double c2, double c1, double c0) {
      Env env{{"a3", c3}, {"a2", c2}, {"a1", c1}, {"a0", c0}};
      auto d = run_find<double>(c3, c2, c1, c0);
      double scale = std::max({1.0, std::fabs(c2 / c3), std::fabs(d[1]), std::fabs(d[2]), std::fabs(d[3])});
      agree("find_roots", leaves, env, d, scale, false);
    };
    // exact special forms (every operation exact in double and long double): p = 0, q = 0, delta = 0, triple root
    const double sp[][4] = {{1, 0, 0, 8},   {1, 0, 0, -8}, {1, 0, 0, 0},  {1, 0, 4, 0},  {1, 0, -4, 0}, {1, 0, -3, 2},
                            {1, 0, -3, -2}, {2, 0, 0, 16}, {1, 0, -7, 6}, {1, 0, 1, 1},  {1, 0, 3, -4}, {0, 1, 2, 3},
                            {1, 0, 0, 27},  {4, 0, 0, -32}, {1, 0, -12, 16}, {1, 0, -1, 0}};
    for (auto& s : sp) one(s[0], s[1], s[2], s[3]);
    for (int i = 0; i < 400; ++i) {
      double c3 = rng.range(0.5, 2) * (rng.below(2) ? 1 : -1);
      one(c3, rng.range(-5, 5), rng.range(-5, 5), rng.range(-5, 5));
    }
    for (int i = 0; i < 200; ++i) {  // from three real roots
      double r1 = rng.range(-3, 3), r2 = rng.range(-3, 3), r3 = rng.range(-3, 3), c3 = rng.range(0.5, 2);
      one(c3, -c3 * (r1 + r2 + r3), c3 * (r1 * r2 + r1 * r3 + r2 * r3), -c3 * r1 * r2 * r3);
    }
    for (int i = 0; i < 300; ++i) {  // improve: start close to a root so that the Newton loop stops within the unrolling bound
      double r1 = rng.range(-3, 3), r2 = rng.range(-3, 3), r3 = rng.range(-3, 3), c3 = rng.range(0.5, 2);
      double c2 = -c3 * (r1 + r2 + r3), c1 = c3 * (r1 * r2 + r1 * r3 + r2 * r3), c0 = -c3 * r1 * r2 * r3;
      double v = r1 * (1 + std::pow(10., -rng.range(5, 14)));
      Env env{{"vp", v}, {"a3", c3}, {"a2", c2}, {"a1", c1}, {"a0", c0}};
      auto d = run_improve<double>(v, c3, c2, c1, c0);
      agree("improve", ileaves, env, d, std::max(1.0, std::fabs(v)), true);
    }
    return 0;
  }
  if (argc >= 2 && !std::strcmp(argv[1], "run")) {
    double c3, c2, c1, c0;
    while (std::cin >> c3 >> c2 >> c1 >> c0) {
      auto f = run_find<double>(c3, c2, c1, c0, false);
      auto g = run_find<double>(c3, c2, c1, c0, true);
      std::printf("R %.17g %.17g %.17g %.17g | %g %.17g %.17g %.17g | %g %.17g %.17g %.17g\n", c3, c2, c1, c0, f[0], f[1], f[2], f[3],
                  g[0], g[1], g[2], g[3]);
    }
    return 0;
  }
  if (argc >= 2 && !std::strcmp(argv[1], "improve")) {
    // reads "vp a3 a2 a1 a0" (hexadecimal floats, nan, inf) per line, prints the value left in vp by the real improve<double>
    char w[5][64];
    while (std::scanf("%63s %63s %63s %63s %63s", w[0], w[1], w[2], w[3], w[4]) == 5) {
      double v[5];
      for (int k = 0; k < 5; ++k) v[k] = std::strtod(w[k], nullptr);
      const auto r = run_improve<double>(v[0], v[1], v[2], v[3], v[4]);
      if (r[0] != r[0]) {
        std::printf("I nan\n");
      } else {
        std::printf("I %a\n", r[0]);
      }
    }
    return 0;
  }
  std::fprintf(stderr, "usage: trace gen <out.v> <seed> | trace run < cases | trace improve < cases\n");
  return 2;
}

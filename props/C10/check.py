"""C10 -- the cubic solver returns genuine roots.
Engine S with path enumeration: the complete decision tree of CubicRoots::find_roots (11 leaves) and the tree of
CubicRoots::improve unrolled to three Newton steps are regenerated from /repo on every run; Coq proves, branch by branch and
for all real coefficients, that the returned values are exactly the roots (Cardano, Viete, exact degenerate forms) and that
the refinement never increases the residual.  The real code (double) is run on a corpus and a seeded sweep and judged by an
independent statement of the property evaluated in exact rational arithmetic (failing-input search, always on).
Third round: residual bounds in the seven threshold leaves (|p|, |q|, discriminant below 100*DBL_MIN); hand-written generic model of the complete
Newton loop of improve (coq/C10Improve.v) proved for every fuel and compared bit for bit (Coq primitive floats) with the real improve<double>;
scale corpus (roots 1e-100 .. 1e+100): find_roots is not scale invariant (known finding, proposed patch fix_rescale.diff)."""
import math, os, random, re, struct, threading
from fractions import Fraction as Fr
from vlib import guarded_main

RES_TOL = Fr(1, 10 ** 3)      # relative residual |P(x)| / sum |a_i x^i| above which a presented root is not a root
SEP_TOL = Fr(1, 10 ** 6)      # relative discriminant above which the number of real roots is unambiguous

# fixed corpus: depressed forms with p = 0 or q = 0, multiple roots, shifted and scaled variants
CORPUS = [
    (1, 0, 0, 8), (1, 0, 0, -8), (1, -3, 3, 7), (2, 0, 0, -54),            # p = 0, q <> 0
    (1, 0, 0, 0), (3, 0, 0, 0), (1, -3, 3, -1),                               # triple root
    (1, 0, 4, 0), (1, 0, -4, 0), (2, 0, -8, 0), (1, -3, -1, 3),               # q = 0
    (1, 0, -3, 2), (1, 0, -3, -2), (1, 0, -12, 16), (1, -4, 5, -2),           # double root
    (1, 0, -7, 6), (1, -6, 11, -6), (1, 0, 1, 1), (1, 0, 3, -4), (-2, 1, 5, 3), (1, 0, -1, 0.3),
    # exact double root r and simple root s with a2 != 0 and (r-s) divisible by 3 (tmp3 and the discriminant are exact in double)
    (1, -6, 9, -4), (1, -9, 24, -16), (1, -3, 0, 4), (1, -6, 9, 0), (1, -3, 0, 0), (1, 3, 0, -4), (1, 0, -3, 2),
    (1, -9, 24, -20), (1, -12, 45, -50), (1, 6, 9, 4), (1, 9, 24, 16), (2, -12, 18, -8), (2, 6, 0, -8),
    (1e100, 0, -7e100, 6e100), (1e-100, 0, 1e-100, 1e-100), (1e100, 0, 0, 8e100), (1e-100, -6e-100, 11e-100, -6e-100),
]


# root scales at which p^3, q^2 and the discriminant of the depressed form leave the range of binary64 / fall below the absolute
# threshold prec = 100*DBL_MIN of the code although p and q themselves are far from it (scale finding, see NOTES.md):
# roots (1, 2, -3)*s, (1, 2, 4)*s shifted, one real root + complex pair, for s = 1e-100 .. 1e+100
def scale_corpus():
    cs = []
    for s in (1e-100, 1e-60, 1e-52, 1e52, 1e60, 1e100):
        cs.append((1.0, 0.0, -7 * s * s, 6 * s * s * s))                       # (x - s)(x - 2s)(x + 3s)
        cs.append((1.0, -7 * s, 14 * s * s, -8 * s * s * s))                   # (x - s)(x - 2s)(x - 4s)
        cs.append((1.0, 0.0, s * s, s * s * s))                                # one real root -0.68 s
    # the same cubics at scales where everything is in range (must pass)
    for s in (1e-40, 1e-20, 1e20, 1e40):
        cs.append((1.0, 0.0, -7 * s * s, 6 * s * s * s))
        cs.append((1.0, -7 * s, 14 * s * s, -8 * s * s * s))
        cs.append((1.0, 0.0, s * s, s * s * s))
    return cs


def fbits(x):
    return "nan" if x != x else struct.pack(">d", x).hex()


def hx(x):
    if x != x:
        return "nan"
    if math.isinf(x):
        return "inf" if x > 0 else "-inf"
    return x.hex()


def cq(x):  # Coq float literal
    if x != x:
        return "nan"
    if math.isinf(x):
        return "infinity" if x > 0 else "neg_infinity"
    if x == 0:
        return "(-0)" if math.copysign(1, x) < 0 else "0"
    h = x.hex()
    return "(%s)" % h if h.startswith("-") else h


def improve_cases(rng, n):
    """(vp, a3, a2, a1, a0) for the bit-exact comparison of the model of improve with the real improve<double>"""
    cs = [(1.9, 1.0, -6.0, 11.0, -6.0), (3.0, 1.0, 0.0, 0.0, 8.0), (0.0, 1.0, 0.0, 0.0, 0.0), (1.0, 1.0, -3.0, 3.0, -1.0),
          (1.0000001, 1.0, -3.0, 3.0, -1.0), (0.5, 1.0, 0.0, -0.75, 0.0), (1e-310, 1.0, 0.0, 1.0, 0.0), (1e300, 1.0, 0.0, 0.0, 1.0),
          (float("nan"), 1.0, 2.0, 3.0, 4.0), (1.0, float("nan"), 2.0, 3.0, 4.0), (float("inf"), 1.0, 2.0, 3.0, 4.0),
          (2.0, 0.0, 0.0, 0.0, 1.0), (-2.57e-52, 1.0, 0.0, -7e-104, 6e-156), (1.29e-52, 1.0, 0.0, -7e-104, 6e-156),
          (1.0, 1.0, 0.0, 1e-320, 0.0), (-0.0, 1.0, 0.0, 1.0, 0.0), (0.1, 1.0, 0.0, 1.0, 1e-3)]
    for i in range(n):
        a3 = rng.uniform(0.5, 2) * rng.choice((-1, 1))
        k = i % 4
        if k == 0:     # close to a root of a cubic with three real roots
            r = [rng.uniform(-3, 3) for _ in range(3)]
            t = (a3, -a3 * sum(r), a3 * (r[0] * r[1] + r[0] * r[2] + r[1] * r[2]), -a3 * r[0] * r[1] * r[2])
            vp = r[0] * (1 + 10.0 ** -rng.uniform(1, 15) * rng.choice((-1, 1)))
        elif k == 1:   # arbitrary start: the loop runs long, may hit the iteration bound or a flat derivative
            t = (a3, rng.uniform(-5, 5), rng.uniform(-5, 5), rng.uniform(-5, 5))
            vp = rng.uniform(-10, 10)
        elif k == 2:   # near a double root (slow convergence: many iterations)
            r, m = rng.uniform(-3, 3), rng.uniform(-3, 3)
            t = (a3, -a3 * (2 * m + r), a3 * (m * m + 2 * m * r), -a3 * m * m * r)
            vp = m + 10.0 ** -rng.uniform(0, 9) * rng.choice((-1, 1))
        else:          # scaled
            sc = 10.0 ** rng.uniform(-60, 60)
            r = [rng.uniform(-3, 3) * sc for _ in range(3)]
            t = (a3, -a3 * sum(r), a3 * (r[0] * r[1] + r[0] * r[2] + r[1] * r[2]), -a3 * r[0] * r[1] * r[2])
            vp = r[1] * (1 + 10.0 ** -rng.uniform(1, 12))
        cs.append((vp,) + t)
    return cs


def fmt(t):
    return ",".join("%g" % x if (abs(x) < 1e15 and x == int(x)) else repr(float(x)) for x in t)


def poly(a, x):
    a3, a2, a1, a0 = a
    return ((a3 * x + a2) * x + a1) * x + a0


def judge(a, nb, xs):
    """independent statement of the property on concrete data (exact rational arithmetic); returns a reason or None"""
    A = [Fr(v) for v in a]
    if nb not in (1, 3):
        return "returned count %r for a non-negligible leading coefficient" % nb
    rel = []
    for x in xs:
        if x != x or x in (float("inf"), float("-inf")):
            rel.append(None)
            continue
        X = Fr(x)
        val = abs(poly(A, X))
        scale = abs(A[0]) * abs(X) ** 3 + abs(A[1]) * X * X + abs(A[2]) * abs(X) + abs(A[3])
        rel.append(Fr(0) if val == 0 else val / scale)
    if nb == 3:
        for i, r in enumerate(rel):
            if r is None or r > RES_TOL:
                return "count 3 but x%d=%r is not a root: |P(x)|/sum|a_i x^i| = %s" % (i + 1, xs[i], "nan" if r is None else "%.3g" % float(r))
    else:
        good = [r for r in rel if r is not None and r <= RES_TOL]
        if not good:
            return "count 1 but none of the returned values %r is a root: relative residuals %s" % (
                xs, ["nan" if r is None else "%.3g" % float(r) for r in rel])
    # number of real roots from the exact discriminant
    a3, a2, a1, a0 = A
    terms = [18 * a3 * a2 * a1 * a0, -4 * a2 ** 3 * a0, a2 * a2 * a1 * a1, -4 * a3 * a1 ** 3, -27 * a3 * a3 * a0 * a0]
    d = sum(terms)
    s = sum(abs(t) for t in terms)
    if s != 0 and abs(d) / s > SEP_TOL:
        if d > 0 and nb != 3:
            return "three well separated real roots (relative discriminant %.3g) but count %d" % (float(d / s), nb)
        if d < 0 and nb != 1:
            return "a single real root (relative discriminant %.3g) but count %d" % (float(d / s), nb)
    return None


def improve_correspondence(c, exe):
    """bit-exact tie of the hand-written model of CubicRoots::improve (coq/C10Improve.v run on Coq primitive floats by vm_compute)
    with the real improve<double> of /repo"""
    cases = improve_cases(random.Random("improve-%s" % c.seed), c.pick(1200, 12000))   # own generator: runs in a thread next to the sweep
    rc, out, err = c.run([exe, "improve"], input="\n".join(" ".join(hx(v) for v in t) for t in cases) + "\n")
    real = [l.split()[1] for l in out.splitlines() if l.startswith("I ")]
    if rc != 0 or len(real) != len(cases):
        c.report("improve-run", "driver (improve mode) failed or printed %d results for %d cases: %s" % (len(real), len(cases), err[-300:]), {}, False)
        return
    real = [float("nan") if r == "nan" else float.fromhex(r) for r in real]
    model = []
    for k0 in range(0, len(cases), 3000):
        sub = cases[k0:k0 + 3000]
        txt = ("From Coq Require Import Floats List ZArith.\nFrom C10 Require Import C10Improve C10ImproveFloat.\nImport ListNotations.\n"
               "Open Scope float_scope.\n" + "".join(
                   "Eval vm_compute in map run1 [\n%s].\n" % ";\n".join("(%s)" % ", ".join(cq(v) for v in t) for t in sub[j:j + 500])
                   for j in range(0, len(sub), 500)))
        rc, out, err = c.coq_eval(["C10Improve.v", "C10ImproveFloat.v"], txt, timeout=900)
        if rc != 0:
            c.report("improve-model-run", "evaluation of the model of improve failed: " + err[-500:], {"stderr": err[-3000:]}, False)
            return
        for m in re.finditer(r"^\s+= \[(.*?)\]\s*^\s+: ", out, flags=re.S | re.M):
            for tok in m.group(1).split(";"):
                tok = tok.strip()
                model.append({"nan": float("nan"), "infinity": float("inf"), "neg_infinity": float("-inf")}.get(tok) if tok in ("nan", "infinity", "neg_infinity") else float(tok))
    if len(model) != len(cases):
        c.report("improve-model-run", "model of improve printed %d results for %d cases" % (len(model), len(cases)), {}, False)
        return
    nmoved = nworse = 0
    bad = []
    for t, r, m in zip(cases, real, model):
        moved = fbits(r) != fbits(t[0])
        nmoved += moved
        c.count(1, ("I", t), moved)
        if fbits(r) != fbits(m):
            bad.append((t, r, m))
        # independent statement on the real code: the residual (same Horner evaluation as the code's own guard) never increases
        pv = lambda x: ((t[1] * x + t[2]) * x + t[3]) * x + t[4]
        if moved and not (abs(pv(r)) < abs(pv(t[0]))):
            nworse += 1
            if nworse > 6:
                continue   # enough concrete inputs; the total is in the notes
            c.report("improve:" + ",".join(hx(v) for v in t), "improve<double> moved vp=%r to %r but the residual did not decrease (coefficients a3..a0 = %r)" % (t[0], r, t[1:]),
                     {"vp,a3,a2,a1,a0": [hx(v) for v in t], "result": hx(r), "how": "props/C10/trace.cxx improve"}, True)
    c.coverage["improve_model_cases_bit_exact"] = len(cases) - len(bad)
    c.notes.append("improve: model (primitive floats, vm_compute) vs real improve<double>: %d cases compared bit for bit, %d mismatches; vp changed in %d cases, %d of them without a strictly smaller residual" % (
        len(cases), len(bad), nmoved, nworse))
    if bad:
        t, r, m = bad[0]
        c.report("improve-corr", "model of improve (coq/C10Improve.v) and the real improve<double> disagree on %d/%d cases, first: vp,a3,a2,a1,a0 = %s real=%s model=%s" % (
            len(bad), len(cases), [hx(v) for v in t], hx(r), hx(m)), {"vp,a3,a2,a1,a0": [hx(v) for v in t], "real": hx(r), "model": hx(m)}, False)
    c.trusted("hand-written Gallina model coq/C10Improve.v of CubicRoots::improve, tied to /repo by bit-exact differential execution on Coq primitive floats only",
              "g++ -O1 -ffp-contract=off x86-64 SSE2 double arithmetic = IEEE-754 binary64 = Coq primitive floats")


def lemma_at(path, line):
    name = ""
    try:
        for i, l in enumerate(open(path), 1):
            if i > line:
                break
            m = re.match(r"\s*(?:Lemma|Theorem|Corollary|Example)\s+([A-Za-z_][\w']*)", l)
            if m:
                name = m.group(1)
    except OSError:
        pass
    return name


def main(c):
    exe = c.cxx("trace", ["trace.cxx"], flags=["-ffp-contract=off"])
    # the bit-exact tie of the model of improve runs next to everything else (one coqc)
    jdone = threading.Event()

    def jrun():
        try:
            improve_correspondence(c, exe)
        finally:
            jdone.set()
    jth = threading.Thread(target=jrun)
    jth.start()
    try:
        main2(c, exe, jdone)
    finally:
        jth.join()


def main2(c, exe, jdone):
    gen = os.path.join(c.work, "coq", "C10_gen.v")
    os.makedirs(os.path.dirname(gen), exist_ok=True)
    rc, out, err = c.run([exe, "gen", gen, str(c.seed)])
    if rc != 0:
        c.report("trace", "tracer failed on /repo's CubicRoots: " + (out + err)[-600:], {"stderr": err[-3000:]}, False)
        return
    nag = nskip = 0
    leafcases, leaves_reached = [], set()
    for l in out.splitlines():
        if l.startswith("AGREE-FAIL"):
            c.report("agree:" + l[:200], "traced decision tree and double instantiation disagree: " + l, {"line": l}, True)
        elif l.startswith("AGREE-SKIP"):
            nskip += 1
        elif l.startswith("AGREE"):
            nag += 1
            c.count(1)
        elif l.startswith("LEAVES"):
            c.notes.append(l)
        elif l.startswith("LEAFCASE"):
            t = l.split()
            leafcases.append(tuple(float(x) for x in t[2:6]))
            leaves_reached.add(int(t[1]))
        elif l.startswith("LEAFUNREACHED"):
            c.notes.append("no small integer input reaches leaf %s of the decision tree of find_roots (|p| exactly equal to the threshold)" % l.split()[1])
    c.coverage["traces_validated_against_impl"] = nag
    c.trusted("engine S tracer (cxx/sym/sym.hxx path oracle + printer), g++ template instantiation of CubicRoots with Sym; "
              "CubicRoots::cbrt<Sym> is specialised to the real cube root (the double overload calls ::cbrt)",
              "agreement decision tree (long double evaluation) vs double instantiation on %d seeded/special inputs, tol 1e-7 relative" % nag)

    # ---- run the real code: corpus + seeded sweep
    rng = c.rng
    cases = [tuple(float(v) for v in t) for t in CORPUS]
    ncorpus = len(cases)
    cases += [t for t in leafcases if t not in cases]   # inputs derived from the path conditions of every leaf
    c.notes.append("corpus: %d fixed inputs + %d inputs derived from the path conditions of %d leaves" % (ncorpus, len(cases) - ncorpus, len(leaves_reached)))
    sc = [t for t in scale_corpus() if t not in cases]
    cases += sc
    c.notes.append("scale corpus: %d cubics with roots (1,2,-3)s, (1,2,4)s, one real root, s = 1e-100 .. 1e+100" % len(sc))
    n = c.pick(1500, 20000)
    for i in range(n):
        k = i % 5
        a3 = rng.uniform(0.5, 2) * rng.choice((-1, 1))
        if k == 0:
            t = (a3, rng.uniform(-5, 5), rng.uniform(-5, 5), rng.uniform(-5, 5))
        elif k == 1:   # three separated real roots
            r = sorted(rng.uniform(-3, 3) for _ in range(3))
            if r[1] - r[0] < 0.1 or r[2] - r[1] < 0.1:
                r = [r[0] - 0.2, r[1], r[2] + 0.2]
            t = (a3, -a3 * sum(r), a3 * (r[0] * r[1] + r[0] * r[2] + r[1] * r[2]), -a3 * r[0] * r[1] * r[2])
        elif k == 2:   # one real root and a complex pair
            r, m, im = rng.uniform(-3, 3), rng.uniform(-3, 3), rng.uniform(0.3, 3)
            b, cc = -2 * m, m * m + im * im
            t = (a3, a3 * (b - r), a3 * (cc - r * b), -a3 * r * cc)
        elif k == 3:   # common scaling of the coefficients by 1e+-100, scaling of the variable by up to 1e+-3
            s = 10.0 ** rng.choice((-100, -50, 50, 100))
            lam = 10.0 ** rng.uniform(-3, 3)
            r = [rng.uniform(-3, 3) * lam for _ in range(3)]
            t = (s * a3, -s * a3 * sum(r), s * a3 * (r[0] * r[1] + r[0] * r[2] + r[1] * r[2]), -s * a3 * r[0] * r[1] * r[2])
        else:          # depressed forms near the special branches (small p or q, not below the absolute thresholds)
            p = rng.choice((0.0, 10.0 ** rng.uniform(-8, 1) * rng.choice((-1, 1))))
            q = rng.choice((0.0, 10.0 ** rng.uniform(-8, 1) * rng.choice((-1, 1))))
            if p == 0.0 and q != 0.0:
                p = 1e-3  # exact p = 0 with q <> 0 is exercised by the fixed corpus (finding F2 is identified by those keys)
            t = (1.0, 0.0, p, q)
        cases.append(t)
    inp = "\n".join(" ".join(repr(v) for v in t) for t in cases) + "\n"
    rc, out, err = c.run([exe, "run"], input=inp)
    if rc != 0:
        c.report("run", "driver failed: " + err[-500:], {"stderr": err[-3000:]}, False)
        return
    lines = [l for l in out.splitlines() if l.startswith("R ")]
    bad = []
    f2_seen = False
    for idx, l in enumerate(lines):
        parts = l[2:].split("|")
        a = tuple(float(x) for x in parts[0].split())
        f = [float(x) for x in parts[1].split()]
        g = [float(x) for x in parts[2].split()]
        c.count(1, ("F", a), True)
        if idx % 311 == 0:
            c.sample({"a3,a2,a1,a0": a, "find_roots": f, "exe(refine)": g})
        why = judge(a, int(f[0]), f[1:])
        if why is None and int(g[0]) != int(f[0]):
            why = "exe(b=true) returns count %d but find_roots %d" % (int(g[0]), int(f[0]))
        if why is None:
            # refinement never increases the residual (same Horner evaluation as the code's own guard)
            for i in range(1, 4 if int(f[0]) == 3 else 2):
                if not (abs(poly(a, g[i])) <= abs(poly(a, f[i]))):
                    why = "refinement increased the residual of x%d: %r -> %r" % (i, f[i], g[i])
        if why is None:
            why2 = judge(a, int(g[0]), g[1:])
            if why2:
                why = "after refinement: " + why2
        if why:
            key = "find_roots:" + fmt(a)
            bad.append(key)
            if len(c.violations) >= 12 and not any(k.get("key") == key for k in c.known):
                continue  # enough concrete failing inputs reported; the total is in the notes
            A = [Fr(v) for v in a]
            if A[2] * 3 * A[0] == A[1] * A[1] and "none of the returned values" in why:
                f2_seen = True   # depressed form with p = 0: finding F2
            c.report(key, "CubicRoots on a3,a2,a1,a0 = %s returns nb=%d x=(%r, %r, %r) [refined: %r]: %s" % (
                fmt(a), int(f[0]), f[1], f[2], f[3], g[1:], why),
                {"coefficients": a, "find_roots": f, "exe_refined": g, "reason": why, "how": "props/C10/trace.cxx run"}, True)
    if bad:
        c.notes.append("%d inputs of %d fail the independent statement of the property" % (len(bad), len(lines)))
    c.coverage["rule"] = ("fixed corpus (p=0, q=0, multiple roots, shifted, coefficients scaled by 1e+-100) + seeded sweep: generic, three separated "
                          "roots, one real root + complex pair, scaled, nearly special depressed forms; judged in exact rational arithmetic: count in {1,3}, "
                          "presented roots have relative residual <= 1e-3, count agrees with the sign of the exact discriminant when it is unambiguous, "
                          "refinement never increases the residual; scale corpus: roots (1,2,-3)s, (1,2,4)s, one real root for s = 1e-100 .. 1e+100 (scale finding); "
                          "improve: model on primitive floats vs real improve<double> bit for bit (near roots, arbitrary starts, near double roots, scaled 1e+-60, special values)")

    # ---- proofs over the regenerated trees (the p = 0 theorem is stated as refuted when finding F2 is observed)
    props = "Properties_C10_F2.v" if f2_seen else "Properties_C10.v"
    p0 = "C10ProofsP0Refuted.v" if f2_seen else "C10ProofsP0.v"
    if f2_seen:
        c.notes.append("finding F2 observed on the p = 0 corpus: the p = 0 theorem is checked in its refuted form (Properties_C10_F2.v)")
    res0 = c.coq([gen, "C10Spec.v", "C10Base.v"], timeout=600)
    results = [res0]
    if res0.ok:
        # jobs: name -> (function, dependencies); at most 4 coqc at a time
        par, done, sem = {}, {}, threading.Semaphore(4)

        def comp(name, files):
            par[name] = c.coq(files, timeout=900)

        jobs = [("C", comp, ["C10ProofsC.v"], []), ("T", comp, ["C10ProofsT.v", "C10Scale.v"], []),
                ("B", comp, ["C10ProofsB.v"], []), ("A", comp, ["C10ProofsA.v"], []), ("D", comp, ["C10ProofsD.v"], []),
                ("Td", comp, ["C10ProofsTd.v"], ["T"]), ("Tq", comp, ["C10ProofsTq.v"], ["T"]), ("Tp", comp, ["C10ProofsTp.v"], ["T"]),
                ("P0", comp, [p0], []), ("I", comp, ["C10ImproveProofs.v"], ["J"])]
        for (name, _f, _fl, _d) in jobs:
            done[name] = threading.Event()
        done["J"] = jdone

        def runjob(name, fn, files, deps):
            try:
                for d in deps:
                    done[d].wait()
                with sem:
                    fn(name, files)
            finally:
                done[name].set()
        ths = [threading.Thread(target=runjob, args=j) for j in jobs]
        for t in ths:
            t.start()
        for t in ths:
            t.join()
        results += list(par.values())
        if all(r.ok for r in par.values()) and len(par) == len(jobs):
            fin = {}

            def compf(f):
                fin[f] = c.coq([f], timeout=600)
            ths = [threading.Thread(target=compf, args=(f,)) for f in (props, "Properties_C10_T.v")]
            for t in ths:
                t.start()
            for t in ths:
                t.join()
            results += list(fin.values())
    c.coverage["checker_cmd"] = "coqc -Q coq/lib VLib -R <scratch> C10 C10_gen.v C10Spec.v C10Base.v C10ProofsA.v C10ProofsB.v C10ProofsC.v C10ProofsD.v %s C10ProofsT.v C10Scale.v C10ProofsTp.v C10ProofsTq.v C10ProofsTd.v C10Improve.v C10ImproveFloat.v C10ImproveProofs.v %s Properties_C10_T.v (Coq 8.16.1)" % (p0, props)
    failed = [r for r in results if not r.ok]
    for r in failed:   # name the lemma that contains the failing line (vlib only knows the theorems of Properties files)
        r.failed = [(f, line, thm or lemma_at(os.path.join(c.work, "coq", f), line), msg) for (f, line, thm, msg) in r.failed]
    if failed:
        nthm = 15
        c.coverage["obligations"] = max(c.coverage["obligations"], nthm)
        if any(v[3] for v in c.violations) or c.known_hits:
            c.notes.append("proof obligations failed: %s; concrete failing inputs are reported" % [f[:3] for r in failed for f in r.failed])
            if not any(v[3] for v in c.violations):
                for r in failed:
                    c.coq_failures(r)
        else:
            for r in failed:
                c.coq_failures(r)


guarded_main("C10", main)

(* C10 -- change of unknown x = s z (the rescaling wrapper proposed in props/C10/fix_rescale.diff: find_roots = s * find_roots_unscaled
   on the coefficients a3, a2/s, a1/s^2, a0/s^3, s a power of two so that the products are exact): the factorisations -- hence the
   roots, their multiplicities and the count -- transfer, and residuals scale by |s|^3.  Pure real algebra, independent of the code. *)
From Coq Require Import Reals Lra.
From C10 Require Import C10Spec.
Local Open Scope R_scope.

Lemma P_scale a3 a2 a1 a0 s z : s <> 0 ->
  P a3 a2 a1 a0 (s * z) = s * s * s * P a3 (a2 / s) (a1 / (s * s)) (a0 / (s * s * s)) z.
Proof. intros Hs. unfold P. field. assumption. Qed.

Lemma three_roots_scale a3 a2 a1 a0 s z1 z2 z3 : s <> 0 ->
  three_roots a3 (a2 / s) (a1 / (s * s)) (a0 / (s * s * s)) z1 z2 z3 -> three_roots a3 a2 a1 a0 (s * z1) (s * z2) (s * z3).
Proof.
  intros Hs H y. replace y with (s * (y / s)) at 1 by (field; assumption).
  rewrite P_scale by assumption. rewrite H. field. assumption.
Qed.

Lemma single_root_scale a3 a2 a1 a0 s z r : s <> 0 ->
  single_root a3 (a2 / s) (a1 / (s * s)) (a0 / (s * s * s)) z r -> single_root a3 a2 a1 a0 (s * z) (s * r).
Proof.
  intros Hs [w [Hw H]]. exists (s * s * w). split.
  - assert (0 < s * s) by (destruct (Rtotal_order s 0) as [|[|]]; [nra | contradiction | nra]). nra.
  - intro y. replace y with (s * (y / s)) at 1 by (field; assumption).
    rewrite P_scale by assumption. rewrite H. field. assumption.
Qed.

Lemma residual_scale a3 a2 a1 a0 s z : s <> 0 ->
  Rabs (P a3 a2 a1 a0 (s * z)) = Rabs s * Rabs s * Rabs s * Rabs (P a3 (a2 / s) (a1 / (s * s)) (a0 / (s * s * s)) z).
Proof. intros Hs. rewrite P_scale by assumption. rewrite !Rabs_mult. reflexivity. Qed.

(* C10 -- residual bounds in the threshold branches of find_roots: |p| below prec *)
From Coq Require Import Reals List Lra Lia Psatz.
From VLib Require Import RealExtra.
From C10 Require Import C10Spec C10_gen C10Base C10ProofsT.
Import ListNotations.
Local Open Scope R_scope.

(* |p| < prec: triple root when |cbrt q| < prec too, else the real root -cbrt(q)-h is x1 (q > 0) or x3 *)
Lemma thr_p a3 a2 a1 a0 : tol <= Rabs a3 -> Rabs (dp a3 a2 a1) < prec_code ->
  exists nb x1 x2 x3, result (find_roots_gen a3 a2 a1 a0) nb x1 x2 x3 /\
   ((nb = 3 /\ x2 = x1 /\ x3 = x1 /\ Rabs (P a3 a2 a1 a0 x1) <= Rabs a3 * (prec_code * prec_code * prec_code)) \/
    (nb = 1 /\ (Rabs (P a3 a2 a1 a0 x1) <= Rabs a3 * (prec_code * Rabs (x1 + sh a3 a2)) \/
                Rabs (P a3 a2 a1 a0 x3) <= Rabs a3 * (prec_code * Rabs (x3 + sh a3 a2))))).
Proof.
  intros H3 Hp. start a3 a2 a1 a0 p q Ha.
  canon_cbrt q ltac:(unfold q, dq; field; nz).
  canon_0lt q ltac:(unfold q, dq; field; nz).
  leaf_tests.
  - do 4 eexists; split; [reflexivity|]. left. repeat split.
    to_depressed a3 a2 a1 a0 p q Ha 0. apply Rmult_le_compat_l; [apply Rabs_pos|].
    match goal with H : Rabs (Rcbrt q) < ?e |- _ => exact (thr_p_triple p q e H) end.
  - do 4 eexists; split; [reflexivity|]. right. split; [reflexivity|]. left.
    match goal with |- context [Rabs (?X + sh a3 a2)] => replace (X + sh a3 a2) with (- Rcbrt q) by (unfold sh; field; nz) end.
    to_depressed a3 a2 a1 a0 p q Ha (- Rcbrt q). apply Rmult_le_compat_l; [apply Rabs_pos|].
    apply thr_p_root. exact Hp.
  - do 4 eexists; split; [reflexivity|]. right. split; [reflexivity|]. right.
    match goal with |- context [Rabs (?X + sh a3 a2)] => replace (X + sh a3 a2) with (- Rcbrt q) by (unfold sh; field; nz) end.
    to_depressed a3 a2 a1 a0 p q Ha (- Rcbrt q). apply Rmult_le_compat_l; [apply Rabs_pos|].
    apply thr_p_root. exact Hp.
Qed.


(* C10 -- the model of CubicRoots::improve on Coq's primitive binary64 floats (bit-exact IEEE under vm_compute);
   definitions only.  The check compares `run1` with the real improve<double> of /repo bit for bit. *)
From Coq Require Import Floats List ZArith.
From C10 Require Import C10Improve.
Import ListNotations.
Open Scope float_scope.

Definition fiops : iops float := {|
  iadd := PrimFloat.add; isub := PrimFloat.sub; imul := PrimFloat.mul; idiv := PrimFloat.div; iopp := PrimFloat.opp;
  iltb := PrimFloat.ltb;
  izero := 0; c2 := 2; c3 := 3; c10 := 10; c100 := 100;
  emin := 0x1p-1022;   (* DBL_MIN *)
  eps := 0x1p-52       (* DBL_EPSILON *) |}.

(* (vp, a3, a2, a1, a0) -> value left in vp *)
Definition icase := (float * float * float * float * float)%type.
Definition run1 (t : icase) : float := let '(vp, a3, a2, a1, a0) := t in improve fiops a3 a2 a1 a0 vp.

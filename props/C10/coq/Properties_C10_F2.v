(* C10 -- property theorems for a tree in which finding F2 (wrong sign in the p = 0 branch) is present *)
From Coq Require Import Reals List.
From C10 Require Import C10Spec C10_gen C10ProofsA C10ProofsB C10ProofsC C10ProofsD C10ProofsP0Refuted.
Import ListNotations.
Local Open Scope R_scope.

(* a non-negligible leading coefficient: the solver answers 1 or 3 *)
Theorem C10_count : forall a3 a2 a1 a0, tol <= Rabs a3 ->
  exists nb x1 x2 x3, result (find_roots_gen a3 a2 a1 a0) nb x1 x2 x3 /\ (nb = 1 \/ nb = 3).
Proof. exact count_ok. Qed.
Print Assumptions C10_count.

(* positive discriminant (three distinct real roots): 3 is returned and P(y) = a3 (y-x1)(y-x2)(y-x3) for every y,
   i.e. x1, x2, x3 are exactly the roots *)
Theorem C10_three_real_roots : forall a3 a2 a1 a0,
  tol <= Rabs a3 -> tol <= Rabs (dp a3 a2 a1) -> tol <= Rabs (dq a3 a2 a1 a0) -> tol <= disc (dp a3 a2 a1) (dq a3 a2 a1 a0) ->
  exists x1 x2 x3, result (find_roots_gen a3 a2 a1 a0) 3 x1 x2 x3 /\ three_roots a3 a2 a1 a0 x1 x2 x3.
Proof. exact three_real_roots. Qed.
Print Assumptions C10_three_real_roots.

(* negative discriminant (one real root): x1 is that root, it is the only real root, x2 = x3 is the real part of the
   complex pair; 3 is only answered for a nearly double root and then x2 makes the polynomial negligible *)
Theorem C10_one_real_root : forall a3 a2 a1 a0,
  tol <= Rabs a3 -> tol <= Rabs (dp a3 a2 a1) -> tol <= Rabs (dq a3 a2 a1 a0) -> disc (dp a3 a2 a1) (dq a3 a2 a1 a0) < 0 ->
  exists nb x1 x2, result (find_roots_gen a3 a2 a1 a0) nb x1 x2 x2 /\ (nb = 1 \/ nb = 3) /\ single_root a3 a2 a1 a0 x1 x2 /\
    (nb = 3 -> approx_root a3 a2 a1 a0 x2).
Proof. exact one_real_root. Qed.
Print Assumptions C10_one_real_root.

(* depressed form with q = 0 *)
Theorem C10_q_zero : forall a3 a2 a1 a0, tol <= Rabs a3 -> tol <= Rabs (dp a3 a2 a1) -> dq a3 a2 a1 a0 = 0 ->
  exists nb x1 x2 x3, result (find_roots_gen a3 a2 a1 a0) nb x1 x2 x3 /\
   ((0 < dp a3 a2 a1 /\ nb = 1 /\ single_root a3 a2 a1 a0 x1 x2 /\ x3 = x2) \/
    (dp a3 a2 a1 < 0 /\ nb = 3 /\ three_roots a3 a2 a1 a0 x1 x2 x3)).
Proof. exact q_zero. Qed.
Print Assumptions C10_q_zero.

(* multiple root: discriminant exactly 0 *)
Theorem C10_double_root : forall a3 a2 a1 a0,
  tol <= Rabs a3 -> tol <= Rabs (dp a3 a2 a1) -> tol <= Rabs (dq a3 a2 a1 a0) -> disc (dp a3 a2 a1) (dq a3 a2 a1 a0) = 0 ->
  exists x1 x2, result (find_roots_gen a3 a2 a1 a0) 3 x1 x2 x2 /\ three_roots a3 a2 a1 a0 x1 x2 x2.
Proof. exact double_root. Qed.
Print Assumptions C10_double_root.

(* refinement (every execution of `improve` with at most three Newton steps, regenerated from the code): the value
   left in vp never has a larger residual than the initial one *)
Theorem C10_improve_never_worse : forall vp a3 a2 a1 a0 x, improve_gen vp a3 a2 a1 a0 = Some [x] ->
  Rabs (P a3 a2 a1 a0 x) <= Rabs (P a3 a2 a1 a0 vp).
Proof. exact improve_bounded. Qed.
Print Assumptions C10_improve_never_worse.

(* FINDING F2 (pinned tree): in the branch p = 0 none of the returned values is a root (x^3 + 8 -> 2, 1, 1) *)
Theorem C10_p_zero_refuted : exists a3 a2 a1 a0, tol <= Rabs a3 /\ dp a3 a2 a1 = 0 /\ tol <= Rabs (dq a3 a2 a1 a0) /\
  forall nb x1 x2 x3, result (find_roots_gen a3 a2 a1 a0) nb x1 x2 x3 ->
    ~ (P a3 a2 a1 a0 x1 = 0 \/ P a3 a2 a1 a0 x2 = 0 \/ P a3 a2 a1 a0 x3 = 0).
Proof. exact p_zero_refuted. Qed.
Print Assumptions C10_p_zero_refuted.

(* C10 -- residual bounds in the threshold branches of find_roots: |q| below prec *)
From Coq Require Import Reals List Lra Lia Psatz.
From VLib Require Import RealExtra.
From C10 Require Import C10Spec C10_gen C10Base C10ProofsT.
Import ListNotations.
Local Open Scope R_scope.

(* |p| >= prec, |q| < prec: -h alone (p > 0, one real root) or -h, -h +- sqrt(-p) *)
Lemma thr_q a3 a2 a1 a0 : tol <= Rabs a3 -> prec_code <= Rabs (dp a3 a2 a1) -> Rabs (dq a3 a2 a1 a0) < prec_code ->
  exists nb x1 x2 x3, result (find_roots_gen a3 a2 a1 a0) nb x1 x2 x3 /\
   Rabs (P a3 a2 a1 a0 x1) <= Rabs a3 * prec_code /\
   ((nb = 1 /\ 0 < dp a3 a2 a1) \/
    (nb = 3 /\ dp a3 a2 a1 < 0 /\ Rabs (P a3 a2 a1 a0 x2) <= Rabs a3 * prec_code /\ Rabs (P a3 a2 a1 a0 x3) <= Rabs a3 * prec_code)).
Proof.
  intros H3 Hp Hq. start a3 a2 a1 a0 p q Ha.
  canon_0lt p ltac:(unfold p, dp; field; nz).
  canon_sqrt (- p) ltac:(unfold p, dp; field; nz).
  pose proof prec_code_pos as Hpc.
  leaf_tests.
  - do 4 eexists; split; [reflexivity|]. split.
    + to_depressed a3 a2 a1 a0 p q Ha 0. apply Rmult_le_compat_l; [apply Rabs_pos|]. left. apply thr_q_zero. exact Hq.
    + left. split; [reflexivity | assumption].
  - assert (Hneg : p < 0) by (unfold prec_code in *; abs_cases p; lra).
    assert (Hs : sqrt (- p) * sqrt (- p) = - p) by (apply sqrt_sqrt; lra).
    destruct (thr_q_sqrt p q prec_code (sqrt (- p)) Hs Hq) as [B1 B2].
    do 4 eexists; split; [reflexivity|]. split.
    + to_depressed a3 a2 a1 a0 p q Ha 0. apply Rmult_le_compat_l; [apply Rabs_pos|]. left. apply thr_q_zero. exact Hq.
    + right. split; [reflexivity|]. split; [assumption|]. split.
      * to_depressed a3 a2 a1 a0 p q Ha (sqrt (- p)). apply Rmult_le_compat_l; [apply Rabs_pos | lra].
      * to_depressed a3 a2 a1 a0 p q Ha (- sqrt (- p)). apply Rmult_le_compat_l; [apply Rabs_pos | lra].
Qed.


(* C10 -- the p = 0 branch of the pinned tree returns no root at all for x^3 + 8 (finding F2) *)
From Coq Require Import Reals List Lra Lia Psatz.
From VLib Require Import RealExtra.
From C10 Require Import C10Spec C10_gen C10Base.
Import ListNotations.
Local Open Scope R_scope.

Lemma p_zero_refuted : exists a3 a2 a1 a0, tol <= Rabs a3 /\ dp a3 a2 a1 = 0 /\ tol <= Rabs (dq a3 a2 a1 a0) /\
  forall nb x1 x2 x3, result (find_roots_gen a3 a2 a1 a0) nb x1 x2 x3 ->
    ~ (P a3 a2 a1 a0 x1 = 0 \/ P a3 a2 a1 a0 x2 = 0 \/ P a3 a2 a1 a0 x3 = 0).
Proof.
  exists 1, 0, 0, 8. pose proof tol_pos as Ht.
  assert (Ep : dp 1 0 0 = 0) by (unfold dp; field). assert (Eq : dq 1 0 0 8 = 8) by (unfold dq; field).
  split; [rewrite Rabs_right; unfold tol; lra|]. split; [assumption|]. split; [rewrite Eq, Rabs_right; unfold tol; lra|].
  intros nb x1 x2 x3. unfold result, find_roots_gen. cbv zeta.
  set (p := dp 1 0 0) in *. set (q := dq 1 0 0 8) in *.
  canon_rabs p ltac:(unfold p, dp; field; nz).
  canon_rabs q ltac:(unfold q, dq; field; nz).
  canon_cbrt q ltac:(unfold q, dq; field; nz).
  canon_0lt q ltac:(unfold q, dq; field; nz).
  rewrite !Ep, !Eq. rewrite (Rcbrt_unique 8 2) by ring.
  rewrite Rabs_R0. rewrite !(Rabs_right 2) by lra. rewrite !(Rabs_right 1) by lra.
  repeat (split_test; try (exfalso; lra)).
  intros H. injection H as H0 H1 H2 H3. subst. unfold P. intros [E|[E|E]]; lra.
Qed.

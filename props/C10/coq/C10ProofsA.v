(* C10 -- branch lemmas: count, bounded unrolling of improve *)
From Coq Require Import Reals List Lra Lia Psatz.
From VLib Require Import RealExtra.
From C10 Require Import C10Spec C10_gen C10Base.
Import ListNotations.
Local Open Scope R_scope.

Lemma count_ok a3 a2 a1 a0 : tol <= Rabs a3 ->
  exists nb x1 x2 x3, result (find_roots_gen a3 a2 a1 a0) nb x1 x2 x3 /\ (nb = 1 \/ nb = 3).
Proof.
  intros H3. unfold find_roots_gen; cbv zeta. unfold tol in *.
  repeat split_test; try (exfalso; lra); do 4 eexists; (split; [reflexivity | first [left; reflexivity | right; reflexivity]]).
Qed.

Lemma improve_bounded vp a3 a2 a1 a0 x : improve_gen vp a3 a2 a1 a0 = Some [x] ->
  Rabs (P a3 a2 a1 a0 x) <= Rabs (P a3 a2 a1 a0 vp).
Proof.
  unfold improve_gen; cbv zeta. intros H.
  repeat split_test_in H; try discriminate H; injection H as H; subst x; try apply Rle_refl;
  match goal with Hc : Rabs ?L < Rabs ?R |- Rabs (P _ _ _ _ ?X) <= _ =>
    replace (P a3 a2 a1 a0 X) with L by (unfold P; ring); replace (P a3 a2 a1 a0 vp) with R by (unfold P; ring); lra end.
Qed.


(* C10 -- specification of "the cubic solver returns genuine roots", written independently of the code.
   A result of CubicRoots::find_roots is the list [nb; x1; x2; x3]. *)
From Coq Require Import Reals List Lra.
Import ListNotations.
Local Open Scope R_scope.

(* the polynomial a3 X^3 + a2 X^2 + a1 X + a0 *)
Definition P (a3 a2 a1 a0 x : R) : R := a3 * (x * x * x) + a2 * (x * x) + a1 * x + a0.

(* depressed form: P(x) = a3 * ((x+h)^3 + p (x+h) + q) *)
Definition sh (a3 a2 : R) : R := a2 / (3 * a3).
Definition dp (a3 a2 a1 : R) : R := (a1 - a2 * a2 / (3 * a3)) / a3.
Definition dq (a3 a2 a1 a0 : R) : R := (a0 - a2 * a1 / (3 * a3) + 2 * (a2 * a2 * a2) / (27 * (a3 * a3))) / a3.
Definition D (p q y : R) : R := y * y * y + p * y + q.
(* discriminant of the depressed cubic: > 0 three distinct real roots, < 0 one real root, = 0 multiple root *)
Definition disc (p q : R) : R := - 4 * (p * p * p) - 27 * (q * q).

(* thresholds.  The code uses prec = 100*DBL_MIN (2.2e-306) and 100*DBL_EPSILON (2.2e-14); the statements only need
   "the thresholds of the code are below these": *)
Definition tol : R := / 10 ^ 300.
Definition stol : R := / 10 ^ 150.   (* a bound of sqrt(prec) *)
Definition etol : R := / 10 ^ 13.

(* the threshold of the code itself, prec = 100*DBL_MIN written with 17 significant digits (used only by the statements
   on the branches taken when |p|, |q| or the discriminant are below it) *)
Definition prec_code : R := 22250738585072014 / 10 ^ 322.

Definition result (o : option (list R)) (nb x1 x2 x3 : R) : Prop := o = Some [nb; x1; x2; x3].

(* x1,x2,x3 are exactly the three real roots, with multiplicities *)
Definition three_roots (a3 a2 a1 a0 x1 x2 x3 : R) : Prop :=
  forall y, P a3 a2 a1 a0 y = a3 * ((y - x1) * (y - x2) * (y - x3)).
(* x is the only real root, the two other roots are complex conjugates of real part r *)
Definition single_root (a3 a2 a1 a0 x r : R) : Prop :=
  exists w, 0 < w /\ forall y, P a3 a2 a1 a0 y = a3 * ((y - x) * ((y - r) * (y - r) + w)).

(* consequences in the usual vocabulary (sanity of the definitions) *)
Lemma three_roots_are_roots a3 a2 a1 a0 x1 x2 x3 : three_roots a3 a2 a1 a0 x1 x2 x3 ->
  P a3 a2 a1 a0 x1 = 0 /\ P a3 a2 a1 a0 x2 = 0 /\ P a3 a2 a1 a0 x3 = 0 /\
  (a3 <> 0 -> forall y, P a3 a2 a1 a0 y = 0 -> y = x1 \/ y = x2 \/ y = x3).
Proof.
  intros H. repeat split; try (rewrite H; ring).
  intros Ha y Hy. rewrite H in Hy.
  apply Rmult_integral in Hy. destruct Hy as [Hy|Hy]; [contradiction|].
  apply Rmult_integral in Hy. destruct Hy as [Hy|Hy]; [|right; right; lra].
  apply Rmult_integral in Hy. destruct Hy as [Hy|Hy]; [left|right; left]; lra.
Qed.
Lemma single_root_is_unique a3 a2 a1 a0 x r : single_root a3 a2 a1 a0 x r ->
  P a3 a2 a1 a0 x = 0 /\ (a3 <> 0 -> forall y, P a3 a2 a1 a0 y = 0 -> y = x).
Proof.
  intros [w [Hw H]]. split; [rewrite H; ring|].
  intros Ha y Hy. rewrite H in Hy.
  apply Rmult_integral in Hy. destruct Hy as [Hy|Hy]; [contradiction|].
  apply Rmult_integral in Hy. destruct Hy as [Hy|Hy]; [lra|].
  pose proof (Rle_0_sqr (y - r)) as Hs. unfold Rsqr in Hs. lra.
Qed.

(* "x makes the polynomial negligible": residual bound for the value x presented as a root; y = x + h is the root of the
   depressed form.  The first term covers the branches taken when p, q or the discriminant are below the absolute
   threshold of the code, the second one the acceptance of a nearly double root (|u-v| < 100 eps |u+v|). *)
Definition slack (a3 a2 a1 a0 x : R) : R :=
  let y := x + sh a3 a2 in let p := dp a3 a2 a1 in let q := dq a3 a2 a1 a0 in
  stol * (1 + Rabs y + Rabs q / Rabs (p * p * p)) + 9 * (etol * etol) * (Rabs y * Rabs y * Rabs y).
Definition approx_root (a3 a2 a1 a0 x : R) : Prop :=
  Rabs (P a3 a2 a1 a0 x) <= Rabs a3 * slack a3 a2 a1 a0 x.

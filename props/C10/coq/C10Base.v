(* C10 -- proofs.  Part 1: real analysis independent of the code (Cardano, Viete, atan2 in polar form).
   Part 2: glue tactics that give canonical names (p, q, disc p q, ...) to the rational sub-terms of the decision tree
   regenerated from /repo (C10_gen.v) by `replace ... by field`, so that the proofs do not depend on how the C++ spells them.
   Part 3: one lemma per branch of find_roots. *)
From Coq Require Import Reals List Lra Psatz.
From VLib Require Import RealExtra.
From C10 Require Import C10Spec C10_gen.
Import ListNotations.
Local Open Scope R_scope.

Lemma depress a3 a2 a1 a0 x : a3 <> 0 ->
  P a3 a2 a1 a0 x = a3 * D (dp a3 a2 a1) (dq a3 a2 a1 a0) (x + sh a3 a2).
Proof. intros. unfold P, D, dp, dq, sh. field. assumption. Qed.

Lemma cube_inj x y : x * x * x = y * y * y -> x = y.
Proof.
  intros H. assert (E : (x - y) * (x * x + x * y + y * y) = 0) by (replace ((x - y) * (x * x + x * y + y * y)) with (x * x * x - y * y * y) by ring; lra).
  apply Rmult_integral in E. destruct E as [E|E]; [lra|].
  pose proof (Rle_0_sqr (x + y / 2)) as H1. pose proof (Rle_0_sqr y) as H2. unfold Rsqr in H1, H2.
  assert (Hy : y * y = 0) by nra. apply Rmult_integral in Hy.
  assert (y = 0) by tauto. subst y. assert (Hx : x * x = 0) by nra. apply Rmult_integral in Hx. lra.
Qed.
Lemma Rcbrt_unique x y : y * y * y = x -> Rcbrt x = y.
Proof. intros H. apply cube_inj. rewrite Rcbrt_cube. auto. Qed.

Lemma cardano_fact p q S U V : S * S = - disc p q / 27 -> U * U * U = (- q + S) / 2 -> V * V * V = (- q - S) / 2 ->
  disc p q < 0 ->
  0 < 3 / 4 * ((U - V) * (U - V)) /\
  forall y, D p q y = (y - (U + V)) * ((y - (- (U + V) / 2)) * (y - (- (U + V) / 2)) + 3 / 4 * ((U - V) * (U - V))).
Proof.
  intros HS HU HV Hd.
  assert (Huv : U * V = - p / 3).
  { apply cube_inj. replace (U * V * (U * V) * (U * V)) with ((U * U * U) * (V * V * V)) by ring.
    rewrite HU, HV. unfold disc in HS. 
    replace ((- q + S) / 2 * ((- q - S) / 2)) with ((q * q - S * S) / 4) by field. rewrite HS. field. }
  assert (Hq : q = - (U * U * U + V * V * V)) by (rewrite HU, HV; field).
  assert (Hp : p = - 3 * (U * V)) by lra.
  split.
  - assert (U <> V).
    { intros E. subst V. assert (S = 0) by lra. subst S. unfold disc in HS. unfold disc in Hd. lra. }
    assert (0 < (U - V) * (U - V)) by (apply Rsqr_pos_lt; lra). lra.
  - intros y. unfold D. rewrite Hq, Hp. field.
Qed.

(* trigonometry *)
Lemma cos_3x x : cos (3 * x) = 4 * (cos x * cos x * cos x) - 3 * cos x.
Proof.
  replace (3 * x) with (x + (x + x)) by ring. rewrite cos_plus, cos_plus, sin_plus.
  pose proof (sin2_cos2 x) as H. unfold Rsqr in H.
  replace (sin x * (sin x * cos x + cos x * sin x)) with (2 * cos x * (sin x * sin x)) by ring.
  replace (sin x * sin x) with (1 - cos x * cos x) by lra. ring.
Qed.
Lemma sin_3x x : sin (3 * x) = 3 * sin x - 4 * (sin x * sin x * sin x).
Proof.
  replace (3 * x) with (x + (x + x)) by ring. rewrite sin_plus, cos_plus, sin_plus.
  pose proof (sin2_cos2 x) as H. unfold Rsqr in H.
  replace (sin x * (cos x * cos x - sin x * sin x) + cos x * (sin x * cos x + cos x * sin x)) with
     (3 * sin x * (cos x * cos x) - sin x * sin x * sin x) by ring.
  replace (cos x * cos x) with (1 - sin x * sin x) by lra. ring.
Qed.

Lemma atan_polar x y : 0 < x -> sqrt (x * x + y * y) * cos (atan (y / x)) = x /\ sqrt (x * x + y * y) * sin (atan (y / x)) = y.
Proof.
  intros Hx. rewrite cos_atan, sin_atan.
  assert (E : sqrt (x * x + y * y) = x * sqrt (1 + (y / x)²)).
  { assert (0 <= 1 + (y / x)²) by (pose proof (Rle_0_sqr (y / x)); lra).
    replace (x * x + y * y) with ((x * x) * (1 + (y / x)²)) by (unfold Rsqr; field; lra).
    rewrite sqrt_mult by nra. rewrite sqrt_square by lra. reflexivity. }
  assert (0 < sqrt (1 + (y / x)²)) by (apply sqrt_lt_R0; pose proof (Rle_0_sqr (y / x)); lra).
  rewrite E. split; field; lra.
Qed.

Lemma Ratan2_polar x y : 0 < x * x + y * y ->
  sqrt (x * x + y * y) * cos (Ratan2 y x) = x /\ sqrt (x * x + y * y) * sin (Ratan2 y x) = y.
Proof.
  intros H. unfold Ratan2.
  destruct (Rlt_dec 0 x) as [Hx|Hx]; [apply atan_polar; auto|].
  destruct (Rlt_dec x 0) as [Hx'|Hx'].
  - assert (Hm : 0 < - x) by lra. destruct (atan_polar (- x) (- y) Hm) as [A B].
    replace (- x * - x + - y * - y) with (x * x + y * y) in * by ring.
    replace (- y / - x) with (y / x) in * by (field; lra).
    destruct (Rle_dec 0 y).
    + rewrite cos_plus, sin_plus, cos_PI, sin_PI. split; nra.
    + rewrite cos_minus, sin_minus, cos_PI, sin_PI. split; nra.
  - assert (x = 0) by lra. subst x. replace (0 * 0 + y * y) with (y * y) in * by ring.
    destruct (Rlt_dec 0 y).
    + rewrite sqrt_square by lra. rewrite cos_PI2, sin_PI2. split; ring.
    + destruct (Rlt_dec y 0).
      * replace (y * y) with ((- y) * (- y)) by ring. rewrite sqrt_square by lra.
        replace (- PI / 2) with (- (PI / 2)) by field. rewrite cos_neg, sin_neg, cos_PI2, sin_PI2. split; ring.
      * nra.
Qed.

(* Viete: r = cbrt(rho), rho = sqrt(T*T+T2*T2), phi = theta/3 *)
Lemma viete_fact p q K r c s : K * K = 3 -> c * c + s * s = 1 -> r * r = - 3 * p ->
  r * r * r * (4 * (c * c * c) - 3 * c) = - 27 / 2 * q ->
  forall y, D p q y = (y - 2 / 3 * (r * c)) * (y - (- (1 / 3 * (r * c)) - 1 / 3 * K * (r * s))) * (y - (- (1 / 3 * (r * c)) + 1 / 3 * K * (r * s))).
Proof.
  intros HK Hcs Hr Hq y. unfold D.
  assert (Hp : p = - (r * r) / 3) by lra. assert (Hq' : q = - 2 / 27 * (r * r * r * (4 * (c * c * c) - 3 * c))) by lra.
  rewrite Hp, Hq'.
  assert (Hs : s * s = 1 - c * c) by lra.
  field_simplify_eq. ring [HK Hs].
Qed.

(* canonical forms *)
Definition T2c p q := 3 / 2 * sqrt 3 * sqrt (disc p q).
Definition Tc (q : R) := - 27 / 2 * q.
Lemma trig_roots p q : 0 < disc p q ->
  let r := Rcbrt (sqrt (Tc q * Tc q + T2c p q * T2c p q)) in
  let phi := Ratan2 (T2c p q) (Tc q) / 3 in
  forall y, D p q y = (y - 2 / 3 * (r * cos phi)) * (y - (- (1 / 3 * (r * cos phi)) - 1 / 3 * sqrt 3 * (r * sin phi)))
                      * (y - (- (1 / 3 * (r * cos phi)) + 1 / 3 * sqrt 3 * (r * sin phi))).
Proof.
  intros Hd r phi.
  assert (Hrho2 : Tc q * Tc q + T2c p q * T2c p q = - 27 * (p * p * p)).
  { unfold Tc, T2c. replace (3 / 2 * sqrt 3 * sqrt (disc p q) * (3 / 2 * sqrt 3 * sqrt (disc p q)))
      with (9 / 4 * (sqrt 3 * sqrt 3) * (sqrt (disc p q) * sqrt (disc p q))) by field.
    rewrite sqrt3_sq, sqrt_sqrt by lra. unfold disc. field. }
  assert (Hp : p < 0). { unfold disc in Hd. assert (0 <= q * q) by nra. assert (p * p * p < 0) by lra. 
    destruct (Rlt_dec p 0); auto. assert (0 <= p) by lra. assert (0 <= p * p * p) by (repeat apply Rmult_le_pos; auto). lra. }
  assert (Hpos : 0 < Tc q * Tc q + T2c p q * T2c p q). { rewrite Hrho2. assert (0 < (- p) * (- p) * (- p)) by (repeat apply Rmult_lt_0_compat; lra). lra. }
  destruct (Ratan2_polar (Tc q) (T2c p q) Hpos) as [Hc Hs].
  set (rho := sqrt (Tc q * Tc q + T2c p q * T2c p q)) in *.
  assert (Hrho : rho * rho = - 27 * (p * p * p)) by (unfold rho; rewrite sqrt_sqrt; lra).
  assert (Hr3 : r * r * r = rho) by apply Rcbrt_cube.
  apply viete_fact.
  - apply sqrt3_sq.
  - pose proof (sin2_cos2 phi) as H. unfold Rsqr in H. lra.
  - apply cube_inj. replace (r * r * (r * r) * (r * r)) with ((r * r * r) * (r * r * r)) by ring. rewrite Hr3, Hrho. ring.
  - rewrite <- cos_3x. rewrite Hr3. unfold phi. replace (3 * (Ratan2 (T2c p q) (Tc q) / 3)) with (Ratan2 (T2c p q) (Tc q)) by field.
    rewrite Hc. unfold Tc. reflexivity.
Qed.

Lemma cardano_roots p q : disc p q < 0 ->
  let S := sqrt (- disc p q / 27) in let U := Rcbrt ((- q + S) / 2) in let V := Rcbrt ((- q - S) / 2) in
  0 < 3 / 4 * ((U - V) * (U - V)) /\
  forall y, D p q y = (y - (U + V)) * ((y - (- (U + V) / 2)) * (y - (- (U + V) / 2)) + 3 / 4 * ((U - V) * (U - V))).
Proof.
  intros Hd S U V. apply cardano_fact with (S := S); auto.
  - unfold S. rewrite sqrt_sqrt; lra.
  - apply Rcbrt_cube.
  - apply Rcbrt_cube.
Qed.

(* ---- glue tactics: canonical names for the rational sub-terms of the regenerated tree *)
Ltac nz := repeat split; first [assumption | lra].
Ltac try_replace M c tac := tryif constr_eq M c then fail else (replace M with c by tac).
Ltac canon_rabs c tac := repeat match goal with |- context [Rabs ?M] => try_replace M c tac end.
Ltac canon_cbrt c tac := repeat match goal with |- context [Rcbrt ?M] => try_replace M c tac end.
Ltac canon_sqrt c tac := repeat match goal with |- context [sqrt ?M] => try_replace M c tac end.
Ltac canon_cos c tac := repeat match goal with |- context [cos ?M] => try_replace M c tac end.
Ltac canon_sin c tac := repeat match goal with |- context [sin ?M] => try_replace M c tac end.
Ltac canon_lt0 c tac := repeat match goal with |- context [Rlt_dec ?M 0] => try_replace M c tac end.
Ltac canon_0lt c tac := repeat match goal with |- context [Rlt_dec 0 ?M] => try_replace M c tac end.
Ltac canon_atan2 a b tac := repeat match goal with |- context [Ratan2 ?A ?B] =>
   first [try_replace A a tac; try (try_replace B b tac) | try_replace B b tac] end.

Ltac split_test := match goal with |- context [if ?c then _ else _] => destruct c end.

Lemma a3_nz a3 : tol <= Rabs a3 -> a3 <> 0.
Proof. unfold tol. intros H E. subst. rewrite Rabs_R0 in H. assert (0 < / 10 ^ 300) by (apply Rinv_0_lt_compat; apply pow_lt; lra). lra. Qed.

(* start: names p q h, a3 <> 0, canonical conditions *)
Ltac start a3 a2 a1 a0 p q Ha :=
  assert (Ha : a3 <> 0) by (apply a3_nz; assumption);
  unfold find_roots_gen; cbv zeta;
  set (p := dp a3 a2 a1) in *; set (q := dq a3 a2 a1 a0) in *;
  canon_rabs p ltac:(unfold p, dp; field; nz);
  canon_rabs q ltac:(unfold q, dq; field; nz);
  canon_rabs (disc p q) ltac:(unfold disc, p, q, dp, dq; field; nz).


Lemma tol_pos : 0 < / 10 ^ 300.
Proof. apply Rinv_0_lt_compat; apply pow_lt; lra. Qed.
Ltac abs_cases x := destruct (Rcase_abs x) as [?|?];
  [rewrite (Rabs_left x) in * by assumption | rewrite (Rabs_right x) in * by assumption].
Ltac canonY p q c := match goal with |- context [D p q ?Y] => replace Y with c by (unfold sh; field; nz) end.
Ltac split_test_in H := match type of H with context [if ?c then _ else _] => destruct c end.

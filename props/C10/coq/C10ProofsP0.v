(* C10 -- branch lemma p = 0 (true once the sign of cbrt(q) is right: finding F2) *)
From Coq Require Import Reals List Lra Lia Psatz.
From VLib Require Import RealExtra.
From C10 Require Import C10Spec C10_gen C10Base.
Import ListNotations.
Local Open Scope R_scope.

(* p = 0: the real root is -cbrt(q) *)
Lemma cbrt_tol q : tol <= Rabs q -> tol <= Rabs (Rcbrt q).
Proof.
  intros H. destruct (Rle_dec tol (Rabs (Rcbrt q))) as [|N]; [assumption|exfalso].
  assert (Hc : Rabs (Rcbrt q) < tol) by lra.
  rewrite <- (Rcbrt_cube q) in H. rewrite !Rabs_mult in H.
  set (c := Rabs (Rcbrt q)) in *. assert (0 <= c) by apply Rabs_pos.
  assert (tol < 1) by (unfold tol; pose proof tol_pos; lra).
  assert (c * c <= c) by nra. assert (c * c * c <= c * c) by nra. lra.
Qed.

Lemma p_zero a3 a2 a1 a0 : tol <= Rabs a3 -> dp a3 a2 a1 = 0 ->
  exists nb x1 x2 x3, result (find_roots_gen a3 a2 a1 a0) nb x1 x2 x3 /\
   (dq a3 a2 a1 a0 = 0 -> nb = 3 /\ three_roots a3 a2 a1 a0 x1 x2 x3) /\
   (tol <= Rabs (dq a3 a2 a1 a0) ->
      nb = 1 /\ ((single_root a3 a2 a1 a0 x1 x2 /\ x3 = x2) \/ (single_root a3 a2 a1 a0 x3 x1 /\ x2 = x1))).
Proof.
  intros H3 Hp. start a3 a2 a1 a0 p q Ha.
  canon_cbrt q ltac:(unfold q, dq; field; nz).
  canon_0lt q ltac:(unfold q, dq; field; nz).
  rewrite !Hp. rewrite !Rabs_R0. pose proof tol_pos.
  assert (Hsr : forall x r, x = - sh a3 a2 - Rcbrt q -> r = - sh a3 a2 + 1 / 2 * Rcbrt q -> tol <= Rabs (Rcbrt q) ->
     single_root a3 a2 a1 a0 x r).
  { intros x r Ex Er Hc. exists (3 / 4 * (Rcbrt q * Rcbrt q)). split.
    - assert (Rcbrt q <> 0) by (intros E; rewrite E, Rabs_R0 in Hc; unfold tol in Hc; lra).
      assert (0 < Rcbrt q * Rcbrt q) by (apply Rsqr_pos_lt; assumption). lra.
    - intro y. rewrite depress by assumption. fold p q. rewrite Hp, Ex, Er. unfold D. rewrite <- (Rcbrt_cube q) at 1. field. }
  unfold tol in *.
  repeat (split_test; try (exfalso; lra)).
  - do 4 eexists; split; [reflexivity|]. split.
    + intros Hq. split; [reflexivity|]. intro y. rewrite depress by assumption. fold p q. rewrite Hp, Hq. unfold D, sh. field. nz.
    + intros Hq. apply cbrt_tol in Hq. unfold tol in Hq. exfalso; lra.
  - do 4 eexists; split; [reflexivity|]. split.
    + intros Hq. exfalso. rewrite Hq in *. rewrite Rcbrt_0, Rabs_R0 in *. lra.
    + intros Hq. apply cbrt_tol in Hq. split; [reflexivity|]. left. split; [|first [reflexivity | ring]].
      apply Hsr; [unfold sh; field; nz | unfold sh; field; nz | assumption].
  - do 4 eexists; split; [reflexivity|]. split.
    + intros Hq. exfalso. rewrite Hq in *. rewrite Rcbrt_0, Rabs_R0 in *. lra.
    + intros Hq. apply cbrt_tol in Hq. split; [reflexivity|]. right. split; [|first [reflexivity | ring]].
      apply Hsr; [unfold sh; field; nz | unfold sh; field; nz | assumption].
Qed.

(* C10 -- hand-written executable model of CubicRoots::improve (include/TFEL/Math/General/CubicRoots.hxx), the complete
   Newton loop with its iteration bound as fuel.  Definitions only.  The scalar type is abstract (a record of operations with
   no law attached); the same definitions are instantiated on R (theorems, C10ImproveProofs.v) and on Coq's primitive binary64
   floats (bit-exact execution against the real code, C10ImproveFloat.v). *)
From Coq Require Import ZArith Bool.

Record iops (F : Type) := {
  iadd : F -> F -> F; isub : F -> F -> F; imul : F -> F -> F; idiv : F -> F -> F; iopp : F -> F;
  iltb : F -> F -> bool;
  izero : F; c2 : F; c3 : F; c10 : F; c100 : F;
  emin : F;   (* std::numeric_limits<T>::min() *)
  eps : F     (* std::numeric_limits<T>::epsilon() *)
}.
Arguments iadd {F}. Arguments isub {F}. Arguments imul {F}. Arguments idiv {F}. Arguments iopp {F}. Arguments iltb {F}.
Arguments izero {F}. Arguments c2 {F}. Arguments c3 {F}. Arguments c10 {F}. Arguments c100 {F}. Arguments emin {F}. Arguments eps {F}.

Section Improve.
  Context {F : Type} (o : iops F).
  Variables a3 a2 a1 a0 : F.
  Infix "+" := o.(iadd). Infix "-" := o.(isub). Infix "*" := o.(imul). Infix "/" := o.(idiv).

  (* tfel::math::abs: (s < 0) ? -s : s ;  std::max(a, b): (a < b) ? b : a *)
  Definition iabs (s : F) : F := if o.(iltb) s o.(izero) then o.(iopp) s else s.
  Definition imax (a b : F) : F := if o.(iltb) a b then b else a.
  (* the lambdas f and df of improve *)
  Definition pf (x : F) : F := ((a3 * x + a2) * x + a1) * x + a0.
  Definition pdf (x : F) : F := (o.(c3) * a3 * x + o.(c2) * a2) * x + a1.

  (* `while ((abs(x1 - x) > prec) && (iter < iter_max))`, fuel = iter_max - iter.
     None: the early `return` (derivative below 100*emin) which leaves vp unchanged; Some x: the loop ended with candidate x *)
  Fixpoint newton (fuel : nat) (prec x x1 : F) : option F :=
    if o.(iltb) prec (iabs (x1 - x)) then
      match fuel with
      | O => Some x
      | S n => let x := x1 in
               let dfv := pdf x in
               if o.(iltb) (iabs dfv) (o.(c100) * o.(emin)) then None
               else newton n prec x (x - pf x / dfv)
      end
    else Some x.

  (* improve with an arbitrary iteration bound; the code has iter_max = 50 *)
  Definition improve_fuel (fuel : nat) (vp : F) : F :=
    let prec := o.(c10) * imax o.(emin) (iabs vp * o.(eps)) in
    let dfv := pdf vp in
    if o.(iltb) (iabs dfv) (o.(c100) * o.(emin)) then vp
    else match newton fuel prec vp (vp - pf vp / dfv) with
         | None => vp
         | Some x => if o.(iltb) (iabs (pf x)) (iabs (pf vp)) then x else vp
         end.
  Definition improve : F -> F := improve_fuel 50.
End Improve.

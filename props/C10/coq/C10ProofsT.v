(* C10 -- residual bounds in the threshold branches of find_roots (|p|, |q| or the discriminant below prec = 100*DBL_MIN
   but not zero).  Part 1: real analysis for any threshold e; part 2: the three groups of leaves of the regenerated tree. *)
From Coq Require Import Reals List Lra Lia Psatz.
From VLib Require Import RealExtra.
From C10 Require Import C10Spec C10_gen C10Base.
Import ListNotations.
Local Open Scope R_scope.

(* ---- part 1 *)
(* |p| < e: the value -cbrt(q) presented as the real root *)
Lemma thr_p_root p q e : Rabs p < e -> Rabs (D p q (- Rcbrt q)) <= e * Rabs (- Rcbrt q).
Proof.
  intros Hp. assert (E : q = Rcbrt q * Rcbrt q * Rcbrt q) by (symmetry; apply Rcbrt_cube).
  set (c := Rcbrt q) in *. clearbody c. subst q. unfold D.
  replace (- c * - c * - c + p * - c + c * c * c) with (p * - c) by ring.
  rewrite Rabs_mult. apply Rmult_le_compat_r; [apply Rabs_pos | lra].
Qed.
(* |p| < e and |cbrt q| < e: triple root 0 *)
Lemma thr_p_triple p q e : Rabs (Rcbrt q) < e -> Rabs (D p q 0) <= e * e * e.
Proof.
  intros Hc. assert (E : q = Rcbrt q * Rcbrt q * Rcbrt q) by (symmetry; apply Rcbrt_cube).
  set (c := Rcbrt q) in *. clearbody c. subst q. unfold D.
  replace (0 * 0 * 0 + p * 0 + c * c * c) with (c * c * c) by ring. rewrite !Rabs_mult.
  pose proof (Rabs_pos c). assert (Rabs c * Rabs c <= e * e) by nra. nra.
Qed.
(* |q| < e: the values 0, +-sqrt(-p) *)
Lemma thr_q_zero p q e : Rabs q < e -> Rabs (D p q 0) < e.
Proof. intros Hq. unfold D. replace (0 * 0 * 0 + p * 0 + q) with q by ring. exact Hq. Qed.
Lemma thr_q_sqrt p q e s : s * s = - p -> Rabs q < e -> Rabs (D p q s) < e /\ Rabs (D p q (- s)) < e.
Proof.
  intros Hs Hq. unfold D. split.
  - replace (s * s * s + p * s + q) with (s * (s * s + p) + q) by ring. rewrite Hs. replace (s * (- p + p) + q) with q by ring. exact Hq.
  - replace (- s * - s * - s + p * - s + q) with (- s * (s * s + p) + q) by ring. rewrite Hs. replace (- s * (- p + p) + q) with q by ring. exact Hq.
Qed.
(* 0 <= disc < e: the double-root formulas 3q/p and -3q/(2p) *)
Lemma thr_disc_values p q : p <> 0 ->
  D p q (3 * q / p) = - (disc p q * q / (p * p * p)) /\ D p q (- (3 * q / p) / 2) = disc p q * q / (8 * (p * p * p)).
Proof. intros Hp. unfold D, disc. split; field; assumption. Qed.
Lemma thr_disc_key p q e : p <> 0 -> 0 <= disc p q -> disc p q < e ->
  (disc p q * q / (p * p * p)) * (disc p q * q / (p * p * p)) <= 16 / 27 * e.
Proof.
  intros Hp H0 He.
  assert (Hp3 : p * p * p < 0).
  { unfold disc in H0. assert (0 <= q * q) by nra. assert (p * p * p <= 0) by lra.
    destruct (Req_dec (p * p * p) 0) as [E|E]; [|lra]. apply Rmult_integral in E. destruct E as [E|E]; [|contradiction].
    apply Rmult_integral in E. tauto. }
  set (c := - (p * p * p)) in *. assert (Hc : 0 < c) by (unfold c; lra).
  assert (Hd : disc p q = 4 * c - 27 * (q * q)) by (unfold disc, c; ring).
  set (d := disc p q) in *. assert (Hq2 : q * q = (4 * c - d) / 27) by lra.
  replace (d * q / (p * p * p) * (d * q / (p * p * p))) with (d * d * (q * q) / (c * c)) by (unfold c; field; assumption).
  rewrite Hq2.
  (* d^2 (4c - d) / (27 c^2) <= 16 e / 27  as  d <= 4 c, d < e *)
  assert (Hd4 : d <= 4 * c) by (assert (0 <= q * q) by nra; lra).
  assert (Hcc : 0 < c * c) by (apply Rmult_lt_0_compat; lra).
  apply Rmult_le_reg_r with (27 * (c * c)); [lra|].
  replace (d * d * ((4 * c - d) / 27) / (c * c) * (27 * (c * c))) with (d * d * (4 * c - d)) by (field; lra).
  replace (16 / 27 * e * (27 * (c * c))) with (16 * e * (c * c)) by field.
  (* d*d*(4c-d) <= d*(4c)*(4c) ... : d*(4c-d) <= 4c*c? indeed d(4c-d) <= (2c)^2 = 4c^2 ; so d*d*(4c-d) <= d*4c^2 <= e*4c^2 *)
  clearbody d c.
  assert (d * (4 * c - d) <= 4 * (c * c)) by (pose proof (Rle_0_sqr (2 * c - d)) as Hs; unfold Rsqr in Hs; lra).
  assert (d * (d * (4 * c - d)) <= d * (4 * (c * c))) by (apply Rmult_le_compat_l; lra).
  assert (d * (4 * (c * c)) <= e * (4 * (c * c))) by (apply Rmult_le_compat_r; nra).
  nra.
Qed.
(* 0 <= disc, |p| <= e: the value 0 *)
Lemma thr_disc_small_p p q e : 0 <= disc p q -> Rabs p <= e -> 27 * (D p q 0 * D p q 0) <= 4 * (e * e * e).
Proof.
  intros H0 Hp. unfold D. replace (0 * 0 * 0 + p * 0 + q) with q by ring. unfold disc in H0.
  assert (- (p * p * p) <= e * e * e).
  { pose proof (Rabs_pos p). assert (Rabs p * Rabs p <= e * e) by nra. assert (Rabs p * Rabs p * Rabs p <= e * e * e) by nra.
    rewrite <- !Rabs_mult in H2. pose proof (Rle_abs (- (p * p * p))). rewrite Rabs_Ropp in H3. lra. }
  lra.
Qed.

Lemma prec_code_pos : 0 < prec_code.
Proof. unfold prec_code. apply Rdiv_lt_0_compat; [lra | apply pow_lt; lra]. Qed.
Lemma prec_code_tol : prec_code <= tol.
Proof. unfold prec_code, tol. lra. Qed.

(* ---- part 2: the leaves of the regenerated tree *)
Ltac leaf_tests := repeat (split_test; try (exfalso; unfold tol, prec_code in *; lra)).
Ltac to_depressed a3 a2 a1 a0 p q Ha c :=
  rewrite (depress a3 a2 a1 a0) by assumption; fold p q; canonY p q c; rewrite Rabs_mult.


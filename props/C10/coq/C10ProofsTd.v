(* C10 -- residual bounds in the threshold branches of find_roots: discriminant below prec *)
From Coq Require Import Reals List Lra Lia Psatz.
From VLib Require Import RealExtra.
From C10 Require Import C10Spec C10_gen C10Base C10ProofsT.
Import ListNotations.
Local Open Scope R_scope.

(* |p|, |q| >= prec, 0 <= disc < prec: the double-root formulas; (P x)^2 <= a3^2 * 16/27 * prec, i.e. |P x| <= 0.77 |a3| sqrt(prec) *)
Lemma thr_disc a3 a2 a1 a0 : tol <= Rabs a3 -> prec_code <= Rabs (dp a3 a2 a1) -> prec_code <= Rabs (dq a3 a2 a1 a0) ->
  0 <= disc (dp a3 a2 a1) (dq a3 a2 a1 a0) -> disc (dp a3 a2 a1) (dq a3 a2 a1 a0) < prec_code ->
  exists x1 x2, result (find_roots_gen a3 a2 a1 a0) 3 x1 x2 x2 /\
   P a3 a2 a1 a0 x1 * P a3 a2 a1 a0 x1 <= a3 * a3 * (16 / 27 * prec_code) /\
   P a3 a2 a1 a0 x2 * P a3 a2 a1 a0 x2 <= a3 * a3 * (16 / 27 * prec_code).
Proof.
  intros H3 Hp Hq Hd0 Hd. start a3 a2 a1 a0 p q Ha.
  canon_lt0 (disc p q) ltac:(unfold disc, p, q, dp, dq; field; nz).
  pose proof prec_code_pos as Hpc.
  assert (Hda : Rabs (disc p q) < prec_code) by (rewrite Rabs_pos_eq; assumption).
  assert (Hpz : p <> 0) by (intros E; rewrite E, Rabs_R0 in Hp; lra).
  assert (Ha2 : 0 <= a3 * a3) by nra.
  try match goal with |- context [3 * ?Q / ?PP] =>
    try_replace Q q ltac:(unfold q, dq; field; nz); try_replace PP p ltac:(unfold p, dp; field; nz) end.
  leaf_tests.
  - (* |p| > prec: 3q/p - h and -3q/(2p) - h *)
    destruct (thr_disc_values p q Hpz) as [V1 V2]. pose proof (thr_disc_key p q prec_code Hpz Hd0 Hd) as K.
    do 2 eexists; split; [reflexivity|]. split.
    + rewrite (depress a3 a2 a1 a0) by assumption. fold p q.
      match goal with |- context [D p q ?Y] => replace Y with (3 * q / p) by (unfold sh; field; nz) end.
      rewrite V1.
      replace (a3 * - (disc p q * q / (p * p * p)) * (a3 * - (disc p q * q / (p * p * p))))
        with (a3 * a3 * (disc p q * q / (p * p * p) * (disc p q * q / (p * p * p)))) by ring.
      apply Rmult_le_compat_l; assumption.
    + rewrite (depress a3 a2 a1 a0) by assumption. fold p q.
      match goal with |- context [D p q ?Y] => replace Y with (- (3 * q / p) / 2) by (unfold sh; field; nz) end.
      rewrite V2.
      replace (a3 * (disc p q * q / (8 * (p * p * p))) * (a3 * (disc p q * q / (8 * (p * p * p)))))
        with (a3 * a3 * (/ 64 * (disc p q * q / (p * p * p) * (disc p q * q / (p * p * p))))) by (field; assumption).
      apply Rmult_le_compat_l; [assumption|].
      assert (0 <= disc p q * q / (p * p * p) * (disc p q * q / (p * p * p))) by apply Rle_0_sqr. lra.
  - (* |p| = prec exactly: -h three times *)
    assert (Hpe : Rabs p <= prec_code) by (unfold prec_code; lra).
    pose proof (thr_disc_small_p p q prec_code Hd0 Hpe) as K.
    assert (Hlt1 : prec_code < 1) by (unfold prec_code; lra).
    assert (K2 : D p q 0 * D p q 0 <= 16 / 27 * prec_code).
    { assert (prec_code * prec_code <= prec_code) by nra. assert (prec_code * prec_code * prec_code <= prec_code) by nra. lra. }
    do 2 eexists; split; [reflexivity|].
    assert (G : forall X, X + sh a3 a2 = 0 -> P a3 a2 a1 a0 X * P a3 a2 a1 a0 X <= a3 * a3 * (16 / 27 * prec_code)).
    { intros X EX. rewrite (depress a3 a2 a1 a0) by assumption. fold p q. rewrite EX.
      replace (a3 * D p q 0 * (a3 * D p q 0)) with (a3 * a3 * (D p q 0 * D p q 0)) by ring.
      apply Rmult_le_compat_l; assumption. }
    split; apply G; unfold sh; field; nz.
Qed.

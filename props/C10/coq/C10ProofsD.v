(* C10 -- branch lemmas: three distinct real roots (trigonometric branch, Viete) *)
From Coq Require Import Reals List Lra Lia Psatz.
From VLib Require Import RealExtra.
From C10 Require Import C10Spec C10_gen C10Base.
Import ListNotations.
Local Open Scope R_scope.

Lemma three_real_roots a3 a2 a1 a0 : tol <= Rabs a3 -> tol <= Rabs (dp a3 a2 a1) -> tol <= Rabs (dq a3 a2 a1 a0) ->
  tol <= disc (dp a3 a2 a1) (dq a3 a2 a1 a0) ->
  exists x1 x2 x3, result (find_roots_gen a3 a2 a1 a0) 3 x1 x2 x3 /\ three_roots a3 a2 a1 a0 x1 x2 x3.
Proof.
  intros H3 Hp Hq Hd. start a3 a2 a1 a0 p q Ha.
  canon_lt0 (disc p q) ltac:(unfold disc, p, q, dp, dq; field; nz).
  pose proof (Rle_abs (disc p q)) as Habs. unfold tol in *.
  repeat (split_test; try (exfalso; lra)).
  do 3 eexists; split; [reflexivity|].
  intro y. rewrite depress by assumption. fold p q.
  assert (Hd' : 0 < disc p q) by (assert (0 < / 10 ^ 300) by (apply Rinv_0_lt_compat; apply pow_lt; lra); lra).
  rewrite (trig_roots p q Hd'). cbv zeta.
  canon_sqrt (disc p q) ltac:(unfold disc, p, q, dp, dq; field; nz).
  canon_atan2 (T2c p q) (Tc q) ltac:(unfold T2c, Tc, q, dq; field; nz).
  canon_sqrt (Tc q * Tc q + T2c p q * T2c p q) ltac:(unfold T2c, Tc, q, dq; field; nz).
  canon_cos (Ratan2 (T2c p q) (Tc q) / 3) ltac:(field).
  canon_sin (Ratan2 (T2c p q) (Tc q) / 3) ltac:(field).
  unfold sh. field. nz.
Qed.


(* C10 -- theorems on the model of CubicRoots::improve, for every iteration bound (fuel) *)
From Coq Require Import Reals ZArith Bool Lra List.
From C10 Require Import C10Spec C10Improve.
Local Open Scope R_scope.

(* --- for every table of operations (any rounding): the value left in vp is vp itself or passed the final guard *)
Section Generic.
  Context {F : Type} (o : iops F).
  Variables a3 a2 a1 a0 : F.
  Lemma improve_fuel_guard fuel vp :
    improve_fuel o a3 a2 a1 a0 fuel vp = vp \/
    iltb o (iabs o (pf o a3 a2 a1 a0 (improve_fuel o a3 a2 a1 a0 fuel vp))) (iabs o (pf o a3 a2 a1 a0 vp)) = true.
  Proof.
    unfold improve_fuel. cbv zeta.
    destruct (iltb o (iabs o (pdf o a3 a2 a1 vp)) _); [left; reflexivity|].
    destruct (newton o a3 a2 a1 a0 fuel _ vp _) as [x|]; [|left; reflexivity].
    destruct (iltb o (iabs o (pf o a3 a2 a1 a0 x)) (iabs o (pf o a3 a2 a1 a0 vp))) eqn:E; [right; exact E | left; reflexivity].
  Qed.
End Generic.

(* --- real numbers *)
Definition Rltb (a b : R) : bool := if Rlt_dec a b then true else false.
Definition Rops (emin eps : R) : iops R := {|
  iadd := Rplus; isub := Rminus; imul := Rmult; idiv := Rdiv; iopp := Ropp; iltb := Rltb;
  izero := 0; c2 := 2; c3 := 3; c10 := 10; c100 := 100; emin := emin; eps := eps |}.

Lemma iabs_Rabs emin eps x : iabs (Rops emin eps) x = Rabs x.
Proof.
  unfold iabs, Rabs. cbn. unfold Rltb. destruct (Rlt_dec x 0); destruct (Rcase_abs x); lra.
Qed.
Lemma pf_P emin eps a3 a2 a1 a0 x : pf (Rops emin eps) a3 a2 a1 a0 x = P a3 a2 a1 a0 x.
Proof. unfold pf, P. cbn. ring. Qed.

Section Reals.
  Variables emin eps a3 a2 a1 a0 : R.
  Notation imp := (improve_fuel (Rops emin eps) a3 a2 a1 a0).

  (* the refinement never increases the residual -- whatever the iteration bound, thresholds and coefficients *)
  Lemma improve_never_worse fuel vp : Rabs (P a3 a2 a1 a0 (imp fuel vp)) <= Rabs (P a3 a2 a1 a0 vp).
  Proof.
    destruct (improve_fuel_guard (Rops emin eps) a3 a2 a1 a0 fuel vp) as [E|E].
    - rewrite E. apply Rle_refl.
    - rewrite !iabs_Rabs, !pf_P in E. cbn in E. unfold Rltb in E. destruct (Rlt_dec _ _); [lra|discriminate].
  Qed.

  (* it is vp itself or strictly better *)
  Lemma improve_same_or_better fuel vp :
    imp fuel vp = vp \/ Rabs (P a3 a2 a1 a0 (imp fuel vp)) < Rabs (P a3 a2 a1 a0 vp).
  Proof.
    destruct (improve_fuel_guard (Rops emin eps) a3 a2 a1 a0 fuel vp) as [E|E]; [left; exact E | right].
    rewrite !iabs_Rabs, !pf_P in E. cbn in E. unfold Rltb in E. destruct (Rlt_dec _ _); [assumption|discriminate].
  Qed.

  (* an exact root is returned unchanged (fixed point of the Newton map and of improve) *)
  Lemma improve_root_fixed fuel vp : P a3 a2 a1 a0 vp = 0 -> imp fuel vp = vp.
  Proof.
    intros H0. destruct (improve_same_or_better fuel vp) as [E|E]; [exact E|].
    rewrite H0, Rabs_R0 in E. pose proof (Rabs_pos (P a3 a2 a1 a0 (imp fuel vp))). lra.
  Qed.

  (* improve is idempotent on its own output only in the weak sense that a second call cannot do worse than the first;
     and a value that no Newton iterate improves strictly is a fixed point *)
  Lemma improve_fixed_if_minimal fuel vp :
    (forall x, Rabs (P a3 a2 a1 a0 vp) <= Rabs (P a3 a2 a1 a0 x)) -> imp fuel vp = vp.
  Proof.
    intros H. destruct (improve_same_or_better fuel vp) as [E|E]; [exact E|]. specialize (H (imp fuel vp)). lra.
  Qed.

  (* the loop performs at most `fuel` Newton updates: its result is one of the first fuel+1 iterates (termination is
     structural); stated as: with no fuel the candidate is the starting point *)
  Lemma newton_no_fuel prec x x1 : newton (Rops emin eps) a3 a2 a1 a0 0 prec x x1 = Some x.
  Proof. cbn. destruct (Rltb prec _); reflexivity. Qed.
End Reals.

(* C10 -- branch lemma: one real root (Cardano), nearly double root accepted as three *)
From Coq Require Import Reals List Lra Lia Psatz.
From VLib Require Import RealExtra.
From C10 Require Import C10Spec C10_gen C10Base.
Import ListNotations.
Local Open Scope R_scope.

(* near-double root accepted as "three roots" in the Cardano branch *)
Lemma near_double_bound U V e : 0 <= e -> 100 * e <= etol -> Rabs (U - V) < 100 * Rabs (U + V) * e ->
  Rabs (- (9 / 8) * ((U + V) * ((U - V) * (U - V)))) <= 9 * (etol * etol) * (Rabs (- (U + V) / 2) * Rabs (- (U + V) / 2) * Rabs (- (U + V) / 2)).
Proof.
  intros He Het H.
  replace (- (U + V) / 2) with ((U + V) * (- / 2)) by field.
  rewrite !Rabs_mult. rewrite (Rabs_left (- / 2)) by lra. rewrite (Rabs_left (- (9 / 8))) by lra.
  set (a := Rabs (U + V)) in *. set (b := Rabs (U - V)) in *.
  assert (0 <= a) by apply Rabs_pos. assert (0 <= b) by apply Rabs_pos.
  assert (Hb : b <= etol * a) by nra.
  assert (0 < etol) by (unfold etol; apply Rinv_0_lt_compat; apply pow_lt; lra).
  assert (Hbb : b * b <= (etol * a) * (etol * a)) by (apply Rmult_le_compat; lra).
  assert (a * (b * b) <= a * ((etol * a) * (etol * a))) by (apply Rmult_le_compat_l; lra).
  lra.
Qed.

Lemma one_real_root a3 a2 a1 a0 : tol <= Rabs a3 -> tol <= Rabs (dp a3 a2 a1) -> tol <= Rabs (dq a3 a2 a1 a0) ->
  disc (dp a3 a2 a1) (dq a3 a2 a1 a0) < 0 ->
  exists nb x1 x2, result (find_roots_gen a3 a2 a1 a0) nb x1 x2 x2 /\ (nb = 1 \/ nb = 3) /\ single_root a3 a2 a1 a0 x1 x2 /\
    (nb = 3 -> approx_root a3 a2 a1 a0 x2).
Proof.
  intros H3 Hp Hq Hd. start a3 a2 a1 a0 p q Ha.
  canon_sqrt (- disc p q / 27) ltac:(unfold disc, p, q, dp, dq; field; nz).
  canon_cbrt ((- q + sqrt (- disc p q / 27)) / 2) ltac:(unfold q, dq; field; nz).
  canon_cbrt ((- q - sqrt (- disc p q / 27)) / 2) ltac:(unfold q, dq; field; nz).
  destruct (cardano_roots p q Hd) as [Hw Hf]. cbv zeta in Hw, Hf.
  set (U := Rcbrt ((- q + sqrt (- disc p q / 27)) / 2)) in *.
  set (V := Rcbrt ((- q - sqrt (- disc p q / 27)) / 2)) in *.
  assert (Hsr : forall x1 x2, x1 = U + V - sh a3 a2 -> x2 = - (U + V) / 2 - sh a3 a2 -> single_root a3 a2 a1 a0 x1 x2).
  { intros x1 x2 E1 E2. exists (3 / 4 * ((U - V) * (U - V))). split; [assumption|]. intro y. rewrite depress by assumption. fold p q.
    rewrite Hf, E1, E2. ring. }
  unfold tol in *.
  repeat (split_test; try (exfalso; lra)).
  - do 3 eexists; split; [reflexivity|]. split; [right; reflexivity|]. split.
    + apply Hsr; unfold sh; field; nz.
    + intros _. unfold approx_root, slack. cbv zeta. rewrite depress by assumption. fold p q.
      match goal with |- context [D p q ?Y] => replace Y with (- (U + V) / 2) by (unfold sh; field; nz) end.
      rewrite Hf.
      rewrite Rabs_mult. apply Rmult_le_compat_l; [apply Rabs_pos|].
      match goal with Hc : Rabs (U - V) < 100 * Rabs (U + V) * ?e |- _ =>
        pose proof (near_double_bound U V e ltac:(lra) ltac:(unfold etol; lra) Hc) as Hb end.
      replace ((- (U + V) / 2 - (U + V)) * ((- (U + V) / 2 - - (U + V) / 2) * (- (U + V) / 2 - - (U + V) / 2) + 3 / 4 * ((U - V) * (U - V))))
        with (- (9 / 8) * ((U + V) * ((U - V) * (U - V)))) by field.
      assert (0 <= stol * (1 + Rabs (- (U + V) / 2) + Rabs q / Rabs (p * p * p))).
      { apply Rmult_le_pos. unfold stol. left. apply Rinv_0_lt_compat; apply pow_lt; lra.
        assert (0 <= Rabs q / Rabs (p * p * p)). { unfold Rdiv. apply Rmult_le_pos. apply Rabs_pos. 
          destruct (Req_dec (p * p * p) 0) as [E|E]. rewrite E, Rabs_R0, Rinv_0. lra. left. apply Rinv_0_lt_compat. apply Rabs_pos_lt. auto. }
        pose proof (Rabs_pos (- (U + V) / 2)). lra. }
      lra.
  - do 3 eexists; split; [reflexivity|]. split; [left; reflexivity|]. split.
    + apply Hsr; unfold sh; field; nz.
    + intros E. exfalso. lra.
Qed.

(* C10 -- branch lemmas: exact degenerate forms q = 0 and disc = 0 *)
From Coq Require Import Reals List Lra Lia Psatz.
From VLib Require Import RealExtra.
From C10 Require Import C10Spec C10_gen C10Base.
Import ListNotations.
Local Open Scope R_scope.

(* q = 0: roots 0, +-sqrt(-p) of the depressed form *)
Lemma q_zero a3 a2 a1 a0 : tol <= Rabs a3 -> tol <= Rabs (dp a3 a2 a1) -> dq a3 a2 a1 a0 = 0 ->
  exists nb x1 x2 x3, result (find_roots_gen a3 a2 a1 a0) nb x1 x2 x3 /\
   ((0 < dp a3 a2 a1 /\ nb = 1 /\ single_root a3 a2 a1 a0 x1 x2 /\ x3 = x2) \/
    (dp a3 a2 a1 < 0 /\ nb = 3 /\ three_roots a3 a2 a1 a0 x1 x2 x3)).
Proof.
  intros H3 Hp Hq. start a3 a2 a1 a0 p q Ha.
  canon_0lt p ltac:(unfold p, dp; field; nz).
  canon_sqrt (- p) ltac:(unfold p, dp; field; nz).
  rewrite !Hq. rewrite !Rabs_R0. pose proof tol_pos. unfold tol in *.
  repeat (split_test; try (exfalso; lra)).
  - do 4 eexists; split; [reflexivity|]. left. repeat split; auto.
    exists p. split; [assumption|]. intro y. rewrite depress by assumption. fold p q. rewrite Hq. unfold D, sh. field. nz.
  - assert (Hneg : p < 0) by (abs_cases p; lra).
    do 4 eexists; split; [reflexivity|]. right. repeat split; auto.
    intro y. rewrite depress by assumption. fold p q. rewrite Hq.
    assert (Hs : sqrt (- p) * sqrt (- p) = - p) by (apply sqrt_sqrt; lra).
    set (s := sqrt (- p)) in *. assert (Ep : p = - (s * s)) by lra. rewrite Ep. unfold D, sh. field. nz.
Qed.

(* disc = 0 (p, q <> 0): simple root 3q/p and double root -3q/(2p) *)
Lemma double_root_id p q Y : p <> 0 ->
  D p q Y = (Y - 3 * q / p) * (Y - - (3 * q / p) / 2) * (Y - - (3 * q / p) / 2) - disc p q / (4 * (p * p)) * (Y + q / p).
Proof. intros. unfold D, disc. field. assumption. Qed.

Lemma double_root a3 a2 a1 a0 : tol <= Rabs a3 -> tol <= Rabs (dp a3 a2 a1) -> tol <= Rabs (dq a3 a2 a1 a0) ->
  disc (dp a3 a2 a1) (dq a3 a2 a1 a0) = 0 ->
  exists x1 x2, result (find_roots_gen a3 a2 a1 a0) 3 x1 x2 x2 /\ three_roots a3 a2 a1 a0 x1 x2 x2.
Proof.
  intros H3 Hp Hq Hd. start a3 a2 a1 a0 p q Ha.
  rewrite !Hd. rewrite !Rabs_R0. pose proof tol_pos. unfold tol in *.
  repeat (split_test; try (exfalso; lra)).
  assert (Hpz : p <> 0) by (intros E; rewrite E, Rabs_R0 in Hp; lra).
  do 2 eexists; split; [reflexivity|].
  intro y. rewrite depress by assumption. fold p q. rewrite (double_root_id p q _ Hpz), Hd.
  unfold sh.
  match goal with |- context [3 * ?Q / ?PP] => replace Q with q by (unfold q, dq; field; nz); replace PP with p by (unfold p, dp; field; nz) end.
  field. nz.
Qed.


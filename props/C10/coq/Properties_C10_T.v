(* C10 -- property theorems, second part (statements only): residual bounds in the branches taken when |p|, |q| or the
   discriminant are below the threshold of the code (prec_code = 100*DBL_MIN) without being zero -- over the decision tree
   regenerated from /repo -- and the complete Newton loop of CubicRoots::improve (hand-written model C10Improve.v, tied to the
   real improve<double> by bit-exact execution on primitive floats). *)
From Coq Require Import Reals List.
From C10 Require Import C10Spec C10_gen C10ProofsTp C10ProofsTq C10ProofsTd C10Improve C10ImproveProofs C10Scale.
Import ListNotations.
Local Open Scope R_scope.

(* |p| < prec.  If |cbrt q| < prec too: -h three times, count 3, |P| <= |a3| prec^3.  Else count 1 and the value presented
   as the real root (x1 when q > 0, x3 otherwise), x = -h - cbrt(q), has |P(x)| <= |a3| prec |x + h| *)
Theorem C10_threshold_p : forall a3 a2 a1 a0, tol <= Rabs a3 -> Rabs (dp a3 a2 a1) < prec_code ->
  exists nb x1 x2 x3, result (find_roots_gen a3 a2 a1 a0) nb x1 x2 x3 /\
   ((nb = 3 /\ x2 = x1 /\ x3 = x1 /\ Rabs (P a3 a2 a1 a0 x1) <= Rabs a3 * (prec_code * prec_code * prec_code)) \/
    (nb = 1 /\ (Rabs (P a3 a2 a1 a0 x1) <= Rabs a3 * (prec_code * Rabs (x1 + sh a3 a2)) \/
                Rabs (P a3 a2 a1 a0 x3) <= Rabs a3 * (prec_code * Rabs (x3 + sh a3 a2))))).
Proof. exact thr_p. Qed.
Print Assumptions C10_threshold_p.

(* |p| >= prec, |q| < prec: count 1 (p > 0) or 3 (p < 0) as for q = 0, every value presented as a root has |P| <= |a3| prec *)
Theorem C10_threshold_q : forall a3 a2 a1 a0,
  tol <= Rabs a3 -> prec_code <= Rabs (dp a3 a2 a1) -> Rabs (dq a3 a2 a1 a0) < prec_code ->
  exists nb x1 x2 x3, result (find_roots_gen a3 a2 a1 a0) nb x1 x2 x3 /\
   Rabs (P a3 a2 a1 a0 x1) <= Rabs a3 * prec_code /\
   ((nb = 1 /\ 0 < dp a3 a2 a1) \/
    (nb = 3 /\ dp a3 a2 a1 < 0 /\ Rabs (P a3 a2 a1 a0 x2) <= Rabs a3 * prec_code /\ Rabs (P a3 a2 a1 a0 x3) <= Rabs a3 * prec_code)).
Proof. exact thr_q. Qed.
Print Assumptions C10_threshold_q.

(* |p|, |q| >= prec and 0 <= disc < prec (double-root formulas 3q/p - h, -3q/(2p) - h): count 3 and every value has
   P(x)^2 <= a3^2 (16/27) prec, i.e. |P(x)| <= 0.77 |a3| sqrt(prec) = 1.2e-153 |a3|.  The bound is ABSOLUTE: for |p|^3 << prec
   (roots below about 1e-51) every cubic with three real roots takes this branch and the residual is then of the order of the
   terms of the polynomial -- see NOTES.md, scale finding *)
Theorem C10_threshold_disc : forall a3 a2 a1 a0,
  tol <= Rabs a3 -> prec_code <= Rabs (dp a3 a2 a1) -> prec_code <= Rabs (dq a3 a2 a1 a0) ->
  0 <= disc (dp a3 a2 a1) (dq a3 a2 a1 a0) -> disc (dp a3 a2 a1) (dq a3 a2 a1 a0) < prec_code ->
  exists x1 x2, result (find_roots_gen a3 a2 a1 a0) 3 x1 x2 x2 /\
   P a3 a2 a1 a0 x1 * P a3 a2 a1 a0 x1 <= a3 * a3 * (16 / 27 * prec_code) /\
   P a3 a2 a1 a0 x2 * P a3 a2 a1 a0 x2 <= a3 * a3 * (16 / 27 * prec_code).
Proof. exact thr_disc. Qed.
Print Assumptions C10_threshold_disc.

(* CubicRoots::improve, complete loop: whatever the iteration bound (the code: 50), the thresholds emin/eps, the
   coefficients and the starting value, the value left in vp never has a larger residual *)
Theorem C10_improve_never_worse_any_fuel : forall emin eps a3 a2 a1 a0 fuel vp,
  Rabs (P a3 a2 a1 a0 (improve_fuel (Rops emin eps) a3 a2 a1 a0 fuel vp)) <= Rabs (P a3 a2 a1 a0 vp).
Proof. exact improve_never_worse. Qed.
Print Assumptions C10_improve_never_worse_any_fuel.

(* ... it is vp itself or strictly better *)
Theorem C10_improve_same_or_better : forall emin eps a3 a2 a1 a0 fuel vp,
  improve_fuel (Rops emin eps) a3 a2 a1 a0 fuel vp = vp \/
  Rabs (P a3 a2 a1 a0 (improve_fuel (Rops emin eps) a3 a2 a1 a0 fuel vp)) < Rabs (P a3 a2 a1 a0 vp).
Proof. exact improve_same_or_better. Qed.
Print Assumptions C10_improve_same_or_better.

(* ... an exact root (fixed point of the Newton map) is returned unchanged, and so is any value whose residual no real
   number improves *)
Theorem C10_improve_fixed_point : forall emin eps a3 a2 a1 a0 fuel vp,
  (P a3 a2 a1 a0 vp = 0 \/ (forall x, Rabs (P a3 a2 a1 a0 vp) <= Rabs (P a3 a2 a1 a0 x))) ->
  improve_fuel (Rops emin eps) a3 a2 a1 a0 fuel vp = vp.
Proof.
  intros emin eps a3 a2 a1 a0 fuel vp [H|H]; [exact (improve_root_fixed _ _ _ _ _ _ _ _ H) | exact (improve_fixed_if_minimal _ _ _ _ _ _ _ _ H)].
Qed.
Print Assumptions C10_improve_fixed_point.

(* ... for every table of scalar operations (every rounding): the value left in vp is vp itself or passed the code's own
   final guard |f(x)| < |f(vp)| evaluated with those operations *)
Theorem C10_improve_guard_any_arithmetic : forall (F : Type) (o : iops F) a3 a2 a1 a0 fuel vp,
  improve_fuel o a3 a2 a1 a0 fuel vp = vp \/
  iltb o (iabs o (pf o a3 a2 a1 a0 (improve_fuel o a3 a2 a1 a0 fuel vp))) (iabs o (pf o a3 a2 a1 a0 vp)) = true.
Proof. exact @improve_fuel_guard. Qed.
Print Assumptions C10_improve_guard_any_arithmetic.

(* change of unknown x = s z (rescaling wrapper of props/C10/fix_rescale.diff, s a power of two): the roots of
   a3 z^3 + (a2/s) z^2 + (a1/s^2) z + a0/s^3 multiplied by s are the roots of the cubic, with the same multiplicities and count *)
Theorem C10_rescaling_transfers_roots : forall a3 a2 a1 a0 s, s <> 0 ->
  (forall z1 z2 z3, three_roots a3 (a2 / s) (a1 / (s * s)) (a0 / (s * s * s)) z1 z2 z3 -> three_roots a3 a2 a1 a0 (s * z1) (s * z2) (s * z3)) /\
  (forall z r, single_root a3 (a2 / s) (a1 / (s * s)) (a0 / (s * s * s)) z r -> single_root a3 a2 a1 a0 (s * z) (s * r)) /\
  (forall z, Rabs (P a3 a2 a1 a0 (s * z)) = Rabs s * Rabs s * Rabs s * Rabs (P a3 (a2 / s) (a1 / (s * s)) (a0 / (s * s * s)) z)).
Proof.
  intros a3 a2 a1 a0 s Hs. split; [|split].
  - intros z1 z2 z3. exact (three_roots_scale a3 a2 a1 a0 s z1 z2 z3 Hs).
  - intros z r. exact (single_root_scale a3 a2 a1 a0 s z r Hs).
  - intros z. exact (residual_scale a3 a2 a1 a0 s z Hs).
Qed.
Print Assumptions C10_rescaling_transfers_roots.

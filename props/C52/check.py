"""C52 -- tfel-check verdicts are independent of parallelism.
Engine H: Gallina model of TFELCheck::execute (tasks popped in submission order, block appended to the log in one atomic
step under log_synchronization, exit status from the futures); proved for every schedule: the log is always a
concatenation of whole blocks of distinct checks, complete once all checks returned, exit status independent of the
order.  Tie: the REAL tfel-check is rebuilt from the working tree (tfel-check.cxx, TFELCheck sources, ThreadPool,
ProcessManager, SignalManager) with link-time wrappers logging the operations on log_synchronization and on the pool's
mutex; every run (-j 1..16, seeded delays, random command durations) is translated to Start/Append/Finish events and
fed to the extracted acceptor; tfel-check.log and the exit status are re-checked independently and compared with the
-j 1 run."""
import glob, os, re, shutil, struct, threading, time
from concurrent.futures import ThreadPoolExecutor
from vlib import guarded_main, REPO, REPO_BUILD, CACHE, FileLock

CHECK_SRC = ["AbsoluteComparison", "AreaComparison", "Column", "Comparison", "Configuration", "ConfigurationManager", "Interpolation",
             "LinearInterpolation", "Linearization", "MixedComparison", "NoInterpolation", "PCILogDriver", "PCJUnitDriver", "PCLogger",
             "PCTextDriver", "RelativeAndAbsoluteComparison", "RelativeComparison", "SplineInterpolation", "SplineLocalInterpolation",
             "Test", "TestLauncher", "tfel-check"]
REPO_SOURCES = ["tfel-check/src/%s.cxx" % s for s in CHECK_SRC] + [
    "src/System/ThreadPool.cxx", "src/System/ThreadedTaskResult.cxx", "src/System/ProcessManager.cxx", "src/System/ProcessManager-c.c",
    "src/System/SignalManager.cxx", "src/System/SignalHandler.cxx"]
LIBS = ["-Wl,--wrap=pthread_mutex_lock", "-Wl,--wrap=pthread_mutex_unlock", "-Wl,--wrap=waitpid", "-Wl,--wrap=sigaction", "-Wl,--wrap=fork",
        "-Wl,--wrap=_ZN4tfel6system13SignalManager15registerHandlerEiPNS0_13SignalHandlerER9sigaction",
        "-Wl,--wrap=_ZN4tfel6system13SignalManager13removeHandlerEm",
        "-lTFELMFront", "-lMFrontLogStream", "-lTFELMaterial", "-lTFELMathParser", "-lTFELMathCubicSpline", "-lTFELGlossary",
        "-lTFELUnicodeSupport", "-lTFELNUMODIS", "-lTFELMath", "-lTFELUtilities", "-lTFELSystem", "-lTFELConfig", "-lTFELException"]
MODEL = ["C52Spec.v", "C52Model.v"]
EXTRACT = """From Coq Require Import ExtrOcamlBasic.
From C52 Require Import C52Spec C52Model.
Extraction "c52_model.ml" step_fn init.
"""
ANSI = re.compile(r"\x1b\[[0-9;]*m")
KINDS = ["LOGLOCK", "LOGUNLOCK", "POOLLOCK", "POOLUNLOCK", "WAITFAIL", "SELFLOCK", "HEXEC_BEGIN", "HEXEC_END", "HEXEC_DELETED", "HDELETE",
         "REG_RET", "REM_CALL", "REM_RET", "SIG_ENTER", "SIG_RETURN", "SIG_DEFERRED", "CUNLOCK_IN_HANDLER"]


def parse_bin(path):
    """the mmap'ed log of the driver ($C52_TRACE): [(tid, kind, a)]; it survives a crash"""
    evs = []
    try:
        data = open(path, "rb").read()
    except OSError:
        return evs
    if len(data) < 16:
        return evs
    n = struct.unpack_from("q", data, 0)[0]
    for i in range(max(0, min(n, (len(data) - 16) // 16))):
        tid, kind, a = struct.unpack_from("iiq", data, 16 + 16 * i)
        if 0 < kind <= len(KINDS):
            evs.append((tid, KINDS[kind - 1], a))
    return evs


def private_libs(c):
    """copy the TFEL shared libraries of the build tree to the scratch directory, while no build of /repo/_build started
    through vlib is running: a run of the rebuilt tfel-check is then independent of a concurrent relink of those
    libraries (the dynamic loader leaves with status 127 when one of them is missing or half written)"""
    dst = os.path.join(c.work, "libs")
    os.makedirs(dst, exist_ok=True)
    with FileLock(os.path.join(CACHE, "repo_build.lock")):
        for root, _d, files in os.walk(REPO_BUILD):
            for f in files:
                if re.match(r"lib(TFEL|MFrontLogStream).*\.so", f) and not os.path.exists(os.path.join(dst, f)):
                    src = os.path.join(root, f)
                    if os.path.islink(src):
                        os.symlink(os.readlink(src), os.path.join(dst, f))
                    else:
                        try:
                            os.link(src, os.path.join(dst, f))   # a relink replaces the file, it does not rewrite it
                        except OSError:
                            shutil.copy2(src, os.path.join(dst, f))
    return dst


def gen(rng, n):
    checks = []
    for _ in range(n):
        cmds = []
        for _ in range(rng.randint(1, 3)):
            r = rng.random()
            cmds.append("false" if r < 0.15 else ("true" if r < 0.5 else "sleep 0.0%d" % rng.randint(0, 4)))
        checks.append(cmds)
    return checks


def parse_log(txt):
    """-> (list of (name, verdict, lines) in log order, list of structural problems)"""
    blocks, bad, cur = [], [], None
    for raw in txt.split("\n"):
        l = ANSI.sub("", raw).rstrip()
        if not l:
            continue
        if l.startswith("entering directory"):
            if cur is not None:
                bad.append("a block starts inside the block of %s" % cur["name"])
            cur = {"name": None, "lines": [l], "verdict": None}
        elif cur is None:
            bad.append("line outside any block: %r" % l[:80])
        else:
            cur["lines"].append(l)
            m = re.match(r"\* beginning of test '(.*)'", l)
            if m:
                if cur["name"] is not None:
                    bad.append("two test beginnings in one block (%s, %s)" % (cur["name"], m.group(1)))
                cur["name"] = m.group(1)
            m = re.match(r"\* end of test '(.*)'\s+\[\s*(SUCCESS|FAILED)\]", l)
            if m:
                if m.group(1) != cur["name"]:
                    bad.append("block of %s ends with the end line of %s" % (cur["name"], m.group(1)))
                cur["verdict"] = m.group(2) == "SUCCESS"
            if l == "======":
                blocks.append(cur)
                cur = None
    if cur is not None:
        bad.append("unterminated block of %s" % cur["name"])
    return blocks, bad


def translate(evs, n):
    per = {}
    waitfail = 0
    for pos, (tid, kind, a) in enumerate(evs):
        if kind == "WAITFAIL":
            waitfail += 1
        if tid == 0:
            continue
        per.setdefault(tid, []).append((pos, kind))
    pops = []   # (unlock pos, tid, index of the section among this thread's pool sections)
    secs = {}
    for tid, l in per.items():
        s = [p for (p, k) in l if k == "POOLUNLOCK"]
        secs[tid] = s
        for j in range(0, len(s), 2):
            pops.append((s[j], tid, j))
    pops.sort()
    out = []
    task_of = {}
    for i, (p, tid, j) in enumerate(pops[:n]):
        task_of[(tid, j)] = i
        out.append((p, "S %d" % i))
    for tid, l in per.items():
        s = secs[tid]
        for j in range(0, len(s), 2):
            i = task_of.get((tid, j))
            if i is None:
                continue
            lo = s[j]
            hi = s[j + 1] if j + 1 < len(s) else float("inf")
            for (p, k) in l:
                if k == "LOGUNLOCK" and lo < p < hi:
                    out.append((p, "A %d" % i))
            if j + 1 < len(s):
                out.append((s[j + 1], "F %d" % i))
    out.sort()
    return [x[1] for x in out], waitfail, len(evs)


def show(evs, lo, hi):
    return ["%d: thread %d %s %d" % (i, e[0], e[1], e[2]) for i, e in enumerate(evs) if lo <= i <= hi]


def f19_evidence(evs):
    """-> (position, text) of the first call of a handler that removeHandler has deleted, or of a handler body still
    running when removeHandler(its id) returned in another thread (the manager is destroyed right after)"""
    ser_of = {}
    for (tid, kind, a) in evs:
        if kind == "REG_RET":
            ser_of[a // 1000000] = a % 1000000
    running = {}   # serial -> tid
    for pos, (tid, kind, a) in enumerate(evs):
        if kind == "HEXEC_DELETED":
            return pos, "thread %d, inside SignalManager::treatAction, calls handler (serial %d) which removeHandler has already deleted" % (tid, a)
        if kind == "HEXEC_BEGIN":
            running[a] = tid
        elif kind == "HEXEC_END":
            running.pop(a, None)
        elif kind == "HDELETE" and a in running and running[a] != tid:
            return pos, "thread %d deletes handler (serial %d) inside removeHandler while thread %d is running it" % (tid, a, running[a])
        elif kind == "REM_RET" and ser_of.get(a) in running and running[ser_of[a]] != tid:
            return pos, "removeHandler(%d) returns in thread %d while thread %d is still running that handler" % (a, tid, running[ser_of[a]])
    return None


def main(c):
    libdir = private_libs(c)
    exe = c.cxx("tfelcheck", ["driver.cxx"], REPO_SOURCES, flags=["-Dmain=tfel_check_real_main", '-DVERSION="verif"'],
                libs=LIBS + ["-L" + libdir, "-Wl,-rpath," + libdir])
    c.log("tfel-check rebuilt from the working tree with the wrappers")
    acc = c.ocaml_extract("c52", MODEL, EXTRACT, "acceptor.ml")
    c.log("acceptor extracted")
    c.trusted("link-time wrappers of pthread_mutex_lock/unlock, waitpid, fork, sigaction, SignalManager::registerHandler/removeHandler and of the malloc family "
              "in props/C52/driver.cxx; recognition of the pool mutex as the first mutex locked by a non-main thread",
              "the TFEL libraries other than TFELCheck/ThreadPool/ProcessManager/SignalManager are taken from /repo/_build (hard links / copies made while no "
              "vlib build is running)",
              "python translation of the mutex log to Start/Append/Finish (tasks are popped in submission order: C29) and the parser of tfel-check.log",
              "commands `true`, `false`, `sleep` as ground truth of each check")
    if c.replay:
        r = c.replay["replay"]
        scen = [(r.get("scenario_name", "replay"), r["checks"], r["jobs"], r["seed"], r["perturb"], r.get("widen", 0))]
    else:
        scen = []
        for i in range(c.pick(10, 60)):
            n = c.rng.randint(2, c.pick(10, 30))
            scen.append(("s%d" % i, gen(c.rng, n), c.rng.choice([2, 2, 3, 4, 8, 16]), c.rng.randrange(1, 1 << 30), c.rng.choice([0, 30, 60]), 0))
        # many short commands, 4 workers, and a pause of the thread that has just copied the handlers in the signal handler:
        # the schedule of defect F19 (one ProcessManager per command, destroyed while another thread is in treatAction)
        for i in range(c.pick(1, 4)):
            scen.append(("lifetime%d" % i, [["true", "true", "true"] for _ in range(16)], 4, c.rng.randrange(1, 1 << 30), 0, 3000))
    results = {}
    lock = threading.Lock()

    def run_tfel_check(d, checks, jobs, seed, perturb, widen):
        for attempt in range(3):
            shutil.rmtree(d, ignore_errors=True)
            os.makedirs(d)
            args = []
            for k, cmds in enumerate(checks):
                os.makedirs(os.path.join(d, "t%d" % k))
                with open(os.path.join(d, "t%d" % k, "a.check"), "w") as f:
                    f.write("".join('@Command "%s";\n' % x for x in cmds))
                args.append("t%d/a.check" % k)
            env = {"C52_TRACE": os.path.join(d, "trace.bin"), "C52_SEED": str(seed), "C52_PERTURB": str(perturb), "C52_WATCHDOG": "40",
                   "C52_WIDEN": str(widen), "LD_LIBRARY_PATH": libdir}
            rc, out, err = c.run([exe, "-j", str(jobs)] + args, cwd=d, env=env, timeout=300)
            if rc == 127 and ("error while loading shared libraries" in err or "symbol lookup error" in err):
                time.sleep(2)   # the dynamic loader could not load a library: nothing of tfel-check has run
                continue
            break
        log = open(os.path.join(d, "tfel-check.log"), errors="replace").read() if os.path.exists(os.path.join(d, "tfel-check.log")) else ""
        evs = parse_bin(env["C52_TRACE"])
        try:
            os.remove(env["C52_TRACE"])
        except OSError:
            pass
        if rc == 97 and os.path.exists(env["C52_TRACE"] + ".hang"):
            err = "HANG\n" + open(env["C52_TRACE"] + ".hang", errors="replace").read()
        return rc, log, evs, err

    def run_one(ix):
        name, checks, jobs, seed, perturb, widen = scen[ix]
        d = os.path.join(c.work, "runs", name)
        par = run_tfel_check(os.path.join(d, "par"), checks, jobs, seed, perturb, widen)
        ref = run_tfel_check(os.path.join(d, "ref"), checks, 1, seed, 0, 0)
        with lock:
            results[ix] = (par, ref)

    with ThreadPoolExecutor(max_workers=2) as ex:
        list(ex.map(run_one, range(len(scen))))
    c.log("%d scenarios run (each with -j N and -j 1)" % len(scen))
    text = ""
    info = {}
    for ix, (name, checks, jobs, seed, perturb, widen) in enumerate(scen):
        n = len(checks)
        truth = [("false" not in cmds) for cmds in checks]
        for tag, (rc, log, evs, err) in (("par", results[ix][0]), ("ref", results[ix][1])):
            model, waitfail, nev = translate(evs, n)
            info[(ix, tag)] = (model, waitfail, nev)
            text += "T %d:%s %d %s\n%s\nEND\n" % (ix, tag, n, " ".join("1" if t else "0" for t in truth), "\n".join(model))
    rc, out, err = c.run([acc], input=text, timeout=600)
    verdicts = {}
    for l in out.splitlines():
        t = l.split(" ", 2)
        if len(t) >= 2 and t[0] in ("ACCEPT", "REJECT"):
            verdicts[t[1]] = (t[0], t[2] if len(t) > 2 else "")
    accepted = 0
    deferred = 0
    for ix, (name, checks, jobs, seed, perturb, widen) in enumerate(scen):
        n = len(checks)
        truth = [("false" not in cmds) for cmds in checks]
        names = ["t%d/a.check" % k for k in range(n)]
        blocks_by_tag = {}
        for tag in ("par", "ref"):
            rc, log, evs, err = results[ix][0 if tag == "par" else 1]
            model, waitfail, nev = info[(ix, tag)]
            j = jobs if tag == "par" else 1
            deferred += sum(1 for e in evs if e[1] == "SIG_DEFERRED")
            rep = {"scenario_name": name, "checks": checks, "jobs": jobs, "seed": seed, "perturb": perturb, "widen": widen, "run": tag, "exit_status": rc,
                   "tfel_check_log": log[:6000], "model_events": model[:400], "failed_blocking_waitpid_calls": waitfail,
                   "how": "props/C52 driver (tfel-check rebuilt from the tree) -j %d t0/a.check ... in a scratch directory" % j}
            c.count(1, (name, tag), j > 1 and n > j)
            if (ix * 2 + (tag == "ref")) % 9 == 0:
                c.sample({"scenario": name, "jobs": j, "checks": checks, "model_events_head": model[:18], "exit_status": rc})
            # ---- defects of the signal handling (C30: F19, F22), reported only with their evidence in the log of this run
            ev19 = f19_evidence(evs)
            if ev19 is not None:
                rep19 = dict(rep)
                rep19["log_before"] = show(evs, ev19[0] - 40, ev19[0])
                c.report("F19:tfel-check-crash", "tfel-check -j %d on scenario %s (%d checks): %s (SignalManager::treatAction calls the handlers it copied after "
                         "releasing callbacksAccess, while ~ProcessManager in another worker removes and deletes them)" % (j, name, n, ev19[1]), rep19, True)
            if rc == 96:
                which = [e[2] for e in evs if e[1] == "SELFLOCK"]
                rep["log_tail"] = show(evs, len(evs) - 40, len(evs))
                c.report("F22:tfel-check-deadlock", "tfel-check -j %d on scenario %s (%d checks): a thread locks %s, which it already holds: the signal handler "
                         "(treatAction -> sigChildHandler) interrupted the holder" % (j, name, n, "callbacksAccess" if which and which[0] == 1 else "processesAccess"),
                         rep, True)
                continue
            if rc in (97, 124):
                stacks = [l[:160] for l in err.splitlines() if l.startswith("#") or l.startswith("Thread")]
                rep["stacks_of_all_threads_after_40s"] = stacks[:160]
                rep["log_tail"] = show(evs, len(evs) - 40, len(evs))
                in_handler = sum(1 for l in stacks if "sigChildHandler" in l)
                alloc = [l for l in stacks if re.search(r"malloc|_int_free|__libc_free|operator new|operator delete|arena", l)]
                if alloc and any("<signal handler called>" in l for l in stacks) and any("treatAction" in l for l in stacks):
                    c.report("F24:allocation-in-signal-handler", "tfel-check -j %d did not finish on scenario %s: a thread is blocked in the memory allocator below "
                             "SignalManager::treatAction, called from the signal handler (the handlers allocate memory: not async-signal-safe)" % (j, name), rep, True)
                elif in_handler and any("<signal handler called>" in l for l in stacks) and not any("malloc" in l or "_int_free" in l for l in stacks):
                    c.report("F22:tfel-check-deadlock", "tfel-check -j %d did not finish on scenario %s (%d checks): %d threads are blocked in ProcessManager::sigChildHandler "
                             "(called from the SIGCHLD signal handler) on the non-recursive mutex processesAccess" % (j, name, n, in_handler), rep, True)
                else:
                    c.report("hang:%s:%s" % (name, tag), "tfel-check -j %d did not finish within 40 s on scenario %s" % (j, name), rep, True)
                continue
            if rc not in (0, 1):
                rep["log_tail"] = show(evs, len(evs) - 60, len(evs))
                rep["stderr"] = err[-1500:]
                if ev19 is None or rc not in (-11, -6):
                    c.report("crash:%s:%s" % (name, tag), "tfel-check -j %d ended with status %d on scenario %s: %s" % (j, rc, name, err[-300:]), rep, True)
                continue
            v = verdicts.get("%d:%s" % (ix, tag))
            order = None
            if v is None:
                c.report("acceptor:%s:%s" % (name, tag), "no verdict of the acceptor for scenario %s" % name, rep, False)
            elif v[0] == "REJECT":
                c.report("reject:%s:%s" % (name, tag), "the mutex trace of tfel-check -j %d on scenario %s is not a run of the model: %s" % (j, name, v[1]), rep, True)
            else:
                accepted += 1
                m = re.search(r"appended=([0-9,]*) finished=(\d+)", v[1])
                order = [int(x) for x in m.group(1).split(",") if x]
                if len(order) != n or int(m.group(2)) != n:
                    c.report("incomplete:%s:%s" % (name, tag), "scenario %s -j %d: only %d of %d checks appended their block under the log mutex / %s finished" % (
                        name, j, len(order), n, m.group(2)), rep, True)
            blocks, bad = parse_log(log)
            blocks_by_tag[tag] = blocks
            got = [b["name"] for b in blocks]
            if bad or sorted(got) != sorted(names):
                c.report("log:%s:%s" % (name, tag), "scenario %s -j %d: tfel-check.log is not one uninterleaved block per check: %s; blocks found: %s" % (
                    name, j, bad[:3], got), rep, True)
            elif order is not None and got != [names[i] for i in order]:
                c.report("logorder:%s:%s" % (name, tag), "scenario %s -j %d: order of the blocks in tfel-check.log %s differs from the order of the lock-protected appends %s" % (
                    name, j, got, [names[i] for i in order]), rep, True)
            wrong = [b["name"] for b in blocks if b["name"] in names and b["verdict"] != truth[names.index(b["name"])]]
            if wrong or (rc == 1) != (not all(truth)):
                what = "scenario %s -j %d: exit status %d with %d failing checks; checks with a wrong verdict in the log: %s" % (name, j, rc, truth.count(False), wrong)
                if waitfail:
                    c.report("F8:tfel-check-verdict", what + " (%d blocking waitpid calls of ProcessManager::wait failed in this run: defect F8 of C30)" % waitfail, rep, True)
                else:
                    c.report("verdict:%s:%s" % (name, tag), what, rep, True)
        if "par" in blocks_by_tag and "ref" in blocks_by_tag:
            norm = lambda bs: sorted((b["name"], b["verdict"], tuple(x for x in b["lines"] if not x.startswith("entering"))) for b in bs)
            if norm(blocks_by_tag["par"]) != norm(blocks_by_tag["ref"]) and not any(k[0].startswith(("F8", "log:", "verdict:")) for k in c.violations):
                if not (info[(ix, "par")][1] or info[(ix, "ref")][1]):
                    c.report("multiset:%s" % name, "scenario %s: the blocks of -j %d and -j 1 differ as multisets" % (name, jobs),
                             {"scenario_name": name, "checks": checks, "jobs": jobs, "seed": seed, "perturb": perturb, "widen": widen}, True)
    c.coverage["traces_validated_against_impl"] = accepted
    c.coverage["rule"] = ("seeded sets of 2-30 .check files with 1-3 commands each (true / false / sleep 0-40 ms), tfel-check -j 2..16 with seeded delays at "
                          "the log and pool mutexes, and the same set with -j 1; + `lifetime` sets (16 checks of three `true`, -j 4, pause after the handlers are "
                          "copied in the signal handler); one evaluation = one tfel-check run; non-trivial = more checks than jobs and jobs > 1")
    c.notes.append("no source hook needed; @Test comparisons are not part of the generated checks (commands only)")
    c.notes.append("SIGCHLD signals that arrived inside malloc/free and were re-sent after the allocation returned (hazard F24 of props/C30/NOTES.md, kept out of the runs): %d" % deferred)
    c.log("runs judged: %d accepted" % accepted)
    res = c.coq(MODEL + ["C52Proofs.v", "Properties_C52.v"], timeout=600)
    if not res.ok:
        c.coq_failures(res)


guarded_main("C52", main)

"""C52 -- tfel-check verdicts are independent of parallelism.
Engine H: Gallina model of TFELCheck::execute (tasks popped in submission order, block appended to the log in one atomic
step under log_synchronization, exit status from the futures); proved for every schedule: the log is always a
concatenation of whole blocks of distinct checks, complete once all checks returned, exit status independent of the
order.  Tie: the REAL tfel-check is rebuilt from the working tree (tfel-check.cxx, TFELCheck sources, ThreadPool,
ProcessManager, SignalManager) with link-time wrappers logging the operations on log_synchronization and on the pool's
mutex; every run (-j 1..16, seeded delays, random command durations) is translated to Start/Append/Finish events and
fed to the extracted acceptor; tfel-check.log and the exit status are re-checked independently and compared with the
-j 1 run."""
import glob, os, re, shutil, threading
from concurrent.futures import ThreadPoolExecutor
from vlib import guarded_main, REPO

CHECK_SRC = ["AbsoluteComparison", "AreaComparison", "Column", "Comparison", "Configuration", "ConfigurationManager", "Interpolation",
             "LinearInterpolation", "Linearization", "MixedComparison", "NoInterpolation", "PCILogDriver", "PCJUnitDriver", "PCLogger",
             "PCTextDriver", "RelativeAndAbsoluteComparison", "RelativeComparison", "SplineInterpolation", "SplineLocalInterpolation",
             "Test", "TestLauncher", "tfel-check"]
REPO_SOURCES = ["tfel-check/src/%s.cxx" % s for s in CHECK_SRC] + [
    "src/System/ThreadPool.cxx", "src/System/ThreadedTaskResult.cxx", "src/System/ProcessManager.cxx", "src/System/ProcessManager-c.c",
    "src/System/SignalManager.cxx", "src/System/SignalHandler.cxx"]
LIBS = ["-Wl,--wrap=pthread_mutex_lock", "-Wl,--wrap=pthread_mutex_unlock", "-Wl,--wrap=waitpid",
        "-lTFELMFront", "-lMFrontLogStream", "-lTFELMaterial", "-lTFELMathParser", "-lTFELMathCubicSpline", "-lTFELGlossary",
        "-lTFELUnicodeSupport", "-lTFELNUMODIS", "-lTFELMath", "-lTFELUtilities", "-lTFELSystem", "-lTFELConfig", "-lTFELException"]
MODEL = ["C52Spec.v", "C52Model.v"]
EXTRACT = """From Coq Require Import ExtrOcamlBasic.
From C52 Require Import C52Spec C52Model.
Extraction "c52_model.ml" step_fn init.
"""
ANSI = re.compile(r"\x1b\[[0-9;]*m")


def gen(rng, n):
    checks = []
    for _ in range(n):
        cmds = []
        for _ in range(rng.randint(1, 3)):
            r = rng.random()
            cmds.append("false" if r < 0.15 else ("true" if r < 0.5 else "sleep 0.0%d" % rng.randint(0, 4)))
        checks.append(cmds)
    return checks


def parse_log(txt):
    """-> (list of (name, verdict, lines) in log order, list of structural problems)"""
    blocks, bad, cur = [], [], None
    for raw in txt.split("\n"):
        l = ANSI.sub("", raw).rstrip()
        if not l:
            continue
        if l.startswith("entering directory"):
            if cur is not None:
                bad.append("a block starts inside the block of %s" % cur["name"])
            cur = {"name": None, "lines": [l], "verdict": None}
        elif cur is None:
            bad.append("line outside any block: %r" % l[:80])
        else:
            cur["lines"].append(l)
            m = re.match(r"\* beginning of test '(.*)'", l)
            if m:
                if cur["name"] is not None:
                    bad.append("two test beginnings in one block (%s, %s)" % (cur["name"], m.group(1)))
                cur["name"] = m.group(1)
            m = re.match(r"\* end of test '(.*)'\s+\[\s*(SUCCESS|FAILED)\]", l)
            if m:
                if m.group(1) != cur["name"]:
                    bad.append("block of %s ends with the end line of %s" % (cur["name"], m.group(1)))
                cur["verdict"] = m.group(2) == "SUCCESS"
            if l == "======":
                blocks.append(cur)
                cur = None
    if cur is not None:
        bad.append("unterminated block of %s" % cur["name"])
    return blocks, bad


def translate(trace, n):
    evs = []
    for l in trace.splitlines():
        t = l.split()
        if len(t) == 3:
            evs.append((int(t[0]), t[1], int(t[2])))
    per = {}
    waitfail = 0
    for pos, (tid, kind, a) in enumerate(evs):
        if kind == "WAITFAIL":
            waitfail += 1
        if tid == 0:
            continue
        per.setdefault(tid, []).append((pos, kind))
    pops = []   # (unlock pos, tid, index of the section among this thread's pool sections)
    secs = {}
    for tid, l in per.items():
        s = [p for (p, k) in l if k == "POOLUNLOCK"]
        secs[tid] = s
        for j in range(0, len(s), 2):
            pops.append((s[j], tid, j))
    pops.sort()
    out = []
    task_of = {}
    for i, (p, tid, j) in enumerate(pops[:n]):
        task_of[(tid, j)] = i
        out.append((p, "S %d" % i))
    for tid, l in per.items():
        s = secs[tid]
        for j in range(0, len(s), 2):
            i = task_of.get((tid, j))
            if i is None:
                continue
            lo = s[j]
            hi = s[j + 1] if j + 1 < len(s) else float("inf")
            for (p, k) in l:
                if k == "LOGUNLOCK" and lo < p < hi:
                    out.append((p, "A %d" % i))
            if j + 1 < len(s):
                out.append((s[j + 1], "F %d" % i))
    out.sort()
    return [x[1] for x in out], waitfail, len(evs)


def gdb_backtrace(c, exe, checks, jobs, seed, tries=6):
    d = os.path.join(c.work, "runs", "gdb")
    for i in range(tries):
        shutil.rmtree(d, ignore_errors=True)
        os.makedirs(d)
        args = []
        for k, cmds in enumerate(checks):
            os.makedirs(os.path.join(d, "t%d" % k))
            with open(os.path.join(d, "t%d" % k, "a.check"), "w") as f:
                f.write("".join('@Command "%s";\n' % x for x in cmds))
            args.append("t%d/a.check" % k)
        rc, out, err = c.run(["gdb", "-q", "-batch", "-ex", "handle SIGCHLD nostop noprint pass", "-ex", "run", "-ex", "bt 12", "-ex", "info threads",
                              "--args", exe, "-j", str(jobs)] + args, cwd=d, env={"C52_SEED": str(seed + i), "C52_PERTURB": "60"}, timeout=120)
        if "SIGSEGV" in out or "SIGABRT" in out:
            keep = [l[:200] for l in out.splitlines() if re.match(r"^(#\d+|\*? *\d+ +Thread|Thread .* received signal)", l)]
            return keep[:40]
    return "not reproduced under gdb in %d further runs" % tries


def main(c):
    exe = c.cxx("tfelcheck", ["driver.cxx"], REPO_SOURCES, flags=["-Dmain=tfel_check_real_main", '-DVERSION="verif"'], libs=LIBS, link_repo_libs=True)
    c.log("tfel-check rebuilt from the working tree with the wrappers")
    acc = c.ocaml_extract("c52", MODEL, EXTRACT, "acceptor.ml")
    c.log("acceptor extracted")
    c.trusted("link-time wrappers of pthread_mutex_lock/unlock and waitpid in props/C52/driver.cxx; recognition of the pool mutex as the first mutex locked by a non-main thread",
              "the TFEL libraries other than TFELCheck/ThreadPool/ProcessManager/SignalManager are taken from /repo/_build",
              "python translation of the mutex log to Start/Append/Finish (tasks are popped in submission order: C29) and the parser of tfel-check.log",
              "commands `true`, `false`, `sleep` as ground truth of each check")
    if c.replay:
        r = c.replay["replay"]
        scen = [(r.get("scenario_name", "replay"), r["checks"], r["jobs"], r["seed"], r["perturb"])]
    else:
        scen = []
        for i in range(c.pick(10, 60)):
            n = c.rng.randint(2, c.pick(10, 30))
            scen.append(("s%d" % i, gen(c.rng, n), c.rng.choice([2, 2, 3, 4, 8, 16]), c.rng.randrange(1, 1 << 30), c.rng.choice([0, 30, 60])))
    results = {}
    lock = threading.Lock()

    def run_tfel_check(d, checks, jobs, seed, perturb):
        shutil.rmtree(d, ignore_errors=True)
        os.makedirs(d)
        args = []
        for k, cmds in enumerate(checks):
            os.makedirs(os.path.join(d, "t%d" % k))
            with open(os.path.join(d, "t%d" % k, "a.check"), "w") as f:
                f.write("".join('@Command "%s";\n' % x for x in cmds))
            args.append("t%d/a.check" % k)
        env = {"C52_TRACE": os.path.join(d, "trace.txt"), "C52_SEED": str(seed), "C52_PERTURB": str(perturb), "C52_WATCHDOG": "40"}
        rc, out, err = c.run([exe, "-j", str(jobs)] + args, cwd=d, env=env, timeout=300)
        log = open(os.path.join(d, "tfel-check.log"), errors="replace").read() if os.path.exists(os.path.join(d, "tfel-check.log")) else ""
        trace = open(env["C52_TRACE"]).read() if os.path.exists(env["C52_TRACE"]) else ""
        if rc == 97 and os.path.exists(env["C52_TRACE"] + ".hang"):
            err = "HANG\n" + open(env["C52_TRACE"] + ".hang", errors="replace").read()
        return rc, log, trace, err

    def run_one(ix):
        name, checks, jobs, seed, perturb = scen[ix]
        d = os.path.join(c.work, "runs", name)
        par = run_tfel_check(os.path.join(d, "par"), checks, jobs, seed, perturb)
        ref = run_tfel_check(os.path.join(d, "ref"), checks, 1, seed, 0)
        with lock:
            results[ix] = (par, ref)

    with ThreadPoolExecutor(max_workers=2) as ex:
        list(ex.map(run_one, range(len(scen))))
    c.log("%d scenarios run (each with -j N and -j 1)" % len(scen))
    text = ""
    info = {}
    for ix, (name, checks, jobs, seed, perturb) in enumerate(scen):
        n = len(checks)
        truth = [("false" not in cmds) for cmds in checks]
        for tag, (rc, log, trace, err) in (("par", results[ix][0]), ("ref", results[ix][1])):
            model, waitfail, nev = translate(trace, n)
            info[(ix, tag)] = (model, waitfail, nev)
            text += "T %d:%s %d %s\n%s\nEND\n" % (ix, tag, n, " ".join("1" if t else "0" for t in truth), "\n".join(model))
    rc, out, err = c.run([acc], input=text, timeout=600)
    verdicts = {}
    for l in out.splitlines():
        t = l.split(" ", 2)
        if len(t) >= 2 and t[0] in ("ACCEPT", "REJECT"):
            verdicts[t[1]] = (t[0], t[2] if len(t) > 2 else "")
    accepted = 0
    for ix, (name, checks, jobs, seed, perturb) in enumerate(scen):
        n = len(checks)
        truth = [("false" not in cmds) for cmds in checks]
        names = ["t%d/a.check" % k for k in range(n)]
        blocks_by_tag = {}
        for tag in ("par", "ref"):
            rc, log, trace, err = results[ix][0 if tag == "par" else 1]
            model, waitfail, nev = info[(ix, tag)]
            j = jobs if tag == "par" else 1
            rep = {"scenario_name": name, "checks": checks, "jobs": jobs, "seed": seed, "perturb": perturb, "run": tag, "exit_status": rc,
                   "tfel_check_log": log[:6000], "model_events": model[:400], "failed_blocking_waitpid_calls": waitfail,
                   "how": "props/C52 driver (tfel-check rebuilt from the tree) -j %d t0/a.check ... in a scratch directory" % j}
            c.count(1, (name, tag), j > 1 and n > j)
            if (ix * 2 + (tag == "ref")) % 9 == 0:
                c.sample({"scenario": name, "jobs": j, "checks": checks, "model_events_head": model[:18], "exit_status": rc})
            if rc == 97 and err.startswith("HANG"):
                stacks = [l[:160] for l in err.splitlines() if l.startswith("#") or l.startswith("Thread")]
                rep["stacks_of_all_threads_after_40s"] = stacks[:120]
                in_handler = sum(1 for l in stacks if "sigChildHandler" in l)
                if in_handler and any("<signal handler called>" in l for l in stacks):
                    c.report("F22:tfel-check-deadlock", "tfel-check -j %d did not finish on scenario %s (%d checks): %d threads are blocked in ProcessManager::sigChildHandler "
                             "(called from the SIGCHLD signal handler) on the non-recursive mutex processesAccess" % (j, name, n, in_handler), rep, True)
                else:
                    c.report("hang:%s:%s" % (name, tag), "tfel-check -j %d did not finish within 40 s on scenario %s" % (j, name), rep, True)
                continue
            if rc not in (0, 1):
                if rc in (-11, -6) and j > 1:
                    # a crash of the multi-threaded run: SignalManager::treatAction calls handlers that another thread's
                    # ~ProcessManager -> removeHandler has deleted (F19; gdb: SIGSEGV in treatAction while another thread is in
                    # ~MemberSignalHandler).  Best effort: try to catch it again under gdb for the replay file.
                    rep["gdb"] = gdb_backtrace(c, exe, checks, jobs, seed) if shutil.which("gdb") else "gdb not available"
                    c.report("F19:tfel-check-crash", "tfel-check -j %d was killed by signal %d on scenario %s (%d checks): use of deleted signal handlers in "
                             "SignalManager::treatAction while another worker thread destroys its ProcessManager" % (j, -rc, name, n), rep, True)
                else:
                    c.report("crash:%s:%s" % (name, tag), "tfel-check -j %d ended with status %d on scenario %s: %s" % (j, rc, name, err[-300:]), rep, True)
                continue
            v = verdicts.get("%d:%s" % (ix, tag))
            order = None
            if v is None:
                c.report("acceptor:%s:%s" % (name, tag), "no verdict of the acceptor for scenario %s" % name, rep, False)
            elif v[0] == "REJECT":
                c.report("reject:%s:%s" % (name, tag), "the mutex trace of tfel-check -j %d on scenario %s is not a run of the model: %s" % (j, name, v[1]), rep, True)
            else:
                accepted += 1
                m = re.search(r"appended=([0-9,]*) finished=(\d+)", v[1])
                order = [int(x) for x in m.group(1).split(",") if x]
                if len(order) != n or int(m.group(2)) != n:
                    c.report("incomplete:%s:%s" % (name, tag), "scenario %s -j %d: only %d of %d checks appended their block under the log mutex / %s finished" % (
                        name, j, len(order), n, m.group(2)), rep, True)
            blocks, bad = parse_log(log)
            blocks_by_tag[tag] = blocks
            got = [b["name"] for b in blocks]
            if bad or sorted(got) != sorted(names):
                c.report("log:%s:%s" % (name, tag), "scenario %s -j %d: tfel-check.log is not one uninterleaved block per check: %s; blocks found: %s" % (
                    name, j, bad[:3], got), rep, True)
            elif order is not None and got != [names[i] for i in order]:
                c.report("logorder:%s:%s" % (name, tag), "scenario %s -j %d: order of the blocks in tfel-check.log %s differs from the order of the lock-protected appends %s" % (
                    name, j, got, [names[i] for i in order]), rep, True)
            wrong = [b["name"] for b in blocks if b["name"] in names and b["verdict"] != truth[names.index(b["name"])]]
            if wrong or (rc == 1) != (not all(truth)):
                what = "scenario %s -j %d: exit status %d with %d failing checks; checks with a wrong verdict in the log: %s" % (name, j, rc, truth.count(False), wrong)
                if waitfail:
                    c.report("F8:tfel-check-verdict", what + " (%d blocking waitpid calls of ProcessManager::wait failed in this run: defect F8 of C30)" % waitfail, rep, True)
                else:
                    c.report("verdict:%s:%s" % (name, tag), what, rep, True)
        if "par" in blocks_by_tag and "ref" in blocks_by_tag:
            norm = lambda bs: sorted((b["name"], b["verdict"], tuple(x for x in b["lines"] if not x.startswith("entering"))) for b in bs)
            if norm(blocks_by_tag["par"]) != norm(blocks_by_tag["ref"]) and not any(k[0].startswith(("F8", "log:", "verdict:")) for k in c.violations):
                if not (info[(ix, "par")][1] or info[(ix, "ref")][1]):
                    c.report("multiset:%s" % name, "scenario %s: the blocks of -j %d and -j 1 differ as multisets" % (name, jobs),
                             {"scenario_name": name, "checks": checks, "jobs": jobs, "seed": seed, "perturb": perturb}, True)
    c.coverage["traces_validated_against_impl"] = accepted
    c.coverage["rule"] = ("seeded sets of 2-30 .check files with 1-3 commands each (true / false / sleep 0-40 ms), tfel-check -j 2..16 with seeded delays at "
                          "the log and pool mutexes, and the same set with -j 1; one evaluation = one tfel-check run; non-trivial = more checks than jobs and jobs > 1")
    c.notes.append("no source hook needed; @Test comparisons are not part of the generated checks (commands only)")
    c.log("runs judged: %d accepted" % accepted)
    res = c.coq(MODEL + ["C52Proofs.v", "Properties_C52.v"], timeout=600)
    if not res.ok:
        c.coq_failures(res)


guarded_main("C52", main)

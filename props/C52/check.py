"""C52 -- tfel-check verdicts are independent of parallelism.
Engine H: Gallina model of TFELCheck::execute (tasks popped in submission order, block appended to the log in one atomic
step under log_synchronization, exit status from the futures); proved for every schedule: the log is always a
concatenation of whole blocks of distinct checks, complete once all checks returned, exit status independent of the
order.  Tie: the REAL tfel-check is rebuilt from the working tree (tfel-check.cxx, TFELCheck sources, ThreadPool,
ProcessManager, SignalManager) with link-time wrappers logging the operations on log_synchronization and on the pool's
mutex; every run (-j 1..16, seeded delays, random command durations) is translated to Start/Append/Finish events and
fed to the extracted acceptor; tfel-check.log and the exit status are re-checked independently and compared with the
-j 1 run.
Second part: a check = requirements + commands + tests (TestLauncher::execute modelled: every command is run, then every
comparison, verdict as in the code incl. discard_commands_failure); the task of check i returns launcher_execute of its
own definition; proved: exactly once, recorded (check, verdict, per-command, per-test) results = those of the sequential
run as a multiset, exit status likewise.  Tie: generated .check files with @Requires / @Environment / several @Command /
@Test of each comparison kind against reference files (ground truth from the generated numbers); the results parsed from
each block of the real log ride on the Finish events given to the acceptor (= rstep_fn), its final recorded list is
compared with sequential_results (extracted) and with the generator's own ground truth; per-check JUnit files and
.checklog files are compared with the ground truth and between -j N and -j 1."""
import glob, os, re, shutil, struct, threading, time
import xml.etree.ElementTree as ET
from concurrent.futures import ThreadPoolExecutor
from vlib import guarded_main, REPO, REPO_BUILD, CACHE, FileLock

CHECK_SRC = ["AbsoluteComparison", "AreaComparison", "Column", "Comparison", "Configuration", "ConfigurationManager", "Interpolation",
             "LinearInterpolation", "Linearization", "MixedComparison", "NoInterpolation", "PCILogDriver", "PCJUnitDriver", "PCLogger",
             "PCTextDriver", "RelativeAndAbsoluteComparison", "RelativeComparison", "SplineInterpolation", "SplineLocalInterpolation",
             "Test", "TestLauncher", "tfel-check"]
REPO_SOURCES = ["tfel-check/src/%s.cxx" % s for s in CHECK_SRC] + [
    "src/System/ThreadPool.cxx", "src/System/ThreadedTaskResult.cxx", "src/System/ProcessManager.cxx", "src/System/ProcessManager-c.c",
    "src/System/SignalManager.cxx", "src/System/SignalHandler.cxx"]
LIBS = ["-Wl,--wrap=pthread_mutex_lock", "-Wl,--wrap=pthread_mutex_unlock", "-Wl,--wrap=waitpid", "-Wl,--wrap=sigaction", "-Wl,--wrap=fork",
        "-Wl,--wrap=_ZN4tfel6system13SignalManager15registerHandlerEiPNS0_13SignalHandlerER9sigaction",
        "-Wl,--wrap=_ZN4tfel6system13SignalManager13removeHandlerEm",
        "-lTFELMFront", "-lMFrontLogStream", "-lTFELMaterial", "-lTFELMathParser", "-lTFELMathCubicSpline", "-lTFELGlossary",
        "-lTFELUnicodeSupport", "-lTFELNUMODIS", "-lTFELMath", "-lTFELUtilities", "-lTFELSystem", "-lTFELConfig", "-lTFELException"]
MODEL = ["C52Spec.v", "C52Model.v"]
EXTRACT = """From Coq Require Import ExtrOcamlBasic.
From C52 Require Import C52Spec C52Model.
Extraction "c52_model.ml" step_fn init rstep_fn rinit sequential_results launcher_execute.
"""
ANSI = re.compile(r"\x1b\[[0-9;]*m|\x0f")
KINDS = ["LOGLOCK", "LOGUNLOCK", "POOLLOCK", "POOLUNLOCK", "WAITFAIL", "SELFLOCK", "HEXEC_BEGIN", "HEXEC_END", "HEXEC_DELETED", "HDELETE",
         "REG_RET", "REM_CALL", "REM_RET", "SIG_ENTER", "SIG_RETURN", "SIG_DEFERRED", "CUNLOCK_IN_HANDLER"]


def parse_bin(path):
    """the mmap'ed log of the driver ($C52_TRACE): [(tid, kind, a)]; it survives a crash"""
    evs = []
    try:
        data = open(path, "rb").read()
    except OSError:
        return evs
    if len(data) < 16:
        return evs
    n = struct.unpack_from("q", data, 0)[0]
    for i in range(max(0, min(n, (len(data) - 16) // 16))):
        tid, kind, a = struct.unpack_from("iiq", data, 16 + 16 * i)
        if 0 < kind <= len(KINDS):
            evs.append((tid, KINDS[kind - 1], a))
    return evs


def private_libs(c):
    """copy the TFEL shared libraries of the build tree to the scratch directory, while no build of /repo/_build started
    through vlib is running: a run of the rebuilt tfel-check is then independent of a concurrent relink of those
    libraries (the dynamic loader leaves with status 127 when one of them is missing or half written)"""
    dst = os.path.join(c.work, "libs")
    os.makedirs(dst, exist_ok=True)
    with FileLock(os.path.join(CACHE, "repo_build.lock")):
        for root, _d, files in os.walk(REPO_BUILD):
            for f in files:
                if re.match(r"lib(TFEL|MFrontLogStream).*\.so", f) and not os.path.exists(os.path.join(dst, f)):
                    src = os.path.join(root, f)
                    if os.path.islink(src):
                        os.symlink(os.readlink(src), os.path.join(dst, f))
                    else:
                        try:
                            os.link(src, os.path.join(dst, f))   # a relink replaces the file, it does not rewrite it
                        except OSError:
                            shutil.copy2(src, os.path.join(dst, f))
    return dst


def gen(rng, n):
    """legacy corpus: checks made of commands only (kept for the `lifetime` scenarios and a share of the seeded ones)"""
    checks = []
    for _ in range(n):
        cmds = []
        for _ in range(rng.randint(1, 3)):
            r = rng.random()
            cmds.append("false" if r < 0.15 else ("true" if r < 0.5 else "sleep 0.0%d" % rng.randint(0, 4)))
        checks.append(cmds)
    return checks


KINDS_CMP = ["Absolute", "Relative", "RelativeAndAbsolute", "Mixed", "Area"]
# @TestType Area crashes tfel-check whatever -j (Test::setColIntegralInterpolated stores the column in `ci`, the member
# colIntegralInterpolated stays null and AreaComparison::compare dereferences it): a sequential defect, outside C52; the
# kind is generated when C52_AREA=1 or when the sequential probe of main() (one Area comparison, -j 1) does not crash
USE_AREA = os.environ.get("C52_AREA") == "1"


def fl(x):
    return repr(float(x))


def gen_column(rng, kind, ok, ref):
    """-> (directive lines, result column): a result column whose comparison with `ref` passes (ok) or fails, every
    error being 0.3 x the threshold at most (pass) or 5 x the threshold on one row (fail): no rounding can flip it"""
    nrow = len(ref)
    u = [rng.uniform(-0.3, 0.3) for _ in ref]
    bad = rng.randrange(nrow)
    sg = rng.choice([-1.0, 1.0])
    if kind == "Absolute":
        p = rng.choice([1e-3, 0.5, 1e-6])
        res = [v + p * ui for v, ui in zip(ref, u)]
        if not ok:
            res[bad] = ref[bad] + sg * 5 * p
        return ["@TestType Absolute;", "@Precision %s;" % fl(p)], res
    if kind == "Relative":
        p = rng.choice([1e-2, 1e-4, 1e-8])
        res = [v * (1 + p * ui) for v, ui in zip(ref, u)]
        if not ok:
            res[bad] = ref[bad] * (1 + 5 * p)
        return ["@TestType Relative;", "@Precision %s;" % fl(p)], res
    if kind == "RelativeAndAbsolute":
        p = rng.choice([1e-3, 1e-5])
        if ok and rng.random() < 0.5:      # relative criterion violated everywhere, absolute criterion met
            res = [v * (1 + 50 * p) for v in ref]
            q = max(abs(v) for v in ref) * 50 * p / 0.3
        elif ok:
            res = [v * (1 + p * ui) for v, ui in zip(ref, u)]
            q = rng.choice([1e-9, 1e-3])
        else:
            res = [v * (1 + p * ui) for v, ui in zip(ref, u)]
            res[bad] = ref[bad] * (1 + 5 * p)
            q = abs(ref[bad]) * p             # absolute error of that row = 5 q
        return ["@TestType RelativeAndAbsolute;", "@Precision %s %s;" % (fl(p), fl(q))], res
    if kind == "Mixed":
        p = rng.choice([1e-3, 1e-5])
        q = rng.choice([1e-4, 1e-2])
        res = [v + (p * abs(v) + q) * ui for v, ui in zip(ref, u)]
        if not ok:
            res[bad] = ref[bad] + sg * 5 * (p * abs(ref[bad]) + q)
        return ["@TestType Mixed;", "@Precision %s %s;" % (fl(p), fl(q))], res
    if kind == "Area":
        p = rng.choice([1e-2, 1e-3])
        d = (0.3 if ok else 5.0) * p * max(abs(v) for v in ref) / (nrow - 1)
        res = [v + d for v in ref]
        return ["@TestType Area interpolation Linear using 1;", "@Precision %s;" % fl(p)], res
    raise ValueError(kind)


def probe_area(c, exe, libdir):
    """one check with one Area comparison (identical columns up to 1e-9: it must pass), run sequentially -> (exit status, .check text, stderr)"""
    d = os.path.join(c.work, "probe_area")
    shutil.rmtree(d, ignore_errors=True)
    os.makedirs(os.path.join(d, "t0"))
    tcol, ref = [0.0, 1.0, 2.0, 3.0], [1.0, 2.0, 4.0, 3.0]
    text = '@TestType Area interpolation Linear using 1;\n@Precision 0.01;\n@Test "res.dat" "ref.dat" 2;\n'
    with open(os.path.join(d, "tfel-check.config"), "w") as f:
        f.write('components : {"c52::present"};\n')
    for fn, content in (("a.check", text), ("ref.dat", table(["t", "c0"], [tcol, ref])), ("res.dat", table(["t", "c0"], [tcol, [v + 1e-9 for v in ref]]))):
        with open(os.path.join(d, "t0", fn), "w") as f:
            f.write(content)
    env = {"C52_TRACE": os.path.join(d, "trace.bin"), "C52_SEED": "1", "C52_PERTURB": "0", "C52_WATCHDOG": "40", "C52_WIDEN": "0", "LD_LIBRARY_PATH": libdir}
    rc = 127
    for attempt in range(3):
        rc, out, err = c.run([exe, "-j", "1", "t0/a.check"], cwd=d, env=env, timeout=120)
        if rc == 127 and ("error while loading shared libraries" in err or "symbol lookup error" in err):
            time.sleep(2)
            continue
        break
    return rc, text, err


def table(names, cols):
    return " ".join(names) + "\n" + "".join(" ".join(fl(c[i]) for c in cols) + "\n" for i in range(len(cols[0])))


def gen_rich(rng, n):
    """checks with @Requires, @Environment, several @Command (some with options) writing result files in the check's
    directory, and @Test comparisons of every kind against reference files; the ground truth of every command and of
    every comparison is decided here, from the generated numbers (never from tfel-check)"""
    checks = []
    for k in range(n):
        if rng.random() < 0.25:
            cmds = gen(rng, 1)[0]
            checks.append(cmds)
            continue
        nrow = rng.randint(4, 8)
        tcol = [float(i) for i in range(nrow)]
        lines, files, cmd_ok, test_ok = [], {}, [], []
        # ---- requirements
        r = rng.random()
        req_ok = True
        if r < 0.12:
            lines.append('@Requires {"c52::absent"};'); req_ok = False
        elif r < 0.2:
            lines.append('@Requires {"c52::present", "c52::absent"};'); req_ok = False
        elif r < 0.45:
            lines.append('@Requires {"c52::present"};')
        # ---- environment: the variant of the result file that `gen.sh` installs is chosen by an environment variable
        # which differs from one check to the next (a value leaking from another check changes the verdicts)
        good, other = rng.sample(["A", "B", "C", "D"], 2)
        env_mode = rng.choice(["good"] * 5 + ["bad", "unset"])
        if env_mode != "unset":
            lines.append('@Environment {"C52_VARIANT" : "%s"};' % (good if env_mode == "good" else other))
        files["gen.sh"] = "cp src_$C52_VARIANT.dat res.dat\n"
        files["say.sh"] = 'echo "v=$C52_VARIANT"\n'
        # ---- tests
        ntests = rng.randint(1, 5)
        names = ["t"] + ["c%d" % j for j in range(ntests)]
        refcols, goodcols, badcols, tlines = [tcol], [tcol], [tcol], []
        producer = rng.choice(["gen"] * 4 + ["cp"] * 3 + ["none", "failing-cp"])
        for j in range(ntests):
            ref = [rng.choice([-1.0, 1.0]) * round(rng.uniform(1, 100), 6) for _ in range(nrow)]
            kind = rng.choice(KINDS_CMP if USE_AREA else KINDS_CMP[:4])
            want = rng.random() < 0.8
            dirs, col = gen_column(rng, kind, want, ref)
            refcols.append(ref)
            goodcols.append(col)
            # the wrong variant: every column fails with a large margin for any kind and any threshold used above
            badcols.append([v * 3.0 + 1000.0 for v in ref])
            tlines += dirs
            colname = ("'c%d'" % j) if rng.random() < 0.3 else str(j + 2)
            tlines.append('@Test "res.dat" "ref.dat" %s;' % colname)
            if producer in ("none", "failing-cp"):
                ok = False           # res.dat does not exist: the comparison throws, reported as a failure
            elif producer == "gen":
                ok = want if env_mode == "good" else False     # wrong variant / no variant (cp fails: no res.dat)
            else:
                ok = want
            test_ok.append(ok)
        files["ref.dat"] = table(names, refcols)
        files["src_%s.dat" % good] = table(names, goodcols)
        files["src_%s.dat" % other] = table(names, badcols)
        files["plain.dat"] = table(names, goodcols)
        # ---- commands
        cl = []
        for _ in range(rng.randint(0, 2)):
            r = rng.random()
            if r < 0.15:
                cl.append(('@Command "false";', False))
            elif r < 0.3:
                cl.append(('@Command "false" {shall_fail : true};', True))
            elif r < 0.5:
                exp = rng.choice([good, other]) if env_mode != "unset" else ""
                act = "" if env_mode == "unset" else (good if env_mode == "good" else other)
                cl.append(('@Command "sh say.sh" {expected_output : "v=%s"};' % exp, exp == act))
            elif r < 0.7:
                cl.append(('@Command "true";', True))
            else:
                cl.append(('@Command "sleep 0.0%d";' % rng.randint(0, 4), True))
        if producer == "gen":
            cl.insert(rng.randint(0, len(cl)), ('@Command "sh gen.sh";', env_mode != "unset"))
        elif producer == "cp":
            cl.insert(rng.randint(0, len(cl)), ('@Command "cp plain.dat res.dat";', True))
        elif producer == "failing-cp":
            cl.insert(rng.randint(0, len(cl)), ('@Command "cp nosuchfile.dat res.dat";', False))
        lines += [c[0] for c in cl]
        cmd_ok = [c[1] for c in cl]
        lines += tlines
        checks.append({"text": "\n".join(lines) + "\n", "files": files, "req_ok": req_ok, "cmd_ok": cmd_ok, "test_ok": test_ok})
    return checks


def normal_form(ch):
    """a check of a scenario (a list of commands: legacy; or a dict) -> dict text/files/req_ok/cmd_ok/test_ok"""
    if isinstance(ch, dict):
        return ch
    return {"text": "".join('@Command "%s";\n' % x for x in ch), "files": {}, "req_ok": True,
            "cmd_ok": [x != "false" for x in ch], "test_ok": []}


def truth_of(ch, discard):
    """independent statement of the verdict of a check: (verdict, per-command results, per-test results, skipped steps)"""
    ch = normal_form(ch)
    if not ch["req_ok"]:
        return (True, [], [], len(ch["cmd_ok"]))
    cmds_count = not (discard and ch["test_ok"])
    v = all(ch["test_ok"]) and (all(ch["cmd_ok"]) or not cmds_count)
    return (v, list(ch["cmd_ok"]), list(ch["test_ok"]), 0)


def bits(l):
    return "".join("1" if b else "0" for b in l) or "-"


def res_str(i, t):
    return "%d:%s:%s:%s:%d" % (i, "1" if t[0] else "0", bits(t[1]), bits(t[2]), t[3])


def block_result(b):
    """what the block of a check in tfel-check.log records: (verdict, per-command, per-test, skipped) or None"""
    cm, ts, sk = [], [], 0
    for l in b["lines"]:
        m = re.match(r"\*\* Exec-(\d+) .*\[(SUCCESS| FAILED|SKIPPED)\]$", l)
        if m:
            if m.group(2) == "SKIPPED":
                sk += 1
                if int(m.group(1)) != sk:
                    return None
            else:
                cm.append(m.group(2) == "SUCCESS")
                if int(m.group(1)) != len(cm):
                    return None
            continue
        m = re.match(r"\*\* Compare-(\d+) .*\[(SUCCESS| FAILED)\]$", l)
        if m:
            ts.append(m.group(2) == "SUCCESS")
            if int(m.group(1)) != len(ts):
                return None
    if b["verdict"] is None:
        return None
    return (b["verdict"], cm, ts, sk)


def read_junit(path):
    """-> (sorted multiset of testcases (classname, name, success|failure, text) with the time attribute dropped, problem)"""
    try:
        txt = open(path, errors="replace").read()
    except OSError:
        return None, "missing"
    try:
        root = ET.fromstring(txt)
    except ET.ParseError as e:
        # not well-formed XML (the messages are not escaped by PCJUnitDriver): compare the text, times normalised
        return ("raw", re.sub(r'time="[^"]*"', 'time=""', txt)), "not well-formed: %s" % e
    if root.tag != "testsuite":
        return None, "root element %s" % root.tag
    cases = []
    for tc in root:
        if tc.tag != "testcase":
            return None, "unexpected element %s" % tc.tag
        kids = list(tc)
        if len(kids) != 1 or kids[0].tag not in ("success", "failure"):
            return None, "testcase %s without exactly one success/failure child" % tc.get("name")
        cases.append((tc.get("classname"), tc.get("name"), kids[0].tag, (kids[0].text or "").strip()))
    return ("xml", cases), None


def parse_log(txt):
    """-> (list of (name, verdict, lines) in log order, list of structural problems)"""
    blocks, bad, cur = [], [], None
    for raw in txt.split("\n"):
        l = ANSI.sub("", raw).rstrip()
        if not l:
            continue
        if l.startswith("entering directory"):
            if cur is not None:
                bad.append("a block starts inside the block of %s" % cur["name"])
            cur = {"name": None, "lines": [l], "verdict": None}
        elif cur is None:
            bad.append("line outside any block: %r" % l[:80])
        else:
            cur["lines"].append(l)
            m = re.match(r"\* beginning of test '(.*)'", l)
            if m:
                if cur["name"] is not None:
                    bad.append("two test beginnings in one block (%s, %s)" % (cur["name"], m.group(1)))
                cur["name"] = m.group(1)
            m = re.match(r"\* end of test '(.*)'\s+\[\s*(SUCCESS|FAILED)\]", l)
            if m:
                if m.group(1) != cur["name"]:
                    bad.append("block of %s ends with the end line of %s" % (cur["name"], m.group(1)))
                cur["verdict"] = m.group(2) == "SUCCESS"
            if l == "======":
                blocks.append(cur)
                cur = None
    if cur is not None:
        bad.append("unterminated block of %s" % cur["name"])
    return blocks, bad


def translate(evs, n):
    per = {}
    waitfail = 0
    for pos, (tid, kind, a) in enumerate(evs):
        if kind == "WAITFAIL":
            waitfail += 1
        if tid == 0:
            continue
        per.setdefault(tid, []).append((pos, kind))
    pops = []   # (unlock pos, tid, index of the section among this thread's pool sections)
    secs = {}
    for tid, l in per.items():
        s = [p for (p, k) in l if k == "POOLUNLOCK"]
        secs[tid] = s
        for j in range(0, len(s), 2):
            pops.append((s[j], tid, j))
    pops.sort()
    out = []
    task_of = {}
    for i, (p, tid, j) in enumerate(pops[:n]):
        task_of[(tid, j)] = i
        out.append((p, "S %d" % i))
    for tid, l in per.items():
        s = secs[tid]
        for j in range(0, len(s), 2):
            i = task_of.get((tid, j))
            if i is None:
                continue
            lo = s[j]
            hi = s[j + 1] if j + 1 < len(s) else float("inf")
            for (p, k) in l:
                if k == "LOGUNLOCK" and lo < p < hi:
                    out.append((p, "A %d" % i))
            if j + 1 < len(s):
                out.append((s[j + 1], "F %d" % i))
    out.sort()
    return [x[1] for x in out], waitfail, len(evs)


def show(evs, lo, hi):
    return ["%d: thread %d %s %d" % (i, e[0], e[1], e[2]) for i, e in enumerate(evs) if lo <= i <= hi]


def f19_evidence(evs):
    """-> (position, text) of the first call of a handler that removeHandler has deleted, or of a handler body still
    running when removeHandler(its id) returned in another thread (the manager is destroyed right after)"""
    ser_of = {}
    for (tid, kind, a) in evs:
        if kind == "REG_RET":
            ser_of[a // 1000000] = a % 1000000
    running = {}   # serial -> tid
    for pos, (tid, kind, a) in enumerate(evs):
        if kind == "HEXEC_DELETED":
            return pos, "thread %d, inside SignalManager::treatAction, calls handler (serial %d) which removeHandler has already deleted" % (tid, a)
        if kind == "HEXEC_BEGIN":
            running[a] = tid
        elif kind == "HEXEC_END":
            running.pop(a, None)
        elif kind == "HDELETE" and a in running and running[a] != tid:
            return pos, "thread %d deletes handler (serial %d) inside removeHandler while thread %d is running it" % (tid, a, running[a])
        elif kind == "REM_RET" and ser_of.get(a) in running and running[ser_of[a]] != tid:
            return pos, "removeHandler(%d) returns in thread %d while thread %d is still running that handler" % (a, tid, running[ser_of[a]])
    return None


def main(c):
    libdir = private_libs(c)
    exe = c.cxx("tfelcheck", ["driver.cxx"], REPO_SOURCES, flags=["-Dmain=tfel_check_real_main", '-DVERSION="verif"'],
                libs=LIBS + ["-L" + libdir, "-Wl,-rpath," + libdir])
    c.log("tfel-check rebuilt from the working tree with the wrappers")
    acc = c.ocaml_extract("c52", MODEL, EXTRACT, "acceptor.ml")
    c.log("acceptor extracted")
    c.trusted("link-time wrappers of pthread_mutex_lock/unlock, waitpid, fork, sigaction, SignalManager::registerHandler/removeHandler and of the malloc family "
              "in props/C52/driver.cxx; recognition of the pool mutex as the first mutex locked by a non-main thread",
              "the TFEL libraries other than TFELCheck/ThreadPool/ProcessManager/SignalManager are taken from /repo/_build (hard links / copies made while no "
              "vlib build is running)",
              "python translation of the mutex log to Start/Append/Finish (tasks are popped in submission order: C29) and the parser of tfel-check.log",
              "ground truth of each check computed by the generator: exit status of true / false / sleep / cp / sh scripts, comparison verdicts from the "
              "generated numbers and thresholds (margins 0.3 x / 5 x), TextData parsing of the column files by TFEL is not re-implemented",
              "xml.etree parser for the per-check JUnit files")
    # @TestType Area: used in the corpus only if a single sequential Area comparison does not crash the tool (a sequential defect of the
    # pinned tree, reported here with its input; patch props/C52/fix_area_null_column.diff)
    global USE_AREA
    if not USE_AREA and not c.replay:
        rc_a, text_a, err_a = probe_area(c, exe, libdir)
        if rc_a in (0, 1):
            USE_AREA = True
        elif rc_a in (-11, 139, -6, 134):
            c.report("area:null-column-crash", "tfel-check -j 1 on one check made of\n%s(res.dat and ref.dat: two columns of 4 rows, equal up to 1e-9) ends with status %d: "
                     "Test::setColIntegralInterpolated (tfel-check/src/Test.cxx) stores the column in the member `ci`, `colIntegralInterpolated` stays null and "
                     "AreaComparison::compare dereferences it; @TestType Area is left out of the generated corpus of this run" % (text_a, rc_a),
                     {"check_file": text_a, "exit_status": rc_a, "stderr": err_a[-600:], "how": "props/C52 driver (tfel-check rebuilt from the tree) -j 1 t0/a.check"}, True)
        else:
            c.report("area-probe", "tfel-check -j 1 on one check with one Area comparison ends with status %d: %s" % (rc_a, err_a[-300:]), {"check_file": text_a}, True)
        c.notes.append("@TestType Area %s the generated corpus (probe: exit status %d)" % ("is part of" if USE_AREA else "is NOT part of", rc_a))
    if c.replay:
        r = c.replay["replay"]
        scen = [(r.get("scenario_name", "replay"), r["checks"], r["jobs"], r["seed"], r["perturb"], r.get("widen", 0), r.get("discard", True))]
    else:
        scen = []
        for i in range(c.pick(10, 60)):
            n = c.rng.randint(2, c.pick(10, 30))
            scen.append(("s%d" % i, gen_rich(c.rng, n), c.rng.choice([2, 2, 3, 4, 8, 16]), c.rng.randrange(1, 1 << 30), c.rng.choice([0, 30, 60]), 0,
                         c.rng.random() < 0.6))
        # many short commands, 4 workers, and a pause of the thread that has just copied the handlers in the signal handler:
        # the schedule of defect F19 (one ProcessManager per command, destroyed while another thread is in treatAction)
        for i in range(c.pick(1, 4)):
            scen.append(("lifetime%d" % i, [["true", "true", "true"] for _ in range(16)], 4, c.rng.randrange(1, 1 << 30), 0, 3000, True))
        # many checks whose commands all have an expected output that differs from one check to the next (the files that
        # capture the output of the commands, <dir>/<name>-Exec-i.out, must be private to the check)
        for i in range(c.pick(1, 3)):
            chs = []
            for k in range(16):
                v = "K%dx%d" % (k, c.rng.randrange(1000))
                good = [c.rng.random() < 0.8 for _ in range(3)]
                chs.append({"text": '@Environment {"C52_VARIANT" : "%s"};\n' % v +
                            "".join('@Command "sh say.sh" {expected_output : "v=%s"};\n' % (v if g else "other") for g in good),
                            "files": {"say.sh": 'echo "v=$C52_VARIANT"\n'}, "req_ok": True, "cmd_ok": good, "test_ok": []})
            scen.append(("outputs%d" % i, chs, 8, c.rng.randrange(1, 1 << 30), 30, 0, True))
    results = {}
    lock = threading.Lock()

    def run_tfel_check(d, checks, jobs, seed, perturb, widen, discard):
        for attempt in range(3):
            shutil.rmtree(d, ignore_errors=True)
            os.makedirs(d)
            args = []
            with open(os.path.join(d, "tfel-check.config"), "w") as f:
                f.write('components : {"c52::present"};\n')
            for k, ch in enumerate(checks):
                ch = normal_form(ch)
                os.makedirs(os.path.join(d, "t%d" % k))
                with open(os.path.join(d, "t%d" % k, "a.check"), "w") as f:
                    f.write(ch["text"])
                for fn, content in ch["files"].items():
                    with open(os.path.join(d, "t%d" % k, fn), "w") as f:
                        f.write(content)
                args.append("t%d/a.check" % k)
            if not discard:   # the default of tfel-check is to discard the failure of commands when the check has comparisons
                args.insert(0, "--discard-commands-failure=false")
            env = {"C52_TRACE": os.path.join(d, "trace.bin"), "C52_SEED": str(seed), "C52_PERTURB": str(perturb), "C52_WATCHDOG": "40",
                   "C52_WIDEN": str(widen), "LD_LIBRARY_PATH": libdir}
            rc, out, err = c.run([exe, "-j", str(jobs)] + args, cwd=d, env=env, timeout=300)
            if rc == 127 and ("error while loading shared libraries" in err or "symbol lookup error" in err):
                time.sleep(2)   # the dynamic loader could not load a library: nothing of tfel-check has run
                continue
            break
        log = open(os.path.join(d, "tfel-check.log"), errors="replace").read() if os.path.exists(os.path.join(d, "tfel-check.log")) else ""
        evs = parse_bin(env["C52_TRACE"])
        try:
            os.remove(env["C52_TRACE"])
        except OSError:
            pass
        if rc == 97 and os.path.exists(env["C52_TRACE"] + ".hang"):
            err = "HANG\n" + open(env["C52_TRACE"] + ".hang", errors="replace").read()
        # per-check outputs of TestLauncher: JUnit file and text log
        side = []
        for k in range(len(checks)):
            try:
                cl = open(os.path.join(d, "t%d" % k, "a.checklog"), errors="replace").read()
            except OSError:
                cl = None
            side.append((read_junit(os.path.join(d, "t%d" % k, "TEST-a.xml")), cl))
        if not c.keep:
            for k in range(len(checks)):
                shutil.rmtree(os.path.join(d, "t%d" % k), ignore_errors=True)
        return rc, log, evs, err, side

    def run_one(ix):
        name, checks, jobs, seed, perturb, widen, discard = scen[ix]
        d = os.path.join(c.work, "runs", name)
        par = run_tfel_check(os.path.join(d, "par"), checks, jobs, seed, perturb, widen, discard)
        ref = run_tfel_check(os.path.join(d, "ref"), checks, 1, seed, 0, 0, discard)
        with lock:
            results[ix] = (par, ref)

    with ThreadPoolExecutor(max_workers=2) as ex:
        list(ex.map(run_one, range(len(scen))))
    c.log("%d scenarios run (each with -j N and -j 1)" % len(scen))
    text = ""
    info = {}
    for ix, (name, checks, jobs, seed, perturb, widen, discard) in enumerate(scen):
        n = len(checks)
        full = [truth_of(ch, discard) for ch in checks]
        truth = [t[0] for t in full]
        names = ["t%d/a.check" % k for k in range(n)]
        defs = ""
        for k, ch in enumerate(checks):
            ch = normal_form(ch)
            defs += "D %d %d %d %s %s\n" % (k, ch["req_ok"], discard, bits(ch["cmd_ok"]), bits(ch["test_ok"]))
        for tag, (rc, log, evs, err, side) in (("par", results[ix][0]), ("ref", results[ix][1])):
            model, waitfail, nev = translate(evs, n)
            # what the real log recorded for each check goes with its Finish event
            observed = {}
            for b in parse_log(log)[0]:
                if b["name"] in names and names.index(b["name"]) not in observed:
                    observed[names.index(b["name"])] = block_result(b)
            model2 = []
            for e in model:
                if e.startswith("F "):
                    o = observed.get(int(e[2:]))
                    e = "%s %s" % (e, "? - - 0" if o is None else res_str(int(e[2:]), o).split(":", 1)[1].replace(":", " "))
                model2.append(e)
            info[(ix, tag)] = (model2, waitfail, nev, observed)
            text += "T %d:%s %d %s\n%s%s\nEND\n" % (ix, tag, n, " ".join("1" if t else "0" for t in truth), defs, "\n".join(model2))
    rc, out, err = c.run([acc], input=text, timeout=600)
    verdicts = {}
    for l in out.splitlines():
        t = l.split(" ", 2)
        if len(t) >= 2 and t[0] in ("ACCEPT", "REJECT"):
            verdicts[t[1]] = (t[0], t[2] if len(t) > 2 else "")
    accepted = 0
    deferred = 0
    results_checked = 0
    junit_compared = 0
    junit_malformed = 0
    feat = {"checks": 0, "with_tests": 0, "tests": 0, "tests_failing": 0, "req_unmet": 0, "req_met": 0, "env": 0, "cmd_options": 0, "scenarios_with_discard_commands_failure_false": 0}
    for ix, (name, checks, jobs, seed, perturb, widen, discard) in enumerate(scen):
        n = len(checks)
        full = [truth_of(ch, discard) for ch in checks]
        truth = [t[0] for t in full]
        names = ["t%d/a.check" % k for k in range(n)]
        feat["scenarios_with_discard_commands_failure_false"] += not discard
        for ch in checks:
            ch = normal_form(ch)
            feat["checks"] += 1
            feat["with_tests"] += bool(ch["test_ok"])
            feat["tests"] += len(ch["test_ok"])
            feat["tests_failing"] += ch["test_ok"].count(False)
            feat["req_unmet"] += not ch["req_ok"]
            feat["req_met"] += ch["req_ok"] and "@Requires" in ch["text"]
            feat["env"] += "@Environment" in ch["text"]
            feat["cmd_options"] += ch["text"].count("expected_output") + ch["text"].count("shall_fail")
        blocks_by_tag = {}
        side_by_tag = {}
        for tag in ("par", "ref"):
            rc, log, evs, err, side = results[ix][0 if tag == "par" else 1]
            model, waitfail, nev, observed = info[(ix, tag)]
            j = jobs if tag == "par" else 1
            deferred += sum(1 for e in evs if e[1] == "SIG_DEFERRED")
            rep = {"scenario_name": name, "checks": checks, "jobs": jobs, "seed": seed, "perturb": perturb, "widen": widen, "discard": discard, "run": tag, "exit_status": rc,
                   "ground_truth": [res_str(k, t) for k, t in enumerate(full)],
                   "tfel_check_log": log[:6000], "model_events": model[:400], "failed_blocking_waitpid_calls": waitfail,
                   "how": "props/C52 driver (tfel-check rebuilt from the tree) -j %d t0/a.check ... in a scratch directory" % j}
            c.count(1, (name, tag), j > 1 and n > j)
            if (ix * 2 + (tag == "ref")) % 9 == 0:
                c.sample({"scenario": name, "jobs": j, "discard_commands_failure": discard, "checks": [normal_form(ch)["text"] for ch in checks][:6],
                          "ground_truth i:verdict:commands:tests:skipped": [res_str(k, t) for k, t in enumerate(full)][:6], "model_events_head": model[:12], "exit_status": rc})
            # ---- defects of the signal handling (C30: F19, F22), reported only with their evidence in the log of this run
            ev19 = f19_evidence(evs)
            if ev19 is not None:
                rep19 = dict(rep)
                rep19["log_before"] = show(evs, ev19[0] - 40, ev19[0])
                c.report("F19:tfel-check-crash", "tfel-check -j %d on scenario %s (%d checks): %s (SignalManager::treatAction calls the handlers it copied after "
                         "releasing callbacksAccess, while ~ProcessManager in another worker removes and deletes them)" % (j, name, n, ev19[1]), rep19, True)
            if rc == 96:
                which = [e[2] for e in evs if e[1] == "SELFLOCK"]
                rep["log_tail"] = show(evs, len(evs) - 40, len(evs))
                c.report("F22:tfel-check-deadlock", "tfel-check -j %d on scenario %s (%d checks): a thread locks %s, which it already holds: the signal handler "
                         "(treatAction -> sigChildHandler) interrupted the holder" % (j, name, n, "callbacksAccess" if which and which[0] == 1 else "processesAccess"),
                         rep, True)
                continue
            if rc in (97, 124):
                stacks = [l[:160] for l in err.splitlines() if l.startswith("#") or l.startswith("Thread")]
                rep["stacks_of_all_threads_after_40s"] = stacks[:160]
                rep["log_tail"] = show(evs, len(evs) - 40, len(evs))
                in_handler = sum(1 for l in stacks if "sigChildHandler" in l)
                alloc = [l for l in stacks if re.search(r"malloc|_int_free|__libc_free|operator new|operator delete|arena", l)]
                if alloc and any("<signal handler called>" in l for l in stacks) and any("treatAction" in l for l in stacks):
                    c.report("F24:allocation-in-signal-handler", "tfel-check -j %d did not finish on scenario %s: a thread is blocked in the memory allocator below "
                             "SignalManager::treatAction, called from the signal handler (the handlers allocate memory: not async-signal-safe)" % (j, name), rep, True)
                elif in_handler and any("<signal handler called>" in l for l in stacks) and not any("malloc" in l or "_int_free" in l for l in stacks):
                    c.report("F22:tfel-check-deadlock", "tfel-check -j %d did not finish on scenario %s (%d checks): %d threads are blocked in ProcessManager::sigChildHandler "
                             "(called from the SIGCHLD signal handler) on the non-recursive mutex processesAccess" % (j, name, n, in_handler), rep, True)
                else:
                    c.report("hang:%s:%s" % (name, tag), "tfel-check -j %d did not finish within 40 s on scenario %s" % (j, name), rep, True)
                continue
            if rc not in (0, 1):
                rep["log_tail"] = show(evs, len(evs) - 60, len(evs))
                rep["stderr"] = err[-1500:]
                if ev19 is None or rc not in (-11, -6):
                    c.report("crash:%s:%s" % (name, tag), "tfel-check -j %d ended with status %d on scenario %s: %s" % (j, rc, name, err[-300:]), rep, True)
                continue
            v = verdicts.get("%d:%s" % (ix, tag))
            order = None
            if v is None:
                c.report("acceptor:%s:%s" % (name, tag), "no verdict of the acceptor for scenario %s" % name, rep, False)
            elif v[0] == "REJECT":
                diff = ["%s: log records %s, launcher_execute of its definition gives %s" % (names[k], None if observed.get(k) is None else res_str(k, observed[k]), res_str(k, full[k]))
                        for k in range(n) if observed.get(k) != full[k]]
                c.report("reject:%s:%s" % (name, tag), "the run of tfel-check -j %d on scenario %s (mutex trace + results recorded in the log) is not a run of the model: %s; %s" % (
                    j, name, v[1], diff[:4]), rep, True)
            else:
                accepted += 1
                m = re.search(r"appended=([0-9,]*) finished=(\d+) recorded=(\S*) seq=(\S*)", v[1])
                order = [int(x) for x in m.group(1).split(",") if x]
                recorded = sorted(x for x in m.group(3).split(";") if x)
                seqres = [x for x in m.group(4).split(";") if x]
                mine = [res_str(k, t) for k, t in enumerate(full)]
                results_checked += 1
                if seqres != mine:
                    c.report("model-vs-truth:%s" % name, "scenario %s: sequential_results of the model %s differs from the ground truth computed by the check %s" % (
                        name, seqres[:6], mine[:6]), rep, False)
                elif recorded != sorted(seqres) and int(m.group(2)) == n:
                    c.report("results:%s:%s" % (name, tag), "scenario %s -j %d: recorded results %s are not those of the sequential run %s" % (name, j, recorded[:8], sorted(seqres)[:8]), rep, True)
                if len(order) != n or int(m.group(2)) != n:
                    c.report("incomplete:%s:%s" % (name, tag), "scenario %s -j %d: only %d of %d checks appended their block under the log mutex / %s finished" % (
                        name, j, len(order), n, m.group(2)), rep, True)
            blocks, bad = parse_log(log)
            blocks_by_tag[tag] = blocks
            side_by_tag[tag] = side
            # per-check JUnit file against the ground truth
            for k in range(n):
                (ju, problem), cl = side[k]
                exp = ([("Exec-%d" % (i + 1), "success" if ok else "failure") for i, ok in enumerate(full[k][1])] +
                       [("Compare-%d" % (i + 1), "success" if ok else "failure") for i, ok in enumerate(full[k][2])])
                if ju is None:
                    c.report("junit:%s:%s" % (name, tag), "scenario %s -j %d: JUnit file t%d/TEST-a.xml: %s" % (name, j, k, problem), rep, True)
                    break
                if ju[0] == "raw":
                    junit_malformed += 1
                    got = re.findall(r'<testcase classname="[^"]*" name="([^"]*)" time="[^"]*">\s*<(success|failure)>', ju[1])
                else:
                    got = [(x[1], x[2]) for x in ju[1]]
                if got != exp:
                    c.report("junit:%s:%s" % (name, tag), "scenario %s -j %d: testcases of t%d/TEST-a.xml %s differ from the ground truth %s" % (name, j, k, got, exp), rep, True)
                    break
            got = [b["name"] for b in blocks]
            if bad or sorted(got) != sorted(names):
                c.report("log:%s:%s" % (name, tag), "scenario %s -j %d: tfel-check.log is not one uninterleaved block per check: %s; blocks found: %s" % (
                    name, j, bad[:3], got), rep, True)
            elif order is not None and got != [names[i] for i in order]:
                c.report("logorder:%s:%s" % (name, tag), "scenario %s -j %d: order of the blocks in tfel-check.log %s differs from the order of the lock-protected appends %s" % (
                    name, j, got, [names[i] for i in order]), rep, True)
            wrong = ["%s: log %s, ground truth %s" % (b["name"], None if block_result(b) is None else res_str(names.index(b["name"]), block_result(b)),
                                                       res_str(names.index(b["name"]), full[names.index(b["name"])]))
                     for b in blocks if b["name"] in names and block_result(b) != full[names.index(b["name"])]]
            if wrong or (rc == 1) != (not all(truth)):
                what = "scenario %s -j %d: exit status %d with %d failing checks; checks whose verdict / per-command / per-test results in the log are wrong (i:verdict:commands:tests:skipped): %s" % (name, j, rc, truth.count(False), wrong[:5])
                if waitfail:
                    c.report("F8:tfel-check-verdict", what + " (%d blocking waitpid calls of ProcessManager::wait failed in this run: defect F8 of C30)" % waitfail, rep, True)
                else:
                    c.report("verdict:%s:%s" % (name, tag), what, rep, True)
        if "par" in side_by_tag and "ref" in side_by_tag:
            for k in range(n):
                (jp, _p1), clp = side_by_tag["par"][k]
                (jr, _p2), clr = side_by_tag["ref"][k]
                if jp is None or jr is None:
                    continue
                junit_compared += 1
                a = (jp[0], sorted(jp[1]) if jp[0] == "xml" else jp[1])
                b = (jr[0], sorted(jr[1]) if jr[0] == "xml" else jr[1])
                if a != b:
                    c.report("junit-par-vs-seq:%s" % name, "scenario %s: t%d/TEST-a.xml of -j %d and of -j 1 differ (testcases as a multiset, time attributes dropped): %s vs %s" % (
                        name, k, jobs, str(a)[:600], str(b)[:600]),
                        {"scenario_name": name, "checks": checks, "jobs": jobs, "seed": seed, "perturb": perturb, "widen": widen, "discard": discard}, True)
                    break
                if clp != clr:
                    c.report("checklog-par-vs-seq:%s" % name, "scenario %s: t%d/a.checklog of -j %d and of -j 1 differ: %r vs %r" % (name, k, jobs, (clp or "")[:600], (clr or "")[:600]),
                             {"scenario_name": name, "checks": checks, "jobs": jobs, "seed": seed, "perturb": perturb, "widen": widen, "discard": discard}, True)
                    break
        if "par" in blocks_by_tag and "ref" in blocks_by_tag:
            norm = lambda bs: sorted((b["name"], b["verdict"], tuple(x for x in b["lines"] if not x.startswith("entering"))) for b in bs)
            if norm(blocks_by_tag["par"]) != norm(blocks_by_tag["ref"]) and not any(k[0].startswith(("F8", "log:", "verdict:")) for k in c.violations):
                if not (info[(ix, "par")][1] or info[(ix, "ref")][1]):
                    c.report("multiset:%s" % name, "scenario %s: the blocks of -j %d and -j 1 differ as multisets" % (name, jobs),
                             {"scenario_name": name, "checks": checks, "jobs": jobs, "seed": seed, "perturb": perturb, "widen": widen, "discard": discard}, True)
    c.coverage["traces_validated_against_impl"] = accepted
    c.coverage["corpus_features"] = feat
    c.coverage["runs_whose_recorded_results_were_compared_with_sequential_results"] = results_checked
    c.coverage["junit_files_compared_par_vs_seq"] = junit_compared
    if junit_malformed:
        c.notes.append("%d JUnit files were not well-formed XML and were compared as text (time attributes normalised)" % junit_malformed)
    c.coverage["rule"] = ("seeded sets of 2-30 .check files (quick: 2-10): 1/4 with 1-3 plain commands (true / false / sleep 0-40 ms), 3/4 with @Requires (met / unmet, "
                          "component declared in tfel-check.config), @Environment (a variable, different in each check, selects the result file a script installs), "
                          "0-3 @Command (sh scripts, cp, options expected_output / shall_fail) writing result files in the check's directory, 1-5 @Test against a "
                          "reference file with @TestType Absolute / Relative / RelativeAndAbsolute / Mixed and @Precision (errors at 0.3 x or 5 x the threshold), "
                          "passing and failing, missing result files; with and without --discard-commands-failure=false; tfel-check -j 2..16 with seeded delays at "
                          "the log and pool mutexes, and the same set with -j 1; + `lifetime` sets (16 checks of three `true`, -j 4, pause after the handlers are "
                          "copied in the signal handler) and `outputs` sets (16 checks of three commands with a per-check expected output, -j 8); one evaluation = one tfel-check run; non-trivial = more checks than jobs and jobs > 1")
    c.notes.append("no source hook needed" + ("" if USE_AREA else "; @TestType Area is left out of the generated checks (it crashes tfel-check whatever -j: see NOTES.md)"))
    c.notes.append("SIGCHLD signals that arrived inside malloc/free and were re-sent after the allocation returned (hazard F24 of props/C30/NOTES.md, kept out of the runs): %d" % deferred)
    c.log("runs judged: %d accepted" % accepted)
    res = c.coq(MODEL + ["C52Proofs.v", "Properties_C52.v"], timeout=600)
    if not res.ok:
        c.coq_failures(res)


guarded_main("C52", main)

// C52 -- the REAL tfel-check, rebuilt from /repo's working tree: tfel-check/src/tfel-check.cxx (its `main` renamed by
// -Dmain=tfel_check_real_main), the TFELCheck library sources and src/System/{ThreadPool,ProcessManager,SignalManager,..}
// are compiled into this executable; only the other TFEL libraries come from /repo/_build.
// No source hook: pthread_mutex_lock/unlock and waitpid are redirected at link time (-Wl,--wrap=...); operations on
// `log_synchronization` (the log mutex of tfel-check.cxx) and on the ThreadPool's mutex (recognised as the first mutex
// ever locked by a thread other than the main one: a worker starts by locking it) are logged with a global sequence
// number (LOCK after acquisition, UNLOCK before release), seeded random delays are injected there, and failing
// blocking waitpid calls are logged (defect F8 of ProcessManager::wait makes verdicts schedule dependent).
// The log is written to $C52_TRACE when tfel-check's main returns.
#undef main
#include <atomic>
#include <cerrno>
#include <cstdio>
#include <cstdlib>
#include <mutex>
#include <pthread.h>
#include <sched.h>
#include <signal.h>
#include <sys/types.h>
#include <sys/wait.h>
#include <time.h>
#include <unistd.h>
#include <fcntl.h>
#include <string>

extern std::mutex log_synchronization;  // tfel-check/src/tfel-check.cxx
int tfel_check_real_main(const int, const char* const* const);

extern "C" {
int __real_pthread_mutex_lock(pthread_mutex_t*);
int __real_pthread_mutex_unlock(pthread_mutex_t*);
pid_t __real_waitpid(pid_t, int*, int);
}

enum Kind { LOGLOCK, LOGUNLOCK, POOLLOCK, POOLUNLOCK, WAITFAIL };
static const char* const kind_names[] = {"LOGLOCK", "LOGUNLOCK", "POOLLOCK", "POOLUNLOCK", "WAITFAIL"};
struct Event {
  int tid, kind;
  long a;
};
static constexpr long LOGMAX = 1L << 20;
static Event* evlog = nullptr;
static std::atomic<long> nlog{0};
static std::atomic<int> nthreads{0};
static thread_local int me = -1;
static thread_local unsigned long long rng = 0;
static std::atomic<pthread_mutex_t*> pool_mutex{nullptr};
static pthread_mutex_t* log_mutex = nullptr;
static unsigned long long seed = 1;
static int perturb = 0;

static int tid() {
  if (me < 0) me = nthreads.fetch_add(1);
  return me;
}
static void logev(int kind, long a = 0) {
  if (evlog == nullptr) return;
  const long i = nlog.fetch_add(1);
  if (i < LOGMAX) evlog[i] = Event{tid(), kind + 1, a};
}
static void maybe_delay() {
  if (perturb == 0) return;
  if (rng == 0) rng = seed * 0x9E3779B97F4A7C15ULL + static_cast<unsigned long long>(tid() + 1) * 0xD1B54A32D192ED03ULL;
  rng ^= rng << 13;
  rng ^= rng >> 7;
  rng ^= rng << 17;
  const unsigned r = static_cast<unsigned>(rng >> 33);
  if (static_cast<int>(r % 100) >= perturb) return;
  if ((r / 100) % 4 < 2) {
    sched_yield();
  } else {
    timespec t{0, static_cast<long>(1000 * (1 + (r / 400) % 2000))};
    nanosleep(&t, nullptr);
  }
}

extern "C" {
int __wrap_pthread_mutex_lock(pthread_mutex_t* m) {
  if (evlog == nullptr) return __real_pthread_mutex_lock(m);
  const bool is_log = (m == log_mutex);
  if (!is_log && tid() != 0 && pool_mutex.load() == nullptr) {
    pthread_mutex_t* expected = nullptr;
    pool_mutex.compare_exchange_strong(expected, m);
  }
  const bool is_pool = (m == pool_mutex.load());
  if (is_log || is_pool) maybe_delay();
  const int r = __real_pthread_mutex_lock(m);
  if (is_log) logev(LOGLOCK);
  if (is_pool) logev(POOLLOCK);
  return r;
}
int __wrap_pthread_mutex_unlock(pthread_mutex_t* m) {
  if (evlog == nullptr) return __real_pthread_mutex_unlock(m);
  if (m == log_mutex) logev(LOGUNLOCK);
  if (m == pool_mutex.load()) logev(POOLUNLOCK);
  return __real_pthread_mutex_unlock(m);
}
pid_t __wrap_waitpid(pid_t pid, int* status, int options) {
  const pid_t r = __real_waitpid(pid, status, options);
  if (r == -1 && !(options & WNOHANG)) {
    const int e = errno;
    logev(WAITFAIL, e);
    errno = e;
  }
  return r;
}
}

// Diagnosis only, never a verdict by itself: if tfel-check has not finished after C52_WATCHDOG seconds (it does deadlock
// now and then: a SIGCHLD handler locking processesAccess in a thread that already holds it), ask gdb for the stacks of
// all threads, store them next to the trace and leave with status 97.
static void* watchdog(void* arg) {
  const long s = reinterpret_cast<long>(arg);
  timespec t{s, 0};
  while (nanosleep(&t, &t) == -1 && errno == EINTR) {
  }
  const char* f = std::getenv("C52_TRACE");
  const std::string out = std::string(f != nullptr ? f : "/dev/null") + ".hang";
  const std::string pid = std::to_string(getpid());
  const pid_t p = fork();
  if (p == 0) {
    const int fd = open(out.c_str(), O_WRONLY | O_CREAT | O_TRUNC, 0644);
    if (fd >= 0) {
      dup2(fd, 1);
      dup2(fd, 2);
    }
    execlp("gdb", "gdb", "-q", "-batch", "-p", pid.c_str(), "-ex", "thread apply all bt 16", static_cast<char*>(nullptr));
    _exit(127);
  }
  int st = 0;
  if (p > 0) __real_waitpid(p, &st, 0);
  _exit(97);
}

int main(const int argc, const char* const* const argv) {
  me = nthreads.fetch_add(1);  // the main thread is thread 0
  if (const char* s = std::getenv("C52_SEED")) seed = std::strtoull(s, nullptr, 10);
  if (const char* s = std::getenv("C52_PERTURB")) perturb = std::atoi(s);
  log_mutex = log_synchronization.native_handle();
  if (const char* s = std::getenv("C52_WATCHDOG")) {
    sigset_t all, old;
    sigfillset(&all);
    pthread_sigmask(SIG_BLOCK, &all, &old);  // the watchdog thread takes no signal
    pthread_t th;
    pthread_create(&th, nullptr, watchdog, reinterpret_cast<void*>(std::atol(s)));
    pthread_sigmask(SIG_SETMASK, &old, nullptr);
  }
  evlog = static_cast<Event*>(std::calloc(LOGMAX, sizeof(Event)));
  const int rc = tfel_check_real_main(argc, argv);
  if (const char* f = std::getenv("C52_TRACE")) {
    if (FILE* o = std::fopen(f, "w")) {
      const long n = nlog.load();
      for (long i = 0; i < n && i < LOGMAX; ++i) {
        if (evlog[i].kind <= 0) continue;
        std::fprintf(o, "%d %s %ld\n", evlog[i].tid, kind_names[evlog[i].kind - 1], evlog[i].a);
      }
      std::fclose(o);
    }
  }
  return rc;
}

// C52 -- the REAL tfel-check, rebuilt from /repo's working tree: tfel-check/src/tfel-check.cxx (its `main` renamed by
// -Dmain=tfel_check_real_main), the TFELCheck library sources and src/System/{ThreadPool,ProcessManager,SignalManager,..}
// are compiled into this executable; only the other TFEL libraries come from /repo/_build (a private copy of them).
// No source hook: pthread_mutex_lock/unlock, waitpid, sigaction and SignalManager::registerHandler / removeHandler are
// redirected at link time (-Wl,--wrap=...).
//  * operations on `log_synchronization` (the log mutex of tfel-check.cxx) and on the ThreadPool's mutex (recognised as
//    the first mutex ever locked by a thread other than the main one: a worker starts by locking it) are logged with a
//    global sequence number (LOCK after acquisition, UNLOCK before release), seeded random delays are injected there;
//  * failing blocking waitpid calls are logged;
//  * the owners of `processesAccess` and `callbacksAccess` are known: a thread that locks one it already holds (the
//    signal handler interrupted the holder) is logged (SELFLOCK) and the process leaves with status 96 instead of hanging;
//  * registerHandler is given a proxy of the handler; when the code deletes it, a tombstone stays in its storage: the
//    call of a handler that removeHandler has deleted is an event of the log (HEXEC_DELETED) instead of a crash;
//  * $C52_WIDEN (microseconds): pause of a thread that has just released callbacksAccess inside the signal handler
//    (the pinned treatAction then calls the copied handlers): widens the window of defect F19, changes nothing else.
// The log is kept in the file $C52_TRACE (binary, mmap'ed: it survives a crash).
#undef main
#include <atomic>
#include <cerrno>
#include <cstddef>
#include <cstdio>
#include <cstdlib>
#include <mutex>
#include <new>
#include <pthread.h>
#include <sched.h>
#include <signal.h>
#include <sys/mman.h>
#include <sys/prctl.h>
#include <sys/types.h>
#include <sys/wait.h>
#include <time.h>
#include <unistd.h>
#include <fcntl.h>
#include <string>
#include "TFEL/System/SignalHandler.hxx"

extern std::mutex log_synchronization;  // tfel-check/src/tfel-check.cxx
// src/System/ProcessManager.cxx, src/System/SignalManager.cxx (std::mutex or std::recursive_mutex)
extern pthread_mutex_t c52_processesAccess __asm__("processesAccess");
extern pthread_mutex_t c52_callbacksAccess __asm__("callbacksAccess");
int tfel_check_real_main(const int, const char* const* const);

#define REGISTER_HANDLER _ZN4tfel6system13SignalManager15registerHandlerEiPNS0_13SignalHandlerER9sigaction
#define REMOVE_HANDLER _ZN4tfel6system13SignalManager13removeHandlerEm
#define WRAP_(x) __wrap_##x
#define REAL_(x) __real_##x
#define WRAP(x) WRAP_(x)
#define REAL(x) REAL_(x)

extern "C" {
int __real_pthread_mutex_lock(pthread_mutex_t*);
int __real_pthread_mutex_unlock(pthread_mutex_t*);
pid_t __real_waitpid(pid_t, int*, int);
pid_t __real_fork(void);
int __real_sigaction(int, const struct sigaction*, struct sigaction*);
std::size_t REAL(REGISTER_HANDLER)(void*, int, tfel::system::SignalHandler*, struct sigaction*);
void REAL(REMOVE_HANDLER)(void*, std::size_t);
}

enum Kind { LOGLOCK, LOGUNLOCK, POOLLOCK, POOLUNLOCK, WAITFAIL, SELFLOCK, HEXEC_BEGIN, HEXEC_END, HEXEC_DELETED, HDELETE,
            REG_RET, REM_CALL, REM_RET, SIG_ENTER, SIG_RETURN, SIG_DEFERRED, CUNLOCK_IN_HANDLER };
struct Event {
  int tid, kind;
  long a;
};
static constexpr long LOGMAX = 1L << 20;
struct Log {
  std::atomic<long> n;
  long pad;
  Event ev[LOGMAX];
};
static Log* evlog = nullptr;
static std::atomic<int> nthreads{0};
static thread_local int me = -1;
static thread_local int hdepth = 0;
static thread_local unsigned long long rng = 0;
static std::atomic<pthread_mutex_t*> pool_mutex{nullptr};
static pthread_mutex_t* log_mutex = nullptr;
static pthread_mutex_t* const pmutex = &c52_processesAccess;
static pthread_mutex_t* const cmutex = &c52_callbacksAccess;
static unsigned long long seed = 1;
static int perturb = 0;
static long widen_us = 0;

static int tid() {
  if (me < 0) me = nthreads.fetch_add(1);
  return me;
}
static void logev(int kind, long a = 0) {
  if (evlog == nullptr) return;
  const long i = evlog->n.fetch_add(1);
  if (i < LOGMAX) evlog->ev[i] = Event{tid(), kind + 1, a};
}
static void sleep_us(long us) {
  if (us <= 0) return;
  timespec t{us / 1000000, (us % 1000000) * 1000};
  while (nanosleep(&t, &t) == -1 && errno == EINTR) {
  }
}
static void maybe_delay() {
  if (perturb == 0) return;
  if (rng == 0) rng = seed * 0x9E3779B97F4A7C15ULL + static_cast<unsigned long long>(tid() + 1) * 0xD1B54A32D192ED03ULL;
  rng ^= rng << 13;
  rng ^= rng >> 7;
  rng ^= rng << 17;
  const unsigned r = static_cast<unsigned>(rng >> 33);
  if (static_cast<int>(r % 100) >= perturb) return;
  if ((r / 100) % 4 < 2) {
    sched_yield();
  } else {
    timespec t{0, static_cast<long>(1000 * (1 + (r / 400) % 2000))};
    nanosleep(&t, nullptr);
  }
}

// ---------------------------------------------------------------- memory allocation and signals
// treatAction and the handlers allocate memory, which is not async-signal-safe: a SIGCHLD delivered while its thread is
// inside malloc/free makes the handler wait for the arena lock held by the code it interrupted (props/C30/NOTES.md, F24).
// That hazard of the real code is outside the model; so that it cannot hang a run, a SIGCHLD that arrives while the thread
// is inside the malloc family is counted, not treated, and sent again to the same thread when the allocation returns.
static thread_local int alloc_depth = 0;
static thread_local bool sigchld_deferred = false;
static inline void alloc_enter() { ++alloc_depth; }
static inline void alloc_leave() {
  if (--alloc_depth == 0 && sigchld_deferred) {
    sigchld_deferred = false;
    pthread_kill(pthread_self(), SIGCHLD);
  }
}
#ifndef C52_NO_MALLOC_WRAP
extern "C" {
void* __libc_malloc(size_t);
void __libc_free(void*);
void* __libc_calloc(size_t, size_t);
void* __libc_realloc(void*, size_t);
void* __libc_memalign(size_t, size_t);
void* malloc(size_t n) {
  alloc_enter();
  void* const p = __libc_malloc(n);
  alloc_leave();
  return p;
}
void free(void* p) {
  alloc_enter();
  __libc_free(p);
  alloc_leave();
}
void* calloc(size_t a, size_t b) {
  alloc_enter();
  void* const p = __libc_calloc(a, b);
  alloc_leave();
  return p;
}
void* realloc(void* q, size_t n) {
  alloc_enter();
  void* const p = __libc_realloc(q, n);
  alloc_leave();
  return p;
}
void* memalign(size_t a, size_t n) {
  alloc_enter();
  void* const p = __libc_memalign(a, n);
  alloc_leave();
  return p;
}
void* aligned_alloc(size_t a, size_t n) { return memalign(a, n); }
int posix_memalign(void** r, size_t a, size_t n) {
  void* const p = memalign(a, n);
  if (p == nullptr) return ENOMEM;
  *r = p;
  return 0;
}
}
#endif

// ---------------------------------------------------------------- handlers
static constexpr int NPROXY = 1 << 17;
struct Slot {
  int serial;
  alignas(16) unsigned char storage[64];
};
static Slot* slots = nullptr;
static std::atomic<int> next_serial{0};
struct Tombstone final : public tfel::system::SignalHandler {
  explicit Tombstone(const int s) : serial(s) {}
  void execute(const int) override { logev(HEXEC_DELETED, serial); }
  ~Tombstone() override = default;
  static void operator delete(void*) {}
  int serial;
};
struct Proxy final : public tfel::system::SignalHandler {
  Proxy(tfel::system::SignalHandler* const o, const int s) : orig(o), serial(s) {}
  void execute(const int sig) override {
    logev(HEXEC_BEGIN, serial);
    orig->execute(sig);
    logev(HEXEC_END, serial);
  }
  ~Proxy() override {
    logev(HDELETE, serial);
    delete orig;
  }
  static void operator delete(void* p) {
    Slot* const s = reinterpret_cast<Slot*>(static_cast<unsigned char*>(p) - offsetof(Slot, storage));
    new (p) Tombstone(s->serial);
  }
  tfel::system::SignalHandler* orig;
  int serial;
};
static_assert(sizeof(Proxy) <= 64 && sizeof(Tombstone) <= 64, "slot too small");

static std::atomic<int> p_owner{-1}, c_owner{-1}, c_owner_depth{0}, c_count{0};
[[noreturn]] static void self_lock(const int which) {
  logev(SELFLOCK, which);
  _exit(96);
}

extern "C" {
int __wrap_pthread_mutex_lock(pthread_mutex_t* m) {
  if (evlog == nullptr) return __real_pthread_mutex_lock(m);
  if (m == pmutex || m == cmutex) {
    // signals are blocked while [acquire; note the owner] so that a handler interrupting this thread sees the truth
    const int saved = errno;
    sigset_t all, old;
    sigfillset(&all);
    pthread_sigmask(SIG_BLOCK, &all, &old);
    int r = 0;
    if (m == pmutex) {
      if (p_owner.load() == tid()) self_lock(0);
      r = __real_pthread_mutex_lock(m);
      p_owner.store(tid());
    } else {
      const bool recursive = (m->__data.__kind & 127) == PTHREAD_MUTEX_RECURSIVE_NP;
      if (c_owner.load() == tid() && !(recursive && c_owner_depth.load() == hdepth)) self_lock(1);
      r = __real_pthread_mutex_lock(m);
      if (c_count.fetch_add(1) == 0) {
        c_owner.store(tid());
        c_owner_depth.store(hdepth);
      }
    }
    pthread_sigmask(SIG_SETMASK, &old, nullptr);
    errno = saved;
    return r;
  }
  const bool is_log = (m == log_mutex);
  if (!is_log && tid() != 0 && pool_mutex.load() == nullptr) {
    pthread_mutex_t* expected = nullptr;
    pool_mutex.compare_exchange_strong(expected, m);
  }
  const bool is_pool = (m == pool_mutex.load());
  if (is_log || is_pool) maybe_delay();
  const int r = __real_pthread_mutex_lock(m);
  if (is_log) logev(LOGLOCK);
  if (is_pool) logev(POOLLOCK);
  return r;
}
int __wrap_pthread_mutex_unlock(pthread_mutex_t* m) {
  if (evlog == nullptr) return __real_pthread_mutex_unlock(m);
  if (m == pmutex || m == cmutex) {
    const int saved = errno;
    sigset_t all, old;
    sigfillset(&all);
    pthread_sigmask(SIG_BLOCK, &all, &old);
    bool pause = false;
    if (m == pmutex) {
      p_owner.store(-1);
    } else if (c_count.fetch_sub(1) == 1) {
      c_owner.store(-1);
      pause = hdepth > 0;
      if (pause) logev(CUNLOCK_IN_HANDLER);
    }
    const int r = __real_pthread_mutex_unlock(m);
    pthread_sigmask(SIG_SETMASK, &old, nullptr);
    if (pause && widen_us > 0) sleep_us(widen_us);
    errno = saved;
    return r;
  }
  if (m == log_mutex) logev(LOGUNLOCK);
  if (m == pool_mutex.load()) logev(POOLUNLOCK);
  return __real_pthread_mutex_unlock(m);
}
pid_t __wrap_fork(void) {
  const pid_t parent = getpid();
  const pid_t p = __real_fork();
  if (p == 0) {
    // a command must not outlive tfel-check (the driver leaves at once when it detects a self-lock)
    prctl(PR_SET_PDEATHSIG, SIGKILL);
    if (getppid() != parent) _exit(125);
  }
  return p;
}
pid_t __wrap_waitpid(pid_t pid, int* status, int options) {
  const pid_t r = __real_waitpid(pid, status, options);
  if (r == -1 && !(options & WNOHANG)) {
    const int e = errno;
    logev(WAITFAIL, e);
    errno = e;
  }
  return r;
}

static void (*real_handler[65])(int);
static void trampoline(int sig) {
  const int saved = errno;
  if (sig == SIGCHLD && alloc_depth > 0 && hdepth == 0) {
    sigchld_deferred = true;
    logev(SIG_DEFERRED, sig);
    errno = saved;
    return;
  }
  ++hdepth;
  logev(SIG_ENTER, sig);
  if (sig >= 0 && sig < 65 && real_handler[sig] != nullptr) real_handler[sig](sig);
  logev(SIG_RETURN, sig);
  --hdepth;
  errno = saved;
}
int __wrap_sigaction(int sig, const struct sigaction* act, struct sigaction* old) {
  if (evlog == nullptr || act == nullptr || sig < 0 || sig >= 65 || (act->sa_flags & SA_SIGINFO) || act->sa_handler == SIG_DFL ||
      act->sa_handler == SIG_IGN) {
    return __real_sigaction(sig, act, old);
  }
  struct sigaction a = *act;
  real_handler[sig] = act->sa_handler;
  a.sa_handler = trampoline;
  return __real_sigaction(sig, &a, old);
}
std::size_t WRAP(REGISTER_HANDLER)(void* self, int sig, tfel::system::SignalHandler* f, struct sigaction* action) {
  tfel::system::SignalHandler* h = f;
  const int serial = next_serial.fetch_add(1);
  if (slots != nullptr && serial < NPROXY) {
    slots[serial].serial = serial;
    h = new (slots[serial].storage) Proxy(f, serial);
  }
  const std::size_t id = REAL(REGISTER_HANDLER)(self, sig, h, action);
  logev(REG_RET, static_cast<long>(id) * 1000000L + serial);
  return id;
}
void WRAP(REMOVE_HANDLER)(void* self, std::size_t id) {
  logev(REM_CALL, static_cast<long>(id));
  REAL(REMOVE_HANDLER)(self, id);
  logev(REM_RET, static_cast<long>(id));
}
}

// Diagnosis only, never a verdict by itself: if tfel-check has not finished after C52_WATCHDOG seconds, ask gdb for the
// stacks of all threads (at most 30 s), store them next to the trace and leave with status 97.
static void* watchdog(void* arg) {
  const long s = reinterpret_cast<long>(arg);
  timespec t{s, 0};
  while (nanosleep(&t, &t) == -1 && errno == EINTR) {
  }
  const char* f = std::getenv("C52_TRACE");
  const std::string out = std::string(f != nullptr ? f : "/dev/null") + ".hang";
  const std::string pid = std::to_string(getpid());
  const pid_t p = __real_fork();
  if (p == 0) {
    const int fd = open(out.c_str(), O_WRONLY | O_CREAT | O_TRUNC, 0644);
    if (fd >= 0) {
      dup2(fd, 1);
      dup2(fd, 2);
    }
    execlp("gdb", "gdb", "-q", "-batch", "-p", pid.c_str(), "-ex", "thread apply all bt 24", static_cast<char*>(nullptr));
    _exit(127);
  }
  int st = 0;
  for (int i = 0; p > 0 && i < 300 && __real_waitpid(p, &st, WNOHANG) == 0; ++i) sleep_us(100000);
  if (p > 0) kill(p, SIGKILL);
  _exit(97);
}

int main(const int argc, const char* const* const argv) {
  me = nthreads.fetch_add(1);  // the main thread is thread 0
  if (const char* s = std::getenv("C52_SEED")) seed = std::strtoull(s, nullptr, 10);
  if (const char* s = std::getenv("C52_PERTURB")) perturb = std::atoi(s);
  if (const char* s = std::getenv("C52_WIDEN")) widen_us = std::atol(s);
  log_mutex = log_synchronization.native_handle();
  if (const char* s = std::getenv("C52_WATCHDOG")) {
    sigset_t all, old;
    sigfillset(&all);
    pthread_sigmask(SIG_BLOCK, &all, &old);  // the watchdog thread takes no signal
    pthread_t th;
    pthread_create(&th, nullptr, watchdog, reinterpret_cast<void*>(std::atol(s)));
    pthread_sigmask(SIG_SETMASK, &old, nullptr);
  }
  void* mem = MAP_FAILED;
  if (const char* f = std::getenv("C52_TRACE")) {
    const int fd = open(f, O_RDWR | O_CREAT | O_TRUNC, 0644);
    if (fd >= 0 && ftruncate(fd, sizeof(Log)) == 0) mem = mmap(nullptr, sizeof(Log), PROT_READ | PROT_WRITE, MAP_SHARED, fd, 0);
    if (fd >= 0) close(fd);
  }
  if (mem == MAP_FAILED) mem = mmap(nullptr, sizeof(Log), PROT_READ | PROT_WRITE, MAP_PRIVATE | MAP_ANONYMOUS, -1, 0);
  if (mem == MAP_FAILED) return 98;
  if (std::getenv("C52_NOPROXY") == nullptr) {
    void* const s = mmap(nullptr, sizeof(Slot) * NPROXY, PROT_READ | PROT_WRITE, MAP_PRIVATE | MAP_ANONYMOUS, -1, 0);
    if (s != MAP_FAILED) slots = static_cast<Slot*>(s);
  }
  static_cast<Log*>(mem)->n.store(0);
  evlog = static_cast<Log*>(mem);
  return tfel_check_real_main(argc, argv);
}

(* C52 -- executable model of TFELCheck::execute (tfel-check/src/tfel-check.cxx). Definitions only.
   Each .check file is a task of the ThreadPool (C29: started in submission order, each exactly once); the task builds its
   block in a private stream and, under `log_synchronization`, appends it to tfel-check.log; the exit status is
   computed from the futures in submission order after pool.wait().
     Start i    a worker takes task i (tasks are popped in submission order)
     Append i   { lock_guard guard(log_synchronization); log_file << output.str(); }   (one atomic step)
     Finish i   the task returns its verdict *)
From Coq Require Import List Arith Bool.
From C52 Require Import C52Spec.
Import ListNotations.

Inductive event := Start (i : nat) | Append (i : nat) | Finish (i : nat).

Record state := mk {
  log : list line;
  started : nat;            (* tasks 0 .. started-1 have been taken *)
  appended : list nat;      (* tasks whose block is in the log, in log order *)
  finished : list nat }.

Definition init : state := mk [] 0 [] [].
Definition default_check : check := mkCheck [] true.
Definition mem (i : nat) (l : list nat) : bool := existsb (Nat.eqb i) l.

Definition step_fn (cs : list check) (s : state) (e : event) : option state :=
  match e with
  | Start i => if Nat.eqb i (started s) && Nat.ltb i (length cs)
               then Some (mk (log s) (S (started s)) (appended s) (finished s)) else None
  | Append i => if Nat.ltb i (started s) && negb (mem i (appended s)) && negb (mem i (finished s))
                then Some (mk (log s ++ block (nth i cs default_check)) (started s) (appended s ++ [i]) (finished s))
                else None
  | Finish i => if mem i (appended s) && negb (mem i (finished s))
                then Some (mk (log s) (started s) (appended s) (i :: finished s)) else None
  end.

Definition step (cs : list check) (s : state) (e : event) (s' : state) : Prop := step_fn cs s e = Some s'.

Inductive steps (cs : list check) : state -> list event -> state -> Prop :=
| steps_nil : forall s, steps cs s [] s
| steps_cons : forall s e s1 tr s2, step cs s e s1 -> steps cs s1 tr s2 -> steps cs s (e :: tr) s2.

Fixpoint run (cs : list check) (s : state) (tr : list event) : option state :=
  match tr with
  | [] => Some s
  | e :: r => match step_fn cs s e with Some s1 => run cs s1 r | None => None end
  end.

Definition accepts (cs : list check) (tr : list event) : bool :=
  match run cs init tr with Some _ => true | None => false end.

(* the exit status computed by TFELCheck::execute from the futures, read in submission order *)
Definition exit_failure (cs : list check) : bool := existsb (fun c => negb (passed c)) cs.
(* ... and what it would be if the verdicts were collected in any other order *)
Definition exit_failure_in_order (cs : list check) (order : list nat) : bool :=
  existsb (fun i => negb (passed (nth i cs default_check))) order.

(* ---- TestLauncher::execute (tfel-check/src/TestLauncher.cxx): the verdict of one check ----
   gsuccess = true; an unmet requirement: every command is reported as skipped, return gsuccess (true);
   loop over ALL commands (a failed command does not stop the loop): on failure gsuccess = false unless
   discard_commands_failure and there are comparisons; then loop over ALL comparisons (run even when a command failed):
   gsuccess = (gsuccess == false ? false : success). *)
Fixpoint run_commands (disc tests_empty : bool) (cmds : list bool) (g : bool) : bool * list bool :=
  match cmds with
  | [] => (g, [])
  | ok :: r => let g' := if ok then g else if negb disc then false else if tests_empty then false else g in
               let (g2, out) := run_commands disc tests_empty r g' in (g2, ok :: out)
  end.
Fixpoint run_tests (tests : list bool) (g : bool) : bool * list bool :=
  match tests with
  | [] => (g, [])
  | ok :: r => let g' := if negb g then false else ok in
               let (g2, out) := run_tests r g' in (g2, ok :: out)
  end.
Definition launcher_execute (d : cdef) : result :=
  if req_ok d then
    let (g1, cl) := run_commands (discard d) (no_tests d) (cmd_ok d) true in
    let (g2, tl) := run_tests (test_ok d) g1 in mkRes g2 cl tl 0
  else mkRes true [] [] (length (cmd_ok d)).

(* ---- the pool run with recorded results: the task of check i returns launcher_execute of ITS OWN definition (a
   TestLauncher, its Comparison objects, its PCLogger and its output stream are private to the task) ---- *)
Inductive revent := RStart (i : nat) | RAppend (i : nat) | RFinish (i : nat) (r : result).
Definition erase (e : revent) : event :=
  match e with RStart i => Start i | RAppend i => Append i | RFinish i _ => Finish i end.
Record rstate := mkR { core : state; recorded : list (nat * result) }.
Definition rinit : rstate := mkR init [].
Definition default_def : cdef := mkDef true false [] [].
Definition result_eq_dec : forall a b : result, {a = b} + {a <> b}.
Proof. repeat decide equality. Defined.

Definition rstep_fn (cs : list check) (ds : list cdef) (s : rstate) (e : revent) : option rstate :=
  match step_fn cs (core s) (erase e) with
  | None => None
  | Some c' =>
      match e with
      | RFinish i r => if result_eq_dec r (launcher_execute (nth i ds default_def))
                       then Some (mkR c' (recorded s ++ [(i, r)])) else None
      | _ => Some (mkR c' (recorded s))
      end
  end.
Definition rstep cs ds s e s' : Prop := rstep_fn cs ds s e = Some s'.
Inductive rsteps (cs : list check) (ds : list cdef) : rstate -> list revent -> rstate -> Prop :=
| rsteps_nil : forall s, rsteps cs ds s [] s
| rsteps_cons : forall s e s1 tr s2, rstep cs ds s e s1 -> rsteps cs ds s1 tr s2 -> rsteps cs ds s (e :: tr) s2.
Fixpoint rrun cs ds (s : rstate) (tr : list revent) : option rstate :=
  match tr with
  | [] => Some s
  | e :: r => match rstep_fn cs ds s e with Some s1 => rrun cs ds s1 r | None => None end
  end.
Definition raccepts cs ds tr : bool := match rrun cs ds rinit tr with Some _ => true | None => false end.
(* the exit status computed from the recorded results (the futures hold what the tasks returned) *)
Definition exit_from_recorded (rec : list (nat * result)) : bool := existsb (fun p => negb (r_verdict (snd p))) rec.
(* the trace of the sequential run *)
Definition sequential_trace (ds : list cdef) : list revent :=
  flat_map (fun i => [RStart i; RAppend i; RFinish i (launcher_execute (nth i ds default_def))]) (seq 0 (length ds)).

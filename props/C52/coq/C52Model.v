(* C52 -- executable model of TFELCheck::execute (tfel-check/src/tfel-check.cxx). Definitions only.
   Each .check file is a task of the ThreadPool (C29: started in submission order, each exactly once); the task builds its
   block in a private stream and, under `log_synchronization`, appends it to tfel-check.log; the exit status is
   computed from the futures in submission order after pool.wait().
     Start i    a worker takes task i (tasks are popped in submission order)
     Append i   { lock_guard guard(log_synchronization); log_file << output.str(); }   (one atomic step)
     Finish i   the task returns its verdict *)
From Coq Require Import List Arith Bool.
From C52 Require Import C52Spec.
Import ListNotations.

Inductive event := Start (i : nat) | Append (i : nat) | Finish (i : nat).

Record state := mk {
  log : list line;
  started : nat;            (* tasks 0 .. started-1 have been taken *)
  appended : list nat;      (* tasks whose block is in the log, in log order *)
  finished : list nat }.

Definition init : state := mk [] 0 [] [].
Definition default_check : check := mkCheck [] true.
Definition mem (i : nat) (l : list nat) : bool := existsb (Nat.eqb i) l.

Definition step_fn (cs : list check) (s : state) (e : event) : option state :=
  match e with
  | Start i => if Nat.eqb i (started s) && Nat.ltb i (length cs)
               then Some (mk (log s) (S (started s)) (appended s) (finished s)) else None
  | Append i => if Nat.ltb i (started s) && negb (mem i (appended s)) && negb (mem i (finished s))
                then Some (mk (log s ++ block (nth i cs default_check)) (started s) (appended s ++ [i]) (finished s))
                else None
  | Finish i => if mem i (appended s) && negb (mem i (finished s))
                then Some (mk (log s) (started s) (appended s) (i :: finished s)) else None
  end.

Definition step (cs : list check) (s : state) (e : event) (s' : state) : Prop := step_fn cs s e = Some s'.

Inductive steps (cs : list check) : state -> list event -> state -> Prop :=
| steps_nil : forall s, steps cs s [] s
| steps_cons : forall s e s1 tr s2, step cs s e s1 -> steps cs s1 tr s2 -> steps cs s (e :: tr) s2.

Fixpoint run (cs : list check) (s : state) (tr : list event) : option state :=
  match tr with
  | [] => Some s
  | e :: r => match step_fn cs s e with Some s1 => run cs s1 r | None => None end
  end.

Definition accepts (cs : list check) (tr : list event) : bool :=
  match run cs init tr with Some _ => true | None => false end.

(* the exit status computed by TFELCheck::execute from the futures, read in submission order *)
Definition exit_failure (cs : list check) : bool := existsb (fun c => negb (passed c)) cs.
(* ... and what it would be if the verdicts were collected in any other order *)
Definition exit_failure_in_order (cs : list check) (order : list nat) : bool :=
  existsb (fun i => negb (passed (nth i cs default_check))) order.

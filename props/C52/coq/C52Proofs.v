From Coq Require Import List Arith Bool Lia Permutation.
From C52 Require Import C52Spec C52Model.
Import ListNotations.

Lemma mem_In : forall i l, mem i l = true <-> In i l.
Proof.
  intros i l; unfold mem; rewrite existsb_exists; split.
  - intros [x [H E]]; apply Nat.eqb_eq in E; subst; exact H.
  - intro H; exists i; split; [exact H|apply Nat.eqb_refl].
Qed.
Lemma mem_false : forall i l, mem i l = false <-> ~ In i l.
Proof. intros i l; rewrite <- mem_In; destruct (mem i l); split; intro H; congruence. Qed.

Lemma NoDup_app_single : forall (l : list nat) i, NoDup l -> ~ In i l -> NoDup (l ++ [i]).
Proof.
  induction l as [|x r IH]; intros i N H; simpl.
  - constructor; [tauto|constructor].
  - inversion N; subst. constructor.
    + intro K; apply in_app_or in K; destruct K as [K|[K|[]]]; [tauto|subst; apply H; left; reflexivity].
    + apply IH; [assumption|intro K; apply H; right; exact K].
Qed.

Record Inv (cs : list check) (s : state) : Prop := {
  i_log : log s = flat_map (fun i => block (nth i cs default_check)) (appended s);
  i_nodup : NoDup (appended s);
  i_app_started : forall i, In i (appended s) -> i < started s;
  i_started : started s <= length cs;
  i_fin : forall i, In i (finished s) -> In i (appended s);
  i_fin_nodup : NoDup (finished s) }.

Lemma inv_init : forall cs, Inv cs init.
Proof. intro cs; constructor; simpl; try constructor; try tauto; lia. Qed.

Lemma step_inv : forall cs s e s', step cs s e s' -> Inv cs s -> Inv cs s'.
Proof.
  intros cs s e s' H [Il In_ Ia Is If Ifn]; unfold step in H; destruct e as [i|i|i]; simpl in H.
  - destruct (Nat.eqb i (started s) && Nat.ltb i (length cs)) eqn:G; [|discriminate]. inversion H; subst; clear H.
    apply andb_true_iff in G; destruct G as [G1 G2]. apply Nat.eqb_eq in G1. apply Nat.ltb_lt in G2.
    constructor; simpl; auto; [intros j Hj; specialize (Ia j Hj); lia | lia].
  - destruct (Nat.ltb i (started s) && negb (mem i (appended s)) && negb (mem i (finished s))) eqn:G; [|discriminate].
    inversion H; subst; clear H. apply andb_true_iff in G; destruct G as [G G3]. apply andb_true_iff in G; destruct G as [G1 G2].
    apply Nat.ltb_lt in G1. apply negb_true_iff in G2. apply mem_false in G2.
    constructor; simpl; auto.
    + rewrite flat_map_app, Il; simpl; rewrite app_nil_r; reflexivity.
    + apply NoDup_app_single; assumption.
    + intros j Hj; apply in_app_or in Hj; destruct Hj as [Hj|[Hj|[]]]; [apply Ia, Hj|subst; exact G1].
    + intros j Hj; apply in_or_app; left; apply If, Hj.
  - destruct (mem i (appended s) && negb (mem i (finished s))) eqn:G; [|discriminate]. inversion H; subst; clear H.
    apply andb_true_iff in G; destruct G as [G1 G2]. apply mem_In in G1. apply negb_true_iff in G2. apply mem_false in G2.
    constructor; simpl; auto.
    + intros j [Hj|Hj]; [subst; exact G1|apply If, Hj].
    + constructor; assumption.
Qed.

Lemma steps_inv : forall cs s tr s', steps cs s tr s' -> Inv cs s -> Inv cs s'.
Proof. induction 1; intro I; [exact I|]. apply IHsteps, (step_inv _ _ _ _ H I). Qed.

(* a duplicate-free list of numbers below n that has n elements enumerates 0..n-1 *)
Lemma nodup_bounded_perm : forall n l, NoDup l -> (forall i, In i l -> i < n) -> length l = n -> Permutation l (seq 0 n).
Proof.
  intros n l N B L. apply NoDup_Permutation_bis; [exact N | rewrite seq_length; lia |].
  intros i Hi; apply in_seq; specialize (B i Hi); lia.
Qed.

(* in every reachable state the log is the concatenation, in log order, of the blocks of distinct started checks *)
Lemma log_uninterleaved : forall cs tr s, steps cs init tr s ->
  log s = flat_map (fun i => block (nth i cs default_check)) (appended s) /\ NoDup (appended s) /\
  (forall i, In i (appended s) -> i < length cs) /\ (forall i, In i (finished s) -> In i (appended s)).
Proof.
  intros cs tr s H. destruct (steps_inv _ _ _ _ H (inv_init cs)) as [Il In_ Ia Is If _].
  repeat split; auto. intros i Hi; specialize (Ia i Hi); lia.
Qed.

(* once every check has returned, the log is well formed: every block exactly once, uninterleaved *)
Lemma log_complete : forall cs tr s, steps cs init tr s -> length (finished s) = length cs ->
  log_well_formed cs (log s).
Proof.
  intros cs tr s H L. destruct (steps_inv _ _ _ _ H (inv_init cs)) as [Il In_ Ia Is If Ifn].
  assert (B : forall i, In i (finished s) -> i < length cs) by (intros i Hi; specialize (Ia i (If i Hi)); lia).
  pose proof (nodup_bounded_perm _ _ Ifn B L) as P.
  assert (La : length (appended s) = length cs).
  { assert (A1 : length (finished s) <= length (appended s)) by (apply NoDup_incl_length; [exact Ifn|exact If]).
    assert (A2 : length (appended s) <= length (seq 0 (length cs))).
    { apply NoDup_incl_length; [exact In_|]. intros i Hi; apply in_seq; specialize (Ia i Hi); lia. }
    rewrite seq_length in A2. lia. }
  exists (appended s); split; [|exact Il].
  apply nodup_bounded_perm; auto. intros i Hi; specialize (Ia i Hi); lia.
Qed.

(* the exit status does not depend on the order in which the verdicts are produced or collected *)
Lemma existsb_perm : forall (A : Type) (f : A -> bool) l l', Permutation l l' -> existsb f l = existsb f l'.
Proof.
  induction 1; simpl; auto.
  - rewrite IHPermutation; reflexivity.
  - destruct (f x), (f y); reflexivity.
  - congruence.
Qed.

Lemma existsb_map : forall (A B : Type) (f : B -> bool) (h : A -> B) l, existsb f (map h l) = existsb (fun x => f (h x)) l.
Proof. induction l; simpl; [reflexivity|rewrite IHl; reflexivity]. Qed.

Lemma map_nth_seq_shift : forall (l : list check) k, map (fun i => nth (i - k) l default_check) (seq k (length l)) = l.
Proof.
  induction l as [|c r IH]; intro k; simpl; [reflexivity|]. rewrite Nat.sub_diag. f_equal.
  rewrite <- (IH (S k)) at 2. apply map_ext_in. intros i Hi. apply in_seq in Hi.
  replace (i - k) with (S (i - S k)) by lia. reflexivity.
Qed.

Lemma exit_in_submission_order : forall cs, exit_failure_in_order cs (seq 0 (length cs)) = exit_failure cs.
Proof.
  intro cs. unfold exit_failure_in_order, exit_failure.
  transitivity (existsb (fun c => negb (passed c)) (map (fun i => nth (i - 0) cs default_check) (seq 0 (length cs)))).
  - rewrite existsb_map. induction (seq 0 (length cs)) as [|x r IH]; simpl; [reflexivity|].
    rewrite Nat.sub_0_r, IH. reflexivity.
  - rewrite map_nth_seq_shift. reflexivity.
Qed.

Lemma exit_independent_of_order : forall cs order, Permutation order (seq 0 (length cs)) ->
  exit_failure_in_order cs order = exit_failure cs.
Proof.
  intros cs order P. rewrite <- exit_in_submission_order. unfold exit_failure_in_order. apply existsb_perm, P.
Qed.

Lemma exit_is_spec : forall cs, exit_failure cs = must_fail cs.
Proof. reflexivity. Qed.

Lemma run_sound : forall cs tr s s', run cs s tr = Some s' -> steps cs s tr s'.
Proof.
  induction tr as [|e r IH]; intros s s' H; simpl in H.
  - inversion H; constructor.
  - destruct (step_fn cs s e) as [s1|] eqn:E; [|discriminate]. econstructor; [exact E | apply IH; exact H].
Qed.
Lemma run_complete : forall cs s tr s', steps cs s tr s' -> run cs s tr = Some s'.
Proof. induction 1; simpl; [reflexivity|]. unfold step in H; rewrite H. exact IHsteps. Qed.
Lemma accepts_sound : forall cs tr, accepts cs tr = true -> exists s, steps cs init tr s.
Proof.
  intros cs tr H; unfold accepts in H. destruct (run cs init tr) as [s|] eqn:E; [|discriminate].
  exists s; apply run_sound; exact E.
Qed.
Lemma accepts_complete : forall cs tr s, steps cs init tr s -> accepts cs tr = true.
Proof. intros cs tr s H; unfold accepts; rewrite (run_complete _ _ _ _ H); reflexivity. Qed.

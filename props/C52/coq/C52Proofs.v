From Coq Require Import List Arith Bool Lia Permutation.
From C52 Require Import C52Spec C52Model.
Import ListNotations.

Lemma mem_In : forall i l, mem i l = true <-> In i l.
Proof.
  intros i l; unfold mem; rewrite existsb_exists; split.
  - intros [x [H E]]; apply Nat.eqb_eq in E; subst; exact H.
  - intro H; exists i; split; [exact H|apply Nat.eqb_refl].
Qed.
Lemma mem_false : forall i l, mem i l = false <-> ~ In i l.
Proof. intros i l; rewrite <- mem_In; destruct (mem i l); split; intro H; congruence. Qed.

Lemma NoDup_app_single : forall (l : list nat) i, NoDup l -> ~ In i l -> NoDup (l ++ [i]).
Proof.
  induction l as [|x r IH]; intros i N H; simpl.
  - constructor; [tauto|constructor].
  - inversion N; subst. constructor.
    + intro K; apply in_app_or in K; destruct K as [K|[K|[]]]; [tauto|subst; apply H; left; reflexivity].
    + apply IH; [assumption|intro K; apply H; right; exact K].
Qed.

Record Inv (cs : list check) (s : state) : Prop := {
  i_log : log s = flat_map (fun i => block (nth i cs default_check)) (appended s);
  i_nodup : NoDup (appended s);
  i_app_started : forall i, In i (appended s) -> i < started s;
  i_started : started s <= length cs;
  i_fin : forall i, In i (finished s) -> In i (appended s);
  i_fin_nodup : NoDup (finished s) }.

Lemma inv_init : forall cs, Inv cs init.
Proof. intro cs; constructor; simpl; try constructor; try tauto; lia. Qed.

Lemma step_inv : forall cs s e s', step cs s e s' -> Inv cs s -> Inv cs s'.
Proof.
  intros cs s e s' H [Il In_ Ia Is If Ifn]; unfold step in H; destruct e as [i|i|i]; simpl in H.
  - destruct (Nat.eqb i (started s) && Nat.ltb i (length cs)) eqn:G; [|discriminate]. inversion H; subst; clear H.
    apply andb_true_iff in G; destruct G as [G1 G2]. apply Nat.eqb_eq in G1. apply Nat.ltb_lt in G2.
    constructor; simpl; auto; [intros j Hj; specialize (Ia j Hj); lia | lia].
  - destruct (Nat.ltb i (started s) && negb (mem i (appended s)) && negb (mem i (finished s))) eqn:G; [|discriminate].
    inversion H; subst; clear H. apply andb_true_iff in G; destruct G as [G G3]. apply andb_true_iff in G; destruct G as [G1 G2].
    apply Nat.ltb_lt in G1. apply negb_true_iff in G2. apply mem_false in G2.
    constructor; simpl; auto.
    + rewrite flat_map_app, Il; simpl; rewrite app_nil_r; reflexivity.
    + apply NoDup_app_single; assumption.
    + intros j Hj; apply in_app_or in Hj; destruct Hj as [Hj|[Hj|[]]]; [apply Ia, Hj|subst; exact G1].
    + intros j Hj; apply in_or_app; left; apply If, Hj.
  - destruct (mem i (appended s) && negb (mem i (finished s))) eqn:G; [|discriminate]. inversion H; subst; clear H.
    apply andb_true_iff in G; destruct G as [G1 G2]. apply mem_In in G1. apply negb_true_iff in G2. apply mem_false in G2.
    constructor; simpl; auto.
    + intros j [Hj|Hj]; [subst; exact G1|apply If, Hj].
    + constructor; assumption.
Qed.

Lemma steps_inv : forall cs s tr s', steps cs s tr s' -> Inv cs s -> Inv cs s'.
Proof. induction 1; intro I; [exact I|]. apply IHsteps, (step_inv _ _ _ _ H I). Qed.

(* a duplicate-free list of numbers below n that has n elements enumerates 0..n-1 *)
Lemma nodup_bounded_perm : forall n l, NoDup l -> (forall i, In i l -> i < n) -> length l = n -> Permutation l (seq 0 n).
Proof.
  intros n l N B L. apply NoDup_Permutation_bis; [exact N | rewrite seq_length; lia |].
  intros i Hi; apply in_seq; specialize (B i Hi); lia.
Qed.

(* in every reachable state the log is the concatenation, in log order, of the blocks of distinct started checks *)
Lemma log_uninterleaved : forall cs tr s, steps cs init tr s ->
  log s = flat_map (fun i => block (nth i cs default_check)) (appended s) /\ NoDup (appended s) /\
  (forall i, In i (appended s) -> i < length cs) /\ (forall i, In i (finished s) -> In i (appended s)).
Proof.
  intros cs tr s H. destruct (steps_inv _ _ _ _ H (inv_init cs)) as [Il In_ Ia Is If _].
  repeat split; auto. intros i Hi; specialize (Ia i Hi); lia.
Qed.

(* once every check has returned, the log is well formed: every block exactly once, uninterleaved *)
Lemma log_complete : forall cs tr s, steps cs init tr s -> length (finished s) = length cs ->
  log_well_formed cs (log s).
Proof.
  intros cs tr s H L. destruct (steps_inv _ _ _ _ H (inv_init cs)) as [Il In_ Ia Is If Ifn].
  assert (B : forall i, In i (finished s) -> i < length cs) by (intros i Hi; specialize (Ia i (If i Hi)); lia).
  pose proof (nodup_bounded_perm _ _ Ifn B L) as P.
  assert (La : length (appended s) = length cs).
  { assert (A1 : length (finished s) <= length (appended s)) by (apply NoDup_incl_length; [exact Ifn|exact If]).
    assert (A2 : length (appended s) <= length (seq 0 (length cs))).
    { apply NoDup_incl_length; [exact In_|]. intros i Hi; apply in_seq; specialize (Ia i Hi); lia. }
    rewrite seq_length in A2. lia. }
  exists (appended s); split; [|exact Il].
  apply nodup_bounded_perm; auto. intros i Hi; specialize (Ia i Hi); lia.
Qed.

(* the exit status does not depend on the order in which the verdicts are produced or collected *)
Lemma existsb_perm : forall (A : Type) (f : A -> bool) l l', Permutation l l' -> existsb f l = existsb f l'.
Proof.
  induction 1; simpl; auto.
  - rewrite IHPermutation; reflexivity.
  - destruct (f x), (f y); reflexivity.
  - congruence.
Qed.

Lemma existsb_map : forall (A B : Type) (f : B -> bool) (h : A -> B) l, existsb f (map h l) = existsb (fun x => f (h x)) l.
Proof. induction l; simpl; [reflexivity|rewrite IHl; reflexivity]. Qed.

Lemma map_nth_seq_shift : forall (l : list check) k, map (fun i => nth (i - k) l default_check) (seq k (length l)) = l.
Proof.
  induction l as [|c r IH]; intro k; simpl; [reflexivity|]. rewrite Nat.sub_diag. f_equal.
  rewrite <- (IH (S k)) at 2. apply map_ext_in. intros i Hi. apply in_seq in Hi.
  replace (i - k) with (S (i - S k)) by lia. reflexivity.
Qed.

Lemma exit_in_submission_order : forall cs, exit_failure_in_order cs (seq 0 (length cs)) = exit_failure cs.
Proof.
  intro cs. unfold exit_failure_in_order, exit_failure.
  transitivity (existsb (fun c => negb (passed c)) (map (fun i => nth (i - 0) cs default_check) (seq 0 (length cs)))).
  - rewrite existsb_map. induction (seq 0 (length cs)) as [|x r IH]; simpl; [reflexivity|].
    rewrite Nat.sub_0_r, IH. reflexivity.
  - rewrite map_nth_seq_shift. reflexivity.
Qed.

Lemma exit_independent_of_order : forall cs order, Permutation order (seq 0 (length cs)) ->
  exit_failure_in_order cs order = exit_failure cs.
Proof.
  intros cs order P. rewrite <- exit_in_submission_order. unfold exit_failure_in_order. apply existsb_perm, P.
Qed.

Lemma exit_is_spec : forall cs, exit_failure cs = must_fail cs.
Proof. reflexivity. Qed.

Lemma run_sound : forall cs tr s s', run cs s tr = Some s' -> steps cs s tr s'.
Proof.
  induction tr as [|e r IH]; intros s s' H; simpl in H.
  - inversion H; constructor.
  - destruct (step_fn cs s e) as [s1|] eqn:E; [|discriminate]. econstructor; [exact E | apply IH; exact H].
Qed.
Lemma run_complete : forall cs s tr s', steps cs s tr s' -> run cs s tr = Some s'.
Proof. induction 1; simpl; [reflexivity|]. unfold step in H; rewrite H. exact IHsteps. Qed.
Lemma accepts_sound : forall cs tr, accepts cs tr = true -> exists s, steps cs init tr s.
Proof.
  intros cs tr H; unfold accepts in H. destruct (run cs init tr) as [s|] eqn:E; [|discriminate].
  exists s; apply run_sound; exact E.
Qed.
Lemma accepts_complete : forall cs tr s, steps cs init tr s -> accepts cs tr = true.
Proof. intros cs tr s H; unfold accepts; rewrite (run_complete _ _ _ _ H); reflexivity. Qed.

(* ================= second part: verdict of a check, recorded results, exactly once ================= *)

Lemma run_commands_spec : forall disc te cmds g,
  run_commands disc te cmds g = (g && (if disc && negb te then true else all_true cmds), cmds).
Proof.
  induction cmds as [|ok r IH]; intro g; simpl.
  - destruct (disc && negb te); rewrite ?andb_true_r; reflexivity.
  - rewrite IH. unfold all_true in *; simpl. f_equal.
    destruct ok, disc, te, g; simpl; try reflexivity; destruct (forallb (fun b : bool => b) r); reflexivity.
Qed.

Lemma run_tests_spec : forall tests g, run_tests tests g = (g && all_true tests, tests).
Proof.
  induction tests as [|ok r IH]; intro g; simpl.
  - rewrite andb_true_r; reflexivity.
  - rewrite IH. unfold all_true; simpl. f_equal. destruct g, ok; reflexivity.
Qed.

(* TestLauncher::execute computes the specified verdict, runs and records every command and every test (a failed
   command stops neither the other commands nor the tests); an unmet requirement: success, nothing run *)
Lemma launcher_execute_is_spec : forall d, launcher_execute d = check_result d.
Proof.
  intro d. unfold launcher_execute, check_result, check_verdict.
  destruct (req_ok d); [|reflexivity].
  rewrite run_commands_spec, run_tests_spec. reflexivity.
Qed.

Lemma verdict_is_conjunction : forall d, req_ok d = true -> discard d = false ->
  r_verdict (launcher_execute d) = all_true (cmd_ok d) && all_true (test_ok d) /\
  r_cmds (launcher_execute d) = cmd_ok d /\ r_tests (launcher_execute d) = test_ok d.
Proof.
  intros d R D. rewrite launcher_execute_is_spec. unfold check_result, check_verdict. rewrite R, D. simpl. auto.
Qed.

(* the default of tfel-check (discard_commands_failure = true): the commands only count when the check has no test *)
Lemma default_verdict : forall d, req_ok d = true -> discard d = true ->
  r_verdict (launcher_execute d) = (if no_tests d then all_true (cmd_ok d) else all_true (test_ok d)) /\
  r_cmds (launcher_execute d) = cmd_ok d /\ r_tests (launcher_execute d) = test_ok d.
Proof.
  intros d R D. rewrite launcher_execute_is_spec. unfold check_result, check_verdict, no_tests. rewrite R, D. simpl.
  destruct (test_ok d); simpl; rewrite ?andb_true_r; auto.
Qed.

Lemma unmet_requirement_is_success : forall d, req_ok d = false ->
  launcher_execute d = mkRes true [] [] (length (cmd_ok d)).
Proof. intros d R. unfold launcher_execute. rewrite R. reflexivity. Qed.

(* --- the run with recorded results projects onto a run of the first model --- *)
Lemma rstep_core : forall cs ds s e s', rstep cs ds s e s' -> step cs (core s) (erase e) (core s').
Proof.
  intros cs ds s e s' H. unfold rstep, rstep_fn in H. unfold step.
  destruct (step_fn cs (core s) (erase e)) as [c'|]; [|discriminate].
  destruct e as [i|i|i r]; try (inversion H; subst; reflexivity).
  destruct (result_eq_dec r (launcher_execute (nth i ds default_def))); [|discriminate]. inversion H; subst; reflexivity.
Qed.

Lemma rsteps_core : forall cs ds s tr s', rsteps cs ds s tr s' -> steps cs (core s) (map erase tr) (core s').
Proof.
  induction 1; simpl; [constructor|]. econstructor; [eapply rstep_core; exact H | exact IHrsteps].
Qed.

Lemma step_finished : forall cs s e s', step_fn cs s e = Some s' ->
  finished s' = match e with Finish i => i :: finished s | _ => finished s end.
Proof.
  intros cs s e s' H. destruct e as [i|i|i]; simpl in H.
  - destruct (Nat.eqb i (started s) && Nat.ltb i (length cs)); inversion H; reflexivity.
  - destruct (Nat.ltb i (started s) && negb (mem i (appended s)) && negb (mem i (finished s))); inversion H; reflexivity.
  - destruct (mem i (appended s) && negb (mem i (finished s))); inversion H; reflexivity.
Qed.

Definition recorded_of (ds : list cdef) (fin : list nat) : list (nat * result) :=
  map (fun i => (i, launcher_execute (nth i ds default_def))) (rev fin).

(* what is recorded is, in the order of the returns, the result of each returned check computed from its own definition *)
Lemma rstep_recorded : forall cs ds s e s', rstep cs ds s e s' ->
  recorded s = recorded_of ds (finished (core s)) -> recorded s' = recorded_of ds (finished (core s')).
Proof.
  intros cs ds s e s' H I. unfold rstep, rstep_fn in H.
  destruct (step_fn cs (core s) (erase e)) as [c'|] eqn:E; [|discriminate].
  pose proof (step_finished _ _ _ _ E) as F.
  destruct e as [i|i|i r]; simpl in F.
  - inversion H; subst; simpl. rewrite F; exact I.
  - inversion H; subst; simpl. rewrite F; exact I.
  - destruct (result_eq_dec r (launcher_execute (nth i ds default_def))) as [Q|]; [|discriminate].
    inversion H; subst; simpl. rewrite F. unfold recorded_of in *. simpl. rewrite map_app, <- I. reflexivity.
Qed.

Lemma rsteps_recorded : forall cs ds s tr s', rsteps cs ds s tr s' ->
  recorded s = recorded_of ds (finished (core s)) -> recorded s' = recorded_of ds (finished (core s')).
Proof. induction 1; intro I; [exact I|]. apply IHrsteps. eapply rstep_recorded; eauto. Qed.

(* exactly once: when all checks have returned, the checks that were started, those whose block was appended and those
   that returned are each an enumeration of 0..n-1 (every check started once, appended once, finished once) *)
Lemma exactly_once : forall cs ds tr s, rsteps cs ds rinit tr s -> length (finished (core s)) = length cs ->
  started (core s) = length cs /\ Permutation (appended (core s)) (seq 0 (length cs)) /\
  Permutation (finished (core s)) (seq 0 (length cs)) /\ Permutation (map fst (recorded s)) (seq 0 (length cs)).
Proof.
  intros cs ds tr s H L.
  pose proof (rsteps_core _ _ _ _ _ H) as H0. simpl in H0.
  destruct (steps_inv _ _ _ _ H0 (inv_init cs)) as [Il In_ Ia Is If Ifn].
  assert (B : forall i, In i (finished (core s)) -> i < length cs) by (intros i Hi; specialize (Ia i (If i Hi)); lia).
  pose proof (nodup_bounded_perm _ _ Ifn B L) as P.
  assert (La : length (appended (core s)) = length cs).
  { assert (A1 : length (finished (core s)) <= length (appended (core s))) by (apply NoDup_incl_length; [exact Ifn|exact If]).
    assert (A2 : length (appended (core s)) <= length (seq 0 (length cs))).
    { apply NoDup_incl_length; [exact In_|]. intros i Hi; apply in_seq; specialize (Ia i Hi); lia. }
    rewrite seq_length in A2. lia. }
  assert (PA : Permutation (appended (core s)) (seq 0 (length cs))).
  { apply nodup_bounded_perm; auto. intros i Hi; specialize (Ia i Hi); lia. }
  repeat split; auto.
  - destruct (Nat.eq_dec (length cs) 0) as [Z|NZ]; [lia|].
    assert (In (length cs - 1) (appended (core s))).
    { eapply Permutation_in; [apply Permutation_sym, PA|]. apply in_seq; lia. }
    specialize (Ia _ H1). lia.
  - rewrite (rsteps_recorded _ _ _ _ _ H eq_refl). unfold recorded_of. rewrite map_map; simpl. rewrite map_id.
    eapply Permutation_trans; [apply Permutation_sym, Permutation_rev | exact P].
Qed.

(* whatever the schedule, once all checks have returned the recorded (check, verdict, per-command and per-test results)
   are, as a multiset, those of the sequential run *)
Lemma results_schedule_independent : forall cs ds tr s, length cs = length ds ->
  rsteps cs ds rinit tr s -> length (finished (core s)) = length cs ->
  Permutation (recorded s) (sequential_results ds).
Proof.
  intros cs ds tr s Ld H L.
  destruct (exactly_once _ _ _ _ H L) as [_ [_ [P _]]].
  rewrite (rsteps_recorded _ _ _ _ _ H eq_refl). unfold recorded_of, sequential_results. rewrite <- Ld.
  eapply Permutation_trans.
  - apply Permutation_map. eapply Permutation_trans; [apply Permutation_sym, Permutation_rev | exact P].
  - apply Permutation_refl' . apply map_ext. intro i. rewrite launcher_execute_is_spec. reflexivity.
Qed.

Lemma verdict_of_result : forall d, r_verdict (check_result d) = check_verdict d.
Proof. intro d. unfold check_result, check_verdict. destruct (req_ok d); reflexivity. Qed.

Lemma map_nth_seq_defs : forall ds : list cdef, map (fun i => nth i ds default_def) (seq 0 (length ds)) = ds.
Proof. induction ds as [|d r IH]; simpl; [reflexivity|]. f_equal. rewrite <- seq_shift, map_map. exact IH. Qed.

Lemma exit_of_sequential : forall ds, exit_from_recorded (sequential_results ds) = must_fail_defs ds.
Proof.
  intro ds. unfold exit_from_recorded, sequential_results, must_fail_defs. rewrite existsb_map. simpl.
  rewrite <- (map_nth_seq_defs ds) at 2. rewrite existsb_map.
  induction (seq 0 (length ds)) as [|i r IH]; simpl; [reflexivity|].
  rewrite IH, verdict_of_result. reflexivity.
Qed.

(* ... and so is the exit status computed from what the tasks returned *)
Lemma exit_schedule_independent : forall cs ds tr s, length cs = length ds ->
  rsteps cs ds rinit tr s -> length (finished (core s)) = length cs ->
  exit_from_recorded (recorded s) = must_fail_defs ds.
Proof.
  intros cs ds tr s Ld H L. rewrite <- exit_of_sequential. unfold exit_from_recorded.
  apply existsb_perm. eapply results_schedule_independent; eauto.
Qed.

Lemma rrun_sound : forall cs ds tr s s', rrun cs ds s tr = Some s' -> rsteps cs ds s tr s'.
Proof.
  induction tr as [|e r IH]; intros s s' H; simpl in H.
  - inversion H; constructor.
  - destruct (rstep_fn cs ds s e) as [s1|] eqn:E; [|discriminate]. econstructor; [exact E | apply IH; exact H].
Qed.
Lemma rrun_complete : forall cs ds s tr s', rsteps cs ds s tr s' -> rrun cs ds s tr = Some s'.
Proof. induction 1; simpl; [reflexivity|]. unfold rstep in H; rewrite H. exact IHrsteps. Qed.
Lemma raccepts_iff : forall cs ds tr, raccepts cs ds tr = true <-> exists s, rsteps cs ds rinit tr s.
Proof.
  intros cs ds tr; unfold raccepts; split.
  - destruct (rrun cs ds rinit tr) as [s|] eqn:E; [|discriminate]. intros _; exists s; apply rrun_sound; exact E.
  - intros [s H]. rewrite (rrun_complete _ _ _ _ _ H). reflexivity.
Qed.

(* ---- the sequential run (-j 1: start, append, return check 0, then check 1, ...) is a run of the model; it records
   sequential_results: the statement of C52_results_schedule_independent is not vacuous ---- *)
Definition seq_state (cs : list check) (ds : list cdef) (k : nat) : rstate :=
  mkR (mk (flat_map (fun i => block (nth i cs default_check)) (seq 0 k)) k (seq 0 k) (rev (seq 0 k)))
      (map (fun i => (i, launcher_execute (nth i ds default_def))) (seq 0 k)).

Lemma mem_seq_false : forall k, mem k (seq 0 k) = false.
Proof. intro k. apply mem_false. intro H. apply in_seq in H. lia. Qed.
Lemma mem_rev_seq_false : forall k, mem k (rev (seq 0 k)) = false.
Proof. intro k. apply mem_false. intro H. apply in_rev in H. apply in_seq in H. lia. Qed.

Lemma seq_one : forall cs ds k rest, k < length cs ->
  rrun cs ds (seq_state cs ds k)
       (RStart k :: RAppend k :: RFinish k (launcher_execute (nth k ds default_def)) :: rest) =
  rrun cs ds (seq_state cs ds (S k)) rest.
Proof.
  intros cs ds k rest Hk.
  set (L := flat_map (fun i => block (nth i cs default_check)) (seq 0 k)).
  set (R := map (fun i => (i, launcher_execute (nth i ds default_def))) (seq 0 k)).
  set (r := launcher_execute (nth k ds default_def)).
  assert (E1 : rstep_fn cs ds (seq_state cs ds k) (RStart k) = Some (mkR (mk L (S k) (seq 0 k) (rev (seq 0 k))) R)).
  { unfold rstep_fn, seq_state; simpl. rewrite Nat.eqb_refl. destruct (Nat.ltb_spec k (length cs)); [reflexivity|lia]. }
  assert (E2 : rstep_fn cs ds (mkR (mk L (S k) (seq 0 k) (rev (seq 0 k))) R) (RAppend k) =
               Some (mkR (mk (L ++ block (nth k cs default_check)) (S k) (seq 0 k ++ [k]) (rev (seq 0 k))) R)).
  { unfold rstep_fn; simpl. rewrite mem_seq_false, mem_rev_seq_false.
    destruct (Nat.ltb_spec k (S k)); [reflexivity|lia]. }
  assert (E3 : rstep_fn cs ds (mkR (mk (L ++ block (nth k cs default_check)) (S k) (seq 0 k ++ [k]) (rev (seq 0 k))) R) (RFinish k r) =
               Some (mkR (mk (L ++ block (nth k cs default_check)) (S k) (seq 0 k ++ [k]) (k :: rev (seq 0 k))) (R ++ [(k, r)]))).
  { unfold rstep_fn; simpl. rewrite mem_rev_seq_false.
    replace (mem k (seq 0 k ++ [k])) with true by (symmetry; apply mem_In; apply in_or_app; right; left; reflexivity).
    simpl. destruct (result_eq_dec r (launcher_execute (nth k ds default_def))) as [_|N]; [reflexivity|exfalso; apply N; reflexivity]. }
  assert (E4 : mkR (mk (L ++ block (nth k cs default_check)) (S k) (seq 0 k ++ [k]) (k :: rev (seq 0 k))) (R ++ [(k, r)]) = seq_state cs ds (S k)).
  { unfold seq_state. rewrite seq_S. simpl. rewrite flat_map_app, rev_app_distr, map_app. simpl. rewrite app_nil_r. reflexivity. }
  cbn [rrun]. rewrite E1. cbn [rrun]. rewrite E2. cbn [rrun]. rewrite E3, E4. reflexivity.
Qed.

Lemma seq_many : forall cs ds m k, k + m <= length cs ->
  rrun cs ds (seq_state cs ds k)
       (flat_map (fun i => [RStart i; RAppend i; RFinish i (launcher_execute (nth i ds default_def))]) (seq k m)) =
  Some (seq_state cs ds (k + m)).
Proof.
  induction m as [|m IH]; intros k H.
  - simpl. rewrite Nat.add_0_r. reflexivity.
  - cbn [seq flat_map app]. rewrite seq_one by lia. rewrite IH by lia. f_equal. f_equal. lia.
Qed.

Lemma sequential_run_is_a_run : forall cs ds, length cs = length ds ->
  exists s, rsteps cs ds rinit (sequential_trace ds) s /\ length (finished (core s)) = length cs /\
            recorded s = sequential_results ds.
Proof.
  intros cs ds L. exists (seq_state cs ds (length ds)). repeat split.
  - apply rrun_sound. unfold sequential_trace. change rinit with (seq_state cs ds 0).
    rewrite (seq_many cs ds (length ds) 0) by lia. reflexivity.
  - simpl. rewrite rev_length, seq_length. lia.
  - simpl. unfold sequential_results. apply map_ext. intro i. rewrite launcher_execute_is_spec. reflexivity.
Qed.

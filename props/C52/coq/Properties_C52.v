(* C52 -- property theorems (statements only; proofs are in C52Proofs.v). *)
From Coq Require Import List Arith Bool Permutation.
From C52 Require Import C52Spec C52Model C52Proofs.
Import ListNotations.

(* every schedule, every number of checks and workers: the log is at any time the concatenation of whole blocks of
   distinct checks (no interleaving, no block twice), and a check that returned has its block in the log *)
Theorem C52_log_never_interleaved : forall cs tr s, steps cs init tr s ->
  log s = flat_map (fun i => block (nth i cs default_check)) (appended s) /\ NoDup (appended s) /\
  (forall i, In i (appended s) -> i < length cs) /\ (forall i, In i (finished s) -> In i (appended s)).
Proof. exact log_uninterleaved. Qed.
Print Assumptions C52_log_never_interleaved.

(* once all checks have returned (pool.wait(), C29) the log contains each check's block exactly once, uninterleaved *)
Theorem C52_log_complete : forall cs tr s, steps cs init tr s -> length (finished s) = length cs ->
  log_well_formed cs (log s).
Proof. exact log_complete. Qed.
Print Assumptions C52_log_complete.

(* the exit status is the specification's and does not depend on the order in which verdicts become available *)
Theorem C52_exit_status_schedule_independent : forall cs order, Permutation order (seq 0 (length cs)) ->
  exit_failure_in_order cs order = must_fail cs.
Proof. intros cs order P; rewrite (exit_independent_of_order cs order P); apply exit_is_spec. Qed.
Print Assumptions C52_exit_status_schedule_independent.

Theorem C52_acceptor_sound : forall cs tr, accepts cs tr = true -> exists s, steps cs init tr s.
Proof. exact accepts_sound. Qed.
Print Assumptions C52_acceptor_sound.

Theorem C52_acceptor_complete : forall cs tr s, steps cs init tr s -> accepts cs tr = true.
Proof. exact accepts_complete. Qed.
Print Assumptions C52_acceptor_complete.

(* ---- second part: the verdict of a check, and the results recorded by a run of the pool ---- *)

(* TestLauncher::execute, as modelled (every command is run, then every test, whatever failed before), records exactly
   what the specification says: verdict, result of each command, result of each test, skipped steps *)
Theorem C52_launcher_execute_meets_spec : forall d, launcher_execute d = check_result d.
Proof. exact launcher_execute_is_spec. Qed.
Print Assumptions C52_launcher_execute_meets_spec.

(* --discard-commands-failure=false, requirements met: verdict = all commands succeed /\ all tests succeed; all are run *)
Theorem C52_verdict_is_conjunction : forall d, req_ok d = true -> discard d = false ->
  r_verdict (launcher_execute d) = all_true (cmd_ok d) && all_true (test_ok d) /\
  r_cmds (launcher_execute d) = cmd_ok d /\ r_tests (launcher_execute d) = test_ok d.
Proof. exact verdict_is_conjunction. Qed.
Print Assumptions C52_verdict_is_conjunction.

(* default options (discard_commands_failure = true): the failure of a command only counts when the check has no test *)
Theorem C52_default_verdict : forall d, req_ok d = true -> discard d = true ->
  r_verdict (launcher_execute d) = (if no_tests d then all_true (cmd_ok d) else all_true (test_ok d)) /\
  r_cmds (launcher_execute d) = cmd_ok d /\ r_tests (launcher_execute d) = test_ok d.
Proof. exact default_verdict. Qed.
Print Assumptions C52_default_verdict.

(* every schedule in which all checks returned: each check was started once, appended once, returned once, recorded once *)
Theorem C52_exactly_once : forall cs ds tr s, rsteps cs ds rinit tr s -> length (finished (core s)) = length cs ->
  started (core s) = length cs /\ Permutation (appended (core s)) (seq 0 (length cs)) /\
  Permutation (finished (core s)) (seq 0 (length cs)) /\ Permutation (map fst (recorded s)) (seq 0 (length cs)).
Proof. exact exactly_once. Qed.
Print Assumptions C52_exactly_once.

(* ... and the recorded (check, verdict, per-command results, per-test results) are, as a multiset, those of the
   sequential run *)
Theorem C52_results_schedule_independent : forall cs ds tr s, length cs = length ds ->
  rsteps cs ds rinit tr s -> length (finished (core s)) = length cs ->
  Permutation (recorded s) (sequential_results ds).
Proof. exact results_schedule_independent. Qed.
Print Assumptions C52_results_schedule_independent.

(* ... and the exit status computed from what the tasks returned is "some check failed" *)
Theorem C52_exit_status_from_results : forall cs ds tr s, length cs = length ds ->
  rsteps cs ds rinit tr s -> length (finished (core s)) = length cs ->
  exit_from_recorded (recorded s) = must_fail_defs ds.
Proof. exact exit_schedule_independent. Qed.
Print Assumptions C52_exit_status_from_results.

(* the acceptor used on the real runs is the step function of this model *)
Theorem C52_result_acceptor_is_the_model : forall cs ds tr, raccepts cs ds tr = true <-> exists s, rsteps cs ds rinit tr s.
Proof. exact raccepts_iff. Qed.
Print Assumptions C52_result_acceptor_is_the_model.

(* the sequential run (start, append, return check 0, then check 1, ...) is a run of the model in which all checks returned,
   and it records sequential_results: C52_results_schedule_independent compares every schedule with a real run *)
Theorem C52_sequential_run_is_a_run : forall cs ds, length cs = length ds ->
  exists s, rsteps cs ds rinit (sequential_trace ds) s /\ length (finished (core s)) = length cs /\
            recorded s = sequential_results ds.
Proof. exact sequential_run_is_a_run. Qed.
Print Assumptions C52_sequential_run_is_a_run.

(* C52 -- property theorems (statements only; proofs are in C52Proofs.v). *)
From Coq Require Import List Arith Bool Permutation.
From C52 Require Import C52Spec C52Model C52Proofs.
Import ListNotations.

(* every schedule, every number of checks and workers: the log is at any time the concatenation of whole blocks of
   distinct checks (no interleaving, no block twice), and a check that returned has its block in the log *)
Theorem C52_log_never_interleaved : forall cs tr s, steps cs init tr s ->
  log s = flat_map (fun i => block (nth i cs default_check)) (appended s) /\ NoDup (appended s) /\
  (forall i, In i (appended s) -> i < length cs) /\ (forall i, In i (finished s) -> In i (appended s)).
Proof. exact log_uninterleaved. Qed.
Print Assumptions C52_log_never_interleaved.

(* once all checks have returned (pool.wait(), C29) the log contains each check's block exactly once, uninterleaved *)
Theorem C52_log_complete : forall cs tr s, steps cs init tr s -> length (finished s) = length cs ->
  log_well_formed cs (log s).
Proof. exact log_complete. Qed.
Print Assumptions C52_log_complete.

(* the exit status is the specification's and does not depend on the order in which verdicts become available *)
Theorem C52_exit_status_schedule_independent : forall cs order, Permutation order (seq 0 (length cs)) ->
  exit_failure_in_order cs order = must_fail cs.
Proof. intros cs order P; rewrite (exit_independent_of_order cs order P); apply exit_is_spec. Qed.
Print Assumptions C52_exit_status_schedule_independent.

Theorem C52_acceptor_sound : forall cs tr, accepts cs tr = true -> exists s, steps cs init tr s.
Proof. exact accepts_sound. Qed.
Print Assumptions C52_acceptor_sound.

Theorem C52_acceptor_complete : forall cs tr s, steps cs init tr s -> accepts cs tr = true.
Proof. exact accepts_complete. Qed.
Print Assumptions C52_acceptor_complete.

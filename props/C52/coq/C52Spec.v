(* C52 -- specification of "tfel-check verdicts are independent of parallelism".
   Written independently of the code.  A run is given by the blocks of log lines produced by the checks and by the
   order in which they reached the log. *)
From Coq Require Import List Arith Bool Permutation.
Import ListNotations.

Definition line := nat.
Record check := mkCheck { block : list line; passed : bool }.

(* tfel-check must exit with failure exactly when at least one check fails *)
Definition must_fail (cs : list check) : bool := existsb (fun c => negb (passed c)) cs.

(* the log contains each check's block exactly once and uninterleaved: it is the concatenation of the blocks in some
   order that enumerates every check once *)
Definition log_well_formed (cs : list check) (log : list line) : Prop :=
  exists order, Permutation order (seq 0 (length cs)) /\
                log = flat_map (fun i => block (nth i cs (mkCheck [] true))) order.

(* ---- what one check is made of, and what its verdict must be (second part of the property) ----
   A .check file declares requirements, commands and tests (comparisons of result files with reference files).
   Written independently of the code: the verdict of a check whose requirements are met is "every command succeeded
   and every test succeeded" (when `discard` is set -- the documented default of tfel-check, switched off by
   --discard-commands-failure=false -- the commands only count when the check has no test); a check with an unmet requirement is skipped and counts as a success; nothing of it is run. *)
Record cdef := mkDef { req_ok : bool; discard : bool; cmd_ok : list bool; test_ok : list bool }.
Definition all_true (l : list bool) : bool := forallb (fun b => b) l.
Definition no_tests (d : cdef) : bool := match test_ok d with [] => true | _ => false end.
Definition check_verdict (d : cdef) : bool :=
  if req_ok d then (if discard d && negb (no_tests d) then true else all_true (cmd_ok d)) && all_true (test_ok d)
  else true.
(* what a run records for one check: verdict, result of every command, result of every test, number of skipped steps *)
Record result := mkRes { r_verdict : bool; r_cmds : list bool; r_tests : list bool; r_skipped : nat }.
Definition check_result (d : cdef) : result :=
  if req_ok d then mkRes (check_verdict d) (cmd_ok d) (test_ok d) 0 else mkRes true [] [] (length (cmd_ok d)).
(* the results recorded by the sequential run (-j 1): check 0, then check 1, ... *)
Definition sequential_results (ds : list cdef) : list (nat * result) :=
  map (fun i => (i, check_result (nth i ds (mkDef true false [] [])))) (seq 0 (length ds)).
Definition must_fail_defs (ds : list cdef) : bool := existsb (fun d => negb (check_verdict d)) ds.

(* C52 -- specification of "tfel-check verdicts are independent of parallelism".
   Written independently of the code.  A run is given by the blocks of log lines produced by the checks and by the
   order in which they reached the log. *)
From Coq Require Import List Arith Bool Permutation.
Import ListNotations.

Definition line := nat.
Record check := mkCheck { block : list line; passed : bool }.

(* tfel-check must exit with failure exactly when at least one check fails *)
Definition must_fail (cs : list check) : bool := existsb (fun c => negb (passed c)) cs.

(* the log contains each check's block exactly once and uninterleaved: it is the concatenation of the blocks in some
   order that enumerates every check once *)
Definition log_well_formed (cs : list check) (log : list line) : Prop :=
  exists order, Permutation order (seq 0 (length cs)) /\
                log = flat_map (fun i => block (nth i cs (mkCheck [] true))) order.

(* C52 -- line-protocol driver around step_fn / init extracted from C52Model.v.
   stdin:  T <name> <n checks> <p0> <p1> ...   (pK = 1 if check K passes)   then   S i | A i | F i   then END
   stdout: ACCEPT <name> appended=<order, comma separated> | REJECT <name> at=<i> line=<text> *)
open C52_model

let rec nat_of_int n = if n <= 0 then O else S (nat_of_int (n - 1))
let rec int_of_nat = function O -> 0 | S m -> 1 + int_of_nat m
let event_of_line l =
  match String.split_on_char ' ' (String.trim l) with
  | ["S"; i] -> Some (Start (nat_of_int (int_of_string i)))
  | ["A"; i] -> Some (Append (nat_of_int (int_of_string i)))
  | ["F"; i] -> Some (Finish (nat_of_int (int_of_string i)))
  | _ -> None

let () =
  let name = ref "" and cs = ref [] and st = ref (Some init) and idx = ref 0 and verdict = ref "" in
  let finish () =
    if !name <> "" then
      (match !verdict, !st with
       | "", Some s -> Printf.printf "ACCEPT %s appended=%s finished=%d\n" !name
                         (String.concat "," (List.map (fun x -> string_of_int (int_of_nat x)) s.appended)) (List.length s.finished)
       | v, _ -> Printf.printf "REJECT %s %s\n" !name v) in
  (try
    while true do
      let l = input_line stdin in
      match String.split_on_char ' ' (String.trim l) with
      | "T" :: nm :: _ :: ps ->
          name := nm; cs := List.mapi (fun i p -> { block = [nat_of_int i]; passed = (p = "1") }) ps;
          st := Some init; idx := 0; verdict := ""
      | ["END"] -> finish (); name := ""
      | _ ->
          (if !verdict = "" then
             match !st, (try event_of_line l with _ -> None) with
             | Some s, Some e ->
                 (match step_fn !cs s e with
                  | Some s1 -> st := Some s1
                  | None -> verdict := Printf.sprintf "at=%d line=%s why=step-not-enabled" !idx (String.trim l))
             | _, None -> verdict := Printf.sprintf "at=%d line=%s why=not-an-event" !idx (String.trim l)
             | None, _ -> ());
          incr idx
    done
  with End_of_file -> ());
  finish ()

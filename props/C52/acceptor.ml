(* C52 -- line-protocol driver around rstep_fn / rinit / sequential_results extracted from C52Model.v / C52Spec.v.
   stdin:  T <name> <n checks> <p0> <p1> ...   (pK = 1 if check K passes: ground truth)
           D <i> <req_ok> <discard> <cmds> <tests>   definition of check i (ground truth; strings of 0/1, "-" = none)
           S i | A i | F i <verdict> <cmds> <tests> <skipped>   events; F carries what the REAL log recorded for check i
           END
   stdout: ACCEPT <name> appended=<order> finished=<n> recorded=<i:v:cmds:tests:skipped;...> seq=<same, of sequential_results>
         | REJECT <name> at=<i> line=<text> why=... *)
open C52_model

let rec nat_of_int n = if n <= 0 then O else S (nat_of_int (n - 1))
let rec int_of_nat = function O -> 0 | S m -> 1 + int_of_nat m
let bools_of_string s = if s = "-" then [] else List.init (String.length s) (fun k -> s.[k] = '1')
let string_of_bools l = if l = [] then "-" else String.concat "" (List.map (fun b -> if b then "1" else "0") l)
let show_rec l =
  String.concat ";" (List.map (fun (i, r) ->
    Printf.sprintf "%d:%s:%s:%s:%d" (int_of_nat i) (if r.r_verdict then "1" else "0") (string_of_bools r.r_cmds)
      (string_of_bools r.r_tests) (int_of_nat r.r_skipped)) l)
let event_of_line l =
  match String.split_on_char ' ' (String.trim l) with
  | ["S"; i] -> Some (RStart (nat_of_int (int_of_string i)))
  | ["A"; i] -> Some (RAppend (nat_of_int (int_of_string i)))
  | ["F"; i; v; cm; ts; sk] when (v = "0" || v = "1") ->
      Some (RFinish (nat_of_int (int_of_string i),
                     { r_verdict = (v = "1"); r_cmds = bools_of_string cm; r_tests = bools_of_string ts;
                       r_skipped = nat_of_int (int_of_string sk) }))
  | _ -> None

let () =
  let name = ref "" and cs = ref [] and ds = ref [] and st = ref (Some rinit) and idx = ref 0 and verdict = ref "" in
  let finish () =
    if !name <> "" then
      (match !verdict, !st with
       | "", Some s -> Printf.printf "ACCEPT %s appended=%s finished=%d recorded=%s seq=%s\n" !name
                         (String.concat "," (List.map (fun x -> string_of_int (int_of_nat x)) s.core.appended))
                         (List.length s.core.finished) (show_rec s.recorded) (show_rec (sequential_results !ds))
       | v, _ -> Printf.printf "REJECT %s %s\n" !name v) in
  (try
    while true do
      let l = input_line stdin in
      match String.split_on_char ' ' (String.trim l) with
      | "T" :: nm :: _ :: ps ->
          name := nm; cs := List.mapi (fun i p -> { block = [nat_of_int i]; passed = (p = "1") }) ps;
          ds := []; st := Some rinit; idx := 0; verdict := ""
      | ["D"; _; rq; dc; cm; ts] ->
          ds := !ds @ [{ req_ok = (rq = "1"); discard = (dc = "1"); cmd_ok = bools_of_string cm; test_ok = bools_of_string ts }]
      | ["END"] -> finish (); name := ""
      | _ ->
          (if !verdict = "" then
             match !st, (try event_of_line l with _ -> None) with
             | Some s, Some e ->
                 (match rstep_fn !cs !ds s e with
                  | Some s1 -> st := Some s1
                  | None -> verdict := Printf.sprintf "at=%d line=%s why=step-not-enabled" !idx (String.trim l))
             | _, None -> verdict := Printf.sprintf "at=%d line=%s why=not-an-event" !idx (String.trim l)
             | None, _ -> ());
          incr idx
    done
  with End_of_file -> ());
  finish ()

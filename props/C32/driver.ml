(* C32: runs the extracted Gallina model on the same case file as driver.cxx, same output format.
   usage: c32_ml <cases> <fx_tokc> <fx_trail> <fx_empty> <fx_rall>   (flags 0/1) *)
open C32_model

let ascii_of_int n =
  let b i = (n lsr i) land 1 = 1 in
  Ascii (b 0, b 1, b 2, b 3, b 4, b 5, b 6, b 7)

let int_of_ascii = function
  | Ascii (a, b, c, d, e, f, g, h) ->
    let v x i = if x then 1 lsl i else 0 in
    v a 0 + v b 1 + v c 2 + v d 3 + v e 4 + v f 5 + v g 6 + v h 7

let rec nat_of_int n = if n <= 0 then O else S (nat_of_int (n - 1))

let unhex s =
  if s = "-" then []
  else List.init (String.length s / 2) (fun i -> ascii_of_int (int_of_string ("0x" ^ String.sub s (2 * i) 2)))

let hex l =
  if l = [] then "-" else String.concat "" (List.map (fun a -> Printf.sprintf "%02x" (int_of_ascii a)) l)

let plist v = "L " ^ string_of_int (List.length v) ^ String.concat "" (List.map (fun f -> " " ^ hex f) v)

let rec pos_bits = function XH -> "1" | XO p -> pos_bits p ^ "0" | XI p -> pos_bits p ^ "1"
let n_str = function N0 -> "0" | Npos p -> pos_bits p
let z_str = function Z0 -> "0" | Zpos p -> pos_bits p | Zneg p -> "-" ^ pos_bits p

let () =
  let ic = open_in Sys.argv.(1) in
  let flag i = Sys.argv.(i) = "1" in
  let fx_tokc = flag 2 and fx_trail = flag 3 and fx_empty = flag 4 and fx_rall = flag 5 in
  let buf = Buffer.create (1 lsl 20) in
  (try
     while true do
       let line = input_line ic in
       let t = Array.of_list (String.split_on_char ' ' line) in
       let res =
         match t.(0) with
         | "TC" -> plist (tokc fx_tokc (unhex t.(1)) (List.hd (unhex t.(2))) (t.(3) = "1"))
         | "TCD" -> plist (tokc fx_tokc (unhex t.(1)) (List.hd (unhex t.(2))) false)
         | "TS" -> (
           match toks fx_trail fx_empty (unhex t.(1)) (unhex t.(2)) with
           | Ok v -> plist v
           | Throw -> "THROW"
           | Diverge -> "DIVERGE")
         | "RA" -> (
           match rall fx_rall (unhex t.(1)) (unhex t.(2)) (unhex t.(3)) (nat_of_int (int_of_string t.(4))) with
           | Ok v -> "S " ^ hex v
           | Throw -> "THROW"
           | Diverge -> "DIVERGE")
         | "RC" -> "S " ^ hex (rcc (unhex t.(1)) (List.hd (unhex t.(2))) (List.hd (unhex t.(3))))
         | "RS" -> "S " ^ hex (rcs (unhex t.(1)) (List.hd (unhex t.(2))) (unhex t.(3)))
         | "SW" -> if sw (unhex t.(1)) (unhex t.(2)) then "B 1" else "B 0"
         | "EW" -> if ew (unhex t.(1)) (unhex t.(2)) then "B 1" else "B 0"
         | "CV" -> (
           match convert_double (unhex t.(1)) with
           | None -> "THROW"
           | Some (Finite (neg, m, b, e)) ->
             Printf.sprintf "FIN %d %s %s %s" (if neg then 1 else 0) (n_str m) (n_str b) (z_str e)
           | Some (Infinite neg) -> if neg then "INF 1" else "INF 0"
           | Some NotANumber -> "NAN")
         | _ -> "ERROR unknown-function"
       in
       Buffer.add_string buf res;
       Buffer.add_char buf '\n';
       if Buffer.length buf > 1 lsl 20 then (print_string (Buffer.contents buf); Buffer.clear buf)
     done
   with End_of_file -> ());
  print_string (Buffer.contents buf)

"""C32 -- string utilities meet their specifications (src/Utilities/StringAlgorithms.cxx).
Engine H: executable Gallina model (coq/C32Model.v, extracted to OCaml) + Coq theorems (the model meets the
declarative specification C32Spec.v: Split / Repl / prefix / suffix) + correspondence: the REAL functions, compiled
from REPO's StringAlgorithms.cxx, and the model are run on the same cases (exhaustive strings of length <= 8 over
{a,b,','} x delimiters x flags, random longer byte strings, generated numeric strings) with exact equality.
Every real result is also checked against an independent Python statement of the property.
Functions with a known defect have two model variants (pinned code / code with props/C32/fix_*.diff); the variant and
the matching theorem file (…_today.v with the `_refuted` theorem, or …_fixed.v) are selected by probing the real code."""
import itertools, os, re
from fractions import Fraction
from vlib import guarded_main

SRC = ["src/Utilities/StringAlgorithms.cxx"]
MODEL = ["C32Spec.v", "C32Model.v"]
EXTRACT = """Require Import ExtrOcamlBasic.
From Coq Require Import Ascii List.
From C32 Require Import C32Model.
Definition tokc := @tokenize_char ascii Ascii.eqb.
Definition toks := @tokenize_str ascii Ascii.eqb.
Definition rall := @replace_all ascii Ascii.eqb.
Definition rcc := @replace_char_char ascii Ascii.eqb.
Definition rcs := @replace_char_str ascii Ascii.eqb.
Definition sw := @starts_with ascii Ascii.eqb.
Definition ew := @ends_with ascii Ascii.eqb.
Extraction "c32_model.ml" tokc toks rall rcc rcs sw ew convert_double.
"""

# canonical witnesses of the known defects (F10): key -> (case, description)
K_TOKC = 'tokenize(",a",\',\',false)'
K_TRAIL = 'tokenize("a::b::","::")'
K_EMPTY = 'tokenize("ab","")'
K_RALL = 'replace_all("abc","b","x",1)'


def hx(s):
    return s.encode("latin-1").hex() if s else "-"


def unhx(h):
    return "" if h == "-" else bytes.fromhex(h).decode("latin-1")


def enc(case):
    return " ".join([case[0]] + [hx(a) if isinstance(a, str) else str(int(a)) for a in case[1:]])


def show(case):
    f = case[0]
    q = lambda s: '"' + s.encode("latin-1").decode("latin-1").encode("unicode_escape").decode() + '"'
    name = {"TC": "tokenize", "TCD": "tokenize", "TS": "tokenize", "RA": "replace_all", "RC": "replace_all", "RS": "replace_all",
            "SW": "starts_with", "EW": "ends_with", "CV": "convert<double>"}[f]
    args = []
    for i, a in enumerate(case[1:]):
        if isinstance(a, str):
            ischar = (f in ("TC", "TCD") and i == 1) or (f == "RC" and i >= 1) or (f == "RS" and i == 1)
            args.append("'" + a + "'" if ischar and a.isprintable() else q(a))
        elif isinstance(a, bool):
            args.append("true" if a else "false")
        else:
            args.append(str(a))
    return "%s(%s)" % (name, ",".join(args))


# ---------------------------------------------------------------- independent statement of the property (Python)
def fmt_list(v):
    return "L %d" % len(v) + "".join(" " + hx(f) for f in v)


NUM_RE = re.compile(r"[ \t\n\v\f\r]*([+-]?)(?:((?:[0-9]+\.?[0-9]*|\.[0-9]+)(?:[eE][+-]?[0-9]+)?)|"
                    r"(0[xX](?:[0-9a-fA-F]+\.?[0-9a-fA-F]*|\.[0-9a-fA-F]+)(?:[pP][+-]?[0-9]+)?)|"
                    r"([iI][nN][fF](?:[iI][nN][iI][tT][yY])?)|([nN][aA][nN](?:\([0-9A-Za-z_]*\))?))")
TINY = 2.0 ** -1022


def spec_convert(s):
    """('THROW',) | ('VAL', float) | ('NAN',) | ('SKIP',) (result under/overflows: ERANGE territory, not compared)"""
    m = NUM_RE.fullmatch(s)
    if not s or not m:
        return ("THROW",)
    sg, dec, hexa, inf, nan = m.groups()
    neg = sg == "-"
    if nan:
        return ("NAN",)
    if inf:
        return ("VAL", float("-inf") if neg else float("inf"))
    try:
        v = float(dec) if dec else float.fromhex(hexa)
    except OverflowError:
        return ("THROW",)
    if v == float("inf"):
        return ("THROW",)  # ERANGE -> std::out_of_range -> invalid_argument
    if abs(v) < TINY and any(ch in "123456789abcdefABCDEF" for ch in (dec or hexa[2:]).split("e")[0].split("E")[0].split("p")[0].split("P")[0]):
        return ("SKIP",)
    return ("VAL", -v if neg else v)


def spec(case):
    """expected output line of the real driver according to the property text / header documentation"""
    f = case[0]
    if f in ("TC", "TCD"):
        s, c = case[1], case[2]
        keep = case[3] if f == "TC" else False
        v = s.split(c)
        return fmt_list(v if keep else [x for x in v if x])
    if f == "TS":
        s, d = case[1], case[2]
        if not d:
            return "THROW"  # no meaningful splitting: must be rejected, in any case must terminate
        return fmt_list(s.split(d) if s else [])
    if f == "RA":
        s, s1, s2, ps = case[1:]
        ps = min(ps, len(s))
        return "S " + hx(s[:ps] + (s[ps:].replace(s1, s2) if s1 else s[ps:]))
    if f == "RC" or f == "RS":
        return "S " + hx(case[1].replace(case[2], case[3]))
    if f == "SW":
        return "B %d" % case[1].startswith(case[2])
    if f == "EW":
        return "B %d" % case[1].endswith(case[2])
    raise ValueError(f)


def known_family(case, observed, expected):
    """classify a failure of the spec: key of the known defect whose exact pattern it shows, else None"""
    f = case[0]
    if f in ("TC", "TCD") and not (case[3] if f == "TC" else False):
        s, c = case[1], case[2]
        if (s == "" or s[0] == c) and observed == fmt_list([""] + [x for x in s.split(c) if x]):
            return K_TOKC
    if f == "TS":
        s, d = case[1], case[2]
        if not d:
            return K_EMPTY if observed == "DIVERGE" else None
        v = s.split(d)
        if s and v[-1] == "" and observed == fmt_list(v[:-1]):
            return K_TRAIL
    if f == "RA":
        s, s1, s2, ps = case[1:]
        if ps > 0 and s:
            if ps > len(s):
                return K_RALL if observed == "THROW" else None
            if observed == "S " + hx(s[ps:].replace(s1, s2) if s1 else s[ps:]):
                return K_RALL
    return None


# ---------------------------------------------------------------- case generation
def all_strings(alpha, n):
    for k in range(n + 1):
        for t in itertools.product(alpha, repeat=k):
            yield "".join(t)


WSCH = " \t\n\v\f\r"
NCH = "0123456789abcdefghijklmnopqrstuvwxyzABCDEFGHIJKLMNOPQRSTUVWXYZ_"
GARBAGE = " \t\n\r,;:!#$%&*/<=>?@[]^{}|~\"'\x00\x7f\xff\xb2"       # characters that are not `numchar` in coq/C32ConvertSpec.v
DERIVED = {}   # string -> True (a derivation of the Coq grammar `numeric`: must be accepted) | False (derivation + garbage: rejected)


def derive(rng):
    """one derivation of the inductive grammar of coq/C32ConvertSpec.v, production by production (independent of NUM_RE);
    exponents are kept small so that no derived literal leaves the normal range of double"""
    word = lambda w: "".join(rng.choice([ch, ch.upper()]) for ch in w)       # word: letters in either case
    digs = lambda al, lo, hi: "".join(rng.choice(al) for _ in range(rng.randint(lo, hi)))
    sign = lambda: rng.choice(["", "+", "-"])                                # opt_sign

    def mant(al):                                                            # mantissa D
        if rng.random() < 0.4:
            return digs(al, 1, 6)                                            # m_int
        i, f = digs(al, 0, 4), digs(al, 0, 4)
        if not i + f:
            i = digs(al, 1, 3)
        return i + "." + f                                                   # m_frac

    def oexp(mark):                                                          # opt_exp
        return "" if rng.random() < 0.5 else word(mark) + sign() + digs("0123456789", 1, 2)
    k = rng.random()
    if k < 0.45:
        body = mant("0123456789") + oexp("e")                                # b_dec
    elif k < 0.7:
        body = "0" + word("x") + mant("0123456789abcdefABCDEF") + oexp("p")  # b_hex
    elif k < 0.78:
        body = word("inf")
    elif k < 0.85:
        body = word("infinity")
    elif k < 0.92:
        body = word("nan")
    else:
        body = word("nan") + "(" + digs(NCH, 0, 5) + ")"                     # b_nan_seq
    return digs(WSCH, 0, 3) + sign() + body                                  # num


def gen_cases(c):
    rng = c.rng
    cases = []
    A = "ab,"
    L8 = list(all_strings(A, 8))
    Ln = [s for s in L8 if len(s) <= c.pick(7, 8)]
    L6 = [s for s in L8 if len(s) <= 6]
    L3 = [s for s in L8 if len(s) <= 3]
    # probes first (canonical witnesses)
    cases += [("TC", ",a", ",", False), ("TS", "a::b::", "::"), ("TS", "ab", ""), ("RA", "abc", "b", "x", 1)]
    for s in L8:
        for ch in ",a":
            cases.append(("TC", s, ch, True))
            cases.append(("TC", s, ch, False))
        for d in (",", ",,", "a,", "ab", "aa", ",a,"):
            cases.append(("TS", s, d))
    cases += [("TS", "", ""), ("TS", ",", "")]
    for s in L3:
        cases.append(("TCD", s, ","))
    for s in Ln:
        for s1 in ("", "a", ",", "aa", "ab", "a,a", "aba"):
            for s2 in ("", "x", "a", "aa", ",a"):
                cases.append(("RA", s, s1, s2, 0))
        for s1 in ("", "a", "aa", "a,a"):
            for s2 in ("x", ""):
                for ps in (1, 3, 9):
                    cases.append(("RA", s, s1, s2, ps))
        for ch in "a,":
            for n in ("", "x", "a", "aa", ",b"):
                cases.append(("RS", s, ch, n))
            for c2 in "xa":
                cases.append(("RC", s, ch, c2))
    for s in L6:
        for p in L3:
            cases.append(("SW", s, p))
            cases.append(("EW", s, p))
    # random longer strings over small byte alphabets (NUL and 0xff included)
    for _ in range(c.pick(4000, 40000)):
        alpha = rng.choice(["ab,", "a:", "ab:,", "\x00\xffa", "ab", "a b\n"])
        n = rng.randint(9, 60)
        s = "".join(rng.choice(alpha) for _ in range(n))
        d = "".join(rng.choice(alpha) for _ in range(rng.randint(1, 3)))
        if rng.random() < 0.5:  # make the delimiter occur, including at both ends
            k = rng.randint(0, 3)
            s = rng.choice(["", d]) + d.join(s[i::k + 1] for i in range(k + 1)) + rng.choice(["", d, d + d])
        s2 = "".join(rng.choice(alpha + "x") for _ in range(rng.randint(0, 3)))
        kind = rng.randrange(7)
        if kind == 0:
            cases.append(("TC", s, d[0], rng.random() < 0.5))
        elif kind == 1:
            cases.append(("TS", s, d))
        elif kind == 2:
            cases.append(("RA", s, d, s2, 0 if rng.random() < 0.7 else rng.randint(0, len(s) + 2)))
        elif kind == 3:
            cases.append(("RS", s, d[0], s2))
        elif kind == 4:
            cases.append(("RC", s, d[0], (s2 + "y")[0]))
        else:
            p = rng.choice([s[:rng.randint(0, 5)], s[-rng.randint(1, 5):], d, s, s + d, d + s])
            cases.append(("SW" if kind == 5 else "EW", s, p))
    # convert<double>: exhaustive short strings over a numeric alphabet, grammar-generated strings, mutations
    cv = set(all_strings("01.e-+x ", 4))
    cv |= {"", "abc", "-", "+", ".", "e5", "0x", "0x.", "0xg", "1,5", "1 2", "--1", "+-1", "inf", "INF", "-Infinity", "infinit",
           "infinityx", "nan", "NaN", "-nan", "nan(abc_1)", "nan()", "nan(", "nan(a b)", "nanx", "nan)", " 1.5", "1.5 ", "\t-2e3",
           "\n1", "1\n", "1e400", "-1e400", "1e-400", "0e999", "0x1p-1", "0x1.8p1", "0X.8", "0x1.", "0x1p", "0x1p+", "1.e2", ".e2",
           "1e+", "1e", "1f", "1.0f", "1d0", "1_0", "0b1", "1e5.5", "1..2", "9007199254740993", "0.1", "123456789012345678901234567890",
           "179769313486231570814527423731704356798070567525844996598917476803157260780028538760589558632766878171540458953514382464234321326889464182768467546703537516986049910576551282076245490090389328944075868508455133942304583236903222948165808559332123348274797826204144723168738177180919299881250404026184124858368",
           "1.7976931348623157e308", "1.7976931348623159e308", "2.2250738585072014e-308", "\x001", "1\x00", "\xb2"}
    ws, sg = ["", "", "", " ", "\t", " \n"], ["", "", "+", "-"]
    dg = lambda k: "".join(rng.choice("0123456789") for _ in range(k))
    hd = lambda k: "".join(rng.choice("0123456789abcdefABCDEF") for _ in range(k))
    for _ in range(c.pick(6000, 60000)):
        r = rng.random()
        if r < 0.6:
            body = dg(rng.randint(0, 5)) + rng.choice(["", ".", "."]) + dg(rng.randint(0, 5))
            body += rng.choice(["", "", "", "e", "E", "e+", "e-"]) + rng.choice(["", "", dg(1), dg(2)])
        elif r < 0.8:
            body = rng.choice(["0x", "0X"]) + hd(rng.randint(0, 4)) + rng.choice(["", "."]) + hd(rng.randint(0, 3))
            body += rng.choice(["", "", "p", "P", "p+", "p-"]) + rng.choice(["", dg(1), dg(2)])
        else:
            body = rng.choice(["inf", "Inf", "INFINITY", "infinity", "nan", "NAN", "nan(1a)", "nan(_)", "in", "na", "infi"])
        s = rng.choice(ws) + rng.choice(sg) + body + rng.choice(["", "", "", "", " ", "x", "f", ".", "e", "L"])
        if rng.random() < 0.1 and s:
            i = rng.randrange(len(s))
            s = s[:i] + rng.choice(" +-.eExp09aZ(_)") + s[i + rng.randint(0, 1):]
        cv.add(s)
    # second exhaustive families: inf/nan forms and hexadecimal forms
    cv |= set(all_strings("naif()1", 4)) | set(all_strings("0xXpP1.aF", 3)) | set(all_strings("1.eE+-", 5))
    # derivations of the Coq grammar (must be accepted), and the same followed by a character that cannot occur in a number
    DERIVED.clear()
    for _ in range(c.pick(1500, 15000)):
        s = derive(rng)
        DERIVED[s] = True
        g = s + rng.choice(GARBAGE) + "".join(rng.choice(NCH + GARBAGE + ".+-()") for _ in range(rng.randint(0, 3)))
        DERIVED[g] = False
    cv |= set(DERIVED)
    cases += [("CV", s) for s in sorted(cv)]
    return cases


def cv_compare(case, real, model):
    """returns (spec_ok, corr_ok, expected_text)"""
    s = case[1]
    sp = spec_convert(s)

    def real_val():
        t = real.split()
        if t[0] != "D":
            return None
        return float("nan") if t[1] == "nan" else float("inf") if t[1] == "inf" else float("-inf") if t[1] == "-inf" else float.fromhex(t[1])
    # model -> expectation
    mt = model.split()
    if mt[0] == "THROW":
        mexp = ("THROW",)
    elif mt[0] == "NAN":
        mexp = ("NAN",)
    elif mt[0] == "INF":
        mexp = ("VAL", float("-inf") if mt[1] == "1" else float("inf"))
    else:
        neg, m, b, e = mt[1] == "1", int(mt[2], 2), int(mt[3], 2), int(mt[4], 2)
        if abs(e) > 5000:
            mexp = ("SKIP",)
        else:
            q = Fraction(m) * Fraction(b) ** e
            try:
                v = float(q)
                mexp = ("THROW",) if v == float("inf") else ("SKIP",) if (q != 0 and abs(v) < TINY) else ("VAL", -v if neg else v)
            except OverflowError:
                mexp = ("THROW",)

    def agrees(exp):
        if exp[0] == "SKIP":
            return True
        if exp[0] == "THROW":
            return real == "THROW"
        rv = real_val()
        if rv is None:
            return False
        if exp[0] == "NAN":
            return rv != rv
        import math
        return rv == exp[1] and math.copysign(1.0, rv) == math.copysign(1.0, exp[1])
    return agrees(sp), agrees(mexp), str(sp), str(mexp)


def main(c):
    exe = c.cxx("driver", ["driver.cxx"], SRC)
    cases = gen_cases(c)
    if c.replay and c.replay.get("replay", {}).get("case"):  # ./check C32 --replay f: the probes + the recorded case only
        w = c.replay["replay"]["case"].split()
        conv = {"TC": (unhx, unhx, lambda x: x == "1"), "RA": (unhx, unhx, unhx, int)}.get(w[0], (unhx,) * (len(w) - 1))
        cases = cases[:4] + [tuple([w[0]] + [f(x) for f, x in zip(conv, w[1:])])]
    cf = os.path.join(c.work, "cases.txt")
    with open(cf, "w") as f:
        f.write("\n".join(enc(x) for x in cases) + "\n")
    c.log("cases written: %d" % len(cases))
    rc, out, err = c.run([exe, cf], timeout=900)
    c.log("real code run")
    real = out.splitlines()
    if rc != 0 or len(real) != len(cases):
        c.report("driver", "driver running the real string functions failed (rc=%d, %d/%d results): %s" % (rc, len(real), len(cases), err[-400:]),
                 {"stderr": err[-3000:], "last_case": show(cases[min(len(real), len(cases) - 1)])}, rc != 0 and len(real) < len(cases))
        return
    # which variant of the code is this?  (probes = first four cases)
    today = {K_TOKC: real[0] == fmt_list(["", "a"]), K_TRAIL: real[1] == fmt_list(["a", "b"]),
             K_EMPTY: real[2] == "DIVERGE", K_RALL: real[3] == "S " + hx("xc")}
    flags = ["0" if today[k] else "1" for k in (K_TOKC, K_TRAIL, K_EMPTY, K_RALL)]
    c.notes.append("model variants selected by probing the real code (today = pinned behaviour): %s" % today)
    ml = c.ocaml_extract("c32", MODEL, EXTRACT, "driver.ml")
    rc, out, err = c.run([ml, cf] + flags, timeout=900)
    model = out.splitlines()
    c.log("model run")
    if rc != 0 or len(model) != len(cases):
        raise RuntimeError("extracted model failed: rc=%d %s" % (rc, err[-500:]))
    c.trusted("props/C32/driver.cxx (calls of the public functions, hex printing; tokenize with an empty delimiter runs in a child under alarm/RLIMIT_AS)",
              "props/C32/driver.ml (hex <-> list ascii, printing of N/Z), the Python differ and its independent statement of the property",
              "convert<double>: accept/reject and the value are compared through exact rationals (Python Fraction -> correctly rounded double); "
              "literals whose value under/overflows the normal range are not compared (ERANGE behaviour of strtod is not modelled)")
    # compare
    spec_fail, corr_fail, known = [], [], {}
    nontrivial = 0
    per_fn = {}
    skipped = 0
    nder = 0
    for i, case in enumerate(cases):
        r, m = real[i], model[i]
        f = case[0]
        per_fn[f] = per_fn.get(f, 0) + 1
        if f == "CV":
            sok, cok, sexp, mexp = cv_compare(case, r, m)
            exp = sexp
            if case[1] in DERIVED:   # statement derived from the Coq grammar (theorems C32_convert_grammar / _trailing_garbage_rejected)
                nder += 1
                if DERIVED[case[1]] != (r != "THROW") or DERIVED[case[1]] != (m != "THROW"):
                    sok = False
            if "SKIP" in sexp:
                skipped += 1
            nontrivial += r != "THROW"
        else:
            exp = spec(case)
            sok, cok = (r == exp), (r == m)
            nontrivial += (len(case) > 2 and isinstance(case[2], str) and case[2] != "" and case[2] in case[1])
        if i % 40009 == 7:
            c.sample({"call": show(case), "real": r, "model": m})
        if not sok:
            k = known_family(case, r, exp) if f != "CV" else None
            if k:
                known.setdefault(k, []).append(i)
            else:
                spec_fail.append(i)
        if not cok:
            corr_fail.append(i)
    c.log("compared")
    c.count(len(cases))
    c.coverage["distinct_nontrivial"] = nontrivial
    c.coverage["traces_validated_against_impl"] = len(cases)
    c.coverage["exhaustive"] = True
    c.coverage["rule"] = ("exhaustive: all %d strings of length <= 8 over {a,b,','} x 2 char delimiters x keep flag and x 6 string delimiters (tokenize); "
                          "all strings of length <= %d x 7 patterns x 5 replacements (replace_all, ps=0) and x ps in {1,3,9}; char overloads; "
                          "starts/ends_with on lengths <= 6 x <= 3; %d random strings of length 9..60 over byte alphabets incl. NUL/0xff; "
                          "convert<double>: all strings of length <= 4 over '01.e-+x ', <= 4 over 'naif()1', <= 3 over '0xXpP1.aF', <= 5 over '1.eE+-' "
                          "+ generated and mutated literals + %d derivations of the Coq grammar `numeric` (accepted) and derivations followed by a "
                          "non-number character (rejected) (%d, %d not compared: under/overflow); per function: %s; non-trivial = delimiter/pattern occurs in the string (or literal accepted)"
                          % (9841, c.pick(7, 8), c.pick(4000, 40000), nder, per_fn.get("CV", 0), skipped, per_fn))
    # known findings: reported under the canonical witness, which must itself be among the failures
    descr = {K_TOKC: "tokenize(s,c,false) returns a spurious empty first field when s is empty or begins with c (e.g. (\",a\",',',false) -> [\"\",\"a\"])",
             K_TRAIL: "tokenize(s,d) (string delimiter) drops an empty last field but keeps empty first/middle fields (\"a::b::\" -> [\"a\",\"b\"]): join does not reproduce s",
             K_EMPTY: "tokenize(s,\"\") never terminates (find(\"\",b)=b, b+=0)",
             K_RALL: "replace_all(s,s1,s2,ps) with ps>0 loses s[0..ps) (\"abc\",\"b\",\"x\",1 -> \"xc\"), throws length_error for ps>size"}
    probe = {K_TOKC: 0, K_TRAIL: 1, K_EMPTY: 2, K_RALL: 3}
    pattern_only = set()
    for k, idx in known.items():
        if probe[k] in idx:
            c.report(k, descr[k] + " [%d failing inputs of this exact pattern in this run]" % len(idx),
                     {"call": show(cases[idx[0]]), "observed": real[idx[0]], "count": len(idx), "others": [show(cases[j]) for j in idx[1:6]]}, True)
        else:  # the canonical witness does not fail in the known way any more: these are failures of their own
            spec_fail += idx
            pattern_only |= set(idx)
    shown = {}
    for i in sorted(spec_fail, key=lambda j: (j in pattern_only, len(enc(cases[j])), j)):
        f = cases[i][0]
        shown[f] = shown.get(f, 0) + 1
        if shown[f] > 3:
            continue
        exp = spec(cases[i]) if f != "CV" else str(spec_convert(cases[i][1]))
        c.report(show(cases[i]), "%s returns %s, the property requires %s (%d failing inputs for this function in this run)" % (
            show(cases[i]), pretty(real[i]), pretty(exp), sum(1 for j in spec_fail if cases[j][0] == f)),
            {"call": show(cases[i]), "case": enc(cases[i]), "observed": real[i], "expected": exp, "model": model[i]}, True)
    only_corr = [i for i in corr_fail if i not in set(spec_fail)]
    for i in sorted(only_corr, key=lambda j: (len(enc(cases[j])), j))[:3]:
        c.report("model:" + show(cases[i]), "the Gallina model no longer describes the code: %s returns %s, model %s (the property itself holds on this input; %d such inputs)" % (
            show(cases[i]), pretty(real[i]), pretty(model[i]), len(only_corr)),
            {"call": show(cases[i]), "case": enc(cases[i]), "observed": real[i], "model": model[i]}, False)
    c.coverage["spec_failures"] = len(spec_fail)
    c.coverage["model_vs_code_differences"] = len(corr_fail)
    # theorems: common file + the variant files selected above
    files = MODEL + ["C32Proofs.v", "C32Convert.v", "C32ConvertSpec.v", "C32Grammar.v", "Properties_C32.v",
                     "Properties_C32_tokc_%s.v" % ("today" if today[K_TOKC] else "fixed"),
                     "Properties_C32_toks_trail_%s.v" % ("today" if today[K_TRAIL] else "fixed"),
                     "Properties_C32_toks_empty_%s.v" % ("today" if today[K_EMPTY] else "fixed"),
                     "Properties_C32_rall_%s.v" % ("today" if today[K_RALL] else "fixed")]
    res = c.coq(files, timeout=600)
    c.log("coq done: %s" % res.files)
    if not res.ok:
        c.coq_failures(res)


def pretty(line):
    t = line.split()
    if t and t[0] == "L":
        return "[" + ",".join('"%s"' % unhx(x) for x in t[2:]) + "]"
    if t and t[0] == "S":
        return '"%s"' % unhx(t[1])
    return line


guarded_main("C32", main)

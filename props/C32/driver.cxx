// C32 driver: runs the REAL tfel::utilities string functions (src/Utilities/StringAlgorithms.cxx compiled from REPO)
// on the cases of a case file (one case per line, strings hex-encoded, "-" = empty) and prints one result per line.
#include <sys/resource.h>
#include <sys/wait.h>
#include <unistd.h>
#include <cmath>
#include <cstdio>
#include <cstdlib>
#include <fstream>
#include <iostream>
#include <new>
#include <sstream>
#include <string>
#include <vector>
#include "TFEL/Utilities/StringAlgorithms.hxx"

static std::string unhex(const std::string& h) {
  std::string r;
  if (h == "-") return r;
  for (std::size_t i = 0; i + 1 < h.size(); i += 2) {
    r.push_back(static_cast<char>(std::stoi(h.substr(i, 2), nullptr, 16)));
  }
  return r;
}
static std::string hex(const std::string& s) {
  if (s.empty()) return "-";
  static const char* d = "0123456789abcdef";
  std::string r;
  for (unsigned char c : s) {
    r.push_back(d[c >> 4]);
    r.push_back(d[c & 15]);
  }
  return r;
}
static std::string list(const std::vector<std::string>& v) {
  std::string r = "L " + std::to_string(v.size());
  for (const auto& f : v) r += " " + hex(f);
  return r;
}

// tokenize(s, d) in a child process with a memory limit and an alarm: an endless loop is observed, not suffered
static std::string guarded_tokenize(const std::string& s, const std::string& d) {
  int fd[2];
  if (pipe(fd) != 0) return "ERROR pipe";
  const pid_t pid = fork();
  if (pid == 0) {
    close(fd[0]);
    struct rlimit rl;
    rl.rlim_cur = rl.rlim_max = 64ul * 1024ul * 1024ul;
    setrlimit(RLIMIT_AS, &rl);
    alarm(10);
    std::string out;
    try {
      out = list(tfel::utilities::tokenize(std::string_view(s), std::string_view(d)));
    } catch (std::bad_alloc&) {
      out = "DIVERGE";
    } catch (std::length_error&) {
      out = "DIVERGE";
    } catch (std::exception&) {
      out = "THROW";
    }
    if (write(fd[1], out.data(), out.size()) < 0) _exit(3);
    _exit(0);
  }
  close(fd[1]);
  std::string out;
  char buf[4096];
  ssize_t n;
  while ((n = read(fd[0], buf, sizeof buf)) > 0) out.append(buf, static_cast<std::size_t>(n));
  close(fd[0]);
  int st = 0;
  waitpid(pid, &st, 0);
  if (WIFSIGNALED(st)) return "DIVERGE";
  if (out.empty()) return "DIVERGE";
  return out;
}

int main(int argc, char** argv) {
  using namespace tfel::utilities;
  if (argc < 2) return 2;
  std::ifstream in(argv[1]);
  std::string line;
  std::string outbuf;
  while (std::getline(in, line)) {
    std::istringstream is(line);
    std::string f, a, b, c;
    is >> f;
    std::string res;
    try {
      if (f == "TC") {
        int keep;
        is >> a >> b >> keep;
        res = list(tokenize(std::string_view(unhex(a)), unhex(b)[0], keep != 0));
      } else if (f == "TCD") {  // default argument of keep_empty_strings
        is >> a >> b;
        res = list(tokenize(std::string_view(unhex(a)), unhex(b)[0]));
      } else if (f == "TS") {
        is >> a >> b;
        const auto s = unhex(a), d = unhex(b);
        if (d.empty()) {
          res = guarded_tokenize(s, d);
        } else {
          res = list(tokenize(std::string_view(s), std::string_view(d)));
        }
      } else if (f == "RA") {
        unsigned long ps;
        is >> a >> b >> c >> ps;
        const auto s = unhex(a), s1 = unhex(b), s2 = unhex(c);
        std::string r2 = "previous content";
        bool t1 = false, t2 = false;
        std::string r1;
        try {
          r1 = ps == 0 ? replace_all(std::string_view(s), std::string_view(s1), std::string_view(s2))
                       : replace_all(std::string_view(s), std::string_view(s1), std::string_view(s2), ps);
        } catch (std::exception&) {
          t1 = true;
        }
        try {
          replace_all(r2, std::string_view(s), std::string_view(s1), std::string_view(s2), ps);
        } catch (std::exception&) {
          t2 = true;
        }
        if (t1 != t2 || (!t1 && r1 != r2)) {
          res = "OVERLOADS-DIFFER " + (t1 ? std::string("THROW") : hex(r1)) + " " + (t2 ? std::string("THROW") : hex(r2));
        } else {
          res = t1 ? "THROW" : "S " + hex(r1);
        }
      } else if (f == "RC") {
        is >> a >> b >> c;
        res = "S " + hex(replace_all(std::string_view(unhex(a)), unhex(b)[0], unhex(c)[0]));
      } else if (f == "RS") {
        is >> a >> b >> c;
        auto s = unhex(a);
        const auto n = unhex(c);
        replace_all(s, unhex(b)[0], std::string_view(n));
        res = "S " + hex(s);
      } else if (f == "SW") {
        is >> a >> b;
        res = starts_with(std::string_view(unhex(a)), std::string_view(unhex(b))) ? "B 1" : "B 0";
      } else if (f == "EW") {
        is >> a >> b;
        res = ends_with(std::string_view(unhex(a)), std::string_view(unhex(b))) ? "B 1" : "B 0";
      } else if (f == "CV") {
        is >> a;
        const double v = convert<double>(unhex(a));
        char buf[64];
        if (std::isnan(v)) {
          res = "D nan";
        } else if (std::isinf(v)) {
          res = v > 0 ? "D inf" : "D -inf";
        } else {
          std::snprintf(buf, sizeof buf, "D %a", v);
          res = buf;
        }
      } else {
        res = "ERROR unknown-function";
      }
    } catch (std::exception&) {
      res = "THROW";
    }
    outbuf += res;
    outbuf += '\n';
    if (outbuf.size() > (1u << 20)) {
      std::cout << outbuf;
      outbuf.clear();
    }
  }
  std::cout << outbuf;
  return 0;
}

(* C32 -- tokenize(s, "") of the pinned code does not terminate *)
From Coq Require Import List Arith Bool.
From C32 Require Import C32Spec C32Model C32Proofs.
Import ListNotations.

(* whatever the number of loop iterations allowed, the loop has not finished *)
Theorem C32_tokenize_empty_delimiter_terminates_refuted : forall A eqb fuel fxt first (s : list A),
  toks_loop eqb fuel fxt [] first s = Diverge.
Proof. intros; apply toks_empty_delimiter_diverges. Qed.
Print Assumptions C32_tokenize_empty_delimiter_terminates_refuted.

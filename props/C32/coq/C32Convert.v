(* C32 -- lemmas about the convert<double> recogniser *)
From Coq Require Import List Arith Bool Lia NArith ZArith Ascii.
From C32 Require Import C32Model.
Import ListNotations.

Definition is_dec_digit (a : ascii) : Prop := dec_digit a <> None.

(* positional value of a digit string *)
Fixpoint dval (acc : N) (ds : list ascii) : N :=
  match ds with
  | [] => acc
  | a :: r => match dec_digit a with Some v => dval (acc * 10 + v) r | None => acc end
  end.

Lemma digits_all ds : Forall is_dec_digit ds -> forall acc cnt,
  digits 10 dec_digit acc cnt ds = (dval acc ds, cnt + length ds, []).
Proof.
  induction 1 as [|a r Ha Hr IH]; intros acc cnt; simpl.
  - now rewrite Nat.add_0_r.
  - unfold is_dec_digit in Ha. destruct (dec_digit a) as [v|]; [|contradiction].
    rewrite IH. now rewrite Nat.add_succ_r.
Qed.

Lemma digit_ok a : is_dec_digit a ->
  is_space a = false /\ lower a = a /\ (code a =? 45)%N = false /\ (code a =? 43)%N = false /\
  (code a =? 105)%N = false /\ (code a =? 110)%N = false /\ (code a =? 120)%N = false /\ (code a =? 46)%N = false.
Proof.
  unfold is_dec_digit. destruct a as [[] [] [] [] [] [] [] []]; vm_compute; intros H;
    try (exfalso; apply H; reflexivity); repeat split; reflexivity.
Qed.

Lemma convert_digits ds : ds <> [] -> Forall is_dec_digit ds ->
  convert_double ds = Some (Finite false (dval 0 ds) 10 0).
Proof.
  intros N F. destruct ds as [|a r]; [contradiction|]. clear N.
  pose proof (digits_all _ F 0%N 0) as D.
  inversion F as [|x l Ha Hr]; subst.
  destruct (digit_ok a Ha) as [Ksp [Klo [K45 [K43 [K105 [K110 [K120 K46]]]]]]].
  unfold convert_double.
  assert (DS : drop_spaces (a :: r) = a :: r) by (simpl; now rewrite Ksp).
  rewrite DS. unfold sign. rewrite K45, K43.
  assert (E1 : lower_eq (a :: r) w_inf = false).
  { unfold lower_eq. destruct (length (a :: r) =? length w_inf); auto. simpl. rewrite Klo.
    change (code (ascii_of_nat 105)) with 105%N. now rewrite K105. }
  assert (E2 : lower_eq (a :: r) w_infinity = false).
  { unfold lower_eq. destruct (length (a :: r) =? length w_infinity); auto. simpl. rewrite Klo.
    change (code (ascii_of_nat 105)) with 105%N. now rewrite K105. }
  assert (E3 : lower_eq (firstn 3 (a :: r)) w_nan = false).
  { unfold lower_eq. destruct (length (firstn 3 (a :: r)) =? length w_nan); auto. simpl. rewrite Klo.
    change (code (ascii_of_nat 110)) with 110%N. now rewrite K110. }
  rewrite E1, E2, E3. simpl orb. simpl andb. cbv iota.
  assert (M : mantissa_exponent 10 dec_digit 101 1 (a :: r) = Some (dval 0 (a :: r), 0%Z)).
  { unfold mantissa_exponent. rewrite D. simpl. reflexivity. }
  destruct r as [|x h]; [now rewrite M|].
  inversion Hr as [|x' l' Hx Hh]; subst.
  destruct (digit_ok x Hx) as [_ [Xlo [_ [_ [_ [_ [X120 _]]]]]]].
  rewrite Xlo, X120. rewrite andb_false_r. now rewrite M.
Qed.

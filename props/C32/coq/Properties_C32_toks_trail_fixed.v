(* C32 -- tokenize(s, d) with fix_tokenize_string_trailing_field.diff *)
From Coq Require Import List Arith Bool Ascii.
From C32 Require Import C32Spec C32Model C32Proofs.
Import ListNotations.

Theorem C32_tokenize_str : forall A eqb, (forall a b, eqb a b = true <-> a = b) -> forall fxe (s d : list A), d <> [] ->
  exists fs, tokenize_str eqb true fxe s d = Ok fs /\ (s = [] -> fs = []) /\ (s <> [] -> Split d s fs) /\ join d fs = s.
Proof.
  intros A eqb H fxe s d Hd.
  destruct (toks_fixed A eqb H d (S (length s)) Hd true s (Nat.lt_succ_diag_r _)) as [fs [E [E0 S]]].
  exists fs. split; [destruct d; [contradiction|exact E]|]. split; [intros ->; now apply E0|]. split.
  - intros N. apply S. now right.
  - destruct s as [|a s]; [rewrite E0; auto|]. apply Split_join. apply S. right; discriminate.
Qed.
Print Assumptions C32_tokenize_str.

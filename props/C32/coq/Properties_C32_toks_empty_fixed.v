(* C32 -- tokenize(s, "") with fix_tokenize_empty_delimiter.diff: rejected *)
From Coq Require Import List Arith Bool.
From C32 Require Import C32Spec C32Model C32Proofs.
Import ListNotations.

Theorem C32_tokenize_empty_delimiter : forall A eqb fxt (s : list A), tokenize_str eqb fxt true s [] = Throw.
Proof. reflexivity. Qed.
Print Assumptions C32_tokenize_empty_delimiter.

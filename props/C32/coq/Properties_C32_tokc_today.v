(* C32 -- tokenize(s, c, false) of the pinned code (selected when the real code returns ["", "a"] for ",a") *)
From Coq Require Import List Arith Bool Ascii String.
From C32 Require Import C32Spec C32Model C32Proofs.
Import ListNotations.

(* exact description of the defect: one spurious empty first field when s is empty or begins with c *)
Theorem C32_tokenize_char_nokeep_today : forall A eqb, (forall a b, eqb a b = true <-> a = b) -> forall (s : list A) c,
  tokenize_char eqb false s c false =
  match s with
  | [] => [[]]
  | a :: _ => if eqb a c then [] :: tokenize_char eqb true s c false else tokenize_char eqb true s c false
  end.
Proof. exact tokenize_char_nokeep_today. Qed.
Print Assumptions C32_tokenize_char_nokeep_today.

(* "keeps empty fields exactly when asked" is false of the pinned code: tokenize(",a", ',', false) = ["", "a"] *)
Theorem C32_tokenize_char_nokeep_refuted : exists (s : list ascii) c,
  ~ SplitNoEmpty [c] s (tokenize_char Ascii.eqb false s c false).
Proof.
  exists (list_ascii_of_string ",a"), ","%char. intros [gs [_ E]].
  pose proof (filter_nonempty_forall ascii gs) as F. rewrite <- E in F. vm_compute in F.
  inversion F as [|x l N _]. now apply N.
Qed.
Print Assumptions C32_tokenize_char_nokeep_refuted.

(* C32 -- replace_all(s, s1, s2, ps) with fix_replace_all_start_position.diff *)
From Coq Require Import List Arith Bool.
From C32 Require Import C32Spec C32Model C32Proofs.
Import ListNotations.

Theorem C32_replace_all_from : forall A eqb, (forall a b, eqb a b = true <-> a = b) -> forall (s s1 s2 : list A) ps, s1 <> [] ->
  exists w, replace_all eqb true s s1 s2 ps = Ok (firstn ps s ++ w) /\ Repl s1 s2 (skipn ps s) w.
Proof. exact replace_all_ps_fixed. Qed.
Print Assumptions C32_replace_all_from.

Theorem C32_replace_all_from_empty_pattern : forall A eqb (s s2 : list A) ps, replace_all eqb true s [] s2 ps = Ok s.
Proof. exact replace_all_empty_pattern_fixed. Qed.
Print Assumptions C32_replace_all_from_empty_pattern.

(* C32 -- lemmas: the model of StringAlgorithms.cxx meets the specification C32Spec. *)
From Coq Require Import List Arith Bool Lia.
From C32 Require Import C32Spec C32Model.
Import ListNotations.


Section Proofs.
Variable A : Type.
Variable eqb : A -> A -> bool.
Hypothesis eqb_eq : forall a b, eqb a b = true <-> a = b.
Notation str := (list A).

Lemma eqb_refl a : eqb a a = true.
Proof. now apply eqb_eq. Qed.

Lemma eqb_neq a b : eqb a b = false <-> a <> b.
Proof. split; intros H. - intros E. apply eqb_eq in E. congruence. - destruct (eqb a b) eqn:E; auto. apply eqb_eq in E. contradiction. Qed.

(* ---------- starts_with / ends_with *)
Lemma starts_with_spec (s p : str) : starts_with eqb s p = true <-> is_prefix p s.
Proof.
  revert s; induction p as [|b p IH]; intros s; simpl.
  - split; [intros _; exists s; reflexivity|reflexivity].
  - destruct s as [|a s].
    + split; [discriminate|]. intros [t H]; discriminate.
    + rewrite andb_true_iff, eqb_eq, IH. split.
      * intros [-> [t ->]]. now exists t.
      * intros [t H]. simpl in H. injection H as -> ->. split; auto. now exists t.
Qed.

Lemma ends_with_spec (s p : str) : ends_with eqb s p = true <-> is_suffix p s.
Proof.
  unfold ends_with. rewrite starts_with_spec. split.
  - intros [t H]. exists (rev t). apply (f_equal (@rev A)) in H. rewrite rev_involutive, rev_app_distr, rev_involutive in H. exact H.
  - intros [t ->]. exists (rev t). now rewrite rev_app_distr.
Qed.

(* ---------- cut = leftmost occurrence *)
Lemma skipn_length_app (d t : str) : skipn (length d) (d ++ t) = t.
Proof. induction d; simpl; auto. Qed.

Lemma cut_some d r u v : cut eqb d r = Some (u, v) -> r = u ++ d ++ v /\ leftmost d u v.
Proof.
  revert u v; induction r as [|a r IH]; intros u v; simpl.
  - destruct (starts_with eqb [] d) eqn:S; [|discriminate].
    intros H; injection H as <- <-. apply starts_with_spec in S. destruct S as [t S].
    destruct d; [|discriminate]. simpl. split; auto. intros x y _. simpl; lia.
  - destruct (starts_with eqb (a :: r) d) eqn:S.
    + intros H; injection H as <- <-. apply starts_with_spec in S. destruct S as [t S].
      rewrite S, skipn_length_app. split; auto. intros x y _; simpl; lia.
    + destruct (cut eqb d r) as [[u' v']|] eqn:C; [|discriminate].
      intros H; injection H as <- <-. destruct (IH _ _ eq_refl) as [-> L]. split; auto.
      intros x y E. destruct x as [|a' x].
      * exfalso. simpl in E. assert (is_prefix d (a :: u' ++ d ++ v')) by (exists y; exact E).
        apply starts_with_spec in H. congruence.
      * simpl in E. injection E as _ E. apply L in E. simpl; lia.
Qed.

Lemma cut_none d r : cut eqb d r = None -> ~ occurs d r.
Proof.
  induction r as [|a r IH]; simpl.
  - destruct (starts_with eqb [] d) eqn:S; [discriminate|]. intros _ [u [v H]].
    destruct u; [|discriminate]. destruct d; [discriminate S|discriminate].
  - destruct (starts_with eqb (a :: r) d) eqn:S; [discriminate|].
    destruct (cut eqb d r) as [[u' v']|] eqn:C; [discriminate|]. intros _ [u [v H]].
    destruct u as [|a' u].
    + simpl in H. assert (is_prefix d (a :: r)) by (exists v; exact H). apply starts_with_spec in H0. congruence.
    + simpl in H. injection H as _ H. apply IH; auto. now exists u, v.
Qed.

Lemma cut_shorter d r u v : d <> [] -> cut eqb d r = Some (u, v) -> length v < length r.
Proof.
  intros Hd H. apply cut_some in H. destruct H as [-> _]. rewrite !app_length.
  destruct d; [contradiction|simpl; lia].
Qed.

Lemma cut_empty r : cut eqb [] r = Some ([], r).
Proof. destruct r; reflexivity. Qed.

End Proofs.


Section Proofs2.
Variable A : Type.
Notation str := (list A).

(* ---------- facts about the specification itself *)
Lemma Split_nonempty (d s : str) fs : Split d s fs -> fs <> [].
Proof. destruct 1; discriminate. Qed.

Lemma Split_join (d s : str) fs : Split d s fs -> join d fs = s.
Proof.
  induction 1 as [r H|u v fs L H IH]; simpl; auto.
  destruct fs; [now apply Split_nonempty in H|]. now rewrite IH.
Qed.

Lemma leftmost_no_occ (d u v : str) : d <> [] -> leftmost d u v -> ~ occurs d u.
Proof.
  intros Hd L [x [y E]]. specialize (L x (y ++ d ++ v)). rewrite E in L.
  rewrite <- !app_assoc in L. specialize (L eq_refl). rewrite !app_length in L.
  destruct d; [contradiction|simpl in L; lia].
Qed.

Lemma Split_fields (d s : str) fs : d <> [] -> Split d s fs -> Forall (fun f => ~ occurs d f) fs.
Proof.
  intros Hd; induction 1; constructor; auto. eapply leftmost_no_occ; eauto.
Qed.

Lemma app_eq_len (u u' w w' : str) : u ++ w = u' ++ w' -> length u = length u' -> u = u' /\ w = w'.
Proof.
  revert u'; induction u as [|a u IH]; intros [|a' u'] E L; simpl in *; try discriminate; auto.
  injection E as -> E. injection L as L. destruct (IH _ E L) as [-> ->]. auto.
Qed.

Lemma leftmost_unique (d u v u' v' : str) :
  u ++ d ++ v = u' ++ d ++ v' -> leftmost d u v -> leftmost d u' v' -> u = u' /\ v = v'.
Proof.
  intros E L L'. pose proof (L _ _ E). symmetry in E. pose proof (L' _ _ E). symmetry in E.
  destruct (app_eq_len _ _ _ _ E ltac:(lia)) as [-> E']. split; auto.
  now apply app_inv_head in E'.
Qed.

Lemma Split_unique (d s : str) fs fs' : Split d s fs -> Split d s fs' -> fs = fs'.
Proof.
  intros H; revert fs'; induction H as [r N|u v fs L H IH]; intros fs' H'.
  - inversion H' as [r' N' E1 E2|u' v' gs L' H'' E1 E2]; subst; auto.
    exfalso; apply N. now exists u', v'.
  - inversion H' as [r' N' E1 E2|u' v' gs L' H'' E1 E2]; subst.
    + exfalso; apply N'. now exists u, v.
    + destruct (leftmost_unique _ _ _ _ _ E1 L' L) as [-> ->]. f_equal. now apply IH.
Qed.

Lemma Repl_unique (s1 s2 s w w' : str) : Repl s1 s2 s w -> Repl s1 s2 s w' -> w = w'.
Proof.
  intros H; revert w'; induction H as [r N|u v w L H IH]; intros w' H'.
  - inversion H' as [r' N' E1 E2|u' v' x L' H'' E1 E2]; subst; auto.
    exfalso; apply N. now exists u', v'.
  - inversion H' as [r' N' E1 E2|u' v' x L' H'' E1 E2]; subst.
    + exfalso; apply N'. now exists u, v.
    + destruct (leftmost_unique _ _ _ _ _ E1 L' L) as [-> ->]. do 2 f_equal. now apply IH.
Qed.

(* when the pattern is replaced by itself nothing changes; the result of a replacement by a text that does not
   create new occurrences contains the pattern only where [s2] does -- not needed by the property *)
Lemma Repl_same (s1 s w : str) : Repl s1 s1 s w -> w = s.
Proof. induction 1; auto. now rewrite IHRepl. Qed.

End Proofs2.


Section Proofs3.
Variable A : Type.
Variable eqb : A -> A -> bool.
Hypothesis eqb_eq : forall a b, eqb a b = true <-> a = b.
Notation str := (list A).

(* ---------- tokenize(s, c, keep) *)
Lemma break_spec c r : 
  let (t, e) := break eqb c r in
  ~ In c t /\ match e with None => r = t | Some r' => exists r'', r' = c :: r'' /\ r = t ++ [c] ++ r'' end.
Proof.
  induction r as [|a r IH]; simpl.
  - split; auto.
  - destruct (eqb a c) eqn:E.
    + apply eqb_eq in E; subst. split; auto. now exists r.
    + destruct (break eqb c r) as [t e]. destruct IH as [N IH]. split.
      * intros [H|H]; auto. subst. rewrite (eqb_refl _ _ eqb_eq) in E. discriminate.
      * destruct e as [r'|]; [|now subst]. destruct IH as [r'' [-> ->]]. now exists r''.
Qed.

Lemma notin_leftmost c (t v : str) : ~ In c t -> leftmost [c] t v.
Proof.
  intros N x y E. destruct (le_lt_dec (length t) (length x)) as [LE|LT]; auto. exfalso; apply N.
  apply app_eq_app in E. destruct E as [w [[-> E]|[-> E]]].
  - destruct w; [rewrite app_length in *; simpl in *; lia|]. simpl in E. injection E as <- _.
    apply in_or_app; right; now left.
  - rewrite app_length in *; lia.
Qed.

Lemma notin_no_occ c (t : str) : ~ In c t -> ~ occurs [c] t.
Proof. intros N [u [v ->]]. apply N. apply in_or_app; right; now left. Qed.

Lemma tokc_keep_split c fuel r : length r < fuel -> Split [c] r (tokc_loop eqb fuel c true (Some r)).
Proof.
  revert r; induction fuel as [|f IH]; intros r L; [lia|]. simpl.
  pose proof (break_spec c r) as B. destruct (break eqb c r) as [t e]. destruct B as [N B].
  destruct e as [r'|].
  - destruct B as [r'' [-> ->]]. simpl tl. apply Split_step. now apply notin_leftmost.
    apply IH. rewrite !app_length in L; simpl in L; lia.
  - subst. destruct f; simpl; apply Split_last; now apply notin_no_occ.
Qed.

Lemma tokenize_char_keep fx s c : Split [c] s (tokenize_char eqb fx s c true).
Proof. unfold tokenize_char. rewrite andb_false_r. apply tokc_keep_split. lia. Qed.

Definition olen (b : option (list A)) : nat := match b with Some r => S (@length A r) | None => 0 end.

Lemma skip_len c r : olen (skip eqb c r) <= S (length r).
Proof. induction r as [|a r IH]; simpl; auto. destruct (eqb a c); simpl; lia. Qed.

Lemma skip_delim c r : skip eqb c (c :: r) = skip eqb c r.
Proof. simpl. now rewrite (eqb_refl _ _ eqb_eq). Qed.

(* the position strictly increases at every turn of the loop *)
Lemma next_len (c : A) (keep : bool) (r : list A) :
  let (t, e) := break eqb c r in
  olen (match e with None => @None (list A) | Some r' => if keep then Some (tl r') else skip eqb c r' end) <= length r.
Proof.
  pose proof (break_spec c r) as B. destruct (break eqb c r) as [t e]. destruct B as [_ B].
  destruct e as [r'|]; [|simpl; lia]. destruct B as [r'' [-> ->]]. rewrite app_length. simpl.
  destruct keep; simpl; [lia|]. rewrite (eqb_refl _ _ eqb_eq). pose proof (skip_len c r''). lia.
Qed.

(* hence the result does not depend on the fuel once it exceeds the length: the loop terminates *)
Lemma tokc_fuel c keep f1 : forall f2 b, olen b <= f1 -> olen b <= f2 ->
  tokc_loop eqb f1 c keep b = tokc_loop eqb f2 c keep b.
Proof.
  induction f1 as [|f1 IH]; intros f2 b L1 L2.
  - destruct b; [simpl in L1; lia|]. now destruct f2.
  - destruct b as [r|]; [|now destruct f2]. destruct f2 as [|f2]; [simpl in L2; lia|]. simpl.
    pose proof (next_len c keep r) as NL. destruct (break eqb c r) as [t e]. f_equal.
    simpl in L1, L2. apply IH; lia.
Qed.

Lemma tokc_nokeep_filter c fuel r : length r < fuel ->
  tokc_loop eqb fuel c false (skip eqb c r) = filter nonemptyb (tokc_loop eqb fuel c true (Some r)).
Proof.
  revert r; induction fuel as [|f IH]; intros r L; [lia|].
  destruct r as [|a r]; [now destruct f|]. simpl in L.
  destruct (eqb a c) eqn:E.
  - assert (a = c) by now apply eqb_eq. subst a. rewrite skip_delim.
    assert (R : tokc_loop eqb (S f) c true (Some (c :: r)) = [] :: tokc_loop eqb f c true (Some r))
      by (simpl; now rewrite E).
    rewrite R. change (filter nonemptyb ([] :: tokc_loop eqb f c true (Some r))) with (filter nonemptyb (tokc_loop eqb f c true (Some r))).
    rewrite <- IH by lia.
    pose proof (skip_len c r). apply tokc_fuel; lia.
  - simpl skip. rewrite E. simpl. rewrite E.
    pose proof (break_spec c r) as B. destruct (break eqb c r) as [t e]. destruct B as [_ B].
    simpl. f_equal. destruct e as [x|]; [|now destruct f]. destruct B as [x' [-> ->]].
    simpl tl. rewrite skip_delim. rewrite app_length in L; simpl in L. apply IH. lia.
Qed.

(* fixed code: the fields are those of the split, the empty ones dropped *)
Lemma tokenize_char_nokeep_fixed s c : SplitNoEmpty [c] s (tokenize_char eqb true s c false).
Proof.
  exists (tokenize_char eqb false s c true). split; [apply tokenize_char_keep|].
  unfold tokenize_char. cbn [andb negb]. apply tokc_nokeep_filter. lia.
Qed.

(* pinned code: one spurious empty first field exactly when the string is empty or begins with the delimiter *)
Lemma tokenize_char_nokeep_today s c :
  tokenize_char eqb false s c false =
  match s with
  | [] => [[]]
  | a :: _ => if eqb a c then [] :: tokenize_char eqb true s c false else tokenize_char eqb true s c false
  end.
Proof.
  unfold tokenize_char. simpl andb. cbv iota.
  destruct s as [|a r]; [reflexivity|].
  destruct (eqb a c) eqn:E.
  - assert (a = c) by now apply eqb_eq. subst a.
    change (tokc_loop eqb (S (length (c :: r))) c false (Some (c :: r))) with
      (let (t, e) := break eqb c (c :: r) in
       t :: tokc_loop eqb (length (c :: r)) c false (match e with None => None | Some r' => skip eqb c r' end)).
    simpl break. rewrite E. rewrite !skip_delim. f_equal. pose proof (skip_len c r). apply tokc_fuel; simpl length; lia.
  - simpl skip. now rewrite E.
Qed.

Lemma filter_nonempty_forall (l : list str) : Forall (fun f => f <> []) (filter nonemptyb l).
Proof. apply Forall_forall. intros x H. apply filter_In in H. destruct H as [_ H]. now destruct x. Qed.

End Proofs3.


Section Proofs4.
Variable A : Type.
Variable eqb : A -> A -> bool.
Hypothesis eqb_eq : forall a b, eqb a b = true <-> a = b.
Notation str := (list A).

(* ---------- tokenize(s, d) *)
Fixpoint drop_last_empty (gs : list str) : list str :=
  match gs with
  | [] => []
  | g :: gs' => match gs' with
                | [] => if nonemptyb g then [g] else []
                | _ => g :: drop_last_empty gs'
                end
  end.

(* pinned code: the pieces of the split, minus an empty last piece *)
Lemma toks_today d fuel : d <> [] -> forall first r, length r < fuel ->
  exists gs, Split d r gs /\ toks_loop eqb fuel false d first r = Ok (drop_last_empty gs).
Proof.
  intros Hd. induction fuel as [|f IH]; intros first r L; [lia|]. simpl.
  destruct (cut eqb d r) as [[u v]|] eqn:C.
  - pose proof (cut_shorter _ _ eqb_eq _ _ _ _ Hd C) as Lv.
    apply (cut_some _ _ eqb_eq) in C. destruct C as [-> LM].
    destruct (IH false v ltac:(lia)) as [gs [S E]]. exists (u :: gs). split; [now apply Split_step|].
    rewrite E. simpl. destruct gs; [now apply Split_nonempty in S|reflexivity].
  - apply (cut_none _ _ eqb_eq) in C. exists [r]. split; [now apply Split_last|]. now destruct r.
Qed.

(* with fix_tokenize_string_trailing_field.diff: exactly the split (nothing for the empty string) *)
Lemma toks_fixed d fuel : d <> [] -> forall first r, length r < fuel ->
  exists fs, toks_loop eqb fuel true d first r = Ok fs /\
             (first = true /\ r = [] -> fs = []) /\ (first = false \/ r <> [] -> Split d r fs).
Proof.
  intros Hd. induction fuel as [|f IH]; intros first r L; [lia|]. simpl.
  destruct (cut eqb d r) as [[u v]|] eqn:C.
  - pose proof (cut_shorter _ _ eqb_eq _ _ _ _ Hd C) as Lv.
    apply (cut_some _ _ eqb_eq) in C. destruct C as [-> LM].
    destruct (IH false v ltac:(lia)) as [fs [E [_ S]]]. rewrite E. exists (u :: fs). split; auto. split.
    + intros [_ H]. destruct u; [|discriminate]. destruct d; [contradiction|discriminate].
    + intros _. apply Split_step; auto.
  - apply (cut_none _ _ eqb_eq) in C. destruct r as [|a r].
    + destruct first; simpl.
      * exists []. split; auto. split; auto. intros [H|H]; [discriminate|contradiction].
      * exists [[]]. split; auto. split; [intros [H _]; discriminate|]. intros _. now apply Split_last.
    + exists [a :: r]. split; auto. split; [intros [_ H]; discriminate|]. intros _. now apply Split_last.
Qed.

(* empty delimiter, pinned code: find("", b) = b, b += 0: the loop never finishes, whatever the fuel *)
Lemma toks_empty_delimiter_diverges fuel fx first r : toks_loop eqb fuel fx [] first r = Diverge.
Proof.
  revert first r; induction fuel as [|f IH]; intros first r; simpl; auto.
  rewrite cut_empty. now rewrite IH.
Qed.

(* ---------- replace_all *)
Lemma rep_loop_spec s1 s2 fuel : s1 <> [] -> forall r, length r < fuel -> Repl s1 s2 r (rep_loop eqb fuel s1 s2 r).
Proof.
  intros H1. induction fuel as [|f IH]; intros r L; [lia|]. simpl.
  destruct (cut eqb s1 r) as [[u v]|] eqn:C.
  - pose proof (cut_shorter _ _ eqb_eq _ _ _ _ H1 C) as Lv.
    apply (cut_some _ _ eqb_eq) in C. destruct C as [-> LM]. apply Repl_step; auto. apply IH; lia.
  - apply (cut_none _ _ eqb_eq) in C. now apply Repl_done.
Qed.

Lemma no_occ_nil (s1 : str) : s1 <> [] -> ~ occurs s1 [].
Proof. intros H [u [v E]]. destruct u; [destruct s1; [contradiction|discriminate]|discriminate]. Qed.

Lemma replace_all_0 fx s s1 s2 : s1 <> [] -> exists w, replace_all eqb fx s s1 s2 0 = Ok w /\ Repl s1 s2 s w.
Proof.
  intros H1. unfold replace_all. destruct s as [|a s].
  - exists []. split; auto. apply Repl_done. now apply no_occ_nil.
  - simpl Nat.ltb. cbv iota. destruct s1 as [|b s1]; [contradiction|].
    exists (rep_loop eqb (S (length (a :: s))) (b :: s1) s2 (a :: s)). split.
    + now destruct fx.
    + apply rep_loop_spec; auto. 
Qed.

Lemma replace_all_empty_pattern_0 fx s s2 : replace_all eqb fx s [] s2 0 = Ok s.
Proof. destruct s; auto. unfold replace_all. simpl. now destruct fx. Qed.

(* with fix_replace_all_start_position.diff: the part before ps is kept and the rest is replaced; ps past the end
   changes nothing *)
Lemma replace_all_ps_fixed s s1 s2 ps : s1 <> [] ->
  exists w, replace_all eqb true s s1 s2 ps = Ok (firstn ps s ++ w) /\ Repl s1 s2 (skipn ps s) w.
Proof.
  intros H1. unfold replace_all. destruct s as [|a s].
  - exists []. rewrite firstn_nil, skipn_nil. split; auto. apply Repl_done. now apply no_occ_nil.
  - destruct (length (a :: s) <? ps) eqn:L.
    + apply Nat.ltb_lt in L. exists []. rewrite firstn_all2 by lia. rewrite skipn_all2 by lia. rewrite app_nil_r. split; auto.
      apply Repl_done. now apply no_occ_nil.
    + destruct s1 as [|b s1]; [contradiction|]. eexists; split; [reflexivity|].
      apply rep_loop_spec; auto. rewrite skipn_length. lia.
Qed.

Lemma replace_all_empty_pattern_fixed s s2 ps : replace_all eqb true s [] s2 ps = Ok s.
Proof.
  unfold replace_all. destruct s as [|a s]; auto. destruct (length (a :: s) <? ps); auto.
  now rewrite firstn_skipn.
Qed.

(* pinned code: the part before ps is lost (and ps past the end of a non-empty string throws) *)
Lemma replace_all_ps_today s s1 s2 ps : s1 <> [] -> s <> [] -> ps <= length s ->
  exists w, replace_all eqb false s s1 s2 ps = Ok w /\ Repl s1 s2 (skipn ps s) w.
Proof.
  intros H1 Hs L. unfold replace_all. destruct s as [|a s]; [contradiction|].
  destruct (length (a :: s) <? ps) eqn:L'; [apply Nat.ltb_lt in L'; lia|].
  destruct s1 as [|b s1]; [contradiction|]. eexists; split; [reflexivity|].
  apply rep_loop_spec; auto. rewrite skipn_length. lia.
Qed.

(* ---------- single-character overloads *)
Lemma Repl_cons c n a (r w : str) : a <> c -> Repl [c] n r w -> Repl [c] n (a :: r) (a :: w).
Proof.
  intros N H. inversion H as [r' NO E1 E2|u v w' LM H' E1 E2]; subst.
  - apply Repl_done. intros [u [v E]]. destruct u as [|a' u]; simpl in E.
    + injection E as -> _. contradiction.
    + injection E as _ E. apply NO. now exists u, v.
  - change (Repl [c] n ((a :: u) ++ [c] ++ v) ((a :: u) ++ n ++ w')). apply Repl_step; auto.
    intros x y E. destruct x as [|a' x]; simpl in E.
    + injection E as -> _. contradiction.
    + injection E as _ E. apply LM in E. simpl; lia.
Qed.

Lemma replace_char_str_spec s c n : Repl [c] n s (replace_char_str eqb s c n).
Proof.
  induction s as [|a s IH]; simpl.
  - apply Repl_done. apply no_occ_nil. discriminate.
  - destruct (eqb a c) eqn:E.
    + apply eqb_eq in E; subst. change (Repl [c] n ([] ++ [c] ++ s) ([] ++ n ++ replace_char_str eqb s c n)).
      apply Repl_step; auto. intros x y _; simpl; lia.
    + apply Repl_cons; auto. now apply (eqb_neq _ _ eqb_eq).
Qed.

Lemma replace_char_char_spec s c1 c2 : Repl [c1] [c2] s (replace_char_char eqb s c1 c2).
Proof.
  assert (E : replace_char_char eqb s c1 c2 = replace_char_str eqb s c1 [c2]).
  { unfold replace_char_char. induction s as [|a s IH]; simpl; auto. rewrite IH. now destruct (eqb a c1). }
  rewrite E. apply replace_char_str_spec.
Qed.

End Proofs4.

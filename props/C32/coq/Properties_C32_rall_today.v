(* C32 -- replace_all(s, s1, s2, ps) of the pinned code *)
From Coq Require Import List Arith Bool Ascii String.
From C32 Require Import C32Spec C32Model C32Proofs.
Import ListNotations.

(* exact description: the result is the replacement in s[ps..) alone, the part before ps is lost *)
Theorem C32_replace_all_from_today : forall A eqb, (forall a b, eqb a b = true <-> a = b) -> forall (s s1 s2 : list A) ps,
  s1 <> [] -> s <> [] -> ps <= List.length s ->
  exists w, replace_all eqb false s s1 s2 ps = Ok w /\ Repl s1 s2 (skipn ps s) w.
Proof. exact replace_all_ps_today. Qed.
Print Assumptions C32_replace_all_from_today.

(* "leaves the string unchanged for an empty pattern" is false when ps > 0: replace_all("ab", "", "x", 1) = "b";
   and the copy of s is not a copy: replace_all("abc", "b", "x", 1) = "xc" *)
Theorem C32_replace_all_from_refuted :
  (exists (s s2 : list ascii) ps, ps <= List.length s /\ replace_all Ascii.eqb false s [] s2 ps <> Ok s) /\
  (exists (s s1 s2 : list ascii) ps, ps <= List.length s /\
     forall w, replace_all Ascii.eqb false s s1 s2 ps = Ok w -> ~ is_prefix (firstn ps s) w).
Proof.
  split.
  - exists (list_ascii_of_string "ab"), (list_ascii_of_string "x"), 1. split; [vm_compute; auto|]. vm_compute. discriminate.
  - exists (list_ascii_of_string "abc"), (list_ascii_of_string "b"), (list_ascii_of_string "x"), 1.
    split; [vm_compute; auto|]. intros w E. vm_compute in E. injection E as <-. intros [t H]. vm_compute in H. discriminate.
Qed.
Print Assumptions C32_replace_all_from_refuted.

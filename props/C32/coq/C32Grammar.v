(* C32 -- the convert<double> recogniser of C32Model.v accepts exactly the strings of the grammar of C32ConvertSpec.v *)
From Coq Require Import List Arith Bool Lia NArith ZArith Ascii String.
From C32 Require Import C32Model C32ConvertSpec.
Import ListNotations.
Local Notation length := List.length.

Ltac br := repeat (rewrite ?andb_true_iff, ?orb_true_iff, ?andb_false_iff, ?orb_false_iff, ?N.eqb_eq, ?N.eqb_neq,
                   ?N.leb_le, ?N.leb_gt in * ).

(* ---------------------------------------------------------------- characters *)
Lemma code_lower a : code (lower a) = if ((65 <=? code a) && (code a <=? 90))%N then (code a + 32)%N else code a.
Proof. destruct a as [[] [] [] [] [] [] [] []]; vm_compute; reflexivity. Qed.

Lemma is_space_ws a : is_space a = true <-> is_ws a.
Proof. unfold is_space, is_ws, chr, code. cbv zeta. br. lia. Qed.

Lemma lower_letter n a : (97 <= n <= 122)%N -> ((code (lower a) =? n)%N = true <-> letter n a).
Proof.
  intros Hn. rewrite code_lower. unfold letter, chr, code.
  destruct ((65 <=? N_of_ascii a) && (N_of_ascii a <=? 90))%N eqn:E; br; lia.
Qed.

Lemma dec_digit_dig a : dec_digit a <> None <-> dec_dig a.
Proof.
  unfold dec_digit, dec_dig, chr, code. cbv zeta.
  destruct ((48 <=? N_of_ascii a) && (N_of_ascii a <=? 57))%N eqn:E; br; split; intros H; try lia; try discriminate.
  exfalso; apply H; reflexivity.
Qed.

Lemma hex_digit_dig a : hex_digit a <> None <-> hex_dig a.
Proof.
  unfold hex_digit, hex_dig. pose proof (dec_digit_dig a) as Hd. destruct (dec_digit a) as [v|].
  - split; intros _; [left; apply Hd|]; discriminate.
  - assert (Nd : ~ dec_dig a) by (intro X; apply Hd in X; apply X; reflexivity). clear Hd.
    rewrite code_lower. cbv zeta. unfold dec_dig, chr, code in *.
    destruct ((65 <=? N_of_ascii a) && (N_of_ascii a <=? 90))%N eqn:E1;
      match goal with |- (if ?c then _ else _) <> _ <-> _ => destruct c eqn:E2 end;
      br; split; intros H; try lia; try discriminate; exfalso; apply H; reflexivity.
Qed.

Lemma is_nchar_nchar a : is_nchar a = true <-> nchar a.
Proof.
  unfold is_nchar, nchar. cbv zeta. pose proof (dec_digit_dig a) as Hd. destruct (dec_digit a) as [v|].
  - split; intros _; [left; apply Hd; discriminate | reflexivity].
  - assert (Nd : ~ dec_dig a) by (intro X; apply Hd in X; apply X; reflexivity). clear Hd.
    rewrite code_lower. unfold dec_dig, chr, code in *.
    destruct ((65 <=? N_of_ascii a) && (N_of_ascii a <=? 90))%N eqn:E1; br; lia.
Qed.

(* ---------------------------------------------------------------- words *)
Lemma lower_eq_word s w : Forall (fun c => (97 <= code c <= 122)%N) w ->
  (lower_eq s w = true <-> Forall2 (fun a c => letter (chr c) a) s w).
Proof.
  unfold lower_eq. intros Hw. revert s. induction Hw as [|c w Hc Hw IH]; intros s.
  - destruct s; simpl; split; intros H; try constructor; try discriminate; inversion H.
  - destruct s as [|a s]; simpl.
    + split; intros H; [discriminate | inversion H].
    + specialize (IH s). split.
      * intros H. apply andb_true_iff in H as [H1 H2]. apply andb_true_iff in H2 as [H2 H3].
        constructor; [apply lower_letter; auto|]. apply IH. now rewrite H1, H3.
      * intros H. inversion H as [|? ? ? ? Ha Hs]; subst. apply IH in Hs. apply andb_true_iff in Hs as [H1 H3].
        rewrite H1, H3. apply lower_letter in Ha; [|exact Hc]. change (chr c) with (code c) in Ha. now rewrite Ha.
Qed.

Ltac word_range := repeat (apply Forall_cons; [vm_compute; split; discriminate|]); apply Forall_nil.
Lemma lower_eq_inf b : lower_eq b w_inf = true <-> word "inf" b.
Proof. apply (lower_eq_word b w_inf). word_range. Qed.
Lemma lower_eq_infinity b : lower_eq b w_infinity = true <-> word "infinity" b.
Proof. apply (lower_eq_word b w_infinity). word_range. Qed.
Lemma lower_eq_nan b : lower_eq b w_nan = true <-> word "nan" b.
Proof. apply (lower_eq_word b w_nan). word_range. Qed.

Lemma word_length w b : word w b -> length b = length (list_ascii_of_string w).
Proof. unfold word. intros H. induction H; simpl; auto. Qed.

(* ---------------------------------------------------------------- digit runs *)
Section Digits.
  Variables (base : N) (dig : ascii -> option N) (D : ascii -> Prop).
  Hypothesis digD : forall a, dig a <> None <-> D a.

  Definition stops (r : list ascii) : Prop := match r with [] => True | a :: _ => ~ D a end.

  Lemma digits_inv s : forall acc cnt m c r, digits base dig acc cnt s = (m, c, r) ->
    exists ds, s = ds ++ r /\ Forall D ds /\ c = cnt + length ds /\ stops r.
  Proof.
    induction s as [|a s IH]; intros acc cnt m c r H; simpl in H.
    - inversion H; subst. exists []. simpl. repeat split; auto.
    - destruct (dig a) as [v|] eqn:E.
      + apply IH in H as (ds & -> & F & -> & St). exists (a :: ds). simpl. split; [reflexivity|].
        split; [constructor; auto; apply digD; congruence|]. split; [lia | exact St].
      + inversion H; subst. exists []. simpl. repeat split; auto. intro X. apply digD in X. congruence.
  Qed.

  Lemma digits_app ds : Forall D ds -> forall r acc cnt, stops r ->
    exists m, digits base dig acc cnt (ds ++ r) = (m, cnt + length ds, r).
  Proof.
    induction 1 as [|a ds Ha F IH]; intros r acc cnt St; simpl.
    - rewrite Nat.add_0_r. destruct r as [|b r]; [eexists; reflexivity|]. simpl in St. simpl.
      destruct (dig b) eqn:E; [|eexists; reflexivity]. exfalso; apply St, digD; congruence.
    - apply digD in Ha. destruct (dig a) as [v|]; [|congruence].
      destruct (IH r (acc * base + v)%N (S cnt) St) as [m Hm]. exists m. rewrite Hm. f_equal. f_equal. lia.
  Qed.
End Digits.

(* ---------------------------------------------------------------- white space and sign *)
Lemma drop_spaces_inv s : exists ws, s = ws ++ drop_spaces s /\ Forall is_ws ws.
Proof.
  induction s as [|a s (ws & E & F)]; [exists []; auto|]. simpl. destruct (is_space a) eqn:Ea.
  - exists (a :: ws). simpl. split; [now f_equal|]. constructor; auto. now apply is_space_ws.
  - exists []. auto.
Qed.

Definition head_not (P : ascii -> Prop) (r : list ascii) : Prop := match r with [] => True | a :: _ => ~ P a end.

Lemma drop_spaces_app ws r : Forall is_ws ws -> head_not is_ws r -> drop_spaces (ws ++ r) = r.
Proof.
  induction 1 as [|a ws Ha F IH]; intros Hr; simpl.
  - destruct r as [|b r]; auto. simpl in *. destruct (is_space b) eqn:E; auto. apply is_space_ws in E. contradiction.
  - apply is_space_ws in Ha. rewrite Ha. auto.
Qed.

Lemma sign_inv s neg r : sign s = (neg, r) -> exists sg, s = sg ++ r /\ opt_sign sg.
Proof.
  destruct s as [|a s]; simpl.
  - intros H; inversion H; subst. exists []. split; auto. constructor.
  - destruct (code a =? 45)%N eqn:E1; [|destruct (code a =? 43)%N eqn:E2]; intros H; inversion H; subst.
    + exists [a]. split; auto. constructor. right. now apply N.eqb_eq.
    + exists [a]. split; auto. constructor. left. now apply N.eqb_eq.
    + exists []. split; auto. constructor.
Qed.

Lemma sign_app sg r : opt_sign sg -> head_not sign_chr r -> exists neg, sign (sg ++ r) = (neg, r).
Proof.
  intros Hs Hr. inversion Hs as [|a Ha]; subst; simpl.
  - destruct r as [|b r]; [eexists; reflexivity|]. simpl in Hr. unfold sign_chr, chr in Hr. fold (code b) in Hr. simpl.
    destruct (code b =? 45)%N eqn:E1; [exfalso; apply Hr; right; now apply N.eqb_eq|].
    destruct (code b =? 43)%N eqn:E2; [exfalso; apply Hr; left; now apply N.eqb_eq|]. eexists; reflexivity.
  - unfold sign_chr, chr in Ha. fold (code a) in Ha. destruct (code a =? 45)%N eqn:E1; [eexists; reflexivity|].
    destruct (code a =? 43)%N eqn:E2; [eexists; reflexivity|]. br. lia.
Qed.

(* ---------------------------------------------------------------- exponent part *)
Lemma exponent_spec mark s : (97 <= mark <= 122)%N -> (exponent mark s <> None <-> opt_exp mark s).
Proof.
  intros Hm. split.
  - destruct s as [|a r]; [constructor|]. unfold exponent.
    destruct (code (lower a) =? mark)%N eqn:E; [|congruence].
    destruct (sign r) as [neg r'] eqn:Es. destruct (digits 10 dec_digit 0 0 r') as [[ev cnt] r''] eqn:Ed.
    destruct cnt as [|cnt]; [congruence|]. destruct r''; [|congruence]. intros _.
    apply sign_inv in Es as (sg & -> & Hsg).
    apply (digits_inv 10 dec_digit dec_dig dec_digit_dig) in Ed as (ds & -> & F & Hc & _). rewrite app_nil_r.
    constructor; auto; [now apply lower_letter|]. intros ->. simpl in Hc. discriminate.
  - intros H. inversion H as [|m sg ds Hl Hsg Hne F]; subst; [simpl; discriminate|]. unfold exponent.
    apply lower_letter in Hl; [|exact Hm]. rewrite Hl.
    destruct (sign_app sg ds Hsg) as [neg Hn].
    { destruct ds as [|d ds]; [exact I|]. simpl. inversion F; subst. unfold dec_dig, sign_chr in *. lia. }
    rewrite Hn. destruct (digits_app 10 dec_digit dec_dig dec_digit_dig ds F [] 0%N 0 I) as [v Hv].
    rewrite app_nil_r in Hv. rewrite Hv. destruct ds; [contradiction|]. simpl. discriminate.
Qed.

Lemma exp_head mark e : opt_exp mark e -> match e with [] => True | a :: _ => letter mark a end.
Proof. intros H; inversion H; subst; auto. Qed.

(* ---------------------------------------------------------------- mantissa and exponent *)
Section Mantissa.
  Variables (base : N) (dig : ascii -> option N) (D : ascii -> Prop) (mark : N) (pd : Z).
  Hypothesis digD : forall a, dig a <> None <-> D a.
  Hypothesis Hmark : (97 <= mark <= 122)%N.
  Hypothesis Dpoint : forall a, D a -> chr a <> 46%N.
  Hypothesis Dmark : forall a, D a -> ~ letter mark a.

  Lemma exp_stops e : opt_exp mark e -> stops D e.
  Proof. intros H. apply exp_head in H. destruct e; simpl; auto. intros X. exact (Dmark _ X H). Qed.

  Lemma mantexp_sound s : mantissa_exponent base dig mark pd s <> None ->
    exists m e, s = m ++ e /\ mantissa D m /\ opt_exp mark e.
  Proof.
    unfold mantissa_exponent. destruct (digits base dig 0 0 s) as [[m1 c1] r1] eqn:E1.
    apply (digits_inv base dig D digD) in E1 as (i & -> & Fi & -> & St1). simpl Nat.add.
    assert (Hint : forall r, length i + 0 <> 0 -> exponent mark r <> None ->
                             exists m e, i ++ r = m ++ e /\ mantissa D m /\ opt_exp mark e).
    { intros r Hc He. exists i, r. split; auto. split; [|now apply exponent_spec].
      constructor; auto. intros ->. simpl in Hc. lia. }
    assert (Hfin : forall (m2 : N) c r, match length i + c with
                     | 0 => None
                     | S _ => match exponent mark r with Some e => Some (m2, (e - pd * Z.of_nat c)%Z) | None => None end
                     end <> None -> length i + c <> 0 /\ exponent mark r <> None).
    { intros m2 c r. destruct (length i + c); [congruence|]. destruct (exponent mark r); [|congruence].
      intros _. split; [lia | discriminate]. }
    destruct r1 as [|a r].
    - intros H. apply Hfin in H as [H1 H2]. now apply Hint.
    - destruct (code a =? 46)%N eqn:Ea.
      + destruct (digits base dig m1 0 r) as [[m2 c2] r2] eqn:E2.
        apply (digits_inv base dig D digD) in E2 as (f & -> & Ff & -> & St2). simpl Nat.add.
        intros H. apply Hfin in H as [H1 H2]. exists (i ++ a :: f), r2. split; [now rewrite <- app_assoc|].
        split; [|now apply exponent_spec]. constructor; auto; [|now apply N.eqb_eq in Ea].
        intros X. apply (f_equal (@length _)) in X. rewrite app_length in X. simpl in X. lia.
      + intros H. apply Hfin in H as [H1 H2]. now apply Hint.
  Qed.

  Lemma mantexp_complete m e : mantissa D m -> opt_exp mark e -> mantissa_exponent base dig mark pd (m ++ e) <> None.
  Proof.
    intros Hm He. pose proof (exp_stops e He) as Se. pose proof (proj2 (exponent_spec mark e Hmark) He) as Xe.
    assert (Hfin : forall (m2 : N) c, c <> 0 -> match c with
                     | 0 => None
                     | S _ => match exponent mark e with Some x => Some (m2, (x - pd * Z.of_nat 0)%Z) | None => None end
                     end <> None).
    { intros m2 c Hc. destruct c; [congruence|]. destruct (exponent mark e); [discriminate | congruence]. }
    unfold mantissa_exponent. destruct Hm as [i Hi Fi | i p f Hif Fi Hp Ff].
    - destruct (digits_app base dig D digD i Fi e 0%N 0 Se) as [m1 H1]. rewrite H1. simpl Nat.add.
      assert (Li : length i <> 0) by (destruct i; [contradiction | simpl; lia]).
      destruct e as [|a r].
      + destruct (length i + 0) eqn:L; [lia|]. destruct (exponent mark []); [discriminate | congruence].
      + assert (Ea : (code a =? 46)%N = false).
        { apply exp_head in He. unfold letter, chr in He. fold (code a) in He. br. lia. }
        rewrite Ea. destruct (length i + 0) eqn:L; [lia|]. destruct (exponent mark (a :: r)); [discriminate | congruence].
    - rewrite <- app_assoc. simpl app.
      assert (Sp : stops D (p :: f ++ e)) by (simpl; intros X; exact (Dpoint _ X Hp)).
      destruct (digits_app base dig D digD i Fi _ 0%N 0 Sp) as [m1 H1]. rewrite H1.
      unfold chr in Hp. fold (code p) in Hp. apply N.eqb_eq in Hp. rewrite Hp.
      destruct (digits_app base dig D digD f Ff e m1 0 Se) as [m2 H2]. rewrite H2. simpl Nat.add.
      assert (L : length i + length f <> 0).
      { intros X. apply Hif. destruct i; [destruct f; [|simpl in X; lia] | simpl in X; lia]. reflexivity. }
      destruct (length i + length f); [lia|]. destruct (exponent mark e); [discriminate | congruence].
  Qed.

  Lemma mantissa_head m : mantissa D m -> exists a r, m = a :: r /\ (D a \/ chr a = 46%N).
  Proof.
    intros H. destruct H as [i Hi Fi | i p f Hif Fi Hp Ff].
    - destruct i as [|a r]; [contradiction|]. inversion Fi; subst. eauto.
    - destruct i as [|a r]; simpl; [eauto|]. inversion Fi; subst. eauto.
  Qed.
End Mantissa.

Lemma dec_point a : dec_dig a -> chr a <> 46%N. Proof. unfold dec_dig. lia. Qed.
Lemma dec_mark a : dec_dig a -> ~ letter 101 a. Proof. unfold dec_dig, letter. lia. Qed.
Lemma hex_point a : hex_dig a -> chr a <> 46%N. Proof. unfold hex_dig, dec_dig. lia. Qed.
Lemma hex_mark a : hex_dig a -> ~ letter 112 a. Proof. unfold hex_dig, dec_dig, letter. lia. Qed.
Lemma r101 : (97 <= 101 <= 122)%N. Proof. lia. Qed.
Lemma r112 : (97 <= 112 <= 122)%N. Proof. lia. Qed.
Lemma r120 : (97 <= 120 <= 122)%N. Proof. lia. Qed.

(* ---------------------------------------------------------------- nan(n-char-sequence) *)
Lemma nan_tail_spec t : nan_tail t = true <->
  t = [] \/ exists o cs c, t = o :: cs ++ [c] /\ chr o = 40%N /\ Forall nchar cs /\ chr c = 41%N.
Proof.
  split.
  - destruct t as [|a r]; [auto|]. simpl. intros H. right. apply andb_true_iff in H as [H1 H2].
    destruct (rev r) as [|z bd] eqn:Er; [discriminate|]. apply andb_true_iff in H2 as [H2 H3].
    exists a, (rev bd), z. rewrite <- (rev_involutive r), Er. simpl. repeat split; auto.
    + now apply N.eqb_eq in H1.
    + rewrite forallb_forall in H3. apply Forall_forall. intros x Hx. apply is_nchar_nchar, H3. now apply in_rev.
    + now apply N.eqb_eq in H2.
  - intros [-> | (o & cs & c & -> & Ho & F & Hc)]; [reflexivity|]. simpl. rewrite rev_app_distr. simpl.
    unfold chr in *. fold (code o) in Ho. fold (code c) in Hc. apply N.eqb_eq in Ho, Hc. rewrite Ho, Hc. simpl.
    apply forallb_forall. intros x Hx. apply is_nchar_nchar. rewrite Forall_forall in F. apply F. now apply in_rev.
Qed.

(* ---------------------------------------------------------------- the part after white space and sign *)
Definition conv_body (neg : bool) (b : list ascii) : option number :=
  if lower_eq b w_inf || lower_eq b w_infinity then Some (Infinite neg)
  else if lower_eq (firstn 3 b) w_nan && nan_tail (skipn 3 b) then Some NotANumber
  else
    match b with
    | z :: x :: h =>
      if (code z =? 48)%N && (code (lower x) =? 120)%N then
        match mantissa_exponent 16 hex_digit 112 4 h with
        | Some (m, e) => Some (Finite neg m 2 e)
        | None => None
        end
      else match mantissa_exponent 10 dec_digit 101 1 b with
           | Some (m, e) => Some (Finite neg m 10 e)
           | None => None
           end
    | _ => match mantissa_exponent 10 dec_digit 101 1 b with
           | Some (m, e) => Some (Finite neg m 10 e)
           | None => None
           end
    end.

Lemma convert_unfold s : s <> [] -> convert_double s = let (neg, b) := sign (drop_spaces s) in conv_body neg b.
Proof. destruct s; [contradiction | reflexivity]. Qed.

Definition dec_res (neg : bool) (b : list ascii) : option number :=
  match mantissa_exponent 10 dec_digit 101 1 b with Some (m, e) => Some (Finite neg m 10 e) | None => None end.
Definition hex_res (neg : bool) (h : list ascii) : option number :=
  match mantissa_exponent 16 hex_digit 112 4 h with Some (m, e) => Some (Finite neg m 2 e) | None => None end.

Lemma dec_res_spec neg b : dec_res neg b <> None <-> exists m e, b = m ++ e /\ mantissa dec_dig m /\ opt_exp 101 e.
Proof.
  unfold dec_res. split.
  - intros H. apply (mantexp_sound 10 dec_digit dec_dig 101 1 dec_digit_dig r101).
    destruct (mantissa_exponent 10 dec_digit 101 1 b) as [[m e]|]; congruence.
  - intros (m & e & -> & Hm & He).
    pose proof (mantexp_complete 10 dec_digit dec_dig 101 1 dec_digit_dig r101 dec_point dec_mark m e Hm He) as H.
    destruct (mantissa_exponent 10 dec_digit 101 1 (m ++ e)) as [[m' e']|]; congruence.
Qed.

Lemma hex_res_spec neg b : hex_res neg b <> None <-> exists m e, b = m ++ e /\ mantissa hex_dig m /\ opt_exp 112 e.
Proof.
  unfold hex_res. split.
  - intros H. apply (mantexp_sound 16 hex_digit hex_dig 112 4 hex_digit_dig r112).
    destruct (mantissa_exponent 16 hex_digit 112 4 b) as [[m e]|]; congruence.
  - intros (m & e & -> & Hm & He).
    pose proof (mantexp_complete 16 hex_digit hex_dig 112 4 hex_digit_dig r112 hex_point hex_mark m e Hm He) as H.
    destruct (mantissa_exponent 16 hex_digit 112 4 (m ++ e)) as [[m' e']|]; congruence.
Qed.

(* characters of a decimal literal *)
Definition decchar (a : ascii) : Prop := dec_dig a \/ chr a = 46%N \/ letter 101 a \/ sign_chr a.
Lemma dec_body_chars m e : mantissa dec_dig m -> opt_exp 101 e -> Forall decchar (m ++ e).
Proof.
  intros Hm He. apply Forall_app. split.
  - assert (X : forall l, Forall dec_dig l -> Forall decchar l).
    { intros l Hl. eapply Forall_impl; [|exact Hl]. unfold decchar; auto. }
    destruct Hm as [i Hi Fi | i p f Hif Fi Hp Ff]; auto. apply Forall_app. split; auto. constructor; auto. unfold decchar; auto.
  - inversion He as [|mk sg ds Hl Hs Hne F]; subst; constructor; [unfold decchar; auto|]. apply Forall_app. split.
    + inversion Hs; subst; constructor; unfold decchar; auto.
    + eapply Forall_impl; [|eassumption]. unfold decchar; auto.
Qed.

Definition head_is (P : ascii -> Prop) (b : list ascii) : Prop := match b with [] => False | a :: _ => P a end.

Lemma not_inf_nan b : head_not (fun a => letter 105 a \/ letter 110 a) b ->
  lower_eq b w_inf = false /\ lower_eq b w_infinity = false /\ lower_eq (firstn 3 b) w_nan = false.
Proof.
  intros H. repeat split.
  - destruct (lower_eq b w_inf) eqn:E; auto. apply lower_eq_inf in E. inversion E; subst. simpl in H. exfalso; apply H; auto.
  - destruct (lower_eq b w_infinity) eqn:E; auto. apply lower_eq_infinity in E. inversion E; subst. simpl in H. exfalso; apply H; auto.
  - destruct (lower_eq (firstn 3 b) w_nan) eqn:E; auto. apply lower_eq_nan in E. destruct b as [|a b]; simpl in *; inversion E; subst.
    exfalso; apply H; auto.
Qed.

Lemma conv_body_sound neg b : conv_body neg b <> None -> body b.
Proof.
  unfold conv_body. destruct (lower_eq b w_inf) eqn:E1; [intros _; apply b_inf; now apply lower_eq_inf|].
  destruct (lower_eq b w_infinity) eqn:E2; [intros _; apply b_infinity; now apply lower_eq_infinity|]. simpl orb. cbv iota.
  destruct (lower_eq (firstn 3 b) w_nan && nan_tail (skipn 3 b)) eqn:E3.
  - intros _. apply andb_true_iff in E3 as [E3 E4]. apply lower_eq_nan in E3. apply nan_tail_spec in E4.
    rewrite <- (firstn_skipn 3 b). destruct E4 as [-> | (o & cs & c & -> & Ho & F & Hc)].
    + rewrite app_nil_r. now apply b_nan.
    + now apply b_nan_seq.
  - assert (Dec : dec_res neg b <> None -> body b).
    { intros H. apply dec_res_spec in H as (m & e & -> & Hm & He). now apply b_dec. }
    destruct b as [|z [|x h]]; try exact Dec.
    destruct ((code z =? 48)%N && (code (lower x) =? 120)%N) eqn:E4; [|exact Dec].
    apply andb_true_iff in E4 as [Ez Ex]. intros H. apply (hex_res_spec neg h) in H as (m & e & -> & Hm & He).
    apply b_hex; auto; [now apply N.eqb_eq in Ez | now apply (lower_letter 120 x r120)].
Qed.

Lemma firstn_skipn_word (w t : list ascii) : length w = 3 -> firstn 3 (w ++ t) = w /\ skipn 3 (w ++ t) = t.
Proof. destruct w as [|a [|b [|c [|d w]]]]; simpl; try discriminate. auto. Qed.

Lemma conv_body_dec neg m e : mantissa dec_dig m -> opt_exp 101 e -> conv_body neg (m ++ e) = dec_res neg (m ++ e).
Proof.
  intros Hm He. unfold conv_body. fold (dec_res neg (m ++ e)).
  destruct (mantissa_head dec_dig m Hm) as (a & r & -> & Ha).
  destruct (not_inf_nan ((a :: r) ++ e)) as (E1 & E2 & E3).
  { simpl. unfold letter, dec_dig in *. lia. }
  rewrite E1, E2, E3. simpl orb. simpl andb. cbv iota.
  destruct ((a :: r) ++ e) as [|z [|x h]] eqn:Eb; try reflexivity.
  destruct ((code z =? 48)%N && (code (lower x) =? 120)%N) eqn:E4; [|reflexivity]. exfalso.
  apply andb_true_iff in E4 as [_ Ex]. apply (lower_letter 120 x r120) in Ex.
  pose proof (dec_body_chars _ _ Hm He) as Fc. rewrite Eb in Fc. inversion Fc as [|? ? _ Fc']; subst.
  inversion Fc' as [|? ? Cx _]; subst. unfold decchar, dec_dig, letter, sign_chr in *. lia.
Qed.

Lemma conv_body_complete neg b : body b -> conv_body neg b <> None.
Proof.
  intros H. destruct H as [m e Hm He | z x m e Hz Hx Hm He | w Hw | w Hw | w Hw | w o cs c Hw Ho F Hc].
  - (* decimal *)
    rewrite conv_body_dec by assumption. apply dec_res_spec; eauto.
  - (* hexadecimal *)
    unfold conv_body.
    destruct (not_inf_nan (z :: x :: m ++ e)) as (E1 & E2 & E3).
    { simpl. unfold letter. lia. }
    rewrite E1, E2, E3. simpl orb. simpl andb. cbv iota.
    unfold chr in Hz. fold (code z) in Hz. apply N.eqb_eq in Hz. apply (lower_letter 120 x r120) in Hx. rewrite Hz, Hx.
    simpl andb. cbv iota. apply (hex_res_spec neg). eauto.
  - unfold conv_body. apply lower_eq_inf in Hw. rewrite Hw. simpl. discriminate.
  - unfold conv_body. apply lower_eq_infinity in Hw. rewrite Hw. rewrite orb_true_r. discriminate.
  - unfold conv_body. destruct (lower_eq w w_inf || lower_eq w w_infinity); [discriminate|].
    destruct (firstn_skipn_word w [] (word_length _ _ Hw)) as [F1 F2]. rewrite app_nil_r in F1, F2. rewrite F1, F2.
    apply lower_eq_nan in Hw. rewrite Hw. simpl. discriminate.
  - unfold conv_body. destruct (lower_eq (w ++ o :: cs ++ [c]) w_inf || lower_eq (w ++ o :: cs ++ [c]) w_infinity); [discriminate|].
    destruct (firstn_skipn_word w (o :: cs ++ [c]) (word_length _ _ Hw)) as [F1 F2]. rewrite F1, F2.
    apply lower_eq_nan in Hw. rewrite Hw.
    assert (T : nan_tail (o :: cs ++ [c]) = true) by (apply nan_tail_spec; right; eauto 10).
    rewrite T. simpl. discriminate.
Qed.

Lemma word_head w b : word w b ->
  match list_ascii_of_string w, b with c :: _, a :: _ => letter (chr c) a | [], [] => True | _, _ => False end.
Proof. unfold word. intros H. inversion H; auto. Qed.

Lemma body_head b : body b -> head_is (fun a => ~ is_ws a /\ ~ sign_chr a) b.
Proof.
  intros H. destruct H as [m e Hm He | z x m e Hz Hx Hm He | w Hw | w Hw | w Hw | w o cs c Hw Ho F Hc].
  - destruct (mantissa_head dec_dig m Hm) as (a & r & -> & Ha). simpl. unfold is_ws, sign_chr, dec_dig in *. lia.
  - simpl. unfold is_ws, sign_chr. lia.
  - apply word_head in Hw. cbv [list_ascii_of_string] in Hw. destruct w as [|a w]; [contradiction|]. simpl.
    change (chr "i"%char) with 105%N in Hw. unfold letter, is_ws, sign_chr in *. lia.
  - apply word_head in Hw. cbv [list_ascii_of_string] in Hw. destruct w as [|a w]; [contradiction|]. simpl.
    change (chr "i"%char) with 105%N in Hw. unfold letter, is_ws, sign_chr in *. lia.
  - apply word_head in Hw. cbv [list_ascii_of_string] in Hw. destruct w as [|a w]; [contradiction|]. simpl.
    change (chr "n"%char) with 110%N in Hw. unfold letter, is_ws, sign_chr in *. lia.
  - apply word_head in Hw. cbv [list_ascii_of_string] in Hw. destruct w as [|a w]; [contradiction|]. simpl.
    change (chr "n"%char) with 110%N in Hw. unfold letter, is_ws, sign_chr in *. lia.
Qed.

(* ---------------------------------------------------------------- the theorem *)
Theorem convert_grammar s : convert_double s <> None <-> numeric s.
Proof.
  split.
  - intros H. destruct s as [|a0 s0] eqn:Es; [simpl in H; congruence|]. rewrite <- Es in *.
    rewrite convert_unfold in H by (rewrite Es; discriminate).
    destruct (drop_spaces_inv s) as (ws & E & F). destruct (sign (drop_spaces s)) as [neg b] eqn:Eg.
    apply sign_inv in Eg as (sg & Eg & Hsg). apply conv_body_sound in H. rewrite E, Eg. now constructor.
  - intros H. inversion H as [ws sg b Hws Hsg Hb]; subst. pose proof (body_head b Hb) as Hh.
    destruct b as [|a r]; [contradiction|]. simpl in Hh. destruct Hh as [Nw Ns].
    rewrite convert_unfold by (destruct ws; [destruct sg|]; discriminate).
    rewrite drop_spaces_app; auto.
    + destruct (sign_app sg (a :: r) Hsg Ns) as [neg Hn]. rewrite Hn. now apply conv_body_complete.
    + inversion Hsg as [|x Hx]; subst; simpl; auto. unfold is_ws, sign_chr in *. lia.
Qed.

(* ---------------------------------------------------------------- nothing may follow a number *)
Lemma ws_not_numchar a : is_ws a -> ~ numchar a.
Proof. unfold is_ws, numchar, nchar, dec_dig. lia. Qed.

Lemma letter_nchar n a : (97 <= n <= 122)%N -> letter n a -> nchar a.
Proof. unfold letter, nchar, dec_dig. lia. Qed.

Lemma word_numchar w b : Forall (fun c => (97 <= chr c <= 122)%N) (list_ascii_of_string w) -> word w b -> Forall numchar b.
Proof.
  unfold word. intros Hw H. induction H; constructor; inversion Hw; subst; auto.
  left. eapply letter_nchar; eauto.
Qed.

Lemma mantissa_numchar (D : ascii -> Prop) m : (forall a, D a -> nchar a) -> mantissa D m -> Forall numchar m.
Proof.
  intros HD H. assert (X : forall l, Forall D l -> Forall numchar l).
  { intros l Hl. eapply Forall_impl; [|exact Hl]. intros a Ha. left. auto. }
  inversion H; subst; auto. apply Forall_app. split; auto. constructor; auto. unfold numchar. auto.
Qed.

Lemma sign_numchar sg : opt_sign sg -> Forall numchar sg.
Proof. intros H; inversion H as [|a Ha]; subst; constructor; auto. unfold numchar, sign_chr in *. lia. Qed.

Lemma exp_numchar mark e : (97 <= mark <= 122)%N -> opt_exp mark e -> Forall numchar e.
Proof.
  intros Hm H. inversion H; subst; constructor.
  - left. eapply letter_nchar; eauto.
  - apply Forall_app. split; [now apply sign_numchar|]. eapply Forall_impl; [|eassumption]. intros a Ha. left. left. exact Ha.
Qed.

Lemma body_numchar b : body b -> Forall numchar b.
Proof.
  intros H. destruct H as [m e Hm He | z x m e Hz Hx Hm He | w Hw | w Hw | w Hw | w o cs c Hw Ho F Hc].
  - apply Forall_app. split; [apply (mantissa_numchar dec_dig); auto; intros a Ha; left; exact Ha | now apply (exp_numchar 101 e r101)].
  - constructor; [unfold numchar, nchar, dec_dig; lia|]. constructor; [left; now apply (letter_nchar 120 x r120)|].
    apply Forall_app. split; [|now apply (exp_numchar 112 e r112)].
    apply (mantissa_numchar hex_dig); auto. unfold hex_dig, nchar, dec_dig. intros a Ha. lia.
  - eapply word_numchar; [|exact Hw]. word_range.
  - eapply word_numchar; [|exact Hw]. word_range.
  - eapply word_numchar; [|exact Hw]. word_range.
  - apply Forall_app. split; [eapply word_numchar; [|exact Hw]; word_range|].
    constructor; [unfold numchar; auto 10|]. apply Forall_app. split.
    + eapply Forall_impl; [|exact F]. intros a Ha. left. exact Ha.
    + constructor; [unfold numchar; auto 10 | constructor].
Qed.

Lemma numeric_shape s : numeric s -> exists ws r, s = ws ++ r /\ Forall is_ws ws /\ r <> [] /\ Forall numchar r.
Proof.
  intros H. inversion H as [ws sg b Hws Hsg Hb]; subst. exists ws, (sg ++ b). repeat split; auto.
  - pose proof (body_head b Hb). destruct b; [contradiction|]. destruct sg; discriminate.
  - apply Forall_app. split; [now apply sign_numchar | now apply body_numchar].
Qed.

Lemma split_clash (r r' t : list ascii) a : Forall numchar r -> Forall numchar r' -> r <> [] ->
  forall ws ws', Forall is_ws ws -> Forall is_ws ws' -> ws ++ r ++ a :: t = ws' ++ r' -> numchar a.
Proof.
  intros Fr Fr' Hr. induction ws as [|x ws IH]; intros ws' Fw Fw' E.
  - destruct ws' as [|y ws']; simpl in E.
    + rewrite <- E in Fr'. apply Forall_app in Fr' as [_ Fr']. now inversion Fr'.
    + destruct r as [|z r]; [contradiction|]. simpl in E. inversion E; subst. inversion Fr; subst. inversion Fw'; subst.
      exfalso. eapply ws_not_numchar; eauto.
  - destruct ws' as [|y ws']; simpl in E.
    + destruct r' as [|z r']; [discriminate|]. inversion E; subst. inversion Fr'; subst. inversion Fw; subst.
      exfalso. eapply ws_not_numchar; eauto.
    + inversion E; subst. inversion Fw; subst. inversion Fw'; subst. eapply IH; eauto.
Qed.

Theorem trailing_rejected s a t : numeric s -> ~ numchar a -> convert_double (s ++ a :: t) = None.
Proof.
  intros Hs Ha. destruct (convert_double (s ++ a :: t)) eqn:E; auto. exfalso.
  assert (N : numeric (s ++ a :: t)) by (apply convert_grammar; congruence).
  apply numeric_shape in Hs as (ws & r & -> & Fw & Hr & Fr). apply numeric_shape in N as (ws' & r' & E' & Fw' & _ & Fr').
  rewrite <- app_assoc in E'. apply Ha. exact (split_clash r r' t a Fr Fr' Hr ws ws' Fw Fw' E').
Qed.

Corollary trailing_space_rejected s a t : numeric s -> is_ws a -> convert_double (s ++ a :: t) = None.
Proof. intros Hs Ha. apply trailing_rejected; auto. now apply ws_not_numchar. Qed.

(* ---------------------------------------------------------------- value of decimal literals *)
Lemma dec_digit_val a : dec_dig a -> dec_digit a = Some (chr a - 48)%N.
Proof.
  unfold dec_digit, dec_dig, chr, code. cbv zeta. intros H.
  destruct ((48 <=? N_of_ascii a) && (N_of_ascii a <=? 57))%N eqn:E; [reflexivity|]. br. lia.
Qed.

Lemma digits_val ds : Forall dec_dig ds -> forall r acc cnt, stops dec_dig r ->
  digits 10 dec_digit acc cnt (ds ++ r) = (dec_value acc ds, cnt + length ds, r).
Proof.
  induction 1 as [|a ds Ha F IH]; intros r acc cnt St; simpl.
  - rewrite Nat.add_0_r. destruct r as [|b r]; [reflexivity|]. simpl in St. simpl.
    destruct (dec_digit b) eqn:E; [|reflexivity]. exfalso; apply St, dec_digit_dig; congruence.
  - rewrite (dec_digit_val a Ha). rewrite IH by assumption. f_equal. f_equal. lia.
Qed.

Lemma dec_value_app i f acc : dec_value acc (i ++ f) = dec_value (dec_value acc i) f.
Proof. revert acc. induction i; simpl; auto. Qed.

Lemma sign_val sg r : opt_sign sg -> head_not sign_chr r -> sign (sg ++ r) = (sign_neg sg, r).
Proof.
  intros Hs Hr. inversion Hs as [|a Ha]; subst; simpl app.
  - destruct r as [|b r]; [reflexivity|]. simpl in Hr. unfold sign_chr, chr in Hr. fold (code b) in Hr. unfold sign, sign_neg.
    destruct (code b =? 45)%N eqn:E1; [exfalso; apply Hr; right; now apply N.eqb_eq|].
    destruct (code b =? 43)%N eqn:E2; [exfalso; apply Hr; left; now apply N.eqb_eq|]. reflexivity.
  - unfold sign_chr, chr in Ha. fold (code a) in Ha. unfold sign, sign_neg, chr. fold (code a).
    destruct (code a =? 45)%N eqn:E1; [reflexivity|]. destruct (code a =? 43)%N eqn:E2; [reflexivity|]. br. lia.
Qed.

Lemma dec_exp_opt e x : dec_exp e x -> opt_exp 101 e.
Proof. intros H; inversion H; subst; now constructor. Qed.
Lemma dec_mant_mantissa m ds k : dec_mant m ds k -> mantissa dec_dig m.
Proof. intros H; inversion H; subst; now constructor. Qed.

Lemma exponent_val e x : dec_exp e x -> exponent 101 e = Some x.
Proof.
  intros H. inversion H as [|m sg ds Hl Hsg Hne F]; subst; [reflexivity|]. unfold exponent.
  apply (lower_letter 101 m r101) in Hl. rewrite Hl. rewrite sign_val; auto.
  - pose proof (digits_val ds F [] 0%N 0 I) as Hv. rewrite app_nil_r in Hv. rewrite Hv.
    destruct ds; [contradiction|]. simpl length. simpl Nat.add. cbv iota. reflexivity.
  - destruct ds as [|d ds]; [exact I|]. simpl. inversion F; subst. unfold dec_dig, sign_chr in *. lia.
Qed.

Lemma mantexp_val m ds k e x : dec_mant m ds k -> dec_exp e x ->
  mantissa_exponent 10 dec_digit 101 1 (m ++ e) = Some (dec_value 0 ds, (x - Z.of_nat k)%Z).
Proof.
  intros Hm He. pose proof (exp_stops dec_dig 101 dec_mark e (dec_exp_opt e x He)) as Se.
  pose proof (exponent_val e x He) as Xe. unfold mantissa_exponent. destruct Hm as [i Hi Fi | i p f Hif Fi Hp Ff].
  - rewrite (digits_val i Fi e 0%N 0 Se). simpl Nat.add.
    assert (Li : length i <> 0) by (destruct i; [contradiction | simpl; lia]).
    destruct e as [|a r].
    + destruct (length i + 0) eqn:L; [lia|]. rewrite Xe. do 2 f_equal; lia.
    + assert (Ea : (code a =? 46)%N = false).
      { apply dec_exp_opt, exp_head in He. unfold letter, chr in He. fold (code a) in He. br. lia. }
      rewrite Ea. destruct (length i + 0) eqn:L; [lia|]. rewrite Xe. do 2 f_equal; lia.
  - rewrite <- app_assoc. simpl app.
    assert (Sp : stops dec_dig (p :: f ++ e)) by (simpl; intros X; exact (dec_point _ X Hp)).
    rewrite (digits_val i Fi _ 0%N 0 Sp).
    unfold chr in Hp. fold (code p) in Hp. apply N.eqb_eq in Hp. rewrite Hp.
    rewrite (digits_val f Ff e _ 0 Se). simpl Nat.add.
    assert (L : length i + length f <> 0).
    { intros X. apply Hif. destruct i; [destruct f; [|simpl in X; lia] | simpl in X; lia]. reflexivity. }
    destruct (length i + length f); [lia|]. rewrite Xe. rewrite dec_value_app. do 2 f_equal; lia.
Qed.

Theorem decimal_value ws sg m ds k e x : Forall is_ws ws -> opt_sign sg -> dec_mant m ds k -> dec_exp e x ->
  convert_double (ws ++ sg ++ m ++ e) = Some (Finite (sign_neg sg) (dec_value 0 ds) 10 (x - Z.of_nat k)).
Proof.
  intros Hws Hsg Hm He. pose proof (dec_mant_mantissa _ _ _ Hm) as Hm'. pose proof (dec_exp_opt _ _ He) as He'.
  pose proof (body_head (m ++ e) (b_dec m e Hm' He')) as Hh.
  destruct (m ++ e) as [|a r] eqn:Eb; [contradiction|]. simpl in Hh. destruct Hh as [Nw Ns].
  rewrite convert_unfold by (destruct ws; [destruct sg|]; discriminate).
  rewrite drop_spaces_app; auto.
  - rewrite sign_val by assumption. rewrite <- Eb. rewrite conv_body_dec by assumption. unfold dec_res.
    now rewrite (mantexp_val m ds k e x Hm He).
  - inversion Hsg as [|c Hc]; subst; simpl; auto. unfold is_ws, sign_chr in *. lia.
Qed.

(* ---------------------------------------------------------------- value of hexadecimal literals *)
Lemma hex_digit_val a : hex_dig a -> hex_digit a = Some (hex_val a).
Proof.
  intros H. unfold hex_digit. pose proof (dec_digit_dig a) as Hd. destruct (dec_digit a) as [v|] eqn:E.
  - assert (Da : dec_dig a) by (apply Hd; discriminate). rewrite (dec_digit_val a Da) in E. inversion E; subst.
    f_equal. unfold hex_val, dec_dig in *. destruct (chr a <=? 57)%N eqn:E1; [reflexivity|]. br. lia.
  - assert (Nd : ~ dec_dig a) by (intro X; apply Hd in X; apply X; reflexivity). clear Hd.
    rewrite code_lower. cbv zeta. unfold hex_dig, dec_dig, hex_val, chr, code in *.
    destruct ((65 <=? N_of_ascii a) && (N_of_ascii a <=? 90))%N eqn:E1;
      match goal with |- (if ?c then _ else _) = _ => destruct c eqn:E2 end;
      destruct (N_of_ascii a <=? 57)%N eqn:E3; destruct (N_of_ascii a <=? 70)%N eqn:E4; br; try lia; f_equal; lia.
Qed.

Lemma hdigits_val ds : Forall hex_dig ds -> forall r acc cnt, stops hex_dig r ->
  digits 16 hex_digit acc cnt (ds ++ r) = (hex_value acc ds, cnt + length ds, r).
Proof.
  induction 1 as [|a ds Ha F IH]; intros r acc cnt St; simpl.
  - rewrite Nat.add_0_r. destruct r as [|b r]; [reflexivity|]. simpl in St. simpl.
    destruct (hex_digit b) eqn:E; [|reflexivity]. exfalso; apply St, hex_digit_dig; congruence.
  - rewrite (hex_digit_val a Ha). rewrite IH by assumption. f_equal. f_equal. lia.
Qed.

Lemma hex_value_app i f acc : hex_value acc (i ++ f) = hex_value (hex_value acc i) f.
Proof. revert acc. induction i; simpl; auto. Qed.

Lemma bin_exp_opt e x : bin_exp e x -> opt_exp 112 e.
Proof. intros H; inversion H; subst; now constructor. Qed.
Lemma hex_mant_mantissa m ds k : hex_mant m ds k -> mantissa hex_dig m.
Proof. intros H; inversion H; subst; now constructor. Qed.

Lemma bexponent_val e x : bin_exp e x -> exponent 112 e = Some x.
Proof.
  intros H. inversion H as [|m sg ds Hl Hsg Hne F]; subst; [reflexivity|]. unfold exponent.
  apply (lower_letter 112 m r112) in Hl. rewrite Hl. rewrite sign_val; auto.
  - pose proof (digits_val ds F [] 0%N 0 I) as Hv. rewrite app_nil_r in Hv. rewrite Hv.
    destruct ds; [contradiction|]. simpl length. simpl Nat.add. cbv iota. reflexivity.
  - destruct ds as [|d ds]; [exact I|]. simpl. inversion F; subst. unfold dec_dig, sign_chr in *. lia.
Qed.

Lemma hmantexp_val m ds k e x : hex_mant m ds k -> bin_exp e x ->
  mantissa_exponent 16 hex_digit 112 4 (m ++ e) = Some (hex_value 0 ds, (x - 4 * Z.of_nat k)%Z).
Proof.
  intros Hm He. pose proof (exp_stops hex_dig 112 hex_mark e (bin_exp_opt e x He)) as Se.
  pose proof (bexponent_val e x He) as Xe. unfold mantissa_exponent. destruct Hm as [i Hi Fi | i p f Hif Fi Hp Ff].
  - rewrite (hdigits_val i Fi e 0%N 0 Se). simpl Nat.add.
    assert (Li : length i <> 0) by (destruct i; [contradiction | simpl; lia]).
    destruct e as [|a r].
    + destruct (length i + 0) eqn:L; [lia|]. rewrite Xe. do 2 f_equal; lia.
    + assert (Ea : (code a =? 46)%N = false).
      { apply bin_exp_opt, exp_head in He. unfold letter, chr in He. fold (code a) in He. br. lia. }
      rewrite Ea. destruct (length i + 0) eqn:L; [lia|]. rewrite Xe. do 2 f_equal; lia.
  - rewrite <- app_assoc. simpl app.
    assert (Sp : stops hex_dig (p :: f ++ e)) by (simpl; intros X; exact (hex_point _ X Hp)).
    rewrite (hdigits_val i Fi _ 0%N 0 Sp).
    unfold chr in Hp. fold (code p) in Hp. apply N.eqb_eq in Hp. rewrite Hp.
    rewrite (hdigits_val f Ff e _ 0 Se). simpl Nat.add.
    assert (L : length i + length f <> 0).
    { intros X. apply Hif. destruct i; [destruct f; [|simpl in X; lia] | simpl in X; lia]. reflexivity. }
    destruct (length i + length f); [lia|]. rewrite Xe. rewrite hex_value_app. do 2 f_equal; lia.
Qed.

Lemma conv_body_hex neg z x m e : chr z = 48%N -> letter 120 x -> conv_body neg (z :: x :: m ++ e) = hex_res neg (m ++ e).
Proof.
  intros Hz Hx. unfold conv_body. fold (hex_res neg (m ++ e)).
  destruct (not_inf_nan (z :: x :: m ++ e)) as (E1 & E2 & E3).
  { simpl. unfold letter. lia. }
  rewrite E1, E2, E3. simpl orb. simpl andb. cbv iota.
  unfold chr in Hz. fold (code z) in Hz. apply N.eqb_eq in Hz. apply (lower_letter 120 x r120) in Hx. rewrite Hz, Hx.
  reflexivity.
Qed.

Theorem hexadecimal_value ws sg z x m ds k e y : Forall is_ws ws -> opt_sign sg -> chr z = 48%N -> letter 120 x ->
  hex_mant m ds k -> bin_exp e y ->
  convert_double (ws ++ sg ++ z :: x :: m ++ e) = Some (Finite (sign_neg sg) (hex_value 0 ds) 2 (y - 4 * Z.of_nat k)).
Proof.
  intros Hws Hsg Hz Hx Hm He.
  rewrite convert_unfold by (destruct ws; [destruct sg|]; discriminate).
  rewrite drop_spaces_app; auto.
  - rewrite sign_val; auto.
    + rewrite conv_body_hex by assumption. unfold hex_res. now rewrite (hmantexp_val m ds k e y Hm He).
    + simpl. unfold sign_chr. lia.
  - inversion Hsg as [|c Hc]; subst; simpl; unfold is_ws, sign_chr in *; lia.
Qed.

Local Open Scope string_scope.
Lemma grammar_examples :
  let S := String.list_ascii_of_string in
  numeric (S " -1.5e+3") /\ numeric (S "1.") /\ numeric (S ".5E2") /\ numeric (S "0x1.8p-1") /\ numeric (S "+INF") /\
  numeric (S "-Infinity") /\ numeric (S "nan(a_1)") /\ numeric (S "0") /\
  ~ numeric (S "") /\ ~ numeric (S ".") /\ ~ numeric (S "1e") /\ ~ numeric (S "1.5 ") /\ ~ numeric (S "- 1") /\ ~ numeric (S "0x") /\
  ~ numeric (S "1.5f") /\ ~ numeric (S "1,5") /\ ~ numeric (S "infinit") /\ ~ numeric (S "nan(") /\ ~ numeric (S "1 2") /\ ~ numeric (S "--1").
Proof.
  cbv zeta. repeat split;
    try (apply convert_grammar; vm_compute; discriminate);
    intro H; apply convert_grammar in H; vm_compute in H; apply H; reflexivity.
Qed.

(* C32 -- tokenize(s, c, false) with fix_tokenize_char_leading_empty.diff (selected when the real code does not
   return an empty first field for ",a") *)
From Coq Require Import List Arith Bool Ascii.
From C32 Require Import C32Spec C32Model C32Proofs.
Import ListNotations.

Theorem C32_tokenize_char_nokeep : forall A eqb, (forall a b, eqb a b = true <-> a = b) -> forall (s : list A) c,
  SplitNoEmpty [c] s (tokenize_char eqb true s c false) /\
  Forall (fun f => f <> []) (tokenize_char eqb true s c false).
Proof.
  intros A eqb H s c. pose proof (tokenize_char_nokeep_fixed A eqb H s c) as S. split; [exact S|].
  destruct S as [gs [_ ->]]. apply filter_nonempty_forall.
Qed.
Print Assumptions C32_tokenize_char_nokeep.

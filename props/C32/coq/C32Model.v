(* C32 -- executable model of src/Utilities/StringAlgorithms.cxx (definitions only).
   Strings are lists over an alphabet [A] with a boolean equality; a position [pos] of the C++ code is represented
   by the suffix of the string that starts at [pos]; [std::string::npos] by [None].
   Every function that has a known defect takes a flag [fx]: [false] = the code of the pinned tree,
   [true] = the code with props/C32/fix_*.diff applied.  The check selects the flag by observing the real code. *)
From Coq Require Import List Arith Bool Lia NArith ZArith Ascii.
Import ListNotations.

Inductive result (T : Type) : Type := Ok (x : T) | Throw | Diverge.
Arguments Ok {T}. Arguments Throw {T}. Arguments Diverge {T}.

Section Model.
Variable A : Type.
Variable eqb : A -> A -> bool.
Notation str := (list A).

(* starts_with(s1,s2): size test, then std::equal(s2.begin(), s2.end(), s1.begin()) *)
Fixpoint starts_with (s p : str) {struct p} : bool :=
  match p with
  | [] => true
  | b :: p' => match s with [] => false | a :: s' => eqb a b && starts_with s' p' end
  end.

(* ends_with: the same through reverse iterators *)
Definition ends_with (s p : str) : bool := starts_with (rev s) (rev p).

(* s.find(d, pos) seen from the suffix [r] at [pos]: [Some (u, v)] when the first occurrence of [d] in [r]
   is after [u] and followed by [v]; [None] = npos *)
Fixpoint cut (d r : str) : option (str * str) :=
  if starts_with r d then Some ([], skipn (length d) r)
  else match r with
       | [] => None
       | a :: r' => match cut d r' with Some (u, v) => Some (a :: u, v) | None => None end
       end.

(* s.substr(b, e-b) with e = s.find_first_of(c, b): the field, and the suffix starting AT the delimiter *)
Fixpoint break (c : A) (r : str) : str * option str :=
  match r with
  | [] => ([], None)
  | a :: r' => if eqb a c then ([], Some r) else let (t, e) := break c r' in (a :: t, e)
  end.

(* s.find_first_not_of(c, e) *)
Fixpoint skip (c : A) (r : str) : option str :=
  match r with
  | [] => None
  | a :: r' => if eqb a c then skip c r' else Some r
  end.

(* the loop of tokenize(string_view, char, bool); [b] = suffix at position b (None = npos) *)
Fixpoint tokc_loop (fuel : nat) (c : A) (keep : bool) (b : option str) : list str :=
  match b with
  | None => []
  | Some r =>
    match fuel with
    | 0 => []
    | S f =>
      let (t, e) := break c r in
      let b' := match e with
                | None => None
                | Some r' => if keep then Some (tl r') else skip c r'
                end in
      t :: tokc_loop f c keep b'
    end
  end.

(* fx = true: fix_tokenize_char_leading_empty.diff (b starts at find_first_not_of(c) when empties are dropped) *)
Definition tokenize_char (fx : bool) (s : str) (c : A) (keep : bool) : list str :=
  tokc_loop (S (length s)) c keep (if fx && negb keep then skip c s else Some s).

(* the loop of tokenize(string_view, string_view); [first] = res.empty() *)
Fixpoint toks_loop (fuel : nat) (fx_trail : bool) (d : str) (first : bool) (r : str) : result (list str) :=
  match fuel with
  | 0 => Diverge
  | S f =>
    match cut d r with
    | Some (u, v) =>
      match toks_loop f fx_trail d false v with Ok ts => Ok (u :: ts) | x => x end
    | None =>
      Ok (match r with
          | [] => if fx_trail && negb first then [[]] else []
          | _ => [r]
          end)
    end
  end.

(* fx_trail: fix_tokenize_string_trailing_field.diff; fx_empty: fix_tokenize_empty_delimiter.diff (throws).
   [Diverge]: the loop does not finish (it is shown not to finish for ANY amount of fuel when d is empty) *)
Definition tokenize_str (fx_trail fx_empty : bool) (s d : str) : result (list str) :=
  match d with
  | [] => if fx_empty then Throw else toks_loop (S (length s)) fx_trail d true s
  | _ => toks_loop (S (length s)) fx_trail d true s
  end.

(* loop of replace_all(r, s, s1, s2, ps) from the suffix at [pos] *)
Fixpoint rep_loop (fuel : nat) (s1 s2 r : str) : str :=
  match fuel with
  | 0 => r
  | S f =>
    match cut s1 r with
    | Some (u, v) => u ++ s2 ++ rep_loop f s1 s2 v
    | None => r
    end
  end.

(* fx: fix_replace_all_start_position.diff (the part before ps is kept, ps is clamped to the size) *)
Definition replace_all (fx : bool) (s s1 s2 : str) (ps : nat) : result str :=
  match s with
  | [] => Ok []
  | _ =>
    if length s <? ps then (if fx then Ok s else Throw (* resize(size - pos) wraps around: std::length_error *))
    else
      let body := match s1 with
                  | [] => skipn ps s
                  | _ => rep_loop (S (length s)) s1 s2 (skipn ps s)
                  end in
      Ok (if fx then firstn ps s ++ body else body)
  end.

(* replace_all(string_view, char, char) *)
Definition replace_char_char (s : str) (c1 c2 : A) : str :=
  map (fun a => if eqb a c1 then c2 else a) s.

(* replace_all(std::string&, char, string_view) *)
Fixpoint replace_char_str (s : str) (c : A) (n : str) : str :=
  match s with
  | [] => []
  | a :: r => (if eqb a c then n else [a]) ++ replace_char_str r c n
  end.

End Model.

Arguments starts_with {A}. Arguments ends_with {A}. Arguments cut {A}. Arguments break {A}. Arguments skip {A}.
Arguments tokc_loop {A}. Arguments tokenize_char {A}. Arguments toks_loop {A}. Arguments tokenize_str {A}.
Arguments rep_loop {A}. Arguments replace_all {A}. Arguments replace_char_char {A}. Arguments replace_char_str {A}.

(* ------------------------------------------------------------------------------------------------------------
   convert<double>(s): s non-empty, std::stod consumes the whole string.  Recogniser of the strtod subject
   sequence ("C" locale) with the exact value of finite literals as  (-1)^neg * m * base^e.
   Range errors (ERANGE -> std::out_of_range -> rejected) depend on the magnitude: they are decided by the
   differ from the exact value, not here. *)
Inductive number : Type :=
| Finite (neg : bool) (m : N) (base : N) (e : Z)
| Infinite (neg : bool)
| NotANumber.

Definition code (a : ascii) : N := N_of_ascii a.
Definition is_space (a : ascii) : bool :=
  let n := code a in (n =? 32)%N || ((9 <=? n)%N && (n <=? 13)%N).
Definition lower (a : ascii) : ascii :=
  let n := code a in if (65 <=? n)%N && (n <=? 90)%N then ascii_of_N (n + 32) else a.
Definition dec_digit (a : ascii) : option N :=
  let n := code a in if (48 <=? n)%N && (n <=? 57)%N then Some (n - 48)%N else None.
Definition hex_digit (a : ascii) : option N :=
  match dec_digit a with
  | Some v => Some v
  | None => let n := code (lower a) in if (97 <=? n)%N && (n <=? 102)%N then Some (n - 87)%N else None
  end.
Definition is_nchar (a : ascii) : bool :=
  let n := code (lower a) in
  match dec_digit a with Some _ => true | None => ((97 <=? n)%N && (n <=? 122)%N) || (n =? 95)%N end.

Fixpoint digits (base : N) (dig : ascii -> option N) (acc : N) (cnt : nat) (s : list ascii) : N * nat * list ascii :=
  match s with
  | [] => (acc, cnt, [])
  | a :: r => match dig a with
              | Some v => digits base dig (acc * base + v)%N (S cnt) r
              | None => (acc, cnt, s)
              end
  end.

Fixpoint drop_spaces (s : list ascii) : list ascii :=
  match s with
  | a :: r => if is_space a then drop_spaces r else s
  | [] => []
  end.

Definition sign (s : list ascii) : bool * list ascii :=
  match s with
  | a :: r => if (code a =? 45)%N then (true, r) else if (code a =? 43)%N then (false, r) else (false, s)
  | [] => (false, [])
  end.

Definition lower_eq (s : list ascii) (w : list ascii) : bool :=
  (length s =? length w) && forallb (fun p => (code (lower (fst p)) =? code (snd p))%N) (combine s w).

Definition ascii_of_nat' := ascii_of_nat.
Definition lit (l : list nat) : list ascii := map ascii_of_nat l.
Definition w_inf := lit [105; 110; 102].
Definition w_infinity := lit [105; 110; 102; 105; 110; 105; 116; 121].
Definition w_nan := lit [110; 97; 110].

(* optional exponent part introduced by the (lower-case) letter [mark]; the rest must be consumed entirely *)
Definition exponent (mark : N) (s : list ascii) : option Z :=
  match s with
  | [] => Some 0%Z
  | a :: r =>
    if (code (lower a) =? mark)%N then
      let (neg, r') := sign r in
      let '(ev, cnt, r'') := digits 10 dec_digit 0%N 0 r' in
      match cnt, r'' with
      | S _, [] => Some (if neg then (- Z.of_N ev)%Z else Z.of_N ev)
      | _, _ => None
      end
    else None
  end.

(* digits [. digits] with at least one digit, then the exponent *)
Definition mantissa_exponent (base : N) (dig : ascii -> option N) (mark : N) (per_digit : Z) (s : list ascii)
  : option (N * Z) :=
  let '(m1, c1, r1) := digits base dig 0%N 0 s in
  let '(m2, c2, r2) := match r1 with
                       | a :: r => if (code a =? 46)%N then digits base dig m1 0 r else (m1, 0, r1)
                       | [] => (m1, 0, r1)
                       end in
  match c1 + c2 with
  | 0 => None
  | _ => match exponent mark r2 with
         | Some e => Some (m2, (e - per_digit * Z.of_nat c2)%Z)
         | None => None
         end
  end.

Definition nan_tail (s : list ascii) : bool :=
  match s with
  | [] => true
  | a :: r => (code a =? 40)%N &&
              match rev r with
              | z :: body => (code z =? 41)%N && forallb is_nchar body
              | [] => false
              end
  end.

Definition convert_double (s : list ascii) : option number :=
  match s with
  | [] => None
  | _ =>
    let (neg, b) := sign (drop_spaces s) in
    if lower_eq b w_inf || lower_eq b w_infinity then Some (Infinite neg)
    else if lower_eq (firstn 3 b) w_nan && nan_tail (skipn 3 b) then Some NotANumber
    else
      match b with
      | z :: x :: h =>
        if (code z =? 48)%N && (code (lower x) =? 120)%N then
          match mantissa_exponent 16 hex_digit 112 4 h with
          | Some (m, e) => Some (Finite neg m 2 e)
          | None => None
          end
        else match mantissa_exponent 10 dec_digit 101 1 b with
             | Some (m, e) => Some (Finite neg m 10 e)
             | None => None
             end
      | _ => match mantissa_exponent 10 dec_digit 101 1 b with
             | Some (m, e) => Some (Finite neg m 10 e)
             | None => None
             end
      end
  end.

(* C32 -- tokenize(s, d) of the pinned code *)
From Coq Require Import List Arith Bool Ascii String.
From C32 Require Import C32Spec C32Model C32Proofs.
Import ListNotations.

(* exact description: the pieces of the split, except that an empty LAST piece is dropped (empty first and
   middle pieces are kept) *)
Theorem C32_tokenize_str_today : forall A eqb, (forall a b, eqb a b = true <-> a = b) -> forall fxe (s d : list A), d <> [] ->
  exists gs, Split d s gs /\ tokenize_str eqb false fxe s d = Ok (drop_last_empty A gs).
Proof.
  intros A eqb H fxe s d Hd.
  destruct (toks_today A eqb H d (S (List.length s)) Hd true s (Nat.lt_succ_diag_r _)) as [gs [S E]].
  exists gs. split; auto. destruct d; [contradiction|exact E].
Qed.
Print Assumptions C32_tokenize_str_today.

(* "joining the fields with the delimiter reproduces the input" is false: tokenize("a::b::", "::") = ["a","b"] *)
Theorem C32_tokenize_str_join_refuted : exists (s d : list ascii), d <> [] /\
  forall fs, tokenize_str Ascii.eqb false false s d = Ok fs -> join d fs <> s.
Proof.
  exists (list_ascii_of_string "a::b::"), (list_ascii_of_string "::"). split; [discriminate|].
  intros fs E. vm_compute in E. injection E as <-. vm_compute. discriminate.
Qed.
Print Assumptions C32_tokenize_str_join_refuted.

(* C32 -- property theorems that hold for the pinned code and for the code with the proposed fixes alike
   (statements only; proofs are in C32Proofs.v).  [A] is any alphabet with a boolean equality: bytes are the
   instance [Ascii.eqb] (C32_bytes_instance) which is the one executed against the C++ code. *)
From Coq Require Import List Arith Bool Ascii NArith ZArith.
From C32 Require Import C32Spec C32Model C32Proofs C32Convert.
Import ListNotations.

Definition EqDec (A : Type) (eqb : A -> A -> bool) : Prop := forall a b, eqb a b = true <-> a = b.

Theorem C32_bytes_instance : EqDec ascii Ascii.eqb.
Proof. exact Ascii.eqb_eq. Qed.
Print Assumptions C32_bytes_instance.

(* starts_with / ends_with are the prefix and suffix tests *)
Theorem C32_starts_with : forall A eqb, EqDec A eqb -> forall s p : list A,
  starts_with eqb s p = true <-> is_prefix p s.
Proof. exact starts_with_spec. Qed.
Print Assumptions C32_starts_with.

Theorem C32_ends_with : forall A eqb, EqDec A eqb -> forall s p : list A,
  ends_with eqb s p = true <-> is_suffix p s.
Proof. exact ends_with_spec. Qed.
Print Assumptions C32_ends_with.

(* the specification determines the result: at most one list of fields / one replaced string *)
Theorem C32_split_unique : forall A (d s : list A) fs fs', Split d s fs -> Split d s fs' -> fs = fs'.
Proof. exact Split_unique. Qed.
Print Assumptions C32_split_unique.

Theorem C32_split_join_fields : forall A (d s : list A) fs, Split d s fs ->
  join d fs = s /\ (d <> [] -> Forall (fun f => ~ occurs d f) fs).
Proof. intros A d s fs H; split; [exact (Split_join _ _ _ _ H)|intros Hd; exact (Split_fields _ _ _ _ Hd H)]. Qed.
Print Assumptions C32_split_join_fields.

Theorem C32_repl_unique : forall A (s1 s2 s w w' : list A), Repl s1 s2 s w -> Repl s1 s2 s w' -> w = w'.
Proof. exact Repl_unique. Qed.
Print Assumptions C32_repl_unique.

(* tokenize(s, c, true): splits at every occurrence of c, empty fields kept, joining gives s back
   (both for the pinned code and the fixed one: the flag only concerns keep = false) *)
Theorem C32_tokenize_char_keep : forall A eqb, EqDec A eqb -> forall fx (s : list A) c,
  Split [c] s (tokenize_char eqb fx s c true) /\ join [c] (tokenize_char eqb fx s c true) = s.
Proof. intros A eqb H fx s c; split; [exact (tokenize_char_keep A eqb H fx s c)|exact (Split_join _ _ _ _ (tokenize_char_keep A eqb H fx s c))]. Qed.
Print Assumptions C32_tokenize_char_keep.

(* the loop of tokenize(s, c, keep) terminates: its result is the same for every fuel above the length *)
Theorem C32_tokenize_char_terminates : forall A eqb, EqDec A eqb -> forall c keep f1 f2 (b : option (list A)),
  olen A b <= f1 -> olen A b <= f2 -> tokc_loop eqb f1 c keep b = tokc_loop eqb f2 c keep b.
Proof. exact tokc_fuel. Qed.
Print Assumptions C32_tokenize_char_terminates.

(* replace_all(s, s1, s2) (ps = 0, all overloads): every leftmost non-overlapping occurrence, left to right *)
Theorem C32_replace_all : forall A eqb, EqDec A eqb -> forall fx (s s1 s2 : list A), s1 <> [] ->
  exists w, replace_all eqb fx s s1 s2 0 = Ok w /\ Repl s1 s2 s w.
Proof. exact replace_all_0. Qed.
Print Assumptions C32_replace_all.

Theorem C32_replace_all_empty_pattern : forall A eqb fx (s s2 : list A), replace_all eqb fx s [] s2 0 = Ok s.
Proof. exact replace_all_empty_pattern_0. Qed.
Print Assumptions C32_replace_all_empty_pattern.

Theorem C32_replace_char_char : forall A eqb, EqDec A eqb -> forall (s : list A) c1 c2,
  Repl [c1] [c2] s (replace_char_char eqb s c1 c2).
Proof. exact replace_char_char_spec. Qed.
Print Assumptions C32_replace_char_char.

Theorem C32_replace_char_str : forall A eqb, EqDec A eqb -> forall (s : list A) c n,
  Repl [c] n s (replace_char_str eqb s c n).
Proof. exact replace_char_str_spec. Qed.
Print Assumptions C32_replace_char_str.

(* convert<double>: the empty string is rejected; a non-empty string of decimal digits is accepted with its
   positional value; nothing that ends with a white-space character is accepted (no trailing garbage) *)
Theorem C32_convert_empty : convert_double [] = None.
Proof. reflexivity. Qed.
Print Assumptions C32_convert_empty.

Theorem C32_convert_digits : forall ds, ds <> [] -> Forall is_dec_digit ds ->
  convert_double ds = Some (Finite false (dval 0%N ds) 10%N 0%Z).
Proof. exact convert_digits. Qed.
Print Assumptions C32_convert_digits.

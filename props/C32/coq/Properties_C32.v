(* C32 -- property theorems that hold for the pinned code and for the code with the proposed fixes alike
   (statements only; proofs are in C32Proofs.v).  [A] is any alphabet with a boolean equality: bytes are the
   instance [Ascii.eqb] (C32_bytes_instance) which is the one executed against the C++ code. *)
From Coq Require Import List Arith Bool Ascii NArith ZArith.
From C32 Require Import C32Spec C32Model C32Proofs C32Convert C32ConvertSpec C32Grammar.
Import ListNotations.

Definition EqDec (A : Type) (eqb : A -> A -> bool) : Prop := forall a b, eqb a b = true <-> a = b.

Theorem C32_bytes_instance : EqDec ascii Ascii.eqb.
Proof. exact Ascii.eqb_eq. Qed.
Print Assumptions C32_bytes_instance.

(* starts_with / ends_with are the prefix and suffix tests *)
Theorem C32_starts_with : forall A eqb, EqDec A eqb -> forall s p : list A,
  starts_with eqb s p = true <-> is_prefix p s.
Proof. exact starts_with_spec. Qed.
Print Assumptions C32_starts_with.

Theorem C32_ends_with : forall A eqb, EqDec A eqb -> forall s p : list A,
  ends_with eqb s p = true <-> is_suffix p s.
Proof. exact ends_with_spec. Qed.
Print Assumptions C32_ends_with.

(* the specification determines the result: at most one list of fields / one replaced string *)
Theorem C32_split_unique : forall A (d s : list A) fs fs', Split d s fs -> Split d s fs' -> fs = fs'.
Proof. exact Split_unique. Qed.
Print Assumptions C32_split_unique.

Theorem C32_split_join_fields : forall A (d s : list A) fs, Split d s fs ->
  join d fs = s /\ (d <> [] -> Forall (fun f => ~ occurs d f) fs).
Proof. intros A d s fs H; split; [exact (Split_join _ _ _ _ H)|intros Hd; exact (Split_fields _ _ _ _ Hd H)]. Qed.
Print Assumptions C32_split_join_fields.

Theorem C32_repl_unique : forall A (s1 s2 s w w' : list A), Repl s1 s2 s w -> Repl s1 s2 s w' -> w = w'.
Proof. exact Repl_unique. Qed.
Print Assumptions C32_repl_unique.

(* tokenize(s, c, true): splits at every occurrence of c, empty fields kept, joining gives s back
   (both for the pinned code and the fixed one: the flag only concerns keep = false) *)
Theorem C32_tokenize_char_keep : forall A eqb, EqDec A eqb -> forall fx (s : list A) c,
  Split [c] s (tokenize_char eqb fx s c true) /\ join [c] (tokenize_char eqb fx s c true) = s.
Proof. intros A eqb H fx s c; split; [exact (tokenize_char_keep A eqb H fx s c)|exact (Split_join _ _ _ _ (tokenize_char_keep A eqb H fx s c))]. Qed.
Print Assumptions C32_tokenize_char_keep.

(* the loop of tokenize(s, c, keep) terminates: its result is the same for every fuel above the length *)
Theorem C32_tokenize_char_terminates : forall A eqb, EqDec A eqb -> forall c keep f1 f2 (b : option (list A)),
  olen A b <= f1 -> olen A b <= f2 -> tokc_loop eqb f1 c keep b = tokc_loop eqb f2 c keep b.
Proof. exact tokc_fuel. Qed.
Print Assumptions C32_tokenize_char_terminates.

(* replace_all(s, s1, s2) (ps = 0, all overloads): every leftmost non-overlapping occurrence, left to right *)
Theorem C32_replace_all : forall A eqb, EqDec A eqb -> forall fx (s s1 s2 : list A), s1 <> [] ->
  exists w, replace_all eqb fx s s1 s2 0 = Ok w /\ Repl s1 s2 s w.
Proof. exact replace_all_0. Qed.
Print Assumptions C32_replace_all.

Theorem C32_replace_all_empty_pattern : forall A eqb fx (s s2 : list A), replace_all eqb fx s [] s2 0 = Ok s.
Proof. exact replace_all_empty_pattern_0. Qed.
Print Assumptions C32_replace_all_empty_pattern.

Theorem C32_replace_char_char : forall A eqb, EqDec A eqb -> forall (s : list A) c1 c2,
  Repl [c1] [c2] s (replace_char_char eqb s c1 c2).
Proof. exact replace_char_char_spec. Qed.
Print Assumptions C32_replace_char_char.

Theorem C32_replace_char_str : forall A eqb, EqDec A eqb -> forall (s : list A) c n,
  Repl [c] n s (replace_char_str eqb s c n).
Proof. exact replace_char_str_spec. Qed.
Print Assumptions C32_replace_char_str.

(* convert<double>: the empty string is rejected; a non-empty string of decimal digits is accepted with its
   positional value; nothing that ends with a white-space character is accepted (no trailing garbage) *)
Theorem C32_convert_empty : convert_double [] = None.
Proof. reflexivity. Qed.
Print Assumptions C32_convert_empty.

Theorem C32_convert_digits : forall ds, ds <> [] -> Forall is_dec_digit ds ->
  convert_double ds = Some (Finite false (dval 0%N ds) 10%N 0%Z).
Proof. exact convert_digits. Qed.
Print Assumptions C32_convert_digits.

(* convert<double> accepts exactly the complete numeric strings: the recogniser accepts s iff the WHOLE of s is derived
   by the grammar of C32ConvertSpec.v (white space* sign? (decimal | hexadecimal | inf | infinity | nan | nan(...))),
   for all byte strings *)
Theorem C32_convert_grammar : forall s, convert_double s <> None <-> numeric s.
Proof. exact convert_grammar. Qed.
Print Assumptions C32_convert_grammar.

(* nothing may follow a number: a numeric string followed by a character that cannot occur inside a number (anything
   but a letter, a digit, '_' '.' '+' '-' '(' ')'), then by anything, is rejected; in particular trailing white space *)
Theorem C32_convert_trailing_garbage_rejected : forall s a t, numeric s -> ~ numchar a -> convert_double (s ++ a :: t) = None.
Proof. exact trailing_rejected. Qed.
Print Assumptions C32_convert_trailing_garbage_rejected.

Theorem C32_convert_trailing_space_rejected : forall s a t, numeric s -> is_ws a -> convert_double (s ++ a :: t) = None.
Proof. exact trailing_space_rejected. Qed.
Print Assumptions C32_convert_trailing_space_rejected.

(* ... and returns their value: a decimal literal  ws* sign? i[.f][e sign? x]  is (-1)^neg * (the decimal number of the digits
   i f) * 10^(x - |f|), as the exact triple (neg, mantissa, exponent) that the tie turns into the correctly rounded double *)
Theorem C32_convert_decimal_value : forall ws sg m ds k e x,
  Forall is_ws ws -> opt_sign sg -> dec_mant m ds k -> dec_exp e x ->
  convert_double (ws ++ sg ++ m ++ e) = Some (Finite (sign_neg sg) (dec_value 0%N ds) 10%N (x - Z.of_nat k)%Z).
Proof. exact decimal_value. Qed.
Print Assumptions C32_convert_decimal_value.

(* a hexadecimal literal  ws* sign? 0x i[.f][p sign? y]  is (-1)^neg * (the hexadecimal number of the digits i f) * 2^(y - 4|f|) *)
Theorem C32_convert_hexadecimal_value : forall ws sg z x m ds k e y,
  Forall is_ws ws -> opt_sign sg -> chr z = 48%N -> letter 120 x -> hex_mant m ds k -> bin_exp e y ->
  convert_double (ws ++ sg ++ z :: x :: m ++ e) = Some (Finite (sign_neg sg) (hex_value 0%N ds) 2%N (y - 4 * Z.of_nat k)%Z).
Proof. exact hexadecimal_value. Qed.
Print Assumptions C32_convert_hexadecimal_value.

(* the grammar is the intended one on familiar strings (decided through C32_convert_grammar by computation) *)
From Coq Require Import String.
Local Open Scope string_scope.
Theorem C32_convert_grammar_examples :
  let S := String.list_ascii_of_string in
  numeric (S " -1.5e+3") /\ numeric (S "1.") /\ numeric (S ".5E2") /\ numeric (S "0x1.8p-1") /\ numeric (S "+INF") /\
  numeric (S "-Infinity") /\ numeric (S "nan(a_1)") /\ numeric (S "0") /\
  ~ numeric (S "") /\ ~ numeric (S ".") /\ ~ numeric (S "1e") /\ ~ numeric (S "1.5 ") /\ ~ numeric (S "- 1") /\ ~ numeric (S "0x") /\
  ~ numeric (S "1.5f") /\ ~ numeric (S "1,5") /\ ~ numeric (S "infinit") /\ ~ numeric (S "nan(") /\ ~ numeric (S "1 2") /\ ~ numeric (S "--1").
Proof. exact grammar_examples. Qed.
Print Assumptions C32_convert_grammar_examples.

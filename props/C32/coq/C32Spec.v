(* C32 -- specification of the string utilities, written from the property text and the header comments,
   independently of the code.  Strings are lists over any alphabet [A]. *)
From Coq Require Import List Arith Lia.
Import ListNotations.

Section Spec.
Variable A : Type.
Notation str := (list A).

(* [d] occurs in [s] *)
Definition occurs (d s : str) : Prop := exists u v, s = u ++ d ++ v.

(* the occurrence of [d] after [u] in [u ++ d ++ v] is the leftmost one *)
Definition leftmost (d u v : str) : Prop :=
  forall x y, u ++ d ++ v = x ++ d ++ y -> length u <= length x.

(* joining fields with a delimiter *)
Fixpoint join (d : str) (fs : list str) : str :=
  match fs with
  | [] => []
  | f :: fs' => match fs' with [] => f | _ => f ++ d ++ join d fs' end
  end.

(* [Split d s fs]: [fs] are the pieces of [s] between the successive leftmost, non-overlapping occurrences of
   the delimiter [d], empty pieces included ("splits at every delimiter occurrence") *)
Inductive Split (d : str) : str -> list str -> Prop :=
| Split_last r : ~ occurs d r -> Split d r [r]
| Split_step u v fs : leftmost d u v -> Split d v fs -> Split d (u ++ d ++ v) (u :: fs).

(* [Repl s1 s2 s w]: [w] is [s] with every leftmost non-overlapping occurrence of [s1] replaced by [s2], scanning
   from left to right, the replacement text not being scanned again *)
Inductive Repl (s1 s2 : str) : str -> str -> Prop :=
| Repl_done r : ~ occurs s1 r -> Repl s1 s2 r r
| Repl_step u v w : leftmost s1 u v -> Repl s1 s2 v w -> Repl s1 s2 (u ++ s1 ++ v) (u ++ s2 ++ w).

Definition nonemptyb (s : str) : bool := match s with [] => false | _ => true end.

(* tokenize without empty fields = the split with the empty pieces dropped *)
Definition SplitNoEmpty (d s : str) (fs : list str) : Prop :=
  exists gs, Split d s gs /\ fs = filter nonemptyb gs.

Definition is_prefix (p s : str) : Prop := exists t, s = p ++ t.
Definition is_suffix (p s : str) : Prop := exists t, s = t ++ p.

End Spec.

Arguments occurs {A}. Arguments leftmost {A}. Arguments join {A}. Arguments Split {A}. Arguments Repl {A}.
Arguments nonemptyb {A}. Arguments SplitNoEmpty {A}. Arguments is_prefix {A}. Arguments is_suffix {A}.

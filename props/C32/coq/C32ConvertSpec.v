(* C32 -- declarative grammar of the strings accepted by convert<double> (std::stod consuming the whole string,
   "C" locale): the subject sequence of strtod (C11 7.22.1.3) preceded by optional white space.  Written from the
   C standard, independently of the recogniser of C32Model.v: characters are described by their codes only.

     numeric  ::= ws* sign? body
     body     ::= mantissa(dec) exp('e')?  |  '0' [xX] mantissa(hex) exp('p')?
               |  "inf" | "infinity" | "nan" | "nan" '(' nchar* ')'            (letters in either case)
     mantissa(D) ::= D+ | D+ '.' D* | D* '.' D+           (at least one digit)
     exp(m)   ::= [mM] sign? dec+
   The whole string is derived: nothing may follow the body. *)
From Coq Require Import List NArith ZArith Ascii String.
Import ListNotations.
Local Open Scope N_scope.

Definition chr (a : ascii) : N := N_of_ascii a.
Definition is_ws (a : ascii) : Prop := chr a = 32 \/ 9 <= chr a <= 13.             (* isspace in the "C" locale *)
Definition sign_chr (a : ascii) : Prop := chr a = 43 \/ chr a = 45.                  (* + - *)
Definition dec_dig (a : ascii) : Prop := 48 <= chr a <= 57.
Definition hex_dig (a : ascii) : Prop := dec_dig a \/ 97 <= chr a <= 102 \/ 65 <= chr a <= 70.
Definition nchar (a : ascii) : Prop := dec_dig a \/ 97 <= chr a <= 122 \/ 65 <= chr a <= 90 \/ chr a = 95.
(* the letter whose lower-case code is n, in either case *)
Definition letter (n : N) (a : ascii) : Prop := chr a = n \/ chr a = n - 32.
Definition word (w : string) (s : list ascii) : Prop := Forall2 (fun a c => letter (chr c) a) s (list_ascii_of_string w).

Inductive opt_sign : list ascii -> Prop :=
| os_none : opt_sign []
| os_some a : sign_chr a -> opt_sign [a].

Inductive mantissa (D : ascii -> Prop) : list ascii -> Prop :=
| m_int i : i <> [] -> Forall D i -> mantissa D i
| m_frac i p f : i ++ f <> [] -> Forall D i -> chr p = 46 -> Forall D f -> mantissa D (i ++ p :: f).

Inductive opt_exp (mark : N) : list ascii -> Prop :=
| e_none : opt_exp mark []
| e_some m sg ds : letter mark m -> opt_sign sg -> ds <> [] -> Forall dec_dig ds -> opt_exp mark (m :: sg ++ ds).

Inductive body : list ascii -> Prop :=
| b_dec m e : mantissa dec_dig m -> opt_exp 101 e -> body (m ++ e)
| b_hex z x m e : chr z = 48 -> letter 120 x -> mantissa hex_dig m -> opt_exp 112 e -> body (z :: x :: m ++ e)
| b_inf w : word "inf" w -> body w
| b_infinity w : word "infinity" w -> body w
| b_nan w : word "nan" w -> body w
| b_nan_seq w o cs c : word "nan" w -> chr o = 40 -> Forall nchar cs -> chr c = 41 -> body (w ++ o :: cs ++ [c]).

Inductive numeric : list ascii -> Prop :=
| num ws sg b : Forall is_ws ws -> opt_sign sg -> body b -> numeric (ws ++ sg ++ b).

(* characters that can occur in a number after the leading white space *)
Definition numchar (a : ascii) : Prop :=
  nchar a \/ chr a = 46 \/ chr a = 43 \/ chr a = 45 \/ chr a = 40 \/ chr a = 41.

(* value of a decimal literal  ws sign i [. f] [e sign x] :  (-1)^neg * dec(i f) * 10^(x - |f|) *)
Fixpoint dec_value (acc : N) (ds : list ascii) : N :=
  match ds with
  | [] => acc
  | a :: r => dec_value (acc * 10 + (chr a - 48)) r
  end.
Definition sign_neg (sg : list ascii) : bool := match sg with a :: _ => chr a =? 45 | [] => false end.
(* dec_mant m ds k: the mantissa m has the digits ds, the last k of them after the point *)
Inductive dec_mant : list ascii -> list ascii -> nat -> Prop :=
| dm_int i : i <> [] -> Forall dec_dig i -> dec_mant i i 0%nat
| dm_frac i p f : i ++ f <> [] -> Forall dec_dig i -> chr p = 46 -> Forall dec_dig f -> dec_mant (i ++ p :: f) (i ++ f) (List.length f).
Inductive dec_exp : list ascii -> Z -> Prop :=
| de_none : dec_exp [] 0%Z
| de_some m sg ds : letter 101 m -> opt_sign sg -> ds <> [] -> Forall dec_dig ds ->
    dec_exp (m :: sg ++ ds) (if sign_neg sg then - Z.of_N (dec_value 0 ds) else Z.of_N (dec_value 0 ds))%Z.

(* value of a hexadecimal literal  ws sign 0x i [. f] [p sign x] :  (-1)^neg * hex(i f) * 2^(x - 4 |f|) *)
Definition hex_val (a : ascii) : N := if chr a <=? 57 then chr a - 48 else if chr a <=? 70 then chr a - 55 else chr a - 87.
Fixpoint hex_value (acc : N) (ds : list ascii) : N :=
  match ds with
  | [] => acc
  | a :: r => hex_value (acc * 16 + hex_val a) r
  end.
Inductive hex_mant : list ascii -> list ascii -> nat -> Prop :=
| hm_int i : i <> [] -> Forall hex_dig i -> hex_mant i i 0%nat
| hm_frac i p f : i ++ f <> [] -> Forall hex_dig i -> chr p = 46 -> Forall hex_dig f -> hex_mant (i ++ p :: f) (i ++ f) (List.length f).
Inductive bin_exp : list ascii -> Z -> Prop :=
| be_none : bin_exp [] 0%Z
| be_some m sg ds : letter 112 m -> opt_sign sg -> ds <> [] -> Forall dec_dig ds ->
    bin_exp (m :: sg ++ ds) (if sign_neg sg then - Z.of_N (dec_value 0 ds) else Z.of_N (dec_value 0 ds))%Z.

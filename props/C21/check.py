"""C21 -- isotropic moduli and stiffness tensors are mutually consistent.
Engine S: the conversions, computeLambda/Mu, computeIsotropicStiffnessTensor, computeKGModuli, the isotropy defect and the
isotropic/orthotropic stiffness tensors of every kind of hypothesis (3D, plane strain, plane stress, axisymmetrical generalised
plane strain/stress; DEFAULT, PIPE and PLATE conventions) are traced from /repo on every run; Coq proves the identities entry by
entry (field).  The real code is run on seeded inputs and judged by an independent statement in exact rational arithmetic."""
import os
from fractions import Fraction as Fr
from vlib import guarded_main

NAMES = ["from_young_nu", "from_kg", "from_lambda_mu", "lame", "stiff_young_nu", "stiff_kg", "kg_of_stiff", "iso_defect", "iso3d", "iso_pstrain",
         "iso_pstress", "iso_agps", "ortho3d", "ortho_pstrain", "ortho_pstress", "ortho_agps", "ortho_agpstrain", "ortho_pstrain_pipe",
         "ortho_pstrain_plate", "ortho_pstress_plate", "ortho3d_plate"]
W = {n: i for i, n in enumerate(NAMES)}
TOL = 1e-9


def close(a, b, scale):
    return abs(float(a) - float(b)) <= TOL * max(abs(float(scale)), 1e-300)


def inv3(S):
    a, b, c, d, e, f, g, h, i = [S[r][s] for r in range(3) for s in range(3)]
    det = a * (e * i - f * h) - b * (d * i - f * g) + c * (d * h - e * g)
    adj = [[e * i - f * h, c * h - b * i, b * f - c * e], [f * g - d * i, a * i - c * g, c * d - a * f], [d * h - e * g, b * g - a * h, a * e - b * d]]
    return [[adj[r][s] / det for s in range(3)] for r in range(3)]


def spec_iso(E, nu):
    K, G, la = E / (3 * (1 - 2 * nu)), E / (2 * (1 + nu)), E * nu / ((1 + nu) * (1 - 2 * nu))
    C = [[Fr(0)] * 6 for _ in range(6)]
    for i in range(6):
        for j in range(6):
            if i < 3 and j < 3:
                C[i][j] = la + (2 * G if i == j else 0)
            elif i == j:
                C[i][j] = 2 * G
    return K, G, la, C


def spec_ortho(p):
    E1, E2, E3, n12, n23, n13, G12, G23, G13 = p
    S = [[1 / E1, -n12 / E1, -n13 / E1], [-n12 / E1, 1 / E2, -n23 / E2], [-n13 / E1, -n23 / E2, 1 / E3]]
    B = inv3(S)
    C = [[Fr(0)] * 6 for _ in range(6)]
    for i in range(3):
        for j in range(3):
            C[i][j] = B[i][j]
    C[3][3], C[4][4], C[5][5] = 2 * G12, 2 * G13, 2 * G23
    return C


def reduce(C, n, pi, condense):
    R = [[Fr(0)] * n for _ in range(n)]
    for i in range(n):
        for j in range(n):
            if condense:
                if i != 2 and j != 2:
                    R[i][j] = C[pi[i]][pi[j]] - C[pi[i]][2] * C[2][pi[j]] / C[2][2]
            else:
                R[i][j] = C[pi[i]][pi[j]]
    return R


def main(c):
    exe = c.cxx("trace", ["trace.cxx"], ["src/Exception/ContractViolation.cxx"])
    gen = os.path.join(c.work, "coq", "C21_gen.v")
    os.makedirs(os.path.dirname(gen), exist_ok=True)
    rc, out, err = c.run([exe, "gen", gen, str(c.seed)])
    if rc != 0:
        c.report("trace", "tracer failed: " + (out + err)[-600:], {"stderr": err[-3000:]}, False)
        return
    nag = 0
    for l in out.splitlines():
        if l.startswith("AGREE-FAIL"):
            c.report("agree:" + l[:200], "traced definition and double instantiation disagree: " + l, {"line": l}, True)
        elif l.startswith("AGREE"):
            nag += 1
            c.count(1)
    c.coverage["traces_validated_against_impl"] = nag
    c.trusted("engine S tracer (cxx/sym/sym.hxx), g++ template instantiation of IsotropicModuli/Lame/StiffnessTensor with Sym",
              "agreement traced definitions (long double evaluation) vs double instantiation on %d seeded inputs, tol 1e-11" % nag)

    # ---- run the real code
    rng = c.rng
    cases = []
    for i in range(c.pick(150, 1500)):
        E = round(rng.uniform(1, 300), 3) * rng.choice((1.0, 1e9))
        nu = round(rng.uniform(-0.95, 0.49), 4)
        o = [round(rng.uniform(50, 250), 2) for _ in range(3)] + [round(rng.uniform(0.05, 0.35), 3) for _ in range(3)] + [round(rng.uniform(20, 100), 2) for _ in range(3)]
        cases.append((E, nu, o))
    lines = []
    for (E, nu, o) in cases:
        FE, Fnu = Fr(E), Fr(nu)
        K, G, la, _ = spec_iso(FE, Fnu)
        for nm in ("from_young_nu", "lame", "stiff_young_nu", "iso3d", "iso_pstrain", "iso_pstress", "iso_agps"):
            lines.append("%d %r %r" % (W[nm], E, nu))
        for nm in ("from_kg", "stiff_kg", "kg_of_stiff", "iso_defect"):
            lines.append("%d %r %r" % (W[nm], float(K), float(G)))
        lines.append("%d %r %r" % (W["from_lambda_mu"], float(la), float(G)))
        for nm in NAMES[12:]:
            lines.append("%d %s" % (W[nm], " ".join(repr(x) for x in o)))
    rc, out, err = c.run([exe, "run"], input="\n".join(lines) + "\n")
    res = [l.split() for l in out.splitlines()]
    if rc != 0 or len(res) != len(lines):
        c.report("run", "driver failed: " + err[-500:], {"stderr": err[-3000:]}, False)
        return
    it = iter(res)
    nbad = 0

    def bad(nm, inp, why, got):
        nonlocal nbad
        nbad += 1
        if len(c.violations) < 12:
            c.report("moduli:%s:%s" % (nm, ",".join(repr(x) for x in inp)), "%s(%s): %s" % (nm, inp, why), {"function": nm, "input": inp, "observed": got, "reason": why}, True)

    def mat(vals, n):
        return [[vals[n * i + j] for j in range(n)] for i in range(n)]

    def cmpmat(nm, inp, got, n, ref):
        M = mat(got, n)
        sc = max(abs(float(x)) for r in ref for x in r)
        for i in range(n):
            for j in range(n):
                if not close(M[i][j], ref[i][j], sc):
                    bad(nm, inp, "entry (%d,%d) = %r, expected %.17g" % (i, j, M[i][j], float(ref[i][j])), got)
                    return

    for k, (E, nu, o) in enumerate(cases):
        FE, Fnu = Fr(E), Fr(nu)
        K, G, la, C = spec_iso(FE, Fnu)
        six = [K, G, la, G, FE, Fnu]
        sc = max(abs(float(x)) for x in six)

        def nxt(nm):
            t = next(it)
            assert int(t[1]) == W[nm]
            c.count(1, (nm, k), True)
            return [float(x) for x in t[2:]]
        g = nxt("from_young_nu")
        if not all(close(a, b, sc if i < 5 else 1) for i, (a, b) in enumerate(zip(g, six))):
            bad("from_young_nu", (E, nu), "returns %r, expected K,G,lambda,mu,E,nu = %r" % (g, [float(x) for x in six]), g)
        g = nxt("lame")
        if not (close(g[0], la, sc) and close(g[1], G, sc)):
            bad("lame", (E, nu), "computeLambda/computeMu = %r, expected %r" % (g, [float(la), float(G)]), g)
        cmpmat("stiff_young_nu", (E, nu), nxt("stiff_young_nu"), 6, C)
        cmpmat("iso3d", (E, nu), nxt("iso3d"), 6, C)
        cmpmat("iso_pstrain", (E, nu), nxt("iso_pstrain"), 4, reduce(C, 4, [0, 1, 2, 3], False))
        cmpmat("iso_pstress", (E, nu), nxt("iso_pstress"), 4, reduce(C, 4, [0, 1, 2, 3], True))
        cmpmat("iso_agps", (E, nu), nxt("iso_agps"), 3, reduce(C, 3, [0, 1, 2], True))
        g = nxt("from_kg")
        if not all(close(a, b, sc if i < 5 else 1) for i, (a, b) in enumerate(zip(g, six))):
            bad("from_kg", (float(K), float(G)), "returns %r, expected K,G,lambda,mu,E,nu = %r" % (g, [float(x) for x in six]), g)
        cmpmat("stiff_kg", (float(K), float(G)), nxt("stiff_kg"), 6, C)
        g = nxt("kg_of_stiff")
        if not (close(g[0], K, sc) and close(g[1], G, sc)):
            bad("kg_of_stiff", (float(K), float(G)), "computeKGModuli = %r" % g, g)
        g = nxt("iso_defect")
        if not all(close(x, 0, sc) for x in g):
            bad("iso_defect", (float(K), float(G)), "tensor differs from its isotropic projection: %r" % g, g)
        g = nxt("from_lambda_mu")
        if not all(close(a, b, sc if i < 5 else 1) for i, (a, b) in enumerate(zip(g, six))):
            bad("from_lambda_mu", (float(la), float(G)), "returns %r, expected %r" % (g, [float(x) for x in six]), g)
        Fo = [Fr(x) for x in o]
        C3 = spec_ortho(Fo)
        cmpmat("ortho3d", o, nxt("ortho3d"), 6, C3)
        cmpmat("ortho_pstrain", o, nxt("ortho_pstrain"), 4, reduce(C3, 4, [0, 1, 2, 3], False))
        cmpmat("ortho_pstress", o, nxt("ortho_pstress"), 4, reduce(C3, 4, [0, 1, 2, 3], True))
        cmpmat("ortho_agps", o, nxt("ortho_agps"), 3, reduce(C3, 3, [0, 1, 2], True))
        cmpmat("ortho_agpstrain", o, nxt("ortho_agpstrain"), 3, reduce(C3, 3, [0, 1, 2], False))
        cmpmat("ortho_pstrain_pipe", o, nxt("ortho_pstrain_pipe"), 4, reduce(C3, 4, [0, 2, 1, 4], False))
        cmpmat("ortho_pstrain_plate", o, nxt("ortho_pstrain_plate"), 4, reduce(C3, 4, [0, 1, 2, 3], False))
        cmpmat("ortho_pstress_plate", o, nxt("ortho_pstress_plate"), 4, reduce(C3, 4, [0, 1, 2, 3], True))
        cmpmat("ortho3d_plate", o, nxt("ortho3d_plate"), 6, C3)
        if k % 40 == 0:
            c.sample({"E": E, "nu": nu, "K": float(K), "G": float(G), "lambda": float(la), "ortho": o})
    if nbad:
        c.notes.append("%d judged results fail the independent statement of the property" % nbad)
    c.coverage["rule"] = ("seeded admissible moduli (E in [1,300] or [1e9,3e11], nu in [-0.95,0.49]) and orthotropic constants; 21 functions; judged in exact rational "
                          "arithmetic: conversion formulas and round trips, lambda+2mu delta / 2mu entries, recovered K,G, zero isotropy defect, 3D orthotropic tensor = "
                          "inverse compliance, sub-block / plane-stress condensation for each hypothesis, PIPE axis exchange; relative tolerance 1e-9")

    res = c.coq([gen, "C21Spec.v", "C21Proofs.v", "C21ProofsO.v", "Properties_C21.v"], timeout=900)
    if not res.ok:
        if any(v[3] for v in c.violations):
            c.notes.append("proof obligations failed: %s; concrete failing inputs are reported" % [f[:3] for f in res.failed])
        else:
            c.coq_failures(res)


guarded_main("C21", main)

// C21: tracer (engine S) and driver for the isotropic moduli conversions and stiffness tensors of /repo.
//   trace gen <out.v> <seed> : Coq definitions + Sym-vs-double agreement; one definition per (hypothesis, axes convention,
//                              alteration) combination that the header provides (PROVIDED lines)
//   trace run                 : the double instantiation on the inputs read from stdin; tensors are pre-filled with NaN so that
//                              an entry that the code never writes is seen
#include "symtfel.hxx"
#include <cmath>
#include <cstring>
#include <functional>
#include <iostream>
#include "TFEL/Math/st2tost2.hxx"
#include "TFEL/Material/Lame.hxx"
#include "TFEL/Material/IsotropicModuli.hxx"
#include "TFEL/Material/StiffnessTensor.hxx"

// Lame.hxx declares, next to the overload traced here (plain tensors, use_qt = false), an overload of `exe` on quantities
// (tfel::config::Types<1u, T, true>), and qt<Unit, Sym> cannot be named (qt requires std::is_arithmetic).  The quantity overload is
// never called by the tracer: give its parameter types placeholders so that the class can be instantiated with Sym.
namespace c21shim {
  struct NoTensor {};
  struct NoStress {};
}  // namespace c21shim
template <>
struct tfel::config::Types<1u, symv::Sym, true> {
  using StiffnessTensor = c21shim::NoTensor;
  using stress = c21shim::NoStress;
};

// Types<1u, T, false> itself names a quantity (SpatialGradType<1u, T, true>): same placeholder treatment, with the two types the traced
// overload uses defined as Types<1u, double, false> defines them (checked by the static_assert)
template <>
struct tfel::config::Types<1u, symv::Sym, false> {
  using StiffnessTensor = tfel::math::st2tost2<1u, symv::Sym>;
  using stress = symv::Sym;
};
static_assert(std::is_same_v<tfel::config::Types<1u, double, false>::StiffnessTensor, tfel::math::st2tost2<1u, double>> &&
              std::is_same_v<tfel::config::Types<1u, double, false>::stress, double>);

using namespace symv;
using namespace tfel::material;
using MH = ModellingHypothesis;
using STAC = StiffnessTensorAlterationCharacteristic;
using OAC = OrthotropicAxesConvention;

// value the tensors are filled with before the call: 0 while tracing / comparing, NaN in `run` mode
static double g_fill = 0;
template <typename M>
void prefill(M& C) {
  using T = std::decay_t<decltype(C(0, 0))>;
  for (auto& x : C) x = T(g_fill);
}

template <unsigned short N, typename T>
std::vector<T> flat(const tfel::math::st2tost2<N, T>& C) {
  std::vector<T> r;
  const unsigned short n = tfel::math::StensorDimeToSize<N>::value;
  for (unsigned short i = 0; i < n; ++i)
    for (unsigned short j = 0; j < n; ++j) r.push_back(C(i, j));
  return r;
}

// which: name -> outputs, inputs p[0..8]
template <typename T>
std::vector<T> f(const int w, const std::vector<T>& p) {
  switch (w) {
    case 0: { YoungNuModuli<T> m(p[0], p[1]); auto a = m.ToKG(); auto b = m.ToLambdaMu(); auto c = m.ToYoungNu(); return {a.kappa, a.mu, b.lambda, b.mu, c.young, c.nu}; }
    case 1: { KGModuli<T> m(p[0], p[1]); auto a = m.ToKG(); auto b = m.ToLambdaMu(); auto c = m.ToYoungNu(); return {a.kappa, a.mu, b.lambda, b.mu, c.young, c.nu}; }
    case 2: { LambdaMuModuli<T> m(p[0], p[1]); auto a = m.ToKG(); auto b = m.ToLambdaMu(); auto c = m.ToYoungNu(); return {a.kappa, a.mu, b.lambda, b.mu, c.young, c.nu}; }
    case 3: return {computeLambda<T>(p[0], p[1]), computeMu<T>(p[0], p[1])};
    case 4: { YoungNuModuli<T> m(p[0], p[1]); return flat<3u, T>(computeIsotropicStiffnessTensor<T>(m)); }
    case 5: { KGModuli<T> m(p[0], p[1]); return flat<3u, T>(computeIsotropicStiffnessTensor<T>(m)); }
    case 6: {  // computeKGModuli of the tensor built from (K,G)
      KGModuli<T> m(p[0], p[1]);
      auto C = computeIsotropicStiffnessTensor<T>(m);
      auto kg = computeKGModuli<T>(C);
      return {kg.kappa, kg.mu};
    }
    case 7: {  // difference between the tensor and its isotropic projection (numerator of the isotropy test)
      KGModuli<T> m(p[0], p[1]);
      tfel::math::st2tost2<3u, T> C = computeIsotropicStiffnessTensor<T>(m);
      const auto km = computeKappaMu<T>(C);
      constexpr auto J = tfel::math::st2tost2<3u, T>::J();
      constexpr auto K = tfel::math::st2tost2<3u, T>::K();
      tfel::math::st2tost2<3u, T> D = C - (3 * km.first * J + 2 * km.second * K);
      return flat<3u, T>(D);
    }
    case 8: { tfel::math::st2tost2<3u, T> C; prefill(C); computeIsotropicStiffnessTensor<MH::TRIDIMENSIONAL, STAC::UNALTERED>(C, p[0], p[1]); return flat<3u, T>(C); }
    case 9: { tfel::math::st2tost2<2u, T> C; prefill(C); computeIsotropicStiffnessTensor<MH::PLANESTRAIN, STAC::UNALTERED>(C, p[0], p[1]); return flat<2u, T>(C); }
    case 10: { tfel::math::st2tost2<2u, T> C; prefill(C); computeIsotropicStiffnessTensor<MH::PLANESTRESS, STAC::ALTERED>(C, p[0], p[1]); return flat<2u, T>(C); }
    case 11: { tfel::math::st2tost2<1u, T> C; prefill(C); computeIsotropicStiffnessTensor<MH::AXISYMMETRICALGENERALISEDPLANESTRESS, STAC::ALTERED>(C, p[0], p[1]); return flat<1u, T>(C); }
    case 12: { tfel::math::st2tost2<3u, T> C; prefill(C); computeOrthotropicStiffnessTensor<MH::TRIDIMENSIONAL, STAC::UNALTERED>(C, p[0], p[1], p[2], p[3], p[4], p[5], p[6], p[7], p[8]); return flat<3u, T>(C); }
    case 13: { tfel::math::st2tost2<2u, T> C; prefill(C); computeOrthotropicStiffnessTensor<MH::PLANESTRAIN, STAC::UNALTERED>(C, p[0], p[1], p[2], p[3], p[4], p[5], p[6], p[7], p[8]); return flat<2u, T>(C); }
    case 14: { tfel::math::st2tost2<2u, T> C; prefill(C); computeOrthotropicStiffnessTensor<MH::PLANESTRESS, STAC::ALTERED>(C, p[0], p[1], p[2], p[3], p[4], p[5], p[6], p[7], p[8]); return flat<2u, T>(C); }
    case 15: { tfel::math::st2tost2<1u, T> C; prefill(C); computeOrthotropicStiffnessTensor<MH::AXISYMMETRICALGENERALISEDPLANESTRESS, STAC::ALTERED>(C, p[0], p[1], p[2], p[3], p[4], p[5], p[6], p[7], p[8]); return flat<1u, T>(C); }
    case 16: { tfel::math::st2tost2<1u, T> C; prefill(C); computeOrthotropicStiffnessTensor<MH::AXISYMMETRICALGENERALISEDPLANESTRAIN, STAC::UNALTERED>(C, p[0], p[1], p[2], p[3], p[4], p[5], p[6], p[7], p[8]); return flat<1u, T>(C); }
    case 17: { tfel::math::st2tost2<2u, T> C; prefill(C); computeOrthotropicStiffnessTensor<MH::PLANESTRAIN, STAC::UNALTERED, OrthotropicAxesConvention::PIPE>(C, p[0], p[1], p[2], p[3], p[4], p[5], p[6], p[7], p[8]); return flat<2u, T>(C); }
    case 18: { tfel::math::st2tost2<2u, T> C; prefill(C); computeOrthotropicStiffnessTensor<MH::PLANESTRAIN, STAC::UNALTERED, OrthotropicAxesConvention::PLATE>(C, p[0], p[1], p[2], p[3], p[4], p[5], p[6], p[7], p[8]); return flat<2u, T>(C); }
    case 19: { tfel::math::st2tost2<2u, T> C; prefill(C); computeOrthotropicStiffnessTensor<MH::PLANESTRESS, STAC::ALTERED, OrthotropicAxesConvention::PLATE>(C, p[0], p[1], p[2], p[3], p[4], p[5], p[6], p[7], p[8]); return flat<2u, T>(C); }
    case 21: { tfel::math::st2tost2<1u, T> C; prefill(C); computeAlteredElasticStiffness<MH::AXISYMMETRICALGENERALISEDPLANESTRESS, T>::exe(C, p[0], p[1]); return flat<1u, T>(C); }  // Lame.hxx, inputs lambda, mu
    default: { tfel::math::st2tost2<3u, T> C; prefill(C); computeOrthotropicStiffnessTensor<MH::TRIDIMENSIONAL, STAC::UNALTERED, OrthotropicAxesConvention::PLATE>(C, p[0], p[1], p[2], p[3], p[4], p[5], p[6], p[7], p[8]); return flat<3u, T>(C); }
  }
}
// ---- every (hypothesis, convention, alteration) combination provided by the header (completeness of the dispatch class)
template <MH::Hypothesis h, STAC a, OAC c>
constexpr bool stiff_ok = requires { sizeof(tfel::material::internals::ComputeOrthotropicStiffnessTensor<h, a, c>); };
template <MH::Hypothesis h, STAC a, OAC c, typename T>
std::vector<T> combo(const std::vector<T>& p) {
  constexpr unsigned short N = ModellingHypothesisToSpaceDimension<h>::value;
  tfel::math::st2tost2<N, T> C;
  prefill(C);
  computeOrthotropicStiffnessTensor<h, a, c, T, T>(C, p[0], p[1], p[2], p[3], p[4], p[5], p[6], p[7], p[8]);
  return flat<N, T>(C);
}
struct Combo {
  int h, c, a;
  std::string name;
  std::function<std::vector<Sym>(const std::vector<Sym>&)> fs;
  std::function<std::vector<double>(const std::vector<double>&)> fd;
};
static const char* hshort[7] = {"agpstrain", "agpstress", "axis", "pstress", "pstrain", "gpstrain", "tri"};
static const char* cshort[3] = {"default", "pipe", "plate"};
template <MH::Hypothesis h, OAC c, STAC a>
void add_combo(std::vector<Combo>& v) {
  if constexpr (stiff_ok<h, a, c>) {
    v.push_back({int(h), int(c), int(a), std::string("oc_") + hshort[int(h)] + "_" + cshort[int(c)] + (a == STAC::ALTERED ? "_a" : "_u"),
                 [](const std::vector<Sym>& p) { return combo<h, a, c, Sym>(p); }, [](const std::vector<double>& p) { return combo<h, a, c, double>(p); }});
  }
}
template <int... I>
std::vector<Combo> all_combos(std::integer_sequence<int, I...>) {
  std::vector<Combo> v;
  // I runs over 7 hypotheses x 3 conventions x 2 alterations
  (add_combo<static_cast<MH::Hypothesis>(I / 6), static_cast<OAC>((I / 2) % 3), static_cast<STAC>(I % 2)>(v), ...);
  return v;
}
static_assert(int(MH::TRIDIMENSIONAL) == 6 && int(MH::UNDEFINEDHYPOTHESIS) == 7 && int(OAC::PLATE) == 2 && int(STAC::ALTERED) == 1);

static const char* names[22] = {"from_young_nu", "from_kg", "from_lambda_mu", "lame", "stiff_young_nu", "stiff_kg", "kg_of_stiff", "iso_defect",
                                "iso3d", "iso_pstrain", "iso_pstress", "iso_agps", "ortho3d", "ortho_pstrain", "ortho_pstress", "ortho_agps",
                                "ortho_agpstrain", "ortho_pstrain_pipe", "ortho_pstrain_plate", "ortho_pstress_plate", "ortho3d_plate", "lame_agps"};
static const int nin[22] = {2, 2, 2, 2, 2, 2, 2, 2, 2, 2, 2, 2, 9, 9, 9, 9, 9, 9, 9, 9, 9, 2};
static const char* pn2[3][2] = {{"E", "nu"}, {"K", "G"}, {"la", "mu"}};
static const char* pn9[9] = {"E1", "E2", "E3", "n12", "n23", "n13", "G12", "G23", "G13"};

int main(int argc, char** argv) {
  if (argc >= 4 && !std::strcmp(argv[1], "gen")) {
    Trace tr("C21_gen");
    Rng rng(std::strtoull(argv[3], nullptr, 10));
    for (int w = 0; w < 22; ++w) {
      std::vector<Sym> ps;
      std::vector<std::string> pnames;
      if (nin[w] == 2) {
        int k = (w == 1 || w == 5 || w == 6 || w == 7) ? 1 : ((w == 2 || w == 21) ? 2 : 0);
        pnames = {pn2[k][0], pn2[k][1]};
      } else
        for (auto s : pn9) pnames.push_back(s);
      for (auto& s : pnames) ps.push_back(var(s));
      auto o = f<Sym>(w, ps);
      tr.def(names[w], ps, o);
      for (int i = 0; i < 60; ++i) {
        Env env;
        std::vector<double> dv;
        for (size_t k = 0; k < pnames.size(); ++k) {
          double v;
          if (nin[w] == 2) v = (k == 0) ? rng.range(1, 200) : ((pnames[1] == "nu") ? rng.range(-0.9, 0.45) : rng.range(1, 100));
          else v = (k < 3 || k > 5) ? rng.range(50, 200) : rng.range(0.05, 0.3);
          env[pnames[k]] = v;
          dv.push_back(v);
        }
        auto d = f<double>(w, dv);
        bool ok = d.size() == o.size();
        long double sc = 0;
        for (double x : d) sc = std::max<long double>(sc, std::fabs(x));
        for (double x : dv) sc = std::max<long double>(sc, std::fabs(x));
        for (size_t k = 0; ok && k < d.size(); ++k) ok = close(eval(o[k], env), d[k], sc, 1e-11L);
        std::printf("%s %s", ok ? "AGREE" : "AGREE-FAIL", names[w]);
        for (double x : dv) std::printf(" %.17g", x);
        std::printf("\n");
      }
    }
    const auto combos = all_combos(std::make_integer_sequence<int, 42>{});
    for (size_t q = 0; q < combos.size(); ++q) {
      const auto& cb = combos[q];
      std::vector<Sym> ps;
      for (auto s : pn9) ps.push_back(var(s));
      auto o = cb.fs(ps);
      tr.def(cb.name, ps, o);
      std::printf("PROVIDED %d %d %d %s %zu %zu\n", cb.h, cb.c, cb.a, cb.name.c_str(), o.size(), 100 + q);
      for (int i = 0; i < 30; ++i) {
        Env env;
        std::vector<double> dv;
        for (size_t k = 0; k < 9; ++k) {
          const double v = (k < 3 || k > 5) ? rng.range(50, 200) : rng.range(0.05, 0.3);
          env[pn9[k]] = v;
          dv.push_back(v);
        }
        auto d = cb.fd(dv);
        bool ok = d.size() == o.size();
        long double sc = 0;
        for (double x : d) sc = std::max<long double>(sc, std::fabs(x));
        for (size_t k = 0; ok && k < d.size(); ++k) ok = close(eval(o[k], env), d[k], sc, 1e-11L);
        std::printf("%s %s", ok ? "AGREE" : "AGREE-FAIL", cb.name.c_str());
        for (double x : dv) std::printf(" %.17g", x);
        std::printf("\n");
      }
    }
    tr.write(argv[2]);
    return 0;
  }
  if (argc >= 2 && !std::strcmp(argv[1], "run")) {
    const auto combos = all_combos(std::make_integer_sequence<int, 42>{});
    g_fill = std::nan("");
    int w;
    while (std::cin >> w) {
      std::vector<double> p(w >= 100 ? 9 : nin[w]);
      for (auto& x : p) std::cin >> x;
      auto d = w >= 100 ? combos.at(w - 100).fd(p) : f<double>(w, p);
      std::printf("V %d", w);
      for (double x : d) std::printf(" %.17g", x);
      std::printf("\n");
    }
    return 0;
  }
  return 2;
}

// C21: tracer (engine S) and driver for the isotropic moduli conversions and stiffness tensors of /repo.
//   trace gen <out.v> <seed> : Coq definitions + Sym-vs-double agreement
#include "symtfel.hxx"
#include <cstring>
#include <iostream>
#include "TFEL/Math/st2tost2.hxx"
#include "TFEL/Material/Lame.hxx"
#include "TFEL/Material/IsotropicModuli.hxx"
#include "TFEL/Material/StiffnessTensor.hxx"

using namespace symv;
using namespace tfel::material;
using MH = ModellingHypothesis;
using STAC = StiffnessTensorAlterationCharacteristic;

template <unsigned short N, typename T>
std::vector<T> flat(const tfel::math::st2tost2<N, T>& C) {
  std::vector<T> r;
  const unsigned short n = tfel::math::StensorDimeToSize<N>::value;
  for (unsigned short i = 0; i < n; ++i)
    for (unsigned short j = 0; j < n; ++j) r.push_back(C(i, j));
  return r;
}

// which: name -> outputs, inputs p[0..8]
template <typename T>
std::vector<T> f(const int w, const std::vector<T>& p) {
  switch (w) {
    case 0: { YoungNuModuli<T> m(p[0], p[1]); auto a = m.ToKG(); auto b = m.ToLambdaMu(); auto c = m.ToYoungNu(); return {a.kappa, a.mu, b.lambda, b.mu, c.young, c.nu}; }
    case 1: { KGModuli<T> m(p[0], p[1]); auto a = m.ToKG(); auto b = m.ToLambdaMu(); auto c = m.ToYoungNu(); return {a.kappa, a.mu, b.lambda, b.mu, c.young, c.nu}; }
    case 2: { LambdaMuModuli<T> m(p[0], p[1]); auto a = m.ToKG(); auto b = m.ToLambdaMu(); auto c = m.ToYoungNu(); return {a.kappa, a.mu, b.lambda, b.mu, c.young, c.nu}; }
    case 3: return {computeLambda<T>(p[0], p[1]), computeMu<T>(p[0], p[1])};
    case 4: { YoungNuModuli<T> m(p[0], p[1]); return flat<3u, T>(computeIsotropicStiffnessTensor<T>(m)); }
    case 5: { KGModuli<T> m(p[0], p[1]); return flat<3u, T>(computeIsotropicStiffnessTensor<T>(m)); }
    case 6: {  // computeKGModuli of the tensor built from (K,G)
      KGModuli<T> m(p[0], p[1]);
      auto C = computeIsotropicStiffnessTensor<T>(m);
      auto kg = computeKGModuli<T>(C);
      return {kg.kappa, kg.mu};
    }
    case 7: {  // difference between the tensor and its isotropic projection (numerator of the isotropy test)
      KGModuli<T> m(p[0], p[1]);
      tfel::math::st2tost2<3u, T> C = computeIsotropicStiffnessTensor<T>(m);
      const auto km = computeKappaMu<T>(C);
      constexpr auto J = tfel::math::st2tost2<3u, T>::J();
      constexpr auto K = tfel::math::st2tost2<3u, T>::K();
      tfel::math::st2tost2<3u, T> D = C - (3 * km.first * J + 2 * km.second * K);
      return flat<3u, T>(D);
    }
    case 8: { tfel::math::st2tost2<3u, T> C; computeIsotropicStiffnessTensor<MH::TRIDIMENSIONAL, STAC::UNALTERED>(C, p[0], p[1]); return flat<3u, T>(C); }
    case 9: { tfel::math::st2tost2<2u, T> C; computeIsotropicStiffnessTensor<MH::PLANESTRAIN, STAC::UNALTERED>(C, p[0], p[1]); return flat<2u, T>(C); }
    case 10: { tfel::math::st2tost2<2u, T> C; computeIsotropicStiffnessTensor<MH::PLANESTRESS, STAC::ALTERED>(C, p[0], p[1]); return flat<2u, T>(C); }
    case 11: { tfel::math::st2tost2<1u, T> C; computeIsotropicStiffnessTensor<MH::AXISYMMETRICALGENERALISEDPLANESTRESS, STAC::ALTERED>(C, p[0], p[1]); return flat<1u, T>(C); }
    case 12: { tfel::math::st2tost2<3u, T> C; computeOrthotropicStiffnessTensor<MH::TRIDIMENSIONAL, STAC::UNALTERED>(C, p[0], p[1], p[2], p[3], p[4], p[5], p[6], p[7], p[8]); return flat<3u, T>(C); }
    case 13: { tfel::math::st2tost2<2u, T> C; computeOrthotropicStiffnessTensor<MH::PLANESTRAIN, STAC::UNALTERED>(C, p[0], p[1], p[2], p[3], p[4], p[5], p[6], p[7], p[8]); return flat<2u, T>(C); }
    case 14: { tfel::math::st2tost2<2u, T> C; computeOrthotropicStiffnessTensor<MH::PLANESTRESS, STAC::ALTERED>(C, p[0], p[1], p[2], p[3], p[4], p[5], p[6], p[7], p[8]); return flat<2u, T>(C); }
    case 15: { tfel::math::st2tost2<1u, T> C; computeOrthotropicStiffnessTensor<MH::AXISYMMETRICALGENERALISEDPLANESTRESS, STAC::ALTERED>(C, p[0], p[1], p[2], p[3], p[4], p[5], p[6], p[7], p[8]); return flat<1u, T>(C); }
    case 16: { tfel::math::st2tost2<1u, T> C; computeOrthotropicStiffnessTensor<MH::AXISYMMETRICALGENERALISEDPLANESTRAIN, STAC::UNALTERED>(C, p[0], p[1], p[2], p[3], p[4], p[5], p[6], p[7], p[8]); return flat<1u, T>(C); }
    case 17: { tfel::math::st2tost2<2u, T> C; computeOrthotropicStiffnessTensor<MH::PLANESTRAIN, STAC::UNALTERED, OrthotropicAxesConvention::PIPE>(C, p[0], p[1], p[2], p[3], p[4], p[5], p[6], p[7], p[8]); return flat<2u, T>(C); }
    case 18: { tfel::math::st2tost2<2u, T> C; computeOrthotropicStiffnessTensor<MH::PLANESTRAIN, STAC::UNALTERED, OrthotropicAxesConvention::PLATE>(C, p[0], p[1], p[2], p[3], p[4], p[5], p[6], p[7], p[8]); return flat<2u, T>(C); }
    case 19: { tfel::math::st2tost2<2u, T> C; computeOrthotropicStiffnessTensor<MH::PLANESTRESS, STAC::ALTERED, OrthotropicAxesConvention::PLATE>(C, p[0], p[1], p[2], p[3], p[4], p[5], p[6], p[7], p[8]); return flat<2u, T>(C); }
    default: { tfel::math::st2tost2<3u, T> C; computeOrthotropicStiffnessTensor<MH::TRIDIMENSIONAL, STAC::UNALTERED, OrthotropicAxesConvention::PLATE>(C, p[0], p[1], p[2], p[3], p[4], p[5], p[6], p[7], p[8]); return flat<3u, T>(C); }
  }
}
static const char* names[21] = {"from_young_nu", "from_kg", "from_lambda_mu", "lame", "stiff_young_nu", "stiff_kg", "kg_of_stiff", "iso_defect",
                                "iso3d", "iso_pstrain", "iso_pstress", "iso_agps", "ortho3d", "ortho_pstrain", "ortho_pstress", "ortho_agps",
                                "ortho_agpstrain", "ortho_pstrain_pipe", "ortho_pstrain_plate", "ortho_pstress_plate", "ortho3d_plate"};
static const int nin[21] = {2, 2, 2, 2, 2, 2, 2, 2, 2, 2, 2, 2, 9, 9, 9, 9, 9, 9, 9, 9, 9};
static const char* pn2[3][2] = {{"E", "nu"}, {"K", "G"}, {"la", "mu"}};
static const char* pn9[9] = {"E1", "E2", "E3", "n12", "n23", "n13", "G12", "G23", "G13"};

int main(int argc, char** argv) {
  if (argc >= 4 && !std::strcmp(argv[1], "gen")) {
    Trace tr("C21_gen");
    Rng rng(std::strtoull(argv[3], nullptr, 10));
    for (int w = 0; w < 21; ++w) {
      std::vector<Sym> ps;
      std::vector<std::string> pnames;
      if (nin[w] == 2) {
        int k = (w == 1 || w == 5 || w == 6 || w == 7) ? 1 : (w == 2 ? 2 : 0);
        pnames = {pn2[k][0], pn2[k][1]};
      } else
        for (auto s : pn9) pnames.push_back(s);
      for (auto& s : pnames) ps.push_back(var(s));
      auto o = f<Sym>(w, ps);
      tr.def(names[w], ps, o);
      for (int i = 0; i < 60; ++i) {
        Env env;
        std::vector<double> dv;
        for (size_t k = 0; k < pnames.size(); ++k) {
          double v;
          if (nin[w] == 2) v = (k == 0) ? rng.range(1, 200) : ((pnames[1] == "nu") ? rng.range(-0.9, 0.45) : rng.range(1, 100));
          else v = (k < 3 || k > 5) ? rng.range(50, 200) : rng.range(0.05, 0.3);
          env[pnames[k]] = v;
          dv.push_back(v);
        }
        auto d = f<double>(w, dv);
        bool ok = d.size() == o.size();
        long double sc = 0;
        for (double x : d) sc = std::max<long double>(sc, std::fabs(x));
        for (double x : dv) sc = std::max<long double>(sc, std::fabs(x));
        for (size_t k = 0; ok && k < d.size(); ++k) ok = close(eval(o[k], env), d[k], sc, 1e-11L);
        std::printf("%s %s", ok ? "AGREE" : "AGREE-FAIL", names[w]);
        for (double x : dv) std::printf(" %.17g", x);
        std::printf("\n");
      }
    }
    tr.write(argv[2]);
    return 0;
  }
  if (argc >= 2 && !std::strcmp(argv[1], "run")) {
    int w;
    while (std::cin >> w) {
      std::vector<double> p(nin[w]);
      for (auto& x : p) std::cin >> x;
      auto d = f<double>(w, p);
      std::printf("V %d", w);
      for (double x : d) std::printf(" %.17g", x);
      std::printf("\n");
    }
    return 0;
  }
  return 2;
}

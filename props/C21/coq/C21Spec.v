(* C21 -- specification, written independently of the code: relations between isotropic moduli, the isotropic stiffness
   tensor in TFEL's vector convention (shear components carry sqrt 2, hence 2 mu on the shear diagonal), the orthotropic
   compliance matrix, sub-block and plane-stress condensation. *)
From Coq Require Import Reals List Lra.
Import ListNotations.
Local Open Scope R_scope.

Definition admissible (E nu : R) : Prop := 0 < E /\ -1 < nu < 1 / 2.
Definition bulk (E nu : R) : R := E / (3 * (1 - 2 * nu)).
Definition shear (E nu : R) : R := E / (2 * (1 + nu)).
Definition lame1 (E nu : R) : R := E * nu / ((1 + nu) * (1 - 2 * nu)).

(* entry (i,j) of an n x n matrix stored row by row *)
Definition el (n : nat) (l : list R) (i j : nat) : R := nth (n * i + j) l 0.

(* isotropic stiffness: lambda + 2 mu delta_ij on the normal block, 2 mu on the shear diagonal *)
Definition iso_entry (la mu : R) (i j : nat) : R :=
  if (Nat.ltb i 3 && Nat.ltb j 3)%bool then (la + if Nat.eqb i j then 2 * mu else 0)
  else if Nat.eqb i j then 2 * mu else 0.
Definition is_iso_stiffness (n : nat) (la mu : R) (C : list R) : Prop :=
  forall i j, (i < n)%nat -> (j < n)%nat -> el n C i j = iso_entry la mu i j.

(* e : C : e for a 6-vector e *)
Definition quad6 (C : list R) (e : list R) : R :=
  let x i := nth i e 0 in
  let row i := el 6 C i 0 * x 0%nat + el 6 C i 1 * x 1%nat + el 6 C i 2 * x 2%nat + el 6 C i 3 * x 3%nat + el 6 C i 4 * x 4%nat + el 6 C i 5 * x 5%nat in
  x 0%nat * row 0%nat + x 1%nat * row 1%nat + x 2%nat * row 2%nat + x 3%nat * row 3%nat + x 4%nat * row 4%nat + x 5%nat * row 5%nat.
Definition tr6 (e0 e1 e2 : R) : R := e0 + e1 + e2.
Definition devnorm2 (e0 e1 e2 e3 e4 e5 : R) : R :=
  let m := (e0 + e1 + e2) / 3 in (e0 - m) * (e0 - m) + (e1 - m) * (e1 - m) + (e2 - m) * (e2 - m) + e3 * e3 + e4 * e4 + e5 * e5.

(* orthotropic compliance (normal block) and its determinant *)
Definition S11 (E1 : R) := 1 / E1.
Definition detS (E1 E2 E3 n12 n23 n13 : R) : R :=
  let s11 := 1 / E1 in let s22 := 1 / E2 in let s33 := 1 / E3 in
  let s12 := - n12 / E1 in let s13 := - n13 / E1 in let s23 := - n23 / E2 in
  s11 * s22 * s33 + 2 * s23 * s13 * s12 - s11 * s23 * s23 - s22 * s13 * s13 - s33 * s12 * s12.
Definition compliance (E1 E2 E3 n12 n23 n13 : R) (i j : nat) : R :=
  match i, j with
  | O, O => 1 / E1 | S O, S O => 1 / E2 | S (S O), S (S O) => 1 / E3
  | O, S O | S O, O => - n12 / E1 | O, S (S O) | S (S O), O => - n13 / E1 | S O, S (S O) | S (S O), S O => - n23 / E2
  | _, _ => 0 end.
(* C (6x6) is the orthotropic stiffness: normal block inverse of the compliance, shear diagonal 2G, zero elsewhere *)
Definition is_ortho_stiffness (C : list R) (E1 E2 E3 n12 n23 n13 G12 G23 G13 : R) : Prop :=
  (forall i j, (i < 3)%nat -> (j < 3)%nat ->
     el 6 C i 0 * compliance E1 E2 E3 n12 n23 n13 0 j + el 6 C i 1 * compliance E1 E2 E3 n12 n23 n13 1 j +
     el 6 C i 2 * compliance E1 E2 E3 n12 n23 n13 2 j = if Nat.eqb i j then 1 else 0) /\
  el 6 C 3 3 = 2 * G12 /\ el 6 C 4 4 = 2 * G13 /\ el 6 C 5 5 = 2 * G23 /\
  (forall i j, (i < 6)%nat -> (j < 6)%nat -> i <> j -> (3 <= i \/ 3 <= j)%nat -> el 6 C i j = 0).

(* reductions of a 6x6 tensor C3 through an index map pi (component k of the reduced tensor is component pi k of C3):
   plain sub-block (plane strain, generalised plane strain, axisymmetry) and condensation of the normal component o
   (plane stress: the stress component o vanishes) *)
Definition sub_block (n : nat) (C : list R) (C3 : list R) (pi : nat -> nat) : Prop :=
  forall i j, (i < n)%nat -> (j < n)%nat -> el n C i j = el 6 C3 (pi i) (pi j).
Definition condensed (n : nat) (C : list R) (C3 : list R) (pi : nat -> nat) (o : nat) (keep : nat -> bool) : Prop :=
  forall i j, (i < n)%nat -> (j < n)%nat ->
    el n C i j = if (keep i && keep j)%bool then el 6 C3 (pi i) (pi j) - el 6 C3 (pi i) o * el 6 C3 o (pi j) / el 6 C3 o o else 0.

(* C21 -- specification, written independently of the code: relations between isotropic moduli, the isotropic stiffness
   tensor in TFEL's vector convention (shear components carry sqrt 2, hence 2 mu on the shear diagonal), the orthotropic
   compliance matrix, sub-block and plane-stress condensation. *)
From Coq Require Import Reals List Lra.
Import ListNotations.
Local Open Scope R_scope.

Definition admissible (E nu : R) : Prop := 0 < E /\ -1 < nu < 1 / 2.
Definition bulk (E nu : R) : R := E / (3 * (1 - 2 * nu)).
Definition shear (E nu : R) : R := E / (2 * (1 + nu)).
Definition lame1 (E nu : R) : R := E * nu / ((1 + nu) * (1 - 2 * nu)).

(* entry (i,j) of an n x n matrix stored row by row *)
Definition el (n : nat) (l : list R) (i j : nat) : R := nth (n * i + j) l 0.

(* isotropic stiffness: lambda + 2 mu delta_ij on the normal block, 2 mu on the shear diagonal *)
Definition iso_entry (la mu : R) (i j : nat) : R :=
  if (Nat.ltb i 3 && Nat.ltb j 3)%bool then (la + if Nat.eqb i j then 2 * mu else 0)
  else if Nat.eqb i j then 2 * mu else 0.
Definition is_iso_stiffness (n : nat) (la mu : R) (C : list R) : Prop :=
  forall i j, (i < n)%nat -> (j < n)%nat -> el n C i j = iso_entry la mu i j.

(* e : C : e for a 6-vector e *)
Definition quad6 (C : list R) (e : list R) : R :=
  let x i := nth i e 0 in
  let row i := el 6 C i 0 * x 0%nat + el 6 C i 1 * x 1%nat + el 6 C i 2 * x 2%nat + el 6 C i 3 * x 3%nat + el 6 C i 4 * x 4%nat + el 6 C i 5 * x 5%nat in
  x 0%nat * row 0%nat + x 1%nat * row 1%nat + x 2%nat * row 2%nat + x 3%nat * row 3%nat + x 4%nat * row 4%nat + x 5%nat * row 5%nat.
Definition tr6 (e0 e1 e2 : R) : R := e0 + e1 + e2.
Definition devnorm2 (e0 e1 e2 e3 e4 e5 : R) : R :=
  let m := (e0 + e1 + e2) / 3 in (e0 - m) * (e0 - m) + (e1 - m) * (e1 - m) + (e2 - m) * (e2 - m) + e3 * e3 + e4 * e4 + e5 * e5.

(* orthotropic compliance (normal block) and its determinant *)
Definition S11 (E1 : R) := 1 / E1.
Definition detS (E1 E2 E3 n12 n23 n13 : R) : R :=
  let s11 := 1 / E1 in let s22 := 1 / E2 in let s33 := 1 / E3 in
  let s12 := - n12 / E1 in let s13 := - n13 / E1 in let s23 := - n23 / E2 in
  s11 * s22 * s33 + 2 * s23 * s13 * s12 - s11 * s23 * s23 - s22 * s13 * s13 - s33 * s12 * s12.
Definition compliance (E1 E2 E3 n12 n23 n13 : R) (i j : nat) : R :=
  match i, j with
  | O, O => 1 / E1 | S O, S O => 1 / E2 | S (S O), S (S O) => 1 / E3
  | O, S O | S O, O => - n12 / E1 | O, S (S O) | S (S O), O => - n13 / E1 | S O, S (S O) | S (S O), S O => - n23 / E2
  | _, _ => 0 end.
(* C (6x6) is the orthotropic stiffness: normal block inverse of the compliance, shear diagonal 2G, zero elsewhere *)
Definition is_ortho_stiffness (C : list R) (E1 E2 E3 n12 n23 n13 G12 G23 G13 : R) : Prop :=
  (forall i j, (i < 3)%nat -> (j < 3)%nat ->
     el 6 C i 0 * compliance E1 E2 E3 n12 n23 n13 0 j + el 6 C i 1 * compliance E1 E2 E3 n12 n23 n13 1 j +
     el 6 C i 2 * compliance E1 E2 E3 n12 n23 n13 2 j = if Nat.eqb i j then 1 else 0) /\
  el 6 C 3 3 = 2 * G12 /\ el 6 C 4 4 = 2 * G13 /\ el 6 C 5 5 = 2 * G23 /\
  (forall i j, (i < 6)%nat -> (j < 6)%nat -> i <> j -> (3 <= i \/ 3 <= j)%nat -> el 6 C i j = 0).

(* reductions of a 6x6 tensor C3 through an index map pi (component k of the reduced tensor is component pi k of C3):
   plain sub-block (plane strain, generalised plane strain, axisymmetry) and condensation of the normal component o
   (plane stress: the stress component o vanishes) *)
Definition sub_block (n : nat) (C : list R) (C3 : list R) (pi : nat -> nat) : Prop :=
  forall i j, (i < n)%nat -> (j < n)%nat -> el n C i j = el 6 C3 (pi i) (pi j).
Definition condensed (n : nat) (C : list R) (C3 : list R) (pi : nat -> nat) (o : nat) (keep : nat -> bool) : Prop :=
  forall i j, (i < n)%nat -> (j < n)%nat ->
    el n C i j = if (keep i && keep j)%bool then el 6 C3 (pi i) (pi j) - el 6 C3 (pi i) o * el 6 C3 o (pi j) / el 6 C3 o o else 0.

Definition id_map (k : nat) : nat := k.
(* PIPE convention in 2D: the second and third material axes are exchanged, the in-plane shear is the (1,3) shear *)
Definition pipe_map (k : nat) : nat := match k with 1 => 2 | 2 => 1 | 3 => 4 | _ => k end%nat.
(* components kept by a condensation on component o of the reduced tensor (row and column o are zero) *)
Definition keep_but (o k : nat) : bool := negb (Nat.eqb k o).
Definition keep2 (k : nat) : bool := negb (Nat.eqb k 2).
Definition keep1 (k : nat) : bool := negb (Nat.eqb k 1).
(* 6x6 isotropic tensor of Lame's coefficients *)
Definition iso6 (la mu : R) : list R :=
  flat_map (fun i => map (fun j => iso_entry la mu i j) [0; 1; 2; 3; 4; 5]%nat) [0; 1; 2; 3; 4; 5]%nat.

(* ---- every (modelling hypothesis, axes convention, alteration) combination -------------------------------------------
   Written from the documentation (OrthotropicAxesConvention.hxx, StiffnessTensor.hxx), not from the code.
   The nine constants are always given in the 3D material frame.  Vector conventions of TFEL: 1D (rr, zz, tt), 2D (xx, yy, zz, xy),
   3D (xx, yy, zz, xy, xz, yz); the 3D tensor carries 2 G12, 2 G13, 2 G23 on the shear diagonal (components 3, 4, 5). *)
Inductive hyp := AGPStrain | AGPStress | Axis | PStress | PStrain | GPStrain | Tri.
Inductive conv := Default | Pipe | Plate.
Inductive alt := Unaltered | Altered.
Definition all_hyps := [AGPStrain; AGPStress; Axis; PStress; PStrain; GPStrain; Tri].
Definition all_convs := [Default; Pipe; Plate].
Definition all_alts := [Unaltered; Altered].
Definition hyp_code (h : hyp) : nat := match h with AGPStrain => 0 | AGPStress => 1 | Axis => 2 | PStress => 3 | PStrain => 4 | GPStrain => 5 | Tri => 6 end.
Definition conv_code (c : conv) : nat := match c with Default => 0 | Pipe => 1 | Plate => 2 end.
Definition alt_code (a : alt) : nat := match a with Unaltered => 0 | Altered => 1 end.
(* size of the symmetric tensors of the hypothesis *)
Definition hyp_size (h : hyp) : nat := match h with AGPStrain | AGPStress => 3 | Tri => 6 | _ => 4 end%nat.
(* "PLATE can only be used in 3D, plane stress, plane strain and generalised plane strain"; DEFAULT and PIPE everywhere *)
Definition documented (h : hyp) (c : conv) : bool :=
  match c, h with Plate, (Tri | PStress | PStrain | GPStrain) => true | Plate, _ => false | _, _ => true end.
(* PIPE: "in 2D plane stress, strain, generalised plane strain the second and third axes are exchanged compared to the 3D case";
   DEFAULT does not differentiate the hypotheses; PLATE: the axes are those of the 3D case *)
Definition exchanged (h : hyp) (c : conv) : bool :=
  match c, h with Pipe, (PStress | PStrain | GPStrain) => true | _, _ => false end.
Definition axes_map (h : hyp) (c : conv) : nat -> nat := if exchanged h c then pipe_map else id_map.
(* ALTERED: "the effective stiffness tensor obtained by eliminating the effect of the axial strain", meaningful only for the
   plane stress hypotheses; in every other case the UNALTERED tensor.  The component eliminated is the one whose STRESS the
   hypothesis prescribes: zz in both cases, which is the third component of the 2D vectors (xx, yy, zz, xy) and the SECOND
   component of the 1D vectors (rr, zz, tt). *)
Definition is_condensed (h : hyp) (a : alt) : bool :=
  match a, h with Altered, (PStress | AGPStress) => true | _, _ => false end.
Definition cond_comp (h : hyp) : nat := match h with AGPStress => 1 | _ => 2 end%nat.
Definition reduces (h : hyp) (c : conv) (a : alt) (C C3 : list R) : Prop :=
  if is_condensed h a then condensed (hyp_size h) C C3 (axes_map h c) (axes_map h c (cond_comp h)) (keep_but (cond_comp h))
  else sub_block (hyp_size h) C C3 (axes_map h c).

(* principal 2x2 minor of the compliance that excludes the normal axis o: the condensation on axis o is defined when it does not vanish *)
Definition minor (E1 E2 E3 n12 n23 n13 : R) (o : nat) : R :=
  let c := compliance E1 E2 E3 n12 n23 n13 in
  match o with
  | 0%nat => c 1%nat 1%nat * c 2%nat 2%nat - c 1%nat 2%nat * c 2%nat 1%nat
  | 1%nat => c 0%nat 0%nat * c 2%nat 2%nat - c 0%nat 2%nat * c 2%nat 0%nat
  | _ => c 0%nat 0%nat * c 1%nat 1%nat - c 0%nat 1%nat * c 1%nat 0%nat
  end.
Definition nondegenerate (E1 E2 E3 n12 n23 n13 : R) : Prop := E1 <> 0 /\ E2 <> 0 /\ E3 <> 0 /\ detS E1 E2 E3 n12 n23 n13 <> 0.

(* one row of the table regenerated from the header: a provided combination and the function traced for it *)
Definition ofun := R -> R -> R -> R -> R -> R -> R -> R -> R -> list R.
Definition combo := (hyp * conv * alt * ofun)%type.
Definition combo_key (e : combo) : nat * nat * nat := let '(h, c, a, _) := e in (hyp_code h, conv_code c, alt_code a).
(* the tensor of the combination is the reduction of the 3D tensor ref3d (itself proved to be the inverse of the compliance) *)
Definition combo_ok (ref3d : ofun) (e : combo) : Prop :=
  let '(h, c, a, f) := e in
  forall E1 E2 E3 n12 n23 n13 G12 G23 G13, nondegenerate E1 E2 E3 n12 n23 n13 ->
    (is_condensed h a = true -> minor E1 E2 E3 n12 n23 n13 (axes_map h c (cond_comp h)) <> 0) ->
    reduces h c a (f E1 E2 E3 n12 n23 n13 G12 G23 G13) (ref3d E1 E2 E3 n12 n23 n13 G12 G23 G13).
(* the statement of a row is false: admissible constants for which the tensor is not the documented reduction *)
Definition combo_refuted (ref3d : ofun) (e : combo) : Prop :=
  let '(h, c, a, f) := e in
  exists E1 E2 E3 n12 n23 n13 G12 G23 G13, nondegenerate E1 E2 E3 n12 n23 n13 /\
    minor E1 E2 E3 n12 n23 n13 (axes_map h c (cond_comp h)) <> 0 /\
    ~ reduces h c a (f E1 E2 E3 n12 n23 n13 G12 G23 G13) (ref3d E1 E2 E3 n12 n23 n13 G12 G23 G13).
(* the rows of the ALTERED tensor of the axisymmetrical generalised plane stress hypothesis *)
Definition agps_altered (e : combo) : bool :=
  let '(h, _, a, _) := e in match h, a with AGPStress, Altered => true | _, _ => false end.
Definition not_agps_altered (e : combo) : bool := negb (agps_altered e).
(* every documented combination is present in a table of keys *)
Definition keys_complete (keys : list (nat * nat * nat)) : bool :=
  forallb (fun h => forallb (fun c => forallb (fun a =>
    implb (documented h c) (existsb (fun k => let '(x, y, z) := k in (Nat.eqb x (hyp_code h) && Nat.eqb y (conv_code c) && Nat.eqb z (alt_code a))%bool) keys))
    all_alts) all_convs) all_hyps.

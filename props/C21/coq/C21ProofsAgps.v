(* C21 -- ALTERED stiffness tensors of the axisymmetrical generalised plane stress hypothesis (isotropic, Lame.hxx, orthotropic):
   the 3D tensor condensed on the component whose stress the hypothesis prescribes, zz = component 1 of (rr, zz, tt).
   Compiled when the real code does so (otherwise C21ProofsAgpsRefuted.v). *)
From Coq Require Import Reals List Lra Lia Psatz Bool.
From C21 Require Import C21Spec C21_gen C21_table C21Proofs C21ProofsTac.
Import ListNotations.
Local Open Scope R_scope.

Ltac agps_entry D3 D :=
  cbv [el id_map keep1 keep_but Nat.mul Nat.add Nat.ltb Nat.leb Nat.eqb andb negb];
  unfold D3, D; cbv zeta; cbn [nth].

Lemma iso_agps_ok E nu : admissible E nu -> condensed 3 (iso_agps E nu) (iso3d E nu) id_map 1 keep1.
Proof.
  intro Hadm. destruct (adm_facts E nu Hadm) as [HE [H1 [H2 _]]]. destruct Hadm as [_ [Hn1 Hn2]].
  assert (1 - nu <> 0) by lra. assert (1 - nu * nu <> 0) by nra.
  intros i j Hi Hj. cases i; cases j; agps_entry iso3d iso_agps; field; nzs.
Qed.

Lemma lame_agps_ok la mu : la + 2 * mu <> 0 -> condensed 3 (lame_agps la mu) (iso6 la mu) id_map 1 keep1.
Proof.
  intro H. intros i j Hi Hj. cases i; cases j;
    cbv [el id_map keep1 keep_but Nat.mul Nat.add Nat.ltb Nat.leb Nat.eqb andb negb iso6 flat_map map app iso_entry];
    unfold lame_agps; cbv zeta; cbn [nth]; field; nzs.
Qed.

Lemma ortho_agps_ok E1 E2 E3 n12 n23 n13 G12 G23 G13 : E1 <> 0 -> E2 <> 0 -> E3 <> 0 -> detS E1 E2 E3 n12 n23 n13 <> 0 ->
  E1 - E3 * n13 * n13 <> 0 ->
  condensed 3 (ortho_agps E1 E2 E3 n12 n23 n13 G12 G23 G13) (ortho3d E1 E2 E3 n12 n23 n13 G12 G23 G13) id_map 1 keep1.
Proof.
  intros H1 H2 H3 Hdet Hq. pose proof (det_poly' E1 E2 E3 n12 n23 n13 H1 H2 H3 Hdet) as Hp.
  intros i j Hi Hj. cases i; cases j; agps_entry ortho3d ortho_agps; first [reflexivity | timeout 60 (field; nzs2)].
Qed.

(* the rows of the table *)
Lemma ortho_table_agps_ok : Forall (combo_ok ortho3d) ortho_table_agps.
Proof. cbv [ortho_table_agps]. table_tac. Qed.

(* C21 -- property theorems (statements only) over the definitions regenerated from /repo *)
From Coq Require Import Reals List.
From C21 Require Import C21Spec C21_gen C21_table C21Proofs C21ProofsO C21ProofsT.
Import ListNotations.
Local Open Scope R_scope.

(* conversions between (E,nu), (K,G), (lambda,mu) are mutually inverse; computeLambda/computeMu agree *)
Theorem C21_conversions : forall E nu, admissible E nu ->
  let K := bulk E nu in let G := shear E nu in let la := lame1 E nu in
  from_young_nu E nu = [K; G; la; G; E; nu] /\ from_kg K G = [K; G; la; G; E; nu] /\
  from_lambda_mu la G = [K; G; la; G; E; nu] /\ lame E nu = [la; G].
Proof. intros E nu H. exact (conj (from_young_nu_ok E nu H) (conj (from_kg_ok E nu H) (conj (from_lambda_mu_ok E nu H) (lame_ok E nu H)))). Qed.
Print Assumptions C21_conversions.

(* computeIsotropicStiffnessTensor from either representation, and the TRIDIMENSIONAL helper, give lambda + 2 mu delta / 2 mu *)
Theorem C21_isotropic_stiffness : forall E nu, admissible E nu ->
  is_iso_stiffness 6 (lame1 E nu) (shear E nu) (stiff_young_nu E nu) /\
  is_iso_stiffness 6 (lame1 E nu) (shear E nu) (stiff_kg (bulk E nu) (shear E nu)) /\
  is_iso_stiffness 6 (lame1 E nu) (shear E nu) (iso3d E nu).
Proof. intros E nu H. exact (conj (stiff_young_nu_ok E nu H) (conj (stiff_kg_ok E nu H) (iso3d_ok E nu H))). Qed.
Print Assumptions C21_isotropic_stiffness.

(* symmetric positive definite: e:C:e = K tr(e)^2 + 2G dev(e):dev(e) > 0 *)
Theorem C21_positive_definite : forall E nu C e0 e1 e2 e3 e4 e5, admissible E nu ->
  is_iso_stiffness 6 (lame1 E nu) (shear E nu) C -> (e0, e1, e2, e3, e4, e5) <> (0, 0, 0, 0, 0, 0) ->
  0 < quad6 C [e0; e1; e2; e3; e4; e5].
Proof. exact iso_positive_definite. Qed.
Print Assumptions C21_positive_definite.

(* computeKGModuli recovers the moduli; the tensor minus its isotropic projection vanishes (relative error 0: isIsotropic accepts) *)
Theorem C21_recover_and_isotropy : forall K G, kg_of_stiff K G = [K; G] /\ Forall (fun x => x = 0) (iso_defect K G).
Proof. intros K G. exact (conj (kg_of_stiff_ok K G) (iso_defect_ok K G)). Qed.
Print Assumptions C21_recover_and_isotropy.

(* isotropic tensors of the reduced hypotheses (axisymmetrical generalised plane stress: Properties_C21_agps*.v) *)
Theorem C21_isotropic_reductions : forall E nu, admissible E nu ->
  sub_block 4 (iso_pstrain E nu) (iso3d E nu) id_map /\
  condensed 4 (iso_pstress E nu) (iso3d E nu) id_map 2 keep2.
Proof. intros E nu H. exact (conj (iso_pstrain_ok E nu H) (iso_pstress_ok E nu H)). Qed.
Print Assumptions C21_isotropic_reductions.

(* orthotropic 3D tensor = inverse of the compliance matrix *)
Theorem C21_orthotropic_3d : forall E1 E2 E3 n12 n23 n13 G12 G23 G13, E1 <> 0 -> E2 <> 0 -> E3 <> 0 -> detS E1 E2 E3 n12 n23 n13 <> 0 ->
  is_ortho_stiffness (ortho3d E1 E2 E3 n12 n23 n13 G12 G23 G13) E1 E2 E3 n12 n23 n13 G12 G23 G13 /\
  ortho3d_plate E1 E2 E3 n12 n23 n13 G12 G23 G13 = ortho3d E1 E2 E3 n12 n23 n13 G12 G23 G13.
Proof. intros. split; [apply ortho3d_ok; assumption | reflexivity]. Qed.
Print Assumptions C21_orthotropic_3d.

(* reduced hypotheses are sub-blocks of the 3D tensor; PIPE exchanges the second and third axes *)
Theorem C21_orthotropic_sub_blocks : forall E1 E2 E3 n12 n23 n13 G12 G23 G13, E1 <> 0 -> E2 <> 0 -> E3 <> 0 -> detS E1 E2 E3 n12 n23 n13 <> 0 ->
  let C3 := ortho3d E1 E2 E3 n12 n23 n13 G12 G23 G13 in
  sub_block 4 (ortho_pstrain E1 E2 E3 n12 n23 n13 G12 G23 G13) C3 id_map /\
  sub_block 4 (ortho_pstrain_plate E1 E2 E3 n12 n23 n13 G12 G23 G13) C3 id_map /\
  sub_block 3 (ortho_agpstrain E1 E2 E3 n12 n23 n13 G12 G23 G13) C3 id_map /\
  sub_block 4 (ortho_pstrain_pipe E1 E2 E3 n12 n23 n13 G12 G23 G13) C3 pipe_map.
Proof.
  intros E1 E2 E3 n12 n23 n13 G12 G23 G13 H1 H2 H3 Hd.
  exact (conj (ortho_pstrain_ok _ _ _ _ _ _ G12 G23 G13 H1 H2 H3 Hd) (conj (ortho_pstrain_plate_ok _ _ _ _ _ _ G12 G23 G13 H1 H2 H3 Hd)
        (conj (ortho_agpstrain_ok _ _ _ _ _ _ G12 G23 G13 H1 H2 H3 Hd) (ortho_pstrain_pipe_ok _ _ _ _ _ _ G12 G23 G13 H1 H2 H3 Hd)))).
Qed.
Print Assumptions C21_orthotropic_sub_blocks.

(* plane stress: condensation C_ij - C_i3 C_3j / C_33 of the 3D tensor (axisymmetrical generalised plane stress: Properties_C21_agps*.v) *)
Theorem C21_orthotropic_plane_stress : forall E1 E2 E3 n12 n23 n13 G12 G23 G13, E1 <> 0 -> E2 <> 0 -> E3 <> 0 -> detS E1 E2 E3 n12 n23 n13 <> 0 ->
  E1 - E2 * n12 * n12 <> 0 ->
  let C3 := ortho3d E1 E2 E3 n12 n23 n13 G12 G23 G13 in
  condensed 4 (ortho_pstress E1 E2 E3 n12 n23 n13 G12 G23 G13) C3 id_map 2 keep2 /\
  condensed 4 (ortho_pstress_plate E1 E2 E3 n12 n23 n13 G12 G23 G13) C3 id_map 2 keep2.
Proof.
  intros E1 E2 E3 n12 n23 n13 G12 G23 G13 H1 H2 H3 Hd H22.
  exact (conj (ortho_pstress_ok _ _ _ _ _ _ G12 G23 G13 H1 H2 H3 Hd H22) (ortho_pstress_plate_ok _ _ _ _ _ _ G12 G23 G13 H1 H2 H3 Hd H22)).
Qed.
Print Assumptions C21_orthotropic_plane_stress.

(* EVERY (modelling hypothesis, axes convention, alteration) combination that StiffnessTensor.ixx provides (ortho_table is regenerated
   from the header on every run, one definition traced per row): for non-degenerate constants given in the 3D material frame the
   tensor is the 3D tensor (inverse of the documented compliance, C21_orthotropic_3d) seen through the documented axis permutation
   of the convention (PIPE: axes 2 and 3 exchanged in plane stress / plane strain / generalised plane strain), restricted to the
   components of the hypothesis (UNALTERED, and ALTERED outside plane stress) or condensed on the component whose stress is prescribed
   (ALTERED plane stress hypotheses).  Here: every row but the ALTERED axisymmetrical generalised plane stress ones, which are the subject
   of Properties_C21_agps.v (with the statement for the whole table) or Properties_C21_agps_refuted.v. *)
Theorem C21_orthotropic_all_combinations_but_agps_altered : Forall (combo_ok ortho3d) (filter not_agps_altered ortho_table).
Proof. exact ortho_table_rest_ok. Qed.
Print Assumptions C21_orthotropic_all_combinations_but_agps_altered.

(* every documented combination (7 hypotheses x DEFAULT, PIPE; PLATE in 3D, plane stress, plane strain, generalised plane strain;
   UNALTERED and ALTERED) is provided by the header, i.e. has a row in the table *)
Theorem C21_orthotropic_table_complete : keys_complete (map combo_key ortho_table) = true.
Proof. exact ortho_table_complete. Qed.
Print Assumptions C21_orthotropic_table_complete.

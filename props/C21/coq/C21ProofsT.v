(* C21 -- every (modelling hypothesis, axes convention, alteration) combination of the orthotropic stiffness tensor provided by
   the header is the documented reduction of the 3D tensor, and every documented combination is provided. *)
From Coq Require Import Reals List.
From C21 Require Import C21Spec C21_gen C21_table C21ProofsT1 C21ProofsT2.
Import ListNotations.
Local Open Scope R_scope.

Lemma ortho_table_ok : Forall (combo_ok ortho3d) ortho_table.
Proof. rewrite <- (firstn_skipn 18 ortho_table). apply Forall_app. split; [exact ortho_table_ok_1 | exact ortho_table_ok_2]. Qed.

Lemma ortho_table_complete : keys_complete (map combo_key ortho_table) = true.
Proof. vm_compute. reflexivity. Qed.

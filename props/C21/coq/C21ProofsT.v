(* C21 -- every (modelling hypothesis, axes convention, alteration) combination of the orthotropic stiffness tensor provided by
   the header is the documented reduction of the 3D tensor, and every documented combination is provided. *)
From Coq Require Import Reals List.
From C21 Require Import C21Spec C21_gen C21_table C21ProofsT1 C21ProofsT2.
Import ListNotations.
Local Open Scope R_scope.

(* every row but the ALTERED axisymmetrical generalised plane stress ones (C21ProofsAgps.v / C21ProofsAgpsRefuted.v) *)
Lemma ortho_table_rest_ok : Forall (combo_ok ortho3d) ortho_table_rest.
Proof. rewrite <- (firstn_skipn 17 ortho_table_rest). apply Forall_app. split; [exact ortho_table_ok_1 | exact ortho_table_ok_2]. Qed.

(* a list is covered by a filter and its complement *)
Lemma Forall_filter_split (P : combo -> Prop) (f : combo -> bool) (l : list combo) :
  Forall P (filter f l) -> Forall P (filter (fun e => negb (f e)) l) -> Forall P l.
Proof.
  induction l as [|x l IH]; intros H1 H2; [constructor|]. cbn in H1, H2. destruct (f x); cbn in H2.
  - inversion H1; subst. constructor; [assumption | apply IH; assumption].
  - inversion H2; subst. constructor; [assumption | apply IH; assumption].
Qed.

Lemma ortho_table_complete : keys_complete (map combo_key ortho_table) = true.
Proof. vm_compute. reflexivity. Qed.

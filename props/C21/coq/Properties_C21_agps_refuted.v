(* C21 -- property theorems selected while the finding agps-altered:* is observed on the real code: the ALTERED stiffness tensors of the
   axisymmetrical generalised plane stress hypothesis are NOT the 3D tensor condensed on the component whose stress is prescribed
   (zz = component 1 of (rr, zz, tt)); the code condenses on component 2 (theta theta).  Fix: props/C28/fix_agps_altered_stiffness.diff *)
From Coq Require Import Reals List.
From C21 Require Import C21Spec C21_gen C21_table C21ProofsAgpsRefuted.
Import ListNotations.
Local Open Scope R_scope.

Theorem C21_isotropic_agps_altered_refuted : exists E nu, admissible E nu /\ ~ condensed 3 (iso_agps E nu) (iso3d E nu) id_map 1 keep1.
Proof. exact iso_agps_refuted. Qed.
Print Assumptions C21_isotropic_agps_altered_refuted.

Theorem C21_lame_agps_altered_refuted : exists la mu, la + 2 * mu <> 0 /\ ~ condensed 3 (lame_agps la mu) (iso6 la mu) id_map 1 keep1.
Proof. exact lame_agps_refuted. Qed.
Print Assumptions C21_lame_agps_altered_refuted.

Theorem C21_orthotropic_agps_altered_refuted : exists E1 E2 E3 n12 n23 n13 G12 G23 G13,
  nondegenerate E1 E2 E3 n12 n23 n13 /\ minor E1 E2 E3 n12 n23 n13 1 <> 0 /\
  ~ condensed 3 (ortho_agps E1 E2 E3 n12 n23 n13 G12 G23 G13) (ortho3d E1 E2 E3 n12 n23 n13 G12 G23 G13) id_map 1 keep1.
Proof. exact ortho_agps_refuted. Qed.
Print Assumptions C21_orthotropic_agps_altered_refuted.

(* every ALTERED axisymmetrical generalised plane stress row of the table is refuted *)
Theorem C21_orthotropic_table_agps_altered_refuted : Forall (combo_refuted ortho3d) (filter agps_altered ortho_table).
Proof. exact ortho_table_agps_refuted. Qed.
Print Assumptions C21_orthotropic_table_agps_altered_refuted.

(* C21 -- proofs for the hypothesis-specific tensors: reductions of the 3D tensors (sub-block, plane-stress condensation),
   with the axis exchange of the PIPE convention *)
From Coq Require Import Reals List Lra Lia Psatz.
From C21 Require Import C21Spec C21_gen C21Proofs.
Import ListNotations.
Local Open Scope R_scope.

(* id_map, pipe_map, keep2: see C21Spec.v.  The ALTERED tensors of the axisymmetrical generalised plane stress hypothesis are in
   C21ProofsAgps.v / C21ProofsAgpsRefuted.v *)

Ltac red_entry D3 D :=
  unfold el, id_map, pipe_map, keep2; cbn [Nat.mul Nat.add Nat.ltb Nat.leb Nat.eqb andb negb];
  unfold D3, D; cbv zeta; cbn [nth].

Section IsoReductions.
  Variables E nu : R.
  Hypothesis Hadm : admissible E nu.
  Lemma iso_pstrain_ok : sub_block 4 (iso_pstrain E nu) (iso3d E nu) id_map.
  Proof.
    destruct (adm_facts E nu Hadm) as [HE [H1 [H2 _]]]. intros i j Hi Hj. cases i; cases j; red_entry iso3d iso_pstrain; field; nzs.
  Qed.
  Lemma iso_pstress_ok : condensed 4 (iso_pstress E nu) (iso3d E nu) id_map 2 keep2.
  Proof.
    destruct (adm_facts E nu Hadm) as [HE [H1 [H2 _]]]. destruct Hadm as [_ [Hn1 Hn2]].
    assert (1 - nu <> 0) by lra. assert (1 - nu * nu <> 0) by nra.
    intros i j Hi Hj. cases i; cases j; red_entry iso3d iso_pstress; field; nzs.
  Qed.
End IsoReductions.

Section Ortho.
  Variables E1 E2 E3 n12 n23 n13 G12 G23 G13 : R.
  Hypothesis H1 : E1 <> 0.
  Hypothesis H2 : E2 <> 0.
  Hypothesis H3 : E3 <> 0.
  Hypothesis Hdet : detS E1 E2 E3 n12 n23 n13 <> 0.
  Let C3 := ortho3d E1 E2 E3 n12 n23 n13 G12 G23 G13.

  Lemma det_poly : E1 * E2 - E1 * E3 * n23 * n23 - E2 * E2 * n12 * n12 - 2 * E2 * E3 * n12 * n13 * n23 - E2 * E3 * n13 * n13 <> 0.
  Proof.
    intro Z. apply Hdet. unfold detS. cbv zeta.
    replace (1 / E1 * (1 / E2) * (1 / E3) + 2 * (- n23 / E2) * (- n13 / E1) * (- n12 / E1) - 1 / E1 * (- n23 / E2) * (- n23 / E2) -
             1 / E2 * (- n13 / E1) * (- n13 / E1) - 1 / E3 * (- n12 / E1) * (- n12 / E1))
      with ((E1 * E2 - E1 * E3 * n23 * n23 - E2 * E2 * n12 * n12 - 2 * E2 * E3 * n12 * n13 * n23 - E2 * E3 * n13 * n13) / (E1 * E1 * E2 * E2 * E3))
      by (field; nzs).
    rewrite Z. field. nzs.
  Qed.

  (* the 3D tensor is the inverse of the compliance *)
  Lemma ortho3d_ok : is_ortho_stiffness C3 E1 E2 E3 n12 n23 n13 G12 G23 G13.
  Proof.
    pose proof det_poly as Hp. unfold C3. split; [|split; [|split; [|split]]].
    - intros i j Hi Hj. cases i; cases j; unfold el, compliance; cbn [nth Nat.mul Nat.add Nat.eqb]; unfold ortho3d; cbv zeta; cbn [nth];
        field; nzs.
    - unfold el, ortho3d; cbv zeta; reflexivity.
    - unfold el, ortho3d; cbv zeta; reflexivity.
    - unfold el, ortho3d; cbv zeta; reflexivity.
    - intros i j Hi Hj Hne Hs. cases i; cases j; try (exfalso; lia); unfold el, ortho3d; cbv zeta; reflexivity.
  Qed.
  Lemma ortho3d_plate_same : ortho3d_plate E1 E2 E3 n12 n23 n13 G12 G23 G13 = C3.
  Proof. reflexivity. Qed.

  Lemma ortho_pstrain_ok : sub_block 4 (ortho_pstrain E1 E2 E3 n12 n23 n13 G12 G23 G13) C3 id_map.
  Proof. pose proof det_poly as Hp. intros i j Hi Hj. unfold C3. cases i; cases j; red_entry ortho3d ortho_pstrain; first [reflexivity | field; nzs]. Qed.
  Lemma ortho_pstrain_plate_ok : sub_block 4 (ortho_pstrain_plate E1 E2 E3 n12 n23 n13 G12 G23 G13) C3 id_map.
  Proof. pose proof det_poly as Hp. intros i j Hi Hj. unfold C3. cases i; cases j; red_entry ortho3d ortho_pstrain_plate; first [reflexivity | field; nzs]. Qed.
  Lemma ortho_agpstrain_ok : sub_block 3 (ortho_agpstrain E1 E2 E3 n12 n23 n13 G12 G23 G13) C3 id_map.
  Proof. pose proof det_poly as Hp. intros i j Hi Hj. unfold C3. cases i; cases j; red_entry ortho3d ortho_agpstrain; first [reflexivity | field; nzs]. Qed.
  (* PIPE: axes 2 and 3 exchanged *)
  Lemma ortho_pstrain_pipe_ok : sub_block 4 (ortho_pstrain_pipe E1 E2 E3 n12 n23 n13 G12 G23 G13) C3 pipe_map.
  Proof. pose proof det_poly as Hp. intros i j Hi Hj. unfold C3. cases i; cases j; red_entry ortho3d ortho_pstrain_pipe; first [reflexivity | field; nzs]. Qed.

  (* plane stress: condensation of the third normal component *)
  Hypothesis H22 : E1 - E2 * n12 * n12 <> 0.
  Lemma ortho_pstress_ok : condensed 4 (ortho_pstress E1 E2 E3 n12 n23 n13 G12 G23 G13) C3 id_map 2 keep2.
  Proof. pose proof det_poly as Hp. intros i j Hi Hj. unfold C3. cases i; cases j; red_entry ortho3d ortho_pstress; first [reflexivity | field; nzs]. Qed.
  Lemma ortho_pstress_plate_ok : condensed 4 (ortho_pstress_plate E1 E2 E3 n12 n23 n13 G12 G23 G13) C3 id_map 2 keep2.
  Proof. pose proof det_poly as Hp. intros i j Hi Hj. unfold C3. cases i; cases j; red_entry ortho3d ortho_pstress_plate; first [reflexivity | field; nzs]. Qed.
End Ortho.

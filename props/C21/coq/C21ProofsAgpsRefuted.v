(* C21 -- compiled while the ALTERED stiffness tensors of the axisymmetrical generalised plane stress hypothesis are copies of the 2D
   plane stress code: they condense the 3D tensor on component 2 (theta theta of (rr, zz, tt)) although the hypothesis prescribes
   sigma_zz (component 1).  The statements of C21ProofsAgps.v are then false; witnesses by computation. *)
From Coq Require Import Reals List Lra Lia Psatz Bool.
From C21 Require Import C21Spec C21_gen C21_table.
Import ListNotations.
Local Open Scope R_scope.

(* entry (1,1), which must vanish (row of the prescribed stress), is E / (1 - nu^2) *)
Lemma iso_agps_refuted : exists E nu, admissible E nu /\ ~ condensed 3 (iso_agps E nu) (iso3d E nu) id_map 1 keep1.
Proof.
  exists 1, (1 / 4). split; [unfold admissible; lra|]. intro H. specialize (H 1%nat 1%nat ltac:(lia) ltac:(lia)). revert H.
  cbv [el id_map keep1 keep_but Nat.mul Nat.add Nat.eqb andb negb]. unfold iso_agps. cbv zeta. cbn [nth].
  match goal with |- ?e = 0 -> False => replace e with (16 / 15) by (field; lra) end. lra.
Qed.

Lemma lame_agps_refuted : exists la mu, la + 2 * mu <> 0 /\ ~ condensed 3 (lame_agps la mu) (iso6 la mu) id_map 1 keep1.
Proof.
  exists 1, 1. split; [lra|]. intro H. specialize (H 1%nat 1%nat ltac:(lia) ltac:(lia)). revert H.
  cbv [el id_map keep1 keep_but Nat.mul Nat.add Nat.eqb andb negb]. unfold lame_agps. cbv zeta. cbn [nth].
  match goal with |- ?e = 0 -> False => replace e with (8 / 3) by (field; lra) end. lra.
Qed.

(* orthotropic: E1 = E2 = E3 = 1, nu12 = nu23 = 0, nu13 = 1/2: the row of the prescribed stress does not vanish, entry (1,1) is 1 *)
Ltac ortho_witness :=
  exists 1, 1, 1, 0, 0, (1 / 2), 1, 1, 1.
Ltac refute_entry f :=
  let H := fresh in intro H; specialize (H 1%nat 1%nat ltac:(lia) ltac:(lia)); revert H;
  cbv [el id_map keep1 keep_but Nat.mul Nat.add Nat.eqb andb negb]; unfold f; cbv zeta; cbn [nth];
  match goal with |- ?e = 0 -> False => replace e with 1 by (field; lra) end; lra.

Lemma ortho_agps_refuted : exists E1 E2 E3 n12 n23 n13 G12 G23 G13, nondegenerate E1 E2 E3 n12 n23 n13 /\ minor E1 E2 E3 n12 n23 n13 1 <> 0 /\
  ~ condensed 3 (ortho_agps E1 E2 E3 n12 n23 n13 G12 G23 G13) (ortho3d E1 E2 E3 n12 n23 n13 G12 G23 G13) id_map 1 keep1.
Proof.
  ortho_witness. split; [|split].
  - unfold nondegenerate, detS. cbv zeta. repeat split; lra.
  - unfold minor, compliance. cbv zeta. lra.
  - refute_entry ortho_agps.
Qed.

Ltac refute_row :=
  unfold combo_refuted; ortho_witness; split; [|split];
  [ unfold nondegenerate, detS; cbv zeta; repeat split; lra
  | cbv [axes_map exchanged cond_comp id_map]; unfold minor, compliance; cbv zeta; lra
  | cbv [reduces is_condensed axes_map exchanged hyp_size cond_comp];
    let H := fresh in intro H; specialize (H 1%nat 1%nat ltac:(lia) ltac:(lia)); revert H;
    cbv [el id_map keep1 keep_but Nat.mul Nat.add Nat.eqb andb negb]; autounfold with c21_combos; cbv zeta; cbn [nth];
    match goal with |- ?e = 0 -> False => replace e with 1 by (field; lra) end; lra ].

Lemma ortho_table_agps_refuted : Forall (combo_refuted ortho3d) ortho_table_agps.
Proof. cbv [ortho_table_agps]. repeat (apply Forall_cons; [refute_row |]). apply Forall_nil. Qed.

(* C21 -- tactics and auxiliary lemmas for the table of (modelling hypothesis, axes convention, alteration) combinations of the
   orthotropic stiffness tensor (C21_table.v, regenerated from the header on every run).  Independent of C21Proofs / C21ProofsO so
   that both chains compile side by side.  The scripts do not depend on the shape of the traced terms: entry by entry
   `reflexivity` or `field`. *)
From Coq Require Import Reals List Lra Lia Psatz Bool.
From C21 Require Import C21Spec C21_gen C21_table.
Import ListNotations.
Local Open Scope R_scope.

Ltac cases i := repeat (destruct i as [|i]; [|try (exfalso; lia)]).

Lemma det_poly' E1 E2 E3 n12 n23 n13 : E1 <> 0 -> E2 <> 0 -> E3 <> 0 -> detS E1 E2 E3 n12 n23 n13 <> 0 ->
  E1 * E2 - E1 * E3 * n23 * n23 - E2 * E2 * n12 * n12 - 2 * E2 * E3 * n12 * n13 * n23 - E2 * E3 * n13 * n13 <> 0.
Proof.
  intros H1 H2 H3 Hdet Z. apply Hdet. unfold detS. cbv zeta.
  replace (1 / E1 * (1 / E2) * (1 / E3) + 2 * (- n23 / E2) * (- n13 / E1) * (- n12 / E1) - 1 / E1 * (- n23 / E2) * (- n23 / E2) -
           1 / E2 * (- n13 / E1) * (- n13 / E1) - 1 / E3 * (- n12 / E1) * (- n12 / E1))
    with ((E1 * E2 - E1 * E3 * n23 * n23 - E2 * E2 * n12 * n12 - 2 * E2 * E3 * n12 * n13 * n23 - E2 * E3 * n13 * n13) / (E1 * E1 * E2 * E2 * E3))
    by (field; repeat split; assumption).
  rewrite Z. field. repeat split; assumption.
Qed.

Lemma minor2_poly E1 E2 E3 n12 n23 n13 : E1 <> 0 -> E2 <> 0 -> minor E1 E2 E3 n12 n23 n13 2 <> 0 -> E1 - E2 * n12 * n12 <> 0.
Proof.
  intros H1 H2 Hm Z. apply Hm. unfold minor, compliance. cbv zeta.
  replace (1 / E1 * (1 / E2) - - n12 / E1 * (- n12 / E1)) with ((E1 - E2 * n12 * n12) / (E1 * E1 * E2)) by (field; split; assumption).
  rewrite Z. field. split; assumption.
Qed.
Lemma minor1_poly E1 E2 E3 n12 n23 n13 : E1 <> 0 -> E3 <> 0 -> minor E1 E2 E3 n12 n23 n13 1 <> 0 -> E1 - E3 * n13 * n13 <> 0.
Proof.
  intros H1 H3 Hm Z. apply Hm. unfold minor, compliance. cbv zeta.
  replace (1 / E1 * (1 / E3) - - n13 / E1 * (- n13 / E1)) with ((E1 - E3 * n13 * n13) / (E1 * E1 * E3)) by (field; split; assumption).
  rewrite Z. field. split; assumption.
Qed.

(* side conditions left by field: hypotheses, or a consequence of them by linear reasoning over the monomials *)
Ltac nzs2 := repeat split; first [assumption | lra | nra | (intro; nra)].

Ltac combo_entry :=
  unfold el, id_map, pipe_map, keep_but, keep2, keep1; cbn [Nat.mul Nat.add Nat.ltb Nat.leb Nat.eqb andb negb];
  autounfold with c21_combos; unfold ortho3d; cbv zeta; cbn [nth];
  first [reflexivity | timeout 60 (field; nzs2)].

Ltac combo_tac :=
  intros E1 E2 E3 n12 n23 n13 G12 G23 G13 [H1 [H2 [H3 Hdet]]] Hm;
  pose proof (det_poly' E1 E2 E3 n12 n23 n13 H1 H2 H3 Hdet) as Hp;
  cbv [reduces is_condensed axes_map exchanged hyp_size cond_comp] in Hm |- *;
  try (specialize (Hm eq_refl); cbv [pipe_map id_map] in Hm;
       first [pose proof (minor2_poly _ _ _ _ _ _ H1 H2 Hm) as Hq | pose proof (minor1_poly _ _ _ _ _ _ H1 H3 Hm) as Hq]);
  intros i j Hi Hj; cases i; cases j; combo_entry.

Ltac table_tac := repeat (apply Forall_cons; [unfold combo_ok; combo_tac |]); apply Forall_nil.

(* C21 -- the first rows of the table of combinations (the table is proved in two halves compiled side by side) *)
From Coq Require Import Reals List.
From C21 Require Import C21Spec C21_gen C21_table C21ProofsTac.
Import ListNotations.
Local Open Scope R_scope.

Lemma ortho_table_ok_1 : Forall (combo_ok ortho3d) (firstn 17 ortho_table_rest).
Proof. cbv [firstn skipn ortho_table_rest]. table_tac. Qed.

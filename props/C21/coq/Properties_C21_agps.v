(* C21 -- property theorems for the ALTERED stiffness tensors of the axisymmetrical generalised plane stress hypothesis; selected when the
   real code condenses on the component whose stress is prescribed (zz = component 1 of the 1D ordering (rr, zz, tt)) *)
From Coq Require Import Reals List.
From C21 Require Import C21Spec C21_gen C21_table C21ProofsT C21ProofsAgps.
Import ListNotations.
Local Open Scope R_scope.

(* computeIsotropicStiffnessTensor<AXISYMMETRICALGENERALISEDPLANESTRESS, ALTERED>: the 3D isotropic tensor condensed on zz *)
Theorem C21_isotropic_agps_altered : forall E nu, admissible E nu -> condensed 3 (iso_agps E nu) (iso3d E nu) id_map 1 keep1.
Proof. exact iso_agps_ok. Qed.
Print Assumptions C21_isotropic_agps_altered.

(* computeAlteredElasticStiffness<AXISYMMETRICALGENERALISEDPLANESTRESS> (Lame.hxx): the same from Lame's coefficients *)
Theorem C21_lame_agps_altered : forall la mu, la + 2 * mu <> 0 -> condensed 3 (lame_agps la mu) (iso6 la mu) id_map 1 keep1.
Proof. exact lame_agps_ok. Qed.
Print Assumptions C21_lame_agps_altered.

(* computeOrthotropicStiffnessTensor<AXISYMMETRICALGENERALISEDPLANESTRESS, ALTERED> (two-parameter public function) *)
Theorem C21_orthotropic_agps_altered : forall E1 E2 E3 n12 n23 n13 G12 G23 G13, E1 <> 0 -> E2 <> 0 -> E3 <> 0 -> detS E1 E2 E3 n12 n23 n13 <> 0 ->
  E1 - E3 * n13 * n13 <> 0 ->
  condensed 3 (ortho_agps E1 E2 E3 n12 n23 n13 G12 G23 G13) (ortho3d E1 E2 E3 n12 n23 n13 G12 G23 G13) id_map 1 keep1.
Proof. exact ortho_agps_ok. Qed.
Print Assumptions C21_orthotropic_agps_altered.

(* the ALTERED axisymmetrical generalised plane stress rows of the table, hence (with C21_orthotropic_all_combinations_but_agps_altered)
   EVERY (modelling hypothesis, axes convention, alteration) combination that StiffnessTensor.ixx provides *)
Theorem C21_orthotropic_all_combinations : Forall (combo_ok ortho3d) ortho_table.
Proof. exact (Forall_filter_split (combo_ok ortho3d) agps_altered ortho_table ortho_table_agps_ok ortho_table_rest_ok). Qed.
Print Assumptions C21_orthotropic_all_combinations.

(* C21 -- proofs over the definitions regenerated from /repo (C21_gen.v): field identities entry by entry *)
From Coq Require Import Reals List Lra Lia Psatz.
From C21 Require Import C21Spec C21_gen.
Import ListNotations.
Local Open Scope R_scope.

Ltac nzs := repeat split; first [assumption | lra | nra].
Ltac cases i := repeat (destruct i as [|i]; [|try (exfalso; lia)]).
Ltac entry := unfold el; cbn [nth Nat.mul Nat.add Nat.ltb Nat.leb Nat.eqb andb].

Section Iso.
  Variables E nu : R.
  Hypothesis Hadm : admissible E nu.
  Let K := bulk E nu.
  Let G := shear E nu.
  Let la := lame1 E nu.
  Lemma adm_facts : 0 < E /\ 1 + nu <> 0 /\ 1 - 2 * nu <> 0 /\ 0 < K /\ 0 < G.
  Proof.
    destruct Hadm as [HE [H1 H2]]. repeat split; try lra.
    - unfold K, bulk. apply Rdiv_lt_0_compat; lra.
    - unfold G, shear. apply Rdiv_lt_0_compat; lra.
  Qed.

  (* conversions from (E,nu): K, G, lambda, mu, E, nu *)
  Lemma from_young_nu_ok : from_young_nu E nu = [K; G; la; G; E; nu].
  Proof.
    destruct adm_facts as [HE [H1 [H2 _]]]. unfold from_young_nu, K, G, la, bulk, shear, lame1. cbv zeta.
    repeat (f_equal; try (field; nzs)).
  Qed.
  Lemma lame_ok : lame E nu = [la; G].
  Proof.
    destruct adm_facts as [HE [H1 [H2 _]]]. unfold lame, G, la, shear, lame1. cbv zeta. repeat (f_equal; try (field; nzs)).
  Qed.
  (* round trips: from (K,G) and from (lambda,mu) one gets back E, nu and the same K, G, lambda *)
  Lemma from_kg_ok : from_kg K G = [K; G; la; G; E; nu].
  Proof.
    destruct adm_facts as [HE [H1 [H2 _]]]. unfold from_kg, K, G, la, bulk, shear, lame1. cbv zeta.
    repeat (f_equal; try (field; nzs)).
  Qed.
  Lemma from_lambda_mu_ok : from_lambda_mu la G = [K; G; la; G; E; nu].
  Proof.
    destruct adm_facts as [HE [H1 [H2 _]]]. unfold from_lambda_mu, K, G, la, bulk, shear, lame1. cbv zeta.
    repeat (f_equal; try (field; nzs)).
  Qed.

  (* stiffness tensors *)
  Lemma stiff_young_nu_ok : is_iso_stiffness 6 la G (stiff_young_nu E nu).
  Proof.
    destruct adm_facts as [HE [H1 [H2 _]]]. intros i j Hi Hj. cases i; cases j; entry;
    unfold stiff_young_nu, iso_entry, G, la, shear, lame1; cbv zeta; cbn [nth Nat.ltb Nat.leb Nat.eqb andb]; field; nzs.
  Qed.
  Lemma stiff_kg_ok : is_iso_stiffness 6 la G (stiff_kg K G).
  Proof.
    destruct adm_facts as [HE [H1 [H2 _]]]. intros i j Hi Hj. cases i; cases j; entry;
    unfold stiff_kg, iso_entry, K, G, la, bulk, shear, lame1; cbv zeta; cbn [nth Nat.ltb Nat.leb Nat.eqb andb]; field; nzs.
  Qed.
  Lemma iso3d_ok : is_iso_stiffness 6 la G (iso3d E nu).
  Proof.
    destruct adm_facts as [HE [H1 [H2 _]]]. intros i j Hi Hj. cases i; cases j; entry;
    unfold iso3d, iso_entry, G, la, shear, lame1; cbv zeta; cbn [nth Nat.ltb Nat.leb Nat.eqb andb]; field; nzs.
  Qed.
End Iso.

Lemma kg_of_stiff_ok K G : kg_of_stiff K G = [K; G].
Proof. unfold kg_of_stiff. cbv zeta. repeat (f_equal; try field). Qed.
Lemma iso_defect_ok K G : Forall (fun x => x = 0) (iso_defect K G).
Proof. unfold iso_defect. cbv zeta. repeat (apply Forall_cons; [try reflexivity; field|]). apply Forall_nil. Qed.

(* e : C : e = K tr(e)^2 + 2 G dev(e):dev(e) for any isotropic stiffness, hence positive definiteness *)
Lemma iso_quadratic_form la mu C e0 e1 e2 e3 e4 e5 : is_iso_stiffness 6 la mu C ->
  quad6 C [e0; e1; e2; e3; e4; e5] = (la + 2 * mu / 3) * (tr6 e0 e1 e2 * tr6 e0 e1 e2) + 2 * mu * devnorm2 e0 e1 e2 e3 e4 e5.
Proof.
  intros H. unfold is_iso_stiffness in H. unfold quad6. cbv zeta. cbn [nth].
  repeat match goal with |- context [el 6 C ?i ?j] => rewrite (H i j) by lia end. unfold iso_entry. cbn [Nat.ltb Nat.leb Nat.eqb andb]. unfold tr6, devnorm2. field.
Qed.
Lemma devnorm2_zero e0 e1 e2 e3 e4 e5 : devnorm2 e0 e1 e2 e3 e4 e5 = 0 -> tr6 e0 e1 e2 = 0 ->
  e0 = 0 /\ e1 = 0 /\ e2 = 0 /\ e3 = 0 /\ e4 = 0 /\ e5 = 0.
Proof.
  unfold devnorm2, tr6. cbv zeta. intros H T. replace ((e0 + e1 + e2) / 3) with 0 in H by lra.
  assert (forall a, a * a = 0 -> a = 0) as sq0 by (intros a Ha; apply Rmult_integral in Ha; tauto).
  repeat split; apply sq0; nra.
Qed.
Lemma iso_positive_definite E nu C e0 e1 e2 e3 e4 e5 : admissible E nu -> is_iso_stiffness 6 (lame1 E nu) (shear E nu) C ->
  (e0, e1, e2, e3, e4, e5) <> (0, 0, 0, 0, 0, 0) -> 0 < quad6 C [e0; e1; e2; e3; e4; e5].
Proof.
  intros Hadm HC Hne. rewrite (iso_quadratic_form _ _ _ _ _ _ _ _ _ HC).
  destruct (adm_facts E nu Hadm) as [HE [H1 [H2 [HK HG]]]].
  replace (lame1 E nu + 2 * shear E nu / 3) with (bulk E nu) by (unfold lame1, shear, bulk; field; nzs).
  assert (Hd : 0 <= devnorm2 e0 e1 e2 e3 e4 e5) by (unfold devnorm2; cbv zeta; set (m := (e0 + e1 + e2) / 3); pose proof (Rle_0_sqr (e0 - m)); pose proof (Rle_0_sqr (e1 - m)); pose proof (Rle_0_sqr (e2 - m)); pose proof (Rle_0_sqr e3); pose proof (Rle_0_sqr e4); pose proof (Rle_0_sqr e5); unfold Rsqr in *; lra).
  assert (Ht : 0 <= tr6 e0 e1 e2 * tr6 e0 e1 e2) by nra.
  destruct (Req_dec (devnorm2 e0 e1 e2 e3 e4 e5) 0) as [Ed|Ed].
  - destruct (Req_dec (tr6 e0 e1 e2) 0) as [Et|Et].
    + exfalso. apply Hne. destruct (devnorm2_zero _ _ _ _ _ _ Ed Et) as [? [? [? [? [? ?]]]]]. subst. reflexivity.
    + assert (0 < tr6 e0 e1 e2 * tr6 e0 e1 e2) by nra. nra.
  - assert (0 < devnorm2 e0 e1 e2 e3 e4 e5) by lra. nra.
Qed.

"""C16 -- IEEE-754 classification is bit-exact for every value.
Engine H: Gallina model on N of the shift/mask code of include/TFEL/Math/General/IEEE754.ixx (float, double, x87-80),
theorems for ALL bit patterns (class = IEEE class of the fields = class of Flocq's decoding; x87 explicit-bit case table
= glibc's word-wise __fpclassifyl).  Tie: the real header built at -O2 and at -Ofast is run on all 2^32 float patterns
(streamed per (sign, exponent) as the set of observations), on every exponent x structured/random fractions for
double / long double, and compared with the extracted model, an independent Python statement of the IEEE class, and glibc."""
import os
from concurrent.futures import ThreadPoolExecutor
from vlib import guarded_main

CN = ["nan", "inf", "zero", "sub", "normal", "other"]


def py_class(fmt, *a):
    """independent statement of the property: IEEE class from the fields of the pattern"""
    if fmt in (32, 64):
        fb, eb = (23, 8) if fmt == 32 else (52, 11)
        i = a[0]
        f = i & ((1 << fb) - 1)
        e = (i >> fb) & ((1 << eb) - 1)
        if e == 0:
            return "zero" if f == 0 else "sub"
        if e == (1 << eb) - 1:
            return "inf" if f == 0 else "nan"
        return "normal"
    se, m = a
    e = se & 0x7fff
    j = m >> 63
    f = m & ((1 << 63) - 1)
    if e == 0:
        if j == 0:
            return "zero" if f == 0 else "sub"
        return "normal"          # pseudo-denormal
    if j == 0:
        return "nan"             # unnormal, pseudo-infinity, pseudo-NaN
    if e == 0x7fff:
        return "inf" if f == 0 else "nan"
    return "normal"


def obs_of_class(cl):
    """(class, isnan, isfinite) observation code as printed by the drivers"""
    return CN.index(cl) + 6 * (cl == "nan") + 12 * (cl in ("zero", "sub", "normal"))


def obs_str(o):
    return "fpclassify=%s isnan=%d isfinite=%d" % (CN[o % 6], (o // 6) % 2, o // 12)


def fractions(c, fb, nrand):
    fr = [0, 1, 2, 1 << (fb - 1), (1 << fb) - 1, (1 << (fb - 1)) - 1, (1 << (fb - 1)) + 1, 1 << (fb // 2)]
    fr += [1 << c.rng.randrange(fb) for _ in range(2)]
    fr += [c.rng.getrandbits(fb) for _ in range(nrand)]
    return fr


def main(c):
    builds = {"O2": c.cxx("driver_O2", ["driver.cxx"], opt="-O2"),
              "Ofast": c.cxx("driver_Ofast", ["driver.cxx"], opt="-Ofast")}
    c.trusted("driver.cxx (bit_cast of patterns, printing), g++ -O2 / -Ofast code generation of the real header",
              "glibc __fpclassifyf/__fpclassify/__fpclassifyl as a second oracle",
              "model_driver.ml (hex parsing, printing of the extracted model's results)")
    # ---- extracted model
    mexe = c.ocaml_extract("c16", ["C16Spec.v", "C16Model.v"],
                           "From Coq Require Import ExtrOcamlBasic.\nFrom C16 Require Import C16Spec C16Model.\n"
                           "Extraction \"c16_model.ml\" fpclassify32 fpclassify64 fpclassify80 isnan32 isnan64 isnan80 "
                           "isfinite32 isfinite64 isfinite80 ieee_class32 ieee_class64 x87_class_bits glibc_of_bits.\n",
                           "model_driver.ml")
    c.log('extraction done')
    # ---- patterns
    p32 = []
    for s in range(2):
        for e in range(256):
            for f in (0, 1, 0x400000, 0x7fffff, c.rng.getrandbits(23) | 1):
                p32.append((s << 31) | (e << 23) | f)
    p64 = []
    for e in range(2048):
        for f in fractions(c, 52, c.pick(2, 40)):
            s = c.rng.getrandbits(1) if c.quick() else None
            for sg in ([s] if s is not None else [0, 1]):
                p64.append((sg << 63) | (e << 52) | f)
    p64 += [c.rng.getrandbits(64) for _ in range(c.pick(2000, 50000))]
    p80 = []
    special80 = [(0x0000, 0), (0x8000, 0), (0x0000, 1), (0x8000, (1 << 63) - 1), (0x0000, 1 << 63), (0x0000, (1 << 64) - 1),
                 (0x3fff, 1 << 63), (0x3fff, 1 << 62), (0x3fff, 0), (0x0001, 0), (0x7ffe, (1 << 63) - 1),
                 (0x7fff, 1 << 63), (0xffff, 1 << 63), (0x7fff, 0), (0x7fff, 1), (0x7fff, (1 << 63) - 1), (0x7fff, 3 << 62),
                 (0x7fff, (1 << 63) | 1), (0xffff, (1 << 64) - 1), (0x7ffe, (1 << 64) - 1), (0x0001, 1 << 63)]
    p80 += special80
    for e in range(32768):
        fr = [0, 1 << c.rng.randrange(63), c.rng.getrandbits(63) | 1] if c.quick() else fractions(c, 63, 4)
        for f in fr:
            for j in (0, 1):
                sgs = [c.rng.getrandbits(1)] if c.quick() else [0, 1]
                for sg in sgs:
                    p80.append(((sg << 15) | e, (j << 63) | f))
    if c.replay:
        r = c.replay.get("replay", {})
        if r.get("format") == 32:
            p32.append(int(r["pattern"], 16))
        if r.get("format") == 64:
            p64.append(int(r["pattern"], 16))
        if r.get("format") == 80:
            p80.append((int(r["se"], 16), int(r["m"], 16)))
    in32 = "".join("%08x\n" % p for p in p32)
    in64 = "".join("%016x\n" % p for p in p64)
    in80 = "".join("%04x %016x\n" % p for p in p80)
    min_ = "".join("32 %08x\n" % p for p in p32) + "".join("64 %016x\n" % p for p in p64) + "".join("80 %04x %016x\n" % p for p in p80)

    # ---- run the model and the real code (two builds) concurrently
    def run_model():
        return c.run([mexe], input=min_, timeout=1200)

    def run_build(b):
        exe = builds[b]
        out = {}
        out["f32"] = c.run([exe, "f32"] + (["glibc"] if b == "O2" else []), timeout=900)
        out["p32"] = c.run([exe, "pat32"], input=in32)
        out["p64"] = c.run([exe, "pat64"], input=in64)
        out["p80"] = c.run([exe, "pat80"], input=in80, timeout=900)
        out["ce"] = c.run([exe, "cexpr"])
        return out

    with ThreadPoolExecutor(max_workers=3) as ex:
        fm = ex.submit(run_model)
        fb = {b: ex.submit(run_build, b) for b in builds}
        # ---- proofs (main thread, while the model and the real code run)
        res = c.coq(["C16Spec.v", "C16Flocq.v", "C16Model.v", "C16Proofs.v", "Properties_C16.v"], timeout=900)
        c.log('coq done')
        rcm, outm, errm = fm.result()
        outs = {b: fb[b].result() for b in builds}
    c.log('runs done')
    if rcm != 0:
        c.report("model-run", "extracted model failed: " + errm[-500:], {"stderr": errm[-2000:]}, False)
        return
    M32, M64, M80 = {}, {}, {}
    for l in outm.splitlines():
        t = l.split()
        if t[0] == "M32":
            M32[int(t[1], 16)] = (int(t[2]), int(t[3]))
        elif t[0] == "M64":
            M64[int(t[1], 16)] = (int(t[2]), int(t[3]))
        elif t[0] == "M80":
            M80[(int(t[1], 16), int(t[2], 16))] = (int(t[3]), int(t[4]), int(t[5]))
    # model vs independent statement (cannot differ while the theorems hold; checked so that a broken theorem is located)
    model_bad = []
    for p, (o, sp) in M32.items():
        if o != obs_of_class(py_class(32, p)) or CN[sp] != py_class(32, p):
            model_bad.append(("32", "%08x" % p))
    for p, (o, sp) in M64.items():
        if o != obs_of_class(py_class(64, p)) or CN[sp] != py_class(64, p):
            model_bad.append(("64", "%016x" % p))
    for (se, m), (o, sp, gl) in M80.items():
        if o != obs_of_class(py_class(80, se, m)) or CN[sp] != py_class(80, se, m) or CN[gl] != py_class(80, se, m):
            model_bad.append(("80", "%04x %016x" % (se, m)))
    for k in model_bad[:5]:
        c.report("model:%s:%s" % k, "the Gallina model / Coq spec and the Python statement of the IEEE class differ on pattern %s (format %s)" % (k[1], k[0]),
                 {"format": k[0], "pattern": k[1]}, True)

    nfail = [0]
    nfmt = {}

    def fail(b, fmt, pat_key, pat_desc, replay, seen, want, glibc=None):
        nfail[0] += 1
        nfmt[(b, fmt)] = nfmt.get((b, fmt), 0) + 1
        if nfmt[(b, fmt)] > 3:
            return
        c.report("%s:%s:%s" % (fmt, b, pat_key),
                 "tfel::math::ieee754 (%s build) on %s: observed %s, IEEE class is %s (%s)%s" % (
                     "-" + b, pat_desc, seen, want, obs_str(obs_of_class(want)),
                     "" if glibc is None else "; glibc says " + glibc),
                 dict(replay, build="-" + b, expected=obs_str(obs_of_class(want)), observed=seen,
                      how="props/C16/driver.cxx pat%s" % fmt), True)

    for b, out in outs.items():
        for k, (rc, o, e) in out.items():
            if rc != 0:
                c.report("run:%s:%s" % (b, k), "driver %s (%s build) failed: %s" % (k, b, e[-300:]), {"stderr": e[-2000:]}, False)
                return
        # ---- float, exhaustive
        rows = 0
        for l in out["f32"][1].splitlines():
            t = l.split()
            s, e, o0, mask, g0, gmask = (int(x) for x in t[1:7])
            rows += 1
            base = (s << 31) | (e << 23)
            want0 = py_class(32, base)
            want1 = py_class(32, base | 1)
            m0 = M32[base][0]
            m1 = M32[base | 1][0]
            # all non-zero fractions have the class of fraction 1 (theorem C16_float_class_depends); model sampled too
            if any(M32[base | f][0] != m1 for f in (0x400000, 0x7fffff)):
                c.report("model-depends:%d:%d" % (s, e), "model not constant over non-zero fractions", {}, False)
            if o0 != obs_of_class(want0) or o0 != m0:
                fail(b, "32", "%08x" % base, "float pattern 0x%08x" % base, {"format": 32, "pattern": "%08x" % base}, obs_str(o0), want0)
            if mask != (1 << obs_of_class(want1)) or mask != (1 << m1):
                # find the concrete fractions that misbehave
                bad = [k for k in range(24) if (mask >> k) & 1 and k != obs_of_class(want1)]
                hit = None
                probe = [base | f for f in (1, 2, 0x400000, 0x7fffff, 0x3fffff, 0x400001)] + [base | (1 << k) for k in range(23)]
                rcq, oq, eq = c.run([builds[b], "pat32"], input="".join("%08x\n" % p for p in probe))
                for lq in oq.splitlines():
                    tq = lq.split()
                    if int(tq[2]) != obs_of_class(want1):
                        hit = (int(tq[1], 16), int(tq[2]))
                        break
                if hit:
                    fail(b, "32", "%08x" % hit[0], "float pattern 0x%08x" % hit[0], {"format": 32, "pattern": "%08x" % hit[0]}, obs_str(hit[1]), want1)
                else:
                    fail(b, "32", "row:%d:%d" % (s, e), "float patterns sign=%d exponent=%d, some non-zero fraction" % (s, e),
                         {"format": 32, "sign": s, "exponent": e, "observation_mask": mask}, " or ".join(obs_str(k) for k in bad), want1)
            if g0 >= 0:
                if CN[g0] != want0 or gmask != (1 << CN.index(want1)):
                    c.report("glibc32:%d:%d" % (s, e), "glibc __fpclassifyf disagrees with the IEEE class for sign=%d exponent=%d" % (s, e), {}, False)
        if rows != 512:
            c.report("f32rows:" + b, "float sweep printed %d rows instead of 512" % rows, {}, False)
        c.count(1 << 32)
        # ---- float patterns through the pattern interface (also used for replays)
        for l in out["p32"][1].splitlines():
            t = l.split()
            p, o, g = int(t[1], 16), int(t[2]), int(t[3])
            want = py_class(32, p)
            if o != obs_of_class(want) or o != M32[p][0]:
                fail(b, "32", "%08x" % p, "float pattern 0x%08x" % p, {"format": 32, "pattern": "%08x" % p}, obs_str(o), want, CN[g])
        # ---- double
        n = 0
        for l in out["p64"][1].splitlines():
            t = l.split()
            p, o, g = int(t[1], 16), int(t[2]), int(t[3])
            want = py_class(64, p)
            n += 1
            c.count(1, ("64", p), True)
            if o != obs_of_class(want) or o != M64[p][0]:
                fail(b, "64", "%016x" % p, "double pattern 0x%016x" % p, {"format": 64, "pattern": "%016x" % p}, obs_str(o), want, CN[g])
            elif CN[g] != want:
                c.report("glibc64:%016x" % p, "glibc __fpclassify disagrees with the IEEE class on 0x%016x" % p, {}, False)
        if n != len(p64):
            c.report("p64rows:" + b, "double run printed %d rows instead of %d" % (n, len(p64)), {}, False)
        # ---- long double (x87)
        n = 0
        for l in out["p80"][1].splitlines():
            t = l.split()
            se, m, o, g = int(t[1], 16), int(t[2], 16), int(t[3]), int(t[4])
            want = py_class(80, se, m)
            n += 1
            c.count(1, ("80", se, m), True)
            if o != obs_of_class(want) or o != M80[(se, m)][0]:
                fail(b, "80", "%04x-%016x" % (se, m), "long double image se=0x%04x significand=0x%016x" % (se, m),
                     {"format": 80, "se": "%04x" % se, "m": "%016x" % m}, obs_str(o), want, CN[g])
            elif CN[g] != want or g != M80[(se, m)][2]:
                c.report("glibc80:%04x-%016x" % (se, m),
                         "glibc __fpclassifyl returns %s on se=0x%04x m=0x%016x where the case table (and TFEL) say %s: platform convention changed" % (CN[g], se, m, want),
                         {"format": 80, "se": "%04x" % se, "m": "%016x" % m}, True)
        if n != len(p80):
            c.report("p80rows:" + b, "long double run printed %d rows instead of %d" % (n, len(p80)), {}, False)
        # ---- constexpr evaluation by the compiler
        for l in out["ce"][1].splitlines():
            t = l.split()
            fmt = 32 if t[0] == "CE32" else 64
            p = int(t[1], 16)
            want = py_class(fmt, p)
            c.count(1)
            seen = "fpclassify=%s isnan=%s isfinite=%s" % (t[2], t[3], t[4])
            if seen != obs_str(obs_of_class(want)):
                fail(b, "ce%d" % fmt, t[1], "constexpr evaluation on pattern 0x%s" % t[1], {"format": fmt, "pattern": t[1], "constexpr": True}, seen, want)
    if nfail[0]:
        c.notes.append("%d failing patterns in total; at most 3 per (build, format) reported" % nfail[0])
    c.sample({"float": "all 2^32 patterns, per (sign, exponent): observation at fraction 0 and set of observations over the other 2^23-1 fractions", "rows": 512, "builds": list(builds)})
    c.sample({"double_patterns": len(p64), "first": "%016x" % p64[0], "last": "%016x" % p64[-1]})
    c.sample({"x87_patterns": len(p80), "special": ["%04x:%016x" % p for p in special80[:8]]})
    c.coverage["rule"] = ("float: exhaustive 2^32 patterns x 2 builds (-O2, -Ofast), class+isnan+isfinite, glibc exhaustive once; "
                          "double: every exponent (2048) x structured+random fractions + random patterns (%d); "
                          "x87: every exponent (32768) x J in {0,1} x zero/structured/random fractions + 21 special encodings (%d); "
                          "each compared with the extracted Gallina model, the Python statement of the IEEE class and glibc" % (len(p64), len(p80)))
    c.coverage["exhaustive"] = True
    c.coverage["traces_validated_against_impl"] = 2 * (len(p32) + len(p64) + len(p80))
    if not res.ok:
        if c.violations and any(v[3] for v in c.violations):
            c.notes.append("proof obligations failed: %s; concrete failing inputs reported above" % [f[2] for f in res.failed])
        else:
            c.coq_failures(res, None)


guarded_main("C16", main)

(* C16 -- specification, part 2: the class of a pattern read off the binary32/binary64 number that Flocq decodes. *)
From Coq Require Import NArith ZArith Bool.
From Flocq Require Import IEEE754.Binary IEEE754.Bits.
From C16 Require Import C16Spec.

(* class of a Flocq binary float: a finite non-zero number is subnormal iff its significand has no hidden bit *)
Definition class_of_binary {prec emax : Z} (x : binary_float prec emax) : fpclass :=
  match x with
  | B754_zero _ _ _ => FpZero
  | B754_infinity _ _ _ => FpInfinite
  | B754_nan _ _ _ _ _ => FpNan
  | B754_finite _ _ _ m _ _ => if (Z.pos m <? 2 ^ (prec - 1))%Z then FpSubnormal else FpNormal
  end.
Definition flocq_class32 (i : N) : fpclass := class_of_binary (b32_of_bits (Z.of_N i)).
Definition flocq_class64 (i : N) : fpclass := class_of_binary (b64_of_bits (Z.of_N i)).


(* C16 -- property theorems (statements only; proofs are in C16Proofs.v). *)
From Coq Require Import NArith Bool.
From C16 Require Import C16Spec C16Flocq C16Model C16Proofs.
Local Open Scope N_scope.

(* float: for EVERY bit pattern the shift/mask code returns the IEEE class of (exponent field, fraction field) *)
Theorem C16_float_is_ieee_class : forall i, fpclassify32 i = ieee_class32 i.
Proof. exact fpclassify32_ieee. Qed.
Print Assumptions C16_float_is_ieee_class.

(* ... and the class of the binary32 number that Flocq decodes from the pattern *)
Theorem C16_float_is_flocq_class : forall i, fpclassify32 i = flocq_class32 i.
Proof. intro i. rewrite flocq_class32_ieee. exact (fpclassify32_ieee i). Qed.
Print Assumptions C16_float_is_flocq_class.

Theorem C16_double_is_ieee_class : forall i, fpclassify64 i = ieee_class64 i.
Proof. exact fpclassify64_ieee. Qed.
Print Assumptions C16_double_is_ieee_class.

Theorem C16_double_is_flocq_class : forall i, fpclassify64 i = flocq_class64 i.
Proof. intro i. rewrite flocq_class64_ieee. exact (fpclassify64_ieee i). Qed.
Print Assumptions C16_double_is_flocq_class.

(* x87 double extended: the explicit-integer-bit case table (pseudo-denormal normal; unnormal, pseudo-inf/NaN are NaN) *)
Theorem C16_x87_is_case_table : forall m se, fpclassify80 m se = x87_class_bits m se.
Proof. exact fpclassify80_x87. Qed.
Print Assumptions C16_x87_is_case_table.

(* ... which is what glibc's __fpclassifyl computes word-wise *)
Theorem C16_x87_is_glibc : forall m se, m < 2 ^ 64 -> glibc_of_bits m se = fpclassify80 m se.
Proof. exact glibc_matches. Qed.
Print Assumptions C16_x87_is_glibc.

(* isnan / isfinite are the predicates of the class *)
Theorem C16_isnan_isfinite : forall i m se,
  isnan32 i = isnan_spec (ieee_class32 i) /\ isfinite32 i = isfinite_spec (ieee_class32 i) /\
  isnan64 i = isnan_spec (ieee_class64 i) /\ isfinite64 i = isfinite_spec (ieee_class64 i) /\
  isnan80 m se = isnan_spec (x87_class_bits m se) /\ isfinite80 m se = isfinite_spec (x87_class_bits m se).
Proof.
  intros i m se. unfold isnan32, isfinite32, isnan64, isfinite64, isnan80, isfinite80.
  rewrite !isnan_of_spec, !isfinite_of_spec, fpclassify32_ieee, fpclassify64_ieee, fpclassify80_x87.
  repeat split.
Qed.
Print Assumptions C16_isnan_isfinite.

(* the class depends only on (exponent field, fraction = 0 ?): comparing the real code with the model on the set of
   classes seen per (sign, exponent) over all fractions is therefore a complete comparison *)
Theorem C16_float_class_depends : forall i j,
  field_exp 23 8 i = field_exp 23 8 j -> (field_frac 23 i =? 0) = (field_frac 23 j =? 0) -> fpclassify32 i = fpclassify32 j.
Proof. exact fpclassify32_depends. Qed.
Print Assumptions C16_float_class_depends.
Theorem C16_double_class_depends : forall i j,
  field_exp 52 11 i = field_exp 52 11 j -> (field_frac 52 i =? 0) = (field_frac 52 j =? 0) -> fpclassify64 i = fpclassify64 j.
Proof. exact fpclassify64_depends. Qed.
Print Assumptions C16_double_class_depends.
Theorem C16_x87_class_depends : forall m se m' se',
  x87_e se = x87_e se' -> x87_J m = x87_J m' -> (x87_f m =? 0) = (x87_f m' =? 0) -> fpclassify80 m se = fpclassify80 m' se'.
Proof. exact fpclassify80_depends. Qed.
Print Assumptions C16_x87_class_depends.

(* the specification discriminates: familiar encodings (and the eleven special x87 encodings) get their class *)
Theorem C16_spec_examples :
  ieee_class32 0x00000000 = FpZero /\ ieee_class32 0x80000000 = FpZero /\ ieee_class32 0x00000001 = FpSubnormal /\
  ieee_class32 0x007fffff = FpSubnormal /\ ieee_class32 0x00800000 = FpNormal /\ ieee_class32 0x7f7fffff = FpNormal /\
  ieee_class32 0x7f800000 = FpInfinite /\ ieee_class32 0xff800000 = FpInfinite /\ ieee_class32 0x7f800001 = FpNan /\
  ieee_class32 0x7fc00000 = FpNan /\
  flocq_class32 0x3f800000 = FpNormal /\ flocq_class32 0x00000001 = FpSubnormal /\ flocq_class32 0x7fc00000 = FpNan /\
  ieee_class64 0x7ff0000000000000 = FpInfinite /\ ieee_class64 0x7ff8000000000000 = FpNan /\
  ieee_class64 0x000fffffffffffff = FpSubnormal /\ ieee_class64 0x0010000000000000 = FpNormal /\
  flocq_class64 0x3ff0000000000000 = FpNormal /\ flocq_class64 0x8000000000000001 = FpSubnormal /\
  x87_class_bits 0x0000000000000000 0x0000 = FpZero /\ x87_class_bits 0x0000000000000001 0x8000 = FpSubnormal /\
  x87_class_bits 0x8000000000000000 0x0000 = FpNormal (* pseudo-denormal *) /\
  x87_class_bits 0x8000000000000000 0x3fff = FpNormal (* 1.0 *) /\
  x87_class_bits 0x4000000000000000 0x3fff = FpNan (* unnormal *) /\
  x87_class_bits 0x0000000000000000 0x3fff = FpNan (* pseudo-zero *) /\
  x87_class_bits 0x8000000000000000 0x7fff = FpInfinite /\
  x87_class_bits 0x0000000000000000 0x7fff = FpNan (* pseudo-infinity *) /\
  x87_class_bits 0x0000000000000001 0x7fff = FpNan (* pseudo-NaN *) /\
  x87_class_bits 0xc000000000000000 0x7fff = FpNan (* quiet NaN *) /\
  x87_class_bits 0x8000000000000001 0xffff = FpNan (* signalling NaN *).
Proof. vm_compute. repeat split. Qed.
Print Assumptions C16_spec_examples.

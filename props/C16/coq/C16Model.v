(* C16 -- executable model on N of include/TFEL/Math/General/IEEE754.ixx (definitions only).
   Unsigned C++ arithmetic: uint32_t/uint64_t shifts wrap modulo 2^32 / 2^64; `x ? a : b` tests x <> 0. *)
From Coq Require Import NArith Bool.
From C16 Require Import C16Spec.
Local Open Scope N_scope.

(* `i << k` on an unsigned integer of w bits *)
Definition shl (w i k : N) : N := N.land (N.shiftl i k) (N.ones w).

(* shape shared by the float and double overloads:
     const int e = i >> she & mask;
     if (!e) return i << shz ? FP_SUBNORMAL : FP_ZERO;
     if (e == mask) return i << shn ? FP_NAN : FP_INFINITE;
     return FP_NORMAL;                                                                          *)
Definition fpclassify_sm (w she mask shz shn i : N) : fpclass :=
  let e := N.land (N.shiftr i she) mask in
  if e =? 0 then (if shl w i shz =? 0 then FpZero else FpSubnormal)
  else if e =? mask then (if shl w i shn =? 0 then FpInfinite else FpNan)
  else FpNormal.

(* fpclassify(float): i >> 23 & 0xff, i << 1, e == 0xff, i << 9 on uint32_t *)
Definition fpclassify32 (i : N) : fpclass := fpclassify_sm 32 23 0xff 1 9 i.
(* fpclassify(double): i >> 52 & 0x7ff, i << 1, e == 0x7ff, i << 12 on uint64_t *)
Definition fpclassify64 (i : N) : fpclass := fpclassify_sm 64 52 0x7ff 1 12 i.

(* fpclassify(long double), LDBL_MANT_DIG == 64 branch: struct { uint64_t m; uint16_t se; }
     const int e = i.se & 0x7fff;  const int msb = i.m >> 63;
     if (!e && !msb) return i.m ? FP_SUBNORMAL : FP_ZERO;
     if (!msb) return FP_NAN;
     if (e == 0x7fff) return i.m << 1 ? FP_NAN : FP_INFINITE;
     return FP_NORMAL;                                                                          *)
Definition fpclassify80 (m se : N) : fpclass :=
  let e := N.land se 0x7fff in
  let msb := N.shiftr m 63 in
  if (e =? 0) && (msb =? 0) then (if m =? 0 then FpZero else FpSubnormal)
  else if msb =? 0 then FpNan
  else if e =? 0x7fff then (if shl 64 m 1 =? 0 then FpInfinite else FpNan)
  else FpNormal.

(* isnan(x) = (fpclassify(x) == FP_NAN);  isfinite(x) = c == FP_NORMAL || c == FP_ZERO || c == FP_SUBNORMAL *)
Definition isnan_of (c : fpclass) : bool := fpclass_eqb c FpNan.
Definition isfinite_of (c : fpclass) : bool :=
  fpclass_eqb c FpNormal || fpclass_eqb c FpZero || fpclass_eqb c FpSubnormal.
Definition isnan32 i := isnan_of (fpclassify32 i).
Definition isnan64 i := isnan_of (fpclassify64 i).
Definition isnan80 m se := isnan_of (fpclassify80 m se).
Definition isfinite32 i := isfinite_of (fpclassify32 i).
Definition isfinite64 i := isfinite_of (fpclassify64 i).
Definition isfinite80 m se := isfinite_of (fpclassify80 m se).

(* second model: glibc 2.36 sysdeps/x86/fpu (ldbl-96) __fpclassifyl on the words (ex, hx, lx):
     ex &= 0x7fff;
     if ((ex | lx | hx) == 0) FP_ZERO
     else if (ex == 0 && (hx & 0x80000000) == 0) FP_SUBNORMAL
     else if ((hx & 0x80000000) == 0) FP_NAN          -- pseudo-zero, pseudo-infinity, unnormals
     else if (ex == 0x7fff) ((hx & 0x7fffffff) | lx) != 0 ? FP_NAN : FP_INFINITE
     else FP_NORMAL                                                                              *)
Definition glibc_fpclassifyl (ex0 hx lx : N) : fpclass :=
  let ex := N.land ex0 0x7fff in
  if N.lor (N.lor ex lx) hx =? 0 then FpZero
  else if (ex =? 0) && (N.land hx 0x80000000 =? 0) then FpSubnormal
  else if N.land hx 0x80000000 =? 0 then FpNan
  else if ex =? 0x7fff then (if N.lor (N.land hx 0x7fffffff) lx =? 0 then FpInfinite else FpNan)
  else FpNormal.
(* the words of the x87 image (m, se) *)
Definition glibc_of_bits (m se : N) : fpclass := glibc_fpclassifyl se (m / 2 ^ 32) (m mod 2 ^ 32).

(* C16 -- specification of "IEEE-754 classification is bit-exact", written independently of the code:
   the class of a bit pattern is a function of its (sign, exponent field, fraction field); for binary32/64 the
   class is also read off Flocq's decoding of the pattern (b32_of_bits / b64_of_bits); for the x87 80-bit
   format the explicit integer bit J gives the case table of the Intel SDM (vol.1, table 4-? "unsupported
   double extended-precision encodings"): pseudo-denormals are loaded as normal numbers, unnormals, pseudo-NaN
   and pseudo-infinities are invalid operands and classified as NaN, as glibc does. *)
From Coq Require Import NArith Bool.
Local Open Scope N_scope.

Inductive fpclass := FpNan | FpInfinite | FpZero | FpSubnormal | FpNormal.

Definition fpclass_eqb (a b : fpclass) : bool :=
  match a, b with
  | FpNan, FpNan | FpInfinite, FpInfinite | FpZero, FpZero | FpSubnormal, FpSubnormal | FpNormal, FpNormal => true
  | _, _ => false
  end.

(* fields of a pattern with fb fraction bits and eb exponent bits (sign on top) *)
Definition field_frac (fb i : N) : N := i mod 2 ^ fb.
Definition field_exp (fb eb i : N) : N := (i / 2 ^ fb) mod 2 ^ eb.
Definition field_sign (fb eb i : N) : N := i / 2 ^ (fb + eb).

(* IEEE 754-2008 section 3.4: class from the biased exponent field e and the trailing significand field f *)
Definition ieee_class (eb e f : N) : fpclass :=
  if e =? 0 then (if f =? 0 then FpZero else FpSubnormal)
  else if e =? 2 ^ eb - 1 then (if f =? 0 then FpInfinite else FpNan)
  else FpNormal.

Definition ieee_class32 (i : N) : fpclass := ieee_class 8 (field_exp 23 8 i) (field_frac 23 i).
Definition ieee_class64 (i : N) : fpclass := ieee_class 11 (field_exp 52 11 i) (field_frac 52 i).

(* x87 double extended: 64-bit significand m = J:f (J explicit integer bit, f 63 bits), se = sign:exponent(15) *)
Definition x87_J (m : N) : N := m / 2 ^ 63.
Definition x87_f (m : N) : N := m mod 2 ^ 63.
Definition x87_e (se : N) : N := se mod 2 ^ 15.
Definition x87_class (e j f : N) : fpclass :=
  if e =? 0 then
    (if j =? 0 then (if f =? 0 then FpZero else FpSubnormal)
     else FpNormal)                                   (* pseudo-denormal: value m*2^-16445 >= 2^-16382 *)
  else if j =? 0 then FpNan                           (* unnormal, pseudo-infinity, pseudo-NaN: invalid operands *)
  else if e =? 2 ^ 15 - 1 then (if f =? 0 then FpInfinite else FpNan)
  else FpNormal.
Definition x87_class_bits (m se : N) : fpclass := x87_class (x87_e se) (x87_J m) (x87_f m).

Definition isnan_spec (c : fpclass) : bool := match c with FpNan => true | _ => false end.
Definition isfinite_spec (c : fpclass) : bool := match c with FpNan | FpInfinite => false | _ => true end.

(* C16 -- proofs: the shift/mask model equals the IEEE class of the fields, for every bit pattern. *)
From Coq Require Import NArith ZArith Bool Lia.
From Flocq Require Import IEEE754.Binary IEEE754.Bits.
From C16 Require Import C16Spec C16Flocq C16Model.
Local Open Scope N_scope.

(* ---------- unsigned shifts and masks as div / mod ---------- *)
Lemma shl_zero_iff k r i : (shl (k + r) i k =? 0) = (i mod 2 ^ r =? 0).
Proof.
  unfold shl. rewrite N.shiftl_mul_pow2, N.land_ones.
  rewrite (N.add_comm k r), N.pow_add_r.
  rewrite N.mul_mod_distr_r by (apply N.pow_nonzero; discriminate).
  assert (H2 : 2 ^ k <> 0) by (apply N.pow_nonzero; discriminate).
  destruct (N.eqb_spec (i mod 2 ^ r) 0) as [E|E].
  - rewrite E. reflexivity.
  - apply N.eqb_neq. intro H. apply N.eq_mul_0 in H. tauto.
Qed.

Lemma exp_field fb eb i : N.land (N.shiftr i fb) (N.ones eb) = field_exp fb eb i.
Proof. unfold field_exp. now rewrite N.shiftr_div_pow2, N.land_ones. Qed.

Lemma ones_pow eb : N.ones eb = 2 ^ eb - 1.
Proof. now rewrite N.ones_equiv, N.sub_1_r. Qed.

Lemma mod_split fb eb i : i mod 2 ^ (eb + fb) = field_frac fb i + 2 ^ fb * field_exp fb eb i.
Proof.
  unfold field_frac, field_exp.
  rewrite (N.add_comm eb fb), N.pow_add_r.
  apply N.mod_mul_r; apply N.pow_nonzero; discriminate.
Qed.

(* ---------- the generic float/double shape ---------- *)
Lemma fpclassify_sm_correct fb eb i :
  fpclassify_sm (1 + eb + fb) fb (N.ones eb) 1 (1 + eb) i = ieee_class eb (field_exp fb eb i) (field_frac fb i).
Proof.
  unfold fpclassify_sm, ieee_class.
  rewrite exp_field, <- ones_pow.
  replace (1 + eb + fb) with (1 + (eb + fb)) at 1 by lia.
  rewrite !shl_zero_iff.
  destruct (N.eqb_spec (field_exp fb eb i) 0) as [E0|E0].
  - rewrite mod_split, E0, N.mul_0_r, N.add_0_r. reflexivity.
  - reflexivity.
Qed.

Lemma fpclassify32_ieee i : fpclassify32 i = ieee_class32 i.
Proof. exact (fpclassify_sm_correct 23 8 i). Qed.
Lemma fpclassify64_ieee i : fpclassify64 i = ieee_class64 i.
Proof. exact (fpclassify_sm_correct 52 11 i). Qed.

(* the class depends only on (exponent field, fraction = 0 ?) *)
Lemma fpclassify32_depends i j :
  field_exp 23 8 i = field_exp 23 8 j -> (field_frac 23 i =? 0) = (field_frac 23 j =? 0) ->
  fpclassify32 i = fpclassify32 j.
Proof. intros He Hf. rewrite !fpclassify32_ieee. unfold ieee_class32, ieee_class. now rewrite He, Hf. Qed.
Lemma fpclassify64_depends i j :
  field_exp 52 11 i = field_exp 52 11 j -> (field_frac 52 i =? 0) = (field_frac 52 j =? 0) ->
  fpclassify64 i = fpclassify64 j.
Proof. intros He Hf. rewrite !fpclassify64_ieee. unfold ieee_class64, ieee_class. now rewrite He, Hf. Qed.

(* isnan / isfinite *)
Lemma isnan_of_spec c : isnan_of c = isnan_spec c.
Proof. now destruct c. Qed.
Lemma isfinite_of_spec c : isfinite_of c = isfinite_spec c.
Proof. now destruct c. Qed.

(* ---------- Flocq ---------- *)
Section Flocq.
  Variables mw ew : Z.
  Hypothesis Hmw : (0 < mw)%Z.
  Hypothesis Hew : (0 < ew)%Z.
  Let prec := (mw + 1)%Z.
  Let emax := (2 ^ (ew - 1))%Z.
  Hypothesis Hemax : (prec < emax)%Z.

  Definition class_of_full (f : full_float) : fpclass :=
    match f with
    | F754_zero _ => FpZero
    | F754_infinity _ => FpInfinite
    | F754_nan _ _ => FpNan
    | F754_finite _ m _ => if (Z.pos m <? 2 ^ (prec - 1))%Z then FpSubnormal else FpNormal
    end.

  Lemma class_FF2B f H : class_of_binary (FF2B prec emax f H) = class_of_full f.
  Proof. destruct f; reflexivity. Qed.

  Definition ieee_class_Z (e f : Z) : fpclass :=
    if (e =? 0)%Z then (if (f =? 0)%Z then FpZero else FpSubnormal)
    else if (e =? 2 ^ ew - 1)%Z then (if (f =? 0)%Z then FpInfinite else FpNan)
    else FpNormal.

  Lemma class_of_bits x :
    class_of_binary (binary_float_of_bits mw ew Hmw Hew Hemax x) =
    ieee_class_Z ((x / 2 ^ mw) mod 2 ^ ew) (x mod 2 ^ mw).
  Proof.
    unfold binary_float_of_bits. rewrite class_FF2B.
    unfold binary_float_of_bits_aux, split_bits, ieee_class_Z.
    assert (Hm : (0 <= x mod 2 ^ mw < 2 ^ mw)%Z) by (apply Z.mod_pos_bound; apply Z.pow_pos_nonneg; lia).
    set (m := (x mod 2 ^ mw)%Z) in *. set (e := ((x / 2 ^ mw) mod 2 ^ ew)%Z).
    unfold Zeq_bool. rewrite <- !Z.eqb_compare.
    destruct (Z.eqb_spec e 0) as [E0|E0].
    - destruct m as [|p|p]; cbn -[Z.pow Z.ltb]; try reflexivity; try lia.
      unfold prec. replace (mw + 1 - 1)%Z with mw by lia.
      destruct (Z.ltb_spec (Z.pos p) (2 ^ mw)); [reflexivity | lia].
    - destruct (Z.eqb_spec e (2 ^ ew - 1)) as [E1|E1].
      + destruct m as [|p|p]; cbn; try reflexivity; lia.
      + destruct (m + 2 ^ mw)%Z as [|q|q] eqn:Eq; try lia; cbn -[Z.pow Z.ltb].
        unfold prec; replace (mw + 1 - 1)%Z with mw by lia.
        destruct (Z.ltb_spec (Z.pos q) (2 ^ mw)); [lia | reflexivity].
  Qed.
End Flocq.

(* ---------- binary32 / binary64 against Flocq's decoding ---------- *)
Lemma ieee_class_Z_N ew e f :
  ieee_class_Z (Z.of_N ew) (Z.of_N e) (Z.of_N f) = ieee_class ew e f.
Proof.
  unfold ieee_class_Z, ieee_class.
  assert (H2 : (2 ^ Z.of_N ew - 1 = Z.of_N (2 ^ ew - 1))%Z).
  { assert (0 < 2 ^ ew) by (apply N.neq_0_lt_0, N.pow_nonzero; discriminate).
    rewrite N2Z.inj_sub, N2Z.inj_pow by lia. reflexivity. }
  rewrite H2.
  destruct (Z.eqb_spec (Z.of_N e) 0), (N.eqb_spec e 0); try lia;
  destruct (Z.eqb_spec (Z.of_N f) 0), (N.eqb_spec f 0); try lia;
  destruct (Z.eqb_spec (Z.of_N e) (Z.of_N (2 ^ ew - 1))), (N.eqb_spec e (2 ^ ew - 1)); try lia; reflexivity.
Qed.

Lemma fields_Z fb eb i :
  ((Z.of_N i / 2 ^ Z.of_N fb) mod 2 ^ Z.of_N eb = Z.of_N (field_exp fb eb i) /\
   Z.of_N i mod 2 ^ Z.of_N fb = Z.of_N (field_frac fb i))%Z.
Proof.
  unfold field_exp, field_frac.
  now rewrite !N2Z.inj_mod, N2Z.inj_div, !N2Z.inj_pow.
Qed.

Lemma flocq_class32_ieee i : flocq_class32 i = ieee_class32 i.
Proof.
  unfold flocq_class32, b32_of_bits.
  etransitivity; [exact (class_of_bits 23 8 eq_refl eq_refl eq_refl (Z.of_N i)) |].
  destruct (fields_Z 23 8 i) as [He Hf]. change (Z.of_N 23) with 23%Z in *. change (Z.of_N 8) with 8%Z in *. rewrite He, Hf.
  exact (ieee_class_Z_N 8 _ _).
Qed.
Lemma flocq_class64_ieee i : flocq_class64 i = ieee_class64 i.
Proof.
  unfold flocq_class64, b64_of_bits.
  etransitivity; [exact (class_of_bits 52 11 eq_refl eq_refl eq_refl (Z.of_N i)) |].
  destruct (fields_Z 52 11 i) as [He Hf]. change (Z.of_N 52) with 52%Z in *. change (Z.of_N 11) with 11%Z in *. rewrite He, Hf.
  exact (ieee_class_Z_N 11 _ _).
Qed.

(* ---------- x87 double extended ---------- *)
Lemma m_split m : m = 2 ^ 63 * x87_J m + x87_f m.
Proof. unfold x87_J, x87_f. apply N.div_mod. discriminate. Qed.

Lemma fpclassify80_x87 m se : fpclassify80 m se = x87_class_bits m se.
Proof.
  unfold fpclassify80, x87_class_bits, x87_class.
  change 0x7fff with (N.ones 15). rewrite N.land_ones. fold (x87_e se).
  rewrite N.shiftr_div_pow2. fold (x87_J m).
  change (shl 64 m 1) with (shl (1 + 63) m 1). rewrite shl_zero_iff. fold (x87_f m).
  change (2 ^ 15 - 1) with (N.ones 15).
  destruct (N.eqb_spec (x87_e se) 0) as [E|E]; destruct (N.eqb_spec (x87_J m) 0) as [J|J]; cbn [andb]; try reflexivity.
  - rewrite (m_split m) at 1. rewrite J, N.mul_0_r, N.add_0_l. reflexivity.
  - rewrite E. reflexivity.
Qed.

(* glibc's word-wise classification is the same function *)
Lemma land_pow2 a n : N.land a (2 ^ n) = if N.testbit a n then 2 ^ n else 0.
Proof.
  apply N.bits_inj. intro k. rewrite N.land_spec, N.pow2_bits_eqb.
  destruct (N.eqb_spec n k) as [->|Hk].
  - destruct (N.testbit a k); [now rewrite N.pow2_bits_true | now rewrite N.bits_0].
  - rewrite andb_false_r. destruct (N.testbit a n); [now rewrite N.pow2_bits_false | now rewrite N.bits_0].
Qed.

Lemma hx_msb m : m < 2 ^ 64 -> (N.land (m / 2 ^ 32) 0x80000000 =? 0) = (x87_J m =? 0).
Proof.
  intro Hm. change 0x80000000 with (2 ^ 31). rewrite land_pow2, N.div_pow2_bits.
  change (31 + 32) with 63.
  assert (HJ : x87_J m < 2).
  { unfold x87_J. apply N.div_lt_upper_bound; [discriminate | exact Hm]. }
  pose proof (N.testbit_spec' m 63) as Hb. fold (x87_J m) in Hb.
  rewrite (N.mod_small _ _ HJ) in Hb.
  destruct (N.testbit m 63); cbn in Hb; rewrite <- Hb; reflexivity.
Qed.

Lemma f_words m : x87_f m = m mod 2 ^ 32 + 2 ^ 32 * ((m / 2 ^ 32) mod 2 ^ 31).
Proof. unfold x87_f. change (2 ^ 63) with (2 ^ 32 * 2 ^ 31). apply N.mod_mul_r; discriminate. Qed.

Lemma lor_zero a b : (N.lor a b =? 0) = (a =? 0) && (b =? 0).
Proof.
  destruct (N.eqb_spec (N.lor a b) 0) as [E|E].
  - apply N.lor_eq_0_iff in E. destruct E as [-> ->]. reflexivity.
  - destruct (N.eqb_spec a 0) as [->|]; [|reflexivity].
    destruct (N.eqb_spec b 0) as [->|]; [|reflexivity]. now elim E.
Qed.

Lemma glibc_matches m se : m < 2 ^ 64 -> glibc_of_bits m se = fpclassify80 m se.
Proof.
  intro Hm. rewrite fpclassify80_x87.
  unfold glibc_of_bits, glibc_fpclassifyl, x87_class_bits, x87_class.
  change 0x7fff with (N.ones 15). rewrite N.land_ones. fold (x87_e se).
  rewrite (hx_msb m Hm). change 0x7fffffff with (N.ones 31). rewrite N.land_ones.
  change (2 ^ 15 - 1) with (N.ones 15).
  rewrite !lor_zero.
  assert (Hf : (x87_f m =? 0) = (((m / 2 ^ 32) mod 2 ^ 31 =? 0) && (m mod 2 ^ 32 =? 0))).
  { rewrite f_words. change (2 ^ 32 * ((m / 2 ^ 32) mod 2 ^ 31)) with (4294967296 * ((m / 2 ^ 32) mod 2 ^ 31)).
    set (hi := (m / 2 ^ 32) mod 2 ^ 31). set (lo := m mod 2 ^ 32). clearbody hi lo. clear Hm.
    destruct (N.eqb_spec hi 0) as [->|A]; destruct (N.eqb_spec lo 0) as [->|B]; cbn [andb];
      apply N.eqb_neq || reflexivity; lia. }
  rewrite Hf.
  assert (Hz : (m / 2 ^ 32 =? 0) = ((x87_J m =? 0) && ((m / 2 ^ 32) mod 2 ^ 31 =? 0))).
  { unfold x87_J. change (2 ^ 63) with (2 ^ 32 * 2 ^ 31). rewrite <- N.div_div by discriminate.
    rewrite (N.div_mod (m / 2 ^ 32) (2 ^ 31)) at 1 by discriminate.
    change (2 ^ 31 * (m / 2 ^ 32 / 2 ^ 31)) with (2147483648 * (m / 2 ^ 32 / 2 ^ 31)).
    set (hi := m / 2 ^ 32 / 2 ^ 31). set (lo := (m / 2 ^ 32) mod 2 ^ 31). clearbody hi lo. clear Hm Hf.
    destruct (N.eqb_spec hi 0) as [->|A]; destruct (N.eqb_spec lo 0) as [->|B]; cbn [andb];
      apply N.eqb_neq || reflexivity; lia. }
  rewrite Hz.
  destruct (N.eqb_spec (x87_e se) 0) as [E|E]; [rewrite E; change (0 =? N.ones 15) with false|];
  destruct (x87_J m =? 0), ((m / 2 ^ 32) mod 2 ^ 31 =? 0), (m mod 2 ^ 32 =? 0); reflexivity.
Qed.

(* the class depends only on (exponent field, J, fraction = 0 ?) *)
Lemma fpclassify80_depends m se m' se' :
  x87_e se = x87_e se' -> x87_J m = x87_J m' -> (x87_f m =? 0) = (x87_f m' =? 0) ->
  fpclassify80 m se = fpclassify80 m' se'.
Proof. intros He HJ Hf. rewrite !fpclassify80_x87. unfold x87_class_bits, x87_class. now rewrite He, HJ, Hf. Qed.

// C16: driver running the REAL tfel::math::ieee754::{fpclassify,isnan,isfinite} of /repo (built at -O2 and at -Ofast).
//   driver f32 [glibc]    : all 2^32 float patterns; per (sign, exponent): observation at fraction 0 and the SET of
//                           observations over the 2^23-1 non-zero fractions (bit mask over observation codes)
//   driver pat64 < hex    : one 64-bit pattern per line -> observation
//   driver pat80 < "se m" : x87 image (16-bit sign/exponent, 64-bit significand) -> observation
//   driver cexpr          : the constexpr overloads evaluated by the compiler on special patterns
// observation = class name, isnan, isfinite (+ glibc's __fpclassify{f,,l}, called as an external library function: it is
// not a builtin, so -ffast-math cannot fold it)
#include <bit>
#include <cmath>
#include <cstdint>
#include <cstdio>
#include <cstring>
#include <cstdlib>
#include <math.h>
#include "TFEL/Math/General/IEEE754.hxx"

namespace ie = tfel::math::ieee754;

static int cls_index(int c) {
  switch (c) {
    case FP_NAN: return 0;
    case FP_INFINITE: return 1;
    case FP_ZERO: return 2;
    case FP_SUBNORMAL: return 3;
    case FP_NORMAL: return 4;
  }
  return 5;  // not a class
}
static const char* cname[6] = {"nan", "inf", "zero", "sub", "normal", "other"};

// observation code: class index (0..5) + 6*isnan + 12*isfinite  (< 24)
template <typename T>
static inline unsigned observe(const T x) {
  return unsigned(cls_index(ie::fpclassify(x))) + 6u * unsigned(ie::isnan(x)) + 12u * unsigned(ie::isfinite(x));
}

template <std::uint32_t P>
struct CE32 {
  static constexpr int c = ie::fpclassify(std::bit_cast<float>(P));
  static constexpr bool n = ie::isnan(std::bit_cast<float>(P));
  static constexpr bool f = ie::isfinite(std::bit_cast<float>(P));
};
template <std::uint64_t P>
struct CE64 {
  static constexpr int c = ie::fpclassify(std::bit_cast<double>(P));
  static constexpr bool n = ie::isnan(std::bit_cast<double>(P));
  static constexpr bool f = ie::isfinite(std::bit_cast<double>(P));
};
template <std::uint32_t P>
static void ce32() {
  std::printf("CE32 %08x %s %d %d\n", P, cname[cls_index(CE32<P>::c)], int(CE32<P>::n), int(CE32<P>::f));
}
template <std::uint64_t P>
static void ce64() {
  std::printf("CE64 %016llx %s %d %d\n", (unsigned long long)P, cname[cls_index(CE64<P>::c)], int(CE64<P>::n), int(CE64<P>::f));
}

int main(int argc, char** argv) {
  if (argc >= 2 && !std::strcmp(argv[1], "f32")) {
    const bool glibc = argc >= 3;
    for (std::uint32_t s = 0; s < 2; ++s)
      for (std::uint32_t e = 0; e < 256; ++e) {
        const std::uint32_t base = (s << 31) | (e << 23);
        const unsigned o0 = observe(std::bit_cast<float>(base));
        std::uint32_t mask = 0, gmask = 0;
        for (std::uint32_t f = 1; f < (1u << 23); ++f) mask |= 1u << observe(std::bit_cast<float>(base | f));
        int g0 = -1;
        if (glibc) {
          g0 = cls_index(::__fpclassifyf(std::bit_cast<float>(base)));
          for (std::uint32_t f = 1; f < (1u << 23); ++f) gmask |= 1u << cls_index(::__fpclassifyf(std::bit_cast<float>(base | f)));
        }
        std::printf("F32 %u %u %u %u %d %u\n", s, e, o0, mask, g0, gmask);
      }
    return 0;
  }
  if (argc >= 2 && !std::strcmp(argv[1], "pat32")) {
    char buf[256];
    while (std::fgets(buf, sizeof buf, stdin)) {
      const std::uint32_t p = std::uint32_t(std::strtoul(buf, nullptr, 16));
      const float x = std::bit_cast<float>(p);
      std::printf("P32 %08x %u %d\n", p, observe(x), cls_index(::__fpclassifyf(x)));
    }
    return 0;
  }
  if (argc >= 2 && !std::strcmp(argv[1], "pat64")) {
    char buf[256];
    while (std::fgets(buf, sizeof buf, stdin)) {
      const std::uint64_t p = std::strtoull(buf, nullptr, 16);
      const double x = std::bit_cast<double>(p);
      std::printf("P64 %016llx %u %d\n", (unsigned long long)p, observe(x), cls_index(::__fpclassify(x)));
    }
    return 0;
  }
  if (argc >= 2 && !std::strcmp(argv[1], "pat80")) {
    static_assert(sizeof(long double) == 16 && LDBL_MANT_DIG == 64, "x87 long double expected");
    char buf[256];
    while (std::fgets(buf, sizeof buf, stdin)) {
      char* end = nullptr;
      const std::uint16_t se = std::uint16_t(std::strtoul(buf, &end, 16));
      const std::uint64_t m = std::strtoull(end, nullptr, 16);
      unsigned char raw[16] = {0};
      std::memcpy(raw, &m, 8);
      std::memcpy(raw + 8, &se, 2);
      long double x;
      std::memcpy(&x, raw, 16);
      std::printf("P80 %04x %016llx %u %d\n", unsigned(se), (unsigned long long)m, observe(x), cls_index(::__fpclassifyl(x)));
    }
    return 0;
  }
  if (argc >= 2 && !std::strcmp(argv[1], "cexpr")) {
    ce32<0x00000000u>(); ce32<0x80000000u>(); ce32<0x00000001u>(); ce32<0x807fffffu>(); ce32<0x00800000u>();
    ce32<0x3f800000u>(); ce32<0x7f7fffffu>(); ce32<0x7f800000u>(); ce32<0xff800000u>(); ce32<0x7f800001u>();
    ce32<0x7fc00000u>(); ce32<0xffffffffu>(); ce32<0x7f000000u>(); ce32<0x00400000u>();
    ce64<0x0000000000000000ull>(); ce64<0x8000000000000000ull>(); ce64<0x0000000000000001ull>();
    ce64<0x800fffffffffffffull>(); ce64<0x0010000000000000ull>(); ce64<0x3ff0000000000000ull>();
    ce64<0x7fefffffffffffffull>(); ce64<0x7ff0000000000000ull>(); ce64<0xfff0000000000000ull>();
    ce64<0x7ff0000000000001ull>(); ce64<0x7ff8000000000000ull>(); ce64<0xffffffffffffffffull>();
    ce64<0x7fe0000000000000ull>(); ce64<0x0008000000000000ull>();
    return 0;
  }
  std::fprintf(stderr, "usage: driver f32 [glibc] | pat32 | pat64 | pat80 | cexpr\n");
  return 2;
}

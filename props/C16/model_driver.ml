(* C16: runs the extracted Gallina model on bit patterns read from stdin.
   lines: "32 <hex>" | "64 <hex>" | "80 <se hex> <m hex>"; output: the line, observation code of the model
   (class index + 6*isnan + 12*isfinite), class index of the SPEC (ieee_class / x87 table), and for 80 the class
   index of the glibc word-wise model. *)
open C16_model

let push_bit n b = match n with
  | N0 -> if b then Npos XH else N0
  | Npos p -> Npos (if b then XI p else XO p)

let n_of_hex (s : string) : n =
  let r = ref N0 in
  String.iter (fun ch ->
    let v = match ch with
      | '0'..'9' -> Char.code ch - 48
      | 'a'..'f' -> Char.code ch - 87
      | 'A'..'F' -> Char.code ch - 55
      | _ -> failwith "hex" in
    for k = 3 downto 0 do r := push_bit !r ((v lsr k) land 1 = 1) done) s;
  !r

let idx = function FpNan -> 0 | FpInfinite -> 1 | FpZero -> 2 | FpSubnormal -> 3 | FpNormal -> 4
let b2i b = if b then 1 else 0

let () =
  try
    while true do
      let l = input_line stdin in
      match String.split_on_char ' ' (String.trim l) with
      | ["32"; h] ->
        let i = n_of_hex h in
        Printf.printf "M32 %s %d %d\n" h (idx (fpclassify32 i) + 6 * b2i (isnan32 i) + 12 * b2i (isfinite32 i)) (idx (ieee_class32 i))
      | ["64"; h] ->
        let i = n_of_hex h in
        Printf.printf "M64 %s %d %d\n" h (idx (fpclassify64 i) + 6 * b2i (isnan64 i) + 12 * b2i (isfinite64 i)) (idx (ieee_class64 i))
      | ["80"; hs; hm] ->
        let se = n_of_hex hs and m = n_of_hex hm in
        Printf.printf "M80 %s %s %d %d %d\n" hs hm
          (idx (fpclassify80 m se) + 6 * b2i (isnan80 m se) + 12 * b2i (isfinite80 m se))
          (idx (x87_class_bits m se)) (idx (glibc_of_bits m se))
      | _ -> ()
    done
  with End_of_file -> ()

(* C26 -- Jedynak 2015 is odd (true once the odd-degree terms use |y|: finding F7) *)
From Coq Require Import Reals List Lra.
From C26 Require Import C26Spec C26_gen.
Local Open Scope R_scope.
Lemma jedynak_odd : odd jedynak_f.
Proof. intro y. unfold jedynak_f. cbv zeta. rewrite !Rabs_Ropp. replace (- y * - y) with (y * y) by ring. unfold Rdiv. ring. Qed.

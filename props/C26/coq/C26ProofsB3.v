(* C26 -- Bergstrom-Boyce 1998: accuracy, 1/(1-y) branch *)
From Coq Require Import Reals List Lra Psatz.
From Coquelicot Require Import Coquelicot.
From Interval Require Import Tactic.
From VLib Require Import RealExtra.
From C26 Require Import C26Spec C26_gen C26Proofs C26ProofsB.
Import ListNotations.
Local Open Scope R_scope.

Lemma bb_inverts_high : inverts bbf (8414 / 10000) (95 / 100) (1 / 1000).
Proof.
  intros y Hy. unfold bbf, bb_f. cbv zeta. rewrite (Rabs_right y) by lra.
  destruct (Rlt_dec y _) as [Hs|Hb]; [exfalso; lra|]. destruct (Rlt_dec 0 y); [|exfalso; lra]. cbv iota beta.
  unfold Lang. interval with (i_bisect y, i_taylor y, i_degree 6, i_depth 30, i_prec 50).
Qed.

(* C26 -- monotonicity from the proved positive derivative (mean value theorem), and Bergstrom-Boyce's second component is the
   derivative on each branch *)
From Coq Require Import Reals List Lra Psatz.
From Coquelicot Require Import Coquelicot.
From Interval Require Import Tactic.
From VLib Require Import RealExtra.
From C26 Require Import C26Spec C26_gen C26Proofs C26ProofsB.
Import ListNotations.
Local Open Scope R_scope.

(* a function with a positive derivative on a convex set is strictly increasing on it *)
Lemma increasing_of_positive_derivative (f df : R -> R) (dom : R -> Prop) :
  (forall a b x, dom a -> dom b -> a <= x <= b -> dom x) ->
  (forall x, dom x -> is_derive f x (df x) /\ 0 < df x) ->
  strictly_increasing_on f dom.
Proof.
  intros Hc Hd x y Hx Hy Hxy.
  destruct (MVT_gen f x y df) as [c [Hc1 Hc2]].
  - intros t Ht. rewrite Rmin_left, Rmax_right in Ht by lra. apply Hd. apply (Hc x y); auto; lra.
  - intros t Ht. rewrite Rmin_left, Rmax_right in Ht by lra. apply continuity_pt_filterlim.
    apply (ex_derive_continuous f t). exists (df t). apply Hd. apply (Hc x y); auto; lra.
  - rewrite Rmin_left, Rmax_right in Hc1 by lra.
    assert (0 < df c) by (apply Hd; apply (Hc x y); auto).
    assert (0 < df c * (y - x)) by (apply Rmult_lt_0_compat; lra). lra.
Qed.

Lemma vd_increasing (f : R -> R) (fd : R -> list R) (dom : R -> Prop) : (forall a b x, dom a -> dom b -> a <= x <= b -> dom x) ->
  value_and_derivative f fd dom -> strictly_increasing_on f dom.
Proof.
  intros Hc H. apply (increasing_of_positive_derivative f (fun y => nth 1 (fd y) 0) dom Hc).
  intros x Hx. destruct (H x Hx) as [_ [H1 H2]]. split; assumption.
Qed.

Lemma open_unit_convex a b x : open_unit a -> open_unit b -> a <= x <= b -> open_unit x.
Proof. unfold open_unit. intros; lra. Qed.

Lemma cohen_increasing : strictly_increasing_on cohen_f open_unit.
Proof. exact (vd_increasing _ _ _ open_unit_convex cohen_vd). Qed.
Lemma morch_increasing : strictly_increasing_on morch_f open_unit.
Proof. exact (vd_increasing _ _ _ open_unit_convex morch_vd). Qed.

(* ---- Bergstrom-Boyce: the second component is the derivative, on each branch *)
Definition bb_switch := 84136 / 100000.
Definition bb_tan_branch (y : R) : Prop := Rabs y < bb_switch.
Definition bb_pos_branch (y : R) : Prop := bb_switch < y < 1.
Definition bb_neg_branch (y : R) : Prop := -1 < y < - bb_switch.

Ltac bb_local y d :=
  exists (mkposreal d ltac:(lra)); intros t Ht; unfold ball in Ht; simpl in Ht; unfold AbsRing_ball, abs, minus, plus, opp in Ht; simpl in Ht;
  apply Rabs_def2 in Ht; destruct Ht.

Lemma bb_vd_tan : value_and_derivative bbf bbfd bb_tan_branch.
Proof.
  intros y Hy. unfold bb_tan_branch, bb_switch in Hy. destruct (bb_value_and_positive y) as [Hv Hp].
  { apply Rabs_def2 in Hy. lra. }
  split; [exact Hv|split; [|exact Hp]].
  apply Rabs_def2 in Hy. destruct Hy as [Hy1 Hy2].
  eapply is_derive_ext_loc.
  - exists (mkposreal (Rmin (84136 / 100000 - y) (y + 84136 / 100000)) ltac:(apply Rmin_glb_lt; lra)).
    intros t Ht. unfold ball in Ht; simpl in Ht; unfold AbsRing_ball, abs, minus, plus, opp in Ht; simpl in Ht.
    apply Rabs_def2 in Ht. destruct Ht as [Ht1 Ht2].
    pose proof (Rmin_l (84136 / 100000 - y) (y + 84136 / 100000)). pose proof (Rmin_r (84136 / 100000 - y) (y + 84136 / 100000)).
    unfold bbf, bb_f. cbv zeta. destruct (Rlt_dec (Rabs t) _) as [Hs|Hb]; [|exfalso; apply Hb; apply Rabs_def1; lra].
    cbv iota beta. reflexivity.
  - unfold bbfd, bb_fd. cbv zeta. destruct (Rlt_dec (Rabs y) _) as [Hs|Hb]; [|exfalso; apply Hb; apply Rabs_def1; lra].
    cbv iota beta. cbn [nth].
    unfold tan. match goal with |- context [cos ?a] => assert (Hc : cos a <> 0) by (apply Rgt_not_eq; interval) end.
    auto_derive; [ad_side|].
    field_simplify_eq; [|ad_side].
    match goal with |- context [cos ?a] => pose proof (sin2_cos2 a) as E; unfold Rsqr in E; nra end.
Qed.

Lemma bb_vd_pos : value_and_derivative bbf bbfd bb_pos_branch.
Proof.
  intros y Hy. unfold bb_pos_branch, bb_switch in Hy. destruct (bb_value_and_positive y) as [Hv Hp]; [lra|].
  split; [exact Hv|split; [|exact Hp]]. destruct Hy as [Hy1 Hy2].
  eapply is_derive_ext_loc.
  - exists (mkposreal (y - 84136 / 100000) ltac:(lra)).
    intros t Ht. unfold ball in Ht; simpl in Ht; unfold AbsRing_ball, abs, minus, plus, opp in Ht; simpl in Ht.
    apply Rabs_def2 in Ht. destruct Ht as [Ht1 Ht2].
    unfold bbf, bb_f. cbv zeta.
    destruct (Rlt_dec (Rabs t) _) as [Hs|Hb]; [exfalso; apply Rabs_def2 in Hs; lra|]. destruct (Rlt_dec 0 t); [|exfalso; lra].
    cbv iota beta. reflexivity.
  - unfold bbfd, bb_fd. cbv zeta. rewrite (Rabs_right y) by lra.
    destruct (Rlt_dec y _) as [Hs|Hb]; [exfalso; lra|]. destruct (Rlt_dec 0 y); [|exfalso; lra].
    cbv iota beta. cbn [nth]. auto_derive; [ad_side|]. field; ad_side.
Qed.

Lemma bb_vd_neg : value_and_derivative bbf bbfd bb_neg_branch.
Proof.
  intros y Hy. unfold bb_neg_branch, bb_switch in Hy. destruct (bb_value_and_positive y) as [Hv Hp]; [lra|].
  split; [exact Hv|split; [|exact Hp]]. destruct Hy as [Hy1 Hy2].
  eapply is_derive_ext_loc.
  - exists (mkposreal (- (84136 / 100000) - y) ltac:(lra)).
    intros t Ht. unfold ball in Ht; simpl in Ht; unfold AbsRing_ball, abs, minus, plus, opp in Ht; simpl in Ht.
    apply Rabs_def2 in Ht. destruct Ht as [Ht1 Ht2].
    unfold bbf, bb_f. cbv zeta.
    destruct (Rlt_dec (Rabs t) _) as [Hs|Hb]; [exfalso; apply Rabs_def2 in Hs; lra|]. destruct (Rlt_dec 0 t); [exfalso; lra|].
    cbv iota beta. reflexivity.
  - unfold bbfd, bb_fd. cbv zeta. rewrite (Rabs_left y) by lra.
    destruct (Rlt_dec (- y) _) as [Hs|Hb]; [exfalso; lra|]. destruct (Rlt_dec 0 y); [exfalso; lra|].
    cbv iota beta. cbn [nth]. auto_derive; [ad_side|]. field; ad_side.
Qed.

Lemma bb_tan_convex a b x : bb_tan_branch a -> bb_tan_branch b -> a <= x <= b -> bb_tan_branch x.
Proof. unfold bb_tan_branch. intros Ha Hb Hx. apply Rabs_def2 in Ha. apply Rabs_def2 in Hb. apply Rabs_def1; lra. Qed.
Lemma bb_pos_convex a b x : bb_pos_branch a -> bb_pos_branch b -> a <= x <= b -> bb_pos_branch x.
Proof. unfold bb_pos_branch. intros; lra. Qed.
Lemma bb_neg_convex a b x : bb_neg_branch a -> bb_neg_branch b -> a <= x <= b -> bb_neg_branch x.
Proof. unfold bb_neg_branch. intros; lra. Qed.

Lemma bb_increasing_branches : strictly_increasing_on bbf bb_tan_branch /\ strictly_increasing_on bbf bb_pos_branch /\ strictly_increasing_on bbf bb_neg_branch.
Proof.
  split; [|split].
  - exact (vd_increasing _ _ _ bb_tan_convex bb_vd_tan).
  - exact (vd_increasing _ _ _ bb_pos_convex bb_vd_pos).
  - exact (vd_increasing _ _ _ bb_neg_convex bb_vd_neg).
Qed.

(* the whole of (-1,1): explicit form of the two outer branches, bounds separating the three branches (upward jump at the
   switching points) *)
Lemma bbf_outer_pos y : bb_switch <= y < 1 -> bbf y = 1 / (1 - y).
Proof.
  unfold bb_switch. intros Hy. unfold bbf, bb_f. cbv zeta.
  destruct (Rlt_dec (Rabs y) _) as [Hs|Hb]; [exfalso; apply Rabs_def2 in Hs; lra|]. destruct (Rlt_dec 0 y); [|exfalso; lra].
  cbv iota beta. first [reflexivity | field; lra].
Qed.
Lemma bbf_outer_neg y : -1 < y <= - bb_switch -> bbf y = - (1 / (1 + y)).
Proof.
  unfold bb_switch. intros Hy. unfold bbf, bb_f. cbv zeta.
  destruct (Rlt_dec (Rabs y) _) as [Hs|Hb]; [exfalso; apply Rabs_def2 in Hs; lra|]. destruct (Rlt_dec 0 y); [exfalso; lra|].
  cbv iota beta. field; lra.
Qed.
Lemma bbf_tan_bounds y : bb_tan_branch y -> - (6303 / 1000) < bbf y < 6303 / 1000.
Proof.
  unfold bb_tan_branch, bb_switch. intros Hy. unfold bbf, bb_f. cbv zeta.
  destruct (Rlt_dec (Rabs y) _) as [Hs|Hb]; [|exfalso; lra]. cbv iota beta. apply Rabs_def2 in Hy. destruct Hy.
  split; interval.
Qed.
Lemma inv_lt a b : 0 < a -> a < b -> 1 / b < 1 / a.
Proof. intros Ha Hab. unfold Rdiv. rewrite !Rmult_1_l. apply Rinv_lt_contravar; [apply Rmult_lt_0_compat|]; lra. Qed.

Lemma bb_increasing : strictly_increasing_on bbf open_unit.
Proof.
  intros x y [Hx1 Hx2] [Hy1 Hy2] Hxy. destruct bb_increasing_branches as [HT _].
  assert (Hsw : bb_switch = 84136 / 100000) by reflexivity.
  destruct (Rlt_dec (Rabs x) bb_switch) as [Tx|NTx]; destruct (Rlt_dec (Rabs y) bb_switch) as [Ty|NTy].
  - apply HT; assumption.
  - pose proof (bbf_tan_bounds x Tx). apply Rabs_def2 in Tx.
    assert (Py : bb_switch <= y < 1). { split; [|lra]. destruct (Rle_dec bb_switch y); [assumption|]. exfalso; apply NTy; apply Rabs_def1; lra. }
    rewrite (bbf_outer_pos y Py). assert (1 / (1 - bb_switch) <= 1 / (1 - y)).
    { destruct (Req_dec y bb_switch) as [E|E]; [subst; lra|]. left. apply inv_lt; lra. }
    assert (6303 / 1000 < 1 / (1 - bb_switch)) by (rewrite Hsw; interval). lra.
  - pose proof (bbf_tan_bounds y Ty). apply Rabs_def2 in Ty.
    assert (Nx : -1 < x <= - bb_switch). { split; [lra|]. destruct (Rle_dec x (- bb_switch)); [assumption|]. exfalso; apply NTx; apply Rabs_def1; lra. }
    rewrite (bbf_outer_neg x Nx). assert (1 / (1 - bb_switch) <= 1 / (1 + x)).
    { destruct (Req_dec x (- bb_switch)) as [E|E]; [subst; right; f_equal; ring|]. left. apply inv_lt; lra. }
    assert (6303 / 1000 < 1 / (1 - bb_switch)) by (rewrite Hsw; interval). lra.
  - assert (Cx : x <= - bb_switch \/ bb_switch <= x).
    { destruct (Rle_dec x (- bb_switch)); [left; assumption|]. destruct (Rle_dec bb_switch x); [right; assumption|]. exfalso; apply NTx; apply Rabs_def1; lra. }
    assert (Cy : y <= - bb_switch \/ bb_switch <= y).
    { destruct (Rle_dec y (- bb_switch)); [left; assumption|]. destruct (Rle_dec bb_switch y); [right; assumption|]. exfalso; apply NTy; apply Rabs_def1; lra. }
    destruct Cx as [Cx|Cx]; destruct Cy as [Cy|Cy]; try (exfalso; lra).
    + rewrite bbf_outer_neg, bbf_outer_neg by lra. apply Ropp_lt_contravar. apply inv_lt; lra.
    + rewrite bbf_outer_neg, bbf_outer_pos by lra.
      assert (0 < 1 / (1 + x)) by (apply Rdiv_lt_0_compat; lra). assert (0 < 1 / (1 - y)) by (apply Rdiv_lt_0_compat; lra). lra.
    + rewrite bbf_outer_pos, bbf_outer_pos by lra. apply inv_lt; lra.
Qed.

(* C26 -- property theorems (statements only): monotonicity from the proved positive derivative (mean value theorem), and
   Bergstrom-Boyce: the second component of AndDerivative is the derivative on each branch *)
From Coq Require Import Reals List.
From Coquelicot Require Import Coquelicot.
From C26 Require Import C26Spec C26_gen C26Proofs C26ProofsB C26ProofsM.
Import ListNotations.
Local Open Scope R_scope.

Theorem C26_cohen_increasing : strictly_increasing_on cohen_f open_unit.
Proof. exact cohen_increasing. Qed.
Print Assumptions C26_cohen_increasing.
Theorem C26_morch_increasing : strictly_increasing_on morch_f open_unit.
Proof. exact morch_increasing. Qed.
Print Assumptions C26_morch_increasing.

(* Bergstrom-Boyce: (value, derivative, positive) on |y| < 0.84136, on 0.84136 < y < 1 and on -1 < y < -0.84136 *)
Theorem C26_bergstromboyce_derivative_tan_branch : value_and_derivative bbf bbfd (fun y => Rabs y < 84136 / 100000).
Proof. exact bb_vd_tan. Qed.
Print Assumptions C26_bergstromboyce_derivative_tan_branch.
Theorem C26_bergstromboyce_derivative_positive_branch : value_and_derivative bbf bbfd (fun y => 84136 / 100000 < y < 1).
Proof. exact bb_vd_pos. Qed.
Print Assumptions C26_bergstromboyce_derivative_positive_branch.
Theorem C26_bergstromboyce_derivative_negative_branch : value_and_derivative bbf bbfd (fun y => -1 < y < - (84136 / 100000)).
Proof. exact bb_vd_neg. Qed.
Print Assumptions C26_bergstromboyce_derivative_negative_branch.
(* increasing on the whole of (-1,1): on each branch by the derivative, across the switching points because the jump is upwards *)
Theorem C26_bergstromboyce_increasing : strictly_increasing_on bbf open_unit.
Proof. exact bb_increasing. Qed.
Print Assumptions C26_bergstromboyce_increasing.

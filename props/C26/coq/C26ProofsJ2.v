(* C26 -- Jedynak 2015: accuracy on the positive side *)
From Coq Require Import Reals List Lra Psatz.
From Coquelicot Require Import Coquelicot.
From Interval Require Import Tactic.
From VLib Require Import RealExtra.
From C26 Require Import C26Spec C26_gen C26Proofs.
Import ListNotations.
Local Open Scope R_scope.

Lemma jedynak_inverts : inverts jedynak_f (1 / 20) (19 / 20) (5 / 1000).
Proof.
  intros y Hy. unfold jedynak_f, Lang. cbv zeta. try rewrite !(Rabs_right y) by lra.
  interval with (i_bisect y, i_taylor y, i_degree 6, i_depth 24, i_prec 50).
Qed.

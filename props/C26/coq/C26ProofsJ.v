(* C26 -- Jedynak 2015: value, derivative, positive slope (valid for both spellings of the code: y or |y| in the odd-degree terms) *)
From Coq Require Import Reals List Lra Psatz.
From Coquelicot Require Import Coquelicot.
From Interval Require Import Tactic.
From VLib Require Import RealExtra.
From C26 Require Import C26Spec C26_gen C26Proofs.
Import ListNotations.
Local Open Scope R_scope.

Definition jedynak_dom (y : R) : Prop := 0 < y <= 999 / 1000.

Lemma jedynak_vd : value_and_derivative jedynak_f (fun y => jedynak_fd y) jedynak_dom.
Proof.
  intros y [H1 H2]. unfold jedynak_fd, jedynak_f. cbv zeta. cbn [nth].
  try rewrite !(Rabs_right y) by lra.
  match goal with |- context [1 / ?D] => assert (HD : 0 < D) by interval end.
  split; [|split].
  - field; ad_side.
  - auto_derive; [try rewrite !(Rabs_right y) by lra; ad_side|]. try rewrite !(Rabs_right y) by lra. try (replace (sign y) with 1 by (symmetry; apply sign_eq_1; lra)). field; ad_side.
  - interval with (i_bisect y, i_depth 12).
Qed.


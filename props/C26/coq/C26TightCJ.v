(* C26 -- tight accuracy bounds |L(f(y)) - y| <= tol, piecewise, about 1%% above the measured maxima (Interval, Taylor models + bisection): Cohen, Jedynak *)
From Coq Require Import Reals List Lra Psatz.
From Coquelicot Require Import Coquelicot.
From Interval Require Import Tactic.
From VLib Require Import RealExtra.
From C26 Require Import C26Spec C26_gen C26Proofs.
Import ListNotations.
Local Open Scope R_scope.

Lemma cohen_tight_1 : inverts cohen_f (1/1000) (1/20) (1/100000).
Proof.
  intros y Hy. unfold cohen_f, Lang. cbv zeta. try rewrite !(Rabs_right y) by lra.
  interval with (i_bisect y, i_taylor y, i_degree 6, i_depth 24, i_prec 60).
Qed.

Lemma cohen_tight_2 : inverts cohen_f (1/20) (1/2) (702/100000).
Proof.
  intros y Hy. unfold cohen_f, Lang. cbv zeta. try rewrite !(Rabs_right y) by lra.
  interval with (i_bisect y, i_taylor y, i_degree 6, i_depth 24, i_prec 50).
Qed.

Lemma cohen_tight_3 : inverts cohen_f (1/2) (19/20) (1178/100000).
Proof.
  intros y Hy. unfold cohen_f, Lang. cbv zeta. try rewrite !(Rabs_right y) by lra.
  interval with (i_bisect y, i_taylor y, i_degree 6, i_depth 24, i_prec 50).
Qed.

Lemma jedynak_tight_1 : inverts jedynak_f (1/1000) (1/20) (55/1000000).
Proof.
  intros y Hy. unfold jedynak_f, Lang. cbv zeta. try rewrite !(Rabs_right y) by lra.
  interval with (i_bisect y, i_taylor y, i_degree 6, i_depth 24, i_prec 60).
Qed.

Lemma jedynak_tight_2 : inverts jedynak_f (1/20) (1/5) (148/1000000).
Proof.
  intros y Hy. unfold jedynak_f, Lang. cbv zeta. try rewrite !(Rabs_right y) by lra.
  interval with (i_bisect y, i_taylor y, i_degree 6, i_depth 24, i_prec 50).
Qed.

Lemma jedynak_tight_3 : inverts jedynak_f (1/5) (19/20) (272/100000).
Proof.
  intros y Hy. unfold jedynak_f, Lang. cbv zeta. try rewrite !(Rabs_right y) by lra.
  interval with (i_bisect y, i_taylor y, i_degree 6, i_depth 24, i_prec 50).
Qed.

Lemma cohen_tight :
  inverts cohen_f (1/1000) (1/20) (1/100000) /\
  inverts cohen_f (1/20) (1/2) (702/100000) /\
  inverts cohen_f (1/2) (19/20) (1178/100000).
Proof. exact (conj cohen_tight_1 (conj cohen_tight_2 cohen_tight_3)). Qed.
Lemma jedynak_tight :
  inverts jedynak_f (1/1000) (1/20) (55/1000000) /\
  inverts jedynak_f (1/20) (1/5) (148/1000000) /\
  inverts jedynak_f (1/5) (19/20) (272/100000).
Proof. exact (conj jedynak_tight_1 (conj jedynak_tight_2 jedynak_tight_3)). Qed.

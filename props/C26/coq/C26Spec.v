(* C26 -- specification, written independently of the code: the Langevin function and what is asked of an approximation
   of its inverse. *)
From Coq Require Import Reals List Lra.
From Coquelicot Require Import Coquelicot.
Import ListNotations.
Local Open Scope R_scope.

(* L(x) = coth x - 1/x *)
Definition Lang (x : R) : R := (exp x + exp (- x)) / (exp x - exp (- x)) - 1 / x.

Definition odd (f : R -> R) : Prop := forall y, f (- y) = - f y.
(* L(f(y)) = y within tol on [lo, hi] *)
Definition inverts (f : R -> R) (lo hi tol : R) : Prop := forall y, lo <= y <= hi -> Rabs (Lang (f y) - y) <= tol.
(* fd y = [f y; f' y] where f' y is the derivative of f at y, and f' y > 0, for y in the domain *)
Definition value_and_derivative (f : R -> R) (fd : R -> list R) (dom : R -> Prop) : Prop :=
  forall y, dom y -> nth 0 (fd y) 0 = f y /\ is_derive f y (nth 1 (fd y) 0) /\ 0 < nth 1 (fd y) 0.
Definition open_unit (y : R) : Prop := -1 < y < 1.
(* strictly increasing on a set *)
Definition strictly_increasing_on (f : R -> R) (dom : R -> Prop) : Prop := forall x y, dom x -> dom y -> x < y -> f x < f y.

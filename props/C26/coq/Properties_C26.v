(* C26 -- property theorems (statements only) over the definitions regenerated from /repo *)
From Coq Require Import Reals List.
From Coquelicot Require Import Coquelicot.
From C26 Require Import C26Spec C26_gen C26Proofs C26ProofsJ C26ProofsJ2 C26ProofsB C26ProofsB2 C26ProofsB3 C26ProofsJOdd C26ProofsM C26ProofsJM.
Import ListNotations.
Local Open Scope R_scope.

(* Cohen 1991 *)
Theorem C26_cohen_odd : odd cohen_f.
Proof. exact cohen_odd. Qed.
Print Assumptions C26_cohen_odd.
Theorem C26_cohen_derivative_increasing : value_and_derivative cohen_f (fun y => cohen_fd y) open_unit.
Proof. exact cohen_vd. Qed.
Print Assumptions C26_cohen_derivative_increasing.
Theorem C26_cohen_inverts_Langevin : inverts cohen_f (1 / 20) (19 / 20) (2 / 100).
Proof. exact cohen_inverts. Qed.
Print Assumptions C26_cohen_inverts_Langevin.

(* Morch 2022 = Kuhn-Grun 1942 (Taylor expansion of order 19) *)
Theorem C26_kuhngrun_is_morch : forall y, kuhngrun_f y = morch_f y /\ kuhngrun_fd y = morch_fd y.
Proof. exact kuhngrun_is_morch. Qed.
Print Assumptions C26_kuhngrun_is_morch.
Theorem C26_morch_odd : odd morch_f.
Proof. exact morch_odd. Qed.
Print Assumptions C26_morch_odd.
Theorem C26_morch_derivative_increasing : value_and_derivative morch_f (fun y => morch_fd y) open_unit.
Proof. exact morch_vd. Qed.
Print Assumptions C26_morch_derivative_increasing.
Theorem C26_morch_inverts_Langevin : inverts morch_f (1 / 20) (4 / 5) (4 / 1000).
Proof. exact morch_inverts. Qed.
Print Assumptions C26_morch_inverts_Langevin.

(* Jedynak 2015, on the positive side *)
Theorem C26_jedynak_derivative_increasing : value_and_derivative jedynak_f (fun y => jedynak_fd y) (fun y => 0 < y <= 999 / 1000).
Proof. exact jedynak_vd. Qed.
Print Assumptions C26_jedynak_derivative_increasing.
Theorem C26_jedynak_inverts_Langevin : inverts jedynak_f (1 / 20) (19 / 20) (5 / 1000).
Proof. exact jedynak_inverts. Qed.
Print Assumptions C26_jedynak_inverts_Langevin.

(* Bergstrom-Boyce 1998 *)
Theorem C26_bergstromboyce_odd : odd bbf.
Proof. exact bb_odd. Qed.
Print Assumptions C26_bergstromboyce_odd.
Theorem C26_bergstromboyce_value_and_positive_slope : forall y, -1 < y < 1 -> nth 0 (bbfd y) 0 = bbf y /\ 0 < nth 1 (bbfd y) 0.
Proof. exact bb_value_and_positive. Qed.
Print Assumptions C26_bergstromboyce_value_and_positive_slope.
Theorem C26_bergstromboyce_inverts_Langevin : inverts bbf (1 / 20) (84 / 100) (1 / 1000) /\ inverts bbf (8414 / 10000) (95 / 100) (1 / 1000).
Proof. exact (conj bb_inverts_low bb_inverts_high). Qed.
Print Assumptions C26_bergstromboyce_inverts_Langevin.

(* Jedynak 2015 is odd: with the other theorems it inverts the Langevin function on [-19/20,-1/20] as well *)
Theorem C26_jedynak_odd : odd jedynak_f.
Proof. exact jedynak_odd. Qed.
Print Assumptions C26_jedynak_odd.

(* Jedynak 2015: derivative on the negative side and strictly increasing on [-0.999, 0.999] (mean value theorem on each side, oddness, f(0) = 0) *)
Theorem C26_jedynak_derivative_negative_side : value_and_derivative jedynak_f (fun y => jedynak_fd y) (fun y => - (999 / 1000) <= y < 0).
Proof. exact jedynak_vd_neg. Qed.
Print Assumptions C26_jedynak_derivative_negative_side.
Theorem C26_jedynak_increasing : strictly_increasing_on jedynak_f (fun y => - (999 / 1000) <= y <= 999 / 1000).
Proof. exact jedynak_increasing. Qed.
Print Assumptions C26_jedynak_increasing.

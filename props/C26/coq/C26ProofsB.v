(* C26 -- Bergstrom-Boyce 1998 (decision tree with three leaves): oddness, value, positive slope *)
From Coq Require Import Reals List Lra Psatz.
From Coquelicot Require Import Coquelicot.
From Interval Require Import Tactic.
From VLib Require Import RealExtra.
From C26 Require Import C26Spec C26_gen C26Proofs.
Import ListNotations.
Local Open Scope R_scope.

Definition bbf (y : R) : R := match bb_f y with Some [v] => v | _ => 0 end.
Definition bbfd (y : R) : list R := match bb_fd y with Some l => l | _ => [] end.

Lemma inv_opp D : 1 / (- D) = - (1 / D).
Proof. destruct (Req_dec D 0) as [E|E]. subst. rewrite Ropp_0. unfold Rdiv. rewrite Rinv_0. ring. field. assumption. Qed.
Ltac opp_den := match goal with |- 1 / ?A = - (1 / ?B) => replace A with (- B) by ring; apply inv_opp end.

Lemma bb_odd : odd bbf.
Proof.
  intro y. unfold bbf, bb_f. cbv zeta. rewrite Rabs_Ropp.
  destruct (Rlt_dec (Rabs y) _) as [Hs|Hb].
  - cbv iota beta. match goal with |- context [tan (?c * - y)] => replace (c * - y) with (- (c * y)) by field end. rewrite tan_neg. field.
  - destruct (Rlt_dec 0 (- y)), (Rlt_dec 0 y); cbv iota beta; try (exfalso; lra).
    + opp_den.
    + opp_den.
    + exfalso. assert (y = 0) by lra. subst. rewrite Rabs_R0 in Hb. lra.
Qed.

(* the AndDerivative variant returns the same value, and a positive second component *)
Lemma bb_value_and_positive y : -1 < y < 1 -> nth 0 (bbfd y) 0 = bbf y /\ 0 < nth 1 (bbfd y) 0.
Proof.
  intros [H1 H2]. unfold bbfd, bbf, bb_fd, bb_f. cbv zeta.
  destruct (Rlt_dec (Rabs y) _) as [Hs|Hb]; [|destruct (Rlt_dec 0 y)]; cbv iota beta; cbn [nth]; (split; [first [reflexivity | ring | (field; ad_side)]|]).
  - apply Rabs_def2 in Hs. destruct Hs. interval.
  - assert (0 < 1 / (1 - y)) by (apply Rdiv_lt_0_compat; lra). first [nra | (apply Rdiv_lt_0_compat; nra)].
  - assert (1 / (-1 - y) < 0) by (apply Ropp_lt_cancel; replace (- (1 / (-1 - y))) with (1 / (1 + y)) by (field; ad_side); rewrite Ropp_0; apply Rdiv_lt_0_compat; lra). first [nra | (apply Rdiv_lt_0_compat; nra)].
Qed.


(* C26 -- property theorems (statements only): tight piecewise accuracy |L(f(y)) - y| <= tol, about 1% above the measured maxima *)
From Coq Require Import Reals List.
From Coquelicot Require Import Coquelicot.
From C26 Require Import C26Spec C26_gen C26Proofs C26ProofsB C26TightCJ C26TightMB.
Import ListNotations.
Local Open Scope R_scope.

Theorem C26_cohen_accuracy_tight :
  inverts cohen_f (1/1000) (1/20) (1/100000) /\
  inverts cohen_f (1/20) (1/2) (702/100000) /\
  inverts cohen_f (1/2) (19/20) (1178/100000).
Proof. exact cohen_tight. Qed.
Print Assumptions C26_cohen_accuracy_tight.
Theorem C26_jedynak_accuracy_tight :
  inverts jedynak_f (1/1000) (1/20) (55/1000000) /\
  inverts jedynak_f (1/20) (1/5) (148/1000000) /\
  inverts jedynak_f (1/5) (19/20) (272/100000).
Proof. exact jedynak_tight. Qed.
Print Assumptions C26_jedynak_accuracy_tight.
Theorem C26_morch_accuracy_tight :
  inverts morch_f (1/5) (1/2) (27/100000000) /\
  inverts morch_f (1/2) (4/5) (208/100000) /\
  inverts morch_f (4/5) (19/20) (261/10000).
Proof. exact morch_tight. Qed.
Print Assumptions C26_morch_accuracy_tight.
Theorem C26_bergstromboyce_accuracy_tight :
  inverts bbf (1/1000) (1/20) (32/1000000) /\
  inverts bbf (1/20) (84135/100000) (22/100000) /\
  inverts bbf (84136/100000) (19/20) (7/1000000).
Proof. exact bb_tight. Qed.
Print Assumptions C26_bergstromboyce_accuracy_tight.

(* C26 -- the pinned Jedynak 2015 approximation is not odd (finding F7): f(-1/2) + f(1/2) > 0.2 *)
From Coq Require Import Reals List Lra.
From Interval Require Import Tactic.
From C26 Require Import C26Spec C26_gen.
Local Open Scope R_scope.
Lemma jedynak_not_odd : ~ odd jedynak_f.
Proof.
  intro H. specialize (H (1 / 2)).
  assert (E : jedynak_f (- (1 / 2)) + jedynak_f (1 / 2) > 2 / 10) by (unfold jedynak_f; cbv zeta; interval).
  lra.
Qed.
(* and it is off by more than 4e-2 at y = -1/2 *)
Lemma jedynak_negative_side_inaccurate : Rabs (Lang (jedynak_f (- (1 / 2))) - - (1 / 2)) > 4 / 100.
Proof. unfold jedynak_f, Lang. cbv zeta. interval. Qed.

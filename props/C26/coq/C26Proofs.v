(* C26 -- proofs over the definitions regenerated from /repo (C26_gen.v); only shape-independent tactics
   (field, lra/nra, auto_derive, interval). *)
From Coq Require Import Reals List Lra Psatz.
From Coquelicot Require Import Coquelicot.
From Interval Require Import Tactic.
From VLib Require Import RealExtra.
From C26 Require Import C26Spec C26_gen.
Import ListNotations.
Local Open Scope R_scope.

Ltac ad_side := repeat split; first [assumption | exact I | lra | nra | (intro; lra) | (intro; nra)].

(* ---- Cohen *)
Lemma cohen_odd : odd cohen_f.
Proof. intro y. unfold cohen_f. cbv zeta. replace (- y * - y) with (y * y) by ring. unfold Rdiv. ring. Qed.

Lemma cohen_vd : value_and_derivative cohen_f (fun y => cohen_fd y) open_unit.
Proof.
  intros y [H1 H2]. assert (Hp : 0 < 1 - y * y) by nra. assert (Hd : 1 - y * y <> 0) by lra.
  unfold cohen_fd, cohen_f. cbv zeta. cbn [nth]. split; [|split].
  - field; ad_side.
  - auto_derive; [ad_side|]. field; ad_side.
  - assert (0 < 1 - y * y) by nra. assert (0 < 1 / (1 - y * y)) by (apply Rdiv_lt_0_compat; lra).
    assert (0 < y * y * (y * y) + 3) by nra.
    apply Rmult_lt_0_compat; [apply Rmult_lt_0_compat|]; assumption.
Qed.

Lemma cohen_inverts : inverts cohen_f (1 / 20) (19 / 20) (2 / 100).
Proof.
  intros y Hy. unfold cohen_f, Lang. cbv zeta.
  interval with (i_bisect y, i_taylor y, i_degree 6, i_depth 24, i_prec 50).
Qed.

(* ---- Morch / Kuhn-Grun: odd polynomial of degree 19 with positive coefficients *)
Lemma morch_odd : odd morch_f.
Proof. intro y. unfold morch_f. cbv zeta. replace ((- y) ^ 2) with (y ^ 2) by ring. ring. Qed.
Lemma kuhngrun_is_morch y : kuhngrun_f y = morch_f y /\ kuhngrun_fd y = morch_fd y.
Proof. split; reflexivity. Qed.

Lemma morch_vd : value_and_derivative morch_f (fun y => morch_fd y) open_unit.
Proof.
  intros y [H1 H2]. unfold morch_fd, morch_f. cbv zeta. cbn [nth]. split; [first [reflexivity | ring | field]|split].
  - auto_derive; [ad_side|]. field.
  - interval with (i_bisect y, i_depth 8).
Qed.

Lemma morch_inverts : inverts morch_f (1 / 20) (4 / 5) (4 / 1000).
Proof.
  intros y Hy. unfold morch_f, Lang. cbv zeta.
  interval with (i_bisect y, i_taylor y, i_degree 6, i_depth 24, i_prec 50).
Qed.

(* C26 -- thorough tier: towards the pole (Cohen and Jedynak on [0.95, 0.99]) *)
From Coq Require Import Reals List Lra Psatz.
From Coquelicot Require Import Coquelicot.
From Interval Require Import Tactic.
From VLib Require Import RealExtra.
From C26 Require Import C26Spec C26_gen C26Proofs C26ProofsB.
Import ListNotations.
Local Open Scope R_scope.

Lemma cohen_tight_4 : inverts cohen_f (19/20) (99/100) (108/100000).
Proof.
  intros y Hy. unfold cohen_f, Lang. cbv zeta. try rewrite !(Rabs_right y) by lra.
  interval with (i_bisect y, i_taylor y, i_degree 3, i_depth 30, i_prec 60).
Qed.

Lemma jedynak_tight_4 : inverts jedynak_f (19/20) (99/100) (53/100000).
Proof.
  intros y Hy. unfold jedynak_f, Lang. cbv zeta. try rewrite !(Rabs_right y) by lra.
  interval with (i_bisect y, i_taylor y, i_degree 3, i_depth 30, i_prec 60).
Qed.

Lemma bb_tight_4 : inverts bbf (19/20) (99/100) (7/1000000).
Proof.
  intros y Hy. unfold bbf, bb_f. cbv zeta. rewrite (Rabs_right y) by lra.
  destruct (Rlt_dec y _) as [Hs|Hb]; [exfalso; lra|]. destruct (Rlt_dec 0 y); [|exfalso; lra]. cbv iota beta.
  unfold Lang. interval with (i_bisect y, i_taylor y, i_degree 3, i_depth 30, i_prec 60).
Qed.

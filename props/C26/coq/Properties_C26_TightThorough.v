(* C26 -- property theorems (statements only): tight piecewise accuracy |L(f(y)) - y| <= tol, about 1% above the measured maxima (thorough tier: towards 0 and towards the pole) *)
From Coq Require Import Reals List.
From Coquelicot Require Import Coquelicot.
From C26 Require Import C26Spec C26_gen C26Proofs C26ProofsB C26TightS1 C26TightS2.
Import ListNotations.
Local Open Scope R_scope.

Theorem C26_cohen_accuracy_near_zero :
  inverts cohen_f (1/1000000) (1/1000) (1/10000000).
Proof. exact cohen_tight_0. Qed.
Print Assumptions C26_cohen_accuracy_near_zero.
Theorem C26_morch_accuracy_near_zero :
  inverts morch_f (1/1000) (1/5) (1/1000000000000).
Proof. exact morch_tight_1. Qed.
Print Assumptions C26_morch_accuracy_near_zero.
Theorem C26_cohen_accuracy_near_pole :
  inverts cohen_f (19/20) (99/100) (108/100000).
Proof. exact cohen_tight_4. Qed.
Print Assumptions C26_cohen_accuracy_near_pole.
Theorem C26_jedynak_accuracy_near_pole :
  inverts jedynak_f (19/20) (99/100) (53/100000).
Proof. exact jedynak_tight_4. Qed.
Print Assumptions C26_jedynak_accuracy_near_pole.
Theorem C26_bergstromboyce_accuracy_near_pole :
  inverts bbf (19/20) (99/100) (7/1000000).
Proof. exact bb_tight_4. Qed.
Print Assumptions C26_bergstromboyce_accuracy_near_pole.

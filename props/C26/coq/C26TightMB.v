(* C26 -- tight accuracy bounds, piecewise: Morch/Kuhn-Grun (Taylor expansion: accurate to 2.7e-7 up to 0.5, degrades beyond 0.8), Bergstrom-Boyce *)
From Coq Require Import Reals List Lra Psatz.
From Coquelicot Require Import Coquelicot.
From Interval Require Import Tactic.
From VLib Require Import RealExtra.
From C26 Require Import C26Spec C26_gen C26Proofs C26ProofsB.
Import ListNotations.
Local Open Scope R_scope.

Lemma morch_tight_2 : inverts morch_f (1/5) (1/2) (27/100000000).
Proof.
  intros y Hy. unfold morch_f, Lang. cbv zeta. try rewrite !(Rabs_right y) by lra.
  interval with (i_bisect y, i_taylor y, i_degree 8, i_depth 24, i_prec 60).
Qed.

Lemma morch_tight_3 : inverts morch_f (1/2) (4/5) (208/100000).
Proof.
  intros y Hy. unfold morch_f, Lang. cbv zeta. try rewrite !(Rabs_right y) by lra.
  interval with (i_bisect y, i_taylor y, i_degree 6, i_depth 24, i_prec 50).
Qed.

Lemma morch_tight_4 : inverts morch_f (4/5) (19/20) (261/10000).
Proof.
  intros y Hy. unfold morch_f, Lang. cbv zeta. try rewrite !(Rabs_right y) by lra.
  interval with (i_bisect y, i_taylor y, i_degree 6, i_depth 24, i_prec 50).
Qed.

Lemma bb_tight_1 : inverts bbf (1/1000) (1/20) (32/1000000).
Proof.
  intros y Hy. unfold bbf, bb_f. cbv zeta. rewrite (Rabs_right y) by lra.
  destruct (Rlt_dec y _) as [Hs|Hb]; [|exfalso; lra]. cbv iota beta.
  unfold Lang. interval with (i_bisect y, i_taylor y, i_degree 10, i_depth 24, i_prec 80).
Qed.

Lemma bb_tight_2 : inverts bbf (1/20) (84135/100000) (22/100000).
Proof.
  intros y Hy. unfold bbf, bb_f. cbv zeta. rewrite (Rabs_right y) by lra.
  destruct (Rlt_dec y _) as [Hs|Hb]; [|exfalso; lra]. cbv iota beta.
  unfold Lang. interval with (i_bisect y, i_taylor y, i_degree 6, i_depth 24, i_prec 50).
Qed.

Lemma bb_tight_3 : inverts bbf (84136/100000) (19/20) (7/1000000).
Proof.
  intros y Hy. unfold bbf, bb_f. cbv zeta. rewrite (Rabs_right y) by lra.
  destruct (Rlt_dec y _) as [Hs|Hb]; [exfalso; lra|]. destruct (Rlt_dec 0 y); [|exfalso; lra]. cbv iota beta.
  unfold Lang. interval with (i_bisect y, i_taylor y, i_degree 6, i_depth 30, i_prec 50).
Qed.

Lemma morch_tight :
  inverts morch_f (1/5) (1/2) (27/100000000) /\
  inverts morch_f (1/2) (4/5) (208/100000) /\
  inverts morch_f (4/5) (19/20) (261/10000).
Proof. exact (conj morch_tight_2 (conj morch_tight_3 morch_tight_4)). Qed.
Lemma bb_tight :
  inverts bbf (1/1000) (1/20) (32/1000000) /\
  inverts bbf (1/20) (84135/100000) (22/100000) /\
  inverts bbf (84136/100000) (19/20) (7/1000000).
Proof. exact (conj bb_tight_1 (conj bb_tight_2 bb_tight_3)). Qed.

(* C26 -- thorough tier: towards 0 (Cohen down to 1e-6, Morch 1e-12 on [0.001, 0.2]) *)
From Coq Require Import Reals List Lra Psatz.
From Coquelicot Require Import Coquelicot.
From Interval Require Import Tactic.
From VLib Require Import RealExtra.
From C26 Require Import C26Spec C26_gen C26Proofs.
Import ListNotations.
Local Open Scope R_scope.

Lemma cohen_tight_0 : inverts cohen_f (1/1000000) (1/1000) (1/10000000).
Proof.
  intros y Hy. unfold cohen_f, Lang. cbv zeta. try rewrite !(Rabs_right y) by lra.
  interval with (i_bisect y, i_taylor y, i_degree 6, i_depth 24, i_prec 80).
Qed.

Lemma morch_tight_1 : inverts morch_f (1/1000) (1/5) (1/1000000000000).
Proof.
  intros y Hy. unfold morch_f, Lang. cbv zeta. try rewrite !(Rabs_right y) by lra.
  interval with (i_bisect y, i_taylor y, i_degree 8, i_depth 24, i_prec 90).
Qed.


(* C26 -- Jedynak 2015: derivative on the negative side, strictly increasing on [-0.999, 0.999] (uses oddness: after the fix of F7) *)
From Coq Require Import Reals List Lra Psatz.
From Coquelicot Require Import Coquelicot.
From Interval Require Import Tactic.
From VLib Require Import RealExtra.
From C26 Require Import C26Spec C26_gen C26Proofs C26ProofsJ C26ProofsB C26ProofsM C26ProofsJOdd.
Import ListNotations.
Local Open Scope R_scope.

Definition jedynak_dom_neg (y : R) : Prop := - (999 / 1000) <= y < 0.
Definition jedynak_dom_full (y : R) : Prop := - (999 / 1000) <= y <= 999 / 1000.

Lemma jedynak_vd_neg : value_and_derivative jedynak_f (fun y => jedynak_fd y) jedynak_dom_neg.
Proof.
  intros y [H1 H2]. unfold jedynak_fd, jedynak_f. cbv zeta. cbn [nth].
  rewrite !(Rabs_left y) by lra.
  match goal with |- context [1 / ?D] => assert (HD : 0 < D) by interval end.
  split; [|split].
  - field; ad_side.
  - auto_derive; [rewrite !(Rabs_left y) by lra; ad_side|]. rewrite !(Rabs_left y) by lra.
    replace (sign y) with (-1) by (symmetry; apply sign_eq_m1; lra). field; ad_side.
  - interval with (i_bisect y, i_depth 12).
Qed.

Lemma jedynak_pos y : jedynak_dom y -> 0 < jedynak_f y.
Proof.
  intros [H1 H2]. unfold jedynak_f. cbv zeta. rewrite !(Rabs_right y) by lra.
  match goal with |- 0 < ?e => replace e with (y * (e / y)) by (field; repeat split; first [lra | interval | (apply Rgt_not_eq; interval) | (apply Rlt_not_eq; interval)]) end.
  apply Rmult_lt_0_compat; [lra|]. field_simplify; [interval | repeat split; first [lra | interval | (apply Rgt_not_eq; interval) | (apply Rlt_not_eq; interval)]].
Qed.

Lemma jedynak_0 : jedynak_f 0 = 0.
Proof. unfold jedynak_f. cbv zeta. rewrite Rabs_R0. field; try lra; try (apply Rgt_not_eq; interval). Qed.

Lemma jedynak_dom_convex a b x : jedynak_dom a -> jedynak_dom b -> a <= x <= b -> jedynak_dom x.
Proof. unfold jedynak_dom. intros; lra. Qed.

Lemma jedynak_increasing : strictly_increasing_on jedynak_f jedynak_dom_full.
Proof.
  pose proof (vd_increasing _ _ _ jedynak_dom_convex jedynak_vd) as HP.
  intros x y [Hx1 Hx2] [Hy1 Hy2] Hxy.
  destruct (Rlt_dec 0 x) as [Px|Nx].
  - apply HP; unfold jedynak_dom; lra.
  - destruct (Rlt_dec y 0) as [Ny|Py].
    + replace x with (- - x) by ring. replace y with (- - y) by ring. rewrite (jedynak_odd (- x)), (jedynak_odd (- y)).
      apply Ropp_lt_contravar. apply HP; unfold jedynak_dom; lra.
    + assert (Hx : jedynak_f x <= 0).
      { destruct (Req_dec x 0) as [E|E]; [rewrite E, jedynak_0; lra|]. replace x with (- - x) by ring. rewrite jedynak_odd.
        assert (0 < jedynak_f (- x)) by (apply jedynak_pos; unfold jedynak_dom; lra). lra. }
      destruct (Req_dec y 0) as [E|E].
      * rewrite E, jedynak_0. destruct (Req_dec x 0) as [E2|E2]; [lra|]. replace x with (- - x) by ring. rewrite jedynak_odd.
        assert (0 < jedynak_f (- x)) by (apply jedynak_pos; unfold jedynak_dom; lra). lra.
      * assert (0 < jedynak_f y) by (apply jedynak_pos; unfold jedynak_dom; lra). lra.
Qed.

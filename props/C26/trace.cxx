// C26: tracer (engine S) and driver for the inverse Langevin approximations of /repo.
//   trace gen <out.v> <seed> : Coq definitions of every approximation (and AndDerivative variant) + Sym-vs-double agreement
//   trace run                : reads y per line, prints value and derivative of every approximation (double)
#include "symtfel.hxx"
#include <utility>
#include <cstring>
#include <iostream>
#include "TFEL/Material/InverseLangevinFunction.hxx"

using namespace symv;
using namespace tfel::material;
using A = InverseLangevinFunctionApproximations;

template <typename T>
std::vector<T> all(const T y, const int which) {
  switch (which) {
    case 0: return {computeApproximateInverseLangevinFunction<A::COHEN_1991>(y)};
    case 1: { auto p = computeApproximateInverseLangevinFunctionAndDerivative<A::COHEN_1991>(y); return {p.first, p.second}; }
    case 2: return {computeApproximateInverseLangevinFunction<A::JEDYNAK_2015>(y)};
    case 3: { auto p = computeApproximateInverseLangevinFunctionAndDerivative<A::JEDYNAK_2015>(y); return {p.first, p.second}; }
    case 4: return {computeApproximateInverseLangevinFunction<A::MORCH_2022>(y)};
    case 5: { auto p = computeApproximateInverseLangevinFunctionAndDerivative<A::MORCH_2022>(y); return {p.first, p.second}; }
    case 6: return {computeApproximateInverseLangevinFunction<A::KUHN_GRUN_1942>(y)};
    case 7: { auto p = computeApproximateInverseLangevinFunctionAndDerivative<A::KUHN_GRUN_1942>(y); return {p.first, p.second}; }
    case 8: return {computeBergstromBoyce1998ApproximateInverseLangevinFunction(y)};
    default: { auto p = computeBergstromBoyce1998ApproximateInverseLangevinFunctionAndDerivative(y); return {p.first, p.second}; }
  }
}
static const char* names[10] = {"cohen_f", "cohen_fd", "jedynak_f", "jedynak_fd", "morch_f", "morch_fd", "kuhngrun_f", "kuhngrun_fd", "bb_f", "bb_fd"};

int main(int argc, char** argv) {
  if (argc >= 4 && !std::strcmp(argv[1], "gen")) {
    Trace tr("C26_gen");
    Rng rng(std::strtoull(argv[3], nullptr, 10));
    Sym y = var("y");
    for (int w = 0; w < 10; ++w) {
      std::vector<Leaf> leaves;
      if (w < 8) {
        auto o = all<Sym>(y, w);
        if (o.size() == 1) tr.def1(names[w], {y}, o[0]);
        else tr.def(names[w], {y}, o);
        Leaf L;
        L.out = o;
        leaves.push_back(L);
      } else {
        leaves = tr.def_paths(names[w], {y}, [&] { return all<Sym>(y, w); });
      }
      for (int i = 0; i < 200; ++i) {
        double v = rng.range(-0.99, 0.99);
        if (i < 6) v = (i % 2 ? -1 : 1) * (i < 2 ? 0.5 : (i < 4 ? 0.84 : 0.9));
        Env env{{"y", v}};
        std::vector<long double> r;
        std::string err;
        bool ok = eval_leaves(leaves, env, r, &err) && err.empty();
        auto d = all<double>(v, w);
        ok = ok && d.size() == r.size();
        for (size_t k = 0; ok && k < d.size(); ++k) ok = close(r[k], d[k], 1.0L, 1e-11L);
        std::printf("%s %s y=%.17g\n", ok ? "AGREE" : "AGREE-FAIL", names[w], v);
      }
    }
    tr.write(argv[2]);
    return 0;
  }
  if (argc >= 2 && !std::strcmp(argv[1], "run")) {
    double v;
    while (std::cin >> v) {
      std::printf("Y %.17g", v);
      for (int w = 0; w < 10; ++w)
        for (double x : all<double>(v, w)) std::printf(" %.17g", x);
      std::printf("\n");
    }
    return 0;
  }
  return 2;
}

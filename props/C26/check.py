"""C26 -- inverse Langevin approximations invert the Langevin function.
Engine S: every approximation (and its AndDerivative variant) is traced from /repo on every run; Coq proves oddness, that
the second component is the derivative and is positive (Coquelicot auto_derive), and |L(f(y)) - y| <= tol on stated intervals
(Interval).  The real code is run on a grid and judged by an independent statement of the property."""
import math, os, threading
from vlib import guarded_main

NAMES = ["cohen", "jedynak", "morch", "kuhngrun", "bb"]
# accuracy asked of each approximation on 0.02 <= |y| <= ymax: the maxima proved in coq/C26Tight*.v (1% above the measured ones) + rounding slack
ACC = {"cohen": (0.95, 1.178e-2 + 1e-9), "jedynak": (0.95, 2.72e-3 + 1e-9), "morch": (0.8, 2.08e-3 + 1e-9), "kuhngrun": (0.8, 2.08e-3 + 1e-9), "bb": (0.95, 2.2e-4 + 1e-9)}


def lang(x):
    return 1 / math.tanh(x) - 1 / x


def main(c):
    exe = c.cxx("trace", ["trace.cxx"])
    gen = os.path.join(c.work, "coq", "C26_gen.v")
    os.makedirs(os.path.dirname(gen), exist_ok=True)
    rc, out, err = c.run([exe, "gen", gen, str(c.seed)])
    if rc != 0:
        c.report("trace", "tracer failed: " + (out + err)[-600:], {"stderr": err[-3000:]}, False)
        return
    nag = 0
    for l in out.splitlines():
        if l.startswith("AGREE-FAIL"):
            c.report("agree:" + l[:200], "traced definition and double instantiation disagree: " + l, {"line": l}, True)
        elif l.startswith("AGREE"):
            nag += 1
            c.count(1)
    c.coverage["traces_validated_against_impl"] = nag
    c.trusted("engine S tracer (cxx/sym/sym.hxx), g++ template instantiation of the approximations with Sym (decimal constants become exact rationals "
              "equal to the double literals; products of constants are folded exactly)",
              "agreement traced definitions (long double evaluation) vs double instantiation on %d seeded inputs, tol 1e-11" % nag)

    # ---- run the real code on a grid of (-1,1) and judge it
    ys = []
    n = c.pick(400, 4000)
    for i in range(1, n):
        ys.append(round(-0.96 + 1.92 * i / n, 6))
    special = [0.5, 0.84, 0.8414, 0.02, 0.9]
    ys = special + sorted(set(y for y in ys if abs(y) >= 0.02 and abs(y) not in special and y > 0))   # special points are judged first
    inp = "\n".join(repr(y) for y in ys + [-y for y in ys]) + "\n"
    rc, out, err = c.run([exe, "run"], input=inp)
    vals = {}
    for l in out.splitlines():
        t = l.split()
        y = float(t[1])
        v = [float(x) for x in t[2:]]
        # layout: for each of cohen, jedynak, morch, kuhngrun, bb: f, f(again), df
        vals[y] = {nm: (v[3 * k], v[3 * k + 1], v[3 * k + 2]) for k, nm in enumerate(NAMES)}
    if rc != 0 or len(vals) < len(ys):
        c.report("run", "driver failed: " + err[-500:], {"stderr": err[-3000:]}, False)
        return
    f7_seen = False
    nbad = 0
    h = 1e-6
    for nm in NAMES:
        ymax, tol = ACC[nm]
        first_bad = {}
        for y in ys:
            f, f2, df = vals[y][nm]
            fm = vals[-y][nm][0]
            c.count(1, (nm, y), True)
            why = None
            kind = None
            if abs(f - f2) > 1e-12 * max(1.0, abs(f)):
                why, kind = "AndDerivative returns the value %r, the plain function %r" % (f2, f), "value"
            elif abs(fm + f) > 1e-12 * max(1.0, abs(f)):
                why, kind = "not odd: f(%r) = %r, f(%r) = %r" % (y, f, -y, fm), "odd"
            elif not df > 0:
                why, kind = "derivative %r is not positive" % df, "slope"
            elif not vals[-y][nm][2] > 0:
                why, kind = "derivative at %r is %r: not positive" % (-y, vals[-y][nm][2]), "slope-negative-side"
            elif abs(vals[-y][nm][0] - vals[-y][nm][1]) > 1e-12 * max(1.0, abs(f)):
                why, kind = "AndDerivative at %r returns the value %r, the plain function %r" % (-y, vals[-y][nm][1], vals[-y][nm][0]), "value-negative-side"
            elif abs(y) <= ymax and abs(lang(f) - y) > tol:
                why, kind = "L(f(y)) - y = %.3g exceeds %g" % (lang(f) - y, tol), "accuracy"
            if why:
                nbad += 1
                if kind in first_bad:
                    continue   # one concrete input per approximation and kind of failure is enough
                first_bad[kind] = y
                key = "langevin:%s:%s:%r" % (nm, kind, y)
                if nm == "jedynak" and kind in ("odd", "accuracy"):
                    f7_seen = True
                c.report(key, "%s approximation at y = %r: %s" % (nm, y, why), {"approximation": nm, "y": y, "f": f, "f(-y)": fm, "df": df,
                                                                                 "reason": why, "how": "props/C26/trace.cxx run"}, True)
        # increasing over the whole grid (both signs, across the switching points of Bergstrom-Boyce)
        allys = sorted(vals.keys())
        for ya, yb in zip(allys, allys[1:]):
            c.count(1)
            if not vals[ya][nm][0] < vals[yb][nm][0]:
                nbad += 1
                if "increasing" not in first_bad:
                    first_bad["increasing"] = ya
                    c.report("langevin:%s:increasing:%r" % (nm, ya), "%s approximation is not increasing: f(%r) = %r, f(%r) = %r" % (
                        nm, ya, vals[ya][nm][0], yb, vals[yb][nm][0]), {"approximation": nm, "y": ya, "y_next": yb}, True)
        # derivative against a centred finite difference of the real function (execution only)
    ys_fd = [y for y in ys if abs(abs(y) - 0.84136) > 1e-3][:: max(1, len(ys) // 100)]
    ys_fd = ys_fd + [-y for y in ys_fd]   # both signs: the odd extension has its own code paths
    inp = "\n".join("%r\n%r" % (y - h, y + h) for y in ys_fd) + "\n"
    rc, out2, err = c.run([exe, "run"], input=inp)
    rows = [l.split() for l in out2.splitlines()]
    for i, y in enumerate(ys_fd):
        lo = [float(x) for x in rows[2 * i][2:]]
        hi = [float(x) for x in rows[2 * i + 1][2:]]
        for k, nm in enumerate(NAMES):
            fd = (hi[3 * k] - lo[3 * k]) / (2 * h)
            df = vals[y][nm][2]
            c.count(1)
            if abs(fd - df) > 1e-4 * max(1.0, abs(df)) + 1e-6 * abs(df) ** 2:
                nbad += 1
                if len(c.violations) >= 12:
                    continue
                c.report("langevin:%s:derivative:%r" % (nm, y), "%s approximation at y = %r: AndDerivative returns %r, the finite difference of the value is %r" % (
                    nm, y, df, fd), {"approximation": nm, "y": y, "df": df, "finite_difference": fd}, True)
    if nbad:
        c.notes.append("%d judged points fail the independent statement of the property" % nbad)
    c.coverage["rule"] = ("grid of %d points of 0.02 <= |y| <= 0.96 and their opposites, 5 approximations: value of AndDerivative = value, oddness, positive derivative, increasing along the grid, "
                          "|L(f(y)) - y| <= tol_f for |y| <= ymax_f (%s), derivative vs centred finite difference on a sub-grid" % (len(ys), ACC))

    # ---- proofs
    props, jodd = ("Properties_C26_F7.v", "C26ProofsJNotOdd.v") if f7_seen else ("Properties_C26.v", "C26ProofsJOdd.v")
    if f7_seen:
        c.notes.append("finding F7 observed: oddness of Jedynak's approximation is checked in its refuted form (Properties_C26_F7.v)")
    results = [c.coq([gen, "C26Spec.v", "C26Proofs.v"], timeout=900)]
    if results[0].ok:
        par = {}

        def comp(f):
            par[f] = c.coq([f], timeout=1200)
        # groups of at most 4 parallel coqc; a file only depends on files of earlier groups
        groups = [("C26ProofsJ.v", "C26ProofsJ2.v", "C26ProofsB.v", jodd), ("C26ProofsB2.v", "C26ProofsB3.v", "C26ProofsM.v", "C26TightCJ.v"),
                  ("C26TightMB.v",) + (() if f7_seen else ("C26ProofsJM.v",)) + (() if c.quick() else ("C26TightS1.v", "C26TightS2.v"))]
        nfiles = 0
        for group in groups:
            nfiles += len(group)
            ths = [threading.Thread(target=comp, args=(f,)) for f in group]
            for t in ths:
                t.start()
            for t in ths:
                t.join()
            if not all(par[f].ok for f in group):
                break
        results += list(par.values())
        if all(r.ok for r in par.values()) and len(par) == nfiles:
            propfiles = [props, "Properties_C26_Mono.v", "Properties_C26_Tight.v"] + ([] if c.quick() else ["Properties_C26_TightThorough.v"])
            # one call: in the thorough tier coqchk then runs once over all property files (it re-checks every Interval proof: capped at
            # 10 minutes unless VERIF_COQCHK_TIMEOUT says otherwise; a time-out is recorded in the evidence, it is not a violation)
            os.environ.setdefault("VERIF_COQCHK_TIMEOUT", "600")
            results.append(c.coq(propfiles, timeout=900))
    c.coverage["checker_cmd"] = ("coqc -Q coq/lib VLib -R <scratch> C26 C26_gen.v C26Spec.v C26Proofs.v C26ProofsJ.v C26ProofsJ2.v C26ProofsB.v C26ProofsB2.v C26ProofsB3.v "
                                 "C26ProofsM.v C26ProofsJM.v C26TightCJ.v C26TightMB.v %s%s %s Properties_C26_Mono.v Properties_C26_Tight.v%s (Coq 8.16.1, Coquelicot, Interval)" % (
                                     "" if c.quick() else "C26TightS1.v C26TightS2.v ", jodd, props, "" if c.quick() else " Properties_C26_TightThorough.v"))
    failed = [r for r in results if not r.ok]
    if failed:
        c.coverage["obligations"] = max(c.coverage["obligations"], 25)
        if any(v[3] for v in c.violations):
            c.notes.append("proof obligations failed: %s; concrete failing inputs are reported" % [f[:3] for r in failed for f in r.failed])
        else:
            for r in failed:
                c.coq_failures(r)


guarded_main("C26", main)

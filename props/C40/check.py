"""C40 -- a failed behaviour integration leaves the output state untouched.
Same model (props/C39/coq/C39Model.v), driver and correspondence as C39; here the independent statement is
"return -1 => the byte images of s1.thermodynamic_forces, s1.internal_state_variables, s1.stored_energy and
s1.dissipated_energy are those of before the call", evaluated on every execution of the real templates (failures
injected at every stage: initialise, checkBounds under Strict, a priori / a posteriori time step, integrate, exceptions in
every hook), and the theorems are the C40 ones."""
import os, sys
sys.path.insert(0, os.path.join(os.path.dirname(os.path.abspath(__file__)), "..", "C39"))
from vlib import guarded_main
import gbcommon as G
import gencommon as GC


def main(c):
    if c.replay:
        return G.replay(c, "C40")
    wait_generated = GC.start_stage(c, "C40")
    exe, lines = G.run_driver(c)
    hlines = G.run_driver_h(c) if lines is not None else None
    if lines is None or hlines is None:
        wait_generated()
        return
    findings = []
    nfail = 0
    for l in hlines:
        d, ch, ob = G.parse(l)
        failed = ob["ret"] == "-1"
        nfail += failed
        c.count(1, (d["fn"], d["hyp"], d["tr"], d["K0"], d["K1"], d["K2"], tuple(sorted(ch.items()))), failed)
        for f in G.spec_check_h(d, ch, ob):
            findings.append(f + (d, l))
    for l in lines:
        d, ch, ob = G.parse(l)
        failed = ob["ret"] == "-1"
        nfail += failed
        c.count(1, (d["fn"], d["tr"], d["K0"], d["K1"], d["K2"], d["pol"], tuple(sorted(ch.items()))), failed)
        if failed and nfail % 4001 == 1:
            c.sample({"failed_execution": l[:600]})
        for f in G.spec_check(d, ch, ob):
            findings.append(f + (d, l))
    v = G.detect_variant([(p, k, w) for (p, k, w, _d, _l) in findings])
    c.notes.append("model variant of the working tree: %s; executions returning -1: %d of %d" % (v, nfail, len(lines)))
    seen = set()
    for (p, k, w, d, l) in findings:
        if p != "C40" or k in seen:
            continue
        seen.add(k)
        c.report(k, w, {"line": l, "replay": G.replay_of(d)}, True)
    gen = G.gen_file(c, v, "C40")
    files = G.model_sources(c, "C40") + [gen, "Properties_C40.v"]
    files.append("Properties_C40_integrate_refuted.v" if v["v_late_throw"] else "Properties_C40_integrate.v")
    files.append("Properties_C40_wrappers_refuted.v" if (v["v_late_throw"] or v["v_wrap_nonzero"]) else "Properties_C40_wrappers.v")
    files.append("Properties_C40_hypotheses.v")
    res = c.coq(files, timeout=900)
    if not res.ok:
        if c.violations and any(x[3] for x in c.violations):
            c.notes.append("proof obligations failed: %s; concrete failing inputs reported above" % [f[2] for f in res.failed])
        else:
            c.coq_failures(res)
    g = wait_generated()
    glines = []
    if g is not None:
        glines, gfind, ginfo = g
        c.notes.append("EXECUTION of mfront-generated behaviours through the generated extern \"C\" entry points: %s" % ginfo)
        gseen = set()
        for (p, k, w, l) in gfind:
            if p == "C40" and k not in gseen:
                gseen.add(k)
                c.report(k, w, {"line": l, "how": "props/C39/gdriver.cxx on the behaviours generated from props/C39/mfront/*.in (gencommon.py)"}, True)
    bad, nok = G.correspondence(c, lines + hlines + glines, v, "C40")
    if bad is None:
        return
    c.coverage["traces_validated_against_impl"] = nok
    for b in bad[:5]:
        d, ch, ob = G.parse(b.split(" || ")[0][len("MISMATCH "):])
        key = "model-mismatch:%s:tr=%d:K0=%d:K1=%d:K2=%d:%s" % (d["fn"], d["tr"], d["K0"], d["K1"], d["K2"], d["pol"])
        c.report(key, "the templates do not behave as the model (variant %s) on this script: %s" % (G.variant_bits(v), b[:1500]),
                 {"line": b, "replay": G.replay_of(d)}, True)
    c.trusted("driver props/C39/driver.cxx (mock behaviours, choice oracle, byte comparison of the s1 buffers before/after)",
              "OCaml driver props/C39/driver.ml", "model, specification and proofs shared with C39 (props/C39/coq, re-prefixed copies)",
              "the mock behaviour stands for every behaviour class: the templates only interact with the behaviour through the hooks scripted here")
    c.coverage["rule"] = ("exhaustive over fault sequences: every combination of hook outcomes (initialize false/throws, out of bounds under each "
                          "policy, a priori / a posteriori factor false/throws, integrate FAILURE/throws, computePredictionOperator false/throws, "
                          "exportTangentOperator on an unsupported alternative, computeInternalEnergy / computeDissipatedEnergy / "
                          "computeSpeedOfSound throw) x traits x K[0] encodings x policies, through integrate and the three wrappers (3D, and PlaneStress / "
                          "AxisymmetricalGeneralisedPlaneStress / Axisymmetrical -- thorough: the six non-3D hypotheses -- with coarse images); EXECUTION "
                          "(not exhaustive) of generated behaviours with scripted hook faults; "
                          "non-trivial = the call returned -1")
    c.coverage["exhaustive"] = True


guarded_main("C40", main)

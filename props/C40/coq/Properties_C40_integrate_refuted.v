(* C40 -- on the working tree the theorem is FALSE for mfront::gb::integrate: computeInternalEnergy (or
   computeDissipatedEnergy, computeSpeedOfSound, exportTangentOperator) throwing after exportStateData gives -1 with the
   state written. *)
From Coq Require Import QArith ZArith List Bool.
From C40 Require Import C39Model C39Spec C39Proofs C39_gen.
Local Open Scope Q_scope.

Theorem C40_failure_leaves_state_untouched_refuted :
  exists tr f K0 p rdt0 s, ret (integrate code_variant tr f K0 p rdt0 s) = (-1)%Z /\
                           st_written (integrate code_variant tr f K0 p rdt0 s) = true.
Proof. exact (failure_state_written code_variant eq_refl). Qed.
Print Assumptions C40_failure_leaves_state_untouched_refuted.

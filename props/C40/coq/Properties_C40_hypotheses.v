(* C40 -- the finite strain wrappers in every modelling hypothesis (model [wrap_h] of props/C39/coq/C39Model.v): in plane stress
   a behaviour that does not declare the axial strain / axial deformation gradient is refused with -1 before it is built:
   nothing is written; in every other case the wrapper is [wrap], for which the C40 theorems are stated. *)
From Coq Require Import QArith ZArith List Bool.
From C40 Require Import C39Model C39Spec C39Proofs C39_gen.
Local Open Scope Q_scope.

Theorem C40_plane_stress_refusal_writes_nothing : forall w tr K0 K1 K2 p rdt0 s, needs_axial w K1 = true ->
  let r := wrap_h code_variant w true false tr K0 K1 K2 p rdt0 s in
  w_ret r = (-1)%Z /\ w_called r = false /\ w_flux r = FluxUntouched /\ w_K r = WKUntouched /\ state_untouched (w_inner r).
Proof. exact (wrap_h_refusal code_variant). Qed.
Print Assumptions C40_plane_stress_refusal_writes_nothing.

Theorem C40_wrappers_hypothesis_independent : forall w ps tr K0 K1 K2 p rdt0 s,
  wrap_h code_variant w ps true tr K0 K1 K2 p rdt0 s = wrap code_variant w tr K0 K1 K2 p rdt0 s.
Proof. exact (wrap_h_axial_declared code_variant). Qed.
Print Assumptions C40_wrappers_hypothesis_independent.

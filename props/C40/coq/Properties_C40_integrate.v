(* C40 -- mfront::gb::integrate: -1 implies that thermodynamic forces, internal state variables and energies of s1
   are untouched, for every K[0], traits, policy and every outcome of every hook.  Holds when everything that may throw is
   evaluated before exportStateData. *)
From Coq Require Import QArith ZArith List Bool.
From C40 Require Import C39Model C39Spec C39Proofs C39_gen.
Local Open Scope Q_scope.

Theorem C40_failure_leaves_state_untouched : forall tr f K0 p rdt0 s,
  ret (integrate code_variant tr f K0 p rdt0 s) = (-1)%Z -> state_untouched (integrate code_variant tr f K0 p rdt0 s).
Proof. exact (fun tr f K0 p rdt0 s => failure_state_untouched code_variant tr f K0 p rdt0 s eq_refl). Qed.
Print Assumptions C40_failure_leaves_state_untouched.

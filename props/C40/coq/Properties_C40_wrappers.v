(* C40 -- the three finite strain wrappers: -1 implies that the caller's output stress is untouched and that the inner
   call wrote nothing either, for every K[0], K[1], K[2], traits, policy, script. *)
From Coq Require Import QArith ZArith List Bool.
From C40 Require Import C39Model C39Spec C39Proofs C39_gen.
Local Open Scope Q_scope.

Theorem C40_wrapper_failure_leaves_state_untouched : forall w tr K0 K1 K2 p rdt0 s,
  let r := wrap code_variant w tr K0 K1 K2 p rdt0 s in
  w_ret r = (-1)%Z -> w_flux r = FluxUntouched /\ state_untouched (w_inner r).
Proof. exact (fun w tr K0 K1 K2 p rdt0 s => wrapper_failure_untouched code_variant w tr K0 K1 K2 p rdt0 s eq_refl eq_refl). Qed.
Print Assumptions C40_wrapper_failure_leaves_state_untouched.

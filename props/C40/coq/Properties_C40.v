(* C40 -- a failed behaviour integration leaves the output state untouched: theorems that hold whatever the variant
   (statements only; model and proofs are those of C39: props/C39/coq).  [code_variant] (C39_gen.v) is written by the
   check on every run. *)
From Coq Require Import QArith ZArith List Bool.
From C40 Require Import C39Model C39Spec C39Proofs C39_gen.
Import ListNotations.
Local Open Scope Q_scope.

(* failures injected at every stage of the integration are reported by -1 ... *)
Theorem C40_every_injected_failure_is_reported : forall tr f K0 p rdt0 s, let r := integrate code_variant tr f K0 p rdt0 s in
  (sc_init s <> Ok -> ret r = (-1)%Z) /\
  (sc_oob s = true -> p = PStrict -> ret r = (-1)%Z) /\
  (is_prediction (effective_K0 K0) = true ->
     (hasPred tr = false \/ sc_pred s <> Ok \/ (speed_of_sound_requested K0 = true /\ sc_sos0 s <> Ok)) -> ret r = (-1)%Z) /\
  (is_prediction (effective_K0 K0) = false ->
     (sc_apriori s <> Ok \/ sc_integ s = IFailure \/ sc_integ s = IThrow \/ sc_apost s <> Ok) -> ret r = (-1)%Z).
Proof. exact (failure_table code_variant). Qed.
Print Assumptions C40_every_injected_failure_is_reported.

(* ... a Strict bounds violation fails before anything is computed or written *)
Theorem C40_strict_bounds_violation : forall tr f K0 rdt0 s, sc_init s = Ok -> sc_oob s = true ->
  let r := integrate code_variant tr f K0 PStrict rdt0 s in
  ret r = (-1)%Z /\ requests r = [] /\ state_untouched r /\ kst r = KUntouched /\ err r = ErrExc HBounds.
Proof. exact (strict_out_of_bounds code_variant). Qed.
Print Assumptions C40_strict_bounds_violation.

(* ... a prediction request, failed or not, never writes the output state *)
Theorem C40_prediction_leaves_state_untouched : forall tr f K0 p rdt0 s, is_prediction (effective_K0 K0) = true ->
  state_untouched (integrate code_variant tr f K0 p rdt0 s).
Proof. exact (prediction_state_untouched code_variant). Qed.
Print Assumptions C40_prediction_leaves_state_untouched.

(* ... a request refused by a finite strain wrapper (invalid stress measure) writes nothing *)
Theorem C40_refused_request_writes_nothing : forall w tr K0 K1 K2 p rdt0 s, 5#2 <= K1 ->
  let r := wrap code_variant w tr K0 K1 K2 p rdt0 s in
  w_ret r = (-1)%Z /\ w_called r = false /\ w_flux r = FluxUntouched /\ w_K r = WKUntouched.
Proof. exact (invalid_stress_measure code_variant). Qed.
Print Assumptions C40_refused_request_writes_nothing.

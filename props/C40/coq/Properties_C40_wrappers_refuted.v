(* C40 -- on the working tree the theorem is FALSE for the wrappers: a failed inner integration (-1) is followed by the
   post-processing, which overwrites the caller's output stress (or the inner call failed after exporting). *)
From Coq Require Import QArith ZArith List Bool.
From C40 Require Import C39Model C39Spec C39Proofs C39_gen.
Local Open Scope Q_scope.

Theorem C40_wrapper_failure_leaves_state_untouched_refuted :
  exists w tr K0 K1 K2 p rdt0 s, let r := wrap code_variant w tr K0 K1 K2 p rdt0 s in
    w_ret r = (-1)%Z /\ (w_flux r <> FluxUntouched \/ st_written (w_inner r) = true).
Proof. exact (wrapper_failure_refuted code_variant eq_refl). Qed.
Print Assumptions C40_wrapper_failure_leaves_state_untouched_refuted.

"""C17 views: generator of the drivers that instantiate the REAL views of /repo over tagged storage (cell k holds the value
k, so that every read reveals the address) for every compile-time shape in a family, const and non-const overloads, and of
the Gallina expressions (model C17Views.v) they are compared with.

One record per instantiation:  (kind, params) -> C++ call + Gallina term of the expected flat list
   reads ++ [SEP] ++ (address changed by a write through element k, for each k)"""

SEP = 300
WVAL = 200           # value written through the views (differs from every tag: tags are < 40)

PRELUDE = r'''
#include <cstdio>
#include <array>
#include "TFEL/Math/tvector.hxx"
#include "TFEL/Math/tmatrix.hxx"
#include "TFEL/Math/stensor.hxx"
#include "TFEL/Math/Array/View.hxx"
#include "TFEL/Math/Array/CoalescedView.hxx"
#include "TFEL/Math/Array/StridedCoalescedView.hxx"
using namespace tfel::math;
using us = unsigned short;
// a matrix whose k-th stored value is k, between two guard areas (a wrong origin reads a guard, not random memory)
template <us N, us M>
struct Box {
  double pre[8];
  tmatrix<N, M, double> m;
  double post[40];
  Box() {
    static_assert(sizeof(tmatrix<N, M, double>) == N * M * sizeof(double));
    for (auto& x : pre) x = -1000;
    for (auto& x : post) x = -2000;
    double* p = &(m(0, 0));
    for (int k = 0; k < N * M; ++k) p[k] = k;
  }
  // addresses whose content changed: matrix cells as k, guards as -1-k (before) or N*M+k (after)
  void changes() const {
    bool first = true;
    auto out = [&first](int a) { std::printf("%s%d", first ? " " : ",", a); first = false; };
    const double* p = &(m(0, 0));
    for (int k = 0; k < 8; ++k) if (pre[k] != -1000) out(-1 - k);
    for (int k = 0; k < N * M; ++k) if (p[k] != k) out(k);
    for (int k = 0; k < 40; ++k) if (post[k] != -2000) out(N * M + k);
    if (first) std::printf(" -");
  }
};
template <typename V> static void dump1(const V& v, us n) {
  for (us k = 0; k < n; ++k) { std::printf(" %d", int(v[k])); if (v(k) != v[k]) std::printf("!"); }
}
template <typename V> static void dump2(const V& v, us r, us c) {
  for (us i = 0; i < r; ++i) for (us j = 0; j < c; ++j) std::printf(" %d", int(v(i, j)));
}
// the getters are tiny function templates (one per instantiation); everything else is instantiated per view TYPE only
template <us N, us M, typename V, typename CV>
static void vec_case(const char* tag, us n, V (*get)(tmatrix<N, M, double>&), CV (*cget)(const tmatrix<N, M, double>&)) {
  { Box<N, M> b; std::printf("%s 0 |", tag); dump1(get(b.m), n); std::printf(" |");
    for (us k = 0; k < n; ++k) { Box<N, M> w; auto v = get(w.m); v[k] = WVAL; w.changes(); }
    std::printf("\n"); }
  { Box<N, M> b; std::printf("%s 1 |", tag); dump1(cget(b.m), n); std::printf(" |\n"); }
}
template <us N, us M, typename V, typename CV>
static void mat_case(const char* tag, us r, us c, V (*get)(tmatrix<N, M, double>&), CV (*cget)(const tmatrix<N, M, double>&)) {
  { Box<N, M> b; std::printf("%s 0 |", tag); dump2(get(b.m), r, c); std::printf(" |");
    for (us i = 0; i < r; ++i) for (us j = 0; j < c; ++j) { Box<N, M> w; auto v = get(w.m); v(i, j) = WVAL; w.changes(); }
    std::printf("\n"); }
  { Box<N, M> b; std::printf("%s 1 |", tag); dump2(cget(b.m), r, c); std::printf(" |\n"); }
}
template <us N, us M, us I> auto g_row(tmatrix<N, M, double>& m) { return m.template row_view<I>(); }
template <us N, us M, us I> auto c_row(const tmatrix<N, M, double>& m) { return m.template row_view<I>(); }
template <us N, us M, us I, us J, us K> auto g_rows(tmatrix<N, M, double>& m) { return m.template row_view<I, J, K>(); }
template <us N, us M, us I, us J, us K> auto c_rows(const tmatrix<N, M, double>& m) { return m.template row_view<I, J, K>(); }
template <us N, us M, us I> auto g_col(tmatrix<N, M, double>& m) { return m.template column_view<I>(); }
template <us N, us M, us I> auto c_col(const tmatrix<N, M, double>& m) { return m.template column_view<I>(); }
template <us N, us M, us I, us J, us K> auto g_cols(tmatrix<N, M, double>& m) { return m.template column_view<I, J, K>(); }
template <us N, us M, us I, us J, us K> auto c_cols(const tmatrix<N, M, double>& m) { return m.template column_view<I, J, K>(); }
template <us N, us M, us I, us J, us R, us C> auto g_sub(tmatrix<N, M, double>& m) { return m.template submatrix_view<I, J, R, C>(); }
template <us N, us M, us I, us J, us R, us C> auto c_sub(const tmatrix<N, M, double>& m) { return m.template submatrix_view<I, J, R, C>(); }
// external memory
struct Buf {
  double b[40];
  Buf() { for (int k = 0; k < 40; ++k) b[k] = k; }
  void changes() const {
    bool first = true;
    for (int k = 0; k < 40; ++k) if (b[k] != k) { std::printf("%s%d", first ? " " : ",", k); first = false; }
    if (first) std::printf(" -");
  }
};
'''.replace("WVAL", str(WVAL))


def matrix_instances(n_range=(1, 2, 3, 4), m_range=(1, 2, 3, 4)):
    """every view of a tmatrix<N,M>: (tag, N, cxx call, gallina)"""
    out = []
    for N in n_range:
        for M in m_range:
            size = N * M
            for I in range(N):
                out.append(("ROW %d %d %d" % (N, M, I), N,
                            'vec_case<%d, %d>("ROW %d %d %d", %d, &g_row<%d, %d, %d>, &c_row<%d, %d, %d>);' % (N, M, N, M, I, M, N, M, I, N, M, I),
                            "vcase %d (row_view %d %d)" % (size, M, I)))
                for J in range(M):
                    for K in range(1, M - J + 1):
                        out.append(("ROWS %d %d %d %d %d" % (N, M, I, J, K), N,
                                    'vec_case<%d, %d>("ROWS %d %d %d %d %d", %d, &g_rows<%d, %d, %d, %d, %d>, &c_rows<%d, %d, %d, %d, %d>);' % (N, M, N, M, I, J, K, K, N, M, I, J, K, N, M, I, J, K),
                                    "vcase %d (row_slice %d %d %d %d)" % (size, M, I, J, K)))
            for I in range(M):
                out.append(("COL %d %d %d" % (N, M, I), N,
                            'vec_case<%d, %d>("COL %d %d %d", %d, &g_col<%d, %d, %d>, &c_col<%d, %d, %d>);' % (N, M, N, M, I, N, N, M, I, N, M, I),
                            "vcase %d (column_view %d %d %d)" % (size, N, M, I)))
                for J in range(N):
                    for K in range(1, N - J + 1):
                        out.append(("COLS %d %d %d %d %d" % (N, M, I, J, K), N,
                                    'vec_case<%d, %d>("COLS %d %d %d %d %d", %d, &g_cols<%d, %d, %d, %d, %d>, &c_cols<%d, %d, %d, %d, %d>);' % (N, M, N, M, I, J, K, K, N, M, I, J, K, N, M, I, J, K),
                                    "vcase %d (column_slice %d %d %d %d)" % (size, M, I, J, K)))
            for I in range(N):
                for J in range(M):
                    for R in range(1, N - I + 1):
                        for C in range(1, M - J + 1):
                            out.append(("SUB %d %d %d %d %d %d" % (N, M, I, J, R, C), N,
                                        'mat_case<%d, %d>("SUB %d %d %d %d %d %d", %d, %d, &g_sub<%d, %d, %d, %d, %d, %d>, &c_sub<%d, %d, %d, %d, %d, %d>);'
                                        % (N, M, N, M, I, J, R, C, R, C, N, M, I, J, R, C, N, M, I, J, R, C),
                                        "mcase %d (submatrix_view %d %d %d %d %d)" % (size, M, I, J, R, C)))
    return out


def external_instances():
    """View / CoalescedView / StridedCoalescedView over a tagged buffer: (tag, cxx statements, gallina)"""
    out = []

    def vec_block(tag, n, mk, mkc):
        # mk: expression creating the non-const view from `w.b` / `b.b`; mkc: the const view from `cb`
        L = ['{ Buf b; std::printf("%s 0 |"); { auto v = %s; dump1(v, %d); } std::printf(" |");' % (tag, mk.replace("$", "b.b"), n)]
        L.append('  for (us k = 0; k < %d; ++k) { Buf w; auto v = %s; v[k] = %d; w.changes(); } std::printf("\\n"); }' % (n, mk.replace("$", "w.b"), WVAL))
        L.append('{ Buf b; const double* cb = b.b; std::printf("%s 1 |"); { auto v = %s; dump1(v, %d); } std::printf(" |\\n"); }' % (tag, mkc.replace("$", "cb"), n))
        return "\n".join(L)

    def mat_block(tag, r, c, mk, mkc):
        L = ['{ Buf b; std::printf("%s 0 |"); { auto v = %s; dump2(v, %d, %d); } std::printf(" |");' % (tag, mk.replace("$", "b.b"), r, c)]
        L.append('  for (us i = 0; i < %d; ++i) for (us j = 0; j < %d; ++j) { Buf w; auto v = %s; v(i, j) = %d; w.changes(); } std::printf("\\n"); }' % (r, c, mk.replace("$", "w.b"), WVAL))
        L.append('{ Buf b; const double* cb = b.b; std::printf("%s 1 |"); { auto v = %s; dump2(v, %d, %d); } std::printf(" |\\n"); }' % (tag, mkc.replace("$", "cb"), r, c))
        return "\n".join(L)

    # View<tvector<n>, VectorPolicy<n, s>> at offset o
    for n in (1, 2, 3, 4):
        for s in (1, 2, 3, 5):
            for o in (0, 1, 7):
                pol = "FixedSizeVectorIndexingPolicy<us, %d, %d>" % (n, s)
                out.append(("EV %d %d %d" % (n, s, o),
                            vec_block("EV %d %d %d" % (n, s, o), n, "map<tvector<%d, double>, %s>($ + %d)" % (n, pol, o), "map<const tvector<%d, double>, %s>($ + %d)" % (n, pol, o)),
                            "vcase 40 (VView %d %d %d)" % (o, s, n)))
    # View<tmatrix<r, c>, RowMajorPolicy<r, c, s>> at offset o
    for r in (1, 2, 3):
        for c in (1, 2, 3):
            for s in (c, c + 1, c + 3):
                for o in (0, 5):
                    pol = "FixedSizeRowMajorMatrixIndexingPolicy<us, %d, %d, %d>" % (r, c, s)
                    out.append(("EM %d %d %d %d" % (r, c, s, o),
                                mat_block("EM %d %d %d %d" % (r, c, s, o), r, c, "map<tmatrix<%d, %d, double>, %s>($ + %d)" % (r, c, pol, o),
                                          "map<const tmatrix<%d, %d, double>, %s>($ + %d)" % (r, c, pol, o)),
                                "mcase 40 (MView %d %d %d %d)" % (o, s, r, c)))
    # CoalescedView: pointer table ptrs[k] = base + o + (k * mult) % 11
    for n in (1, 2, 3, 4):
        for mult in (1, 3, 7):
            for o in (0, 2):
                tab = ", ".join("$ + %d" % (o + (k * mult) % 11) for k in range(n))
                mk = "[&] { std::array<double*, %d> ptrs{%s}; return map<tvector<%d, double>>(ptrs); }()" % (n, tab, n)
                mkc = "[&] { const std::array<const double*, %d> ptrs{%s}; return map<const tvector<%d, double>>(ptrs); }()" % (n, tab, n)
                out.append(("CV %d %d %d" % (n, mult, o), vec_block("CV %d %d %d" % (n, mult, o), n, mk, mkc),
                            "ccase 40 %d (fun k => %d + (k * %d) mod 11)" % (n, o, mult)))
    for (r, c) in ((2, 3), (3, 2), (2, 2)):
        for mult in (3, 7):
            n = r * c
            tab = ", ".join("$ + %d" % (4 + (k * mult) % 11) for k in range(n))
            mk = "[&] { std::array<double*, %d> ptrs{%s}; return map<tmatrix<%d, %d, double>>(ptrs); }()" % (n, tab, r, c)
            mkc = "[&] { const std::array<const double*, %d> ptrs{%s}; return map<const tmatrix<%d, %d, double>>(ptrs); }()" % (n, tab, r, c)
            out.append(("CM %d %d %d" % (r, c, mult), mat_block("CM %d %d %d" % (r, c, mult), r, c, mk, mkc),
                        "cmcase 40 %d %d (fun k => 4 + (k * %d) mod 11)" % (r, c, mult)))
    # coalesced view of a stensor<2> (4 components)
    tab = ", ".join("$ + %d" % (1 + (k * 5) % 11) for k in range(4))
    out.append(("CS 4 5 1", vec_block("CS 4 5 1", 4, "[&] { std::array<double*, 4> ptrs{%s}; return map<stensor<2, double>>(ptrs); }()" % tab,
                                      "[&] { const std::array<const double*, 4> ptrs{%s}; return map<const stensor<2, double>>(ptrs); }()" % tab),
                "ccase 40 4 (fun k => 1 + (k * 5) mod 11)"))
    # StridedCoalescedView: map_strided(p + o, s)
    for n in (1, 2, 3, 4):
        for s in (1, 2, 5):
            for o in (0, 3):
                out.append(("SV %d %d %d" % (n, s, o),
                            vec_block("SV %d %d %d" % (n, s, o), n, "map_strided<tvector<%d, double>>($ + %d, us(%d))" % (n, o, s),
                                      "map_strided<const tvector<%d, double>>($ + %d, us(%d))" % (n, o, s)),
                            "scase 40 %d %d %d" % (n, o, s)))
    for (r, c) in ((2, 2), (2, 3), (3, 2)):
        for s in (1, 4):
            out.append(("SM %d %d %d" % (r, c, s),
                        mat_block("SM %d %d %d" % (r, c, s), r, c, "map_strided<tmatrix<%d, %d, double>>($ + 2, us(%d))" % (r, c, s),
                                  "map_strided<const tmatrix<%d, %d, double>>($ + 2, us(%d))" % (r, c, s)),
                        "smcase 40 %d %d 2 %d" % (r, c, s)))
    out.append(("SS 6 3 1", vec_block("SS 6 3 1", 6, "map_strided<stensor<3, double>>($ + 1, us(3))", "map_strided<const stensor<3, double>>($ + 1, us(3))"),
                "scase 40 6 1 3"))
    return out


GALLINA_HEADER = """From Coq Require Import Arith List.
From C17 Require Import C17Spec C17Model C17Views.
Import ListNotations.
Definition single (l : list nat) : nat := match l with [a] => a | _ => 400 end.
Definition vcase (size : nat) (v : vview) : list nat := vvalues v ++ [%d] ++ map single (vwrite_changes size v %d).
Definition mcase (size : nat) (v : mview) : list nat := mvalues v ++ [%d] ++ map single (mvwrite_changes size v %d).
Definition gcase (size : nat) (addrs : list nat) : list nat :=
  map tagged addrs ++ [%d] ++ map (fun a => single (changed size tagged (upd tagged a %d))) addrs.
Definition ccase (size n : nat) (ptrs : nat -> nat) : list nat := gcase size (map (coalesced_addr ptrs) (seq 0 n)).
Definition cmcase (size r c : nat) (ptrs : nat -> nat) : list nat :=
  gcase size (flat_map (fun i => map (fun j => coalesced_addr ptrs (mat_index c i j)) (seq 0 c)) (seq 0 r)).
Definition scase (size n org stride : nat) : list nat := gcase size (map (strided_addr org stride) (seq 0 n)).
Definition smcase (size r c org stride : nat) : list nat :=
  gcase size (flat_map (fun i => map (fun j => strided_addr org stride (mat_index c i j)) (seq 0 c)) (seq 0 r)).
""" % (SEP, WVAL, SEP, WVAL, SEP, WVAL)


def matrix_tu(insts):
    return PRELUDE + "int main() {\n" + "\n".join("  " + i[2] for i in insts) + "\n  return 0;\n}\n"


def external_tu(insts):
    return PRELUDE + "int main() {\n" + "\n".join(i[1] for i in insts) + "\n  return 0;\n}\n"


def parse_line(l):
    """'TAG.. c | r0 r1 | w0 w1' -> (tag, const, reads (list of str), writes (list of str))"""
    a, r, w = l.split("|")
    t = a.split()
    return " ".join(t[:-1]), int(t[-1]), r.split(), w.split()

"""C17 -- expression templates and views behave like eager code.
(a) engine S per generated program: seeded expression programs over tvector/tmatrix/stensor/tensor/st2tost2 (sums,
    differences, negation, scalar factors/divisors, matrix*vector, st2tost2*stensor, matrix*matrix) are emitted as C++
    templated on the scalar, traced with Sym both through the TFEL expression templates (lazy) and as naive scalar
    code on the components (eager); Coq proves every component equal (ring/field) -- one theorem per program, for all
    real operands.  Sym-vs-double agreement and direct lazy-vs-eager execution on seeded doubles are part of the tie.
(b) engine H: Gallina model of the fixed-size indexing policies (vector, row-major matrix with stride, cartesian
    product), theorems for all sizes/strides (injective, image inside/minimal size); correspondence: getIndex and
    getUnderlyingArrayMinimalSize of the real policies, evaluated for a family of instantiations, against the model.
(b') views: Gallina model of View / CoalescedView / StridedCoalescedView and of tmatrix::row_view / column_view /
    submatrix_view (origin + index map), theorems for all sizes/offsets/strides (injective, image = the intended cells,
    read = the cell, write changes exactly the cell); correspondence: the REAL views are instantiated over tagged storage
    (cell k holds k) for every shape with sizes 1..4 and every I,J,K (const and non-const overloads), and over an external
    buffer; every value read and every address changed by a write is compared with the model (vm_compute).
    The generated programs of (a) use views as operands and as destinations.
(c) aliasing: Gallina model of the element-wise in-order assignment vs eager evaluation, theorem (equal iff no cell written
    earlier is read later; own-index aliasing is the special case); generated programs whose destination aliases operands
    (same layout, and overlapping views satisfying the condition) are traced and proved equal to the eager code like the
    others; two programs violating the condition are run to observe that the real code then follows the lazy model."""
import os, re, sys
from concurrent.futures import ThreadPoolExecutor
from vlib import guarded_main
sys.path.insert(0, os.path.dirname(os.path.abspath(__file__)))
import gen
import views

SUPPORT = ["src/Exception/ContractViolation.cxx"]
PINNED_KEY = "FixedSizeRowMajorMatrixIndexingPolicy::getUnderlyingArrayMinimalSize:rows<cols"
CART_KEY = "FixedSizeIndexingPoliciesCartesianProduct:default-stride-overlap"


def index_tu(mats, vecs, carts):
    L = ['#include <cstdio>', '#include "TFEL/Math/Array/FixedSizeIndexingPolicies.hxx"', 'using namespace tfel::math;', 'using us = unsigned short;',
         'template <us N, us M, us S> static void mat() { FixedSizeRowMajorMatrixIndexingPolicy<us, N, M, S> p; std::printf("MAT %u %u %u %u", N, M, S, unsigned(p.getUnderlyingArrayMinimalSize()));',
         '  for (us i = 0; i < N; ++i) for (us j = 0; j < M; ++j) std::printf(" %u", unsigned(p.getIndex(i, j))); std::printf("\\n"); }',
         'template <us N, us S> static void vec() { FixedSizeVectorIndexingPolicy<us, N, S> p; std::printf("VEC %u %u %u", N, S, unsigned(p.getUnderlyingArrayMinimalSize()));',
         '  for (us i = 0; i < N; ++i) std::printf(" %u", unsigned(p.getIndex(i))); std::printf("\\n"); }',
         'template <us N1, us N, us M, us S> static void cart() {',
         '  using P2 = FixedSizeRowMajorMatrixIndexingPolicy<us, N, M, S>;',
         '  FixedSizeIndexingPoliciesCartesianProduct<FixedSizeVectorIndexingPolicy<us, N1>, P2> p;',
         '  std::printf("CART %u %u %u %u %u", N1, N, M, S, unsigned(p.getUnderlyingArrayMinimalSize()));',
         '  for (us a = 0; a < N1; ++a) for (us i = 0; i < N; ++i) for (us j = 0; j < M; ++j) std::printf(" %u", unsigned(p.getIndex(a, i, j))); std::printf("\\n"); }',
         'int main() {']
    L += ["  mat<%d, %d, %d>();" % t for t in mats] + ["  vec<%d, %d>();" % t for t in vecs] + ["  cart<%d, %d, %d, %d>();" % t for t in carts]
    L.append("  return 0;\n}")
    return "\n".join(L) + "\n"



CXX_NAME = {"ROW": "tmatrix<{0},{1},double>::row_view<{2}>()", "ROWS": "tmatrix<{0},{1},double>::row_view<{2},{3},{4}>()",
            "COL": "tmatrix<{0},{1},double>::column_view<{2}>()", "COLS": "tmatrix<{0},{1},double>::column_view<{2},{3},{4}>()",
            "SUB": "tmatrix<{0},{1},double>::submatrix_view<{2},{3},{4},{5}>()",
            "EV": "View<tvector<{0}>, FixedSizeVectorIndexingPolicy<{0},{1}>> at buffer offset {2}",
            "EM": "View<tmatrix<{0},{1}>, FixedSizeRowMajorMatrixIndexingPolicy<{0},{1},{2}>> at buffer offset {3}",
            "CV": "CoalescedView<tvector<{0}>> with pointers base+{2}+(k*{1})%11", "CM": "CoalescedView<tmatrix<{0},{1}>> with pointers base+4+(k*{2})%11",
            "CS": "CoalescedView<stensor<2>> with pointers base+1+(k*5)%11", "SV": "StridedCoalescedView<tvector<{0}>> (map_strided(base+{2}, {1}))",
            "SM": "StridedCoalescedView<tmatrix<{0},{1}>> (map_strided(base+2, {2}))", "SS": "StridedCoalescedView<stensor<3>> (map_strided(base+1, 3))"}


def view_name(tag):
    t = tag.split()
    return CXX_NAME[t[0]].format(*t[1:])


def nat_rows(txt):
    return [[int(re.sub(r"[()%Z\s]", "", x)) for x in r.split(";") if x.strip()] for r in re.findall(r"\[([^\[\]]*)\]", txt)]


def model_evals(c, minst, einst, index_cases):
    """ONE coqc run evaluating (vm_compute) the model side of every correspondence: the views of matrices, the views on
    external memory, the indexing policies, the two aliasing demonstrations.  Returns a dict, or an error string."""
    txt = views.GALLINA_HEADER
    txt += "Eval vm_compute in [" + ";\n".join(i[3] for i in minst) + "].\n"
    txt += "Eval vm_compute in [" + ";\n".join(i[2] for i in einst) + "].\n"
    txt += "Eval vm_compute in [" + ";\n".join(index_cases) + "].\n"
    txt += ALIAS_V
    rc, o, e = c.coq_eval(["C17Spec.v", "C17Model.v", "C17Views.v", "C17Alias.v"], txt)
    if rc != 0:
        return "evaluation of the models failed: " + e[-400:]
    parts = [p for p in re.split(r"\n\s+: list[^\n]*", o) if "=" in p]
    if len(parts) != 4:
        return "the model evaluation printed %d results instead of 4" % len(parts)
    rows = [nat_rows(p[p.index("=") + 1:]) for p in parts]
    expected = {}
    for part, rr in ((minst, rows[0]), (einst, rows[1])):
        if len(rr) != len(part):
            return "the view model returned %d rows for %d cases" % (len(rr), len(part))
        for i, r in zip(part, rr):
            k = r.index(views.SEP)
            expected[i[0]] = (r[:k], r[k + 1:])
    return {"views": expected, "index": rows[2], "alias": rows[3]}


def check_views(c, vexes, expected):
    """run the view drivers (real code, tagged storage) and compare every line with the Gallina model"""
    if isinstance(expected, str):
        c.report("views:model-eval", expected, {}, False)
        return 0
    observed = {}
    for exe in vexes:
        rc, out, err = c.run([exe], timeout=300)
        if rc != 0:
            c.report("views:driver", "view driver failed (rc=%d): %s" % (rc, err[-300:]), {"stderr": err[-2000:]}, False)
            return 0
        for l in out.splitlines():
            tag, cst, reads, writes = views.parse_line(l)
            observed[(tag, cst)] = (reads, writes)
    n = 0
    groups = {}     # (family, const?, what) -> list of (tag, text, replay): one report per group, first case in full

    def fail(tag, cst, cat, text, rep):
        groups.setdefault((tag.split()[0], "const" if cst else "mutable", cat), []).append((tag, text, rep))

    for tag, (mr, mw) in expected.items():
        for cst in (0, 1):
            if (tag, cst) not in observed:
                c.report("view:%s:missing" % tag, "no output of the driver for %s" % view_name(tag), {}, False)
                continue
            reads, writes = observed[(tag, cst)]
            n += 1
            name = view_name(tag) + (" const" if cst else "")
            c.count(len(mr), ("view", tag, cst), True)
            bad = [r for r in reads if r.endswith("!")]
            vals = [int(r.rstrip("!")) for r in reads]
            rep = {"view": name, "storage": "cell k holds the value k (row-major address i*M+j in the matrix; negative / beyond the size: guard areas)",
                   "values_read_in_index_order": vals, "model_addresses": mr}
            if vals != mr:
                fail(tag, cst, "read", "%s over tagged storage reads the cells %s, the intended cells (model) are %s" % (name, vals, mr), rep)
            elif bad:
                fail(tag, cst, "paren", "%s: operator() and operator[] disagree" % name, rep)
            elif len(set(vals)) != len(vals):
                fail(tag, cst, "inj", "%s addresses a cell twice: %s" % (name, vals), rep)
            if not cst:
                wr = [[int(x) for x in w.split(",")] if w != "-" else [] for w in writes]
                if wr != [[a] for a in mw]:
                    rep = dict(rep, cells_changed_by_a_write_through_element_k=wr)
                    fail(tag, cst, "write", "writing through element k of %s changes the cells %s, the model says exactly %s" % (name, wr, mw), rep)
    for (fam, cq, cat), lst in sorted(groups.items()):
        inside = [x for x in lst if all(0 <= v < 100 for v in x[2]["values_read_in_index_order"])]     # prefer a case that stays inside the storage
        first = (inside or lst)[-1]
        tag, text, rep = first
        rep = dict(rep, failing_instantiations=len(lst), other_failing_instantiations=[view_name(t[0]) for t in lst if t is not first][:60])
        c.report("view-%s:%s:%s" % (cat, fam, cq), text + (" (and %d other instantiations of the same view family, listed in the replay)" % (len(lst) - 1) if len(lst) > 1 else ""), rep, True)
    return n


# (c) outside the condition of the theorem: the destination is read at a LATER index than the one that wrote it
ALIAS_TU = r"""
#include <cstdio>
#include "TFEL/Math/tvector.hxx"
#include "TFEL/Math/tmatrix.hxx"
using namespace tfel::math;
int main() {
  { tvector<3u, double> v{1, 2, 3}; tmatrix<3u, 3u, double> m; const double mv[9] = {-2, 0, 3, -3, 2, -1, 1, -2, 0};
    for (unsigned short i = 0; i < 3; ++i) for (unsigned short j = 0; j < 3; ++j) m(i, j) = mv[3 * i + j];
    v = m * v; std::printf("MV %g %g %g\n", v[0], v[1], v[2]); }
  { tmatrix<1u, 4u, double> m; for (unsigned short j = 0; j < 4; ++j) m(0, j) = 10 + j;
    m.template row_view<0, 1, 3>() = m.template row_view<0, 0, 3>();
    std::printf("SHIFT %g %g %g %g\n", m(0, 0), m(0, 1), m(0, 2), m(0, 3)); }
  return 0;
}
"""
ALIAS_V = """From Coq Require Import ZArith List.
From C17 Require Import C17Spec C17Model C17Views C17Alias.
Import ListNotations.
Definition mrow (k : nat) : list Z := nth k [[-2; 0; 3]; [-3; 2; -1]; [1; -2; 0]]%Z [].
Definition st0 : store Z := fun a => nth a [1; 2; 3]%Z 0%Z.
Definition emv (k : nat) (st : store Z) : Z := fold_right Z.add 0%Z (map (fun p => (fst p * st (snd p))%Z) (combine (mrow k) [0; 1; 2])).
Definition sh0 : store Z := fun a => (10 + Z.of_nat a)%Z.
Definition row013 := row_slice 4 0 1 3.
Definition esh (k : nat) (st : store Z) : Z := vread st (row_slice 4 0 0 3) k.
Eval vm_compute in [map (assign_lazy 3 (fun k => k) emv st0) [0; 1; 2]; map (assign_eager 3 (fun k => k) emv st0) [0; 1; 2];
                    map (assign_lazy 3 (vaddr row013) esh sh0) [0; 1; 2; 3]; map (assign_eager 3 (vaddr row013) esh sh0) [0; 1; 2; 3]].
"""


def check_alias_model(c, aexe, rows):
    rc, out, err = c.run([aexe])
    if rc != 0 or len(rows) != 4:
        c.notes.append("aliasing demonstration not run (driver rc=%d): %s" % (rc, err[-300:]))
        return
    real = {l.split()[0]: [int(float(x)) for x in l.split()[1:]] for l in out.splitlines()}
    for name, lz, eg, what in (("MV", rows[0], rows[1], "v = m * v"), ("SHIFT", rows[2], rows[3], "m.row_view<0,1,3>() = m.row_view<0,0,3>()")):
        c.count(1, ("alias-demo", name), True)
        c.notes.append("aliasing outside the condition of the theorem, `%s`: real code %s; model: in-order lazy %s, eager %s -> the real code %s"
                       % (what, real.get(name), lz, eg,
                          "follows the lazy in-order model" if real.get(name) == lz else
                          ("equals the eager result (evaluation order differs from the model; own-index aliasing is unaffected)" if real.get(name) == eg else "matches neither")))


def main(c):
    rng = c.rng
    nprog = c.pick(15, 60)
    progs = [gen.gen_program(rng, k, "VMSTD"[k % 5]) for k in range(nprog)]
    wd = os.path.join(c.work, "coq")
    os.makedirs(wd, exist_ok=True)
    csz = c.pick(8, 15)
    chunks = [list(range(i, min(i + csz, nprog))) for i in range(0, nprog, csz)]
    tus = []
    for ci, ch in enumerate(chunks):
        p = os.path.join(c.work, "programs_%d.cxx" % ci)
        open(p, "w").write(gen.translation_unit([progs[k] for k in ch]))
        tus.append(p)
    mats = [(n, m, s) for n in range(1, 5) for m in range(1, 5) for s in (m, m + 1, m + 3)]
    vecs = [(n, s) for n in range(1, 6) for s in (1, 2, 3)]
    carts = [(n1, n, m, s) for n1 in (1, 2, 3) for (n, m, s) in [(2, 2, 2), (2, 3, 3), (3, 2, 4), (2, 3, 4), (1, 3, 5), (3, 3, 4), (2, 4, 5)]]
    itu = os.path.join(c.work, "indices.cxx")
    open(itu, "w").write(index_tu(mats, vecs, carts))
    # view drivers: every view of tmatrix<N,M>, N,M = 1..4 (4 translation units), views on an external buffer (2)
    minst = views.matrix_instances()
    einst = views.external_instances()
    vtus = []
    for q in range(4):
        pth = os.path.join(c.work, "mviews_%d.cxx" % q)
        open(pth, "w").write(views.matrix_tu(minst[q::4]))
        vtus.append(pth)
    for q in range(2):
        pth = os.path.join(c.work, "eviews_%d.cxx" % q)
        open(pth, "w").write(views.external_tu(einst[q::2]))
        vtus.append(pth)
    atu = os.path.join(c.work, "alias.cxx")
    open(atu, "w").write(ALIAS_TU)
    with ThreadPoolExecutor(max_workers=4) as ex:
        fts = [ex.submit(lambda p=p, i=i: c.cxx("programs_%d" % i, [p], SUPPORT, opt="-O0")) for i, p in enumerate(tus)]
        fvs = [ex.submit(lambda p=p, i=i: c.cxx("views_%d" % i, [p], SUPPORT, opt="-O0")) for i, p in enumerate(vtus)]
        fi = ex.submit(lambda: c.cxx("indices", [itu], SUPPORT, opt="-O0"))
        fa = ex.submit(lambda: c.cxx("alias", [atu], SUPPORT, opt="-O0"))
        # the model side of the correspondence (vm_compute) runs meanwhile, in one thread (shared .vo files)
        ev = ["(mat_minsize %d %d %d :: mat_minsize_pinned %d %d %d :: flat_map (fun i => map (mat_index %d i) (seq 0 %d)) (seq 0 %d))" % (n, m, s_, n, m, s_, s_, m, n) for (n, m, s_) in mats]
        ev += ["(vec_minsize %d %d :: 0 :: map (vec_index %d) (seq 0 %d))" % (n, s_, s_, n) for (n, s_) in vecs]
        # the model side of every correspondence (vm_compute) runs meanwhile, in one coqc
        fm = ex.submit(model_evals, c, minst, einst, ev)
        exes = [f.result() for f in fts]
        vexes = [f.result() for f in fvs]
        iexe = fi.result()
        aexe = fa.result()
        model = fm.result()
    c.log("built")
    c.trusted("engine S tracer (cxx/sym/sym.hxx, symtfel.hxx trait glue), g++ instantiation of the TFEL expression templates with Sym",
              "props/C17/gen.py: one tree printed as the TFEL expression and as naive component code",
              "agreement of the traced terms with the double instantiation on seeded inputs (tolerance 6.4e-10 scaled)")
    # ---- (a) trace
    gens = []
    nbad = {}
    for ci, (exe, ch) in enumerate(zip(exes, chunks)):
        g = os.path.join(wd, "C17_gen_%d.v" % ci)
        rc, out, err = c.run([exe, g, str(c.seed % 100000)])
        if rc != 0:
            c.report("trace:%d" % ci, "tracer failed: " + err[-400:], {"stderr": err[-3000:]}, False)
            return
        inputs = {}
        for l in out.splitlines():
            t = l.split()
            if t[0] == "INPUT":
                inputs[int(t[1])] = t[2:]
        for l in out.splitlines():
            t = l.split()
            if t[0] in ("AGREE", "EXEC-FAIL", "AGREE-FAIL"):
                k = ch[int(t[1])]
                c.count(1, ("exec", k, t[2], t[3]), True)
                if t[0] != "AGREE":
                    nbad[k] = nbad.get(k, 0) + 1
                    if nbad[k] > 1:     # one report per program (its first failing element)
                        continue
                    kind = progs[k][0]
                    desc = gen.describe(progs[k])
                    what = ("lazy evaluation of `%s` (%s, %s) differs from the naive component code on observed element %s: lazy=%s eager=%s" % (desc, gen.KINDS[kind][0], progs[k][3], t[2], t[4], t[5])
                            if t[0] == "EXEC-FAIL" else
                            "traced term and double instantiation of `%s` disagree on element %s: Sym=%s double=%s" % (desc, t[2], t[3], t[4]))
                    c.report("%s:%s:%s" % (t[0], desc[:100], t[2]), what,
                             {"program": desc, "type": gen.KINDS[kind][0], "mode": progs[k][3], "element": int(t[2]),
                              "inputs(x0,x1,v..,m..,s..,t..,d..,q..,buf..)": inputs.get(int(t[1]))}, True)
        # rename the module of this chunk
        txt = open(g).read()
        for j, k in enumerate(ch):
            txt = re.sub(r"\b(lazy|eager)_%d\b" % j, r"\1_p%d" % k, txt)
        open(g, "w").write(txt)
        gens.append(g)
    # property file: one theorem per program
    pf = os.path.join(wd, "Properties_C17_gen.v")
    ptxt = gen.properties(progs)
    ptxt = re.sub(r"\b(lazy|eager)_(\d+)\b", r"\1_p\2", ptxt)
    ptxt = ptxt.replace("From C17 Require Import C17_gen.", "From C17 Require Import %s." % " ".join("C17_gen_%d" % i for i in range(len(gens))))
    open(pf, "w").write(ptxt)
    for pr in progs[:3] + progs[5:8] + progs[10:13]:
        c.sample({"program": gen.describe(pr)[:240], "type": gen.KINDS[pr[0]][0], "mode": pr[3]})
    c.log("traced")
    # ---- (b) indices of the real policies
    rc, out, err = c.run([iexe])
    if rc != 0:
        c.report("indices", "index driver failed: " + err[-300:], {}, False)
        return
    rows = [l.split() for l in out.splitlines()]
    if isinstance(model, str):
        c.report("model-eval", model, {}, False)
        return
    mrows = model["index"]
    mi = 0
    for t in rows:
        if t[0] in ("MAT", "VEC"):
            mr = mrows[mi]
            mi += 1
            if t[0] == "MAT":
                n, m, s, size = int(t[1]), int(t[2]), int(t[3]), int(t[4])
                idx = [int(x) for x in t[5:]]
                desc = "FixedSizeRowMajorMatrixIndexingPolicy<%d,%d,%d>" % (n, m, s)
            else:
                n, s, size = int(t[1]), int(t[2]), int(t[3])
                m = 1
                idx = [int(x) for x in t[4:]]
                desc = "FixedSizeVectorIndexingPolicy<%d,%d>" % (n, s)
            c.count(len(idx), (t[0], n, m, s), True)
            if idx != mr[2:]:
                c.report("index:%s" % desc, "%s::getIndex gives %s, the model %s" % (desc, idx, mr[2:]), {"policy": desc, "observed": idx, "model": mr[2:]}, True)
            if len(set(idx)) != len(idx):
                c.report("inj:%s" % desc, "%s::getIndex is not injective: %s" % (desc, idx), {"policy": desc, "indices": idx}, True)
            if max(idx) >= size:
                cell = idx.index(max(idx))
                rep = {"policy": desc, "indices": idx, "minimal_size": size, "needed": max(idx) + 1, "cell": [cell // m, cell % m]}
                what = "%s: getUnderlyingArrayMinimalSize() = %d but getIndex(%d,%d) = %d addresses a cell outside [0,%d)" % (desc, size, cell // m, cell % m, max(idx), size)
                if t[0] == "MAT" and size == mr[1] and n < m and s > m:
                    c.report(PINNED_KEY, what, rep, True)
                else:
                    c.report("minsize:%s" % desc, what, rep, True)
            elif size != mr[0]:
                c.notes.append("%s: declared minimal size %d, exact minimal size %d (over-estimate, harmless)" % (desc, size, mr[0]))
        elif t[0] == "CART":
            n1, n, m, s, size = (int(x) for x in t[1:6])
            idx = [int(x) for x in t[6:]]
            desc = "FixedSizeIndexingPoliciesCartesianProduct<Vector<%d>, RowMajorMatrix<%d,%d,%d>>" % (n1, n, m, s)
            c.count(len(idx), ("CART", n1, n, m, s), True)
            if len(set(idx)) != len(idx) or max(idx) >= size:
                dup = [x for x in set(idx) if idx.count(x) > 1]
                cells = [(q // (n * m), (q % (n * m)) // m, q % m) for q, x in enumerate(idx) if dup and x == dup[0]]
                what = "%s: %s (minimal size %d, largest address %d)" % (desc, ("cells %s share address %d" % (cells, dup[0])) if dup else "image exceeds the declared size", size, max(idx))
                rep = {"policy": desc, "indices": idx, "minimal_size": size}
                if n < m and s > m:
                    c.report(CART_KEY, what, rep, True)
                else:
                    c.report("cart:%s" % desc, what, rep, True)
    c.log("indices compared")
    # ---- (b') the real views over tagged storage against the model
    nviews = check_views(c, vexes, model["views"])
    c.log("views compared")
    # ---- (c) two programs OUTSIDE the condition of the aliasing theorem: the real code follows the lazy model
    check_alias_model(c, aexe, model["alias"])
    # ---- proofs: the per-program theorems and the fixed development are independent, two coqc chains in parallel
    with ThreadPoolExecutor(max_workers=2) as ex:
        f1 = ex.submit(c.coq, gens + [pf], 1200)
        f2 = ex.submit(c.coq, ["C17Spec.v", "C17Model.v", "C17Proofs.v", "Properties_C17.v",
                               "C17Views.v", "C17Alias.v", "C17ViewsProofs.v", "C17AliasProofs.v", "Properties_C17_views.v"], 1200)
        results = [f1.result(), f2.result()]

    class Res:
        pass
    res = Res()
    res.ok = all(r.ok for r in results)
    res.failed = [f for r in results for f in r.failed]
    c.coverage["obligations"] = sum(len(r.theorems) for r in results)
    c.coverage["discharged"] = sum(len(r.discharged) for r in results)
    c.coverage["checker_cmd"] = "coqc -Q coq/lib VLib -R <scratch> C17 <files: %s> (Coq 8.16.1, full .vo compilation)" % " ".join(f[0] for r in results for f in r.files)
    c.coverage["traces_validated_against_impl"] = nprog + len(rows) + nviews
    c.coverage["rule"] = ("(a) %d seeded expression programs (depth <= 4; tvector<3>, tmatrix<3,3>, stensor<3>, tensor<3>, st2tost2<3>; + - neg, scalar * and /, "
                          "M*v, D*s, M*M), each traced lazily and eagerly and proved equal component-wise; 3 seeded double evaluations per program; "
                          "(b) %d matrix, %d vector, %d cartesian-product policy instantiations: every index against the model, injectivity, image within the declared size; "
                          "(b') %d view instantiations of tmatrix<N,M> (N,M = 1..4; row_view<I>, row_view<I,J,K>, column_view<I>, column_view<I,J,K>, submatrix_view<I,J,R,C>, all offsets) "
                          "and %d views on an external buffer (View with strided vector / row-major policies, CoalescedView, StridedCoalescedView), each const and non-const, "
                          "over tagged storage: every read and every write against the model; programs: %s" % (
                              nprog, len(mats), len(vecs), len(carts), len(minst), len(einst),
                              {m: sum(1 for p in progs if p[3] == m) for m in ("plain", "viewdst", "alias")}))
    if not res.ok:
        if c.violations and any(v[3] for v in c.violations):
            c.notes.append("proof obligations failed: %s; concrete failing inputs reported above" % [f[2] for f in res.failed])
        else:
            for r in results:
                if not r.ok:
                    c.coq_failures(r, None)


guarded_main("C17", main)

"""C17 -- expression templates and views behave like eager code.
(a) engine S per generated program: seeded expression programs over tvector/tmatrix/stensor/tensor/st2tost2 (sums,
    differences, negation, scalar factors/divisors, matrix*vector, st2tost2*stensor, matrix*matrix) are emitted as C++
    templated on the scalar, traced with Sym both through the TFEL expression templates (lazy) and as naive scalar
    code on the components (eager); Coq proves every component equal (ring/field) -- one theorem per program, for all
    real operands.  Sym-vs-double agreement and direct lazy-vs-eager execution on seeded doubles are part of the tie.
(b) engine H: Gallina model of the fixed-size indexing policies (vector, row-major matrix with stride, cartesian
    product), theorems for all sizes/strides (injective, image inside/minimal size); correspondence: getIndex and
    getUnderlyingArrayMinimalSize of the real policies, evaluated for a family of instantiations, against the model."""
import os, re, sys
from concurrent.futures import ThreadPoolExecutor
from vlib import guarded_main
sys.path.insert(0, os.path.dirname(os.path.abspath(__file__)))
import gen

SUPPORT = ["src/Exception/ContractViolation.cxx"]
PINNED_KEY = "FixedSizeRowMajorMatrixIndexingPolicy::getUnderlyingArrayMinimalSize:rows<cols"
CART_KEY = "FixedSizeIndexingPoliciesCartesianProduct:default-stride-overlap"


def index_tu(mats, vecs, carts):
    L = ['#include <cstdio>', '#include "TFEL/Math/Array/FixedSizeIndexingPolicies.hxx"', 'using namespace tfel::math;', 'using us = unsigned short;',
         'template <us N, us M, us S> static void mat() { FixedSizeRowMajorMatrixIndexingPolicy<us, N, M, S> p; std::printf("MAT %u %u %u %u", N, M, S, unsigned(p.getUnderlyingArrayMinimalSize()));',
         '  for (us i = 0; i < N; ++i) for (us j = 0; j < M; ++j) std::printf(" %u", unsigned(p.getIndex(i, j))); std::printf("\\n"); }',
         'template <us N, us S> static void vec() { FixedSizeVectorIndexingPolicy<us, N, S> p; std::printf("VEC %u %u %u", N, S, unsigned(p.getUnderlyingArrayMinimalSize()));',
         '  for (us i = 0; i < N; ++i) std::printf(" %u", unsigned(p.getIndex(i))); std::printf("\\n"); }',
         'template <us N1, us N, us M, us S> static void cart() {',
         '  using P2 = FixedSizeRowMajorMatrixIndexingPolicy<us, N, M, S>;',
         '  FixedSizeIndexingPoliciesCartesianProduct<FixedSizeVectorIndexingPolicy<us, N1>, P2> p;',
         '  std::printf("CART %u %u %u %u %u", N1, N, M, S, unsigned(p.getUnderlyingArrayMinimalSize()));',
         '  for (us a = 0; a < N1; ++a) for (us i = 0; i < N; ++i) for (us j = 0; j < M; ++j) std::printf(" %u", unsigned(p.getIndex(a, i, j))); std::printf("\\n"); }',
         'int main() {']
    L += ["  mat<%d, %d, %d>();" % t for t in mats] + ["  vec<%d, %d>();" % t for t in vecs] + ["  cart<%d, %d, %d, %d>();" % t for t in carts]
    L.append("  return 0;\n}")
    return "\n".join(L) + "\n"


def main(c):
    rng = c.rng
    nprog = c.pick(15, 60)
    progs = []
    for k in range(nprog):
        kind = "VMSTD"[k % 5]
        progs.append((kind, gen.gen_expr(rng, kind, 3 if k % 2 else 4)))
    wd = os.path.join(c.work, "coq")
    os.makedirs(wd, exist_ok=True)
    chunks = [list(range(i, min(i + 20, nprog))) for i in range(0, nprog, 20)]
    tus = []
    for ci, ch in enumerate(chunks):
        p = os.path.join(c.work, "programs_%d.cxx" % ci)
        open(p, "w").write(gen.translation_unit([progs[k] for k in ch]))
        tus.append(p)
    mats = [(n, m, s) for n in range(1, 5) for m in range(1, 5) for s in (m, m + 1, m + 3)]
    vecs = [(n, s) for n in range(1, 6) for s in (1, 2, 3)]
    carts = [(n1, n, m, s) for n1 in (1, 2, 3) for (n, m, s) in [(2, 2, 2), (2, 3, 3), (3, 2, 4), (2, 3, 4), (1, 3, 5), (3, 3, 4), (2, 4, 5)]]
    itu = os.path.join(c.work, "indices.cxx")
    open(itu, "w").write(index_tu(mats, vecs, carts))
    with ThreadPoolExecutor(max_workers=4) as ex:
        fts = [ex.submit(lambda p=p, i=i: c.cxx("programs_%d" % i, [p], SUPPORT, opt="-O0")) for i, p in enumerate(tus)]
        fi = ex.submit(lambda: c.cxx("indices", [itu], SUPPORT, opt="-O0"))
        exes = [f.result() for f in fts]
        iexe = fi.result()
    c.log("built")
    c.trusted("engine S tracer (cxx/sym/sym.hxx, symtfel.hxx trait glue), g++ instantiation of the TFEL expression templates with Sym",
              "props/C17/gen.py: one tree printed as the TFEL expression and as naive component code",
              "agreement of the traced terms with the double instantiation on seeded inputs (tolerance 6.4e-10 scaled)")
    # ---- (a) trace
    gens = []
    for ci, (exe, ch) in enumerate(zip(exes, chunks)):
        g = os.path.join(wd, "C17_gen_%d.v" % ci)
        rc, out, err = c.run([exe, g, str(c.seed % 100000)])
        if rc != 0:
            c.report("trace:%d" % ci, "tracer failed: " + err[-400:], {"stderr": err[-3000:]}, False)
            return
        inputs = {}
        for l in out.splitlines():
            t = l.split()
            if t[0] == "INPUT":
                inputs[int(t[1])] = t[2:]
        for l in out.splitlines():
            t = l.split()
            if t[0] in ("AGREE", "EXEC-FAIL", "AGREE-FAIL"):
                k = ch[int(t[1])]
                c.count(1, ("exec", k, t[2], t[3]), True)
                if t[0] != "AGREE":
                    kind, e = progs[k]
                    what = ("lazy evaluation of `%s` (%s) differs from the naive component code on component %s: lazy=%s eager=%s" % (gen.lazy(e), gen.KINDS[kind][0], t[2], t[4], t[5])
                            if t[0] == "EXEC-FAIL" else
                            "traced term and double instantiation of `%s` disagree on component %s: Sym=%s double=%s" % (gen.lazy(e), t[2], t[3], t[4]))
                    c.report("%s:%s:%s" % (t[0], gen.lazy(e)[:100], t[2]), what,
                             {"program": gen.lazy(e), "type": gen.KINDS[kind][0], "component": int(t[2]), "inputs(x0,x1,v..,m..,s..,t..,d..)": inputs.get(int(t[1]))}, True)
        # rename the module of this chunk
        txt = open(g).read()
        for j, k in enumerate(ch):
            txt = re.sub(r"\b(lazy|eager)_%d\b" % j, r"\1_p%d" % k, txt)
        open(g, "w").write(txt)
        gens.append(g)
    # property file: one theorem per program
    pf = os.path.join(wd, "Properties_C17_gen.v")
    ptxt = gen.properties(progs)
    ptxt = re.sub(r"\b(lazy|eager)_(\d+)\b", r"\1_p\2", ptxt)
    ptxt = ptxt.replace("From C17 Require Import C17_gen.", "From C17 Require Import %s." % " ".join("C17_gen_%d" % i for i in range(len(gens))))
    open(pf, "w").write(ptxt)
    for k, (kind, e) in enumerate(progs[:6]):
        c.sample({"program": gen.lazy(e)[:200], "type": gen.KINDS[kind][0]})
    c.log("traced")
    # ---- (b) indices of the real policies
    rc, out, err = c.run([iexe])
    if rc != 0:
        c.report("indices", "index driver failed: " + err[-300:], {}, False)
        return
    rows = [l.split() for l in out.splitlines()]
    ev = []
    for t in rows:
        if t[0] == "MAT":
            n, m, s = int(t[1]), int(t[2]), int(t[3])
            ev.append("(mat_minsize %d %d %d :: mat_minsize_pinned %d %d %d :: flat_map (fun i => map (mat_index %d i) (seq 0 %d)) (seq 0 %d))" % (n, m, s, n, m, s, s, m, n))
        elif t[0] == "VEC":
            n, s = int(t[1]), int(t[2])
            ev.append("(vec_minsize %d %d :: 0 :: map (vec_index %d) (seq 0 %d))" % (n, s, s, n))
    txt = ("From Coq Require Import Arith List.\nFrom C17 Require Import C17Spec C17Model.\nImport ListNotations.\nEval vm_compute in [" + ";\n".join(ev) + "].\n")
    rc, o, e = c.coq_eval(["C17Spec.v", "C17Model.v"], txt)
    if rc != 0:
        c.report("model-eval", "evaluation of the index model failed: " + e[-400:], {}, False)
        return
    mrows = [[int(x) for x in r.split(";") if x.strip()] for r in re.findall(r"\[([^\[\]]*)\]", o[o.index("=") + 1:o.rindex(":")])]
    mi = 0
    for t in rows:
        if t[0] in ("MAT", "VEC"):
            mr = mrows[mi]
            mi += 1
            if t[0] == "MAT":
                n, m, s, size = int(t[1]), int(t[2]), int(t[3]), int(t[4])
                idx = [int(x) for x in t[5:]]
                desc = "FixedSizeRowMajorMatrixIndexingPolicy<%d,%d,%d>" % (n, m, s)
            else:
                n, s, size = int(t[1]), int(t[2]), int(t[3])
                m = 1
                idx = [int(x) for x in t[4:]]
                desc = "FixedSizeVectorIndexingPolicy<%d,%d>" % (n, s)
            c.count(len(idx), (t[0], n, m, s), True)
            if idx != mr[2:]:
                c.report("index:%s" % desc, "%s::getIndex gives %s, the model %s" % (desc, idx, mr[2:]), {"policy": desc, "observed": idx, "model": mr[2:]}, True)
            if len(set(idx)) != len(idx):
                c.report("inj:%s" % desc, "%s::getIndex is not injective: %s" % (desc, idx), {"policy": desc, "indices": idx}, True)
            if max(idx) >= size:
                cell = idx.index(max(idx))
                rep = {"policy": desc, "indices": idx, "minimal_size": size, "needed": max(idx) + 1, "cell": [cell // m, cell % m]}
                what = "%s: getUnderlyingArrayMinimalSize() = %d but getIndex(%d,%d) = %d addresses a cell outside [0,%d)" % (desc, size, cell // m, cell % m, max(idx), size)
                if t[0] == "MAT" and size == mr[1] and n < m and s > m:
                    c.report(PINNED_KEY, what, rep, True)
                else:
                    c.report("minsize:%s" % desc, what, rep, True)
            elif size != mr[0]:
                c.notes.append("%s: declared minimal size %d, exact minimal size %d (over-estimate, harmless)" % (desc, size, mr[0]))
        elif t[0] == "CART":
            n1, n, m, s, size = (int(x) for x in t[1:6])
            idx = [int(x) for x in t[6:]]
            desc = "FixedSizeIndexingPoliciesCartesianProduct<Vector<%d>, RowMajorMatrix<%d,%d,%d>>" % (n1, n, m, s)
            c.count(len(idx), ("CART", n1, n, m, s), True)
            if len(set(idx)) != len(idx) or max(idx) >= size:
                dup = [x for x in set(idx) if idx.count(x) > 1]
                cells = [(q // (n * m), (q % (n * m)) // m, q % m) for q, x in enumerate(idx) if dup and x == dup[0]]
                what = "%s: %s (minimal size %d, largest address %d)" % (desc, ("cells %s share address %d" % (cells, dup[0])) if dup else "image exceeds the declared size", size, max(idx))
                rep = {"policy": desc, "indices": idx, "minimal_size": size}
                if n < m and s > m:
                    c.report(CART_KEY, what, rep, True)
                else:
                    c.report("cart:%s" % desc, what, rep, True)
    c.log("indices compared")
    # ---- proofs
    res = c.coq(gens + [pf, "C17Spec.v", "C17Model.v", "C17Proofs.v", "Properties_C17.v"], timeout=1200)
    c.coverage["traces_validated_against_impl"] = nprog + len(rows)
    c.coverage["rule"] = ("(a) %d seeded expression programs (depth <= 4; tvector<3>, tmatrix<3,3>, stensor<3>, tensor<3>, st2tost2<3>; + - neg, scalar * and /, "
                          "M*v, D*s, M*M), each traced lazily and eagerly and proved equal component-wise; 3 seeded double evaluations per program; "
                          "(b) %d matrix, %d vector, %d cartesian-product policy instantiations: every index against the model, injectivity, image within the declared size" % (
                              nprog, len(mats), len(vecs), len(carts)))
    if not res.ok:
        if c.violations and any(v[3] for v in c.violations):
            c.notes.append("proof obligations failed: %s; concrete failing inputs reported above" % [f[2] for f in res.failed])
        else:
            def search(fail):
                m = re.match(r"C17_program_(\d+)", fail[2] or "")
                if m:
                    kind, e = progs[int(m.group(1))]
                    return None
                return None
            c.coq_failures(res, search)


guarded_main("C17", main)

"""C17 program generator: random expression programs over tvector<3>, tmatrix<3,3>, stensor<3>, tensor<3>, st2tost2<3>.
Each program is emitted twice as C++ templated on the scalar type: `lazy` (the TFEL expression, assigned to an object)
and `eager` (naive scalar code on the components read through operator[] / operator()), from the SAME tree."""

KINDS = {"V": ("tvector<3u, T>", 1, 3), "M": ("tmatrix<3u, 3u, T>", 2, 3), "S": ("stensor<3u, T>", 1, 6),
         "T": ("tensor<3u, T>", 1, 9), "D": ("st2tost2<3u, T>", 2, 6)}
NOPER = 3  # operands per kind
CONSTS = ["T(2)", "T(3)", "T(5) / T(4)", "x0", "x1", "T(7)"]
DIVS = ["T(2)", "T(3)", "T(4)"]


def gen_expr(rng, kind, depth):
    """tree: ('leaf', kind, k) ('add'|'sub', a, b) ('neg', a) ('scl', c, a) ('scr', a, c) ('div', a, c) ('prod', kind, a, b)"""
    if depth <= 0 or rng.random() < 0.2:
        return ("leaf", kind, rng.randrange(NOPER))
    r = rng.random()
    if r < 0.3:
        return (rng.choice(["add", "sub"]), gen_expr(rng, kind, depth - 1), gen_expr(rng, kind, depth - 1))
    if r < 0.4:
        return ("neg", gen_expr(rng, kind, depth - 1))
    if r < 0.55:
        return ("scl", rng.choice(CONSTS), gen_expr(rng, kind, depth - 1))
    if r < 0.65:
        return ("scr", gen_expr(rng, kind, depth - 1), rng.choice(CONSTS))
    if r < 0.75:
        return ("div", gen_expr(rng, kind, depth - 1), rng.choice(DIVS))
    if kind == "V":
        return ("prod", "MV", gen_expr(rng, "M", depth - 1), gen_expr(rng, "V", depth - 1))
    if kind == "S":
        return ("prod", "DS", gen_expr(rng, "D", depth - 1), gen_expr(rng, "S", depth - 1))
    if kind == "M":
        # operands of tmatrix * tmatrix must be objects: TMatrixTMatrixExpr does not accept temporaries (does not compile)
        return ("prod", "MM", ("leaf", "M", rng.randrange(NOPER)), ("leaf", "M", rng.randrange(NOPER)))
    return (rng.choice(["add", "sub"]), gen_expr(rng, kind, depth - 1), gen_expr(rng, kind, depth - 1))


def lazy(e):
    t = e[0]
    if t == "leaf":
        return "%s%d" % (e[1].lower(), e[2])
    if t == "add":
        return "(%s + %s)" % (lazy(e[1]), lazy(e[2]))
    if t == "sub":
        return "(%s - %s)" % (lazy(e[1]), lazy(e[2]))
    if t == "neg":
        return "(-%s)" % lazy(e[1])
    if t == "scl":
        return "((%s) * %s)" % (e[1], lazy(e[2]))
    if t == "scr":
        return "(%s * (%s))" % (lazy(e[1]), e[2])
    if t == "div":
        return "(%s / (%s))" % (lazy(e[1]), e[2])
    return "(%s * %s)" % (lazy(e[2]), lazy(e[3]))


def comp(e, idx):
    """scalar C++ expression of component idx (tuple) computed naively"""
    t = e[0]
    if t == "leaf":
        n = "%s%d" % (e[1].lower(), e[2])
        return "%s[%d]" % (n, idx[0]) if len(idx) == 1 else "%s(%d, %d)" % (n, idx[0], idx[1])
    if t == "add":
        return "(%s + %s)" % (comp(e[1], idx), comp(e[2], idx))
    if t == "sub":
        return "(%s - %s)" % (comp(e[1], idx), comp(e[2], idx))
    if t == "neg":
        return "(-%s)" % comp(e[1], idx)
    if t == "scl":
        return "((%s) * %s)" % (e[1], comp(e[2], idx))
    if t == "scr":
        return "(%s * (%s))" % (comp(e[1], idx), e[2])
    if t == "div":
        return "(%s / (%s))" % (comp(e[1], idx), e[2])
    p = e[1]
    if p == "MV":
        return "(" + " + ".join("%s * %s" % (comp(e[2], (idx[0], j)), comp(e[3], (j,))) for j in range(3)) + ")"
    if p == "DS":
        return "(" + " + ".join("%s * %s" % (comp(e[2], (idx[0], j)), comp(e[3], (j,))) for j in range(6)) + ")"
    return "(" + " + ".join("%s * %s" % (comp(e[2], (idx[0], j)), comp(e[3], (j, idx[1]))) for j in range(3)) + ")"


def indices(kind):
    _, ar, n = KINDS[kind]
    return [(i,) for i in range(n)] if ar == 1 else [(i, j) for i in range(n) for j in range(n)]


def var_names():
    """all scalar inputs, in the order of the input vector"""
    names = ["x0", "x1"]
    for k in "VMSTD":
        for o in range(NOPER):
            for idx in indices(k):
                names.append("%s%d_%s" % (k.lower(), o, "_".join(str(i) for i in idx)))
    return names


def decls():
    """C++ that builds the operands from the input vector `in`"""
    L = ["  size_t p = 0;", "  const T x0 = in[p++];", "  const T x1 = in[p++];"]
    for k in "VMSTD":
        ty, ar, n = KINDS[k]
        for o in range(NOPER):
            nm = "%s%d" % (k.lower(), o)
            L.append("  %s %s;" % (ty, nm))
            if ar == 1:
                L.append("  for (unsigned short i = 0; i < %d; ++i) %s[i] = in[p++];" % (n, nm))
            else:
                L.append("  for (unsigned short i = 0; i < %d; ++i) for (unsigned short j = 0; j < %d; ++j) %s(i, j) = in[p++];" % (n, n, nm))
    return "\n".join(L)


def program(k, kind, e):
    ty, ar, n = KINDS[kind]
    L = ["template <typename T> std::vector<T> lazy_%d(const std::vector<T>& in) {" % k, decls(),
         "  const %s r = %s;" % (ty, lazy(e)), "  std::vector<T> out;"]
    for idx in indices(kind):
        L.append("  out.push_back(%s);" % ("r[%d]" % idx[0] if ar == 1 else "r(%d, %d)" % idx))
    L += ["  return out;", "}", "template <typename T> std::vector<T> eager_%d(const std::vector<T>& in) {" % k, decls(), "  std::vector<T> out;"]
    for idx in indices(kind):
        L.append("  out.push_back(%s);" % comp(e, idx))
    L += ["  return out;", "}"]
    return "\n".join(L)


def translation_unit(progs):
    names = var_names()
    L = ['#include "symtfel.hxx"', '#include <vector>', '#include <random>', '#include <cstring>', '#include <cstdio>', '#include <cmath>',
         '#include "TFEL/Math/tvector.hxx"', '#include "TFEL/Math/tmatrix.hxx"', '#include "TFEL/Math/stensor.hxx"', '#include "TFEL/Math/tensor.hxx"',
         '#include "TFEL/Math/st2tost2.hxx"', 'using namespace tfel::math;', 'using symv::Sym;', '#pragma GCC diagnostic ignored "-Wunused-variable"',
         '#pragma GCC diagnostic ignored "-Wunused-but-set-variable"']
    for k, (kind, e) in enumerate(progs):
        L.append(program(k, kind, e))
    L.append("static const char* names[] = {" + ", ".join('"%s"' % n for n in names) + "};")
    L.append("constexpr int NIN = %d;" % len(names))
    L.append("""
template <typename F, typename G, typename FD, typename GD>
static void one(symv::Trace& tr, int k, F lz, G eg, FD lzd, GD egd, unsigned seed) {
  std::vector<Sym> in;
  for (int i = 0; i < NIN; ++i) in.push_back(symv::var(names[i]));
  const auto a = lz(in);
  const auto b = eg(in);
  tr.def("lazy_" + std::to_string(k), in, a);
  tr.def("eager_" + std::to_string(k), in, b);
  // Sym-vs-double agreement and direct lazy-vs-eager execution on seeded inputs
  std::mt19937 rng(seed + 977u * unsigned(k));
  std::uniform_real_distribution<double> U(-2., 2.);
  for (int t = 0; t < 3; ++t) {
    std::vector<double> din;
    symv::Env env;
    for (int i = 0; i < NIN; ++i) { din.push_back(U(rng)); env[names[i]] = din.back(); }
    const auto da = lzd(din);
    const auto db = egd(din);
    for (size_t c = 0; c < da.size(); ++c) {
      const long double sa = symv::eval(a[c], env);
      const double scale = std::fabs(double(sa)) + std::fabs(db[c]) + 1;
      const bool ok1 = std::fabs(double(sa) - da[c]) <= 1e-11 * scale * 64;
      const bool ok2 = std::fabs(da[c] - db[c]) <= 1e-11 * scale * 64;
      std::printf("%s %d %zu %.17g %.17g %.17g\\n", ok1 && ok2 ? "AGREE" : (ok1 ? "EXEC-FAIL" : "AGREE-FAIL"), k, c, double(sa), da[c], db[c]);
      if (!(ok1 && ok2)) { std::printf("INPUT %d", k); for (double x : din) std::printf(" %.17g", x); std::printf("\\n"); }
    }
  }
}
int main(int argc, char** argv) {
  if (argc < 3) return 2;
  symv::Trace tr("C17_gen");
  const unsigned seed = unsigned(std::strtoul(argv[2], nullptr, 10));""")
    for k in range(len(progs)):
        L.append("  one(tr, %d, lazy_%d<Sym>, eager_%d<Sym>, lazy_%d<double>, eager_%d<double>, seed);" % (k, k, k, k, k))
    L.append("  tr.write(argv[1]);\n  return 0;\n}")
    return "\n".join(L) + "\n"


def properties(progs):
    names = " ".join(var_names())
    L = ["(* GENERATED by props/C17/check.py: one theorem per generated expression program *)",
         "From Coq Require Import Reals List.", "From C17 Require Import C17_gen.", "Import ListNotations.", "Local Open Scope R_scope.",
         "Ltac list_eq := lazymatch goal with",
         "  | |- cons _ _ = cons _ _ => apply f_equal2; [ first [ reflexivity | ring | field ] | list_eq ]",
         "  | |- nil = nil => reflexivity end.", ""]
    for k, (kind, e) in enumerate(progs):
        L.append("(* %s : r = %s *)" % (KINDS[kind][0], lazy(e)[:400]))
        L.append("Theorem C17_program_%d : forall %s : R,\n  lazy_%d %s = eager_%d %s." % (k, names, k, names, k, names))
        L.append("Proof. intros. unfold lazy_%d, eager_%d. cbv zeta. list_eq. Qed." % (k, k))
        L.append("Print Assumptions C17_program_%d.\n" % k)
    return "\n".join(L)

"""C17 program generator: random expression programs over tvector<3>, tmatrix<3,3>, stensor<3>, tensor<3>, st2tost2<3>.
Each program is emitted twice as C++ templated on the scalar type: `lazy` (the TFEL expression, assigned to an object)
and `eager` (naive scalar code on the components read through operator[] / operator()), from the SAME tree."""

KINDS = {"V": ("tvector<3u, T>", 1, 3), "M": ("tmatrix<3u, 3u, T>", 2, 3), "S": ("stensor<3u, T>", 1, 6),
         "T": ("tensor<3u, T>", 1, 9), "D": ("st2tost2<3u, T>", 2, 6)}
NOPER = 3  # operands per kind
NQ = 2       # 4x4 matrices q0, q1 (sources of slices and sub-matrices)
NBUF = 48    # external buffer `buf` (views on external memory: View, CoalescedView, StridedCoalescedView)
PTRS = {"pt0": [9, 4, 20], "pt1": [0, 13, 7], "ps0": [5, 17, 2, 11, 30, 23]}   # pointer tables of the coalesced views (offsets in buf)
CONSTS = ["T(2)", "T(3)", "T(5) / T(4)", "x0", "x1", "T(7)"]
DIVS = ["T(2)", "T(3)", "T(4)"]


def gen_expr(rng, kind, depth, pview=0.0, leaf=None, elementwise=False):
    """tree: ('leaf', kind, k) ('vleaf', ...) ('add'|'sub', a, b) ('neg', a) ('scl', c, a) ('scr', a, c) ('div', a, c) ('prod', kind, a, b)
    pview: probability that a leaf is a view; leaf: callback giving the leaves (aliasing programs); elementwise: no products"""
    def G(k, d):
        return gen_expr(rng, k, d, pview, leaf if k == kind else None, elementwise)
    if depth <= 0 or rng.random() < 0.2:
        if leaf is not None:
            return leaf(rng)
        if rng.random() < pview:
            return view_leaf(rng, kind)
        return ("leaf", kind, rng.randrange(NOPER))
    r = rng.random()
    if r < 0.3 or (elementwise and r >= 0.75):
        return (rng.choice(["add", "sub"]), G(kind, depth - 1), G(kind, depth - 1))
    if r < 0.4:
        return ("neg", G(kind, depth - 1))
    if r < 0.55:
        return ("scl", rng.choice(CONSTS), G(kind, depth - 1))
    if r < 0.65:
        return ("scr", G(kind, depth - 1), rng.choice(CONSTS))
    if r < 0.75:
        return ("div", G(kind, depth - 1), rng.choice(DIVS))
    if kind == "V":
        return ("prod", "MV", G("M", depth - 1), G("V", depth - 1))
    if kind == "S":
        return ("prod", "DS", G("D", depth - 1), G("S", depth - 1))
    if kind == "M":
        # operands of tmatrix * tmatrix must be objects: TMatrixTMatrixExpr does not accept temporaries (does not compile)
        return ("prod", "MM", ("leaf", "M", rng.randrange(NOPER)), ("leaf", "M", rng.randrange(NOPER)))
    return (rng.choice(["add", "sub"]), G(kind, depth - 1), G(kind, depth - 1))


def _flat(kind, idx):
    return idx[0] if len(idx) == 1 else idx[0] * KINDS[kind][2] + idx[1]


def view_leaf(rng, kind, containers=None, mutable=False):
    """a view used as an operand: ('vleaf', kind, C++ expression, {idx: naive scalar C++}, {idx: (container, flat address)}).
    The naive scalar reads the cell directly (matrix(i, j) / buf[k]): it never goes through a view."""
    c = "c" if (rng.random() < 0.5 and not mutable) else ""     # through a const reference or not
    opts = []
    if kind == "V":
        o, q = rng.randrange(NOPER), rng.randrange(NQ)
        I3, I4, J = rng.randrange(3), rng.randrange(4), rng.randrange(2)
        S, O = rng.choice([1, 2, 3, 5]), rng.randrange(6)
        opts = [("%sm%d.template row_view<%d>()" % (c, o, I3), lambda k: ("m%d(%d, %d)" % (o, I3, k), ("m%d" % o, 3 * I3 + k))),
                ("%sm%d.template column_view<%d>()" % (c, o, I3), lambda k: ("m%d(%d, %d)" % (o, k, I3), ("m%d" % o, 3 * k + I3))),
                ("%sq%d.template row_view<%d, %d, 3>()" % (c, q, I4, J), lambda k: ("q%d(%d, %d)" % (q, I4, J + k), ("q%d" % q, 4 * I4 + J + k))),
                ("%sq%d.template column_view<%d, %d, 3>()" % (c, q, I4, J), lambda k: ("q%d(%d, %d)" % (q, J + k, I4), ("q%d" % q, 4 * (J + k) + I4))),
                ("%sq%d.template column_view<%d, %d, 3>()" % (c, q, I4, J), lambda k: ("q%d(%d, %d)" % (q, J + k, I4), ("q%d" % q, 4 * (J + k) + I4))),
                ("map<%stvector<3u, T>, FixedSizeVectorIndexingPolicy<unsigned short, 3, %d>>(%sbuf + %d)" % ("const " if c else "", S, c, O),
                 lambda k: ("buf[%d]" % (O + k * S), ("buf", O + k * S))),
                ("map_strided<%stvector<3u, T>>(%sbuf + %d, static_cast<unsigned short>(%d))" % ("const " if c else "", c, O, S),
                 lambda k: ("buf[%d]" % (O + k * S), ("buf", O + k * S)))]
        for nm in ("pt0", "pt1"):
            opts.append(("map<%stvector<3u, T>>(%s%s)" % ("const " if c else "", c, nm), lambda k, nm=nm: ("buf[%d]" % PTRS[nm][k], ("buf", PTRS[nm][k]))))
    elif kind == "M":
        q, I, J = rng.randrange(NQ), rng.randrange(2), rng.randrange(2)
        S, O = rng.choice([3, 4, 5]), rng.randrange(8)
        opts = [("%sq%d.template submatrix_view<%d, %d, 3, 3>()" % (c, q, I, J), lambda k: ("q%d(%d, %d)" % (q, I + k // 3, J + k % 3), ("q%d" % q, 4 * (I + k // 3) + J + k % 3))),
                ("map<%stmatrix<3u, 3u, T>, FixedSizeRowMajorMatrixIndexingPolicy<unsigned short, 3, 3, %d>>(%sbuf + %d)" % ("const " if c else "", S, c, O),
                 lambda k: ("buf[%d]" % (O + (k // 3) * S + k % 3), ("buf", O + (k // 3) * S + k % 3)))]
    elif kind == "S":
        S, O = rng.choice([1, 2, 3]), rng.randrange(8)
        opts = [("map<%sstensor<3u, T>>(%sbuf + %d)" % ("const " if c else "", c, O), lambda k: ("buf[%d]" % (O + k), ("buf", O + k))),
                ("map_strided<%sstensor<3u, T>>(%sbuf + %d, static_cast<unsigned short>(%d))" % ("const " if c else "", c, O, S),
                 lambda k: ("buf[%d]" % (O + k * S), ("buf", O + k * S))),
                ("map<%sstensor<3u, T>>(%sps0)" % ("const " if c else "", c), lambda k: ("buf[%d]" % PTRS["ps0"][k], ("buf", PTRS["ps0"][k])))]
    elif kind == "T":
        O = rng.randrange(12)
        opts = [("map<%stensor<3u, T>>(%sbuf + %d)" % ("const " if c else "", c, O), lambda k: ("buf[%d]" % (O + k), ("buf", O + k)))]
    else:
        O = rng.randrange(12)
        opts = [("map<%sst2tost2<3u, T>>(%sbuf + %d)" % ("const " if c else "", c, O), lambda k: ("buf[%d]" % (O + k), ("buf", O + k)))]
    if containers is not None:
        opts = [o for o in opts if any(o[1](0)[1][0] == cn for cn in containers)] or opts
    cxx, f = rng.choice(opts)
    comps, addrs = {}, {}
    for idx in indices(kind):
        sc, ad = f(_flat(kind, idx))
        comps[idx], addrs[idx] = sc, ad
    return ("vleaf", kind, cxx, comps, addrs)


def leaf_addr(e, idx):
    """(container, flat address) read by component idx of a leaf"""
    if e[0] == "vleaf":
        return e[4][idx]
    return ("%s%d" % (e[1].lower(), e[2]), _flat(e[1], idx))


def lazy(e):
    t = e[0]
    if t == "vleaf":
        return e[2]
    if t == "leaf":
        return "%s%d" % (e[1].lower(), e[2])
    if t == "add":
        return "(%s + %s)" % (lazy(e[1]), lazy(e[2]))
    if t == "sub":
        return "(%s - %s)" % (lazy(e[1]), lazy(e[2]))
    if t == "neg":
        return "(-%s)" % lazy(e[1])
    if t == "scl":
        return "((%s) * %s)" % (e[1], lazy(e[2]))
    if t == "scr":
        return "(%s * (%s))" % (lazy(e[1]), e[2])
    if t == "div":
        return "(%s / (%s))" % (lazy(e[1]), e[2])
    return "(%s * %s)" % (lazy(e[2]), lazy(e[3]))


def comp(e, idx):
    """scalar C++ expression of component idx (tuple) computed naively"""
    t = e[0]
    if t == "vleaf":
        return e[3][idx]
    if t == "leaf":
        n = "%s%d" % (e[1].lower(), e[2])
        return "%s[%d]" % (n, idx[0]) if len(idx) == 1 else "%s(%d, %d)" % (n, idx[0], idx[1])
    if t == "add":
        return "(%s + %s)" % (comp(e[1], idx), comp(e[2], idx))
    if t == "sub":
        return "(%s - %s)" % (comp(e[1], idx), comp(e[2], idx))
    if t == "neg":
        return "(-%s)" % comp(e[1], idx)
    if t == "scl":
        return "((%s) * %s)" % (e[1], comp(e[2], idx))
    if t == "scr":
        return "(%s * (%s))" % (comp(e[1], idx), e[2])
    if t == "div":
        return "(%s / (%s))" % (comp(e[1], idx), e[2])
    p = e[1]
    if p == "MV":
        return "(" + " + ".join("%s * %s" % (comp(e[2], (idx[0], j)), comp(e[3], (j,))) for j in range(3)) + ")"
    if p == "DS":
        return "(" + " + ".join("%s * %s" % (comp(e[2], (idx[0], j)), comp(e[3], (j,))) for j in range(6)) + ")"
    return "(" + " + ".join("%s * %s" % (comp(e[2], (idx[0], j)), comp(e[3], (j, idx[1]))) for j in range(3)) + ")"


def indices(kind):
    _, ar, n = KINDS[kind]
    return [(i,) for i in range(n)] if ar == 1 else [(i, j) for i in range(n) for j in range(n)]


def var_names():
    """all scalar inputs, in the order of the input vector"""
    names = ["x0", "x1"]
    for k in "VMSTD":
        for o in range(NOPER):
            for idx in indices(k):
                names.append("%s%d_%s" % (k.lower(), o, "_".join(str(i) for i in idx)))
    for o in range(NQ):
        names += ["q%d_%d_%d" % (o, i, j) for i in range(4) for j in range(4)]
    names += ["buf_%d" % i for i in range(NBUF)]
    return names


def decls():
    """C++ that builds the operands from the input vector `in`"""
    L = ["  size_t p = 0;", "  const T x0 = in[p++];", "  const T x1 = in[p++];"]
    for k in "VMSTD":
        ty, ar, n = KINDS[k]
        for o in range(NOPER):
            nm = "%s%d" % (k.lower(), o)
            L.append("  %s %s;" % (ty, nm))
            if ar == 1:
                L.append("  for (unsigned short i = 0; i < %d; ++i) %s[i] = in[p++];" % (n, nm))
            else:
                L.append("  for (unsigned short i = 0; i < %d; ++i) for (unsigned short j = 0; j < %d; ++j) %s(i, j) = in[p++];" % (n, n, nm))
            L.append("  const auto& c%s = %s;" % (nm, nm))
    for o in range(NQ):
        L.append("  tmatrix<4u, 4u, T> q%d;" % o)
        L.append("  for (unsigned short i = 0; i < 4; ++i) for (unsigned short j = 0; j < 4; ++j) q%d(i, j) = in[p++];" % o)
        L.append("  const auto& cq%d = q%d;" % (o, o))
    L.append("  T buf[%d];" % NBUF)
    L.append("  for (int i = 0; i < %d; ++i) buf[i] = in[p++];" % NBUF)
    L.append("  const T* const cbuf = buf;")
    for nm, offs in PTRS.items():
        L.append("  std::array<T*, %d> %s{%s};" % (len(offs), nm, ", ".join("buf + %d" % o for o in offs)))
        L.append("  const std::array<const T*, %d> c%s{%s};" % (len(offs), nm, ", ".join("cbuf + %d" % o for o in offs)))
    return "\n".join(L)


def container_elems(name):
    """naive accessors of every element of a container, in storage order"""
    if name == "buf":
        return ["buf[%d]" % i for i in range(NBUF)]
    if name[0] == "q":
        return ["%s(%d, %d)" % (name, i, j) for i in range(4) for j in range(4)]
    kind = name[0].upper()
    return ["%s[%d]" % (name, i[0]) if len(i) == 1 else "%s(%d, %d)" % (name, i[0], i[1]) for i in indices(kind)]


def leaves_of(e):
    if e[0] in ("leaf", "vleaf"):
        return [e]
    return [l for a in e[1:] if isinstance(a, tuple) for l in leaves_of(a)]


def gen_program(rng, k, kind):
    """(kind, expression, destination, mode).  mode 'plain': fresh object assigned from the expression (leaves may be views);
    'viewdst': the destination is a view or an existing object that the expression does not touch;
    'alias': the destination (view or object) also occurs in the (element-wise) expression, possibly with other views of the
    same container, such that no cell written at an earlier index is read at a later one (the condition of the theorem
    C17_assign_lazy_eq_eager, decided here on the address maps)."""
    mode = ("plain", "viewdst", "alias")[(k // 5) % 3]
    depth = 3 if k % 2 else 4
    if mode == "plain":
        return (kind, gen_expr(rng, kind, depth, pview=0.5), None, mode)
    for _ in range(200):
        dest = view_leaf(rng, kind, mutable=True) if rng.random() < 0.75 else ("leaf", kind, rng.randrange(NOPER))
        dcont = leaf_addr(dest, indices(kind)[0])[0]
        if mode == "viewdst":
            e = gen_expr(rng, kind, depth, pview=0.5)
            if all(leaf_addr(l, indices(l[1])[0])[0] != dcont for l in leaves_of(e)):
                return (kind, e, dest, mode)
        else:
            def leaf(r):
                x = r.random()
                if x < 0.4:
                    return dest
                if x < 0.8:
                    return view_leaf(r, kind, containers=[dcont])
                return ("leaf", kind, r.randrange(NOPER)) if r.random() < 0.5 else view_leaf(r, kind)
            e = gen_expr(rng, kind, depth, leaf=leaf, elementwise=True)
            ls = leaves_of(e)
            if not any(l is dest for l in ls):
                continue
            order = indices(kind)
            ok = True
            for a, ik in enumerate(order):
                reads = {leaf_addr(l, ik) for l in ls}
                if any(leaf_addr(dest, order[b]) in reads for b in range(a)):
                    ok = False
                    break
            if ok:
                return (kind, e, dest, mode)
    return (kind, gen_expr(rng, kind, depth, pview=0.5), None, "plain")


def program(k, kind, e, dest=None):
    ty, ar, n = KINDS[kind]
    L = ["template <typename T> std::vector<T> lazy_%d(const std::vector<T>& in) {" % k, decls()]
    if dest is None:
        L += ["  const %s r = %s;" % (ty, lazy(e)), "  std::vector<T> out;"]
        for idx in indices(kind):
            L.append("  out.push_back(%s);" % ("r[%d]" % idx[0] if ar == 1 else "r(%d, %d)" % idx))
        L += ["  return out;", "}", "template <typename T> std::vector<T> eager_%d(const std::vector<T>& in) {" % k, decls(), "  std::vector<T> out;"]
        for idx in indices(kind):
            L.append("  out.push_back(%s);" % comp(e, idx))
    else:
        # assignment through the destination (a view or an existing object); the whole underlying container is observed
        cont = leaf_addr(dest, indices(kind)[0])[0]
        elems = container_elems(cont)
        L += ["  %s = %s;" % (lazy(dest), lazy(e)), "  std::vector<T> out;"]
        for a in elems:
            L.append("  out.push_back(%s);" % a)
        L += ["  return out;", "}", "template <typename T> std::vector<T> eager_%d(const std::vector<T>& in) {" % k, decls(), "  std::vector<T> out;"]
        cellof = {leaf_addr(dest, idx)[1]: idx for idx in indices(kind)}
        for flat, a in enumerate(elems):
            L.append("  out.push_back(%s);" % (comp(e, cellof[flat]) if flat in cellof else a))
    L += ["  return out;", "}"]
    return "\n".join(L)


def describe(p):
    kind, e, dest, mode = p
    return lazy(e) if dest is None else "%s = %s" % (lazy(dest), lazy(e))


def translation_unit(progs):
    names = var_names()
    L = ['#include "symtfel.hxx"', '#include <vector>', '#include <random>', '#include <cstring>', '#include <cstdio>', '#include <cmath>', '#include <array>',
         '#include "TFEL/Math/tvector.hxx"', '#include "TFEL/Math/tmatrix.hxx"', '#include "TFEL/Math/stensor.hxx"', '#include "TFEL/Math/tensor.hxx"',
         '#include "TFEL/Math/st2tost2.hxx"', '#include "TFEL/Math/Array/View.hxx"', '#include "TFEL/Math/Array/CoalescedView.hxx"',
         '#include "TFEL/Math/Array/StridedCoalescedView.hxx"', 'using namespace tfel::math;', 'using symv::Sym;', '#pragma GCC diagnostic ignored "-Wunused-variable"',
         '#pragma GCC diagnostic ignored "-Wunused-but-set-variable"']
    for k, (kind, e, dest, mode) in enumerate(progs):
        L.append(program(k, kind, e, dest))
    L.append("static const char* names[] = {" + ", ".join('"%s"' % n for n in names) + "};")
    L.append("constexpr int NIN = %d;" % len(names))
    L.append("""
template <typename F, typename G, typename FD, typename GD>
static void one(symv::Trace& tr, int k, F lz, G eg, FD lzd, GD egd, unsigned seed) {
  std::vector<Sym> in;
  for (int i = 0; i < NIN; ++i) in.push_back(symv::var(names[i]));
  const auto a = lz(in);
  const auto b = eg(in);
  tr.def("lazy_" + std::to_string(k), in, a);
  tr.def("eager_" + std::to_string(k), in, b);
  // Sym-vs-double agreement and direct lazy-vs-eager execution on seeded inputs
  std::mt19937 rng(seed + 977u * unsigned(k));
  std::uniform_real_distribution<double> U(-2., 2.);
  for (int t = 0; t < 3; ++t) {
    std::vector<double> din;
    symv::Env env;
    for (int i = 0; i < NIN; ++i) { din.push_back(U(rng)); env[names[i]] = din.back(); }
    const auto da = lzd(din);
    const auto db = egd(din);
    for (size_t c = 0; c < da.size(); ++c) {
      const long double sa = symv::eval(a[c], env);
      const double scale = std::fabs(double(sa)) + std::fabs(db[c]) + 1;
      const bool ok1 = std::fabs(double(sa) - da[c]) <= 1e-11 * scale * 64;
      const bool ok2 = std::fabs(da[c] - db[c]) <= 1e-11 * scale * 64;
      std::printf("%s %d %zu %.17g %.17g %.17g\\n", ok1 && ok2 ? "AGREE" : (ok1 ? "EXEC-FAIL" : "AGREE-FAIL"), k, c, double(sa), da[c], db[c]);
      if (!(ok1 && ok2)) { std::printf("INPUT %d", k); for (double x : din) std::printf(" %.17g", x); std::printf("\\n"); }
    }
  }
}
int main(int argc, char** argv) {
  if (argc < 3) return 2;
  symv::Trace tr("C17_gen");
  const unsigned seed = unsigned(std::strtoul(argv[2], nullptr, 10));""")
    for k in range(len(progs)):
        L.append("  one(tr, %d, lazy_%d<Sym>, eager_%d<Sym>, lazy_%d<double>, eager_%d<double>, seed);" % (k, k, k, k, k))
    L.append("  tr.write(argv[1]);\n  return 0;\n}")
    return "\n".join(L) + "\n"


def properties(progs):
    names = " ".join(var_names())
    L = ["(* GENERATED by props/C17/check.py: one theorem per generated expression program *)",
         "From Coq Require Import Reals List.", "From C17 Require Import C17_gen.", "Import ListNotations.", "Local Open Scope R_scope.",
         "Ltac list_eq := lazymatch goal with",
         "  | |- cons _ _ = cons _ _ => apply f_equal2; [ first [ reflexivity | ring | field ] | list_eq ]",
         "  | |- nil = nil => reflexivity end.", ""]
    for k, p in enumerate(progs):
        L.append("(* %s, %s : %s *)" % (KINDS[p[0]][0], p[3], describe(p)[:400]))
        L.append("Theorem C17_program_%d : forall %s : R,\n  lazy_%d %s = eager_%d %s." % (k, names, k, names, k, names))
        L.append("Proof. intros. unfold lazy_%d, eager_%d. cbv zeta. list_eq. Qed." % (k, k))
        L.append("Print Assumptions C17_program_%d.\n" % k)
    return "\n".join(L)

(* C17 -- proofs about the assignment model (C17Alias.v) *)
From Coq Require Import Arith List Lia Bool.
From C17 Require Import C17Spec C17Model C17Views C17Alias.
Import ListNotations.

Section Suff.
  Variable A : Type.
  Variables (n : nat) (dst : nat -> nat) (e : nat -> store A -> A) (reads : nat -> nat -> Prop).
  Hypothesis Hresp : respects e reads.
  Hypothesis Hnb : no_backward_read n dst reads.

  (* invariant: after the components < k the current storage differs from the initial one only on cells dst k', k' < k *)
  Lemma lazy_eager_from cnt : forall k st st0, k + cnt = n ->
    (forall a, (forall k', k' < k -> a <> dst k') -> st a = st0 a) ->
    forall a, lazy_from dst e k cnt st a = eager_from dst e st0 k cnt st a.
  Proof.
    induction cnt as [|c IH]; intros k st st0 Hk Hinv a; cbn; [reflexivity|].
    assert (E : e k st = e k st0).
    { apply Hresp. intros x Hx. apply Hinv. intros k' Hk' ->. apply (Hnb k' k); [assumption | lia | assumption]. }
    rewrite E. apply IH; [lia|].
    intros x Hx. unfold upd. destruct (Nat.eqb_spec x (dst k)) as [->|Hne].
    - exfalso. apply (Hx k); [lia | reflexivity].
    - apply Hinv. intros k' Hk'. apply Hx. lia.
  Qed.
End Suff.

Definition assign_lazy_eq_eager_ok : Prop :=
  forall (A : Type) n dst (e : nat -> store A -> A) reads, respects e reads -> no_backward_read n dst reads ->
    forall st a, assign_lazy n dst e st a = assign_eager n dst e st a.
Lemma assign_lazy_eq_eager : assign_lazy_eq_eager_ok.
Proof.
  intros A n dst e reads Hr Hn st a. unfold assign_lazy, assign_eager.
  apply (lazy_eager_from A n dst e reads Hr Hn n 0 st st); [lia | reflexivity].
Qed.
(* same-layout aliasing: every destination cell read only at its own index *)
Definition assign_own_index_ok : Prop :=
  forall (A : Type) n dst (e : nat -> store A -> A) reads, respects e reads -> own_index_only n dst reads ->
    forall st a, assign_lazy n dst e st a = assign_eager n dst e st a.
Lemma assign_own_index : assign_own_index_ok.
Proof.
  intros A n dst e reads Hr Ho. apply (assign_lazy_eq_eager A n dst e reads Hr).
  intros k' k Hlt Hk Hread. assert (k' = k) by (apply (Ho k k'); [lia | lia | exact Hread]). lia.
Qed.

(* ---- the condition cannot be dropped: for any backward read there is an expression with these read sets on which the
   lazy assignment differs from the eager one *)
Section Nec.
  Variable A : Type.
  Variables (n : nat) (dst : nat -> nat).
  Lemma lazy_from_outside (e : nat -> store A -> A) cnt : forall k0 st x, (forall j, k0 <= j < k0 + cnt -> dst j <> x) ->
    lazy_from dst e k0 cnt st x = st x.
  Proof.
    induction cnt as [|c IH]; intros k0 st x H; cbn; [reflexivity|].
    rewrite IH by (intros j Hj; apply H; lia). unfold upd.
    destruct (Nat.eqb_spec x (dst k0)) as [->|]; [exfalso; apply (H k0); [lia | reflexivity] | reflexivity].
  Qed.
  Lemma eager_from_outside (e : nat -> store A -> A) st0 cnt : forall k0 st x, (forall j, k0 <= j < k0 + cnt -> dst j <> x) ->
    eager_from dst e st0 k0 cnt st x = st x.
  Proof.
    induction cnt as [|c IH]; intros k0 st x H; cbn; [reflexivity|].
    rewrite IH by (intros j Hj; apply H; lia). unfold upd.
    destruct (Nat.eqb_spec x (dst k0)) as [->|]; [exfalso; apply (H k0); [lia | reflexivity] | reflexivity].
  Qed.
  Lemma lazy_from_split (e : nat -> store A -> A) c1 : forall c2 k0 st,
    lazy_from dst e k0 (c1 + c2) st = lazy_from dst e (k0 + c1) c2 (lazy_from dst e k0 c1 st).
  Proof.
    induction c1 as [|c IH]; intros c2 k0 st; cbn; [now rewrite Nat.add_0_r|].
    rewrite IH. now replace (S k0 + c) with (k0 + S c) by lia.
  Qed.
  Lemma eager_from_split (e : nat -> store A -> A) st0 c1 : forall c2 k0 st,
    eager_from dst e st0 k0 (c1 + c2) st = eager_from dst e st0 (k0 + c1) c2 (eager_from dst e st0 k0 c1 st).
  Proof.
    induction c1 as [|c IH]; intros c2 k0 st; cbn; [now rewrite Nat.add_0_r|].
    rewrite IH. now replace (S k0 + c) with (k0 + S c) by lia.
  Qed.
End Nec.

Definition assign_backward_read_differs_ok : Prop :=
  forall (A : Type) (a b : A), a <> b ->
  forall n dst (reads : nat -> nat -> Prop) k' k, injective_on1 n dst -> k' < k -> k < n -> reads k (dst k') ->
    exists e : nat -> store A -> A, respects e reads /\
      exists st, assign_lazy n dst e st (dst k) <> assign_eager n dst e st (dst k).
Lemma assign_backward_read_differs : assign_backward_read_differs_ok.
Proof.
  intros A a b Hab n dst reads k' k Hinj Hlt Hk Hread.
  set (e := fun (j : nat) (st : store A) => if j =? k' then b else if j =? k then st (dst k') else a).
  exists e. split.
  - intros j st st' H. unfold e. destruct (j =? k'); [reflexivity|].
    destruct (Nat.eqb_spec j k) as [->|]; [ now apply H | reflexivity ].
  - exists (fun _ => a).
    assert (Hn : n = k' + (1 + ((k - k' - 1) + (1 + (n - k - 1))))) by lia.
    assert (Hdk : forall j, j < n -> j <> k -> dst j <> dst k) by (intros j Hj Hne E; apply Hne; now apply Hinj).
    assert (Hdk' : forall j, j < n -> j <> k' -> dst j <> dst k') by (intros j Hj Hne E; apply Hne; apply Hinj; [assumption | lia | assumption]).
    assert (Ek : k' + 1 + (k - k' - 1) = k) by lia.
    assert (L : assign_lazy n dst e (fun _ => a) (dst k) = b).
    { unfold assign_lazy. rewrite Hn. rewrite lazy_from_split. cbn [Nat.add]. rewrite (lazy_from_split A dst e 1). cbn [lazy_from].
      rewrite lazy_from_split. rewrite (lazy_from_split A dst e 1). cbn [lazy_from].
      rewrite lazy_from_outside by (intros j Hj; apply Hdk; lia).
      rewrite ?Nat.add_0_l, Ek.
      unfold upd at 1. rewrite Nat.eqb_refl. unfold e at 1.
      destruct (Nat.eqb_spec k k'); [lia|]. rewrite Nat.eqb_refl.
      rewrite lazy_from_outside by (intros j Hj; apply Hdk'; lia).
      unfold upd. rewrite Nat.eqb_refl. unfold e. now rewrite ?Nat.add_0_l, Nat.eqb_refl. }
    assert (R : assign_eager n dst e (fun _ => a) (dst k) = a).
    { unfold assign_eager. rewrite Hn. rewrite eager_from_split. cbn [Nat.add]. rewrite (eager_from_split A dst e _ 1). cbn [eager_from].
      rewrite eager_from_split. rewrite (eager_from_split A dst e _ 1). cbn [eager_from].
      rewrite eager_from_outside by (intros j Hj; apply Hdk; lia).
      rewrite ?Nat.add_0_l, Ek.
      unfold upd at 1. rewrite Nat.eqb_refl. unfold e.
      destruct (Nat.eqb_spec k k'); [lia|]. now rewrite Nat.eqb_refl. }
    rewrite L, R. intro E. now apply Hab.
Qed.

(* a concrete instance: a = shift_right(a) on three cells (a[k] = a[k-1], a[0] kept) *)
Definition shift_example_ok : Prop :=
  let e := fun (k : nat) (st : store nat) => st (k - 1) in
  map (assign_lazy 3 (fun k => k) e tagged) [0; 1; 2] = [0; 0; 0] /\
  map (assign_eager 3 (fun k => k) e tagged) [0; 1; 2] = [0; 0; 1].
Lemma shift_example : shift_example_ok.
Proof. split; reflexivity. Qed.

(* C17 -- model of the assignment `dst = expr` of the TFEL arrays and views (ArrayCommonMethods.ixx / CoalescedView::assign):
   element-wise, in index order, the expression being evaluated lazily on the CURRENT content of the storage; and of the
   eager reference (all components evaluated first, then written).  Definitions only. *)
From Coq Require Import Arith List.
From C17 Require Import C17Views.
Import ListNotations.

Section Assign.
  Variable A : Type.
  Variable n : nat.                       (* number of components of the destination *)
  Variable dst : nat -> nat.              (* address of component k of the destination (a view address map) *)
  Variable e : nat -> store A -> A.       (* value of component k of the expression, reading the storage *)
  (* lazy (what the code does): for k = 0 .. n-1: st[dst k] := e k st *)
  Fixpoint lazy_from (k cnt : nat) (st : store A) : store A :=
    match cnt with 0 => st | S c => lazy_from (S k) c (upd st (dst k) (e k st)) end.
  Definition assign_lazy (st : store A) : store A := lazy_from 0 n st.
  (* eager (naive code): for k = 0 .. n-1: st[dst k] := e k st0 with st0 the storage before the assignment *)
  Fixpoint eager_from (st0 : store A) (k cnt : nat) (st : store A) : store A :=
    match cnt with 0 => st | S c => eager_from st0 (S k) c (upd st (dst k) (e k st0)) end.
  Definition assign_eager (st : store A) : store A := eager_from st 0 n st.
  (* `reads k a`: the evaluation of component k may read address a; e respects reads when its value only depends on them *)
  Definition respects (reads : nat -> nat -> Prop) : Prop :=
    forall k st st', (forall a, reads k a -> st a = st' a) -> e k st = e k st'.
End Assign.
Arguments lazy_from {A} dst e k cnt st.
Arguments assign_lazy {A} n dst e st.
Arguments eager_from {A} dst e st0 k cnt st.
Arguments assign_eager {A} n dst e st.
Arguments respects {A} e reads.

(* no destination cell written at an earlier index is read at a later index *)
Definition no_backward_read (n : nat) (dst : nat -> nat) (reads : nat -> nat -> Prop) : Prop :=
  forall k' k, k' < k -> k < n -> ~ reads k (dst k').
(* every destination cell is read only at its own index (what same-layout aliasing `a = f(a, b..)` component-wise gives) *)
Definition own_index_only (n : nat) (dst : nat -> nat) (reads : nat -> nat -> Prop) : Prop :=
  forall k k', k < n -> k' < n -> reads k (dst k') -> k' = k.

(* C17 (b') views and (c) aliasing -- for ALL sizes, offsets, strides in range.  Statements: C17ViewsProofs.v / C17AliasProofs.v
   (definitions `*_ok`), models: C17Views.v, C17Alias.v. *)
From Coq Require Import Arith List.
From C17 Require Import C17Spec C17Model C17Proofs C17Views C17Alias C17ViewsProofs C17AliasProofs.

(* tmatrix<N,M>::row_view<I>() / row_view<I,J,K>(): injective, image = the cells (I, J..J+K-1), inside the matrix *)
Theorem C17_row_view : forall N M I, row_view_ok N M I.
Proof. exact row_view_correct. Qed.
Print Assumptions C17_row_view.
Theorem C17_row_slice_view : forall N M I J K, row_slice_ok N M I J K.
Proof. exact row_slice_correct. Qed.
Print Assumptions C17_row_slice_view.
(* column_view<I>() / column_view<I,J,K>() (I: column, J: first row, K: length): image = the cells (J..J+K-1, I) *)
Theorem C17_column_view : forall N M I, column_view_ok N M I.
Proof. exact column_view_correct. Qed.
Print Assumptions C17_column_view.
Theorem C17_column_slice_view : forall N M I J K, column_slice_ok N M I J K.
Proof. exact column_slice_correct. Qed.
Print Assumptions C17_column_slice_view.
(* submatrix_view<I,J,R,C>(): image = the block [I, I+R) x [J, J+C) *)
Theorem C17_submatrix_view : forall N M I J R C, submatrix_ok N M I J R C.
Proof. exact submatrix_correct. Qed.
Print Assumptions C17_submatrix_view.
(* View on external memory with a strided vector / row-major matrix policy; CoalescedView; StridedCoalescedView *)
Theorem C17_external_vector_view : forall org stride n, external_vector_view_ok org stride n.
Proof. exact external_vector_view_correct. Qed.
Print Assumptions C17_external_vector_view.
Theorem C17_external_matrix_view : forall org stride r c, external_matrix_view_ok org stride r c.
Proof. exact external_matrix_view_correct. Qed.
Print Assumptions C17_external_matrix_view.
Theorem C17_coalesced_view : forall ptrs r c, coalesced_view_ok ptrs r c.
Proof. exact coalesced_view_correct. Qed.
Print Assumptions C17_coalesced_view.
Theorem C17_strided_coalesced_view : forall org stride n, strided_coalesced_view_ok org stride n.
Proof. exact strided_coalesced_view_correct. Qed.
Print Assumptions C17_strided_coalesced_view.
(* reading through a view = reading the cell; writing through a view changes exactly that cell *)
Theorem C17_read_through_views : read_through_views_ok.
Proof. exact read_through_views_correct. Qed.
Print Assumptions C17_read_through_views.
Theorem C17_write_through_view : write_through_view_ok.
Proof. exact write_through_view_correct. Qed.
Print Assumptions C17_write_through_view.
Theorem C17_write_through_view_matrix_cells : write_matrix_cells_ok.
Proof. exact write_matrix_cells_correct. Qed.
Print Assumptions C17_write_through_view_matrix_cells.

(* (c) aliasing: element-wise assignment in index order = eager code when no cell written earlier is read later; in
   particular when every destination cell is read only at its own index; and the condition cannot be dropped *)
Theorem C17_assign_lazy_eq_eager : assign_lazy_eq_eager_ok.
Proof. exact assign_lazy_eq_eager. Qed.
Print Assumptions C17_assign_lazy_eq_eager.
Theorem C17_assign_own_index_aliasing : assign_own_index_ok.
Proof. exact assign_own_index. Qed.
Print Assumptions C17_assign_own_index_aliasing.
Theorem C17_assign_backward_read_differs : assign_backward_read_differs_ok.
Proof. exact assign_backward_read_differs. Qed.
Print Assumptions C17_assign_backward_read_differs.
Theorem C17_assign_shift_example : shift_example_ok.
Proof. exact shift_example. Qed.
Print Assumptions C17_assign_shift_example.

(* C17 -- model (definitions only) of the fixed-size indexing policies of include/TFEL/Math/Array/FixedSizeIndexingPolicies.hxx *)
From Coq Require Import Arith List.
Import ListNotations.

(* FixedSizeVectorIndexingPolicy<N, Stride>::getIndex(i) = i * Stride (i when Stride == 1) *)
Definition vec_index (stride i : nat) : nat := if stride =? 1 then i else i * stride.
(* ...::getUnderlyingArrayMinimalSize() = N if Stride == 1, else (N - 1) * Stride + 1 *)
Definition vec_minsize (n stride : nat) : nat := if stride =? 1 then n else (n - 1) * stride + 1.
(* FixedSizeRowMajorMatrixIndexingPolicy<N, M, Stride>::getIndex(i, j) = i * Stride + j   (static_assert Stride >= M) *)
Definition mat_index (stride i j : nat) : nat := i * stride + j.
(* the size the storage must have: last cell (N-1, M-1) + 1 *)
Definition mat_minsize (n m stride : nat) : nat := (n - 1) * stride + m.
(* the formula written in getUnderlyingArrayMinimalSize() of the pinned tree for Stride != M: (N - 1) * Stride + N *)
Definition mat_minsize_pinned (n m stride : nat) : nat := if stride =? m then n * m else (n - 1) * stride + n.
(* FixedSizeIndexingPoliciesCartesianProduct<P1, P2, Stride>::getIndex(i.., j..) = p1.getIndex(i..) * Stride + p2.getIndex(j..),
   Stride >= minimal size of P2 (default: equal) *)
Definition cart_index (stride a b : nat) : nat := a * stride + b.
Definition cart_minsize (s1 s2 stride : nat) : nat := (s1 - 1) * stride + s2.

(* C17 -- proofs about the view model (C17Views.v) and the assignment model (C17Alias.v) *)
From Coq Require Import Arith List Lia Bool.
From C17 Require Import C17Spec C17Model C17Proofs C17Views C17Alias.
Import ListNotations.

Lemma vec_index_mul s i : vec_index s i = i * s.
Proof. unfold vec_index. destruct (Nat.eqb_spec s 1); [subst; lia | reflexivity]. Qed.
Lemma cell_inj M i j i' j' : j < M -> j' < M -> cell M i j = cell M i' j' -> i = i' /\ j = j'.
Proof. unfold cell, mat_index. intros. now apply (rowmajor_inj M M). Qed.
Lemma box_lt r c i j : i < r -> j < c -> i * c + j < r * c.
Proof.
  intros Hi Hj. assert (i * c <= (r - 1) * c) by (apply Nat.mul_le_mono_r; lia).
  replace (r * c) with ((r - 1) * c + c) by (destruct r; [lia | cbn; rewrite Nat.sub_0_r; lia]). lia.
Qed.
Lemma cell_lt N M i j : i < N -> j < M -> cell M i j < N * M.
Proof. unfold cell, mat_index. apply box_lt. Qed.

(* ---- each view of a matrix addresses the intended cell *)
Lemma row_slice_cell M I J K k : vaddr (row_slice M I J K) k = cell M I (J + k).
Proof. unfold vaddr, row_slice, cell, mat_index; cbn. lia. Qed.
Lemma row_view_cell M I k : vaddr (row_view M I) k = cell M I k.
Proof. unfold vaddr, row_view, cell, mat_index; cbn. lia. Qed.
Lemma column_slice_cell M I J K k : vaddr (column_slice M I J K) k = cell M (J + k) I.
Proof. unfold vaddr, column_slice, cell, mat_index; cbn. rewrite vec_index_mul. nia. Qed.
Lemma column_view_cell N M I k : vaddr (column_view N M I) k = cell M k I.
Proof. unfold vaddr, column_view, cell, mat_index; cbn. rewrite vec_index_mul. nia. Qed.
Lemma submatrix_cell M I J R C i j : maddr (submatrix_view M I J R C) i j = cell M (I + i) (J + j).
Proof. unfold maddr, submatrix_view, cell, mat_index; cbn. nia. Qed.

Definition row_slice_ok (N M I J K : nat) : Prop :=
  I < N -> J + K <= M ->
  injective_on1 K (vaddr (row_slice M I J K)) /\
  image_is1 K (vaddr (row_slice M I J K)) (fun a => exists j, J <= j < J + K /\ a = cell M I j) /\
  (forall k, k < K -> vaddr (row_slice M I J K) k < N * M).
Lemma row_slice_correct N M I J K : row_slice_ok N M I J K.
Proof.
  intros HI HJ. split; [|split].
  - intros k k' Hk Hk' E. rewrite !row_slice_cell in E. apply cell_inj in E; lia.
  - intros a. split.
    + intros (k & Hk & E). exists (J + k). rewrite row_slice_cell in E. split; [lia | now symmetry].
    + intros (j & Hj & E). exists (j - J). split; [lia|]. rewrite row_slice_cell. subst a. f_equal. lia.
  - intros k Hk. rewrite row_slice_cell. apply cell_lt; lia.
Qed.
Definition row_view_ok (N M I : nat) : Prop :=
  I < N ->
  injective_on1 M (vaddr (row_view M I)) /\
  image_is1 M (vaddr (row_view M I)) (fun a => exists j, j < M /\ a = cell M I j) /\
  (forall k, k < M -> vaddr (row_view M I) k < N * M) /\ v_size (row_view M I) = M.
Lemma row_view_correct N M I : row_view_ok N M I.
Proof.
  intros HI. split; [|split; [|split]].
  - intros k k' Hk Hk' E. rewrite !row_view_cell in E. apply cell_inj in E; lia.
  - intros a. split.
    + intros (k & Hk & E). exists k. rewrite row_view_cell in E. split; [lia | now symmetry].
    + intros (j & Hj & E). exists j. split; [lia|]. rewrite row_view_cell. now symmetry.
  - intros k Hk. rewrite row_view_cell. apply cell_lt; lia.
  - reflexivity.
Qed.
Definition column_slice_ok (N M I J K : nat) : Prop :=
  I < M -> J + K <= N ->
  injective_on1 K (vaddr (column_slice M I J K)) /\
  image_is1 K (vaddr (column_slice M I J K)) (fun a => exists i, J <= i < J + K /\ a = cell M i I) /\
  (forall k, k < K -> vaddr (column_slice M I J K) k < N * M).
Lemma column_slice_correct N M I J K : column_slice_ok N M I J K.
Proof.
  intros HI HJ. split; [|split].
  - intros k k' Hk Hk' E. rewrite !column_slice_cell in E. apply cell_inj in E; lia.
  - intros a. split.
    + intros (k & Hk & E). exists (J + k). rewrite column_slice_cell in E. split; [lia | now symmetry].
    + intros (i & Hi & E). exists (i - J). split; [lia|]. rewrite column_slice_cell. subst a. f_equal. lia.
  - intros k Hk. rewrite column_slice_cell. apply cell_lt; lia.
Qed.
Definition column_view_ok (N M I : nat) : Prop :=
  I < M ->
  injective_on1 N (vaddr (column_view N M I)) /\
  image_is1 N (vaddr (column_view N M I)) (fun a => exists i, i < N /\ a = cell M i I) /\
  (forall k, k < N -> vaddr (column_view N M I) k < N * M) /\ v_size (column_view N M I) = N.
Lemma column_view_correct N M I : column_view_ok N M I.
Proof.
  intros HI. split; [|split; [|split]].
  - intros k k' Hk Hk' E. rewrite !column_view_cell in E. apply cell_inj in E; lia.
  - intros a. split.
    + intros (k & Hk & E). exists k. rewrite column_view_cell in E. split; [lia | now symmetry].
    + intros (i & Hi & E). exists i. split; [lia|]. rewrite column_view_cell. now symmetry.
  - intros k Hk. rewrite column_view_cell. apply cell_lt; lia.
  - reflexivity.
Qed.
Definition submatrix_ok (N M I J R C : nat) : Prop :=
  I + R <= N -> J + C <= M ->
  injective_on2 R C (maddr (submatrix_view M I J R C)) /\
  image_is2 R C (maddr (submatrix_view M I J R C)) (fun a => exists i j, I <= i < I + R /\ J <= j < J + C /\ a = cell M i j) /\
  (forall i j, i < R -> j < C -> maddr (submatrix_view M I J R C) i j < N * M).
Lemma submatrix_correct N M I J R C : submatrix_ok N M I J R C.
Proof.
  intros HI HJ. split; [|split].
  - intros i j i' j' Hi Hj Hi' Hj' E. rewrite !submatrix_cell in E. apply cell_inj in E; lia.
  - intros a. split.
    + intros (i & j & Hi & Hj & E). exists (I + i), (J + j). rewrite submatrix_cell in E. repeat split; lia.
    + intros (i & j & Hi & Hj & E). exists (i - I), (j - J). repeat split; try lia. rewrite submatrix_cell. subst a. f_equal; lia.
  - intros i j Hi Hj. rewrite submatrix_cell. apply cell_lt; lia.
Qed.

(* ---- views on external memory: any origin, any stride in range *)
Definition external_vector_view_ok (org stride n : nat) : Prop :=
  1 <= stride ->
  injective_on1 n (vaddr (VView org stride n)) /\
  image_is1 n (vaddr (VView org stride n)) (fun a => exists k, k < n /\ a = org + k * stride) /\
  (forall k, k < n -> org <= vaddr (VView org stride n) k < org + vec_minsize n stride).
Lemma external_vector_view_correct org stride n : external_vector_view_ok org stride n.
Proof.
  intros Hs. unfold vaddr; cbn. split; [|split].
  - intros k k' Hk Hk' E. apply (vec_injective stride); [exact Hs | lia].
  - intros a. split.
    + intros (k & Hk & E). exists k. rewrite vec_index_mul in E. split; [lia | now symmetry].
    + intros (k & Hk & E). exists k. rewrite vec_index_mul. split; [lia | now symmetry].
  - intros k Hk. pose proof (vec_within n stride k Hs Hk). lia.
Qed.
Definition external_matrix_view_ok (org stride r c : nat) : Prop :=
  1 <= r -> 1 <= c -> c <= stride ->
  injective_on2 r c (maddr (MView org stride r c)) /\
  image_is2 r c (maddr (MView org stride r c)) (fun a => exists i j, i < r /\ j < c /\ a = org + (i * stride + j)) /\
  (forall i j, i < r -> j < c -> org <= maddr (MView org stride r c) i j < org + mat_minsize r c stride).
Lemma external_matrix_view_correct org stride r c : external_matrix_view_ok org stride r c.
Proof.
  intros Hr Hc Hs. unfold maddr; cbn. split; [|split].
  - intros i j i' j' Hi Hj Hi' Hj' E. apply (mat_injective r c stride Hs); try assumption. unfold mat_index in *. lia.
  - intros a. unfold mat_index. split.
    + intros (i & j & Hi & Hj & E). exists i, j. repeat split; try assumption. now symmetry.
    + intros (i & j & Hi & Hj & E). exists i, j. repeat split; try assumption. now symmetry.
  - intros i j Hi Hj. destruct (mat_minimal r c stride Hr Hc Hs) as [W _]. specialize (W i j Hi Hj). lia.
Qed.
(* coalesced views: the pointer table must be injective, and then the view is; strided coalesced views: stride >= 1 *)
Definition coalesced_view_ok (ptrs : nat -> nat) (r c : nat) : Prop :=
  (injective_on1 (r * c) ptrs <-> injective_on2 r c (fun i j => coalesced_addr ptrs (mat_index c i j))) /\
  image_is2 r c (fun i j => coalesced_addr ptrs (mat_index c i j)) (fun a => exists k, k < r * c /\ a = ptrs k).
Lemma coalesced_view_correct ptrs r c : coalesced_view_ok ptrs r c.
Proof.
  unfold coalesced_view_ok, coalesced_addr, mat_index. split; [split|].
  - intros H i j i' j' Hi Hj Hi' Hj' E. apply H in E; [ | now apply box_lt | now apply box_lt ]. now apply (rowmajor_inj c c).
  - intros H k k' Hk Hk' E.
    assert (Hc : c <> 0) by (intro; subst; lia).
    unfold injective_on2 in H. specialize (H (k / c) (k mod c) (k' / c) (k' mod c)).
    assert (D : k = k / c * c + k mod c) by (rewrite Nat.mul_comm; now apply Nat.div_mod).
    assert (D' : k' = k' / c * c + k' mod c) by (rewrite Nat.mul_comm; now apply Nat.div_mod).
    cbv beta in H. rewrite <- D, <- D' in H.
    destruct H as [E1 E2]; try assumption.
    + apply Nat.div_lt_upper_bound; [assumption | lia].
    + now apply Nat.mod_upper_bound.
    + apply Nat.div_lt_upper_bound; [assumption | lia].
    + now apply Nat.mod_upper_bound.
    + rewrite D, D', E1, E2. reflexivity.
  - intros a. split.
    + intros (i & j & Hi & Hj & E). exists (i * c + j). split; [now apply box_lt | now symmetry].
    + intros (k & Hk & E).
      assert (Hc : c <> 0) by (intro; subst; lia).
      exists (k / c), (k mod c). split; [apply Nat.div_lt_upper_bound; [assumption | lia]|].
      split; [now apply Nat.mod_upper_bound|]. subst a. f_equal. rewrite Nat.mul_comm. symmetry. now apply Nat.div_mod.
Qed.
Definition strided_coalesced_view_ok (org stride n : nat) : Prop :=
  1 <= stride ->
  injective_on1 n (strided_addr org stride) /\
  image_is1 n (strided_addr org stride) (fun a => exists k, k < n /\ a = org + k * stride).
Lemma strided_coalesced_view_correct org stride n : strided_coalesced_view_ok org stride n.
Proof.
  intros Hs. unfold strided_addr. split.
  - intros k k' _ _ E. nia.
  - intros a. split; intros (k & Hk & E); exists k; (split; [assumption | now symmetry]).
Qed.

(* ---- reading / writing through a view *)
Definition read_through_views_ok : Prop :=
  forall (A : Type) (st : store A) M I J K R C,
    (forall k, vread st (row_slice M I J K) k = mread st M I (J + k)) /\
    (forall k, vread st (row_view M I) k = mread st M I k) /\
    (forall k, vread st (column_slice M I J K) k = mread st M (J + k) I) /\
    (forall N k, vread st (column_view N M I) k = mread st M k I) /\
    (forall i j, mvread st (submatrix_view M I J R C) i j = mread st M (I + i) (J + j)).
Lemma read_through_views_correct : read_through_views_ok.
Proof.
  intros A st M I J K R C. unfold vread, mvread, mread. repeat split; intros.
  - now rewrite row_slice_cell.
  - now rewrite row_view_cell.
  - now rewrite column_slice_cell.
  - now rewrite column_view_cell.
  - now rewrite submatrix_cell.
Qed.
(* a write through a view changes the addressed element and nothing else *)
Definition write_through_view_ok : Prop :=
  forall (A : Type) (st : store A) (x : A),
    (forall v i, vread (vwrite st v i x) v i = x /\ forall a, a <> vaddr v i -> vwrite st v i x a = st a) /\
    (forall v i j, mvread (mvwrite st v i j x) v i j = x /\ forall a, a <> maddr v i j -> mvwrite st v i j x a = st a).
Lemma write_through_view_correct : write_through_view_ok.
Proof.
  intros A st x. unfold vread, vwrite, mvread, mvwrite, upd. split; intros; split.
  - now rewrite Nat.eqb_refl.
  - intros a Ha. destruct (Nat.eqb_spec a (vaddr v i)); [contradiction | reflexivity].
  - now rewrite Nat.eqb_refl.
  - intros a Ha. destruct (Nat.eqb_spec a (maddr v i j)); [contradiction | reflexivity].
Qed.
(* in terms of the cells of the N x M matrix the view was taken from: exactly the intended cell changes *)
Definition write_matrix_cells_ok : Prop :=
  forall (A : Type) (st : store A) (x : A) M I J K R C i' j', j' < M ->
    (I < M -> forall k, mread (vwrite st (column_slice M I J K) k x) M i' j' =
                        if (i' =? J + k) && (j' =? I) then x else mread st M i' j') /\
    (forall k, J + k < M -> mread (vwrite st (row_slice M I J K) k x) M i' j' =
                        if (i' =? I) && (j' =? J + k) then x else mread st M i' j') /\
    (forall i j, J + j < M -> mread (mvwrite st (submatrix_view M I J R C) i j x) M i' j' =
                        if (i' =? I + i) && (j' =? J + j) then x else mread st M i' j').
Lemma write_matrix_cells_correct : write_matrix_cells_ok.
Proof.
  intros A st x M I J K R C i' j' Hj'. unfold mread, vwrite, mvwrite, upd. repeat split; intros.
  - rewrite column_slice_cell.
    destruct (Nat.eqb_spec (cell M i' j') (cell M (J + k) I)) as [E|E].
    + apply cell_inj in E; [ | assumption | assumption ]. destruct E as [-> ->]. now rewrite !Nat.eqb_refl.
    + destruct (Nat.eqb_spec i' (J + k)); destruct (Nat.eqb_spec j' I); cbn; try reflexivity. subst. contradiction.
  - rewrite row_slice_cell.
    destruct (Nat.eqb_spec (cell M i' j') (cell M I (J + k))) as [E|E].
    + apply cell_inj in E; [ | assumption | assumption ]. destruct E as [-> ->]. now rewrite !Nat.eqb_refl.
    + destruct (Nat.eqb_spec i' I); destruct (Nat.eqb_spec j' (J + k)); cbn; try reflexivity. subst. contradiction.
  - rewrite submatrix_cell.
    destruct (Nat.eqb_spec (cell M i' j') (cell M (I + i) (J + j))) as [E|E].
    + apply cell_inj in E; [ | assumption | assumption ]. destruct E as [-> ->]. now rewrite !Nat.eqb_refl.
    + destruct (Nat.eqb_spec i' (I + i)); destruct (Nat.eqb_spec j' (J + j)); cbn; try reflexivity. subst. contradiction.
Qed.

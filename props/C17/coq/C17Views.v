(* C17 -- model (definitions only) of the view layer of include/TFEL/Math/Array/View.hxx, CoalescedView.hxx,
   StridedCoalescedView.hxx and of tmatrix::row_view / column_view / submatrix_view (Matrix/tmatrix.ixx).
   A storage is a map from addresses (offsets, in elements, from the first element of the underlying array) to
   values; a view is an origin (the pointer given to the view) and an index map (the indexing policy of the view);
   element (i..) of the view lives at address origin + policy.getIndex(i..). *)
From Coq Require Import Arith List Bool.
From C17 Require Import C17Model.
Import ListNotations.

Section Store.
  Variable A : Type.
  Definition store := nat -> A.
  Definition upd (st : store) (a : nat) (x : A) : store := fun b => if b =? a then x else st b.
End Store.
Arguments upd {A} st a x b.

(* ---- View<tvector<n>, FixedSizeVectorIndexingPolicy<n, stride>> built on pointer base + org *)
Record vview := VView { v_org : nat; v_stride : nat; v_size : nat }.
Definition vaddr (v : vview) (i : nat) : nat := v_org v + vec_index (v_stride v) i.
(* ---- View<tmatrix<r, c>, FixedSizeRowMajorMatrixIndexingPolicy<r, c, stride>> built on pointer base + org *)
Record mview := MView { m_org : nat; m_stride : nat; m_rows : nat; m_cols : nat }.
Definition maddr (v : mview) (i j : nat) : nat := m_org v + mat_index (m_stride v) i j.

(* ---- a tmatrix<N, M> stores cell (i, j) at mat_index M i j (row major, contiguous): `cell M i j` *)
Definition cell (M i j : nat) : nat := mat_index M i j.
(* row_view<I>()       = map<tvector<M>>(&m(I, 0))                                  (default policy: stride 1) *)
Definition row_view (M I : nat) : vview := VView (cell M I 0) 1 M.
(* row_view<I, J, K>() = map<tvector<K>>(&m(I, J)) *)
Definition row_slice (M I J K : nat) : vview := VView (cell M I J) 1 K.
(* column_view<I>()       = map<tvector<N>, VectorPolicy<N, M>>(&m(0, I)) *)
Definition column_view (N M I : nat) : vview := VView (cell M 0 I) M N.
(* column_view<I, J, K>() = map<tvector<K>, VectorPolicy<K, M>>(&m(J, I))      I: column, J: first row, K: length *)
Definition column_slice (M I J K : nat) : vview := VView (cell M J I) M K.
(* submatrix_view<I, J, R, C>() = map<tmatrix<R, C>, RowMajorPolicy<R, C, M>>(&m(I, J)) *)
Definition submatrix_view (M I J R C : nat) : mview := MView (cell M I J) M R C.

(* ---- CoalescedView: one pointer per component; component k = policy index of (i..) lives at ptrs k *)
Definition coalesced_addr (ptrs : nat -> nat) (k : nat) : nat := ptrs k.
(* ---- StridedCoalescedView (map_strided(p, s)): component k lives at p[k * s] *)
Definition strided_addr (org stride k : nat) : nat := org + k * stride.

(* ---- reading and writing through a view *)
Definition vread {A} (st : store A) (v : vview) (i : nat) : A := st (vaddr v i).
Definition vwrite {A} (st : store A) (v : vview) (i : nat) (x : A) : store A := upd st (vaddr v i) x.
Definition mvread {A} (st : store A) (v : mview) (i j : nat) : A := st (maddr v i j).
Definition mvwrite {A} (st : store A) (v : mview) (i j : nat) (x : A) : store A := upd st (maddr v i j) x.
(* reading the cell (i, j) of the N x M matrix itself *)
Definition mread {A} (st : store A) (M i j : nat) : A := st (cell M i j).

(* ---- tagged storage: cell k holds k, so that every read reveals the address (used by the correspondence) *)
Definition tagged : store nat := fun a => a.
Definition vvalues (v : vview) : list nat := map (vread tagged v) (seq 0 (v_size v)).
Definition mvalues (v : mview) : list nat := flat_map (fun i => map (mvread tagged v i) (seq 0 (m_cols v))) (seq 0 (m_rows v)).
(* addresses of a storage of `size` cells whose content differs after a write through the view (expected: exactly one) *)
Definition changed (size : nat) (st st' : store nat) : list nat := filter (fun a => negb (st a =? st' a)) (seq 0 size).
Definition vwrite_changes (size : nat) (v : vview) (x : nat) : list (list nat) :=
  map (fun i => changed size tagged (vwrite tagged v i x)) (seq 0 (v_size v)).
Definition mvwrite_changes (size : nat) (v : mview) (x : nat) : list (list nat) :=
  flat_map (fun i => map (fun j => changed size tagged (mvwrite tagged v i j x)) (seq 0 (m_cols v))) (seq 0 (m_rows v)).

(* C17 -- specification of an index mapping: it must be injective on the index box, and its image must lie inside
   (and, for a minimal size, reach the end of) the storage the policy declares. *)
From Coq Require Import Arith List Lia.
Import ListNotations.

Definition injective_on2 (n m : nat) (f : nat -> nat -> nat) : Prop :=
  forall i j i' j', i < n -> j < m -> i' < n -> j' < m -> f i j = f i' j' -> i = i' /\ j = j'.
Definition image_within2 (n m : nat) (f : nat -> nat -> nat) (size : nat) : Prop :=
  forall i j, i < n -> j < m -> f i j < size.
(* size is the minimal storage size: a bound that is attained *)
Definition minimal_size2 (n m : nat) (f : nat -> nat -> nat) (size : nat) : Prop :=
  image_within2 n m f size /\ exists i j, i < n /\ j < m /\ f i j = size - 1.

(* ---- views (one index) *)
Definition injective_on1 (n : nat) (f : nat -> nat) : Prop := forall i i', i < n -> i' < n -> f i = f i' -> i = i'.
(* the image of the index box is exactly the set P of addresses *)
Definition image_is1 (n : nat) (f : nat -> nat) (P : nat -> Prop) : Prop := forall a, (exists i, i < n /\ f i = a) <-> P a.
Definition image_is2 (n m : nat) (f : nat -> nat -> nat) (P : nat -> Prop) : Prop :=
  forall a, (exists i j, i < n /\ j < m /\ f i j = a) <-> P a.

(* C17 (b) -- index mappings of the fixed-size indexing policies: injectivity and image, for ALL sizes and strides. *)
From Coq Require Import Arith List.
From C17 Require Import C17Spec C17Model C17Proofs.

Theorem C17_matrix_policy_injective : forall n m stride, m <= stride -> injective_on2 n m (mat_index stride).
Proof. exact mat_injective. Qed.
Print Assumptions C17_matrix_policy_injective.
Theorem C17_matrix_policy_minimal_size : forall n m stride, 1 <= n -> 1 <= m -> m <= stride ->
  minimal_size2 n m (mat_index stride) (mat_minsize n m stride).
Proof. exact mat_minimal. Qed.
Print Assumptions C17_matrix_policy_minimal_size.
(* finding: the formula of the pinned tree, (N-1)*Stride + N, is not a bound of the image when N < M and Stride > M ... *)
Theorem C17_matrix_pinned_minimal_size_refuted :
  ~ (forall n m stride, 1 <= n -> 1 <= m -> m <= stride -> image_within2 n m (mat_index stride) (mat_minsize_pinned n m stride)).
Proof. exact mat_minsize_pinned_refuted. Qed.
Print Assumptions C17_matrix_pinned_minimal_size_refuted.
(* ... it is one for contiguous matrices and when M <= N *)
Theorem C17_matrix_pinned_minimal_size_partial : forall n m stride, 1 <= n -> 1 <= m -> m <= stride -> (stride = m \/ m <= n) ->
  image_within2 n m (mat_index stride) (mat_minsize_pinned n m stride).
Proof. exact mat_minsize_pinned_ok. Qed.
Print Assumptions C17_matrix_pinned_minimal_size_partial.
Theorem C17_vector_policy : forall n stride i i', 1 <= stride -> i < n -> i' < n ->
  (vec_index stride i = vec_index stride i' -> i = i') /\ vec_index stride i < vec_minsize n stride.
Proof. intros n stride i i' Hs Hi Hi'. split; [now apply vec_injective | now apply vec_within]. Qed.
Print Assumptions C17_vector_policy.
Theorem C17_cartesian_product : forall stride s1 s2 a b a' b', 1 <= s1 -> s2 <= stride -> a < s1 -> a' < s1 -> b < s2 -> b' < s2 ->
  (cart_index stride a b = cart_index stride a' b' -> a = a' /\ b = b') /\ cart_index stride a b < cart_minsize s1 s2 stride.
Proof. intros. split; [now apply (cart_injective stride s2) | now apply cart_within]. Qed.
Print Assumptions C17_cartesian_product.
Theorem C17_cartesian_product_overlaps_with_pinned_size :
  cart_index (mat_minsize_pinned 2 3 4) 0 (mat_index 4 1 2) = cart_index (mat_minsize_pinned 2 3 4) 1 (mat_index 4 0 0).
Proof. exact cart_overlap_with_pinned_size. Qed.
Print Assumptions C17_cartesian_product_overlaps_with_pinned_size.

From Coq Require Import Arith List Lia.
From C17 Require Import C17Spec C17Model.

Lemma rowmajor_inj stride m a b a' b' : m <= stride -> b < m -> b' < m -> a * stride + b = a' * stride + b' -> a = a' /\ b = b'.
Proof.
  intros Hs Hb Hb' H.
  assert (a = a').
  { destruct (Nat.lt_trichotomy a a') as [L|[E|L]]; [exfalso | exact E | exfalso]; nia. }
  subst a'. split; [reflexivity | lia].
Qed.

Lemma mat_injective n m stride : m <= stride -> injective_on2 n m (mat_index stride).
Proof. unfold injective_on2, mat_index. intros Hs i j i' j' _ Hj _ Hj' H. now apply (rowmajor_inj stride m). Qed.

Lemma mat_minimal n m stride : 1 <= n -> 1 <= m -> m <= stride -> minimal_size2 n m (mat_index stride) (mat_minsize n m stride).
Proof.
  unfold minimal_size2, image_within2, mat_index, mat_minsize. intros Hn Hm Hs. split.
  - intros i j Hi Hj. assert (i * stride <= (n - 1) * stride) by (apply Nat.mul_le_mono_r; lia). lia.
  - exists (n - 1), (m - 1). split; [lia|]. split; [lia|]. generalize ((n - 1) * stride). intro k. lia.
Qed.

(* the pinned formula is not a bound when the matrix has fewer rows than columns *)
Lemma mat_minsize_pinned_refuted :
  ~ (forall n m stride, 1 <= n -> 1 <= m -> m <= stride -> image_within2 n m (mat_index stride) (mat_minsize_pinned n m stride)).
Proof.
  intro H. specialize (H 2 3 4). unfold image_within2 in H.
  assert (C : mat_index 4 1 2 < mat_minsize_pinned 2 3 4) by (apply H; lia).
  vm_compute in C. lia.
Qed.
(* it is correct for contiguous storage and whenever columns <= rows *)
Lemma mat_minsize_pinned_ok n m stride : 1 <= n -> 1 <= m -> m <= stride -> (stride = m \/ m <= n) ->
  image_within2 n m (mat_index stride) (mat_minsize_pinned n m stride).
Proof.
  unfold image_within2, mat_index, mat_minsize_pinned. intros Hn Hm Hs Hc i j Hi Hj.
  assert (i * stride <= (n - 1) * stride) by (apply Nat.mul_le_mono_r; lia).
  destruct (Nat.eqb_spec stride m) as [->|Hne].
  - replace (n * m) with ((n - 1) * m + m) by nia. lia.
  - destruct Hc as [Hc|Hc]; [contradiction | lia].
Qed.

(* cartesian product: injective and within (s1 - 1) * Stride + s2 as soon as Stride >= s2 = a TRUE bound of the inner image *)
Lemma cart_injective stride s2 a b a' b' : s2 <= stride -> b < s2 -> b' < s2 ->
  cart_index stride a b = cart_index stride a' b' -> a = a' /\ b = b'.
Proof. unfold cart_index. apply rowmajor_inj. Qed.
Lemma cart_within stride s1 s2 a b : 1 <= s1 -> a < s1 -> b < s2 -> cart_index stride a b < cart_minsize s1 s2 stride.
Proof.
  unfold cart_index, cart_minsize. intros H1 Ha Hb.
  assert (a * stride <= (s1 - 1) * stride) by (apply Nat.mul_le_mono_r; lia). lia.
Qed.
(* with the pinned (too small) size as the default stride, two different cells of a product share an address *)
Lemma cart_overlap_with_pinned_size :
  let s := mat_minsize_pinned 2 3 4 in
  cart_index s 0 (mat_index 4 1 2) = cart_index s 1 (mat_index 4 0 0).
Proof. reflexivity. Qed.

Lemma vec_injective stride i i' : 1 <= stride -> vec_index stride i = vec_index stride i' -> i = i'.
Proof. unfold vec_index. intros Hs. destruct (stride =? 1); [auto | intro H; nia]. Qed.
Lemma vec_within n stride i : 1 <= stride -> i < n -> vec_index stride i < vec_minsize n stride.
Proof.
  unfold vec_index, vec_minsize. intros Hs Hi. destruct (Nat.eqb_spec stride 1); [lia|].
  assert (i * stride <= (n - 1) * stride) by (apply Nat.mul_le_mono_r; lia). lia.
Qed.

(* C37: runs the extracted generic evaluator with IEEE doubles: the record of operations is supplied here (OCaml float
   operations and libm through Stdlib), everything else is parsing and printing.
   P nc c1..cnc np d1..dnp <expr in prefix tokens>      sets the program
   E ni x1..xni no (i v)*no                               prints run p ins overrides as %h *)
open C37_model

let rec nat_of_int n = if n <= 0 then O else S (nat_of_int (n - 1))
let fops = { o_zero = 0.0; o_add = ( +. ); o_sub = ( -. ); o_mul = ( *. ); o_div = ( /. ); o_neg = (fun x -> -. x);
             o_fn = (fun f x -> match f with
                 | FExp -> exp x | FLog -> log x | FSqrt -> sqrt x | FCos -> cos x | FSin -> sin x | FTanh -> tanh x
                 | FAbs -> abs_float x) }
let toks = ref []
let next () = match !toks with t :: r -> toks := r; t | [] -> failwith "eol"
let rec floats n = if n = 0 then [] else let v = float_of_string (next ()) in v :: floats (n - 1)
let rec expr () = match next () with
  | "c" -> Cst (nat_of_int (int_of_string (next ())))
  | "i" -> Inp (nat_of_int (int_of_string (next ())))
  | "p" -> Par (nat_of_int (int_of_string (next ())))
  | "+" -> let a = expr () in let b = expr () in Add (a, b)
  | "-" -> let a = expr () in let b = expr () in Sub (a, b)
  | "*" -> let a = expr () in let b = expr () in Mul (a, b)
  | "/" -> let a = expr () in let b = expr () in Div (a, b)
  | "neg" -> Neg (expr ())
  | "exp" -> App1 (FExp, expr ()) | "log" -> App1 (FLog, expr ()) | "sqrt" -> App1 (FSqrt, expr ())
  | "cos" -> App1 (FCos, expr ()) | "sin" -> App1 (FSin, expr ()) | "tanh" -> App1 (FTanh, expr ())
  | "abs" -> App1 (FAbs, expr ())
  | t -> failwith ("token " ^ t)
let () =
  let p = ref { body = Cst O; consts = []; defaults = [] } in
  try
    while true do
      let line = input_line stdin in
      toks := List.filter (fun s -> s <> "") (String.split_on_char ' ' line);
      if !toks <> [] then
        (match next () with
         | "P" -> let nc = int_of_string (next ()) in let cs = floats nc in
           let np = int_of_string (next ()) in let ds = floats np in
           let e = expr () in p := { body = e; consts = cs; defaults = ds }
         | "E" -> let ni = int_of_string (next ()) in let xs = floats ni in
           let no = int_of_string (next ()) in
           let rec ovs k = if k = 0 then [] else let i = nat_of_int (int_of_string (next ())) in let v = float_of_string (next ()) in (i, v) :: ovs (k - 1) in
           let o = ovs no in
           Printf.printf "%h\n" (run fops !p xs o)
         | _ -> failwith "command")
    done
  with End_of_file -> ()

(* C37 -- what a `@Data` law computes, as corollaries of C11's lemmas about `lin`, `build`, `spl` (files copied from props/C11
   into the scratch directory under the logical prefix C37 by check.py). *)
From Coquelicot Require Import Coquelicot.
From Coq Require Import Reals List Lra Lia.
From C37 Require Import C11Model C11Spec C11Proofs C11Spline C37Data.
Import ListNotations.
Local Open Scope R_scope.

Lemma data_R_lin io eo tab x : interp_of io = ILinear ->
  data_R io eo tab x = option_map fst (lin_R (extrap_of eo) tab x).
Proof. intros H. unfold data_R, data. rewrite H. reflexivity. Qed.
Lemma data_R_spl io eo tab x : interp_of io = ICubicSpline ->
  data_R io eo tab x = option_map (fun v => fst (fst v)) (spl_R (extrap_of eo) (build_R tab) x).
Proof. intros H. unfold data_R, data. rewrite H. reflexivity. Qed.

(* ---- options *)
Lemma options_decoding :
  interp_of None = ILinear /\ interp_of (Some ILinear) = ILinear /\ interp_of (Some ICubicSpline) = ICubicSpline /\
  extrap_of None = true /\ extrap_of (Some (EBool true)) = true /\ extrap_of (Some (EBool false)) = false /\
  extrap_of (Some EConstant) = false /\ extrap_of (Some EBoundToLastValue) = false.
Proof. repeat split. Qed.

(* the law only depends on the decoded options *)
Lemma data_depends_on_decoded_options io eo io' eo' tab x : interp_of io = interp_of io' -> extrap_of eo = extrap_of eo' ->
  data_R io eo tab x = data_R io' eo' tab x.
Proof. intros Hi He. unfold data_R, data. rewrite Hi, He. reflexivity. Qed.

(* ---- a single tabulated point: the constant law *)
Lemma data_single io eo p x : data_R io eo [p] x = Some (snd p).
Proof. unfold data_R, data. destruct (interp_of io); reflexivity. Qed.

(* ---- linear *)
Lemma data_lin_inside io eo p0 l1 pb l2 x : interp_of io = ILinear -> increasing (p0 :: l1 ++ pb :: l2) ->
  fst (last l1 p0) < x -> x <= fst pb -> data_R io eo (p0 :: l1 ++ pb :: l2) x = Some (chord (last l1 p0) pb x).
Proof.
  intros Hi Hinc H1 H2. rewrite (data_R_lin _ _ _ _ Hi).
  destruct (lin_interval (extrap_of eo) p0 l1 pb l2 x Hinc H1 H2) as [v [d [E [Hv _]]]]. rewrite E, Hv. reflexivity.
Qed.
Lemma data_lin_left io eo p0 p1 r x : interp_of io = ILinear -> x <= fst p0 ->
  data_R io eo (p0 :: p1 :: r) x = Some (if extrap_of eo then chord p0 p1 x else snd p0).
Proof. intros Hi H. rewrite (data_R_lin _ _ _ _ Hi), lin_left by exact H. destruct (extrap_of eo); reflexivity. Qed.
Lemma data_lin_right io eo p0 l1 pb x : interp_of io = ILinear -> increasing (p0 :: l1 ++ [pb]) -> fst pb <= x ->
  data_R io eo (p0 :: l1 ++ [pb]) x = Some (if extrap_of eo then chord (last l1 p0) pb x else snd pb).
Proof. intros Hi Hinc H. rewrite (data_R_lin _ _ _ _ Hi), lin_right by assumption. destruct (extrap_of eo); reflexivity. Qed.

(* ---- cubic spline: shape of the collocation points built from an increasing table *)
Lemma build_shape (tab : list pt) : increasing tab -> map fst (build_R tab) = tab /\ natural_c2 (build_R tab) /\ sorted3 (build_R tab).
Proof. intros H. destruct (build_natural tab H) as [A B]. split; [exact A|]. split; [exact B|]. apply build_sorted, H. Qed.

Lemma data_spl_inside io eo tab pre p q post x : interp_of io = ICubicSpline -> increasing tab ->
  build_R tab = pre ++ p :: q :: post -> X p < x -> x <= X q ->
  data_R io eo tab x = Some (fst (fst (cub p q x))).
Proof.
  intros Hi Hinc Eb H1 H2. rewrite (data_R_spl _ _ _ _ Hi), Eb.
  rewrite spl_piece'; [reflexivity| |exact H2].
  intros r Hr. apply in_app_or in Hr. destruct Hr as [Hr|[<-|[]]]; [|exact H1].
  assert (X r < X p); [|lra].
  apply (sorted3_lt pre (p :: q :: post) r p); [rewrite <- Eb; apply build_sorted, Hinc|exact Hr|left; reflexivity].
Qed.

Lemma data_spl_left io eo tab c0 c1 rest x : interp_of io = ICubicSpline -> build_R tab = c0 :: c1 :: rest -> x <= X c0 ->
  data_R io eo tab x = Some (if extrap_of eo then Tan c0 x else Y c0).
Proof.
  intros Hi Eb H. rewrite (data_R_spl _ _ _ _ Hi), Eb, spl_left by exact H. destruct (extrap_of eo); reflexivity.
Qed.

Lemma data_spl_right io eo tab pre c x : interp_of io = ICubicSpline -> increasing tab -> pre <> [] ->
  build_R tab = pre ++ [c] -> X c < x ->
  data_R io eo tab x = Some (if extrap_of eo then Tan c x else Y c).
Proof.
  intros Hi Hinc Hpre Eb H. rewrite (data_R_spl _ _ _ _ Hi), Eb.
  assert (Hlt : forall r, In r (pre ++ [c]) -> X r < x).
  { intros r Hr. apply in_app_or in Hr. destruct Hr as [Hr|[<-|[]]]; [|exact H].
    assert (X r < X c); [|lra].
    apply (sorted3_lt pre [c] r c); [rewrite <- Eb; apply build_sorted, Hinc|exact Hr|left; reflexivity]. }
  destruct pre as [|p0 pre']; [contradiction|].
  destruct (pre' ++ [c]) as [|p1 rest] eqn:E; [destruct pre'; discriminate|].
  assert (El : last (p1 :: rest) p0 = c).
  { rewrite <- E. destruct pre'; [reflexivity|]. rewrite last_last. reflexivity. }
  change ((p0 :: pre') ++ [c]) with (p0 :: pre' ++ [c]) in *. rewrite E in *.
  rewrite (spl_right (extrap_of eo) p0 p1 rest x Hlt), El. destruct (extrap_of eo); reflexivity.
Qed.

(* ---- node reproduction, both schemes, every node, whatever the extrapolation option *)
Lemma data_lin_node io eo tab p : interp_of io = ILinear -> increasing tab -> In p tab -> data_R io eo tab (fst p) = Some (snd p).
Proof.
  intros Hi Hinc Hin. destruct tab as [|p0 tab']; [destruct Hin|]. destruct tab' as [|p1 r]; [destruct Hin as [<-|[]]; apply data_single|].
  rewrite (data_R_lin _ _ _ _ Hi).
  destruct Hin as [<-|Hin].
  - destruct (lin_first_node (extrap_of eo) p0 p1 r) as [d E]. exact (f_equal (option_map fst) E).
  - destruct (in_split _ _ Hin) as [l1 [l2 El]]. rewrite El in *.
    destruct (lin_other_node (extrap_of eo) p0 l1 p l2 Hinc) as [d E]. exact (f_equal (option_map fst) E).
Qed.

Lemma data_spl_node io eo tab p : interp_of io = ICubicSpline -> increasing tab -> In p tab -> data_R io eo tab (fst p) = Some (snd p).
Proof.
  intros Hi Hinc Hin. destruct (build_shape tab Hinc) as [Em [_ Hs]].
  rewrite (data_R_spl _ _ _ _ Hi).
  assert (Hc : exists c, In c (build_R tab) /\ fst c = p).
  { rewrite <- Em in Hin. apply in_map_iff in Hin. destruct Hin as [c [E Hc]]. exists c. split; assumption. }
  destruct Hc as [c [Hc Ec]]. subst p. change (fst (fst c)) with (X c). change (snd (fst c)) with (Y c).
  destruct (in_split _ _ Hc) as [l1 [l2 El]]. rewrite El in *.
  destruct l1 as [|c0 l1].
  - cbn [app] in *. destruct l2 as [|c1 l2]; [reflexivity|].
    destruct (spl_first_node c c1 l2) as [Ht Hf]. destruct (extrap_of eo); [rewrite Ht|rewrite Hf]; reflexivity.
  - change ((c0 :: l1) ++ c :: l2) with (c0 :: l1 ++ c :: l2) in *.
    destruct (spl_other_node (extrap_of eo) c0 l1 c l2) as [s2 E]; [|rewrite E; reflexivity].
    intros r Hr. apply (sorted3_lt (c0 :: l1) (c :: l2) r c); [exact Hs|exact Hr|left; reflexivity].
Qed.

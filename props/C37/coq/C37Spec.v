(* C37 -- the real-number denotation of a formula, written directly (independently of the generic evaluator) *)
From Coq Require Import Reals List.
From C37 Require Import C37Model.
Import ListNotations.
Local Open Scope R_scope.

Definition Rfn (f : fn1) (x : R) : R :=
  match f with
  | FExp => exp x | FLog => ln x | FSqrt => sqrt x | FCos => cos x | FSin => sin x | FTanh => tanh x | FAbs => Rabs x
  end.

Definition Rops : ops R := Ops 0 Rplus Rminus Rmult Rdiv Ropp Rfn.

Fixpoint denote (csts ins pars : list R) (e : expr) : R :=
  match e with
  | Cst i => nth i csts 0 | Inp i => nth i ins 0 | Par i => nth i pars 0
  | Add a b => denote csts ins pars a + denote csts ins pars b
  | Sub a b => denote csts ins pars a - denote csts ins pars b
  | Mul a b => denote csts ins pars a * denote csts ins pars b
  | Div a b => denote csts ins pars a / denote csts ins pars b
  | Neg a => - denote csts ins pars a
  | App1 f a => Rfn f (denote csts ins pars a)
  end.

(* C37 -- theorems about the reference semantics of `@Data` tables (statements only; proofs in C37DataProofs.v, which derives
   them from C11's lemmas; C11's files are copied into the scratch directory under the logical prefix C37 at run time).
   `data_R io eo tab x`: value at x of the law declared by @Data {values: tab, interpolation: io, extrapolation: eo};
   tab is sorted by abscissa (the `values` option is a map); `increasing` = strictly increasing abscissae. *)
From Coq Require Import Reals List.
From C37 Require Import C11Model C11Spec C11Proofs C11Spline C37Data C37DataProofs.
Import ListNotations.
Local Open Scope R_scope.

(* meaning of the options: linear is the default scheme; extrapolation defaults to true; false, "constant" and
   "bound_to_last_value" all disable it *)
Theorem C37_data_options_decoding :
  interp_of None = ILinear /\ interp_of (Some ILinear) = ILinear /\ interp_of (Some ICubicSpline) = ICubicSpline /\
  extrap_of None = true /\ extrap_of (Some (EBool true)) = true /\ extrap_of (Some (EBool false)) = false /\
  extrap_of (Some EConstant) = false /\ extrap_of (Some EBoundToLastValue) = false.
Proof. exact options_decoding. Qed.
Print Assumptions C37_data_options_decoding.

Theorem C37_data_depends_on_decoded_options_only : forall io eo io' eo' tab x,
  interp_of io = interp_of io' -> extrap_of eo = extrap_of eo' -> data_R io eo tab x = data_R io' eo' tab x.
Proof. exact data_depends_on_decoded_options. Qed.
Print Assumptions C37_data_depends_on_decoded_options_only.

(* one tabulated point: the constant law, whatever the options *)
Theorem C37_data_single_point : forall io eo p x, data_R io eo [p] x = Some (snd p).
Proof. exact data_single. Qed.
Print Assumptions C37_data_single_point.

(* ---- interpolation : "linear" = C11's `lin` with the decoded flag: the chord of the interval containing x ... *)
Theorem C37_data_linear_inside : forall io eo p0 l1 pb l2 x, interp_of io = ILinear -> increasing (p0 :: l1 ++ pb :: l2) ->
  fst (last l1 p0) < x -> x <= fst pb -> data_R io eo (p0 :: l1 ++ pb :: l2) x = Some (chord (last l1 p0) pb x).
Proof. exact data_lin_inside. Qed.
Print Assumptions C37_data_linear_inside.

(* ... outside the table: the first / last chord prolonged when extrapolation is enabled, the first / last ordinate otherwise *)
Theorem C37_data_linear_left_of_table : forall io eo p0 p1 r x, interp_of io = ILinear -> x <= fst p0 ->
  data_R io eo (p0 :: p1 :: r) x = Some (if extrap_of eo then chord p0 p1 x else snd p0).
Proof. exact data_lin_left. Qed.
Print Assumptions C37_data_linear_left_of_table.

Theorem C37_data_linear_right_of_table : forall io eo p0 l1 pb x, interp_of io = ILinear -> increasing (p0 :: l1 ++ [pb]) ->
  fst pb <= x -> data_R io eo (p0 :: l1 ++ [pb]) x = Some (if extrap_of eo then chord (last l1 p0) pb x else snd pb).
Proof. exact data_lin_right. Qed.
Print Assumptions C37_data_linear_right_of_table.

(* ---- interpolation : "cubic_spline" = C11's `spl` on the collocation points `build` computes from the table: these keep
   the tabulated points, are sorted, and their nodal derivatives are those of the natural C2 spline *)
Theorem C37_data_spline_collocation_points : forall tab : list pt, increasing tab ->
  map fst (build_R tab) = tab /\ natural_c2 (build_R tab) /\ sorted3 (build_R tab).
Proof. exact build_shape. Qed.
Print Assumptions C37_data_spline_collocation_points.

(* between two consecutive collocation points p, q: the cubic Hermite piece through them *)
Theorem C37_data_spline_inside : forall io eo tab pre p q post x, interp_of io = ICubicSpline -> increasing tab ->
  build_R tab = pre ++ p :: q :: post -> X p < x -> x <= X q -> data_R io eo tab x = Some (fst (fst (cub p q x))).
Proof. exact data_spl_inside. Qed.
Print Assumptions C37_data_spline_inside.

(* outside the table: the tangent at the first / last collocation point when extrapolation is enabled, the first / last
   ordinate otherwise *)
Theorem C37_data_spline_left_of_table : forall io eo tab c0 c1 rest x, interp_of io = ICubicSpline ->
  build_R tab = c0 :: c1 :: rest -> x <= X c0 -> data_R io eo tab x = Some (if extrap_of eo then Tan c0 x else Y c0).
Proof. exact data_spl_left. Qed.
Print Assumptions C37_data_spline_left_of_table.

Theorem C37_data_spline_right_of_table : forall io eo tab pre c x, interp_of io = ICubicSpline -> increasing tab -> pre <> [] ->
  build_R tab = pre ++ [c] -> X c < x -> data_R io eo tab x = Some (if extrap_of eo then Tan c x else Y c).
Proof. exact data_spl_right. Qed.
Print Assumptions C37_data_spline_right_of_table.

(* ---- node reproduction: at every tabulated abscissa the law returns the tabulated ordinate, both schemes, every option *)
Theorem C37_data_node_reproduction : forall io eo tab p, increasing tab -> In p tab -> data_R io eo tab (fst p) = Some (snd p).
Proof.
  intros io eo tab p. destruct (interp_of io) eqn:E; [apply data_lin_node|apply data_spl_node]; exact E.
Qed.
Print Assumptions C37_data_node_reproduction.

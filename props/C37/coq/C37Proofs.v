From Coq Require Import Reals List Bool Arith Lia.
From C37 Require Import C37Model C37Spec.
Import ListNotations.

Lemma eval_denote csts ins pars e : eval R Rops csts ins pars e = denote csts ins pars e.
Proof. induction e; simpl; try rewrite IHe1, IHe2; try rewrite IHe; reflexivity. Qed.

Section Generic.
  Variable T : Type.
  Variable o : ops T.

  (* overriding parameters at run time = recompiling with those values as defaults *)
  Lemma override_is_recompile (p : program T) ins ovs :
    run T o p ins ovs = run T o (with_defaults T p (apply_overrides T ovs (defaults p))) ins [].
  Proof. reflexivity. Qed.

  Lemma no_override (p : program T) ins : run T o p ins [] = eval T o (consts p) ins (defaults p) (body p).
  Proof. reflexivity. Qed.

  Lemma nth_set_nth_other i j v (l : list T) d : i <> j -> nth i (set_nth T j v l) d = nth i l d.
  Proof.
    revert i j; induction l as [|x r IH]; intros i j H; simpl.
    - destruct j; reflexivity.
    - destruct j; destruct i; simpl; try reflexivity; try (exfalso; apply H; reflexivity). apply IH. lia.
  Qed.

  Lemma nth_set_nth_same j v (l : list T) d : j < length l -> nth j (set_nth T j v l) d = v.
  Proof.
    revert j; induction l as [|x r IH]; intros j H; simpl in *; [lia|].
    destruct j; simpl; [reflexivity|]. apply IH. lia.
  Qed.

  (* a parameter the formula does not mention can be overridden freely *)
  Lemma unused_parameter csts ins pars j v e : uses_par j e = false ->
    eval T o csts ins (set_nth T j v pars) e = eval T o csts ins pars e.
  Proof.
    induction e; simpl; intros H; try reflexivity;
      try (apply orb_false_iff in H; destruct H as (H1 & H2); rewrite IHe1, IHe2; auto);
      try (rewrite IHe; auto).
    apply nth_set_nth_other. intros ->. rewrite Nat.eqb_refl in H. discriminate.
  Qed.
End Generic.

(* C37 -- theorems about the reference semantics (statements only) *)
From Coq Require Import Reals List.
From C37 Require Import C37Model C37Spec C37Proofs.
Import ListNotations.

(* the generic evaluator instantiated with the reals is the real-number denotation of the formula *)
Theorem C37_eval_is_the_real_denotation : forall csts ins pars e, eval R Rops csts ins pars e = denote csts ins pars e.
Proof. exact eval_denote. Qed.
Print Assumptions C37_eval_is_the_real_denotation.

(* run-time overrides (setParameter, parameter file) = recompiling with those default values; any scalar type *)
Theorem C37_override_is_recompiling_with_that_default : forall T (o : ops T) (p : program T) ins ovs,
  run T o p ins ovs = run T o (with_defaults T p (apply_overrides T ovs (defaults p))) ins [].
Proof. exact override_is_recompile. Qed.
Print Assumptions C37_override_is_recompiling_with_that_default.

(* an overridden parameter takes the new value, the others keep theirs *)
Theorem C37_override_sets_exactly_one_parameter : forall T j v (l : list T) d i,
  (j < length l -> nth j (set_nth T j v l) d = v) /\ (i <> j -> nth i (set_nth T j v l) d = nth i l d).
Proof. intros; split; [apply nth_set_nth_same | apply nth_set_nth_other]. Qed.
Print Assumptions C37_override_sets_exactly_one_parameter.

(* overriding a parameter the formula does not mention does not change the result *)
Theorem C37_unused_parameter_is_irrelevant : forall T (o : ops T) csts ins pars j v e, uses_par j e = false ->
  eval T o csts ins (set_nth T j v pars) e = eval T o csts ins pars e.
Proof. exact unused_parameter. Qed.
Print Assumptions C37_unused_parameter_is_irrelevant.

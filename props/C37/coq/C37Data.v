(* C37 -- reference semantics of `@Data` tables of the MaterialProperty DSL (one input).  Definitions only.
   The numerical content is C11's executable model (C11Model.v, copied into the scratch directory under the logical prefix
   C37 by check.py): `lin` = tfel::math::computeLinearInterpolation<extrapolate>, `build` = CubicSpline::setCollocationPoints
   (the nodal derivatives mfront computes at code-generation time), `spl` = computeCubicSplineInterpolation<extrapolate>.
   What is specific to @Data is the meaning of the options (docs/mfront/MaterialLaw/Data.md):
     interpolation : "linear" (default) | "cubic_spline"
     extrapolation : true (default: prolong the interpolant) | false | "constant" | "bound_to_last_value" (keep the end value)
     values        : { x : y, ... }  -- a map: the table is the list of pairs sorted by abscissa (check.py sorts). *)
From Coq Require Import List Reals QArith Bool ZArith.
From C37 Require Import C11Model.
Import ListNotations.

Inductive interp_opt := ILinear | ICubicSpline.
Inductive extrap_opt := EBool (b : bool) | EConstant | EBoundToLastValue.

Definition interp_of (o : option interp_opt) : interp_opt := match o with Some i => i | None => ILinear end.
Definition extrap_of (o : option extrap_opt) : bool :=
  match o with None => true | Some (EBool b) => b | Some EConstant => false | Some EBoundToLastValue => false end.

Section Data.
  Variable T : Type.
  Variables (add sub mul div : T -> T -> T) (leb : T -> T -> bool) (ofZ : Z -> T).
  (* value of the law declared by `@Data {values: tab, interpolation: io, extrapolation: eo}` at x; None: empty table (refused) *)
  Definition data (io : option interp_opt) (eo : option extrap_opt) (tab : list (T * T)) (x : T) : option T :=
    match interp_of io with
    | ILinear => option_map fst (lin T add sub mul div leb (ofZ 0) (extrap_of eo) tab x)
    | ICubicSpline => option_map (fun v => fst (fst v)) (spl T add sub mul div leb ofZ (extrap_of eo) (build T add sub mul div ofZ tab) x)
    end.
End Data.

Definition data_Q := data Q Qadd' Qsub' Qmul' Qdiv' Qleb inject_Z.
Definition data_R := data R Rplus Rminus Rmult Rdiv Rleb IZR.

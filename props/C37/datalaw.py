"""C37, @Data stage: generation of `@Data` material properties (MaterialProperty DSL, one input), the independent statement of
their meaning in Python rationals, the harness text for C11's Gallina model evaluated over Q, and the comparison.

Declared law (docs/mfront/MaterialLaw/Data.md): `values` is a map abscissa -> ordinate; `interpolation` is "linear" (default)
or "cubic_spline"; `extrapolation` is true (default: the interpolant is prolonged: end chord / end tangent of the natural
spline) or false / "constant" / "bound_to_last_value" (the first / last ordinate is kept outside the table)."""
from fractions import Fraction as Fr
from decimal import Decimal

INTERP = [None, "linear", "cubic_spline"]
EXTRAP = [None, True, False, "constant", "bound_to_last_value"]
DISABLED = [False, "constant", "bound_to_last_value"]
ENABLED = [None, True]
RTOL_LIN = Fr(1, 10 ** 13)   # table data are doubles printed exactly (<= 14 digits): only the rounding of y_i + d (a - x_i)
RTOL_SPL = Fr(1, 10 ** 11)   # nodal derivatives are computed in binary64 by mfront and printed with 14 significant digits
TINY = Fr(1, 10 ** 300)


# ------------------------------------------------------------------ text
def num_text(v):
    """decimal text of a double, exact for the values generated here (<= 14 significant digits, so that mfront's
    os.precision(14) reprints the same double)"""
    t = repr(float(v))
    digits = Decimal(t).as_tuple().digits
    assert len(digits) <= 14 and float(t) == float(v), t
    return t[:-2] if t.endswith(".0") else t


def opt_text(io, eo):
    o = []
    if io is not None:
        o.append('interpolation : "%s"' % io)
    if eo is not None:
        o.append("extrapolation : %s" % ("true" if eo is True else "false" if eo is False else '"%s"' % eo))
    return o


def mfront_text(p, suffix=""):
    t = "@DSL MaterialProperty;\n@Law %s;\n@Output real y;\n" % (p["name"] + suffix)
    if p["table"] is None:                      # no input: @Data {value : v}
        return t + "@Data {\n  value : %s\n}\n" % p["value_text"]
    t += "@Input real x0;\n"
    pairs = ["%s : %s" % (a, b) for a, b in zip(p["xs_text"], p["ys_text"])]
    pairs = [pairs[i] for i in p["value_order"]]
    entries = ["values : { %s }" % ", ".join(pairs)] + opt_text(p["io"], p["eo"])
    entries = [entries[i] for i in p["entry_order"]]
    return t + "@Data {\n  %s\n}\n" % ",\n  ".join(entries)


def describe(p):
    if p["table"] is None:
        return "@Data {value : %s}" % p["value_text"]
    return "@Data {values : {%s}%s}" % (", ".join("%s : %s" % ab for ab in zip(p["xs_text"], p["ys_text"])),
                                        "".join(", " + o for o in opt_text(p["io"], p["eo"])))


# ------------------------------------------------------------------ generators
def gen_table(rng, n, kind):
    """-> (xs_text, ys_text): strictly increasing abscissae; dyadic kinds keep the exact rational model cheap"""
    if kind == "corpus":       # mfront/tests/properties/*DataInterpolationTest*.mfront
        return ["293.15", "693.15", "893.15"], ["240e9", "180e9", "170e9"]
    if kind == "decimal":      # not dyadic, <= 10 significant digits
        x = rng.choice([273.15, -1.7, 0.001, 12.3456789])
        xs = []
        for _ in range(n):
            xs.append(float("%.10g" % x))
            x += rng.choice([0.1, 0.37, 19.99, 100.15, 1.0e-3, 2.5])
        sc = rng.choice([1.0, 1.0e9, 1.0e-6])
        ys = [float("%.10g" % (sc * rng.choice([1 / 3.0, -2 / 7.0, 1.1, 0.123456789, 5 / 9.0]) * rng.randint(1, 9))) for _ in range(n)]
        assert all(b > a for a, b in zip(xs, xs[1:]))
        return ["%.10g" % v for v in xs], ["%.10g" % v for v in ys]
    den = rng.choice([1, 2, 4, 8]) if kind != "fine" else 64
    x = Fr(rng.randint(-40, 40), den)
    xs = [x]
    for _ in range(n - 1):
        if kind == "uneven":
            x += rng.choice([Fr(1, 64), Fr(1, 8), Fr(3, 2), Fr(25)])
        else:
            x += Fr(rng.randint(1, 24), den)
        xs.append(x)
    if kind == "const":
        ys = [Fr(rng.randint(-9, 9), 2)] * n
    elif kind == "affine":
        a, b = Fr(rng.randint(-9, 9), 2), Fr(rng.randint(-9, 9), 4)
        ys = [a * v + b for v in xs]
    elif kind == "big":
        ys = [Fr(rng.randint(-10 ** 6, 10 ** 6), 4) for _ in range(n)]
    else:
        ys = [Fr(rng.randint(-96, 96), 16) for _ in range(n)]
    return [num_text(v) for v in xs], [num_text(v) for v in ys]


def queries(rng, xs):
    """inside every interval (middle + one off-centre point), exactly at every node, outside on both sides: near (half a
    step), middle (1.5 / 2.25 away) and far (10 table lengths); all exactly representable doubles"""
    n = len(xs)
    qs = []
    for i in range(n):
        qs.append(("node", xs[i]))
        if i + 1 < n:
            qs.append(("inside", (xs[i] + xs[i + 1]) / 2))
            qs.append(("inside", xs[i] + (xs[i + 1] - xs[i]) * rng.choice([0.125, 0.25, 0.75, 0.875])))
    span = xs[-1] - xs[0]
    hl = (xs[1] - xs[0]) / 2 if n > 1 else 0.5
    hr = (xs[-1] - xs[-2]) / 2 if n > 1 else 0.5
    far = 10 * span if n > 1 else 10.0
    qs += [("left-near", xs[0] - hl), ("right-near", xs[-1] + hr), ("left", xs[0] - 1.5), ("right", xs[-1] + 2.25),
           ("left-far", xs[0] - far), ("right-far", xs[-1] + far)]
    return [(k, v) for k, v in qs if (k in ("node", "inside")) or v < xs[0] or v > xs[-1]]


# ------------------------------------------------------------------ independent statement (exact rationals)
def doc_flags(io, eo):
    """documented meaning of the options -> (cubic spline?, extrapolate?)"""
    return io == "cubic_spline", (eo is None or eo is True)


def lin_spec(X, Y, a, extrap):
    n = len(X)
    if n == 1:
        return Y[0]
    if a <= X[0]:
        return Y[0] + (Y[1] - Y[0]) / (X[1] - X[0]) * (a - X[0]) if extrap else Y[0]
    if a >= X[-1]:
        return Y[-1] + (Y[-1] - Y[-2]) / (X[-1] - X[-2]) * (a - X[-1]) if extrap else Y[-1]
    i = max(j for j in range(n - 1) if X[j] < a)
    return Y[i] + (Y[i + 1] - Y[i]) / (X[i + 1] - X[i]) * (a - X[i])


class NaturalSpline:
    """natural cubic spline in the second-derivative (moment) formulation, moments by Gauss-Jordan elimination: shares no
    formula with the code's first-derivative formulation (Thomas algorithm on the nodal derivatives)"""

    def __init__(self, X, Y):
        n = len(X)
        self.X, self.Y, self.n = X, Y, n
        self.M = [Fr(0)] * n
        if n > 2:
            h = [X[i + 1] - X[i] for i in range(n - 1)]
            m = n - 2
            A = [[Fr(0)] * (m + 1) for _ in range(m)]
            for r in range(m):
                i = r + 1
                if r > 0:
                    A[r][r - 1] = h[i - 1] / 6
                A[r][r] = (h[i - 1] + h[i]) / 3
                if r + 1 < m:
                    A[r][r + 1] = h[i] / 6
                A[r][m] = (Y[i + 1] - Y[i]) / h[i] - (Y[i] - Y[i - 1]) / h[i - 1]
            for col in range(m):
                piv = next(r for r in range(col, m) if A[r][col] != 0)
                A[col], A[piv] = A[piv], A[col]
                A[col] = [v / A[col][col] for v in A[col]]
                for r in range(m):
                    if r != col and A[r][col] != 0:
                        f = A[r][col]
                        A[r] = [a - f * b for a, b in zip(A[r], A[col])]
            for r in range(m):
                self.M[r + 1] = A[r][m]

    def piece(self, i, a):
        X, Y, M = self.X, self.Y, self.M
        h = X[i + 1] - X[i]
        u, v = X[i + 1] - a, a - X[i]
        return (M[i] * u ** 3 + M[i + 1] * v ** 3) / (6 * h) + (Y[i] / h - M[i] * h / 6) * u + (Y[i + 1] / h - M[i + 1] * h / 6) * v

    def slope_at(self, i):
        """first derivative at node i"""
        X, Y, M = self.X, self.Y, self.M
        if i + 1 < self.n:
            h = X[i + 1] - X[i]
            return (Y[i + 1] - Y[i]) / h - h * (2 * M[i] + M[i + 1]) / 6
        h = X[i] - X[i - 1]
        return (Y[i] - Y[i - 1]) / h + h * (2 * M[i] + M[i - 1]) / 6

    def value(self, a, extrap):
        X, Y, n = self.X, self.Y, self.n
        if n == 1:
            return Y[0]
        if a <= X[0]:
            return Y[0] + self.slope_at(0) * (a - X[0]) if extrap else Y[0]
        if a > X[-1]:
            return Y[-1] + self.slope_at(n - 1) * (a - X[-1]) if extrap else Y[-1]
        i = max(j for j in range(n - 1) if X[j] < a)
        return self.piece(i, a)


# ------------------------------------------------------------------ Gallina harness
HEADER = """From Coq Require Import QArith List Bool ZArith.
From C37 Require Import C11Model C37Data.
Import ListNotations.
Local Open Scope Q_scope.
Definition eq (x : Q) : list Z := let r := Qred x in [Qnum r; Zpos (Qden r)].
Definition eo (o : option Q) : list Z := match o with Some a => eq a | None => [] end.
Definition edata io eo' (tab : list (Q * Q)) (qs : list Q) : list Z := flat_map (fun x => eo (data_Q io eo' tab x)) qs.
Definition ederivs (tab : list (Q * Q)) : list Z := flat_map (fun p => eq (snd p)) (build_Q tab).
Definition eflags (io : option interp_opt) (eo' : option extrap_opt) : list Z :=
  [match interp_of io with ILinear => 0%Z | ICubicSpline => 1%Z end; if extrap_of eo' then 1%Z else 0%Z].
"""


def q(x):
    f = Fr(x)
    n, d = f.numerator, f.denominator
    return "((%d) # %d)" % (n, d) if n < 0 else "(%d # %d)" % (n, d)


def coq_io(io):
    return {None: "None", "linear": "(Some ILinear)", "cubic_spline": "(Some ICubicSpline)"}[io]


def coq_eo(eo):
    return {None: "None", True: "(Some (EBool true))", False: "(Some (EBool false))", "constant": "(Some EConstant)",
            "bound_to_last_value": "(Some EBoundToLastValue)"}[eo]


def coq_tab(X, Y):
    return "[%s]" % "; ".join("(%s, %s)" % (q(a), q(b)) for a, b in zip(X, Y))

"""C37 -- generated material properties compute the declared law.
Engine G (correspondence) with a Coq reference semantics: random formula trees (inputs, parameters with defaults, literal
constants, + - * / unary minus, exp log sqrt cos sin tanh abs) are printed to .mfront, compiled through the `generic` and
`c` interfaces of the mfront built from the working tree, called on random inputs with default parameters and with run-time
overrides (<name>_setParameter), and compared with the Gallina evaluator `eval` (extracted; the record of double
operations is supplied by the OCaml driver).  Theorems: eval over R is the real denotation; override = recompiling with
that default; unused parameters are irrelevant.
Second stage, `@Data` tables (one input): random tables x interpolation {default, "linear", "cubic_spline"} x extrapolation
{default, true, false, "constant", "bound_to_last_value"} through the same two interfaces, called inside the table, at the
nodes and outside on both sides (near / far), compared with C11's Gallina interpolation model (`lin`, `build`, `spl`, copied
at run time under the logical prefix C37 and wrapped by coq/C37Data.v) evaluated exactly over Q by vm_compute, and with an
independent statement in Python rationals (datalaw.py).  Theorems: coq/Properties_C37_data.v."""
import math, os, re, sys, threading
from fractions import Fraction as Fr
from vlib import guarded_main, REPO_BUILD, VERIF
sys.path.insert(0, os.path.join(os.path.dirname(os.path.abspath(__file__)), "..", "C38"))
sys.path.insert(0, os.path.dirname(os.path.abspath(__file__)))
from mplib import MFrontSemaphore, mfront_exe
import datalaw as dl

MODEL = ["C37Model.v"]
EXTRACT = """From C37 Require Import C37Model.
Require Import ExtrOcamlBasic.
Extraction "c37_model.ml" run.
"""
FN = ["exp", "log", "sqrt", "cos", "sin", "tanh", "abs"]
K_PREC = "c:parameter-defaults-emitted-with-6-significant-digits"
PVALS = [1.23456789, 0.75, 2.5, 0.000123456789, 1234567.5, 1.5, 0.3333333333, 12.0]
CVALS = [0.5, 1.25, 2.0, 3.0, 0.1, 1.23456789012, 7.0, 0.001]


def gen_expr(rng, depth, nin, npar, ncst):
    leaves = [("i", k) for k in range(nin)] + [("p", k) for k in range(npar)] + [("c", k) for k in range(ncst)]
    if depth == 0 or rng.random() < 0.2:
        return rng.choice(leaves)
    r = rng.random()
    sub = lambda: gen_expr(rng, depth - 1, nin, npar, ncst)
    if r < 0.5:
        return (rng.choice("+-*"), sub(), sub())
    if r < 0.62:   # keep denominators away from zero: a / (|b| + c0)
        return ("/", sub(), ("+", ("abs", sub()), ("c", 0)))
    if r < 0.7:
        return ("neg", sub())
    f = rng.choice(FN)
    if f == "exp":
        return ("exp", ("tanh", sub()))
    if f == "log":
        return ("log", ("+", ("abs", sub()), ("c", 0)))
    if f == "sqrt":
        return ("sqrt", ("abs", sub()))
    return (f, sub())


def cxx(e, p):
    t = e[0]
    if t == "i":
        return "x%d" % e[1]
    if t == "p":
        return "p%d" % e[1]
    if t == "c":
        return repr(p["consts"][e[1]])
    if t in "+-*/" and len(e) == 3:
        return "(%s %s %s)" % (cxx(e[1], p), t, cxx(e[2], p))
    if t == "neg":
        return "(-%s)" % cxx(e[1], p)
    return "%s(%s)" % ("std::abs" if t == "abs" else "std::" + t, cxx(e[1], p))


def prefix(e):
    t = e[0]
    if t in "ipc":
        return "%s %d" % (t, e[1])
    return t + " " + " ".join(prefix(x) for x in e[1:])


def uses(e, kind):
    if e[0] in "ipc" and len(e) == 2 and isinstance(e[1], int):
        return {e[1]} if e[0] == kind else set()
    s = set()
    for x in e[1:]:
        s |= uses(x, kind)
    return s


def gen_program(rng, idx):
    nin = rng.choice([0, 1, 2, 3, 4, 6]) if idx else 2
    npar = rng.choice([0, 1, 2, 3]) if idx else 2
    consts = [1.0] + rng.sample(CVALS, 3)
    p = dict(name="C37P%d" % idx, nin=nin, npar=npar, consts=consts, defaults=[rng.choice(PVALS) for _ in range(npar)])
    if idx == 0:   # archetype: a parameter with more than 6 significant digits that matters
        p["defaults"] = [1.23456789, 0.000123456789]
        p["body"] = ("+", ("*", ("p", 0), ("i", 0)), ("*", ("p", 1), ("i", 1)))
    else:
        p["body"] = gen_expr(rng, rng.choice([2, 3, 4]), nin, npar, len(consts))
    return p


def mfront_text(p, suffix=""):
    t = "@DSL MaterialProperty;\n@Law %s;\n@Output real y;\n" % (p["name"] + suffix)
    for k in range(p["nin"]):
        t += "@Input real x%d;\n" % k
    for k in range(p["npar"]):
        t += "@Parameter real p%d = %r;\n" % (k, p["defaults"][k])
    t += "@Function{\n  y = %s;\n}\n" % cxx(p["body"], p)
    return t


def driver_text(dirname, progs):
    tpl = open(os.path.join(dirname, "driver_template.cxx")).read()
    inc, reg = [], []
    for i, p in enumerate(progs):
        inc.append('#include "%s-generic.hxx"\n#include "%sc.hxx"' % (p["name"], p["name"]))
        reg.append("static double c_%d(const double* a){ static_cast<void>(a); return %sc(%s); }" % (i, p["name"], ",".join("a[%d]" % j for j in range(p["nin"]))))
    reg.append("static const Entry registry[] = {%s};" % ", ".join(
        "{%s, c_%d, %s, %d}" % (p["name"], i, (p["name"] + "_setParameter") if p["npar"] else "nullptr", p["nin"]) for i, p in enumerate(progs)))
    return tpl.replace("//@INCLUDES@", "\n".join(inc)).replace("//@REGISTRY@", "\n".join(reg))


def close(a, b, tol=1e-13):
    if math.isnan(a) or math.isnan(b):
        return math.isnan(a) and math.isnan(b)
    if math.isinf(a) or math.isinf(b):
        return a == b
    return abs(a - b) <= tol * max(abs(a), abs(b), 1e-300)


# ====================================================================== @Data stage
def data_programs(c):
    """tables and the @Data programs built on them.  quick: 6 tables; the 15 option combinations are dealt over the five
    tables of >= 2 points so that each table gets a default-scheme, a "linear" and a "cubic_spline" program with different
    extrapolation settings; thorough: 12 tables x the 15 combinations."""
    rng = c.rng
    shapes = [(1, "plain"), (2, "plain"), (3, "corpus"), (rng.randint(4, 8), "uneven"), (rng.randint(2, 5), "decimal"), (rng.randint(4, 8), "big")]
    if not c.quick():
        shapes += [(2, "uneven"), (3, "plain"), (4, "affine"), (5, "fine"), (6, "const"), (8, "plain")]
    tables, progs = [], []
    k = 0
    for ti, (n, kind) in enumerate(shapes):
        n = min(n, 5) if kind == "decimal" else n
        xt, yt = dl.gen_table(rng, n, kind)
        xs, ys = [float(v) for v in xt], [float(v) for v in yt]
        tables.append(dict(xs_text=xt, ys_text=yt, xs=xs, ys=ys, kind=kind, queries=dl.queries(rng, xs)))
        if c.quick():
            if n == 1:
                combos = [("cubic_spline", False)]
            else:
                combos = [(dl.INTERP[a], dl.EXTRAP[b]) for a in range(3) for b in range(5) if (a + b) % 5 == ti - 1]
        else:
            combos = [(io, eo) for io in dl.INTERP for eo in dl.EXTRAP]
        for io, eo in combos:
            order = list(range(n))
            if rng.random() < 0.5:
                rng.shuffle(order)                     # `values` is a map: the order of the entries is irrelevant
            nent = 1 + (io is not None) + (eo is not None)
            eorder = list(range(nent))
            rng.shuffle(eorder)
            progs.append(dict(name="C37D%d" % k, nin=1, npar=0, table=ti, io=io, eo=eo, xs_text=xt, ys_text=yt, value_order=order,
                              entry_order=eorder))
            k += 1
    progs.append(dict(name="C37D%d" % k, nin=0, npar=0, table=None, value_text="1.23456789"))     # @Data without input
    return tables, progs


def data_compare(c, tables, progs, obs, cases, gdir):
    """observed values (generic, status, C) of every case vs the Gallina model over Q vs the independent statement"""
    # the scratch copies already compiled by the background Coq job (same path => neither copied nor recompiled by coq_eval)
    wd = os.path.join(c.work, "coq")
    model_files = [os.path.join(wd, n) if os.path.exists(os.path.join(wd, n[:-2] + ".vo")) else src
                   for n, src in (("C11Model.v", os.path.join(gdir, "C11Model.v")), ("C37Data.v", "C37Data.v"))]
    # ---- the model, exactly, one Eval per table (nodal derivatives) and per program (all its queries)
    v = [dl.HEADER]
    for tb in tables:
        tb["X"], tb["Y"] = [Fr(a) for a in tb["xs"]], [Fr(b) for b in tb["ys"]]
        v.append("Eval vm_compute in ederivs %s." % dl.coq_tab(tb["X"], tb["Y"]))
    tprogs = [p for p in progs if p["table"] is not None]
    for p in tprogs:
        tb = tables[p["table"]]
        v.append("Eval vm_compute in eflags %s %s." % (dl.coq_io(p["io"]), dl.coq_eo(p["eo"])))
        v.append("Eval vm_compute in edata %s %s %s [%s]." % (dl.coq_io(p["io"]), dl.coq_eo(p["eo"]), dl.coq_tab(tb["X"], tb["Y"]),
                                                            "; ".join(dl.q(x) for _k, x in tb["queries"])))
    rc, mout, merr = c.coq_eval(model_files, "\n".join(v) + "\n", timeout=1500)
    if rc != 0 and not merr.strip():          # coqc killed from outside (shared machine): once more
        rc, mout, merr = c.coq_eval(model_files, "\n".join(v) + "\n", timeout=1500)
    c.log("@Data: model evaluated over Q")
    if rc != 0:
        c.report("data-model-eval", "evaluation of the @Data model failed: " + merr[-500:], {"stderr": merr[-3000:]}, False)
        return
    model = [[int(s) for s in re.findall(r"-?\d+", m)] for m in re.findall(r"=\s*\[([^\]]*)\]", mout.replace("%Z", ""))]
    if len(model) != len(tables) + 2 * len(tprogs):
        c.report("data-model-eval", "the @Data model returned %d results for %d commands" % (len(model), len(tables) + 2 * len(tprogs)),
                 {"stdout": mout[-2000:]}, False)
        return
    fr = lambda l: [Fr(l[i], l[i + 1]) for i in range(0, len(l), 2)]
    nrep = [0, 0]

    def report(key, what, rep, found=True):
        nrep[1] += 1
        if nrep[0] < 4:                        # a broken emitter fails everywhere: a few concrete inputs are enough
            nrep[0] += 1
            c.report(key, what, rep, found)

    for ti, tb in enumerate(tables):
        X, Y, n = tb["X"], tb["Y"], len(tb["X"])
        tb["spline"] = dl.NaturalSpline(X, Y)
        d_spec = [tb["spline"].slope_at(i) for i in range(n)] if n > 1 else [Fr(0)]
        d_model = fr(model[ti])
        if d_model != d_spec:
            report("data-model:derivs:%d" % ti, "nodal derivatives of the model's `build` differ from those of the natural spline (moment formulation) on "
                   "x=%s y=%s" % (tb["xs_text"], tb["ys_text"]), {"model": [float(d) for d in d_model], "spec": [float(d) for d in d_spec]}, False)
        tb["span"] = X[-1] - X[0]
        tb["ymax"] = max(abs(b) for b in Y)
        tb["smax"] = max([abs((Y[i + 1] - Y[i]) / (X[i + 1] - X[i])) for i in range(n - 1)] or [Fr(0)])
        tb["dmax"] = max(abs(d) for d in d_spec)
    byprog = {}
    for cs in cases:
        byprog.setdefault(cs["prog"], []).append(cs)
    combos, kinds, worst = set(), {}, {"linear": 0.0, "cubic_spline": 0.0}
    for pi, p in enumerate(progs):
        if p["table"] is None:                  # no input: the declared constant
            cs = byprog[pi][0]
            g, st, cv, _s = obs[cs["id"]]
            want = float(p["value_text"])
            c.count(1, (p["name"],), True)
            for itf, val in (("generic", g), ("c", cv)):
                if not close(val, want) or (itf == "generic" and st != 0):
                    report("data:%s:%s" % (p["name"], itf), "%s interface of\n%s\nreturns %r (status %d), declared value %r" % (
                        itf, dl.mfront_text(p), val, st, want), {"mfront_file": dl.mfront_text(p), "returned": val, "declared": want})
            continue
        tb = tables[p["table"]]
        X, Y, n = tb["X"], tb["Y"], len(tb["X"])
        k_ = len(tables) + 2 * tprogs.index(p)
        mflags, mvals = model[k_], fr(model[k_ + 1])
        spline, extrap = dl.doc_flags(p["io"], p["eo"])
        combos.add((p["io"], p["eo"]))
        if mflags != [int(spline), int(extrap)]:
            report("data-model:options:%s:%s" % (p["io"], p["eo"]), "the model decodes interpolation=%r extrapolation=%r as (spline, extrapolate) = %s, documented %s"
                   % (p["io"], p["eo"], mflags, [int(spline), int(extrap)]), {}, False)
        if len(mvals) != len(tb["queries"]):
            report("data-model:%s" % p["name"], "the model returned no value for " + dl.describe(p), {}, False)
            continue
        rtol = dl.RTOL_SPL if spline else dl.RTOL_LIN
        slope = tb["smax"] + (tb["dmax"] if spline else 0)
        for (kind, x), cs, M in zip(tb["queries"], byprog[pi], mvals):
            A = Fr(x)
            g, st, cv, _s = obs[cs["id"]]
            S = tb["spline"].value(A, extrap) if spline else dl.lin_spec(X, Y, A, extrap)
            dist = max(X[0] - A, A - X[-1], 0)
            tol = rtol * (tb["ymax"] + slope * (tb["span"] + dist)) + dl.TINY
            c.count(1, (p["name"], x), n > 1)
            kinds[kind.split("-")[0]] = kinds.get(kind.split("-")[0], 0) + 1
            if n > 1 and kind in ("inside", "left-far", "right-near") and (pi * 7 + cs["k"]) % 23 == 0:
                c.sample({"program": p["name"], "law": dl.describe(p), "x0": x, "where": kind, "generic": g, "c": cv,
                          "model_over_Q": float(M), "independent_statement": float(S), "tolerance": float(tol)}, limit=8)
            rep = {"mfront_file": dl.mfront_text(p), "law": dl.describe(p), "x0": x, "where": kind, "generic_interface": g, "generic_status": st,
                   "c_interface": cv, "model_over_Q": float(M), "independent_statement": float(S), "tolerance": float(tol)}
            if M != S:
                report("data-model:%s:%s" % (p["name"], x.hex()), "the Gallina model of %s at x0 = %r (%s) gives %r, the independent statement %r"
                       % (dl.describe(p), x, kind, float(M), float(S)), rep, False)
                continue
            for itf, val in (("generic", g), ("c", cv)):
                bad = None
                if not math.isfinite(val) or (itf == "generic" and st != 0):
                    bad = "returns %r%s" % (val, " (status %d)" % st if itf == "generic" else "")
                elif abs(Fr(val) - S) > tol:
                    bad = "returns %r" % val
                else:
                    sk = "cubic_spline" if spline else "linear"
                    worst[sk] = max(worst[sk], float(abs(Fr(val) - S) / tol))
                if bad:
                    report("data:%s:%s:%s" % (p["name"], itf, x.hex()),
                           "%s interface of %s\nat x0 = %r (%s the table [%s, %s]) %s; the declared law (%s interpolation, extrapolation %s) gives %r "
                           "(Gallina model over Q and independent rational statement agree; tolerance %.3g)" % (
                               itf, dl.describe(p), x, {"node": "a node of", "inside": "inside"}.get(kind, kind + " of"), tb["xs_text"][0],
                               tb["xs_text"][-1], bad, "cubic-spline" if spline else "linear", "enabled" if extrap else "disabled: constant outside",
                               float(S), float(tol)), rep, True)
    if nrep[1] > nrep[0]:
        c.notes.append("@Data: %d further failing cases not reported one by one" % (nrep[1] - nrep[0]))
    c.coverage["data_option_combinations"] = sorted("%s/%s" % cb for cb in combos)
    c.coverage["data_queries_by_place"] = kinds
    c.coverage["data_largest_error_over_tolerance"] = worst
    return combos


def main(c):
    c.repo_build(["mfront"])
    mfront = mfront_exe(c, REPO_BUILD)
    # ---- Coq: C37's own files, then C11's development copied under this check's logical prefix, then the @Data files.
    #      One sequential coqc job in the background while mfront / g++ work; joined before any other use of the scratch coq dir.
    gdir = os.path.join(c.work, "gen")
    os.makedirs(gdir, exist_ok=True)
    c11 = []
    for n in ("C11Model.v", "C11Spec.v", "C11Proofs.v", "C11Spline.v"):
        txt = open(os.path.join(VERIF, "props", "C11", "coq", n)).read().replace("From C11 Require", "From C37 Require")
        open(os.path.join(gdir, n), "w").write(txt)
        c11.append(os.path.join(gdir, n))
    coq_files = ["C37Model.v", "C37Spec.v", "C37Proofs.v", "Properties_C37.v"] + c11 + ["C37Data.v", "C37DataProofs.v", "Properties_C37_data.v"]
    box = {}

    def run_coq():
        try:
            box["res"] = c.coq(coq_files, timeout=900)
        except BaseException as e:             # re-raised in the main thread
            box["exc"] = e
    th = threading.Thread(target=run_coq)
    th.start()
    try:
        stages(c, mfront, gdir, th)
    finally:
        th.join()
    if "exc" in box:
        raise box["exc"]
    res = box["res"]
    if not res.ok:
        c.coq_failures(res)


def stages(c, mfront, gdir, coq_thread):
    progs = [gen_program(c.rng, i) for i in range(c.pick(25, 150))]
    tables, dprogs = data_programs(c)
    with MFrontSemaphore() as sem:
        for p in progs:
            open(os.path.join(gdir, p["name"] + ".mfront"), "w").write(mfront_text(p))
            open(os.path.join(gdir, p["name"] + "c.mfront"), "w").write(mfront_text(p, "c"))
            rc, out, err = c.run([mfront, "--interface=generic", p["name"] + ".mfront"], cwd=gdir, timeout=120)
            sem.runs += 1
            if rc == 0:
                rc, out, err = c.run([mfront, "--interface=c", p["name"] + "c.mfront"], cwd=gdir, timeout=120)
                sem.runs += 1
            if rc != 0:
                c.report("mfront:" + p["name"], "mfront rejects a generated material property: " + (out + err)[-500:],
                         {"mfront": mfront_text(p), "output": (out + err)[-2000:]}, True)
                p["failed"] = True
        c.log("mfront ran on %d formula material properties" % len(progs))
        for p in dprogs:
            open(os.path.join(gdir, p["name"] + ".mfront"), "w").write(dl.mfront_text(p))
            open(os.path.join(gdir, p["name"] + "c.mfront"), "w").write(dl.mfront_text(p, "c"))
            rc, out, err = c.run([mfront, "--interface=generic", p["name"] + ".mfront"], cwd=gdir, timeout=120)
            sem.runs += 1
            if rc == 0:
                rc, out, err = c.run([mfront, "--interface=c", p["name"] + "c.mfront"], cwd=gdir, timeout=120)
                sem.runs += 1
            if rc != 0:
                c.report("mfront:data:%s:%s" % (p.get("io"), p.get("eo")), "mfront rejects a documented @Data declaration:\n%s\n%s" % (
                    dl.mfront_text(p), (out + err)[-500:]), {"mfront": dl.mfront_text(p), "output": (out + err)[-2000:]}, True)
                p["failed"] = True
    progs = [p for p in progs if not p.get("failed")]
    dprogs = [p for p in dprogs if not p.get("failed")]
    c.log("mfront ran on %d @Data material properties (%d tables)" % (len(dprogs), len(tables)))
    drv = os.path.join(gdir, "driver.cxx")
    open(drv, "w").write(driver_text(c.dir, progs))
    srcs = [drv] + [os.path.join(gdir, "src", p["name"] + s) for p in progs for s in ("-generic.cxx", "c.cxx")]
    exe = c.cxx("driver", srcs, [], flags=["-I" + os.path.join(gdir, "include"), "-ffp-contract=off"])
    c.log("generated sources compiled (formulae)")
    ddrv = os.path.join(gdir, "ddriver.cxx")
    open(ddrv, "w").write(driver_text(c.dir, dprogs))
    srcs = [ddrv] + [os.path.join(gdir, "src", p["name"] + s) for p in dprogs for s in ("-generic.cxx", "c.cxx")]
    dexe = c.cxx("ddriver", srcs, ["src/Exception/ContractViolation.cxx"], flags=["-I" + os.path.join(gdir, "include"), "-ffp-contract=off"])
    c.log("generated sources compiled (@Data)")
    # ---- @Data: run the real code
    dcases = []
    for pi, p in enumerate(dprogs):
        pts = tables[p["table"]]["queries"] if p["table"] is not None else [("none", None)]
        for k, (_kind, x) in enumerate(pts):
            dcases.append(dict(id="%d_%d" % (pi, k), prog=pi, k=k, xs=[x] if x is not None else []))
    dinp = "".join("%s %d %d %s 0\n" % (cs["id"], cs["prog"], len(cs["xs"]), " ".join(x.hex() for x in cs["xs"])) for cs in dcases)
    rc, dout, derr = c.run([dexe], input=dinp)
    dobs = {}
    if rc != 0:
        c.report("data-driver", "@Data driver failed (rc %d): %s" % (rc, derr[-400:]), {"stderr": derr[-2000:]}, False)
    else:
        for l in dout.splitlines():
            t = l.split()
            dobs[t[0]] = (float.fromhex(t[1]) if "x" in t[1] else float(t[1]), int(t[2]), float.fromhex(t[3]) if "x" in t[3] else float(t[3]), int(t[4]))
    # ---- formulae
    coq_thread.join()
    nform = formula_stage(c, progs, exe)
    combos = set()
    if dobs:
        combos = data_compare(c, tables, dprogs, dobs, dcases, gdir) or set()
    ndata = len(dcases) if dobs else 0
    c.coverage["rule"] = ("(1) %d random material properties (0..6 inputs, 0..3 parameters, formula trees of depth <= 4 over + - * / neg exp log sqrt cos sin tanh abs, "
                          "literal constants) x random inputs; generic interface with defaults and with every parameter set through <name>_setParameter; C interface with defaults; "
                          "relative tolerance 1e-13 against the extracted evaluator run on doubles.  (2) %d @Data material properties on %d tables (1..8 points; dyadic, "
                          "10-digit decimal and the repository's 293.15/693.15/893.15 table; entries of `values` in any order) covering %d of the 15 combinations of "
                          "interpolation {absent, linear, cubic_spline} x extrapolation {absent, true, false, constant, bound_to_last_value}; generic and C interfaces called "
                          "at every node, twice inside every interval, and at 6 points outside (half a step, 1.5 / 2.25 and 10 table lengths away, both sides): %d calls "
                          "compared with C11's Gallina model evaluated exactly over Q (vm_compute) and with an independent rational statement (piecewise-linear; natural "
                          "spline in the moment formulation), model = statement exactly, code within 1e-13 (linear) / 1e-11 (spline: nodal derivatives printed with 14 "
                          "digits) x (max|y| + max slope x (table length + distance to the table))" % (nform, len(dprogs), len(tables), len(combos), ndata))
    c.coverage["programs"] = nform + len(dprogs)
    c.trusted("props/C37/driver_template.cxx + generated registry", "Python printers: formula AST -> C++ text in @Function and -> prefix tokens for the extracted evaluator",
              "props/C37/model_driver.ml supplies the record of double operations (OCaml float arithmetic and libm) to the extracted `run`",
              "g++ compiles the generated formula without contraction (-ffp-contract=off) and in the written order",
              "props/C37/datalaw.py: printer of @Data blocks, Python fractions for the independent statement, parsing of the vm_compute output; "
              "props/C11/coq/{C11Model,C11Spec,C11Proofs,C11Spline}.v are read from props/C11 at run time")


def formula_stage(c, progs, exe):
    cases = []
    for pi, p in enumerate(progs):
        k = 0
        for rep in range(c.pick(6, 20)):          # defaults first (no setParameter call has happened yet for this program)
            xs = [c.rng.choice([0.5, 0.75, 1.0, 1.5, 2.0, 293.15, 1e-3]) * (1 + c.rng.random()) for _ in range(p["nin"])]
            cases.append(dict(id="%d_%d" % (pi, k), prog=pi, xs=xs, ovs=None)); k += 1
        if p["npar"]:
            for rep in range(c.pick(6, 20)):
                xs = [c.rng.choice([0.5, 1.0, 2.0, 100.0]) * (1 + c.rng.random()) for _ in range(p["nin"])]
                vals = list(p["defaults"])
                for j in c.rng.sample(range(p["npar"]), c.rng.randint(1, p["npar"])):
                    vals[j] = c.rng.choice(PVALS) * (0.5 + c.rng.random())
                cases.append(dict(id="%d_%d" % (pi, k), prog=pi, xs=xs, ovs=vals)); k += 1
    inp = "".join("%s %d %d %s %d %s\n" % (cs["id"], cs["prog"], len(cs["xs"]), " ".join(x.hex() for x in cs["xs"]),
                                          len(cs["ovs"]) if cs["ovs"] else 0,
                                          " ".join("p%d %s" % (j, v.hex()) for j, v in enumerate(cs["ovs"])) if cs["ovs"] else "") for cs in cases)
    rc, out, err = c.run([exe], input=inp)
    if rc != 0:
        c.report("driver", "driver failed (rc %d): %s" % (rc, err[-400:]), {"stderr": err[-2000:]}, False)
        return len(progs)
    obs = {}
    for l in out.splitlines():
        t = l.split()
        obs[t[0]] = (float.fromhex(t[1]) if "x" in t[1] else float(t[1]), int(t[2]), float.fromhex(t[3]) if "x" in t[3] else float(t[3]), int(t[4]))
    ml = c.ocaml_extract("c37", MODEL, EXTRACT, "model_driver.ml")
    lines = []
    for pi, p in enumerate(progs):
        lines.append("P %d %s %d %s %s" % (len(p["consts"]), " ".join(x.hex() for x in p["consts"]), p["npar"],
                                           " ".join(x.hex() for x in p["defaults"]), prefix(p["body"])))
        for cs in cases:
            if cs["prog"] == pi:
                ov = cs["ovs"] or []
                lines.append("E %d %s %d %s" % (len(cs["xs"]), " ".join(x.hex() for x in cs["xs"]), len(ov), " ".join("%d %s" % (j, v.hex()) for j, v in enumerate(ov))))
    rc, mo, me = c.run([ml], input="\n".join(lines) + "\n")
    mo = mo.split()
    if rc != 0 or len(mo) != len(cases):
        c.report("model-eval", "the extracted evaluator could not be run: " + me[-400:], {"stderr": me[-2000:]}, False)
        return len(progs)
    c.log("model evaluated")
    order = [cs for pi in range(len(progs)) for cs in cases if cs["prog"] == pi]
    nprec = 0
    for i, cs in enumerate(order):
        p = progs[cs["prog"]]
        m = float.fromhex(mo[i]) if "x" in mo[i] else float(mo[i])
        g, st, cv, setrc = obs[cs["id"]]
        c.count(1, (p["name"], tuple(cs["xs"]), tuple(cs["ovs"] or [])), True)
        if i % 97 == 0:
            c.sample({"program": p["name"], "formula": cxx(p["body"], p), "defaults": p["defaults"], "inputs": cs["xs"], "overrides": cs["ovs"],
                      "generic": g, "c": cv, "eval": m}, limit=4)
        rep = {"mfront_file": mfront_text(p), "inputs": cs["xs"], "parameter_values_set_at_run_time": cs["ovs"], "generic_interface": g, "generic_status": st,
               "c_interface": cv, "reference_eval": m}
        key_ = "%s:%s:%s" % (p["name"], ",".join(x.hex() for x in cs["xs"]), ",".join(v.hex() for v in (cs["ovs"] or [])))
        if cs["ovs"] and not setrc:
            c.report("set:" + key_, "%s_setParameter refused a declared parameter\n%s" % (p["name"], mfront_text(p)), rep, True)
            continue
        if not close(g, m) or (st != 0 and math.isfinite(m)):
            c.report("generic:" + key_, "generic interface of\n%s\non inputs %s%s returns %r (status %d), the declared law evaluates to %r" % (
                mfront_text(p), cs["xs"], (" with parameters set to %s" % cs["ovs"]) if cs["ovs"] else "", g, st, m), rep, True)
        if cs["ovs"] is None and not close(cv, m):
            # is it the 6-digit truncation of the parameter defaults?
            trunc = dict(p, defaults=[float("%.6g" % d) for d in p["defaults"]])
            rc2, o2, e2 = c.run([ml], input="P %d %s %d %s %s\nE %d %s 0\n" % (len(p["consts"]), " ".join(x.hex() for x in p["consts"]), p["npar"],
                                " ".join(x.hex() for x in trunc["defaults"]), prefix(p["body"]), len(cs["xs"]), " ".join(x.hex() for x in cs["xs"])))
            m2 = float.fromhex(o2.split()[0]) if rc2 == 0 and o2.split() and "x" in o2.split()[0] else math.nan
            if close(cv, m2):
                nprec += 1
                if nprec == 1 or any(k.get("key") == K_PREC for k in c.known):
                    c.report(K_PREC, "C interface: parameter defaults are emitted with 6 significant digits:\n%s\non inputs %s returns %r, the declared law evaluates to %r "
                             "(and to %r with the defaults rounded to 6 digits)" % (mfront_text(p, "c"), cs["xs"], cv, m, m2), rep, True)
            else:
                c.report("c:" + key_, "C interface of\n%s\non inputs %s returns %r, the declared law evaluates to %r" % (mfront_text(p, "c"), cs["xs"], cv, m), rep, True)
    if nprec:
        c.notes.append("%d cases where the C interface differs only by the 6-digit truncation of parameter defaults" % nprec)
    return len(progs)


guarded_main("C37", main)

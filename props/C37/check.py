"""C37 -- generated material properties compute the declared law.
Engine G (correspondence) with a Coq reference semantics: random formula trees (inputs, parameters with defaults, literal
constants, + - * / unary minus, exp log sqrt cos sin tanh abs) are printed to .mfront, compiled through the `generic` and
`c` interfaces of the mfront built from the working tree, called on random inputs with default parameters and with run-time
overrides (<name>_setParameter), and compared with the Gallina evaluator `eval` (extracted; the record of double
operations is supplied by the OCaml driver).  Theorems: eval over R is the real denotation; override = recompiling with
that default; unused parameters are irrelevant."""
import math, os, sys
from vlib import guarded_main, REPO_BUILD
sys.path.insert(0, os.path.join(os.path.dirname(os.path.abspath(__file__)), "..", "C38"))
from mplib import MFrontSemaphore, mfront_exe

MODEL = ["C37Model.v"]
EXTRACT = """From C37 Require Import C37Model.
Require Import ExtrOcamlBasic.
Extraction "c37_model.ml" run.
"""
FN = ["exp", "log", "sqrt", "cos", "sin", "tanh", "abs"]
K_PREC = "c:parameter-defaults-emitted-with-6-significant-digits"
PVALS = [1.23456789, 0.75, 2.5, 0.000123456789, 1234567.5, 1.5, 0.3333333333, 12.0]
CVALS = [0.5, 1.25, 2.0, 3.0, 0.1, 1.23456789012, 7.0, 0.001]


def gen_expr(rng, depth, nin, npar, ncst):
    leaves = [("i", k) for k in range(nin)] + [("p", k) for k in range(npar)] + [("c", k) for k in range(ncst)]
    if depth == 0 or rng.random() < 0.2:
        return rng.choice(leaves)
    r = rng.random()
    sub = lambda: gen_expr(rng, depth - 1, nin, npar, ncst)
    if r < 0.5:
        return (rng.choice("+-*"), sub(), sub())
    if r < 0.62:   # keep denominators away from zero: a / (|b| + c0)
        return ("/", sub(), ("+", ("abs", sub()), ("c", 0)))
    if r < 0.7:
        return ("neg", sub())
    f = rng.choice(FN)
    if f == "exp":
        return ("exp", ("tanh", sub()))
    if f == "log":
        return ("log", ("+", ("abs", sub()), ("c", 0)))
    if f == "sqrt":
        return ("sqrt", ("abs", sub()))
    return (f, sub())


def cxx(e, p):
    t = e[0]
    if t == "i":
        return "x%d" % e[1]
    if t == "p":
        return "p%d" % e[1]
    if t == "c":
        return repr(p["consts"][e[1]])
    if t in "+-*/" and len(e) == 3:
        return "(%s %s %s)" % (cxx(e[1], p), t, cxx(e[2], p))
    if t == "neg":
        return "(-%s)" % cxx(e[1], p)
    return "%s(%s)" % ("std::abs" if t == "abs" else "std::" + t, cxx(e[1], p))


def prefix(e):
    t = e[0]
    if t in "ipc":
        return "%s %d" % (t, e[1])
    return t + " " + " ".join(prefix(x) for x in e[1:])


def uses(e, kind):
    if e[0] in "ipc" and len(e) == 2 and isinstance(e[1], int):
        return {e[1]} if e[0] == kind else set()
    s = set()
    for x in e[1:]:
        s |= uses(x, kind)
    return s


def gen_program(rng, idx):
    nin = rng.choice([0, 1, 2, 3, 4, 6]) if idx else 2
    npar = rng.choice([0, 1, 2, 3]) if idx else 2
    consts = [1.0] + rng.sample(CVALS, 3)
    p = dict(name="C37P%d" % idx, nin=nin, npar=npar, consts=consts, defaults=[rng.choice(PVALS) for _ in range(npar)])
    if idx == 0:   # archetype: a parameter with more than 6 significant digits that matters
        p["defaults"] = [1.23456789, 0.000123456789]
        p["body"] = ("+", ("*", ("p", 0), ("i", 0)), ("*", ("p", 1), ("i", 1)))
    else:
        p["body"] = gen_expr(rng, rng.choice([2, 3, 4]), nin, npar, len(consts))
    return p


def mfront_text(p, suffix=""):
    t = "@DSL MaterialProperty;\n@Law %s;\n@Output real y;\n" % (p["name"] + suffix)
    for k in range(p["nin"]):
        t += "@Input real x%d;\n" % k
    for k in range(p["npar"]):
        t += "@Parameter real p%d = %r;\n" % (k, p["defaults"][k])
    t += "@Function{\n  y = %s;\n}\n" % cxx(p["body"], p)
    return t


def driver_text(dirname, progs):
    tpl = open(os.path.join(dirname, "driver_template.cxx")).read()
    inc, reg = [], []
    for i, p in enumerate(progs):
        inc.append('#include "%s-generic.hxx"\n#include "%sc.hxx"' % (p["name"], p["name"]))
        reg.append("static double c_%d(const double* a){ static_cast<void>(a); return %sc(%s); }" % (i, p["name"], ",".join("a[%d]" % j for j in range(p["nin"]))))
    reg.append("static const Entry registry[] = {%s};" % ", ".join(
        "{%s, c_%d, %s, %d}" % (p["name"], i, (p["name"] + "_setParameter") if p["npar"] else "nullptr", p["nin"]) for i, p in enumerate(progs)))
    return tpl.replace("//@INCLUDES@", "\n".join(inc)).replace("//@REGISTRY@", "\n".join(reg))


def close(a, b, tol=1e-13):
    if math.isnan(a) or math.isnan(b):
        return math.isnan(a) and math.isnan(b)
    if math.isinf(a) or math.isinf(b):
        return a == b
    return abs(a - b) <= tol * max(abs(a), abs(b), 1e-300)


def main(c):
    c.repo_build(["mfront"])
    mfront = mfront_exe(c, REPO_BUILD)
    progs = [gen_program(c.rng, i) for i in range(c.pick(25, 150))]
    gdir = os.path.join(c.work, "gen")
    os.makedirs(gdir, exist_ok=True)
    with MFrontSemaphore() as sem:
        for p in progs:
            open(os.path.join(gdir, p["name"] + ".mfront"), "w").write(mfront_text(p))
            open(os.path.join(gdir, p["name"] + "c.mfront"), "w").write(mfront_text(p, "c"))
            rc, out, err = c.run([mfront, "--interface=generic", p["name"] + ".mfront"], cwd=gdir, timeout=120)
            sem.runs += 1
            if rc == 0:
                rc, out, err = c.run([mfront, "--interface=c", p["name"] + "c.mfront"], cwd=gdir, timeout=120)
                sem.runs += 1
            if rc != 0:
                c.report("mfront:" + p["name"], "mfront rejects a generated material property: " + (out + err)[-500:],
                         {"mfront": mfront_text(p), "output": (out + err)[-2000:]}, True)
                p["failed"] = True
    progs = [p for p in progs if not p.get("failed")]
    c.log("mfront ran on %d material properties" % len(progs))
    drv = os.path.join(gdir, "driver.cxx")
    open(drv, "w").write(driver_text(c.dir, progs))
    srcs = [drv] + [os.path.join(gdir, "src", p["name"] + s) for p in progs for s in ("-generic.cxx", "c.cxx")]
    exe = c.cxx("driver", srcs, [], flags=["-I" + os.path.join(gdir, "include"), "-ffp-contract=off"])
    c.log("generated sources compiled")
    cases = []
    for pi, p in enumerate(progs):
        k = 0
        for rep in range(c.pick(6, 20)):          # defaults first (no setParameter call has happened yet for this program)
            xs = [c.rng.choice([0.5, 0.75, 1.0, 1.5, 2.0, 293.15, 1e-3]) * (1 + c.rng.random()) for _ in range(p["nin"])]
            cases.append(dict(id="%d_%d" % (pi, k), prog=pi, xs=xs, ovs=None)); k += 1
        if p["npar"]:
            for rep in range(c.pick(6, 20)):
                xs = [c.rng.choice([0.5, 1.0, 2.0, 100.0]) * (1 + c.rng.random()) for _ in range(p["nin"])]
                vals = list(p["defaults"])
                for j in c.rng.sample(range(p["npar"]), c.rng.randint(1, p["npar"])):
                    vals[j] = c.rng.choice(PVALS) * (0.5 + c.rng.random())
                cases.append(dict(id="%d_%d" % (pi, k), prog=pi, xs=xs, ovs=vals)); k += 1
    inp = "".join("%s %d %d %s %d %s\n" % (cs["id"], cs["prog"], len(cs["xs"]), " ".join(x.hex() for x in cs["xs"]),
                                          len(cs["ovs"]) if cs["ovs"] else 0,
                                          " ".join("p%d %s" % (j, v.hex()) for j, v in enumerate(cs["ovs"])) if cs["ovs"] else "") for cs in cases)
    rc, out, err = c.run([exe], input=inp)
    if rc != 0:
        c.report("driver", "driver failed (rc %d): %s" % (rc, err[-400:]), {"stderr": err[-2000:]}, False)
        return
    obs = {}
    for l in out.splitlines():
        t = l.split()
        obs[t[0]] = (float.fromhex(t[1]) if "x" in t[1] else float(t[1]), int(t[2]), float.fromhex(t[3]) if "x" in t[3] else float(t[3]), int(t[4]))
    ml = c.ocaml_extract("c37", MODEL, EXTRACT, "model_driver.ml")
    lines = []
    for pi, p in enumerate(progs):
        lines.append("P %d %s %d %s %s" % (len(p["consts"]), " ".join(x.hex() for x in p["consts"]), p["npar"],
                                           " ".join(x.hex() for x in p["defaults"]), prefix(p["body"])))
        for cs in cases:
            if cs["prog"] == pi:
                ov = cs["ovs"] or []
                lines.append("E %d %s %d %s" % (len(cs["xs"]), " ".join(x.hex() for x in cs["xs"]), len(ov), " ".join("%d %s" % (j, v.hex()) for j, v in enumerate(ov))))
    rc, mo, me = c.run([ml], input="\n".join(lines) + "\n")
    mo = mo.split()
    if rc != 0 or len(mo) != len(cases):
        c.report("model-eval", "the extracted evaluator could not be run: " + me[-400:], {"stderr": me[-2000:]}, False)
        return
    c.log("model evaluated")
    order = [cs for pi in range(len(progs)) for cs in cases if cs["prog"] == pi]
    nprec = 0
    for i, cs in enumerate(order):
        p = progs[cs["prog"]]
        m = float.fromhex(mo[i]) if "x" in mo[i] else float(mo[i])
        g, st, cv, setrc = obs[cs["id"]]
        c.count(1, (p["name"], tuple(cs["xs"]), tuple(cs["ovs"] or [])), True)
        if i % 97 == 0:
            c.sample({"program": p["name"], "formula": cxx(p["body"], p), "defaults": p["defaults"], "inputs": cs["xs"], "overrides": cs["ovs"],
                      "generic": g, "c": cv, "eval": m})
        rep = {"mfront_file": mfront_text(p), "inputs": cs["xs"], "parameter_values_set_at_run_time": cs["ovs"], "generic_interface": g, "generic_status": st,
               "c_interface": cv, "reference_eval": m}
        key_ = "%s:%s:%s" % (p["name"], ",".join(x.hex() for x in cs["xs"]), ",".join(v.hex() for v in (cs["ovs"] or [])))
        if cs["ovs"] and not setrc:
            c.report("set:" + key_, "%s_setParameter refused a declared parameter\n%s" % (p["name"], mfront_text(p)), rep, True)
            continue
        if not close(g, m) or (st != 0 and math.isfinite(m)):
            c.report("generic:" + key_, "generic interface of\n%s\non inputs %s%s returns %r (status %d), the declared law evaluates to %r" % (
                mfront_text(p), cs["xs"], (" with parameters set to %s" % cs["ovs"]) if cs["ovs"] else "", g, st, m), rep, True)
        if cs["ovs"] is None and not close(cv, m):
            # is it the 6-digit truncation of the parameter defaults?
            trunc = dict(p, defaults=[float("%.6g" % d) for d in p["defaults"]])
            rc2, o2, e2 = c.run([ml], input="P %d %s %d %s %s\nE %d %s 0\n" % (len(p["consts"]), " ".join(x.hex() for x in p["consts"]), p["npar"],
                                " ".join(x.hex() for x in trunc["defaults"]), prefix(p["body"]), len(cs["xs"]), " ".join(x.hex() for x in cs["xs"])))
            m2 = float.fromhex(o2.split()[0]) if rc2 == 0 and o2.split() and "x" in o2.split()[0] else math.nan
            if close(cv, m2):
                nprec += 1
                if nprec == 1 or any(k.get("key") == K_PREC for k in c.known):
                    c.report(K_PREC, "C interface: parameter defaults are emitted with 6 significant digits:\n%s\non inputs %s returns %r, the declared law evaluates to %r "
                             "(and to %r with the defaults rounded to 6 digits)" % (mfront_text(p, "c"), cs["xs"], cv, m, m2), rep, True)
            else:
                c.report("c:" + key_, "C interface of\n%s\non inputs %s returns %r, the declared law evaluates to %r" % (mfront_text(p, "c"), cs["xs"], cv, m), rep, True)
    if nprec:
        c.notes.append("%d cases where the C interface differs only by the 6-digit truncation of parameter defaults" % nprec)
    res = c.coq(["C37Model.v", "C37Spec.v", "C37Proofs.v", "Properties_C37.v"], timeout=600)
    if not res.ok:
        c.coq_failures(res)
    c.coverage["rule"] = ("%d random material properties (0..6 inputs, 0..3 parameters, formula trees of depth <= 4 over + - * / neg exp log sqrt cos sin tanh abs, "
                          "literal constants) x random inputs; generic interface with defaults and with every parameter set through <name>_setParameter; C interface with defaults; "
                          "relative tolerance 1e-13 against the extracted evaluator run on doubles" % len(progs))
    c.coverage["programs"] = len(progs)
    c.trusted("props/C37/driver_template.cxx + generated registry", "Python printers: formula AST -> C++ text in @Function and -> prefix tokens for the extracted evaluator",
              "props/C37/model_driver.ml supplies the record of double operations (OCaml float arithmetic and libm) to the extracted `run`",
              "g++ compiles the generated formula without contraction (-ffp-contract=off) and in the written order")


guarded_main("C37", main)

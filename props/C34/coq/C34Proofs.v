(* C34 -- soundness of the boolean checks (generic in the table) and their evaluation on the dumped table *)
From Coq Require Import List String Bool Arith ZArith Lia.
From C34 Require Import C32Model C34Model C34_gen.
Import ListNotations.

Lemma list_eqb_eq {A} (eqb : A -> A -> bool) (H : forall x y, eqb x y = true -> x = y) a b :
  list_eqb eqb a b = true -> a = b.
Proof.
  revert b; induction a as [|x a IH]; intros [|y b]; simpl; try discriminate; auto.
  intros E. apply andb_prop in E. destruct E as [E1 E2]. f_equal; auto.
Qed.

Lemma pair_eqb_eq a b : pair_eqb a b = true -> a = b.
Proof.
  destruct a, b; unfold pair_eqb; simpl. intros E. apply andb_prop in E. destruct E as [E1 E2].
  apply String.eqb_eq in E1, E2. congruence.
Qed.

Lemma entry_eqb_eq a b : entry_eqb a b = true -> a = b.
Proof.
  destruct a, b; unfold entry_eqb; simpl. intros E.
  repeat (apply andb_prop in E; destruct E as [E ?]).
  apply String.eqb_eq in E. apply String.eqb_eq in H1.
  apply (list_eqb_eq _ (fun x y => proj1 (String.eqb_eq x y))) in H3.
  apply (list_eqb_eq _ pair_eqb_eq) in H2, H0, H. congruence.
Qed.

Lemma opt_is_eq o e : opt_is o e = true -> o = Some e.
Proof. destruct o; simpl; [|discriminate]. intros H. apply entry_eqb_eq in H. congruence. Qed.

Lemma matchesb_spec n e : matchesb n e = true <-> (n = key e \/ In n (names e)).
Proof.
  unfold matchesb. rewrite orb_true_iff, String.eqb_eq, existsb_exists. split.
  - intros [H|[x [H1 H2]]]; [left; congruence|]. apply String.eqb_eq in H2. right; congruence.
  - intros [H|H]; [left; congruence|]. right. exists n. split; auto. apply String.eqb_refl.
Qed.

Lemma count_one g n : count g n = 1 ->
  exists e, In e g /\ matchesb n e = true /\ forall e', In e' g -> matchesb n e' = true -> e' = e.
Proof.
  unfold count. intros H. destruct (filter (matchesb n) g) as [|e [|x l]] eqn:F; try discriminate.
  assert (I : In e (filter (matchesb n) g)) by (rewrite F; now left). apply filter_In in I. destruct I as [I M].
  exists e. split; auto. split; auto. intros e' I' M'.
  assert (J : In e' (filter (matchesb n) g)) by (apply filter_In; auto). rewrite F in J. destruct J as [J|[]]. auto.
Qed.

Lemma check_resolve_sound g : check_resolve g = true ->
  forall e n, In e g -> (n = key e \/ In n (names e)) ->
  lookup g n = Some e /\ contains g n = true /\
  (forall e', In e' g -> (n = key e' \/ In n (names e')) -> e' = e).
Proof.
  unfold check_resolve. rewrite forallb_forall. intros H e n I N. specialize (H e I). rewrite forallb_forall in H.
  assert (N' : In n (key e :: names e)) by (destruct N; [left; auto|right; auto]).
  specialize (H n N'). apply andb_prop in H. destruct H as [H1 H2]. apply opt_is_eq in H1.
  split; auto. split; [unfold contains; now rewrite H1|].
  apply Nat.eqb_eq in H2. destruct (count_one g n H2) as [e0 [I0 [M0 U]]].
  intros e' I' M'. rewrite (U e' I' (proj2 (matchesb_spec n e') M')).
  symmetry. apply U; auto. apply matchesb_spec; auto.
Qed.

Lemma check_members_sound g ms : check_members g ms = true ->
  (forall m e, In (m, e) ms -> key e = m /\ lookup g m = Some e) /\
  (forall e, In e g -> exists e', In (key e, e') ms).
Proof.
  unfold check_members. intros H. apply andb_prop in H. destruct H as [H1 H2].
  rewrite forallb_forall in H1, H2. split.
  - intros m e I. specialize (H1 _ I). simpl in H1. apply andb_prop in H1. destruct H1 as [A B].
    apply String.eqb_eq in A. apply opt_is_eq in B. auto.
  - intros e I. specialize (H2 _ I). apply existsb_exists in H2. destruct H2 as [[m e'] [J K]].
    simpl in K. apply String.eqb_eq in K. subst. now exists e'.
Qed.

Definition dec_le (x y : Z * Z) : Prop :=
  let emin := Z.min (snd x) (snd y) in (fst x * 10 ^ (snd x - emin) <= fst y * 10 ^ (snd y - emin))%Z.

Lemma assoc_in k l v : assoc k l = Some v -> In (k, v) l.
Proof.
  induction l as [|[a b] l IH]; simpl; [discriminate|]. destruct (String.eqb a k) eqn:E.
  - intros H; injection H as <-. apply String.eqb_eq in E. subst. now left.
  - intros H. right. auto.
Qed.

Lemma check_bounds_sound g : check_bounds g = true -> forall e, In e g ->
  (forall sys b, In (sys, b) (lower e ++ upper e) -> exists v, bound_value b = Some v) /\
  (forall sys lb ub, In (sys, lb) (lower e) -> assoc sys (upper e) = Some ub ->
     exists x y, bound_value lb = Some x /\ bound_value ub = Some y /\ dec_le x y).
Proof.
  unfold check_bounds. rewrite forallb_forall. intros H e I. specialize (H e I). unfold check_bounds_entry in H.
  apply andb_prop in H. destruct H as [H1 H2]. rewrite forallb_forall in H1, H2. split.
  - intros sys b J. specialize (H1 _ J). simpl in H1. destruct (bound_value b) as [v|]; [now exists v|discriminate].
  - intros sys lb ub J A. specialize (H2 _ J). simpl in H2. rewrite A in H2.
    destruct (bound_value lb) as [x|]; [|discriminate]. destruct (bound_value ub) as [y|]; [|discriminate].
    exists x, y. split; auto. split; auto. unfold dec_leb in H2. apply Z.leb_le in H2. exact H2.
Qed.

Lemma nodupb_sound l : nodupb l = true -> NoDup l.
Proof.
  induction l as [|a l IH]; simpl; [constructor|]. intros H. apply andb_prop in H. destruct H as [H1 H2].
  constructor; auto. intros I. apply negb_true_iff in H1.
  assert (existsb (String.eqb a) l = true) by (apply existsb_exists; exists a; split; auto; apply String.eqb_refl). congruence.
Qed.

Lemma check_keys_sound g ks : check_keys g ks = true ->
  NoDup ks /\ List.length ks = List.length g /\ (forall e, In e g -> In (key e) ks) /\ (forall e, In e g -> names e <> []).
Proof.
  unfold check_keys. intros H. repeat (apply andb_prop in H; destruct H as [H ?]).
  split; [now apply nodupb_sound|]. split; [now apply Nat.eqb_eq|]. rewrite forallb_forall in H0, H1. split.
  - intros e I. specialize (H1 e I). apply existsb_exists in H1. destruct H1 as [k [J K]]. apply String.eqb_eq in K. congruence.
  - intros e I. specialize (H0 e I). destruct (names e); [discriminate|discriminate].
Qed.

(* ---- evaluation on the table dumped from the code in this run *)
Lemma resolve_ok : check_resolve glossary = true.
Proof. vm_compute. reflexivity. Qed.
Lemma members_ok : check_members glossary members = true.
Proof. vm_compute. reflexivity. Qed.
Lemma bounds_ok : check_bounds glossary = true.
Proof. vm_compute. reflexivity. Qed.
Lemma keys_ok : check_keys glossary key_list = true.
Proof. vm_compute. reflexivity. Qed.

(* C34 -- glossary entries as data, model of Glossary::findGlossaryEntry / contains / getGlossaryEntry, and the
   boolean checks evaluated on the table dumped from the code (definitions only). *)
From Coq Require Import List String Bool Arith ZArith NArith Ascii.
From C34 Require Import C32Model.
Import ListNotations.
Local Open Scope string_scope.

Record entry : Type := mkEntry {
  key : string;
  names : list string;
  units : list (string * string);      (* unit system, unit *)
  typ : string;
  lower : list (string * string);      (* unit system, lower physical bound (text) *)
  upper : list (string * string) }.

(* p->getKey() == n  ||  find(names.begin(), names.end(), n) != names.end() *)
Definition matchesb (n : string) (e : entry) : bool :=
  String.eqb (key e) n || existsb (String.eqb n) (names e).

(* ordered scan of the entries (std::set ordered by key): first match, or end() *)
Fixpoint lookup (g : list entry) (n : string) : option entry :=
  match g with
  | [] => None
  | e :: r => if matchesb n e then Some e else lookup r n
  end.

Definition contains (g : list entry) (n : string) : bool := match lookup g n with Some _ => true | None => false end.

(* number of entries that a name designates *)
Definition count (g : list entry) (n : string) : nat := List.length (filter (matchesb n) g).

Fixpoint index_of (g : list entry) (n : string) (i : nat) : option nat :=
  match g with
  | [] => None
  | e :: r => if matchesb n e then Some i else index_of r n (S i)
  end.

(* ---- boolean equality of entries *)
Fixpoint list_eqb {A} (eqb : A -> A -> bool) (a b : list A) : bool :=
  match a, b with
  | [], [] => true
  | x :: a', y :: b' => eqb x y && list_eqb eqb a' b'
  | _, _ => false
  end.
Definition pair_eqb (a b : string * string) : bool := String.eqb (fst a) (fst b) && String.eqb (snd a) (snd b).
Definition entry_eqb (a b : entry) : bool :=
  String.eqb (key a) (key b) && list_eqb String.eqb (names a) (names b) && list_eqb pair_eqb (units a) (units b) &&
  String.eqb (typ a) (typ b) && list_eqb pair_eqb (lower a) (lower b) && list_eqb pair_eqb (upper a) (upper b).
Definition opt_is (o : option entry) (e : entry) : bool := match o with Some x => entry_eqb x e | None => false end.

(* ---- bounds: decimal literals  s * m * 10^e ; comparison after scaling to a common exponent *)
Definition bound_value (s : string) : option (Z * Z) :=
  match convert_double (list_ascii_of_string s) with
  | Some (Finite neg m 10%N e) => Some ((if neg then - Z.of_N m else Z.of_N m)%Z, e)
  | _ => None
  end.
Definition dec_leb (x y : Z * Z) : bool :=
  let emin := Z.min (snd x) (snd y) in
  (fst x * 10 ^ (snd x - emin) <=? fst y * 10 ^ (snd y - emin))%Z.

Fixpoint assoc (k : string) (l : list (string * string)) : option string :=
  match l with [] => None | (a, b) :: r => if String.eqb a k then Some b else assoc k r end.

(* ---- the checks evaluated on the dumped table *)
Definition check_resolve (g : list entry) : bool :=
  forallb (fun e => forallb (fun n => opt_is (lookup g n) e && Nat.eqb (count g n) 1) (key e :: names e)) g.

Definition check_members (g : list entry) (ms : list (string * entry)) : bool :=
  forallb (fun me => String.eqb (key (snd me)) (fst me) && opt_is (lookup g (fst me)) (snd me)) ms &&
  forallb (fun e => existsb (fun me => String.eqb (fst me) (key e)) ms) g.

Definition check_bounds_entry (e : entry) : bool :=
  forallb (fun b => match bound_value (snd b) with Some _ => true | None => false end) (lower e ++ upper e) &&
  forallb (fun b => match assoc (fst b) (upper e) with
                    | None => true
                    | Some u => match bound_value (snd b), bound_value u with
                                | Some x, Some y => dec_leb x y
                                | _, _ => false
                                end
                    end) (lower e).
Definition check_bounds (g : list entry) : bool := forallb check_bounds_entry g.

Fixpoint nodupb (l : list string) : bool :=
  match l with [] => true | a :: r => negb (existsb (String.eqb a) r) && nodupb r end.
Definition check_keys (g : list entry) (ks : list string) : bool :=
  nodupb ks && Nat.eqb (List.length ks) (List.length g) && forallb (fun e => existsb (String.eqb (key e)) ks) g &&
  forallb (fun e => match names e with [] => false | _ => true end) g.

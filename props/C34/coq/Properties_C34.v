(* C34 -- property theorems about the glossary dumped from the code in this run (C34_gen.v, regenerated every run).
   [lookup] is the model of Glossary::findGlossaryEntry behind contains / getGlossaryEntry. *)
From Coq Require Import List String ZArith.
From C34 Require Import C32Model C34Model C34_gen C34Proofs.
Import ListNotations.

(* every key and every alternative name resolves, to the entry it belongs to, and no other entry bears it *)
Theorem C34_names_resolve_uniquely : forall e n, In e glossary -> (n = key e \/ In n (names e)) ->
  lookup glossary n = Some e /\ contains glossary n = true /\
  (forall e', In e' glossary -> (n = key e' \/ In n (names e')) -> e' = e).
Proof. exact (check_resolve_sound glossary resolve_ok). Qed.
Print Assumptions C34_names_resolve_uniquely.

(* the entry resolved from a key reports that key *)
Theorem C34_key_reports_key : forall e, In e glossary -> option_map key (lookup glossary (key e)) = Some (key e).
Proof. intros e I. destruct (check_resolve_sound glossary resolve_ok e (key e) I (or_introl eq_refl)) as [H _]. now rewrite H. Qed.
Print Assumptions C34_key_reports_key.

(* each static member Glossary::X has key "X" and is the entry registered under that key; every entry is a member *)
Theorem C34_static_members :
  (forall m e, In (m, e) members -> key e = m /\ lookup glossary m = Some e) /\
  (forall e, In e glossary -> exists e', In (key e, e') members).
Proof. exact (check_members_sound glossary members members_ok). Qed.
Print Assumptions C34_static_members.

(* every physical bound is a decimal number and lower <= upper in each unit system *)
Theorem C34_bounds : forall e, In e glossary ->
  (forall sys b, In (sys, b) (lower e ++ upper e) -> exists v, bound_value b = Some v) /\
  (forall sys lb ub, In (sys, lb) (lower e) -> assoc sys (upper e) = Some ub ->
     exists x y, bound_value lb = Some x /\ bound_value ub = Some y /\ dec_le x y).
Proof. exact (check_bounds_sound glossary bounds_ok). Qed.
Print Assumptions C34_bounds.

(* getKeys() lists every entry's key, each once; every entry has at least one name *)
Theorem C34_keys : NoDup key_list /\ List.length key_list = List.length glossary /\
  (forall e, In e glossary -> In (key e) key_list) /\ (forall e, In e glossary -> names e <> []).
Proof. exact (check_keys_sound glossary key_list keys_ok). Qed.
Print Assumptions C34_keys.

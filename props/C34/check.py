"""C34 -- glossary lookups are consistent and unambiguous (src/Glossary/*.cxx).
Engine D: every entry is dumped through the public API of the glossary built from REPO's sources into Gallina data
(C34_gen.v, regenerated each run); theorems by vm_compute on that table + generic soundness lemmas.  Engine H part: the
Gallina model of findGlossaryEntry (ordered scan) is run by vm_compute on all keys, names and non-entries and compared with
contains/getGlossaryEntry of the real code.  Independent Python checks give the concrete failing name/entry."""
import os, re
from vlib import guarded_main, REPO, VERIF

SRC = ["src/Glossary/Glossary.cxx", "src/Glossary/GlossaryEntry.cxx", "src/Utilities/StringAlgorithms.cxx"]
NUM = re.compile(r"[+-]?(?:[0-9]+\.?[0-9]*|\.[0-9]+)(?:[eE][+-]?[0-9]+)?")


def unhx(h):
    return "" if h == "-" else bytes.fromhex(h).decode("latin-1")


def hx(s):
    return s.encode("latin-1").hex() if s else "-"


def coq_str(s):
    if all(32 <= ord(ch) <= 126 for ch in s):
        return '"' + s.replace('"', '""') + '"'
    return "(string_of_list_ascii (map ascii_of_nat [%s]))" % "; ".join(str(ord(ch)) for ch in s)


def coq_list(items):
    return "[" + "; ".join(items) + "]"


def parse_entry(tokens):
    """tokens after the tag: id KEY k CAST k NAMES ... UNITS a=b ... TYPE t LOWER ... UPPER ... END"""
    e = {"id": unhx(tokens[0])}
    i = 1
    cur = None
    lists = {"NAMES": [], "UNITS": [], "LOWER": [], "UPPER": []}
    while tokens[i] != "END":
        t = tokens[i]
        if t in ("KEY", "CAST", "TYPE"):
            e[t.lower()] = unhx(tokens[i + 1])
            i += 2
            cur = None
        elif t in lists:
            cur = t
            i += 1
        else:
            if cur == "NAMES":
                lists[cur].append(unhx(t))
            else:
                a, b = t.split("=")
                lists[cur].append((unhx(a), unhx(b)))
            i += 1
    e.update({k.lower(): v for k, v in lists.items()})
    return e


def coq_entry(e):
    pairs = lambda l: coq_list("(%s, %s)" % (coq_str(a), coq_str(b)) for a, b in l)
    return "mkEntry %s %s %s %s %s %s" % (coq_str(e["key"]), coq_list(coq_str(n) for n in e["names"]), pairs(e["units"]),
                                          coq_str(e["type"]), pairs(e["lower"]), pairs(e["upper"]))


def content(e):
    return (e["key"], tuple(e["names"]), tuple(e["units"]), e["type"], tuple(e["lower"]), tuple(e["upper"]))


def main(c):
    hdr = open(os.path.join(REPO, "include/TFEL/Glossary/Glossary.hxx")).read()
    idents = re.findall(r"static\s+const\s+GlossaryEntry\s+(\w+)\s*;", hdr)
    with open(os.path.join(c.work, "c34_members.inc"), "w") as f:
        f.write("".join('  {"%s", &Glossary::%s},\n' % (m, m) for m in idents))
    exe = c.cxx("driver", ["driver.cxx"], SRC, flags=["-I" + c.work])
    rc, out, err = c.run([exe, "dump"])
    if rc != 0 and "GlossaryEntry::check" in err:
        m = re.search(r"GlossaryEntry::check: [^\n]*", err)
        c.report("check:" + m.group(0)[:200], "the glossary holds an invalid entry, its construction throws: " + m.group(0), {"stderr": err[-3000:]}, True)
        return
    if rc != 0:
        c.report("dump", "the glossary could not be constructed/dumped (static initialisation or GlossaryEntry::check throws): " + err[-600:],
                 {"stderr": err[-3000:]}, False)
        return
    keys, entries, members = [], [], []
    for line in out.splitlines():
        t = line.split()
        if t[0] == "KEYS":
            keys = [unhx(x) for x in t[1:]]
        elif t[0] == "ENTRY":
            entries.append(parse_entry(t[1:]))
        elif t[0] == "MEMBER":
            members.append(parse_entry(t[1:]))
    c.trusted("props/C34/driver.cxx (public API calls: getKeys, getGlossaryEntry, getKey/getNames/getUnits/getType, has/get{Lower,Upper}PhysicalBound "
              "for the unit systems found in getUnits + 'SI'; static members listed from the declarations of Glossary.hxx) and the Python printer of C34_gen.v",
              "bounds registered for a unit system that appears in no getUnits() map and is not 'SI' would not be seen (no API enumerates them)")
    glossary = sorted(entries, key=lambda e: e["key"].encode("latin-1"))  # iteration order of std::set<GlossaryEntry>
    # ------------------------------------------------ independent statement of the property on the dump (concrete failures)
    owners = {}
    for e in glossary + members:  # registered entries and the static members they are copies of
        for n in [e["key"]] + e["names"]:
            owners.setdefault(n, [])
            if e["key"] not in owners[n]:
                owners[n].append(e["key"])
    nfail = 0
    for n, ow in sorted(owners.items()):
        c.count(1, ("name", n), True)
        if len(ow) != 1:
            nfail += 1
            c.report("ambiguous:" + n, "the glossary name '%s' designates %d entries: %s" % (n, len(ow), ow), {"name": n, "entries": ow}, True)
    if len(set(keys)) != len(keys) or sorted(keys) != sorted(e["key"] for e in entries):
        nfail += 1
        c.report("keys", "getKeys() has duplicates or differs from the keys of the entries resolved from it", {"keys": keys}, True)
    for e in entries:
        if e["id"] != e["key"] or e["cast"] != e["key"]:
            nfail += 1
            c.report("key:" + e["id"], "getGlossaryEntry('%s') reports key '%s' (cast operator '%s')" % (e["id"], e["key"], e["cast"]), e, True)
    bykey = {e["key"]: e for e in entries}
    for m in members:
        c.count(1, ("member", m["id"]), True)
        if m["key"] != m["id"] or m["key"] not in bykey or content(bykey[m["key"]]) != content(m):
            nfail += 1
            c.report("member:" + m["id"], "static member Glossary::%s has key '%s' and is not the registered entry of that name" % (m["id"], m["key"]),
                     {"member": m, "registered": bykey.get(m["id"])}, True)
    for e in entries:
        if e["key"] not in [m["id"] for m in members]:
            nfail += 1
            c.report("nomember:" + e["key"], "entry '%s' is not a static member of Glossary" % e["key"], e, True)
        up = dict(e["upper"])
        for sysn, b in e["lower"] + e["upper"]:
            c.count(1, ("bound", e["key"], sysn, b), True)
            if not NUM.fullmatch(b):
                nfail += 1
                c.report("bound:%s:%s" % (e["key"], sysn), "bound '%s' of entry '%s' (%s) is not a number" % (b, e["key"], sysn), e, True)
        for sysn, b in e["lower"]:
            if sysn in up and NUM.fullmatch(b) and NUM.fullmatch(up[sysn]) and float(b) > float(up[sysn]):
                nfail += 1
                c.report("bounds:%s:%s" % (e["key"], sysn), "entry '%s' (%s): lower bound %s > upper bound %s" % (e["key"], sysn, b, up[sysn]), e, True)
    # ------------------------------------------------ lookups: real code vs Gallina model vs spec
    rng = c.rng
    queries = sorted(owners)
    extra = set()
    for n in list(owners):
        extra |= {n.lower(), n.upper(), n[:-1], n[1:], n + "x", n + " ", " " + n, n.swapcase(), n.replace("e", "E", 1), n + n}
        if rng.random() < 0.5 and len(n) > 2:
            i = rng.randrange(len(n))
            extra.add(n[:i] + rng.choice("abcXYZ_ (%") + n[i + 1:])
    extra |= {"", " ", "x", "Temperature ", "temperature", "@^separator^@", "\x00", "T\x00"}
    for _ in range(c.pick(200, 2000)):
        extra.add("".join(rng.choice("abcdefghijklmnopqrstuvwxyzABCDEFGHIJKLMNOPQRSTUVWXYZ_ ()%./0123456789") for _ in range(rng.randint(1, 24))))
    queries += sorted(q for q in extra if "\n" not in q)
    qf = os.path.join(c.work, "queries.txt")
    open(qf, "w").write("\n".join(hx(q) for q in queries) + "\n")
    rc, out, err = c.run([exe, "query", qf])
    real = out.splitlines()
    if rc != 0 or len(real) != len(queries):
        c.report("query", "lookup driver failed: " + err[-500:], {"stderr": err[-3000:]}, False)
        return
    index = {e["key"]: i for i, e in enumerate(glossary)}
    gen = os.path.join(c.work, "coq", "C34_gen.v")
    os.makedirs(os.path.dirname(gen), exist_ok=True)
    with open(gen, "w") as f:
        f.write("(* generated by props/C34/check.py from the dump of the glossary built from the working tree -- do not edit *)\n"
                "From Coq Require Import List String Ascii.\nFrom C34 Require Import C32Model C34Model.\nImport ListNotations.\nLocal Open Scope string_scope.\n\n")
        f.write("Definition glossary : list entry :=\n  [ " + ";\n    ".join(coq_entry(e) for e in glossary) + " ].\n\n")
        f.write("Definition key_list : list string :=\n  " + coq_list(coq_str(k) for k in keys) + ".\n\n")
        f.write("Definition members : list (string * entry) :=\n  [ " + ";\n    ".join("(%s, %s)" % (coq_str(m["id"]), coq_entry(m)) for m in members) + " ].\n")
    c32model = os.path.join(VERIF, "props", "C32", "coq", "C32Model.v")
    cases = ("From Coq Require Import List String Ascii.\nFrom C34 Require Import C32Model C34Model C34_gen.\nImport ListNotations.\nLocal Open Scope string_scope.\n"
             "Definition queries : list string := %s.\nEval vm_compute in (map (fun q => index_of glossary q 0) queries).\n" % coq_list(coq_str(q) for q in queries))
    rc, mout, merr = c.coq_eval([c32model, "C34Model.v", gen], cases)
    if rc != 0:
        raise RuntimeError("model evaluation failed: " + merr[-800:])
    model = re.findall(r"Some (\d+)|(None)", mout)
    if len(model) != len(queries):
        raise RuntimeError("model evaluation: %d results for %d queries" % (len(model), len(queries)))
    for q, r, m in zip(queries, real, model):
        cont, k = r.split()
        exp_key = owners[q][0] if q in owners and len(owners[q]) == 1 else None
        midx = int(m[0]) if m[0] else None
        ridx = None if k == "THROW" else index.get(unhx(k), -1)
        c.count(1, ("q", q), q in owners)
        spec_ok = (cont == "1" and exp_key is not None and unhx(k) == exp_key) if q in owners else (cont == "0" and k == "THROW")
        if q in owners and len(owners[q]) != 1:
            continue  # ambiguous name: already reported
        if not spec_ok:
            nfail += 1
            c.report("lookup:" + q, "contains('%s')=%s, getGlossaryEntry -> %s; expected %s" % (
                q, cont, "throws" if k == "THROW" else "'" + unhx(k) + "'", "entry '%s'" % exp_key if exp_key else "no entry (false / throws)"),
                {"query": q, "contains": cont, "resolved": k}, True)
        elif nfail == 0 and (midx != ridx or (cont == "1") != (midx is not None)):
            c.report("model:" + q, "the Gallina model of findGlossaryEntry disagrees with the code on '%s': model %s, code %s" % (q, midx, ridx),
                     {"query": q}, False)
    c.sample({"entries": len(entries), "names": len(owners), "static_members": len(members), "queries": len(queries),
              "bounds": sum(len(e["lower"]) + len(e["upper"]) for e in entries)})
    c.sample({"entry": glossary[7]["key"], "names": glossary[7]["names"], "lower": glossary[7]["lower"], "upper": glossary[7]["upper"]})
    c.coverage["exhaustive"] = True
    c.coverage["traces_validated_against_impl"] = len(queries)
    c.coverage["rule"] = ("exhaustive: all %d entries (%d keys+names, %d static members, all bounds) dumped through the public API; lookups on every key/name "
                          "+ %d non-entries (case/affix/one-character mutations of every name, random strings); non-trivial = a key/name/bound/member of the table"
                          % (len(entries), len(owners), len(members), len(queries) - len(owners)))
    res = c.coq([c32model, "C34Model.v", gen, "C34Proofs.v", "Properties_C34.v"], timeout=600)
    if not res.ok:
        if nfail:
            c.notes.append("proof obligations failed: %s; concrete failing names/entries reported above" % [f[2] or f[0] for f in res.failed])
        else:
            c.coq_failures(res)


guarded_main("C34", main)

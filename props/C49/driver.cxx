// C49 driver: the REAL acceleration algorithms (mtest/src/*AccelerationAlgorithm.cxx, include/TFEL/Math/AccelerationAlgorithms/*)
// and the REAL GenericSolver (mtest/src/GenericSolver.cxx), all compiled from the working tree.
//   SEQ <algo> <np> (pname pvalue)* <dim> <niter> <eeps> <seps> then niter x (u1[dim] du[dim] r[dim])
//        -> O <niter*dim values, %a>        (initialize(dim); preExecuteTasks(); execute(...,iter) for iter=1..niter)
//   SEQI <algo> <np> (pname pvalue)* <dim> <n> <eeps> <seps> then n x (iter u1[dim] du[dim] r[dim])
//        -> O <n*dim values>   as SEQ, but every entry carries its iteration number: several resolutions in a row
//           (iter = 1 starts a new one: postExecuteTasks(); preExecuteTasks(), as GenericSolver::iterate does)
//   VERD <ppolicy> <iterMax> <mSubSteps> <ti> <te> <n> <v1 .. vn>
//        -> V <done|raise> then, per call of iterate, `t dt iterations accepted`: the REAL GenericSolver::execute around a study whose
//           checkConvergence answers the scripted verdicts (control flow of iterate/execute: iterMax, sub-stepping)
//   LOOP <algo> <np> (pname pvalue)* <dim> <niter> <eeps> <seps> <kk> <xs[dim]> <M[dim*dim]> <x0[dim]>
//        -> L <(niter+1)*dim values>   closed loop x_{n+1} = accelerate(G(x_n)), G(x) = xs + M (x - xs), du = x - G(x), r = kk*du
//   SOLVE <algo|none> <np> (pname pvalue)* <N> <A: N*N> <b: N> <g> <s> <ppolicy> <ktype> <rounding> <eeps> <seps> <iterMax>
//         <mSubSteps> <nsteps> <t0 .. tnsteps>
//        -> R <done|raise> <iterations> <subSteps> U <nsteps*N values of u0 after each step, %a>
//      scripted Study: residual r(u,t) = A u + g u^3 - b t  (A symmetric, strictly diagonally dominant, g >= 0), stiffness by type:
//      ELASTIC: (1+s) A; SECANT: A + diag(g u^2); TANGENT: (1+s)(A + diag(3 g u^2)); CONSISTENT: A + diag(3 g u^2);
//      ELASTICSTIFNESSFROMMATERIALPROPERTIES: (1+s) diag(A).  Convergence like MTest::checkConvergence: max|du|<=eeps and max|r|<=seps, finite.
#include <cstdio>
#include <cstdlib>
#include <cmath>
#include <string>
#include <vector>
#include <sstream>
#include <iostream>
#include <memory>
#include "MFront/MFrontLogStream.hxx"
#include "MTest/Study.hxx"
#include "MTest/StudyCurrentState.hxx"
#include "MTest/StructureCurrentState.hxx"
#include "MTest/CurrentState.hxx"
#include "MTest/SolverWorkSpace.hxx"
#include "MTest/SolverOptions.hxx"
#include "MTest/GenericSolver.hxx"
#include "MTest/RoundingMode.hxx"
#include "MTest/AccelerationAlgorithm.hxx"
#include "MTest/AccelerationAlgorithmFactory.hxx"

using mtest::real;

static double rd(std::istream& is) {
  std::string s;
  is >> s;
  return std::strtod(s.c_str(), nullptr);
}

struct AffineStudy final : mtest::Study {
  std::size_t N = 0;
  std::vector<real> A, b;
  real g = 0, s = 0;
  real eeps = 0, seps = 0;
  size_type getNumberOfUnknowns() const override { return this->N; }
  void initializeCurrentState(mtest::StudyCurrentState& scs) const override { scs.initialize(this->N); }
  void initializeWorkSpace(mtest::SolverWorkSpace& wk) const override {  // as MTest::initializeWorkSpace
    wk.K.resize(this->N, this->N);
    wk.p_lu.resize(this->N);
    wk.x.resize(this->N);
    wk.r.resize(this->N, 0.);
    wk.du.resize(this->N, 0.);
  }
  std::pair<bool, real> prepare(mtest::StudyCurrentState&, const real, const real) const override { return {true, 1}; }
  void makeLinearPrediction(mtest::StudyCurrentState& scs, const real dt) const override {
    if (scs.period > 1 && scs.dt_1 > 0) {
      for (std::size_t i = 0; i != this->N; ++i) scs.u1[i] = scs.u0[i] + (scs.u0[i] - scs.u_1[i]) * dt / scs.dt_1;
    }
  }
  bool doPackagingStep(mtest::StudyCurrentState&) const override { return true; }
  void build(const mtest::StudyCurrentState& scs, tfel::math::matrix<real>& K, tfel::math::vector<real>& r, const real te,
             const mtest::StiffnessMatrixType kt) const {
    using mtest::StiffnessMatrixType;
    const auto& u = scs.u1;
    for (std::size_t i = 0; i != this->N; ++i) {
      real v = this->g * u[i] * u[i] * u[i] - this->b[i] * te;
      for (std::size_t j = 0; j != this->N; ++j) v += this->A[i * this->N + j] * u[j];
      r[i] = v;
    }
    for (std::size_t i = 0; i != this->N; ++i) {
      for (std::size_t j = 0; j != this->N; ++j) {
        const real a = this->A[i * this->N + j];
        const real d = (i == j) ? this->g * u[i] * u[i] : 0;
        real k = 0;
        if (kt == StiffnessMatrixType::ELASTIC) {
          k = (1 + this->s) * a;
        } else if (kt == StiffnessMatrixType::SECANTOPERATOR) {
          k = a + d;
        } else if (kt == StiffnessMatrixType::TANGENTOPERATOR) {
          k = (1 + this->s) * (a + 3 * d);
        } else if (kt == StiffnessMatrixType::ELASTICSTIFNESSFROMMATERIALPROPERTIES) {
          k = (i == j) ? (1 + this->s) * a : 0;
        } else {
          k = a + 3 * d;
        }
        K(i, j) = k;
      }
    }
  }
  std::pair<bool, real> computePredictionStiffnessAndResidual(mtest::StudyCurrentState& scs, tfel::math::matrix<real>& K,
                                                               tfel::math::vector<real>& r, const real& t, const real& dt,
                                                               const mtest::StiffnessMatrixType kt) const override {
    this->build(scs, K, r, t + dt, kt);
    return {true, 1};
  }
  std::pair<bool, real> computeStiffnessMatrixAndResidual(mtest::StudyCurrentState& scs, tfel::math::matrix<real>& K,
                                                           tfel::math::vector<real>& r, const real t, const real dt,
                                                           const mtest::StiffnessMatrixType kt) const override {
    this->build(scs, K, r, t + dt, kt);
    return {true, 1};
  }
  real getErrorNorm(const tfel::math::vector<real>& v) const override {
    real n = 0;
    for (std::size_t i = 0; i != this->N; ++i) n = std::max(n, std::abs(v[i]));
    return n;
  }
  // what the solver did with the verdicts: a step accepted (postConvergence) although the last verdict was `not converged`
  mutable bool last_verdict = false;
  mutable unsigned int checks = 0, accepted = 0, accepted_not_converged = 0;
  bool checkConvergence(mtest::StudyCurrentState&, const tfel::math::vector<real>& du, const tfel::math::vector<real>& r,
                        const mtest::SolverOptions& o, const unsigned int iter, const real, const real) const override {
    const real ne = this->getErrorNorm(du), nr = this->getErrorNorm(r);
    ++(this->checks);
    this->last_verdict = false;
    if (!std::isfinite(ne) || !std::isfinite(nr)) return false;
    this->last_verdict = !((ne > o.eeps) || (nr > o.seps));
    // GenericSolver never accepts the first iteration without prediction
    if ((o.ppolicy == mtest::PredictionPolicy::NOPREDICTION) && (iter <= 1)) this->last_verdict_counts = false;
    else this->last_verdict_counts = this->last_verdict;
    return this->last_verdict;
  }
  mutable bool last_verdict_counts = false;
  std::vector<std::string> getFailedCriteriaDiagnostic(const mtest::StudyCurrentState&, const tfel::math::vector<real>&,
                                                       const tfel::math::vector<real>&, const mtest::SolverOptions&,
                                                       const real, const real) const override {
    return {};
  }
  void computeLoadingCorrection(mtest::StudyCurrentState&, mtest::SolverWorkSpace&, const mtest::SolverOptions&, const real,
                                const real) const override {}
  bool postConvergence(mtest::StudyCurrentState&, const real, const real, const unsigned int) const override {
    ++(this->accepted);
    if (!this->last_verdict_counts) ++(this->accepted_not_converged);
    return true;
  }
  void setModellingHypothesis(const std::string&) override {}
  void printOutput(const real, const mtest::StudyCurrentState&, const bool) const override {}
  void setDefaultModellingHypothesis() override {}

 protected:
  void setGaussPointPositionForEvolutionsEvaluation(const mtest::CurrentState&) const override {}
};

// a study reduced to the verdicts of its convergence test (one unknown, K = 1, r = 0)
struct VerdictStudy final : mtest::Study {
  std::vector<int> verdicts;
  mutable std::size_t next = 0;
  struct Event {
    real t, dt;
    unsigned int n;
    bool accepted;
  };
  mutable std::vector<Event> events;
  size_type getNumberOfUnknowns() const override { return 1; }
  void initializeCurrentState(mtest::StudyCurrentState& scs) const override { scs.initialize(1); }
  void initializeWorkSpace(mtest::SolverWorkSpace& wk) const override {
    wk.K.resize(1, 1);
    wk.p_lu.resize(1);
    wk.x.resize(1);
    wk.r.resize(1, 0.);
    wk.du.resize(1, 0.);
  }
  std::pair<bool, real> prepare(mtest::StudyCurrentState&, const real t, const real dt) const override {
    this->events.push_back({t, dt, 0u, false});
    return {true, 1};
  }
  void makeLinearPrediction(mtest::StudyCurrentState&, const real) const override {}
  bool doPackagingStep(mtest::StudyCurrentState&) const override { return true; }
  std::pair<bool, real> computePredictionStiffnessAndResidual(mtest::StudyCurrentState&, tfel::math::matrix<real>& K,
                                                               tfel::math::vector<real>& r, const real&, const real&,
                                                               const mtest::StiffnessMatrixType) const override {
    K(0, 0) = 1;
    r[0] = 0;
    return {true, 1};
  }
  std::pair<bool, real> computeStiffnessMatrixAndResidual(mtest::StudyCurrentState&, tfel::math::matrix<real>& K,
                                                           tfel::math::vector<real>& r, const real, const real,
                                                           const mtest::StiffnessMatrixType) const override {
    K(0, 0) = 1;
    r[0] = 0;
    return {true, 1};
  }
  real getErrorNorm(const tfel::math::vector<real>& v) const override { return std::abs(v[0]); }
  bool checkConvergence(mtest::StudyCurrentState&, const tfel::math::vector<real>&, const tfel::math::vector<real>&,
                        const mtest::SolverOptions&, const unsigned int, const real, const real) const override {
    if (!this->events.empty()) ++(this->events.back().n);
    if (this->next >= this->verdicts.size()) throw std::runtime_error("script exhausted");
    return this->verdicts[this->next++] != 0;
  }
  std::vector<std::string> getFailedCriteriaDiagnostic(const mtest::StudyCurrentState&, const tfel::math::vector<real>&,
                                                       const tfel::math::vector<real>&, const mtest::SolverOptions&,
                                                       const real, const real) const override {
    return {};
  }
  void computeLoadingCorrection(mtest::StudyCurrentState&, mtest::SolverWorkSpace&, const mtest::SolverOptions&, const real,
                                const real) const override {}
  bool postConvergence(mtest::StudyCurrentState&, const real, const real, const unsigned int) const override {
    if (!this->events.empty()) this->events.back().accepted = true;
    return true;
  }
  void setModellingHypothesis(const std::string&) override {}
  void printOutput(const real, const mtest::StudyCurrentState&, const bool) const override {}
  void setDefaultModellingHypothesis() override {}

 protected:
  void setGaussPointPositionForEvolutionsEvaluation(const mtest::CurrentState&) const override {}
};

static std::shared_ptr<mtest::AccelerationAlgorithm> make_algorithm(std::istream& is) {
  std::string name;
  std::size_t np;
  is >> name >> np;
  std::vector<std::pair<std::string, std::string>> params(np);
  for (auto& p : params) is >> p.first >> p.second;
  if (name == "none") return {};
  auto a = mtest::AccelerationAlgorithmFactory::getAccelerationAlgorithmFactory().getAlgorithm(name);
  for (const auto& p : params) a->setParameter(p.first, p.second);
  return a;
}

int main() {
  mfront::setVerboseMode(mfront::VERBOSE_QUIET);
  std::string line;
  while (std::getline(std::cin, line)) {
    std::istringstream is(line);
    std::string cmd;
    is >> cmd;
    if (cmd.empty()) continue;
    try {
      if (cmd == "SEQ") {
        auto a = make_algorithm(is);
        std::size_t dim, niter;
        is >> dim >> niter;
        const real eeps = rd(is), seps = rd(is);
        a->initialize(static_cast<unsigned short>(dim));
        a->preExecuteTasks();
        tfel::math::vector<real> u1(dim), du(dim), r(dim);
        std::printf("O");
        for (std::size_t it = 1; it <= niter; ++it) {
          for (auto& x : u1) x = rd(is);
          for (auto& x : du) x = rd(is);
          for (auto& x : r) x = rd(is);
          a->execute(u1, du, r, eeps, seps, static_cast<unsigned short>(it));
          for (const auto& x : u1) std::printf(" %a", x);
        }
        a->postExecuteTasks();
        std::printf("\n");
      } else if (cmd == "SEQI") {
        auto a = make_algorithm(is);
        std::size_t dim, n;
        is >> dim >> n;
        const real eeps = rd(is), seps = rd(is);
        a->initialize(static_cast<unsigned short>(dim));
        a->preExecuteTasks();
        tfel::math::vector<real> u1(dim), du(dim), r(dim);
        std::printf("O");
        for (std::size_t k = 0; k != n; ++k) {
          unsigned int it;
          is >> it;
          if ((it == 1u) && (k != 0)) {
            a->postExecuteTasks();
            a->preExecuteTasks();
          }
          for (auto& x : u1) x = rd(is);
          for (auto& x : du) x = rd(is);
          for (auto& x : r) x = rd(is);
          a->execute(u1, du, r, eeps, seps, static_cast<unsigned short>(it));
          for (const auto& x : u1) std::printf(" %a", x);
        }
        a->postExecuteTasks();
        std::printf("\n");
      } else if (cmd == "VERD") {
        mtest::SolverOptions o;
        VerdictStudy s;
        int pp;
        is >> pp >> o.iterMax >> o.mSubSteps;
        o.ppolicy = static_cast<mtest::PredictionPolicy>(pp);
        o.ktype = mtest::StiffnessMatrixType::ELASTIC;
        o.eeps = 1;
        o.seps = 1;
        const real ti = rd(is), te = rd(is);
        std::size_t n;
        is >> n;
        s.verdicts.resize(n);
        for (auto& v : s.verdicts) is >> v;
        mtest::StudyCurrentState scs;
        mtest::SolverWorkSpace wk;
        s.initializeCurrentState(scs);
        s.initializeWorkSpace(wk);
        std::string status = "done";
        try {
          mtest::GenericSolver().execute(scs, wk, s, o, ti, te);
        } catch (std::exception& e) {
          status = std::string(e.what()).find("script exhausted") != std::string::npos ? "exhausted" : "raise";
        }
        std::printf("V %s", status.c_str());
        for (const auto& e : s.events) std::printf(" %a %a %u %d", e.t, e.dt, e.n, e.accepted ? 1 : 0);
        std::printf("\n");
      } else if (cmd == "LOOP") {
        auto a = make_algorithm(is);
        std::size_t dim, niter;
        is >> dim >> niter;
        const real eeps = rd(is), seps = rd(is), kk = rd(is);
        std::vector<real> xs(dim), M(dim * dim);
        tfel::math::vector<real> x(dim), u1(dim), du(dim), r(dim);
        for (auto& v : xs) v = rd(is);
        for (auto& v : M) v = rd(is);
        for (auto& v : x) v = rd(is);
        a->initialize(static_cast<unsigned short>(dim));
        a->preExecuteTasks();
        std::printf("L");
        for (const auto& v : x) std::printf(" %a", v);
        for (std::size_t it = 1; it <= niter; ++it) {
          for (std::size_t i = 0; i != dim; ++i) {
            real g = xs[i];
            for (std::size_t j = 0; j != dim; ++j) g += M[i * dim + j] * (x[j] - xs[j]);
            u1[i] = g;
            du[i] = x[i] - g;
            r[i] = kk * du[i];
          }
          a->execute(u1, du, r, eeps, seps, static_cast<unsigned short>(it));
          x = u1;
          for (const auto& v : x) std::printf(" %a", v);
        }
        a->postExecuteTasks();
        std::printf("\n");
      } else if (cmd == "SOLVE") {
        mtest::SolverOptions o;
        o.aa = make_algorithm(is);
        AffineStudy s;
        is >> s.N;
        s.A.resize(s.N * s.N);
        s.b.resize(s.N);
        for (auto& x : s.A) x = rd(is);
        for (auto& x : s.b) x = rd(is);
        s.g = rd(is);
        s.s = rd(is);
        int pp, kt;
        std::string rm;
        is >> pp >> kt >> rm;
        o.ppolicy = static_cast<mtest::PredictionPolicy>(pp);
        o.ktype = static_cast<mtest::StiffnessMatrixType>(kt);
        o.eeps = rd(is);
        o.seps = rd(is);
        is >> o.iterMax >> o.mSubSteps;
        std::size_t ns;
        is >> ns;
        std::vector<real> times(ns + 1);
        for (auto& t : times) t = rd(is);
        mtest::setRoundingMode(rm);
        if (o.aa != nullptr) o.aa->initialize(static_cast<unsigned short>(s.N));
        mtest::StudyCurrentState scs;
        mtest::SolverWorkSpace wk;
        s.initializeCurrentState(scs);
        s.initializeWorkSpace(wk);
        std::string status = "done";
        std::vector<real> res;
        try {
          for (std::size_t i = 0; i != ns; ++i) {
            mtest::GenericSolver().execute(scs, wk, s, o, times[i], times[i + 1]);
            for (std::size_t k = 0; k != s.N; ++k) res.push_back(scs.u0[k]);
          }
        } catch (std::exception& e) {
          status = "raise";
        }
        mtest::setRoundingMode("ToNearest");
        std::printf("R %s %u %u %u %u U", status.c_str(), scs.iterations, scs.subSteps, s.accepted, s.accepted_not_converged);
        for (const auto& x : res) std::printf(" %a", x);
        std::printf("\n");
      } else {
        std::printf("E unknown\n");
      }
    } catch (std::exception& e) {
      std::string m = e.what();
      for (auto& ch : m)
        if (ch == '\n') ch = ' ';
      std::printf("X %s\n", m.c_str());
    }
    std::fflush(stdout);
  }
  return 0;
}

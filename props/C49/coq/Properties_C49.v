(* C49 -- property statements (each is exactly a lemma of C49Proofs.v). *)
From Coq Require Import List Reals Bool Arith ZArith.
From C49 Require Import C49Spec C49Model C49Proofs.
Import ListNotations.
Local Open Scope R_scope.

(* any two states accepted by the convergence predicate (test on du and r(x), state x - du kept) for the same strongly monotone residual differ, in every component, by at most 2 sqrt(n) seps / m + 2 eeps *)
Theorem C49_accepted_states_close :
  forall (n : nat) (m : R) (r : list R -> list R) (eeps seps : R) (u v : list R), 0 < m -> 0 <= seps -> strongly_monotone n m r -> accepted n r eeps seps u -> accepted n r eeps seps v -> all_le (tolerance_bound n m eeps seps) (ssub u v).
Proof. exact accepted_states_close. Qed.
Print Assumptions C49_accepted_states_close.

(* the two iterates whose residuals passed the test differ by at most 2 sqrt(n) seps / m *)
Theorem C49_iterates_close :
  forall (n : nat) (m : R) (r : list R -> list R) (seps : R) (x y : list R), 0 < m -> 0 <= seps -> strongly_monotone n m r -> length x = n -> length y = n -> all_le seps (r x) -> all_le seps (r y) -> all_le (2 * sqrt (INR n) * seps / m) (ssub x y).
Proof. exact iterates_close. Qed.
Print Assumptions C49_iterates_close.

(* secant: if the stored and the incoming G-values coincide (e.g. both are the fixed point) the accelerated iterate is that value *)
Theorem C49_secant_fixed :
  forall (trig : nat) (thr : R) (st : st2) (iter : nat) (x r : list R), p_u st = x -> snd (secant_step RF trig thr st iter x r) = x.
Proof. exact secant_fixed. Qed.
Print Assumptions C49_secant_fixed.

(* alternate secant: same *)
Theorem C49_altsecant_fixed :
  forall (trig : nat) (thr : R) (st : st2) (iter : nat) (x du : list R), p_u st = x -> snd (altsecant_step RF trig thr st iter x du) = x.
Proof. exact altsecant_fixed. Qed.
Print Assumptions C49_altsecant_fixed.

(* Irons-Tuck: if the current iterate is a fixed point of G (du = 0) the accelerated iterate is that point, whatever the history *)
Theorem C49_ironstuck_fixed :
  forall (trig : nat) (thr : R) (st : st2) (iter : nat) (x : list R), snd (ironstuck_step RF trig thr st iter x (zeros RF (length x))) = x.
Proof. exact ironstuck_fixed. Qed.
Print Assumptions C49_ironstuck_fixed.

(* crossed secant: same *)
Theorem C49_crossedsecant_fixed :
  forall (trig : nat) (thr : R) (st : st2) (iter : nat) (x : list R), snd (crossedsecant_step RF trig thr st iter x (zeros RF (length x))) = x.
Proof. exact crossedsecant_fixed. Qed.
Print Assumptions C49_crossedsecant_fixed.

(* Steffensen: if the last two G-values coincide the accelerated iterate is that value *)
Theorem C49_steffensen_fixed :
  forall (trig : nat) (eps : R) (st : st3) (iter : nat) (x : list R), 0 <= eps -> q_u2 st = x -> length (q_u1 st) = length x -> snd (steffensen_step RF trig eps st iter x) = x.
Proof. exact steffensen_fixed. Qed.
Print Assumptions C49_steffensen_fixed.

(* Cast3M: if the last three G-values coincide the accelerated iterate is that value, in each of its three branches *)
Theorem C49_castem_fixed :
  forall (trig per : nat) (eps2 : R) (st : st3) (iter : nat) (x r : list R), q_u1 st = x -> q_u2 st = x -> snd (castem_step RF trig per eps2 st iter x r) = x.
Proof. exact castem_fixed. Qed.
Print Assumptions C49_castem_fixed.

(* UAnderson: if every stored G-value and the new one are x, then whenever the weights are defined the output is x (weights sum to 1) *)
Theorem C49_uanderson_fixed :
  forall (Nmax alMax : nat) (st : ast) (iter : nat) (x du : list R) (st' : ast) (out : vec), Forall (fun e : list R * vec => fst e = x) (a_hist st) -> uanderson_step RF Nmax alMax st iter x du = Some (st', out) -> out = x /\ Forall (fun e : list R * vec => fst e = x) (a_hist st').
Proof. exact uanderson_fixed. Qed.
Print Assumptions C49_uanderson_fixed.

(* FAnderson: same *)
Theorem C49_fanderson_fixed :
  forall (Nmax alMax : nat) (st : ast) (iter : nat) (x r : list R) (st' : ast) (out : vec), Forall (fun e : list R * vec => fst e = x) (a_hist st) -> fanderson_step RF Nmax alMax st iter x r = Some (st', out) -> out = x /\ Forall (fun e : list R * vec => fst e = x) (a_hist st').
Proof. exact fanderson_fixed. Qed.
Print Assumptions C49_fanderson_fixed.

(* ... but when every stored D field is zero the normalisation divides 0 by 0: the model answers None (the C++ returns NaN) *)
Theorem C49_anderson_all_zero_undefined :
  forall n k : nat, anderson_weights RF (repeat (zeros RF n) (S k)) = None.
Proof. exact anderson_all_zero_undefined. Qed.
Print Assumptions C49_anderson_all_zero_undefined.

(* secant is exact on scalar affine problems (r = k(x-xs), G = xs + c(x-xs)) from any two distinct iterates *)
Theorem C49_secant_exact_1d :
  forall (k c xs x0 x1 : R) (trig : nat) (thr : R) (iter : nat) (st : st2), 0 <= thr -> (trig <=? iter) = true -> p_u st = [G1 c xs x0] -> p_r st = [res1 k xs x0] -> thr < (res1 k xs x1 - res1 k xs x0) * (res1 k xs x1 - res1 k xs x0) -> snd (secant_step RF trig thr st iter [G1 c xs x1] [res1 k xs x1]) = [xs].
Proof. exact secant_exact_1d. Qed.
Print Assumptions C49_secant_exact_1d.

(* Irons-Tuck is exact on scalar affine maps from two consecutive base iterates *)
Theorem C49_ironstuck_exact_1d :
  forall (c xs x0 : R) (trig : nat) (thr : R) (iter : nat) (st : st2), 0 <= thr -> (trig <=? iter) && Nat.even (iter - trig) = true -> let x1 := G1 c xs x0 in p_r st = [- (x0 - G1 c xs x0)] -> thr < (- (x1 - G1 c xs x1) - - (x0 - G1 c xs x0)) * (- (x1 - G1 c xs x1) - - (x0 - G1 c xs x0)) -> snd (ironstuck_step RF trig thr st iter [G1 c xs x1] [x1 - G1 c xs x1]) = [xs].
Proof. exact ironstuck_exact_1d. Qed.
Print Assumptions C49_ironstuck_exact_1d.

(* Steffensen (Aitken) is exact on scalar affine maps from three consecutive base iterates *)
Theorem C49_steffensen_exact_1d :
  forall (c xs x0 : R) (trig : nat) (eps : R) (iter : nat) (st : st3), 0 <= eps -> (trig <=? iter) && Nat.even (iter - trig) = true -> let x1 := G1 c xs x0 in let x2 := G1 c xs x1 in let u0 := G1 c xs x0 in let u1 := G1 c xs x1 in let u2 := G1 c xs x2 in q_u1 st = [u0] -> q_u2 st = [u1] -> eps < Rabs (u2 - u1) -> eps < Rabs (u1 - u0) -> eps < Rabs (1 / (u2 - u1) - 1 / (u1 - u0)) -> snd (steffensen_step RF trig eps st iter [u2]) = [xs].
Proof. exact steffensen_exact_1d. Qed.
Print Assumptions C49_steffensen_exact_1d.

(* Cast3M (collinear branch) is exact on scalar affine problems *)
Theorem C49_castem_exact_1d :
  forall (k c xs x0 x1 x2 : R) (trig per : nat) (eps2 : R) (iter : nat) (st : st3), 0 <= eps2 -> (trig <=? iter) && ((iter - trig) mod per =? 0) = true -> q_u1 st = [G1 c xs x0] -> q_u2 st = [G1 c xs x1] -> q_r1 st = [res1 k xs x0] -> q_r2 st = [res1 k xs x1] -> eps2 < (res1 k xs x1 - res1 k xs x0) * (res1 k xs x1 - res1 k xs x0) -> snd (castem_step RF trig per eps2 st iter [G1 c xs x2] [res1 k xs x2]) = [xs].
Proof. exact castem_exact_1d. Qed.
Print Assumptions C49_castem_exact_1d.

(* alternate secant is exact on scalar affine maps from any two distinct iterates *)
Theorem C49_altsecant_exact_1d :
  forall (c xs x0 x1 : R) (trig : nat) (thr : R) (iter : nat) (st : st2), 0 <= thr -> (trig <=? iter)%nat = true -> p_u st = [G1 c xs x0] -> p_r st = [- (x0 - G1 c xs x0)] -> thr < (- (x1 - G1 c xs x1) - - (x0 - G1 c xs x0)) * (- (x1 - G1 c xs x1) - - (x0 - G1 c xs x0)) -> snd (altsecant_step RF trig thr st iter [G1 c xs x1] [x1 - G1 c xs x1]) = [xs].
Proof. exact altsecant_exact_1d. Qed.
Print Assumptions C49_altsecant_exact_1d.

(* crossed secant: same *)
Theorem C49_crossedsecant_exact_1d :
  forall (c xs x0 x1 : R) (trig : nat) (thr : R) (iter : nat) (st : st2), 0 <= thr -> (trig <=? iter)%nat = true -> p_u st = [G1 c xs x0] -> p_r st = [- (x0 - G1 c xs x0)] -> thr < (- (x1 - G1 c xs x1) - - (x0 - G1 c xs x0)) * (- (x1 - G1 c xs x1) - - (x0 - G1 c xs x0)) -> snd (crossedsecant_step RF trig thr st iter [G1 c xs x1] [x1 - G1 c xs x1]) = [xs].
Proof. exact crossedsecant_exact_1d. Qed.
Print Assumptions C49_crossedsecant_exact_1d.

(* Anderson weights for two stored fields: sum to 1 and make w0 D0 + w1 D1 orthogonal to D0 - D1 (least squares), any dimension *)
Theorem C49_anderson2_optimal :
  forall (D0 D1 : list R) (w0 w1 : R), anderson_weights RF [D0; D1] = Some [w0; w1] -> w0 + w1 = 1 /\ w0 * dot RF D0 D0 + w1 * dot RF D0 D1 = w0 * dot RF D0 D1 + w1 * dot RF D1 D1.
Proof. exact anderson2_optimal. Qed.
Print Assumptions C49_anderson2_optimal.

(* in dimension 1 two stored fields are linearly dependent: C^-1 1 does not exist (zero pivot), the model answers None: exactness of Anderson on scalar affine maps is NOT a property of the exact-arithmetic algorithm *)
Theorem C49_anderson_1d_degenerate :
  forall d0 d1 : R, anderson_weights RF [[d0]; [d1]] = None.
Proof. exact anderson_1d_degenerate. Qed.
Print Assumptions C49_anderson_1d_degenerate.


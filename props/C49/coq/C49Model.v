(* C49 -- hand-written executable models of the MTest acceleration algorithms (mtest/src/...AccelerationAlgorithm.cxx,
   include/TFEL/Math/AccelerationAlgorithms/...), written once over a record of field operations: instantiated with Q for the
   differential execution against the real classes, with R for the theorems.  Definitions only.

   Conventions of GenericSolver::iterate: at iteration `iter` the solver has computed the residual r = r(x_n), the correction
   du = K^-1 r, and u1 = x_n - du = G(x_n); it then calls execute(u1, du, r, eeps, seps, iter) which may overwrite u1 (= x_{n+1}).
   Every model below is a step function   state -> iter -> inputs -> state * output. *)
From Coq Require Import List ZArith QArith Qabs Reals Bool Arith.
Import ListNotations.

Record Fld (T : Type) := {
  fofZ : Z -> T;
  fadd : T -> T -> T; fsub : T -> T -> T; fmul : T -> T -> T; fdiv : T -> T -> T; fopp : T -> T; fabs : T -> T;
  fltb : T -> T -> bool;   (* strict < *)
  feqb : T -> T -> bool
}.
Arguments fofZ {T}. Arguments fadd {T}. Arguments fsub {T}. Arguments fmul {T}. Arguments fdiv {T}. Arguments fopp {T}.
Arguments fabs {T}. Arguments fltb {T}. Arguments feqb {T}.

Section Model.
  Context {T : Type} (F : Fld T).
  Local Notation f0 := (fofZ F 0%Z).
  Local Notation f1 := (fofZ F 1%Z).
  Declare Scope fld_scope.
  Local Infix "+" := (fadd F) : fld_scope.
  Local Infix "-" := (fsub F) : fld_scope.
  Local Infix "*" := (fmul F) : fld_scope.
  Local Infix "/" := (fdiv F) : fld_scope.
  Local Infix "<?" := (fltb F) : fld_scope.
  Local Open Scope fld_scope.

  Definition vec := list T.
  Fixpoint map2 (f : T -> T -> T) (a b : vec) : vec :=
    match a, b with x :: a', y :: b' => f x y :: map2 f a' b' | _, _ => [] end.
  Definition vadd := map2 (fadd F).
  Definition vsub := map2 (fsub F).
  Definition vscal (k : T) (a : vec) : vec := map (fun x => k * x) a.
  Definition vopp (a : vec) : vec := map (fopp F) a.
  Fixpoint dot (a b : vec) : T :=
    match a, b with x :: a', y :: b' => x * y + dot a' b' | _, _ => f0 end.
  Definition zeros (n : nat) : vec := repeat f0 n.
  Definition vsum (a : vec) : T := fold_right (fadd F) f0 a.

  (* ---------------------------------------------------------------- two-point methods: state = previous (u, rho) *)
  Record st2 := { p_u : vec; p_r : vec }.
  Definition st2_init (n : nat) : st2 := {| p_u := zeros n; p_r := zeros n |}.

  (* SecantAccelerationAlgorithm::execute; thr = sa_eps = 100*seps*epsilon; rho = r (Newton residual) *)
  Definition secant_step (trigger : nat) (thr : T) (st : st2) (iter : nat) (u1 r : vec) : st2 * vec :=
    let dr := vsub r (p_r st) in
    ({| p_u := u1; p_r := r |},
     if (trigger <=? iter)%nat then
       let n2 := dot dr dr in
       if thr <? n2 then vsub u1 (vscal (dot r dr / n2) (vsub u1 (p_u st))) else u1
     else u1).

  (* AlternateSecantAccelerationAlgorithm::execute; thr = asa_eps^2, asa_eps = 100*eeps*epsilon; rho = -du *)
  Definition altsecant_step (trigger : nat) (thr : T) (st : st2) (iter : nat) (u1 du : vec) : st2 * vec :=
    let r1 := vopp du in
    let dr := vsub r1 (p_r st) in
    ({| p_u := u1; p_r := r1 |},
     if (trigger <=? iter)%nat then
       let n2 := dot dr dr in
       if thr <? n2 then vsub u1 (vscal (dot dr r1 / n2) (vsub u1 (p_u st))) else u1
     else u1).

  (* CrossedSecantAccelerationAlgorithm::execute *)
  Definition crossedsecant_step (trigger : nat) (thr : T) (st : st2) (iter : nat) (u1 du : vec) : st2 * vec :=
    let r1 := vopp du in
    let dr := vsub r1 (p_r st) in
    ({| p_u := u1; p_r := r1 |},
     if (trigger <=? iter)%nat then
       let n2 := dot dr dr in
       if thr <? n2 then vsub u1 (vscal (dot (vsub u1 (p_u st)) dr / n2) r1) else u1
     else u1).

  (* IronsTuckAccelerationAlgorithm::execute; thr = it_eps^2; acceleration every second iteration from the trigger on *)
  Definition ironstuck_step (trigger : nat) (thr : T) (st : st2) (iter : nat) (u1 du : vec) : st2 * vec :=
    let r1 := vopp du in
    let dr := vsub r1 (p_r st) in
    ({| p_u := u1; p_r := r1 |},
     if (trigger <=? iter)%nat && Nat.even (iter - trigger)%nat then
       let n2 := dot dr dr in
       if thr <? n2 then vsub u1 (vscal (dot r1 dr / n2) r1) else u1
     else u1).

  (* ---------------------------------------------------------------- Steffensen (component-wise Aitken Delta^2) *)
  Record st3 := { q_u0 : vec; q_u1 : vec; q_u2 : vec; q_r0 : vec; q_r1 : vec; q_r2 : vec }.
  Definition st3_init (n : nat) : st3 :=
    {| q_u0 := zeros n; q_u1 := zeros n; q_u2 := zeros n; q_r0 := zeros n; q_r1 := zeros n; q_r2 := zeros n |}.

  (* one component; a0 a1 a2 = sta_u0 sta_u1 sta_u2 (a2 = the incoming u1) *)
  Definition steffensen_comp (eps a0 a1 a2 : T) : T :=
    let d2 := a2 - a1 in
    let d1 := a1 - a0 in
    if (eps <? fabs F d2) && (eps <? fabs F d1) then
      let i1 := f1 / d2 in
      let i2 := f1 / d1 in
      if eps <? fabs F (i1 - i2) then a1 + f1 / (i1 - i2) else a2
    else a2.
  Fixpoint map3 (f : T -> T -> T -> T) (a b c : vec) : vec :=
    match a, b, c with x :: a', y :: b', z :: c' => f x y z :: map3 f a' b' c' | _, _, _ => [] end.
  (* SteffensenAccelerationAlgorithm::execute; eps = it_eps = 100*eeps*epsilon *)
  Definition steffensen_step (trigger : nat) (eps : T) (st : st3) (iter : nat) (u1 : vec) : st3 * vec :=
    ({| q_u0 := q_u1 st; q_u1 := q_u2 st; q_u2 := u1; q_r0 := q_r0 st; q_r1 := q_r1 st; q_r2 := q_r2 st |},
     if (trigger <=? iter)%nat && Nat.even (iter - trigger)%nat then
       map3 (steffensen_comp eps) (q_u1 st) (q_u2 st) u1
     else u1).

  (* ---------------------------------------------------------------- Cast3M
     CastemAccelerationAlgorithm::execute written without square roots: with t0 = r1-r0, t1 = r2-r0, n0sq = |t0|^2,
     s = t1.t0, t1' = t1 - (s/n0sq) t0, n1sq = |t1'|^2 the code's  nr0 = sqrt n0sq, ntmp1 = s/nr0, nr1 = sqrt n1sq and
       nr0 > ca_eps              <->  ca_eps^2 < n0sq               (ca_eps >= 0)
       nr1 > 0.1*|ntmp1|         <->  s^2 < 100 * n1sq * n0sq
       ca_c2 = -(r0|n1)/nr1       =   -(r0.t1')/n1sq
       ca_c1 = (p0 - ntmp1 ca_c2)/nr0 = (-(r0.t0) - s*ca_c2)/n0sq
       ca_c0 = -(r0|n0)/nr0       =   -(r0.t0)/n0sq
     eps2 = ca_eps^2, ca_eps = 100*seps*epsilon. *)
  Definition castem_combine (eps2 : T) (u0 u1 u2 r0 r1 r2 unew : vec) : vec :=
    let t0 := vsub r1 r0 in
    let t1 := vsub r2 r0 in
    let n0sq := dot t0 t0 in
    if eps2 <? n0sq then
      let s := dot t1 t0 in
      let t1' := vsub t1 (vscal (s / n0sq) t0) in
      let n1sq := dot t1' t1' in
      if (s * s) <? (fofZ F 100 * n1sq * n0sq) then
        let c2 := fopp F (dot r0 t1') / n1sq in
        let c1 := (fopp F (dot r0 t0) - s * c2) / n0sq in
        vadd (vadd (vscal (f1 - c2 - c1) u0) (vscal c1 u1)) (vscal c2 u2)
      else
        let c0 := fopp F (dot r0 t0) / n0sq in
        vadd (vscal (f1 - c0) u0) (vscal c0 u1)
    else unew.
  Definition castem_step (trigger period : nat) (eps2 : T) (st : st3) (iter : nat) (u1 r : vec) : st3 * vec :=
    ({| q_u0 := q_u1 st; q_u1 := q_u2 st; q_u2 := u1; q_r0 := q_r1 st; q_r1 := q_r2 st; q_r2 := r |},
     if (trigger <=? iter)%nat && ((iter - trigger) mod period =? 0)%nat then
       castem_combine eps2 (q_u1 st) (q_u2 st) u1 (q_r1 st) (q_r2 st) r u1
     else u1).

  (* ---------------------------------------------------------------- the Delta2 / 2Delta variants
     state = previous G-value u, previous difference of G-values du, previous rho (= -rx), previous difference of rho.
     rx = x_n - G(x_n) is the second argument of execute; thr = (100*eeps*epsilon)^2; thr99 = the double 0.99. *)
  Record st5 := { d_u : vec; d_du : vec; d_r : vec; d_dr : vec }.
  Definition st5_init (n : nat) : st5 := {| d_u := zeros n; d_du := zeros n; d_r := zeros n; d_dr := zeros n |}.
  (* `(a*a)/(b*c) < 0.99` of the C++: a NaN (0/0) compares false *)
  Definition ratio_lt (num den thr99 : T) : bool := if feqb F den f0 then false else (num / den) <? thr99.

  (* AlternateDelta2AccelerationAlgorithm::execute *)
  Definition altdelta2_step (trigger : nat) (thr : T) (st : st5) (iter : nat) (u1 rx : vec) : st5 * vec :=
    let r1 := vopp rx in
    let du1 := vsub u1 (d_u st) in
    let d2u := vsub du1 (d_du st) in
    let dr1 := vsub r1 (d_r st) in
    let d2r := vsub dr1 (d_dr st) in
    ({| d_u := u1; d_du := du1; d_r := r1; d_dr := dr1 |},
     if (trigger <=? iter)%nat then
       if (iter =? 2)%nat then
         let n2 := dot dr1 dr1 in
         if thr <? n2 then vsub u1 (vscal (dot dr1 r1 / n2) du1) else u1
       else
         let n2 := dot d2r d2r in
         if thr <? n2 then vsub u1 (vscal (dot d2r r1 / n2) d2u) else u1
     else u1).

  (* Alternate2DeltaAccelerationAlgorithm::execute *)
  Definition alt2delta_step (trigger : nat) (thr thr99 : T) (st : st5) (iter : nat) (u1 rx : vec) : st5 * vec :=
    let r1 := vopp rx in
    let du1 := vsub u1 (d_u st) in
    let dr1 := vsub r1 (d_r st) in
    let du0 := d_du st in
    let dr0 := d_dr st in
    ({| d_u := u1; d_du := du1; d_r := r1; d_dr := dr1 |},
     if (trigger <=? iter)%nat then
       let n1 := dot dr1 dr1 in
       if (iter =? 2)%nat then
         if thr <? n1 then vsub u1 (vscal (dot dr1 r1 / n1) du1) else u1
       else
         let n0 := dot dr0 dr0 in
         let d10 := dot dr1 dr0 in
         let det := n1 * n0 - d10 * d10 in
         if ratio_lt (d10 * d10) (n1 * n0) thr99 then
           let b1 := dot dr1 r1 in
           let b2 := dot dr0 r1 in
           let l1 := (n0 * b1 - d10 * b2) / det in
           let l2 := (n1 * b2 - d10 * b1) / det in
           vsub u1 (vadd (vscal l1 du1) (vscal l2 du0))
         else if thr <? n1 then vsub u1 (vscal (dot dr1 r1 / n1) du1) else u1
     else u1).

  (* CrossedDelta2AccelerationAlgorithm::execute (d_du is not used by this algorithm: kept at its previous value) *)
  Definition crosseddelta2_step (trigger : nat) (thr : T) (st : st5) (iter : nat) (u1 rx : vec) : st5 * vec :=
    let r1 := vopp rx in
    let du := vsub u1 (d_u st) in
    let dr1 := vsub r1 (d_r st) in
    let d2r := vsub dr1 (d_dr st) in
    ({| d_u := u1; d_du := du; d_r := r1; d_dr := dr1 |},
     if (trigger <=? iter)%nat then
       if (iter =? 2)%nat then
         let n2 := dot dr1 dr1 in
         if thr <? n2 then vsub u1 (vscal (dot du dr1 / n2) r1) else u1
       else
         let n2 := dot d2r d2r in
         if thr <? n2 then vsub u1 (vscal (dot du d2r / n2) dr1) else u1
     else u1).

  (* Crossed2DeltaAccelerationAlgorithm::execute *)
  Definition crossed2delta_step (trigger : nat) (thr thr99 : T) (st : st5) (iter : nat) (u1 rx : vec) : st5 * vec :=
    let r1 := vopp rx in
    let r0 := d_r st in
    let du := vsub u1 (d_u st) in
    let dr1 := vsub r1 r0 in
    let dr0 := d_dr st in
    ({| d_u := u1; d_du := du; d_r := r1; d_dr := dr1 |},
     if (trigger <=? iter)%nat then
       let n1 := dot dr1 dr1 in
       if (iter =? 2)%nat then
         if thr <? n1 then vsub u1 (vscal (dot du dr1 / n1) r1) else u1
       else
         let n0 := dot dr0 dr0 in
         let d10 := dot dr1 dr0 in
         let det := n1 * n0 - d10 * d10 in
         if ratio_lt (d10 * d10) (n1 * n0) thr99 then
           let b1 := dot dr1 du in
           let b2 := dot dr0 du in
           let l1 := (n0 * b1 - d10 * b2) / det in
           let l2 := (n1 * b2 - d10 * b1) / det in
           vsub u1 (vadd (vscal l1 r1) (vscal l2 r0))
         else if thr <? n1 then vsub u1 (vscal (dot du dr1 / n1) r1) else u1
     else u1).

  (* Crossed2DeltabisAccelerationAlgorithm::execute.  State: previous G-value, X_{n-1} (b_x1), X_n (b_x2: the previous output),
     X_{n-1} - X_{n-2} (b_dx1), X_n - X_{n-1} (b_dx2), previous rho.  At the first iteration of a resolution X_1 = u1 + rx (the unknowns
     at the beginning of this resolution: repaired code; `first_from_input = false` is the code before the repair, which kept the last
     iterate of the previous, possibly rejected, resolution). *)
  Record st6 := { b_u : vec; b_x1 : vec; b_x2 : vec; b_dx1 : vec; b_dx2 : vec; b_r : vec }.
  Definition st6_init (n : nat) : st6 :=
    {| b_u := zeros n; b_x1 := zeros n; b_x2 := zeros n; b_dx1 := zeros n; b_dx2 := zeros n; b_r := zeros n |}.
  Definition crossed2deltabis_step (first_from_input : bool) (trigger : nat) (thr thr99 : T) (st : st6) (iter : nat) (u1 rx : vec)
    : st6 * vec :=
    let x1 := if first_from_input && (iter =? 1)%nat then vadd u1 rx else b_x2 st in
    let x0 := b_x1 st in
    let dx0 := b_dx1 st in
    let dx1 := b_dx2 st in
    let r0 := b_r st in
    let r1 := vopp rx in
    let du := vsub u1 (b_u st) in
    let dr := vsub r1 r0 in
    let dudx := vsub du dx0 in
    let out :=
      if (trigger <=? iter)%nat then
        let ma := dot dr dr in
        if (iter =? 2)%nat then
          if thr <? ma then vsub u1 (vscal (dot du dr / ma) r1) else u1
        else
          let mc := dot dudx dudx in
          let mb := dot dr dudx in
          let det := ma * mc - mb * mb in
          if ratio_lt (mb * mb) (ma * mc) thr99 then
            let b1 := dot dr du in
            let b2 := dot dudx du in
            let l1 := (mc * b1 - mb * b2) / det in
            let l2 := (ma * b2 - mb * b1) / det in
            vsub u1 (vadd (vscal l1 r1) (vscal l2 (vsub u1 x0)))
          else if thr <? ma then vsub u1 (vscal (dot du dr / ma) r1) else u1
      else u1 in
    ({| b_u := u1; b_x1 := x1; b_x2 := out; b_dx1 := dx1; b_dx2 := vsub out x1; b_r := r1 |}, out).

  (* ---------------------------------------------------------------- Anderson (UAnderson / FAnderson + CovarianceMatrix)
     The weights are modelled at the level of their mathematical meaning: w = C^-1 1 / (1^T C^-1 1), C the Gram matrix of the
     stored D fields -- what CovarianceMatrix::weightsGSchmidtD computes when C is non singular.  The rank-deficient path of
     GSFactorD (ne[i] < C[0]*eps^2 => vector dropped) is NOT modelled: the model answers None there. *)
  (* Gauss elimination without pivoting on an augmented matrix (rows = coefficients ++ [rhs]) *)
  Fixpoint gsolve (n : nat) (M : list vec) : option vec :=
    match n, M with
    | O, _ => Some []
    | S n', (p :: row0) :: others =>
      if feqb F p f0 then None
      else
        let others' := map (fun r => match r with a :: r' => vsub r' (vscal (a / p) row0) | [] => [] end) others in
        match gsolve n' others' with
        | None => None
        | Some xs => Some ((last row0 f0 - dot (removelast row0) xs) / p :: xs)
        end
    | _, _ => None
    end.
  Definition gram (Ds : list vec) : list vec := map (fun Di => map (fun Dj => dot Di Dj) Ds ++ [f1]) Ds.
  Definition normalise (v : vec) : option vec :=
    let d := vsum v in if feqb F d f0 then None else Some (map (fun x => x / d) v).
  Definition anderson_weights (Ds : list vec) : option vec :=
    match gsolve (length Ds) (gram Ds) with None => None | Some v => normalise v end.
  Fixpoint lincomb (n : nat) (w : vec) (us : list vec) : vec :=
    match w, us with
    | wj :: w', uj :: us' => vadd (vscal wj uj) (lincomb n w' us')
    | _, _ => zeros n
    end.

  Record ast := { a_hist : list (vec * vec) (* (u_j, D_j), oldest first *); a_alt : nat; a_uO : vec }.
  Definition ast_init (alMax n : nat) : ast := {| a_hist := []; a_alt := alMax; a_uO := zeros n |}.
  Definition push (Nmax : nat) (h : list (vec * vec)) (e : vec * vec) : list (vec * vec) :=
    (if (length h <? Nmax)%nat then h else tl h) ++ [e].
  (* common part of UAnderson::newIter / FAnderson::newIter once the new D field is known; None = weights undefined (NaN in C++) *)
  Definition anderson_core (Nmax alMax : nat) (st : ast) (u1 D : vec) : option (ast * vec) :=
    let h := push Nmax (a_hist st) (u1, D) in
    if (1 <? length h)%nat && (a_alt st =? alMax)%nat then
      match anderson_weights (map snd h) with
      | None => None
      | Some w => let out := lincomb (length u1) w (map fst h) in Some ({| a_hist := h; a_alt := 1%nat; a_uO := out |}, out)
      end
    else Some ({| a_hist := h; a_alt := if (a_alt st <? alMax)%nat then S (a_alt st) else a_alt st; a_uO := u1 |}, u1).
  (* UAndersonAccelerationAlgorithm::execute : D = x_n - G(x_n), x_n = u1 - du at the first iteration, the previous output afterwards *)
  Definition uanderson_step (Nmax alMax : nat) (st : ast) (iter : nat) (u1 du : vec) : option (ast * vec) :=
    let xn := if (iter =? 1)%nat then vsub u1 du else a_uO st in
    anderson_core Nmax alMax st u1 (vsub xn u1).
  (* FAndersonAccelerationAlgorithm::execute : D = r *)
  Definition fanderson_step (Nmax alMax : nat) (st : ast) (iter : nat) (u1 r : vec) : option (ast * vec) :=
    anderson_core Nmax alMax st u1 r.
  (* ---------------------------------------------------------------- Anderson weights as the code computes them:
     CovarianceMatrix::GSFactorD + weightsGSchmidtD, Gram-Schmidt on the stored D fields in DESCENDING order (newest first),
     a direction whose squared norm falls below C[0]*eps^2 (C[0] = |oldest field|^2, eps = 100*epsilon) is dropped: the rank-deficient
     path.  Written on the vectors themselves (the code works on their Gram matrix: same numbers in exact arithmetic):
       e_i = D_i - sum_{j<i, kept} (<e_j, D_i>/ne_j) e_j ,  t_i = coefficients of e_i on the fields,  ne_i = <e_i, D_i>,
       rw_i = (sum t_i)/ne_i (0 if dropped),  v = sum_i rw_i t_i,  w = v / sum v. *)
  Record gsv := { g_e : vec; g_t : vec; g_ne : T }.
  Fixpoint unitv (n k : nat) : vec :=
    match n with
    | O => []
    | S n' => match k with O => f1 :: zeros n' | S k' => f0 :: unitv n' k' end
    end.
  Definition gs_project (D : vec) (acc : vec * vec) (g : gsv) : vec * vec :=
    if f0 <? g_ne g then
      let a := dot (g_e g) D / g_ne g in (vsub (fst acc) (vscal a (g_e g)), vsub (snd acc) (vscal a (g_t g)))
    else acc.
  Fixpoint gs_build (thr : T) (N : nat) (done : list gsv) (k : nat) (Ds : list vec) : list gsv :=
    match Ds with
    | [] => done
    | D :: rest =>
      let et := fold_left (gs_project D) done (D, unitv N k) in
      let ne := dot (fst et) D in
      let ne' := if ne <? thr then f0 else ne in
      gs_build thr N (done ++ [{| g_e := fst et; g_t := snd et; g_ne := ne' |}]) (S k) rest
    end.
  Definition gs_weights_desc (eps2 : T) (Ds_desc : list vec) : option vec :=
    let N := length Ds_desc in
    let c0 := match rev Ds_desc with D0 :: _ => dot D0 D0 | [] => f0 end in
    let gs := gs_build (c0 * eps2) N [] 0 Ds_desc in
    let v := fold_left (fun acc g => if f0 <? g_ne g then vadd acc (vscal (vsum (g_t g) / g_ne g) (g_t g)) else acc) gs (zeros N) in
    normalise v.
  (* weights in storage order (oldest first) *)
  Definition anderson_weights_gs (eps2 : T) (Ds : list vec) : option vec :=
    match gs_weights_desc eps2 (rev Ds) with None => None | Some w => Some (rev w) end.
  Definition anderson_core_gs (eps2 : T) (Nmax alMax : nat) (st : ast) (u1 D : vec) : option (ast * vec) :=
    let h := push Nmax (a_hist st) (u1, D) in
    if (1 <? length h)%nat && (a_alt st =? alMax)%nat then
      match anderson_weights_gs eps2 (map snd h) with
      | None => None
      | Some w => let out := lincomb (length u1) w (map fst h) in Some ({| a_hist := h; a_alt := 1%nat; a_uO := out |}, out)
      end
    else Some ({| a_hist := h; a_alt := if (a_alt st <? alMax)%nat then S (a_alt st) else a_alt st; a_uO := u1 |}, u1).
  Definition uanderson_gs_step (eps2 : T) (Nmax alMax : nat) (st : ast) (iter : nat) (u1 du : vec) : option (ast * vec) :=
    let xn := if (iter =? 1)%nat then vsub u1 du else a_uO st in
    anderson_core_gs eps2 Nmax alMax st u1 (vsub xn u1).
  Definition fanderson_gs_step (eps2 : T) (Nmax alMax : nat) (st : ast) (iter : nat) (u1 r : vec) : option (ast * vec) :=
    anderson_core_gs eps2 Nmax alMax st u1 r.
End Model.

(* ---------------------------------------------------------------- instances *)
Definition QF : Fld Q := {|
  fofZ := inject_Z;
  fadd := fun a b => Qred (Qplus a b); fsub := fun a b => Qred (Qminus a b); fmul := fun a b => Qred (Qmult a b);
  fdiv := fun a b => Qred (Qdiv a b); fopp := Qopp; fabs := Qabs;
  fltb := fun a b => match Qcompare a b with Lt => true | _ => false end;
  feqb := Qeq_bool |}.

Definition RF : Fld R := {|
  fofZ := IZR;
  fadd := Rplus; fsub := Rminus; fmul := Rmult; fdiv := Rdiv; fopp := Ropp; fabs := Rabs;
  fltb := fun a b => if Rlt_dec a b then true else false;
  feqb := fun a b => if Req_EM_T a b then true else false |}.

(* runners used by the harness: fold a step function over a script, collecting the outputs *)
Section Run.
  Context {T S I : Type}.
  Fixpoint run (step : S -> nat -> I -> S * list T) (st : S) (iter : nat) (script : list I) : list (list T) :=
    match script with
    | [] => []
    | x :: script' => let '(st', out) := step st iter x in out :: run step st' (Datatypes.S iter) script'
    end.
  Fixpoint run_opt (step : S -> nat -> I -> option (S * list T)) (st : S) (iter : nat) (script : list I) : list (option (list T)) :=
    match script with
    | [] => []
    | x :: script' =>
      match step st iter x with
      | None => [None]
      | Some (st', out) => Some out :: run_opt step st' (Datatypes.S iter) script'
      end
    end.
End Run.

(* scripts that span several resolutions: every entry carries its iteration number (1 = first iteration of a resolution) *)
Section RunIters.
  Context {T S I : Type}.
  Fixpoint run_it (step : S -> nat -> I -> S * list T) (st : S) (script : list (nat * I)) : list (list T) :=
    match script with
    | [] => []
    | (it, x) :: script' => let '(st', out) := step st it x in out :: run_it step st' script'
    end.
End RunIters.

(* ---------------------------------------------------------------- Cast3M as the code writes it (square roots): over R only.
   nr0 = |r1 - r0|, n0 = (r1-r0)/nr0, ntmp1 = (r2-r0).n0, t1' = (r2-r0) - ntmp1 n0, nr1 = |t1'|, n1 = t1'/nr1 *)
Local Open Scope R_scope.
Definition castem_combine_sqrt (ca_eps : R) (u0 u1 u2 r0 r1 r2 unew : list R) : list R :=
  let t0 := vsub RF r1 r0 in
  let t1 := vsub RF r2 r0 in
  let nr0 := sqrt (dot RF t0 t0) in
  if Rlt_dec ca_eps nr0 then
    let n0 := vscal RF (/ nr0) t0 in
    let ntmp1 := dot RF t1 n0 in
    let t1' := vsub RF t1 (vscal RF ntmp1 n0) in
    let nr1 := sqrt (dot RF t1' t1') in
    if Rlt_dec (Rabs ntmp1 / 10) nr1 then      (* nr1 > 0.1 * |ntmp1| *)
      let n1 := vscal RF (/ nr1) t1' in
      let p0 := (- dot RF r0 n0)%R in
      let p1 := (- dot RF r0 n1)%R in
      let c2 := (p1 / nr1)%R in
      let c1 := ((p0 - ntmp1 * c2) / nr0)%R in
      vadd RF (vadd RF (vscal RF (1 - c2 - c1) u0) (vscal RF c1 u1)) (vscal RF c2 u2)
    else
      let c0 := (- dot RF r0 n0 / nr0)%R in
      vadd RF (vscal RF (1 - c0) u0) (vscal RF c0 u1)
  else unew.
Local Close Scope R_scope.

(* ---------------------------------------------------------------- control flow of GenericSolver::iterate / execute
   The study is reduced to the verdicts of checkConvergence, consumed in order.  `nopred`: PredictionPolicy::NOPREDICTION
   (convergence is never accepted at the first iteration). *)
Fixpoint it_loop (k : nat) (iter : nat) (nopred : bool) (vs : list bool) : bool * nat * list bool :=
  match k with
  | O => (true, iter, vs)        (* `while (!converged && iter != iterMax)` left with iter = iterMax: only when iterMax = 0 *)
  | S k' =>
    match vs with
    | [] => (false, S iter, [])  (* script exhausted *)
    | v :: vs' =>
      if (if nopred then (1 <? S iter)%nat else true) && v then (true, S iter, vs')
      else if (k' =? 0)%nat then (false, S iter, vs')           (* `if (iter == o.iterMax) return {false, ...}` *)
      else it_loop k' (S iter) nopred vs'
    end
  end.
Definition iterate_model (iterMax : nat) (nopred : bool) (vs : list bool) : bool * nat * list bool := it_loop iterMax 0%nat nopred vs.

(* GenericSolver::execute without dynamic time step scaling: events (t, dt, iterations, accepted) and final status
   (true = end of the time step reached, false = `maximum number of sub stepping reached`) *)
Fixpoint execute_model (fuel mSub iterMax : nat) (nopred : bool) (sub : nat) (t dt te teps : Q) (vs : list bool)
  : list (Q * Q * nat * bool) * bool :=
  match fuel with
  | O => ([], false)
  | S f =>
    let '(acc, n, vs') := iterate_model iterMax nopred vs in
    if acc then
      let t' := Qred (t + dt)%Q in
      if (match Qcompare (Qabs (te - t')%Q) teps with Lt => true | _ => false end) || (match Qcompare te t' with Lt => true | _ => false end)
      then ([(t, dt, n, true)], true)
      else let r := execute_model f mSub iterMax nopred sub t' dt te teps vs' in ((t, dt, n, true) :: fst r, snd r)
    else
      if (S sub =? mSub)%nat then ([(t, dt, n, false)], false)
      else let r := execute_model f mSub iterMax nopred (S sub) t (Qred (dt / 2)%Q) te teps vs' in ((t, dt, n, false) :: fst r, snd r)
  end.

(* C49 -- specification side, written without reference to the models of the code.
   Vectors are lists of reals; the base (un-accelerated) iteration of GenericSolver is x -> G x = x - K^-1 r(x). *)
From Coq Require Import List Reals Lra.
Import ListNotations.
Local Open Scope R_scope.

(* ---- scalar affine problems: residual r(x) = k (x - xs), constant stiffness K, G x = x - r(x)/K = xs + c (x - xs), c = 1 - k/K *)
Definition res1 (k xs x : R) : R := k * (x - xs).
Definition G1 (c xs x : R) : R := xs + c * (x - xs).

(* ---- n-dimensional vectors *)
Fixpoint sdot (a b : list R) : R := match a, b with x :: a', y :: b' => x * y + sdot a' b' | _, _ => 0 end.
Fixpoint ssub (a b : list R) : list R := match a, b with x :: a', y :: b' => (x - y) :: ssub a' b' | _, _ => [] end.
Definition all_le (bound : R) (a : list R) : Prop := Forall (fun x => Rabs x <= bound) a.

(* the residual map is strongly monotone with modulus m on vectors of dimension n *)
Definition strongly_monotone (n : nat) (m : R) (r : list R -> list R) : Prop :=
  forall u v, length u = n -> length v = n ->
    length (r u) = n /\ m * sdot (ssub u v) (ssub u v) <= sdot (ssub (r u) (r v)) (ssub u v).

(* what GenericSolver::iterate accepts with the convergence predicate of MTest::checkConvergence: the test is made on the correction
   du and on the residual r(x) of the iterate x BEFORE the last correction, the state kept is u = x - du *)
Definition accepted (n : nat) (r : list R -> list R) (eeps seps : R) (u : list R) : Prop :=
  exists x du, length x = n /\ length du = n /\ u = ssub x du /\ all_le eeps du /\ all_le seps (r x).

(* tolerance-derived bound on the distance (each component) between two accepted states *)
Definition tolerance_bound (n : nat) (m eeps seps : R) : R := 2 * sqrt (INR n) * seps / m + 2 * eeps.

(* C49 -- property statements, part 2 (each is exactly a lemma of C49ProofsB.v): the five Delta2 / 2Delta acceleration algorithms,
   the Anderson weights through the Gram-Schmidt factorisation of the code, Cast3M in its square-root form, control flow of the solver. *)
From Coq Require Import List Reals Bool Arith ZArith QArith.
From C49 Require Import C49Spec C49Model C49Proofs C49ProofsB.
Import ListNotations.
Local Open Scope R_scope.

(* AlternateDelta2: if the current iterate is a fixed point of G (rx = 0) the accelerated iterate is that point, whatever the (well-dimensioned) history *)
Theorem C49_altdelta2_fixed :
  forall (trig : nat) (thr : R) (st : st5) (iter : nat) (x : list R), wf5 (length x) st -> snd (altdelta2_step RF trig thr st iter x (zeros RF (length x))) = x.
Proof. exact altdelta2_fixed. Qed.
Print Assumptions C49_altdelta2_fixed.

(* Alternate2Delta: same *)
Theorem C49_alt2delta_fixed :
  forall (trig : nat) (thr thr99 : R) (st : st5) (iter : nat) (x : list R), wf5 (length x) st -> snd (alt2delta_step RF trig thr thr99 st iter x (zeros RF (length x))) = x.
Proof. exact alt2delta_fixed. Qed.
Print Assumptions C49_alt2delta_fixed.

(* CrossedDelta2: if the stored and the incoming G-values coincide (both are the fixed point) the accelerated iterate is that value *)
Theorem C49_crosseddelta2_fixed :
  forall (trig : nat) (thr : R) (st : st5) (iter : nat) (x rx : list R), wf5 (length x) st -> length rx = length x -> d_u st = x -> snd (crosseddelta2_step RF trig thr st iter x rx) = x.
Proof. exact crosseddelta2_fixed. Qed.
Print Assumptions C49_crosseddelta2_fixed.

(* Crossed2Delta: same *)
Theorem C49_crossed2delta_fixed :
  forall (trig : nat) (thr thr99 : R) (st : st5) (iter : nat) (x rx : list R), wf5 (length x) st -> length rx = length x -> d_u st = x -> snd (crossed2delta_step RF trig thr thr99 st iter x rx) = x.
Proof. exact crossed2delta_fixed. Qed.
Print Assumptions C49_crossed2delta_fixed.

(* Crossed2Deltabis (before and after the repair of its first iteration): same *)
Theorem C49_crossed2deltabis_fixed :
  forall (ffi : bool) (trig : nat) (thr thr99 : R) (st : st6) (iter : nat) (x rx : list R), wf6 (length x) st -> length rx = length x -> b_u st = x -> snd (crossed2deltabis_step RF ffi trig thr thr99 st iter x rx) = x.
Proof. exact crossed2deltabis_fixed. Qed.
Print Assumptions C49_crossed2deltabis_fixed.

(* ... but CrossedDelta2 does NOT keep a fixed-point iterate (rx = 0) when the history is arbitrary: its correction is along rho_n - rho_{n-1} (observation; unreachable through GenericSolver, which accepts such an iterate first) *)
Theorem C49_crosseddelta2_moves_fixed_point :
  exists (st : st5) (x : vec), wf5 1 st /\ snd (crosseddelta2_step RF 3 0 st 3 x [0]) <> x.
Proof. exact crosseddelta2_moves_fixed_point. Qed.
Print Assumptions C49_crosseddelta2_moves_fixed_point.

(* AlternateDelta2 is exact on scalar affine maps from any three iterates whose second difference passes the guard *)
Theorem C49_altdelta2_exact_1d :
  forall (c xs x0 x1 x2 : R) (trig : nat) (thr : R) (iter : nat) (st : st5), 0 <= thr -> (trig <=? iter) = true -> (iter =? 2) = false -> d_u st = [G1 c xs x1] -> d_du st = [G1 c xs x1 - G1 c xs x0] -> d_r st = [rho1 c xs x1] -> d_dr st = [rho1 c xs x1 - rho1 c xs x0] -> thr < (rho1 c xs x2 - rho1 c xs x1 - (rho1 c xs x1 - rho1 c xs x0)) * (rho1 c xs x2 - rho1 c xs x1 - (rho1 c xs x1 - rho1 c xs x0)) -> snd (altdelta2_step RF trig thr st iter [G1 c xs x2] [x2 - G1 c xs x2]) = [xs].
Proof. exact altdelta2_exact_1d. Qed.
Print Assumptions C49_altdelta2_exact_1d.

(* Alternate2Delta on scalar affine maps: the 2x2 system is singular in dimension 1 (ratio 1 or 0/0, never < 0.99), the secant fallback is exact from two iterates *)
Theorem C49_alt2delta_exact_1d :
  forall (c xs x0 x1 a b : R) (trig : nat) (thr thr99 : R) (iter : nat) (st : st5), 0 <= thr -> thr99 < 1 -> (trig <=? iter) = true -> d_u st = [G1 c xs x0] -> d_r st = [rho1 c xs x0] -> d_du st = [a] -> d_dr st = [b] -> thr < (rho1 c xs x1 - rho1 c xs x0) * (rho1 c xs x1 - rho1 c xs x0) -> snd (alt2delta_step RF trig thr thr99 st iter [G1 c xs x1] [x1 - G1 c xs x1]) = [xs].
Proof. exact alt2delta_exact_1d. Qed.
Print Assumptions C49_alt2delta_exact_1d.

(* CrossedDelta2 (Aitken on the G-values) is exact on scalar affine maps from three consecutive base iterates *)
Theorem C49_crosseddelta2_exact_1d :
  forall (c xs x0 : R) (trig : nat) (thr : R) (iter : nat) (st : st5), 0 <= thr -> (trig <=? iter) = true -> (iter =? 2) = false -> let x1 := G1 c xs x0 in let x2 := G1 c xs x1 in d_u st = [G1 c xs x1] -> d_r st = [rho1 c xs x1] -> d_dr st = [rho1 c xs x1 - rho1 c xs x0] -> thr < (rho1 c xs x2 - rho1 c xs x1 - (rho1 c xs x1 - rho1 c xs x0)) * (rho1 c xs x2 - rho1 c xs x1 - (rho1 c xs x1 - rho1 c xs x0)) -> snd (crosseddelta2_step RF trig thr st iter [G1 c xs x2] [x2 - G1 c xs x2]) = [xs].
Proof. exact crosseddelta2_exact_1d. Qed.
Print Assumptions C49_crosseddelta2_exact_1d.

(* Crossed2Delta on scalar affine maps: crossed secant fallback, exact from two iterates *)
Theorem C49_crossed2delta_exact_1d :
  forall (c xs x0 x1 a b : R) (trig : nat) (thr thr99 : R) (iter : nat) (st : st5), 0 <= thr -> thr99 < 1 -> (trig <=? iter) = true -> d_u st = [G1 c xs x0] -> d_r st = [rho1 c xs x0] -> d_du st = [a] -> d_dr st = [b] -> thr < (rho1 c xs x1 - rho1 c xs x0) * (rho1 c xs x1 - rho1 c xs x0) -> snd (crossed2delta_step RF trig thr thr99 st iter [G1 c xs x1] [x1 - G1 c xs x1]) = [xs].
Proof. exact crossed2delta_exact_1d. Qed.
Print Assumptions C49_crossed2delta_exact_1d.

(* Crossed2Deltabis on scalar affine maps: same *)
Theorem C49_crossed2deltabis_exact_1d :
  forall (c xs x0 x1 a : R) (ffi : bool) (trig : nat) (thr thr99 : R) (iter : nat) (st : st6), 0 <= thr -> thr99 < 1 -> (trig <=? iter) = true -> b_u st = [G1 c xs x0] -> b_r st = [rho1 c xs x0] -> b_dx1 st = [a] -> thr < (rho1 c xs x1 - rho1 c xs x0) * (rho1 c xs x1 - rho1 c xs x0) -> snd (crossed2deltabis_step RF ffi trig thr thr99 st iter [G1 c xs x1] [x1 - G1 c xs x1]) = [xs].
Proof. exact crossed2deltabis_exact_1d. Qed.
Print Assumptions C49_crossed2deltabis_exact_1d.

(* Anderson weights as the code computes them (Gram-Schmidt in descending order with dropped directions: GSFactorD / weightsGSchmidtD): whenever defined they sum to 1 *)
Theorem C49_anderson_gs_weights_sum :
  forall (eps2 : R) (Ds : list vec) (w : vec), anderson_weights_gs RF eps2 Ds = Some w -> vsum RF w = 1 /\ length w = length Ds.
Proof. exact weights_gs_sum. Qed.
Print Assumptions C49_anderson_gs_weights_sum.

(* UAnderson through the Gram-Schmidt weights: fixed points are preserved whenever the weights are defined *)
Theorem C49_uanderson_gs_fixed :
  forall (eps2 : R) (Nmax alMax : nat) (st : ast) (iter : nat) (x du : list R) (st' : ast) (out : vec), Forall (fun e : list R * vec => fst e = x) (a_hist st) -> uanderson_gs_step RF eps2 Nmax alMax st iter x du = Some (st', out) -> out = x /\ Forall (fun e : list R * vec => fst e = x) (a_hist st').
Proof. exact uanderson_gs_fixed. Qed.
Print Assumptions C49_uanderson_gs_fixed.

(* FAnderson: same *)
Theorem C49_fanderson_gs_fixed :
  forall (eps2 : R) (Nmax alMax : nat) (st : ast) (iter : nat) (x r : list R) (st' : ast) (out : vec), Forall (fun e : list R * vec => fst e = x) (a_hist st) -> fanderson_gs_step RF eps2 Nmax alMax st iter x r = Some (st', out) -> out = x /\ Forall (fun e : list R * vec => fst e = x) (a_hist st').
Proof. exact fanderson_gs_fixed. Qed.
Print Assumptions C49_fanderson_gs_fixed.

(* rank-deficient path: in dimension 1 two stored fields are dependent, the older one is dropped, weights (0, 1): the output is the newest G-value (no acceleration) *)
Theorem C49_anderson_gs_1d_drops_older :
  forall eps2 d0 d1 : R, 0 <= eps2 -> d1 <> 0 -> d0 * d0 * eps2 <= d1 * d1 -> anderson_weights_gs RF eps2 [[d0]; [d1]] = Some [0; 1].
Proof. exact gs_1d_drops_older. Qed.
Print Assumptions C49_anderson_gs_1d_drops_older.

(* Cast3M as the code writes it (norms by square roots, normalised directions) is the algebraic model used by the correspondence and by the theorems *)
Theorem C49_castem_sqrt_form :
  forall (ca_eps : R) (u0 u1 u2 r0 r1 r2 unew : list R), 0 <= ca_eps -> castem_combine_sqrt ca_eps u0 u1 u2 r0 r1 r2 unew = castem_combine RF (ca_eps * ca_eps) u0 u1 u2 r0 r1 r2 unew.
Proof. exact castem_sqrt_form. Qed.
Print Assumptions C49_castem_sqrt_form.

(* control flow of GenericSolver::iterate: a resolution is accepted only on a `converged` verdict, reached within iterMax iterations, and not at the first iteration without prediction *)
Theorem C49_iterate_accepts_only_converged :
  forall (iterMax : nat) (nopred : bool) (vs : list bool) (n : nat) (rest : list bool), (0 < iterMax)%nat -> iterate_model iterMax nopred vs = (true, n, rest) -> (0 < n <= iterMax)%nat /\ nth (n - 1) vs false = true /\ (nopred = true -> (1 < n)%nat).
Proof. exact iterate_model_sound. Qed.
Print Assumptions C49_iterate_accepts_only_converged.

(* after iterMax iterations without convergence the resolution is rejected (sub-stepping follows) *)
Theorem C49_iterate_rejects_after_iterMax :
  forall (iterMax : nat) (nopred : bool) (vs : list bool), (0 < iterMax)%nat -> (iterMax <= length vs)%nat -> (forall i : nat, (i < iterMax)%nat -> nth i vs false = false) -> fst (fst (iterate_model iterMax nopred vs)) = false.
Proof. exact iterate_model_rejects. Qed.
Print Assumptions C49_iterate_rejects_after_iterMax.

(* GenericSolver::execute with sub-stepping: every accepted sub-step ended on a `converged` verdict within iterMax iterations *)
Theorem C49_execute_accepts_only_converged :
  forall (fuel mSub iterMax : nat) (nopred : bool) (sub : nat) (t dt te teps : Q) (vs : list bool) (evs : list (Q * Q * nat * bool)) (status : bool), (0 < iterMax)%nat -> execute_model fuel mSub iterMax nopred sub t dt te teps vs = (evs, status) -> Forall (fun ev : Q * Q * nat * bool => snd ev = true -> (0 < snd (fst ev) <= iterMax)%nat /\ (nopred = true -> (1 < snd (fst ev))%nat)) evs.
Proof. exact execute_model_sound. Qed.
Print Assumptions C49_execute_accepts_only_converged.

